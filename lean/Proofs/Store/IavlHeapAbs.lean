import Proofs.Store.IavlHeapSys
/-!
# IAVL on the heap: the abstraction function `abs` and the frozen-roots theorems (C09 stage B)
-/
namespace Iavl.Heap
open Iavl
variable (H : HashIn → Hash)

theorem absDB_of_inDB {db : Hash → Option Stored} :
    ∀ (t : Node) (fuel : Nat), depth t < fuel → InDB H db t → absDB db fuel (treeHash H t) = some t := by
  intro t
  induction t with
  | leaf k v ver =>
    intro fuel hf h
    obtain ⟨fuel, rfl⟩ : ∃ f, fuel = f + 1 := ⟨fuel - 1, by omega⟩
    simp only [InDB] at h
    simp [absDB, h, storedOf]
  | inner k hh s l r ver ihl ihr =>
    intro fuel hf h
    obtain ⟨fuel, rfl⟩ : ∃ f, fuel = f + 1 := ⟨fuel - 1, by omega⟩
    have hdl : depth l < fuel := by simp only [depth] at hf; omega
    have hdr : depth r < fuel := by simp only [depth] at hf; omega
    obtain ⟨h0, hrec, hl, hr⟩ := h
    simp [absDB, hrec, storedOf, h0, ihl fuel hdl hl, ihr fuel hdr hr]

/-- **`abs` computes the represented tree**: if `a` represents `t`, the abstraction function returns
`t` for every fuel above the depth of `t`. -/
theorem abs_of_rep {P : Addr → Prop} {st : St} :
    ∀ (t : Node) (a : Addr) (fuel : Nat), depth t < fuel → Rep H P st t a → abs st fuel a = some t := by
  intro t
  induction t with
  | leaf k v ver =>
    intro a fuel hf h
    obtain ⟨fuel, rfl⟩ : ∃ f, fuel = f + 1 := ⟨fuel - 1, by omega⟩
    obtain ⟨_, c, hc, h1, h2, h3, _, h5, _⟩ := h
    simp [abs, hc, h1, h2, h3, h5]
  | inner k hh s l r ver ihl ihr =>
    intro a fuel hf h
    obtain ⟨fuel, rfl⟩ : ∃ f, fuel = f + 1 := ⟨fuel - 1, by omega⟩
    have hdl : depth l < fuel := by simp only [depth] at hf; omega
    have hdr : depth r < fuel := by simp only [depth] at hf; omega
    obtain ⟨_, c, hc, h1, h2, h3, h4, h5, hl, hr, _, _⟩ := h
    have h0 : c.height ≠ 0 := by rw [h2]; exact h3
    have el : (match c.leftPtr with
        | some p => abs st fuel p
        | none => c.leftHash.bind (absDB st.db fuel)) = some l := by
      cases hp : c.leftPtr with
      | some p => simp only [ChildOK, hp] at hl; exact ihl p fuel hdl hl.1
      | none =>
        simp only [ChildOK, hp] at hl
        simp only [hl.1, Option.bind_some]
        exact absDB_of_inDB H l fuel hdl hl.2
    have er : (match c.rightPtr with
        | some p => abs st fuel p
        | none => c.rightHash.bind (absDB st.db fuel)) = some r := by
      cases hp : c.rightPtr with
      | some p => simp only [ChildOK, hp] at hr; exact ihr p fuel hdr hr.1
      | none =>
        simp only [ChildOK, hp] at hr
        simp only [hr.1, Option.bind_some]
        exact absDB_of_inDB H r fuel hdr hr.2
    simp only [abs, hc, Option.bind_eq_bind, Option.bind_some, h1, h2, h4, h5, if_neg h3]
    cases hpl : c.leftPtr <;> cases hpr : c.rightPtr <;> simp only [hpl, hpr] at el er ⊢ <;>
      simp only [el, er, Option.bind_some]

theorem absRoot_of_rep {P : Addr → Prop} {st : St} {root : Option Node} {ra : Option Addr} (fuel : Nat)
    (hf : ∀ t, root = some t → depth t < fuel) (h : RepRoot H P st root ra) : absRoot st fuel ra = some root := by
  cases root <;> cases ra
  · rfl
  · cases h
  · cases h
  · simp [absRoot, abs_of_rep H _ _ fuel (hf _ rfl) h]

/-! ## Histories: appending, and views are only ever appended -/

theorem pureRun_append (T : Tree) (V : List (Option Node)) (a b : List HOp) :
    pureRun H T V (a ++ b) =
      ((pureRun H (pureRun H T V a).1 (pureRun H T V a).2.1 b).1,
       (pureRun H (pureRun H T V a).1 (pureRun H T V a).2.1 b).2.1,
       (pureRun H T V a).2.2 ++ (pureRun H (pureRun H T V a).1 (pureRun H T V a).2.1 b).2.2) := by
  induction a generalizing T V with
  | nil => rfl
  | cons op rest ih => simp only [List.cons_append, pureRun, ih, List.cons_append]

theorem AdequateRun.append {fuel : Nat} {T : Tree} {V : List (Option Node)} {a b : List HOp}
    (h : AdequateRun fuel T V (a ++ b)) :
    AdequateRun fuel T V a ∧ AdequateRun fuel (pureRun H T V a).1 (pureRun H T V a).2.1 b := by
  induction a generalizing T V with
  | nil =>
    refine ⟨?_, h⟩
    cases b with
    | nil => exact h
    | cons _ _ => exact h.1
  | cons op rest ih =>
    obtain ⟨h1, h2⟩ := h
    obtain ⟨i1, i2⟩ := ih h2
    exact ⟨⟨h1, i1⟩, i2⟩

theorem runH_append (cfg : Cfg) (fuel : Nat) (sys : Sys) (a b : List HOp) :
    runH H cfg fuel sys (a ++ b) =
      (runH H cfg fuel sys a).bind (fun r => (runH H cfg fuel r.1 b).map (fun r2 => (r2.1, r.2 ++ r2.2))) := by
  induction a generalizing sys with
  | nil => simp [runH]
  | cons op rest ih =>
    simp only [List.cons_append, runH]
    cases hs : stepH H cfg fuel sys op with
    | none => rfl
    | some p =>
      obtain ⟨sys', out⟩ := p
      simp only [ih]
      cases runH H cfg fuel sys' rest with
      | none => rfl
      | some r =>
        simp only [Option.map_some, Option.bind_some]
        cases runH H cfg fuel r.1 b <;> simp

theorem pureViews_prefix (T : Tree) (V : List (Option Node)) (op : HOp) : ∃ more, pureViews T V op = V ++ more := by
  cases op with
  | getImmutable v =>
    simp only [pureViews]
    cases T.getImmutable v with
    | none => exact ⟨[], by simp⟩
    | some root => exact ⟨[root], rfl⟩
  | lazyLoad target =>
    simp only [pureViews]
    cases T.lazyLoadVersion target with
    | view root v => exact ⟨[root], rfl⟩
    | errTooNew => exact ⟨[], by simp⟩
    | nilTree => exact ⟨[], by simp⟩
    | errMissing => exact ⟨[], by simp⟩
  | _ => exact ⟨[], by simp [pureViews]⟩

theorem pureRun_views_prefix (T : Tree) (V : List (Option Node)) (ops : List HOp) :
    ∃ more, (pureRun H T V ops).2.1 = V ++ more := by
  induction ops generalizing T V with
  | nil => exact ⟨[], by simp [pureRun]⟩
  | cons op rest ih =>
    obtain ⟨m1, h1⟩ := pureViews_prefix T V op
    obtain ⟨m2, h2⟩ := ih (pureStep T op) (pureViews T V op)
    exact ⟨m1 ++ m2, by simp only [pureRun]; rw [h2, h1, List.append_assoc]⟩

end Iavl.Heap
