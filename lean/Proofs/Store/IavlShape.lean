import PocketModel.Store.IavlSpec
/-!
# IAVL: shape invariant (stored height/size correct, AVL balance)

`balance` restores the invariant whenever the two subtrees differ by at most 2 in height; set and
remove change the height by at most one; Fibonacci lower bound on the size.
-/
namespace Iavl.Node

/-- Shape invariant used in the proofs (`Proofs.Store.IavlInv`: equivalent to
`Balanced ∧ SizeOK ∧ HeightOK`). -/
def Shape : Node → Prop
  | leaf .. => True
  | inner _ h s l r _ =>
    Shape l ∧ Shape r ∧ h = max l.height r.height + 1 ∧ s = l.size + r.size ∧
    l.height ≤ r.height + 1 ∧ r.height ≤ l.height + 1

@[simp] theorem height_leaf (k v : Bytes) (ver : Nat) : (leaf k v ver).height = 0 := rfl
@[simp] theorem height_inner (k : Bytes) (h s : Nat) (l r : Node) (ver : Nat) :
    (inner k h s l r ver).height = h := rfl
@[simp] theorem size_leaf (k v : Bytes) (ver : Nat) : (leaf k v ver).size = 1 := rfl
@[simp] theorem size_inner (k : Bytes) (h s : Nat) (l r : Node) (ver : Nat) :
    (inner k h s l r ver).size = s := rfl
theorem Shape_inner (k : Bytes) (h s : Nat) (l r : Node) (ver : Nat) :
    Shape (inner k h s l r ver) ↔ (Shape l ∧ Shape r ∧ h = max l.height r.height + 1 ∧ s = l.size + r.size ∧
      l.height ≤ r.height + 1 ∧ r.height ≤ l.height + 1) := Iff.rfl
theorem Shape_leaf (k v : Bytes) (ver : Nat) : Shape (leaf k v ver) ↔ True := Iff.rfl

theorem Shape.height_pos {k : Bytes} {h s : Nat} {l r : Node} {ver : Nat}
    (hs : Shape (inner k h s l r ver)) : 0 < h := by
  obtain ⟨_, _, hh, _⟩ := hs
  omega

/-- The conclusion of the balancing lemma, for a result `n` built from subtrees of heights `a`, `b`. -/
def BalOut (n : Node) (a b : Nat) : Prop :=
  Shape n ∧ max a b ≤ n.height ∧ n.height ≤ max a b + 1 ∧
  (a ≤ b + 1 → b ≤ a + 1 → n.height = max a b + 1)

/-- `balance` after `calcHeightAndSize` restores the shape invariant when the children satisfy it
and differ by at most two in height (the situation after one insertion or removal below). This
covers all four rotation cases with the code's tie-breaks, including the `balance = 0` child
that only occurs after removals. -/
theorem balance_shape (version : Nat) (k : Bytes) (h s : Nat) (l r : Node) (ver : Nat)
    (hl : Shape l) (hr : Shape r) (h1 : l.height ≤ r.height + 2) (h2 : r.height ≤ l.height + 2) :
    BalOut (balance version (calcHeightAndSize (inner k h s l r ver))) l.height r.height := by
  unfold BalOut
  simp only [calcHeightAndSize, balance]
  by_cases hb1 : (l.height : Int) - (r.height : Int) > 1
  · rw [if_pos hb1]
    -- the left side is two higher: it is an inner node
    cases l with
    | leaf lk lv lver => simp only [height_leaf] at hb1; omega
    | inner lk lh ls ll lr lver =>
      obtain ⟨hll, hlr, hlh, hls, hlb1, hlb2⟩ := hl
      simp only [height_inner] at hb1 h1 h2 ⊢
      by_cases hc : (inner lk lh ls ll lr lver).calcBalance ≥ 0
      · rw [if_pos hc]
        simp only [calcBalance] at hc
        simp only [rotateRight, calcHeightAndSize, Shape_inner, height_inner, size_inner]
        refine ⟨⟨hll, ⟨hlr, hr, ?_, ?_, ?_, ?_⟩, ?_, ?_, ?_, ?_⟩, ?_, ?_, ?_⟩ <;> first | trivial | omega
      · rw [if_neg hc]
        simp only [calcBalance] at hc
        -- left-right case: the left child's right child is higher, hence an inner node
        cases lr with
        | leaf lrk lrv lrver => simp only [height_leaf] at hc hlh; omega
        | inner lrk lrh lrs lrl lrr lrver =>
          obtain ⟨hlrl, hlrr, hlrh, hlrs, hlrb1, hlrb2⟩ := hlr
          simp only [height_inner] at hc hlh hlb1 hlb2
          simp only [rotateLeft, rotateRight, calcHeightAndSize, Shape_inner, height_inner, size_inner]
          refine ⟨⟨⟨hll, hlrl, ?_, ?_, ?_, ?_⟩, ⟨hlrr, hr, ?_, ?_, ?_, ?_⟩, ?_, ?_, ?_, ?_⟩, ?_, ?_, ?_⟩ <;> first | trivial | omega
  · rw [if_neg hb1]
    by_cases hb2 : (l.height : Int) - (r.height : Int) < -1
    · rw [if_pos hb2]
      cases r with
      | leaf rk rv rver => simp only [height_leaf] at hb2; omega
      | inner rk rh rs rl rr rver =>
        obtain ⟨hrl, hrr, hrh, hrs, hrb1, hrb2⟩ := hr
        simp only [height_inner] at hb1 hb2 h1 h2 ⊢
        by_cases hc : (inner rk rh rs rl rr rver).calcBalance ≤ 0
        · rw [if_pos hc]
          simp only [calcBalance] at hc
          simp only [rotateLeft, calcHeightAndSize, Shape_inner, height_inner, size_inner]
          refine ⟨⟨⟨hl, hrl, ?_, ?_, ?_, ?_⟩, hrr, ?_, ?_, ?_, ?_⟩, ?_, ?_, ?_⟩ <;> first | trivial | omega
        · rw [if_neg hc]
          simp only [calcBalance] at hc
          cases rl with
          | leaf rlk rlv rlver => simp only [height_leaf] at hc hrh; omega
          | inner rlk rlh rls rll rlr rlver =>
            obtain ⟨hrll, hrlr, hrlh, hrls, hrlb1, hrlb2⟩ := hrl
            simp only [height_inner] at hc hrh hrb1 hrb2
            simp only [rotateLeft, rotateRight, calcHeightAndSize, Shape_inner, height_inner, size_inner]
            refine ⟨⟨⟨hl, hrll, ?_, ?_, ?_, ?_⟩, ⟨hrlr, hrr, ?_, ?_, ?_, ?_⟩, ?_, ?_, ?_, ?_⟩, ?_, ?_, ?_⟩ <;> first | trivial | omega
    · rw [if_neg hb2]
      simp only [Shape_inner, height_inner]
      refine ⟨⟨hl, hr, trivial, trivial, ?_, ?_⟩, ?_, ?_, ?_⟩ <;> first | trivial | omega | (intros; trivial)

/-! ### recursiveSet -/

/-- `recursiveSet` keeps the shape invariant; a replacement (`updated`) leaves height and size as
they were (this is why the early return without `calcHeightAndSize` is sound), an insertion grows
the height by at most one. -/
theorem recursiveSet_shape (version : Nat) (t : Node) (key value : Bytes) (h : Shape t) :
    Shape (recursiveSet version t key value).1 ∧
    ((recursiveSet version t key value).2 = true →
      (recursiveSet version t key value).1.height = t.height ∧
      (recursiveSet version t key value).1.size = t.size) ∧
    t.height ≤ (recursiveSet version t key value).1.height ∧
    (recursiveSet version t key value).1.height ≤ t.height + 1 := by
  induction t with
  | leaf k v ver =>
    simp only [recursiveSet]
    by_cases h1 : key < k
    · rw [if_pos h1]; simp [Shape_inner, Shape_leaf]
    · rw [if_neg h1]
      by_cases h2 : k < key
      · rw [if_pos h2]; simp [Shape_inner, Shape_leaf]
      · rw [if_neg h2]; simp [Shape_leaf]
  | inner k hh s l r ver ihl ihr =>
    obtain ⟨hl, hr, hhh, hss, hb1, hb2⟩ := h
    simp only [recursiveSet]
    by_cases h1 : key < k
    · rw [if_pos h1]
      obtain ⟨ihs, ihu, ihlo, ihhi⟩ := ihl hl
      by_cases hu : (recursiveSet version l key value).2 = true
      · rw [if_pos hu]
        obtain ⟨ihh, ihsz⟩ := ihu hu
        dsimp only
        simp only [Shape_inner, height_inner, size_inner]
        refine ⟨⟨ihs, hr, ?_, ?_, ?_, ?_⟩, ?_, ?_, ?_⟩ <;> first | trivial | omega | (intro _; omega)
      · rw [if_neg hu]
        have hbal := balance_shape version k hh s (recursiveSet version l key value).1 r version ihs hr
          (by omega) (by omega)
        obtain ⟨hbs, hblo, hbhi, hbeq⟩ := hbal
        dsimp only
        simp only [height_inner]
        refine ⟨hbs, (fun hc => absurd hc (by simp)), ?_, ?_⟩ <;> first | trivial | omega
    · rw [if_neg h1]
      obtain ⟨ihs, ihu, ihlo, ihhi⟩ := ihr hr
      by_cases hu : (recursiveSet version r key value).2 = true
      · rw [if_pos hu]
        obtain ⟨ihh, ihsz⟩ := ihu hu
        dsimp only
        simp only [Shape_inner, height_inner, size_inner]
        refine ⟨⟨hl, ihs, ?_, ?_, ?_, ?_⟩, ?_, ?_, ?_⟩ <;> first | trivial | omega | (intro _; omega)
      · rw [if_neg hu]
        have hbal := balance_shape version k hh s l (recursiveSet version r key value).1 version hl ihs
          (by omega) (by omega)
        obtain ⟨hbs, hblo, hbhi, hbeq⟩ := hbal
        dsimp only
        simp only [height_inner]
        refine ⟨hbs, (fun hc => absurd hc (by simp)), ?_, ?_⟩ <;> first | trivial | omega

/-! ### recursiveRemove -/

/-- When a child is "removed entirely" it was a leaf. -/
theorem recursiveRemove_none_height {version : Nat} {t : Node} {key : Bytes}
    (h : (recursiveRemove version t key).node = none) : t.height = 0 ∧ t.size = 1 := by
  cases t with
  | leaf k v ver => simp
  | inner k hh s l r ver =>
    exfalso
    revert h
    simp only [recursiveRemove]
    split
    · split
      · simp
      · split <;> simp
    · split
      · simp
      · split <;> simp

/-- `recursiveRemove` keeps the shape invariant and shrinks the height by at most one. -/
theorem recursiveRemove_shape (version : Nat) (t : Node) (key : Bytes) (h : Shape t) :
    ∀ t', (recursiveRemove version t key).node = some t' →
      Shape t' ∧ t'.height ≤ t.height ∧ t.height ≤ t'.height + 1 := by
  induction t with
  | leaf k v ver =>
    intro t' ht'
    simp only [recursiveRemove] at ht'
    by_cases hk : key = k
    · rw [if_pos hk] at ht'; simp at ht'
    · rw [if_neg hk] at ht'
      simp only [Option.some.injEq] at ht'
      subst ht'
      simp [Shape_leaf]
  | inner k hh s l r ver ihl ihr =>
    have hfull := h
    obtain ⟨hl, hr, hhh, hss, hb1, hb2⟩ := h
    intro t' ht'
    simp only [recursiveRemove] at ht'
    by_cases h1 : key < k
    · rw [if_pos h1] at ht'
      cases hrm : (recursiveRemove version l key).removed with
      | false =>
        simp only [hrm, Bool.not_false, if_true, Option.some.injEq] at ht'
        subst ht'
        exact ⟨hfull, Nat.le_refl _, Nat.le_succ _⟩
      | true =>
        simp only [hrm, Bool.not_true, Bool.false_eq_true, if_false] at ht'
        cases hnode : (recursiveRemove version l key).node with
        | none =>
          obtain ⟨hl0, _⟩ := recursiveRemove_none_height hnode
          simp only [hnode, Option.some.injEq] at ht'
          subst ht'
          simp only [height_inner]
          refine ⟨hr, ?_, ?_⟩ <;> first | trivial | omega
        | some l' =>
          obtain ⟨hs', hlo, hhi⟩ := ihl hl l' hnode
          simp only [hnode, Option.some.injEq] at ht'
          subst ht'
          obtain ⟨hbs, hblo, hbhi, hbeq⟩ := balance_shape version k hh s l' r version hs' hr (by omega) (by omega)
          simp only [height_inner]
          refine ⟨hbs, ?_, ?_⟩ <;> first | trivial | omega
    · rw [if_neg h1] at ht'
      cases hrm : (recursiveRemove version r key).removed with
      | false =>
        simp only [hrm, Bool.not_false, if_true, Option.some.injEq] at ht'
        subst ht'
        exact ⟨hfull, Nat.le_refl _, Nat.le_succ _⟩
      | true =>
        simp only [hrm, Bool.not_true, Bool.false_eq_true, if_false] at ht'
        cases hnode : (recursiveRemove version r key).node with
        | none =>
          obtain ⟨hr0, _⟩ := recursiveRemove_none_height hnode
          simp only [hnode, Option.some.injEq] at ht'
          subst ht'
          simp only [height_inner]
          refine ⟨hl, ?_, ?_⟩ <;> first | trivial | omega
        | some r' =>
          obtain ⟨hs', hlo, hhi⟩ := ihr hr r' hnode
          simp only [hnode, Option.some.injEq] at ht'
          subst ht'
          obtain ⟨hbs, hblo, hbhi, hbeq⟩ :=
            balance_shape version ((recursiveRemove version r key).newKey.getD k) hh s l r' version hl hs'
              (by omega) (by omega)
          simp only [height_inner]
          refine ⟨hbs, ?_, ?_⟩ <;> first | trivial | omega

/-! ### size = number of leaves; Fibonacci bound -/

theorem Shape.size_eq_length {t : Node} (h : Shape t) : t.size = (toList t).length := by
  induction t with
  | leaf k v ver => rfl
  | inner k hh s l r ver ihl ihr =>
    obtain ⟨hl, hr, _, hss, _, _⟩ := h
    simp [toList, hss, ihl hl, ihr hr]

theorem Shape.size_pos {t : Node} (h : Shape t) : 0 < t.size := by
  induction t with
  | leaf k v ver => simp
  | inner k hh s l r ver ihl ihr =>
    obtain ⟨hl, hr, _, hss, _, _⟩ := h
    have := ihl hl
    simp only [size_inner]; omega

theorem fib_succ_eq (n : Nat) : (fibPair n).2 = fib (n + 1) := rfl

theorem fib_add_two (n : Nat) : fib (n + 2) = fib n + fib (n + 1) := by
  simp [fib, fibPair]

theorem fib_mono_succ (n : Nat) : fib (n + 1) ≤ fib (n + 2) := by
  rw [fib_add_two]; omega

theorem fib_mono {m n : Nat} (h : m ≤ n) : fib m ≤ fib n := by
  induction n with
  | zero => have : m = 0 := by omega
            subst this; exact Nat.le_refl _
  | succ n ih =>
    by_cases hm : m = n + 1
    · subst hm; exact Nat.le_refl _
    · have h1 := ih (by omega)
      cases n with
      | zero => have : m = 0 := by omega
                subst this; simp [fib, fibPair]
      | succ n => exact Nat.le_trans h1 (fib_mono_succ n)

/-- A tree of height `h` satisfying the shape invariant has at least `fib (h + 2)` leaves. -/
theorem Shape.fib_le_size {t : Node} (h : Shape t) : fib (t.height + 2) ≤ t.size := by
  induction t with
  | leaf k v ver => simp [fib, fibPair]
  | inner k hh s l r ver ihl ihr =>
    obtain ⟨hl, hr, hhh, hss, hb1, hb2⟩ := h
    have il := ihl hl
    have ir := ihr hr
    simp only [height_inner, size_inner]
    subst hhh hss
    -- the higher child has height hh-1, the other at least hh-2
    by_cases hc : l.height ≤ r.height
    · have e : max l.height r.height = r.height := by omega
      rw [e]
      have : fib (r.height + 1) ≤ fib (l.height + 2) := fib_mono (by omega)
      have e3 : fib (r.height + 1 + 2) = fib (r.height + 1) + fib (r.height + 2) := fib_add_two _
      omega
    · have e : max l.height r.height = l.height := by omega
      rw [e]
      have : fib (l.height + 1) ≤ fib (r.height + 2) := fib_mono (by omega)
      have e3 : fib (l.height + 1 + 2) = fib (l.height + 1) + fib (l.height + 2) := fib_add_two _
      omega

end Iavl.Node
