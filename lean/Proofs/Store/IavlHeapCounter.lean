import PocketModel.Store.IavlHeap
/-!
# IAVL on the heap: the clone discipline matters (C09 stage B, counterexamples)

Two **mutated variants** of the heap model (`Iavl.Heap.Cfg`), mirroring two independently seeded
bugs, evaluated by the kernel on concrete histories with a concrete (serialising) hash function:

* `rotateClones := false` — `rotateLeft/rotateRight` no longer start with `node.clone(version)`
  (seeded/C03-a).  In the double rotation after a removal the pivot child is a *persisted* object
  shared with version 1 through the node cache; it is written in place: a read through the root
  handle of version 1 loses a key, and a persisted object violates `cellLe`.
* `setClonesDirty := false` — `recursiveSet` updates never-persisted inner nodes in place
  (seeded/C04-a).  After an idempotent re-commit the working tree consists of unpersisted objects
  with memoised hashes; the in-place update leaves the stale hash, and the next `SaveBranch` writes
  the changed node under the old hash: the DB record of the *previous* version changes.

With `Cfg.asIs` the same histories leave everything unchanged (also proved in general:
`Iavl.Heap.run_refines`).
-/
namespace Iavl.Heap.Counter
open Iavl Iavl.Heap

/-- A concrete hash: a serialisation of its input (injective on the inputs used below). -/
def Hc : HashIn → Hash
  | .leaf h s ver k v => [0, UInt8.ofNat h, UInt8.ofNat s, UInt8.ofNat ver, UInt8.ofNat k.length] ++ k ++ v
  | .inner h s ver l r => [1, UInt8.ofNat h, UInt8.ofNat s, UInt8.ofNat ver, UInt8.ofNat l.length] ++ l ++ r

def k0 : Bytes := [0]
def k1 : Bytes := [1]
def k2 : Bytes := [2]
def k3 : Bytes := [3]
def k4 : Bytes := [4]

/-- Set k3,k4,k1,k0,k2; SaveVersion; open version 1 (`GetImmutable`); then `Remove k3` under `cfg`.
Result: what iterating through the version-1 handle returns before and after the removal, and the
pre-existing objects whose evolution violates the write-once discipline (`cellLe`), with their
`persisted` flag. -/
def rotScenario (cfg : Cfg) : Option (ReadResult × ReadResult × List (Nat × Bool)) := do
  let sys : Sys := { st := { cacheSize := 100 } }
  let (sys, _) ← runH Hc Cfg.asIs 20 sys
    [.set k3 [3], .set k4 [4], .set k1 [1], .set k0 [0], .set k2 [2], .save, .getImmutable 1]
  let h ← sys.views[0]?
  let (_, before) ← readRootH 20 sys.st h (.range none none true false)
  let (sys', _) ← runH Hc cfg 20 sys [.remove k3]
  let (_, after) ← readRootH 20 sys'.st h (.range none none true false)
  let bad := (List.range sys.st.heap.length).filterMap (fun x =>
    match sys.st.heap[x]?, sys'.st.heap[x]? with
    | some c, some c' => if cellLe c c' then none else some (x, c.persisted)
    | _, _ => some (x, false))
  some (before, after, bad)

def v1contents : ReadResult := .range [(k0, [0]), (k1, [1]), (k2, [2]), (k3, [3]), (k4, [4])]

set_option maxRecDepth 100000 in
/-- As is: the view of version 1 is untouched by the removal, no object breaks the discipline. -/
theorem rot_asIs_ok : rotScenario Cfg.asIs = some (v1contents, v1contents, []) := by decide

set_option maxRecDepth 100000 in
/-- **Rotation without clone**: after `Remove k3` the held view of version 1 no longer contains `k2`,
and exactly one pre-existing object — a persisted one — was written in place. -/
theorem rot_without_clone_breaks_saved_version :
    rotScenario { rotateClones := false } =
      some (v1contents, .range [(k0, [0]), (k1, [1]), (k3, [3]), (k4, [4])], [(13, true)]) := by decide

/-- Result of `inplaceScenario`. -/
structure InplaceResult where
  before : Option (List (Bytes × Bytes))
  after : Option (List (Bytes × Bytes))
  sameHash : Bool
  deriving DecidableEq, Repr

/-- Block 1: k0,k1,k2.  Block 2: k1 := 11.  Reload version 1 on the same tree object, replay block
2 and re-commit (idempotent branch of `SaveVersion`); then block 3 sets k2 := 22 under `cfg` and
commits.  Result: version 2 as stored in the DB before and after block 3, and whether the root hash
of version 3 equals that of version 2. -/
def inplaceScenario (cfg : Cfg) : Option InplaceResult := do
  let st : St := { cacheSize := 0 }
  let t : MT := {}
  let (st, t, _) ← set Cfg.asIs 20 st t k0 [0]
  let (st, t, _) ← set Cfg.asIs 20 st t k1 [1]
  let (st, t, _) ← set Cfg.asIs 20 st t k2 [2]
  let (st, t, _) ← saveVersion Hc 20 st t
  let (st, t, _) ← set Cfg.asIs 20 st t k1 [11]
  let (st, t, _) ← saveVersion Hc 20 st t
  let (st, t, _) ← loadVersion st t 1
  let (st, t, _) ← set Cfg.asIs 20 st t k1 [11]
  let (st, t, _) ← saveVersion Hc 20 st t
  let v2hash ← (st.getRoot 2).join
  let before := (absDB st.db 20 v2hash).map Node.toList
  let (st, t, _) ← set cfg 20 st t k2 [22]
  let (st, _, _) ← saveVersion Hc 20 st t
  let after := (absDB st.db 20 v2hash).map Node.toList
  let v3hash ← (st.getRoot 3).join
  some ⟨before, after, v3hash == v2hash⟩

set_option maxRecDepth 100000 in
/-- As is: version 2 on disk is the same before and after block 3; version 3 has its own hash. -/
theorem inplace_asIs_ok :
    inplaceScenario Cfg.asIs =
      some ⟨some [(k0, [0]), (k1, [11]), (k2, [2])], some [(k0, [0]), (k1, [11]), (k2, [2])], false⟩ := by decide

set_option maxRecDepth 100000 in
/-- **In-place update of unpersisted inner nodes + re-save**: block 3 rewrites the DB records of
version 2 (it now contains k2 = 22) and reports version 2's root hash for version 3. -/
theorem inplace_update_breaks_saved_version :
    inplaceScenario { setClonesDirty := false } =
      some ⟨some [(k0, [0]), (k1, [11]), (k2, [2])], some [(k0, [0]), (k1, [11]), (k2, [22])], true⟩ := by decide

/-- Set k0, k1; SaveVersion (version 1); Remove k1 (the persisted leaf k0 becomes the working root;
the working tree is dirty); then, **before the next commit**, open version 1 — with the code's
`LazyLoadVersion` (`fast = false`) or with the fast path of `lazyLoadVersionFast` — and iterate. -/
def lazyScenario (fast : Bool) : Option ReadResult := do
  let st : St := { cacheSize := 100 }
  let t : MT := {}
  let (st, t, _) ← set Cfg.asIs 20 st t k0 [0]
  let (st, t, _) ← set Cfg.asIs 20 st t k1 [1]
  let (st, t, _) ← saveVersion Hc 20 st t
  let (st, t, _, _) ← remove Cfg.asIs 20 st t k1
  let (st, res) ← if fast then lazyLoadVersionFast st t 1 else lazyLoadVersion st 1
  match res with
  | .view root _ => (readRootH 20 st root (.range none none true false)).map (·.2)
  | _ => none

set_option maxRecDepth 100000 in
/-- As is: the view of the last committed version opened in the middle of the next block shows the
committed state (the general statement is `Iavl.Heap.lazyLoad_refines`, which holds for a dirty
working tree and the currently loaded version like for any other). -/
theorem lazy_asIs_ok : lazyScenario false = some (.range [(k0, [0]), (k1, [1])]) := by decide

set_option maxRecDepth 100000 in
/-- **Reusing a persisted working root**: the "historical" view of version 1 is the uncommitted
working tree — the deleted key is missing. -/
theorem lazy_fast_path_shows_uncommitted_state : lazyScenario true = some (.range [(k0, [0])]) := by decide

end Iavl.Heap.Counter
