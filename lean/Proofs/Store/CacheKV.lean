import Proofs.Store.KV
import PocketModel.Store.CacheKV
/-!
# Lemmas about the cachekv model (`PocketModel/Store/CacheKV.lean`)

1. direction-generic order (`ltD asc`), `compare` characterisation;
2. overlay: `overlay_sorted`, `overlay_get`, commutation with ranges;
3. merge iterator: `mergeSpec` (clean recursive description), `drain_eq_mergeSpec` (the Go state
   machine `skip/valid/cur/next` drained = `mergeSpec`), `mergeSpec_spec` (sorted + lookups),
   `drain_eq_overlay` (both directions);
4. `memItems_eq_filter`, `mergeDirty` lookups, `dirtyItems` invariant;
5. the invariant `CInv`, `pending`, and `ops_spec`: `CacheKV.ops O` satisfies `KVSpec` whenever
   the parent does; `write_view`.
-/
namespace CacheKV

/-! ### 1. Direction-generic order -/

/-- "`a` comes before `b`" in iteration direction `asc`. -/
def ltD (asc : Bool) (a b : Bytes) : Prop := if asc then a < b else b < a

theorem ltD_irrefl (asc : Bool) (a : Bytes) : ¬ ltD asc a a := by
  cases asc <;> simp [ltD, Bytes.lt_irrefl]

theorem ltD_trans {asc : Bool} {a b c : Bytes} (h1 : ltD asc a b) (h2 : ltD asc b c) : ltD asc a c := by
  cases asc
  · simp only [ltD] at *; exact Bytes.lt_trans h2 h1
  · simp only [ltD] at *; exact Bytes.lt_trans h1 h2

theorem ltD_asymm {asc : Bool} {a b : Bytes} (h : ltD asc a b) : ¬ ltD asc b a := by
  cases asc
  · simp only [ltD] at *; exact Bytes.lt_asymm h
  · simp only [ltD] at *; exact Bytes.lt_asymm h

theorem ltD_ne {asc : Bool} {a b : Bytes} (h : ltD asc a b) : a ≠ b := by
  intro e; subst e; exact ltD_irrefl asc a h

theorem cmp_lt_iff (a b : Bytes) : Bytes.cmp a b = .lt ↔ a < b := by
  unfold Bytes.cmp
  by_cases h1 : a < b
  · simp [h1]
  · by_cases h2 : a = b <;> simp [h1, h2]

theorem cmp_eq_iff (a b : Bytes) : Bytes.cmp a b = .eq ↔ a = b := by
  unfold Bytes.cmp
  by_cases h1 : a < b
  · simp [h1]; exact Bytes.ne_of_lt h1
  · by_cases h2 : a = b <;> simp [h1, h2]

theorem cmp_gt_iff (a b : Bytes) : Bytes.cmp a b = .gt ↔ b < a := by
  unfold Bytes.cmp
  by_cases h1 : a < b
  · simp [h1]; exact Bytes.lt_asymm h1
  · by_cases h2 : a = b
    · subst h2; simp [h1]
    · simp [h1, h2]
      rcases Bytes.lt_tri a b with h | h | h
      · exact absurd h h1
      · exact absurd h h2
      · exact h

theorem compare_lt_iff (asc : Bool) (a b : Bytes) : compare asc a b = .lt ↔ ltD asc a b := by
  cases asc <;> simp [compare, ltD, cmp_lt_iff]

theorem compare_eq_iff (asc : Bool) (a b : Bytes) : compare asc a b = .eq ↔ a = b := by
  cases asc
  · simp only [compare, Bool.false_eq_true, if_false, cmp_eq_iff]; exact eq_comm
  · simp only [compare, if_true, cmp_eq_iff]

theorem compare_gt_iff (asc : Bool) (a b : Bytes) : compare asc a b = .gt ↔ ltD asc b a := by
  cases asc <;> simp [compare, ltD, cmp_gt_iff]

/-- Keys strictly increasing in iteration direction. -/
def SortedD {β : Type} (asc : Bool) (l : Assoc β) : Prop := l.Pairwise (fun a b => ltD asc a.1 b.1)

theorem sortedD_order {β : Type} (asc : Bool) {l : Assoc β} (h : Assoc.Sorted l) :
    SortedD asc (KV.order asc l) := by
  cases asc
  · simp only [KV.order_false, SortedD, ltD]
    rw [List.pairwise_reverse]
    exact h
  · simp only [KV.order_true, SortedD, ltD, if_true]; exact h

theorem sortedD_true {β : Type} {l : Assoc β} : SortedD true l ↔ Assoc.Sorted l := by
  simp [SortedD, ltD, Assoc.Sorted]

theorem SortedD.tail {β : Type} {asc : Bool} {a : Bytes × β} {l : Assoc β} (h : SortedD asc (a :: l)) :
    SortedD asc l := (List.pairwise_cons.mp h).2

theorem SortedD.head {β : Type} {asc : Bool} {a : Bytes × β} {l : Assoc β} (h : SortedD asc (a :: l)) :
    ∀ x ∈ l, ltD asc a.1 x.1 := (List.pairwise_cons.mp h).1

/-- Lookup of a key that lies before every key of the list. -/
theorem get_none_of_ltD {β : Type} {asc : Bool} {l : Assoc β} {k : Bytes}
    (h : ∀ x ∈ l, ltD asc k x.1) : Assoc.get l k = none := by
  rw [Assoc.get_eq_none_iff]
  intro x hx e
  exact ltD_ne (h x hx) e.symm

theorem get_of_mem_sortedD {β : Type} {asc : Bool} {l : Assoc β} (hs : SortedD asc l) {k : Bytes} {v : β}
    (h : (k, v) ∈ l) : Assoc.get l k = some v := by
  induction l with
  | nil => simp at h
  | cons a l ih =>
    obtain ⟨a, b⟩ := a
    rw [Assoc.get_cons]
    rcases List.mem_cons.mp h with e | e
    · cases e; simp
    · rw [if_neg (ltD_ne (hs.head _ e)).symm]
      exact ih hs.tail e

/-- Lookups do not depend on the direction a duplicate-free list is written in. -/
theorem get_reverse_sortedD {β : Type} {asc : Bool} {l : Assoc β} (hs : SortedD asc l) (k : Bytes) :
    Assoc.get l.reverse k = Assoc.get l k := by
  have hr : SortedD (!asc) l.reverse := by
    unfold SortedD
    rw [List.pairwise_reverse]
    cases asc <;> simpa [SortedD, ltD] using hs
  cases h : Assoc.get l k with
  | none =>
    rw [Assoc.get_eq_none_iff] at h ⊢
    intro x hx; exact h x (List.mem_reverse.mp hx)
  | some v =>
    exact get_of_mem_sortedD hr (List.mem_reverse.mpr (Assoc.mem_of_get h))

theorem get_order {β : Type} (asc : Bool) {l : Assoc β} (hs : Assoc.Sorted l) (k : Bytes) :
    Assoc.get (KV.order asc l) k = Assoc.get l k := by
  cases asc
  · exact Assoc.get_reverse hs k
  · rfl

/-! ### 2. Overlay -/

theorem applyEntry_sorted {m : KV} (hs : Assoc.Sorted m) (kv : Bytes × Option Bytes) :
    Assoc.Sorted (applyEntry m kv) := by
  unfold applyEntry
  split
  · exact Assoc.set_sorted hs _ _
  · exact Assoc.del_sorted hs _

theorem get_applyEntry {m : KV} (hs : Assoc.Sorted m) (kv : Bytes × Option Bytes) (k : Bytes) :
    Assoc.get (applyEntry m kv) k = if k = kv.1 then kv.2 else Assoc.get m k := by
  obtain ⟨a, ov⟩ := kv
  unfold applyEntry
  cases ov with
  | some v => simp only; rw [Assoc.get_set]
  | none => simp only; rw [Assoc.get_del hs]

theorem overlay_sorted {m : KV} (hs : Assoc.Sorted m) (c : Assoc (Option Bytes)) :
    Assoc.Sorted (overlay m c) := by
  unfold overlay
  induction c generalizing m with
  | nil => exact hs
  | cons a c ih => exact ih (applyEntry_sorted hs a)

/-- **Lookup in the overlay**: a pending entry wins, otherwise the parent answers
(for pending lists without duplicate keys, in either direction). -/
theorem overlay_get {asc : Bool} {m : KV} (hs : Assoc.Sorted m) {c : Assoc (Option Bytes)} (hc : SortedD asc c)
    (k : Bytes) : Assoc.get (overlay m c) k = overlayGet m c k := by
  unfold overlay overlayGet
  induction c generalizing m with
  | nil => rfl
  | cons a c ih =>
    obtain ⟨a, ov⟩ := a
    rw [List.foldl_cons, ih (applyEntry_sorted hs _) hc.tail, Assoc.get_cons, get_applyEntry hs]
    by_cases e : k = a
    · subst e
      rw [if_pos rfl, get_none_of_ltD hc.head]; simp
    · rw [if_neg e]; simp only [if_neg e]

theorem overlay_nil (m : KV) : overlay m [] = m := rfl

/-- Restricting the overlay to a key range = overlaying the restrictions. -/
theorem range_overlay {m : KV} (hs : Assoc.Sorted m) {c : Assoc (Option Bytes)} (hc : Assoc.Sorted c)
    (s e : Option Bytes) :
    KV.range (overlay m c) s e = overlay (KV.range m s e) (c.filter fun p => inDomain p.1 s e) := by
  have hc' : SortedD true c := sortedD_true.mpr hc
  have hcf : SortedD true (c.filter fun p => inDomain p.1 s e) := sortedD_true.mpr (Assoc.filter_sorted hc _)
  apply Assoc.ext (KV.range_sorted (overlay_sorted hs c) s e) (overlay_sorted (KV.range_sorted hs s e) _)
  intro k
  rw [KV.get_range, overlay_get hs hc', overlay_get (KV.range_sorted hs s e) hcf]
  unfold overlayGet
  rw [Assoc.get_filter c (fun k => inDomain k s e), KV.get_range]
  by_cases hd : inDomain k s e = true
  · simp [hd]
  · simp [hd]

/-! ### 3. The merge iterator -/

/-- The non-deleted items of a cache iterator. -/
def liveItems (c : Assoc (Option Bytes)) : List (Bytes × Bytes) :=
  c.filterMap (fun kv => kv.2.map (fun v => (kv.1, v)))

/-- Clean description of what the merge iterator yields: the smaller head goes first; on equal
keys the cache wins; a delete marker yields nothing (and hides the parent's equal key). -/
def mergeSpec (asc : Bool) : List (Bytes × Bytes) → Assoc (Option Bytes) → List (Bytes × Bytes)
  | [], c => liveItems c
  | p, [] => p
  | (kp, vp) :: p, (kc, vc) :: c =>
    match compare asc kp kc with
    | .lt => (kp, vp) :: mergeSpec asc p ((kc, vc) :: c)
    | .eq =>
      match vc with
      | none => mergeSpec asc p c
      | some v => (kp, v) :: mergeSpec asc p c
    | .gt =>
      match vc with
      | none => mergeSpec asc ((kp, vp) :: p) c
      | some v => (kc, v) :: mergeSpec asc ((kp, vp) :: p) c
termination_by p c => p.length + c.length

theorem mergeSpec_nil_left (asc : Bool) (c : Assoc (Option Bytes)) : mergeSpec asc [] c = liveItems c := by
  rw [mergeSpec]

theorem mergeSpec_nil_right (asc : Bool) (p : List (Bytes × Bytes)) : mergeSpec asc p [] = p := by
  cases p with
  | nil => rw [mergeSpec]; rfl
  | cons a p => rw [mergeSpec]; simp

theorem mergeSpec_cons_cons (asc : Bool) (kp vp : Bytes) (p : List (Bytes × Bytes)) (kc : Bytes)
    (vc : Option Bytes) (c : Assoc (Option Bytes)) :
    mergeSpec asc ((kp, vp) :: p) ((kc, vc) :: c) =
      match compare asc kp kc with
      | .lt => (kp, vp) :: mergeSpec asc p ((kc, vc) :: c)
      | .eq =>
        match vc with
        | none => mergeSpec asc p c
        | some v => (kp, v) :: mergeSpec asc p c
      | .gt =>
        match vc with
        | none => mergeSpec asc ((kp, vp) :: p) c
        | some v => (kc, v) :: mergeSpec asc ((kp, vp) :: p) c := by
  cases vc <;> (conv => lhs; unfold mergeSpec) <;> cases compare asc kp kc <;> rfl

theorem liveItems_skipCacheDeletes (asc : Bool) (c : Assoc (Option Bytes)) :
    liveItems (skipCacheDeletes asc none c) = liveItems c := by
  induction c with
  | nil => rfl
  | cons a c ih =>
    obtain ⟨k, v⟩ := a
    unfold skipCacheDeletes
    cases v with
    | none =>
      rw [show ((none : Option Bytes).isNone && beforeUntil asc k none) = true from rfl, if_pos rfl, ih]
      simp [liveItems]
    | some v => simp

theorem skipCacheDeletes_none_head (asc : Bool) (c : Assoc (Option Bytes)) :
    match skipCacheDeletes asc none c with
    | [] => True
    | (_, vc) :: _ => vc.isSome = true := by
  induction c with
  | nil => simp [skipCacheDeletes]
  | cons a c ih =>
    obtain ⟨k, v⟩ := a
    unfold skipCacheDeletes
    cases v with
    | none => simpa [beforeUntil] using ih
    | some v => simp

theorem mergeSpec_skipCacheDeletes (asc : Bool) (kp vp : Bytes) (p : List (Bytes × Bytes))
    (c : Assoc (Option Bytes)) :
    mergeSpec asc ((kp, vp) :: p) (skipCacheDeletes asc (some kp) c) = mergeSpec asc ((kp, vp) :: p) c := by
  induction c with
  | nil => rfl
  | cons a c ih =>
    obtain ⟨k, v⟩ := a
    unfold skipCacheDeletes
    cases v with
    | some v => simp
    | none =>
      by_cases hb : compare asc k kp = .lt
      · have hgt : compare asc kp k = .gt :=
          (compare_gt_iff asc kp k).mpr ((compare_lt_iff asc k kp).mp hb)
        simp only [Option.isNone_none, beforeUntil, hb, beq_self_eq_true, Bool.and_self, if_true]
        rw [ih, mergeSpec_cons_cons asc kp vp p k none c, hgt]
      · simp [beforeUntil, hb]

/-- The state a `skipUntilExistsOrInvalid` call ends in, and its verdict `b`. -/
def Norm (asc : Bool) (p : List (Bytes × Bytes)) (c : Assoc (Option Bytes)) (b : Bool) : Prop :=
  match p, c with
  | [], [] => b = false
  | [], (_, vc) :: _ => b = true ∧ vc.isSome = true
  | _ :: _, [] => b = true
  | (kp, _) :: _, (kc, vc) :: _ => b = true ∧ (compare asc kp kc = .lt ∨ vc.isSome = true)

/-- `skipUntilExistsOrInvalid` only steps over items that yield nothing, never grows the
iterators, and stops in a normal state. -/
theorem skip_spec (asc : Bool) (p : List (Bytes × Bytes)) (c : Assoc (Option Bytes)) :
    mergeSpec asc (skip asc p c).1.1 (skip asc p c).1.2 = mergeSpec asc p c ∧
    (skip asc p c).1.1.length + (skip asc p c).1.2.length ≤ p.length + c.length ∧
    Norm asc (skip asc p c).1.1 (skip asc p c).1.2 (skip asc p c).2 := by
  fun_induction skip asc p c with
  | case1 c =>
    refine ⟨?_, ?_, ?_⟩
    · simp only [mergeSpec_nil_left, liveItems_skipCacheDeletes]
    · simpa using skipCacheDeletes_length asc none c
    · have := skipCacheDeletes_none_head asc c
      simp only
      cases h : skipCacheDeletes asc none c with
      | nil => simp [Norm]
      | cons a r => obtain ⟨k, v⟩ := a; rw [h] at this; simpa [Norm] using this
  | case2 p hp =>
    refine ⟨rfl, Nat.le_refl _, ?_⟩
    cases p with
    | nil => exact absurd rfl hp
    | cons a p => simp [Norm]
  | case3 kp vp p' kc vc c' h => exact ⟨rfl, Nat.le_refl _, by simp [Norm, h]⟩
  | case4 kp vp p' kc c' h ih =>
    obtain ⟨i1, i2, i3⟩ := ih
    refine ⟨?_, ?_, i3⟩
    · rw [i1, mergeSpec_cons_cons, h]
    · simp only [List.length_cons]; omega
  | case5 kp vp p' kc c' h v => exact ⟨rfl, Nat.le_refl _, by simp [Norm]⟩
  | case6 kp vp p' kc c' h ih =>
    obtain ⟨i1, i2, i3⟩ := ih
    refine ⟨?_, ?_, i3⟩
    · rw [i1, mergeSpec_skipCacheDeletes]
    · have := skipCacheDeletes_length asc (some kp) ((kc, none) :: c')
      omega
  | case7 kp vp p' kc c' h v => exact ⟨rfl, Nat.le_refl _, by simp [Norm]⟩

/-- The drained Go iterator (`Valid/Key/Value/Next` loop) yields `mergeSpec`. -/
theorem drainFuel_eq_mergeSpec (asc : Bool) (fuel : Nat) (p : List (Bytes × Bytes))
    (c : Assoc (Option Bytes)) (hf : p.length + c.length < fuel) :
    drainFuel asc fuel p c = mergeSpec asc p c := by
  induction fuel generalizing p c with
  | zero => omega
  | succ f ih =>
    obtain ⟨h1, h2, h3⟩ := skip_spec asc p c
    unfold drainFuel valid cur next
    generalize skip asc p c = r at h1 h2 h3
    obtain ⟨⟨p', c'⟩, b⟩ := r
    simp only at h1 h2 h3 ⊢
    rw [← h1]
    cases p' with
    | nil =>
      cases c' with
      | nil =>
        simp only [Norm] at h3
        subst h3
        simp [mergeSpec_nil_left, liveItems]
      | cons a c'' =>
        obtain ⟨kc, vc⟩ := a
        simp only [Norm] at h3
        obtain ⟨rfl, hv⟩ := h3
        obtain ⟨v, rfl⟩ := Option.isSome_iff_exists.mp hv
        simp only [List.length_cons, List.length_nil] at h2
        have := ih [] c'' (by simp only [List.length_nil]; omega)
        simp [this, mergeSpec_nil_left, liveItems]
    | cons a p'' =>
      obtain ⟨kp, vp⟩ := a
      cases c' with
      | nil =>
        simp only [Norm] at h3
        subst h3
        simp only [List.length_cons, List.length_nil] at h2
        have := ih p'' [] (by simp only [List.length_nil]; omega)
        simp [this, mergeSpec_nil_right]
      | cons a c'' =>
        obtain ⟨kc, vc⟩ := a
        simp only [Norm] at h3
        obtain ⟨rfl, h3⟩ := h3
        simp only [List.length_cons] at h2
        rw [mergeSpec_cons_cons]
        cases hc : compare asc kp kc with
        | lt =>
          have := ih p'' ((kc, vc) :: c'') (by simp only [List.length_cons]; omega)
          simp only [hc]; simp [this]
        | eq =>
          rcases h3 with h3 | h3
          · rw [hc] at h3; cases h3
          · obtain ⟨v, rfl⟩ := Option.isSome_iff_exists.mp h3
            have := ih p'' c'' (by omega)
            simp only [hc]; simp [this]
        | gt =>
          rcases h3 with h3 | h3
          · rw [hc] at h3; cases h3
          · obtain ⟨v, rfl⟩ := Option.isSome_iff_exists.mp h3
            have := ih ((kp, vp) :: p'') c'' (by simp only [List.length_cons]; omega)
            simp only [hc]; simp [this]

theorem drain_eq_mergeSpec (asc : Bool) (p : List (Bytes × Bytes)) (c : Assoc (Option Bytes)) :
    drain asc p c = mergeSpec asc p c :=
  drainFuel_eq_mergeSpec asc _ p c (Nat.lt_succ_self _)

theorem next_length_le (asc : Bool) (p : List (Bytes × Bytes)) (c : Assoc (Option Bytes)) :
    (next asc p c).1.length + (next asc p c).2.length ≤ p.length + c.length := by
  obtain ⟨_, h2, _⟩ := skip_spec asc p c
  unfold next
  generalize skip asc p c = r at h2
  obtain ⟨⟨p', c'⟩, b⟩ := r
  simp only at h2 ⊢
  cases p' with
  | nil => simp only [List.length_nil, List.length_tail] at h2 ⊢; omega
  | cons a p'' =>
    obtain ⟨kp, vp⟩ := a
    cases c' with
    | nil => simp only [List.length_nil, List.length_tail, List.length_cons] at h2 ⊢; omega
    | cons a c'' =>
      obtain ⟨kc, vc⟩ := a
      simp only [List.length_cons] at h2
      dsimp only
      cases compare asc kp kc <;> simp only [List.length_cons] <;> omega

/-- **Lazy = eager**: advancing the Go iterator one `Next` at a time yields, item by item, the
list `drain` computes at creation (the iterator's own state is all that `Valid/Key/Value/Next`
read or write). -/
theorem drain_step (asc : Bool) (p : List (Bytes × Bytes)) (c : Assoc (Option Bytes)) :
    drain asc p c =
      if valid asc p c then
        match cur asc p c with
        | none => []
        | some kv => kv :: drain asc (next asc p c).1 (next asc p c).2
      else [] := by
  have hn := next_length_le asc p c
  have h1 := drainFuel_eq_mergeSpec asc (p.length + c.length + 1 + 1) p c (by omega)
  have h2 := drainFuel_eq_mergeSpec asc (p.length + c.length + 1) (next asc p c).1 (next asc p c).2 (by omega)
  rw [drain_eq_mergeSpec, drain_eq_mergeSpec, ← h1, ← h2]
  rfl

/-! #### `mergeSpec` is the overlay -/

theorem mem_liveItems {c : Assoc (Option Bytes)} {x : Bytes × Bytes} (h : x ∈ liveItems c) :
    (x.1, some x.2) ∈ c := by
  unfold liveItems at h
  rw [List.mem_filterMap] at h
  obtain ⟨⟨k, ov⟩, hm, he⟩ := h
  cases ov with
  | none => simp at he
  | some v => simp at he; subst he; exact hm

theorem mem_mergeSpec {asc : Bool} {p : List (Bytes × Bytes)} {c : Assoc (Option Bytes)}
    {x : Bytes × Bytes} (h : x ∈ mergeSpec asc p c) :
    (∃ y ∈ p, y.1 = x.1) ∨ (∃ y ∈ c, y.1 = x.1) := by
  fun_induction mergeSpec asc p c with
  | case1 c => exact Or.inr ⟨_, mem_liveItems h, rfl⟩
  | case2 p hp => exact Or.inl ⟨x, h, rfl⟩
  | case3 kp vp p kc vc c hc ih =>
    rcases List.mem_cons.mp h with e | e
    · exact Or.inl ⟨(kp, vp), List.mem_cons_self, by rw [e]⟩
    · rcases ih e with ⟨y, hy, e'⟩ | r
      · exact Or.inl ⟨y, List.mem_cons_of_mem _ hy, e'⟩
      · exact Or.inr r
  | case4 kp vp p kc c hc ih =>
    rcases ih h with ⟨y, hy, e'⟩ | ⟨y, hy, e'⟩
    · exact Or.inl ⟨y, List.mem_cons_of_mem _ hy, e'⟩
    · exact Or.inr ⟨y, List.mem_cons_of_mem _ hy, e'⟩
  | case5 kp vp p kc c hc v ih =>
    rcases List.mem_cons.mp h with e | e
    · exact Or.inl ⟨(kp, vp), List.mem_cons_self, by rw [e]⟩
    · rcases ih e with ⟨y, hy, e'⟩ | ⟨y, hy, e'⟩
      · exact Or.inl ⟨y, List.mem_cons_of_mem _ hy, e'⟩
      · exact Or.inr ⟨y, List.mem_cons_of_mem _ hy, e'⟩
  | case6 kp vp p kc c hc ih =>
    rcases ih h with l | ⟨y, hy, e'⟩
    · exact Or.inl l
    · exact Or.inr ⟨y, List.mem_cons_of_mem _ hy, e'⟩
  | case7 kp vp p kc c hc v ih =>
    rcases List.mem_cons.mp h with e | e
    · exact Or.inr ⟨(kc, some v), List.mem_cons_self, by rw [e]⟩
    · rcases ih e with l | ⟨y, hy, e'⟩
      · exact Or.inl l
      · exact Or.inr ⟨y, List.mem_cons_of_mem _ hy, e'⟩

theorem after_mergeSpec {asc : Bool} {p : List (Bytes × Bytes)} {c : Assoc (Option Bytes)} {k : Bytes}
    (hp : ∀ y ∈ p, ltD asc k y.1) (hc : ∀ y ∈ c, ltD asc k y.1) :
    ∀ x ∈ mergeSpec asc p c, ltD asc k x.1 := by
  intro x hx
  rcases mem_mergeSpec hx with ⟨y, hy, e⟩ | ⟨y, hy, e⟩
  · rw [← e]; exact hp y hy
  · rw [← e]; exact hc y hy

theorem liveItems_sortedD {asc : Bool} {c : Assoc (Option Bytes)} (hc : SortedD asc c) :
    SortedD asc (liveItems c) := by
  unfold liveItems SortedD
  refine List.Pairwise.filterMap _ ?_ hc
  intro a a' h b hb b' hb'
  obtain ⟨ka, va⟩ := a
  obtain ⟨kb, vb⟩ := a'
  cases va <;> cases vb <;> simp at hb hb'
  subst hb hb'
  exact h

theorem get_liveItems {asc : Bool} {c : Assoc (Option Bytes)} (hc : SortedD asc c) (k : Bytes) :
    Assoc.get (liveItems c) k = overlayGet [] c k := by
  unfold overlayGet
  induction c with
  | nil => rfl
  | cons a c ih =>
    obtain ⟨a, ov⟩ := a
    have hafter : ∀ x ∈ liveItems c, ltD asc a x.1 := fun x hx => hc.head _ (mem_liveItems hx)
    rw [Assoc.get_cons]
    cases ov with
    | none =>
      have : liveItems ((a, none) :: c) = liveItems c := by simp [liveItems]
      rw [this]
      by_cases e : k = a
      · subst e; rw [if_pos rfl, get_none_of_ltD hafter]
      · rw [if_neg e, ih hc.tail]
    | some v =>
      have : liveItems ((a, some v) :: c) = (a, v) :: liveItems c := by simp [liveItems]
      rw [this, Assoc.get_cons]
      by_cases e : k = a
      · rw [if_pos e, if_pos e]
      · rw [if_neg e, if_neg e, ih hc.tail]

theorem mergeSpec_sortedD {asc : Bool} {p : List (Bytes × Bytes)} {c : Assoc (Option Bytes)}
    (hp : SortedD asc p) (hc : SortedD asc c) : SortedD asc (mergeSpec asc p c) := by
  fun_induction mergeSpec asc p c with
  | case1 c => exact liveItems_sortedD hc
  | case2 p _ => exact hp
  | case3 kp vp p kc vc c h ih =>
    have hlt := (compare_lt_iff asc kp kc).mp h
    refine List.pairwise_cons.mpr ⟨?_, ih hp.tail hc⟩
    apply after_mergeSpec hp.head
    intro y hy
    rcases List.mem_cons.mp hy with rfl | hy
    · exact hlt
    · exact ltD_trans hlt (hc.head y hy)
  | case4 kp vp p kc c h ih => exact ih hp.tail hc.tail
  | case5 kp vp p kc c h v ih =>
    have he := (compare_eq_iff asc kp kc).mp h
    subst he
    exact List.pairwise_cons.mpr ⟨after_mergeSpec hp.head hc.head, ih hp.tail hc.tail⟩
  | case6 kp vp p kc c h ih => exact ih hp hc.tail
  | case7 kp vp p kc c h v ih =>
    have hlt := (compare_gt_iff asc kp kc).mp h
    refine List.pairwise_cons.mpr ⟨?_, ih hp hc.tail⟩
    apply after_mergeSpec _ hc.head
    intro y hy
    rcases List.mem_cons.mp hy with rfl | hy
    · exact hlt
    · exact ltD_trans hlt (hp.head y hy)

theorem get_mergeSpec {asc : Bool} {p : List (Bytes × Bytes)} {c : Assoc (Option Bytes)}
    (hp : SortedD asc p) (hc : SortedD asc c) (k : Bytes) :
    Assoc.get (mergeSpec asc p c) k = overlayGet p c k := by
  fun_induction mergeSpec asc p c with
  | case1 c => exact get_liveItems hc k
  | case2 p _ => simp [overlayGet]
  | case3 kp vp p kc vc c h ih =>
    have hlt := (compare_lt_iff asc kp kc).mp h
    rw [Assoc.get_cons, ih hp.tail hc]
    unfold overlayGet
    by_cases e : k = kp
    · subst e
      have : Assoc.get ((kc, vc) :: c) k = none := by
        apply get_none_of_ltD (asc := asc)
        intro y hy
        rcases List.mem_cons.mp hy with rfl | hy
        · exact hlt
        · exact ltD_trans hlt (hc.head y hy)
      rw [if_pos rfl, this, Assoc.get_cons, if_pos rfl]
    · rw [if_neg e, Assoc.get_cons kp, if_neg e]
  | case4 kp vp p kc c h ih =>
    have he := (compare_eq_iff asc kp kc).mp h
    subst he
    rw [ih hp.tail hc.tail]
    unfold overlayGet
    rw [Assoc.get_cons, Assoc.get_cons]
    by_cases e : k = kp
    · subst e
      rw [if_pos rfl, get_none_of_ltD hc.head, get_none_of_ltD hp.head]
    · rw [if_neg e, if_neg e]
  | case5 kp vp p kc c h v ih =>
    have he := (compare_eq_iff asc kp kc).mp h
    subst he
    rw [Assoc.get_cons, ih hp.tail hc.tail]
    unfold overlayGet
    rw [Assoc.get_cons, Assoc.get_cons kp vp]
    by_cases e : k = kp
    · rw [if_pos e, if_pos e]
    · rw [if_neg e, if_neg e, if_neg e]
  | case6 kp vp p kc c h ih =>
    have hlt := (compare_gt_iff asc kp kc).mp h
    rw [ih hp hc.tail]
    unfold overlayGet
    rw [Assoc.get_cons kc]
    by_cases e : k = kc
    · subst e
      have : Assoc.get ((kp, vp) :: p) k = none := by
        apply get_none_of_ltD (asc := asc)
        intro y hy
        rcases List.mem_cons.mp hy with rfl | hy
        · exact hlt
        · exact ltD_trans hlt (hp.head y hy)
      rw [if_pos rfl, get_none_of_ltD hc.head, this]
    · rw [if_neg e]
  | case7 kp vp p kc c h v ih =>
    rw [Assoc.get_cons, ih hp hc.tail]
    unfold overlayGet
    rw [Assoc.get_cons kc]
    by_cases e : k = kc
    · rw [if_pos e, if_pos e]
    · rw [if_neg e, if_neg e]

/-- **The merge iterator is the overlay**, ascending: for every strictly ascending parent list and
cache list (delete markers included) the drained iterator is the overlaid map. -/
theorem drain_asc_eq_overlay {p : KV} {c : Assoc (Option Bytes)} (hp : Assoc.Sorted p)
    (hc : Assoc.Sorted c) : drain true p c = overlay p c := by
  rw [drain_eq_mergeSpec]
  have hp' := sortedD_true.mpr hp
  have hc' := sortedD_true.mpr hc
  apply Assoc.ext (sortedD_true.mp (mergeSpec_sortedD hp' hc')) (overlay_sorted hp c)
  intro k
  rw [get_mergeSpec hp' hc', overlay_get hp hc']

/-- … and descending: both iterators run backwards, the result is the overlay backwards. -/
theorem drain_desc_eq_overlay {p : KV} {c : Assoc (Option Bytes)} (hp : Assoc.Sorted p)
    (hc : Assoc.Sorted c) : drain false p.reverse c.reverse = (overlay p c).reverse := by
  rw [drain_eq_mergeSpec]
  have hp' : SortedD false p.reverse := sortedD_order false hp
  have hc' : SortedD false c.reverse := sortedD_order false hc
  have hs := mergeSpec_sortedD hp' hc'
  have hrs : Assoc.Sorted (mergeSpec false p.reverse c.reverse).reverse := by
    unfold Assoc.Sorted
    rw [List.pairwise_reverse]
    simpa [SortedD, ltD] using hs
  rw [← List.reverse_reverse (mergeSpec false p.reverse c.reverse)]
  congr 1
  apply Assoc.ext hrs (overlay_sorted hp c)
  intro k
  rw [get_reverse_sortedD hs, get_mergeSpec hp' hc', overlay_get hp (sortedD_true.mpr hc)]
  unfold overlayGet
  rw [Assoc.get_reverse hc, Assoc.get_reverse hp]

/-- Both directions at once. -/
theorem drain_eq_overlay (asc : Bool) {p : KV} {c : Assoc (Option Bytes)} (hp : Assoc.Sorted p)
    (hc : Assoc.Sorted c) : drain asc (KV.order asc p) (KV.order asc c) = KV.order asc (overlay p c) := by
  cases asc
  · exact drain_desc_eq_overlay hp hc
  · exact drain_asc_eq_overlay hp hc

/-! ### 4. `newMemIterator`, `dirtyItems` -/

theorem inDomain_start_of_lt {x y : Bytes} {s e : Option Bytes} (hx : inDomain x s e = true)
    (hxy : x < y) (hy : inDomain y s e = false) : ∀ z, y < z → inDomain z s e = false := by
  intro z hz
  rw [← Bool.not_eq_true, inDomain_iff] at hy ⊢
  rw [inDomain_iff] at hx
  intro ⟨_, h2⟩
  apply hy
  refine ⟨fun a ha => Bytes.le_trans (hx.1 a ha) (Bytes.le_of_lt hxy), fun b hb => ?_⟩
  exact Bytes.lt_trans hz (h2 b hb)

theorem memItems_entered {s e : Option Bytes} {l : Assoc (Option Bytes)} (hs : Assoc.Sorted l)
    (x : Bytes) (hx : inDomain x s e = true) (hlt : ∀ y ∈ l, x < y.1) :
    memItems s e true l = l.filter (fun p => inDomain p.1 s e) := by
  induction l generalizing x with
  | nil => rfl
  | cons a l ih =>
    unfold memItems
    by_cases ha : inDomain a.1 s e = true
    · rw [List.filter_cons_of_pos (by simpa using ha)]
      simp only [ha, Bool.not_true, Bool.false_eq_true, if_false]
      rw [ih hs.tail a.1 ha hs.head_lt]
    · have ha' : inDomain a.1 s e = false := by simpa using ha
      rw [List.filter_cons_of_neg (by simpa using ha)]
      simp only [ha', Bool.not_false, if_true]
      symm
      rw [List.filter_eq_nil_iff]
      intro z hz
      have := inDomain_start_of_lt hx (hlt a List.mem_cons_self) ha' z.1 (hs.head_lt z hz)
      simp [this]

/-- `newMemIterator` collects exactly the in-domain items of the (ascending) sorted cache. -/
theorem memItems_eq_filter {s e : Option Bytes} {l : Assoc (Option Bytes)} (hs : Assoc.Sorted l) :
    memItems s e false l = l.filter (fun p => inDomain p.1 s e) := by
  induction l with
  | nil => rfl
  | cons a l ih =>
    unfold memItems
    by_cases ha : inDomain a.1 s e = true
    · rw [List.filter_cons_of_pos (by simpa using ha)]
      simp only [ha, Bool.not_true, Bool.false_eq_true, if_false]
      rw [memItems_entered hs.tail a.1 ha hs.head_lt]
    · have ha' : inDomain a.1 s e = false := by simpa using ha
      rw [List.filter_cons_of_neg (by simpa using ha)]
      simp only [ha', Bool.not_false, if_true, Bool.false_eq_true, if_false]
      exact ih hs.tail

theorem mem_mergeDirty {u s : Assoc (Option Bytes)} {x : Bytes × Option Bytes}
    (h : x ∈ mergeDirty u s) : x ∈ u ∨ x ∈ s := by
  fun_induction mergeDirty u s with
  | case1 s => exact Or.inr h
  | case2 u _ => exact Or.inl h
  | case3 uk uv u sk sv s hlt ih =>
    rcases List.mem_cons.mp h with e | e
    · exact Or.inl (e ▸ List.mem_cons_self)
    · rcases ih e with l | r
      · exact Or.inl (List.mem_cons_of_mem _ l)
      · exact Or.inr r
  | case4 uv u sk sv s _ ih =>
    rcases List.mem_cons.mp h with e | e
    · exact Or.inl (e ▸ List.mem_cons_self)
    · rcases ih e with l | r
      · exact Or.inl (List.mem_cons_of_mem _ l)
      · exact Or.inr (List.mem_cons_of_mem _ r)
  | case5 uk uv u sk sv s h1 h2 ih =>
    rcases List.mem_cons.mp h with e | e
    · exact Or.inr (e ▸ List.mem_cons_self)
    · rcases ih e with l | r
      · exact Or.inl l
      · exact Or.inr (List.mem_cons_of_mem _ r)

theorem mergeDirty_sorted {u s : Assoc (Option Bytes)} (hu : Assoc.Sorted u) (hs : Assoc.Sorted s) :
    Assoc.Sorted (mergeDirty u s) := by
  fun_induction mergeDirty u s with
  | case1 s => exact hs
  | case2 u _ => exact hu
  | case3 uk uv u sk sv s hlt ih =>
    refine Assoc.sorted_cons.mpr ⟨?_, ih hu.tail hs⟩
    intro x hx
    rcases mem_mergeDirty hx with l | r
    · exact hu.head_lt x l
    · rcases List.mem_cons.mp r with rfl | r
      · exact hlt
      · exact Bytes.lt_trans hlt (hs.head_lt x r)
  | case4 uv u sk sv s _ ih =>
    refine Assoc.sorted_cons.mpr ⟨?_, ih hu.tail hs.tail⟩
    intro x hx
    rcases mem_mergeDirty hx with l | r
    · exact hu.head_lt x l
    · exact hs.head_lt x r
  | case5 uk uv u sk sv s h1 h2 ih =>
    have hlt : sk < uk := by
      rcases Bytes.lt_tri uk sk with h | h | h
      · exact absurd h h1
      · exact absurd h h2
      · exact h
    refine Assoc.sorted_cons.mpr ⟨?_, ih hu hs.tail⟩
    intro x hx
    rcases mem_mergeDirty hx with l | r
    · rcases List.mem_cons.mp l with rfl | l
      · exact hlt
      · exact Bytes.lt_trans hlt (hu.head_lt x l)
    · exact hs.head_lt x r

/-- The three-way merge of `dirtyItems`: new items win on equal keys. -/
theorem get_mergeDirty {u s : Assoc (Option Bytes)} (hu : Assoc.Sorted u) (k : Bytes) :
    Assoc.get (mergeDirty u s) k = (Assoc.get u k).or (Assoc.get s k) := by
  fun_induction mergeDirty u s with
  | case1 s => simp
  | case2 u _ => simp
  | case3 uk uv u sk sv s hlt ih =>
    rw [Assoc.get_cons, ih hu.tail, Assoc.get_cons uk]
    by_cases e : k = uk
    · simp [e]
    · simp [e]
  | case4 uv u sk sv s _ ih =>
    rw [Assoc.get_cons, ih hu.tail, Assoc.get_cons sk uv, Assoc.get_cons sk sv]
    by_cases e : k = sk
    · simp [e]
    · simp [e]
  | case5 uk uv u sk sv s h1 h2 ih =>
    have hlt : sk < uk := by
      rcases Bytes.lt_tri uk sk with h | h | h
      · exact absurd h h1
      · exact absurd h h2
      · exact h
    rw [Assoc.get_cons, ih hu, Assoc.get_cons sk sv]
    by_cases e : k = sk
    · subst e
      have : Assoc.get ((uk, uv) :: u) k = none := by
        apply Assoc.get_eq_none_of_lt
        intro x hx
        rcases List.mem_cons.mp hx with rfl | hx
        · exact hlt
        · exact Bytes.lt_trans hlt (hu.head_lt x hx)
      simp [this]
    · simp [e]

/-- Lookup in a list whose values are recomputed from the keys (`dirtyItems`' `unsorted` slice). -/
theorem get_map_keyfn {β γ : Type} (l : Assoc β) (f : Bytes → γ) (k : Bytes) :
    Assoc.get (l.map fun p => (p.1, f p.1)) k = if (Assoc.get l k).isSome then some (f k) else none := by
  induction l with
  | nil => rfl
  | cons a l ih =>
    obtain ⟨a, b⟩ := a
    rw [List.map_cons, Assoc.get_cons, Assoc.get_cons, ih]
    by_cases e : k = a
    · subst e; simp
    · simp [e]

theorem map_keyfn_sorted {β γ : Type} {l : Assoc β} (hs : Assoc.Sorted l) (f : Bytes → γ) :
    Assoc.Sorted (l.map fun p => (p.1, f p.1)) := by
  unfold Assoc.Sorted
  rw [List.pairwise_map]
  exact hs

end CacheKV
