import Proofs.Store.IavlProof
/-! C05: completeness of absence proofs for a key strictly between two stored keys (two-leaf proofs). -/
namespace IavlProof
section
variable (H : Bytes → Bytes) (enc : Int → Int → Int → Bytes → Bytes → Bytes)

/-- routing keys are exact: the key of an inner node is the smallest key of its right subtree
(what `MutableTree.recursiveSet` / rotations maintain) -/
inductive Exact : Tree → Prop
  | leaf (k v : Bytes) (ver : Int) : Exact (.leaf k v ver)
  | inner (h s ver : Int) (nk : Bytes) (l r : Tree) : nk = r.first.1 → Exact l → Exact r → Exact (.inner h s ver nk l r)

/-- the leftmost spine of a subtree as the prover records it (`Left: nil, Right: rightHash`) -/
def lmPath : Tree → Path
  | .leaf _ _ _ => []
  | .inner h s v _ l r => ⟨h, s, v, [], Tree.hash H enc r⟩ :: lmPath l

theorem lmPath_hash (r : Tree) : pathLeafHash H enc (lmPath H enc r) (pleafOf H r.first) = Tree.hash H enc r := by
  induction r with
  | leaf k v ver => simp [lmPath, pathLeafHash, pathHash, pleafOf, PLeaf.hash, Tree.hash, Tree.first]
  | inner h s v k l r ihl _ =>
    simp only [lmPath, pathLeafHash, pathHash, PIN.hash, if_true, Tree.hash, Tree.first]
    simp only [pathLeafHash] at ihl
    rw [ihl]

theorem lmPath_valid (hne : HNonEmpty H) (r : Tree) (hw : WF r) : validPath true (lmPath H enc r) = true := by
  rw [validPath_iff]
  induction hw with
  | leaf => simp [lmPath]
  | inner h s ver nk l r hh _ _ _ _ ihl _ =>
    intro n hn
    simp only [lmPath, List.mem_cons] at hn
    rcases hn with rfl | hn
    · exact ⟨hh, Or.inl ⟨rfl, hash_ne_nil H enc hne r⟩, fun _ => rfl⟩
    · exact ihl n hn

/-- `Btw key t P p r`: the descent for the absent `key` in `t` is the path `P`, ends at the leaf `p`
(the predecessor), and `r` is the right sibling at the deepest left turn of `P` (its first leaf is the
successor). -/
inductive Btw (key : Bytes) : Tree → Path → Bytes × Bytes × Int → Tree → Prop
  | here (h s v : Int) (k : Bytes) (l r : Tree) (M : Path) (p : Bytes × Bytes × Int) :
      key < k → pathToLeaf H enc l key = (M, p) → (∀ n ∈ M, n.right = []) → p = l.last →
      (∀ e ∈ l.leaves, e.1 < key) → (∀ e ∈ r.leaves, key < e.1) →
      Btw key (.inner h s v k l r) (⟨h, s, v, [], Tree.hash H enc r⟩ :: M) p r
  | left (h s v : Int) (k : Bytes) (l r : Tree) (P : Path) (p : Bytes × Bytes × Int) (r' : Tree) :
      key < k → Btw key l P p r' → Btw key (.inner h s v k l r) (⟨h, s, v, [], Tree.hash H enc r⟩ :: P) p r'
  | right (h s v : Int) (k : Bytes) (l r : Tree) (P : Path) (p : Bytes × Bytes × Int) (r' : Tree) :
      ¬ key < k → Btw key r P p r' → Btw key (.inner h s v k l r) (⟨h, s, v, Tree.hash H enc l, []⟩ :: P) p r'

theorem leaves_ne_nil (t : Tree) : t.leaves ≠ [] := fun h => by
  have := first_mem t; rw [h] at this; simp at this

/-- the descent for an absent key with stored keys on both sides has the `Btw` shape -/
theorem btw_of_absent (key : Bytes) (t : Tree) (hw : WF t) (hx : Exact t)
    (habs : ∀ e ∈ t.leaves, e.1 ≠ key) (hlo : ∃ e ∈ t.leaves, e.1 < key) (hhi : ∃ e ∈ t.leaves, key < e.1) :
    ∃ P p r, pathToLeaf H enc t key = (P, p) ∧ Btw H enc key t P p r := by
  induction hw with
  | leaf k v ver =>
    obtain ⟨e, he, h1⟩ := hlo
    obtain ⟨e', he', h2⟩ := hhi
    simp [Tree.leaves] at he he'
    subst he; subst he'
    exact absurd (Bytes.lt_trans h1 h2) (Bytes.lt_irrefl _)
  | inner h s ver nk l r _ hwl hwr hl hr ihl ihr =>
    cases hx with
    | inner _ _ _ _ _ _ hnk hxl hxr =>
    simp only [Tree.leaves, List.mem_append] at habs hlo hhi
    by_cases hlt : key < nk
    · -- the right subtree is entirely above the key
      have hrall : ∀ e ∈ r.leaves, key < e.1 := fun e he => Bytes.lt_of_lt_of_le hlt (hr e he)
      by_cases hall : ∀ e ∈ l.leaves, e.1 < key
      · obtain ⟨hrm, hleaf⟩ := pathToLeaf_above H enc l hwl key hall
        refine ⟨⟨h, s, ver, [], Tree.hash H enc r⟩ :: (pathToLeaf H enc l key).1, (pathToLeaf H enc l key).2, r,
          by simp only [pathToLeaf, if_pos hlt], ?_⟩
        exact Btw.here _ _ _ _ _ _ _ _ hlt rfl ((isRightmost_iff _).mp hrm) hleaf hall hrall
      · -- some leaf of l is above the key; one below must be in l as well
        have hhi' : ∃ e ∈ l.leaves, key < e.1 := by
          apply Classical.byContradiction
          intro hc
          apply hall
          intro e he
          rcases Bytes.lt_tri e.1 key with c | c | c
          · exact c
          · exact absurd c (habs e (Or.inl he))
          · exact absurd ⟨e, he, c⟩ hc
        have hlo' : ∃ e ∈ l.leaves, e.1 < key := by
          obtain ⟨e, he, h1⟩ := hlo
          rcases he with he | he
          · exact ⟨e, he, h1⟩
          · exact absurd (Bytes.lt_trans (hrall e he) h1) (Bytes.lt_irrefl _)
        obtain ⟨P, p, r', hp, hb⟩ := ihl hxl (fun e he => habs e (Or.inl he)) hlo' hhi'
        refine ⟨_, p, r', by simp only [pathToLeaf, if_pos hlt, hp], Btw.left _ _ _ _ _ _ _ _ _ hlt hb⟩
    · have hle : nk ≤ key := Bytes.not_lt.mp hlt
      have hlall : ∀ e ∈ l.leaves, e.1 < key := fun e he => Bytes.lt_of_lt_of_le (hl e he) hle
      have hfirst : r.first.1 < key := by
        rcases (Bytes.le_iff nk key).mp hle with c | c
        · rw [← hnk]; exact c
        · exact absurd (by rw [← c, hnk]) (habs r.first (Or.inr (first_mem r)))
      have hhi' : ∃ e ∈ r.leaves, key < e.1 := by
        obtain ⟨e, he, h1⟩ := hhi
        rcases he with he | he
        · exact absurd (Bytes.lt_trans (hlall e he) h1) (Bytes.lt_irrefl _)
        · exact ⟨e, he, h1⟩
      obtain ⟨P, p, r', hp, hb⟩ := ihr hxr (fun e he => habs e (Or.inr he)) ⟨r.first, first_mem r, hfirst⟩ hhi'
      refine ⟨_, p, r', by simp only [pathToLeaf, if_neg hlt, hp], Btw.right _ _ _ _ _ _ _ _ _ hlt hb⟩

theorem drop_cons_facts {P : Path} {c : Nat} {a : PIN} {rest : Path} (h : P.drop c = a :: rest) :
    P[c]? = some a ∧ P.drop (c + 1) = rest ∧ P.length = c + 1 + rest.length := by
  have h1 : P[c]? = some a := by
    have := @List.getElem?_drop _ P c 0
    rw [h] at this
    simp at this
    exact this.symm
  have h2 : P.drop (c + 1) = rest := by
    have : (P.drop c).drop 1 = P.drop (c + 1) := by rw [List.drop_drop]
    rw [← this, h]; rfl
  have h3 : P.length = c + 1 + rest.length := by
    have := congrArg List.length h
    simp only [List.length_drop, List.length_cons] at this
    omega
  exact ⟨h1, h2, h3⟩

theorem trackPath_match (P : Path) (st : Trav) (c : Nat) (pn : PIN) (h : Int) (lh rh : Bytes)
    (hc : st.pathCount = some c) (hp : P[c]? = some pn) (hh : pn.height = h)
    (hl : pn.left = [] ∨ pn.left = lh) (hr : pn.right = [] ∨ pn.right = rh) :
    trackPath P st h lh rh = { st with pathCount := some (c + 1) } := by
  unfold trackPath
  rw [hc]; simp only [hp]
  have : ¬ (pn.height ≠ h ∨ (pn.left ≠ [] ∧ pn.left ≠ lh) ∨ (pn.right ≠ [] ∧ pn.right ≠ rh)) := by
    intro hcon
    rcases hcon with a | ⟨a, b⟩ | ⟨a, b⟩
    · exact a hh
    · rcases hl with x | x <;> contradiction
    · rcases hr with x | x <;> contradiction
  rw [if_neg this]

theorem trackPath_off (P : Path) (st : Trav) (h : Int) (lh rh : Bytes)
    (hc : st.pathCount = none ∨ ∃ c, st.pathCount = some c ∧ P.length ≤ c) :
    trackPath P st h lh rh = { st with pathCount := none } := by
  unfold trackPath
  rcases hc with hc | ⟨c, hc, hlen⟩
  · rw [hc]; cases st; simp_all
  · rw [hc]
    have : P[c]? = none := List.getElem?_eq_none hlen
    simp only [this]

/-- a descent that only turns right meets no leaf at or after `start`; the traversal just counts the
path nodes -/
theorem traverse_allright (fx : Fixes) (P : Path) (start keyEnd key : Bytes) (limit : Nat) :
    ∀ (u : Tree), WF u → (∀ e ∈ u.leaves, e.1 < key) → (∀ e ∈ u.leaves, e.1 < start) →
    ∀ (c : Nat) (st : Trav), P.drop c = (pathToLeaf H enc u key).1 → st.pathCount = some c →
    traverse H enc fx P start keyEnd limit u st
      = ({ st with pathCount := some (c + (pathToLeaf H enc u key).1.length) }, false) := by
  intro u hw
  induction hw with
  | leaf k v ver =>
    intro _ hs c st _ hc
    have : ¬ start ≤ k := Bytes.not_le.mpr (hs (k, v, ver) (by simp [Tree.leaves]))
    simp only [traverse, if_neg this, pathToLeaf, List.length_nil, Nat.add_zero]
    cases st; simp_all
  | inner h s ver nk l r _ _ hwr _ hr _ ihr =>
    intro hk hs c st hd hc
    have hnlt : ¬ key < nk :=
      Bytes.not_lt.mpr (Bytes.le_of_lt (Bytes.lt_of_le_of_lt (hr _ (first_mem r)) (hk _ (by simp [Tree.leaves, first_mem r]))))
    have hns : ¬ start < nk :=
      Bytes.not_lt.mpr (Bytes.le_of_lt (Bytes.lt_of_le_of_lt (hr _ (first_mem r)) (hs _ (by simp [Tree.leaves, first_mem r]))))
    simp only [pathToLeaf, if_neg hnlt] at hd ⊢
    obtain ⟨g1, g2, _⟩ := drop_cons_facts hd
    simp only [traverse]
    rw [trackPath_match P st c _ h _ _ hc g1 rfl (Or.inr rfl) (Or.inl rfl)]
    simp only [Option.isNone_some, Bool.false_eq_true, if_false, if_neg hns]
    have := ihr (fun e he => hk e (by simp [Tree.leaves, he])) (fun e he => hs e (by simp [Tree.leaves, he]))
      (c + 1) { st with pathCount := some (c + 1) } g2 rfl
    rw [this]
    have e : c + 1 + (pathToLeaf H enc r key).1.length = c + ((pathToLeaf H enc r key).1.length + 1) := by omega
    simp only [List.length_cons, e]

/-- traversal of a subtree that lies entirely at or after `start`, with one leaf collected so far and
limit 2: it walks down the left spine, records it, takes the first leaf and stops -/
theorem traverse_first (fx : Fixes) (P : Path) (start keyEnd : Bytes) :
    ∀ (r : Tree), WF r → start ≤ r.first.1 →
    ∀ st : Trav, (st.pathCount = none ∨ ∃ c, st.pathCount = some c ∧ P.length ≤ c) → st.leafCount = 1 →
    traverse H enc fx P start keyEnd 2 r st
      = (⟨none, st.allPaths ++ [st.current ++ lmPath H enc r], [], st.leaves ++ [pleafOf H r.first], 2, st.values⟩, true) := by
  intro r hw
  induction hw with
  | leaf k v ver =>
    intro hs st hc hl
    simp only [Tree.first] at hs
    simp only [traverse, if_pos hs]
    rw [trackPath_off P st 0 [] [] hc]
    simp [hl, lmPath, pleafOf, Tree.first]
  | inner h s ver nk l r _ hwl _ hl _ ihl _ =>
    intro hs st hc hlc
    simp only [Tree.first] at hs
    have hlt : start < nk := Bytes.lt_of_le_of_lt hs (hl _ (first_mem l))
    simp only [traverse]
    rw [trackPath_off P st h _ _ hc]
    simp only [Option.isNone_none, if_true, if_pos hlt]
    rw [ihl hs ⟨none, st.allPaths, st.current ++ [(⟨h, s, ver, [], Tree.hash H enc r⟩ : PIN)], st.leaves, st.leafCount, st.values⟩
      (Or.inl rfl) hlc]
    simp [lmPath, Tree.first]

theorem btw_mem {key : Bytes} {u : Tree} {Q : Path} {p : Bytes × Bytes × Int} {r : Tree}
    (hb : Btw H enc key u Q p r) : p ∈ u.leaves ∧ (∀ e ∈ r.leaves, e ∈ u.leaves) ∧ p.1 < key ∧ (∀ e ∈ r.leaves, key < e.1) := by
  induction hb with
  | here h s v k l r M p _ _ _ hp hall hrall =>
    refine ⟨by simp [Tree.leaves, hp, last_mem l], fun e he => by simp [Tree.leaves, he], ?_, hrall⟩
    rw [hp]; exact hall _ (last_mem l)
  | left h s v k l r P p r' _ _ ih =>
    exact ⟨by simp [Tree.leaves, ih.1], fun e he => by simp [Tree.leaves, ih.2.1 e he], ih.2.2⟩
  | right h s v k l r P p r' _ _ ih =>
    exact ⟨by simp [Tree.leaves, ih.1], fun e he => by simp [Tree.leaves, ih.2.1 e he], ih.2.2⟩

theorem btw_wf {key : Bytes} {u : Tree} {Q : Path} {p : Bytes × Bytes × Int} {r : Tree}
    (hb : Btw H enc key u Q p r) (hw : WF u) : WF r := by
  induction hb with
  | here => cases hw with | inner _ _ _ _ _ _ _ _ hwr _ _ => exact hwr
  | left _ _ _ _ _ _ _ _ _ _ _ ih => cases hw with | inner _ _ _ _ _ _ _ hwl _ _ _ => exact ih hwl
  | right _ _ _ _ _ _ _ _ _ _ _ ih => cases hw with | inner _ _ _ _ _ _ _ _ hwr _ _ => exact ih hwr

/-- the shape of the path: a prefix, the deepest left turn carrying `hash r`, then right turns only -/
theorem btw_shape {key : Bytes} {u : Tree} {Q : Path} {p : Bytes × Bytes × Int} {r : Tree}
    (hb : Btw H enc key u Q p r) :
    ∃ A nd M, Q = A ++ nd :: M ∧ nd.right = Tree.hash H enc r ∧ (∀ n ∈ M, n.right = []) := by
  induction hb with
  | here h s v k l r M p _ _ hM _ _ _ => exact ⟨[], _, M, rfl, rfl, hM⟩
  | left h s v k l r P p r' _ _ ih =>
    obtain ⟨A, nd, M, e, h1, h2⟩ := ih
    exact ⟨_ :: A, nd, M, by rw [e]; rfl, h1, h2⟩
  | right h s v k l r P p r' _ _ ih =>
    obtain ⟨A, nd, M, e, h1, h2⟩ := ih
    exact ⟨_ :: A, nd, M, by rw [e]; rfl, h1, h2⟩

/-- the traversal of `getRangeProof` (limit 2) along a `Btw` descent collects exactly the successor
leaf, with the left spine of the sibling subtree as its inner path -/
theorem traverse_btw (fx : Fixes) (key : Bytes) (P : Path) (start keyEnd : Bytes) :
    ∀ (u : Tree) (Q : Path) (p : Bytes × Bytes × Int) (r : Tree), Btw H enc key u Q p r → WF u → Exact u →
    p.1 < start → start < r.first.1 →
    ∀ (c : Nat) (st : Trav), P.drop c = Q → st.pathCount = some c → st.allPaths = [] → st.current = [] →
      st.leafCount = 1 →
    traverse H enc fx P start keyEnd 2 u st
      = (⟨none, [lmPath H enc r], [], st.leaves ++ [pleafOf H r.first], 2, st.values⟩, true) := by
  intro u Q p r hb
  induction hb with
  | here h s v k l r M p hlt hpl hM hp hall hrall =>
    intro hw hx hps hsr c st hd hc ha hcur hlc
    cases hw with
    | inner _ _ _ _ _ _ _ hwl hwr hl hr =>
    cases hx with
    | inner _ _ _ _ _ _ hnk _ _ =>
    obtain ⟨g1, g2, g3⟩ := drop_cons_facts hd
    have hsk : start < k := by rw [hnk]; exact hsr
    simp only [traverse]
    rw [trackPath_match P st c _ h _ _ hc g1 rfl (Or.inl rfl) (Or.inr rfl)]
    simp only [Option.isNone_some, Bool.false_eq_true, if_false, if_pos hsk]
    have hM' : M = (pathToLeaf H enc l key).1 := by rw [hpl]
    have hlstart : ∀ e ∈ l.leaves, e.1 < start := fun e he =>
      Bytes.lt_of_le_of_lt (by rw [hp]; exact le_last l hwl e he) hps
    rw [traverse_allright H enc fx P start keyEnd key 2 l hwl hall hlstart (c + 1)
      { st with pathCount := some (c + 1) } (by rw [g2, hM']) rfl]
    simp only [Bool.false_eq_true, if_false]
    rw [traverse_first H enc fx P start keyEnd r hwr (Bytes.le_of_lt hsr)
      ⟨some (c + 1 + (pathToLeaf H enc l key).1.length), st.allPaths, st.current, st.leaves, st.leafCount, st.values⟩
      (Or.inr ⟨c + 1 + (pathToLeaf H enc l key).1.length, rfl, by rw [g3, hM']; exact Nat.le_refl _⟩) hlc]
    simp [ha, hcur]
  | left h s v k l r P' p r' hlt hb ih =>
    intro hw hx hps hsr c st hd hc ha hcur hlc
    cases hw with
    | inner _ _ _ _ _ _ _ hwl hwr hl hr =>
    cases hx with
    | inner _ _ _ _ _ _ hnk hxl _ =>
    obtain ⟨g1, g2, _⟩ := drop_cons_facts hd
    have hfirst : r'.first ∈ l.leaves := (btw_mem H enc hb).2.1 _ (first_mem r')
    have hsk : start < k := Bytes.lt_trans hsr (hl _ hfirst)
    simp only [traverse]
    rw [trackPath_match P st c _ h _ _ hc g1 rfl (Or.inl rfl) (Or.inr rfl)]
    simp only [Option.isNone_some, Bool.false_eq_true, if_false, if_pos hsk]
    rw [ih hwl hxl hps hsr (c + 1) { st with pathCount := some (c + 1) } g2 rfl ha hcur hlc]
    simp
  | right h s v k l r P' p r' hnlt hb ih =>
    intro hw hx hps hsr c st hd hc ha hcur hlc
    cases hw with
    | inner _ _ _ _ _ _ _ hwl hwr hl hr =>
    cases hx with
    | inner _ _ _ _ _ _ hnk _ hxr =>
    obtain ⟨g1, g2, _⟩ := drop_cons_facts hd
    have hpm : p ∈ r.leaves := (btw_mem H enc hb).1
    have hns : ¬ start < k := Bytes.not_lt.mpr (Bytes.le_of_lt (Bytes.lt_of_le_of_lt (hr _ hpm) hps))
    simp only [traverse]
    rw [trackPath_match P st c _ h _ _ hc g1 rfl (Or.inr rfl) (Or.inl rfl)]
    simp only [Option.isNone_some, Bool.false_eq_true, if_false, if_neg hns]
    rw [ih hwr hxr hps hsr (c + 1) { st with pathCount := some (c + 1) } g2 rfl ha hcur hlc]

/-- what the repaired prover returns for an absent key between two stored keys -/
theorem queryProof_between (fx : Fixes) (hfx : fx.succKey = true) (t : Tree) (hw : WF t) (hx : Exact t)
    (key : Bytes) (habs : ∀ e ∈ t.leaves, e.1 ≠ key) (hlo : ∃ e ∈ t.leaves, e.1 < key)
    (hhi : ∃ e ∈ t.leaves, key < e.1)
    (hgap : ∀ e ∈ t.leaves, ∀ e' ∈ t.leaves, e'.1 ≠ e.1 ++ [0]) :
    ∃ P p r, pathToLeaf H enc t key = (P, p) ∧ Btw H enc key t P p r ∧
      queryProof H enc fx (some t) key
        = some (none, some ⟨P, [lmPath H enc r], [pleafOf H p, pleafOf H r.first]⟩) := by
  obtain ⟨P, p, r, hp, hb⟩ := btw_of_absent H enc key t hw hx habs hlo hhi
  refine ⟨P, p, r, hp, hb, ?_⟩
  obtain ⟨hpm, hrm, hpk, hrk⟩ := btw_mem H enc hb
  have hn : ∀ k, nextKey fx k = k ++ [0] := fun k => by simp [nextKey, hfx]
  have h1 : (pathToLeaf H enc t key).1 = P := by rw [hp]
  have h2 : (pathToLeaf H enc t key).2 = p := by rw [hp]
  have hfirst : r.first ∈ t.leaves := hrm _ (first_mem r)
  have hkr : key < r.first.1 := hrk _ (first_mem r)
  have hstart : p.1 ++ [0] < r.first.1 := by
    rcases (Bytes.le_iff _ _).mp (succ_le_of_lt _ _ (Bytes.lt_trans hpk hkr)) with c | c
    · exact c
    · exact absurd c.symm (hgap p hpm _ hfirst)
  have hnstop : ¬ (2 = 1 ∨ nextKey fx key ≤ nextKey fx p.1) := by
    rw [hn, hn]
    intro hc
    rcases hc with hc | hc
    · omega
    · exact Bytes.lt_irrefl _ (Bytes.lt_of_lt_of_le (Bytes.lt_of_le_of_lt (succ_le_of_lt _ _ hpk) (lt_succ key)) hc)
  have hg := getRangeProof_eq H enc fx t key (nextKey fx key) 2
  rw [if_neg (Bytes.not_le.mpr (by rw [hn]; exact lt_succ key)), h1, h2, if_neg hnstop] at hg
  rw [traverse_btw H enc fx key P (nextKey fx p.1) (nextKey fx key) t P p r hb hw hx
    (by rw [hn]; exact lt_succ _) (by rw [hn]; exact hstart) 0 _ rfl rfl rfl rfl rfl] at hg
  exact getWithProof_absent H enc fx t key _ _ hg
    (by intro l hl; simp at hl; subst hl; exact fun e => Bytes.lt_irrefl key (by simp only [pleafOf] at e; rw [e] at hpk; exact hpk))

theorem pathLoop_skip (rec : Path → Bool → List PLeaf → List Path → Except Err CH) (hash : Bytes) (rm : Bool) :
    ∀ (M rest : List PIN) (lv : List PLeaf) (ins : List Path), (∀ n ∈ M, n.right = []) →
    pathLoop rec hash rm (M ++ rest) lv ins = pathLoop rec hash rm rest lv ins := by
  intro M
  induction M with
  | nil => intro rest lv ins _; rfl
  | cons n M ih =>
    intro rest lv ins h
    simp only [List.cons_append, pathLoop, if_pos (h n (by simp))]
    exact ih rest lv ins (fun m hm => h m (by simp [hm]))

/-- the verifier accepts that two-leaf proof -/
theorem absence_between_verifies (fx : Fixes) (hne : HNonEmpty H) (t : Tree) (hw : WF t) (key : Bytes)
    (P : Path) (p : Bytes × Bytes × Int) (r : Tree) (hp : pathToLeaf H enc t key = (P, p))
    (hb : Btw H enc key t P p r) :
    absenceOpRun H enc fx (some ⟨P, [lmPath H enc r], [pleafOf H p, pleafOf H r.first]⟩) key []
      = .ok [Tree.hash H enc t] := by
  obtain ⟨_, _, hpk, hrk⟩ := btw_mem H enc hb
  obtain ⟨A, nd, M, hshape, hnd, hM⟩ := btw_shape H enc hb
  have hwr : WF r := btw_wf H enc hb hw
  have hroot : pathLeafHash H enc P (pleafOf H p) = Tree.hash H enc t := by
    have := pathToLeaf_hash H enc hne t key
    rw [hp] at this; exact this
  have hvalP : validPath false P = true := by
    have := pathToLeaf_valid H enc hne t hw key
    rw [hp] at this; exact this
  have hvalL : validPath true (lmPath H enc r) = true := lmPath_valid H enc hne r hwr
  have hndne : nd.right ≠ [] := by rw [hnd]; exact hash_ne_nil H enc hne r
  have hrev : P.reverse = M.reverse ++ nd :: A.reverse := by rw [hshape]; simp
  -- the root computation
  have hcr : ∃ te, computeRootHash H enc fx ⟨P, [lmPath H enc r], [pleafOf H p, pleafOf H r.first]⟩
      = .ok (Tree.hash H enc t, te) := by
    unfold computeRootHash
    have h3 : ¬ (fx.strictNodes = true ∧ ¬ (validPath false P = true ∧ [lmPath H enc r].all (validPath true) = true)) := by
      intro ⟨_, h2⟩; exact h2 ⟨hvalP, by simp [hvalL]⟩
    simp only [List.length_cons, List.length_nil, Nat.zero_add, ne_eq, not_true_eq_false, if_false, if_neg h3,
      reduceCtorEq]
    simp only [computeHash, List.cons_ne_nil, if_false]
    rw [hrev, pathLoop_skip _ _ _ M.reverse _ _ _ (fun n hn => hM n (by simpa using hn))]
    simp only [pathLoop, if_neg hndne, computeHash]
    have hh : pathLeafHash H enc (lmPath H enc r) (pleafOf H r.first) = nd.right := by
      rw [hnd]; exact lmPath_hash H enc r
    simp [hh, hroot]
  obtain ⟨te, hcr⟩ := hcr
  simp only [absenceOpRun, hcr]
  have h1 : ¬ key < (pleafOf H p).key := Bytes.lt_asymm hpk
  have h2 : key ≠ (pleafOf H p).key := fun e => Bytes.lt_irrefl key (by simp only [pleafOf] at e; rw [← e] at hpk; exact hpk)
  have h3 : P ≠ [] := by rw [hshape]; simp
  have h4 : isRightmost P ≠ true := by
    intro hc
    exact hndne ((isRightmost_iff P).mp hc nd (by rw [hshape]; simp))
  have h5 : key < (pleafOf H r.first).key := hrk _ (first_mem r)
  simp [verifyAbsence, h1, h2, h3, h4, absenceLoop, h5]

/-- **Absence completeness for a key strictly between two stored keys** (repaired prover). -/
theorem absence_complete_between' (fx : Fixes) (hfx : fx.succKey = true) (hne : HNonEmpty H)
    (t : Tree) (hw : WF t) (hx : Exact t) (key : Bytes)
    (habs : ∀ e ∈ t.leaves, e.1 ≠ key) (hlo : ∃ e ∈ t.leaves, e.1 < key) (hhi : ∃ e ∈ t.leaves, key < e.1)
    (hgap : ∀ e ∈ t.leaves, ∀ e' ∈ t.leaves, e'.1 ≠ e.1 ++ [0]) :
    ∃ pr, queryProof H enc fx (some t) key = some (none, some pr) ∧
      absenceOpRun H enc fx (some pr) key [] = .ok [Tree.hash H enc t] := by
  obtain ⟨P, p, r, hp, hb, hq⟩ := queryProof_between H enc fx hfx t hw hx key habs hlo hhi hgap
  exact ⟨_, hq, absence_between_verifies H enc fx hne t hw key P p r hp hb⟩
end
end IavlProof
