import Proofs.Store.IavlHeapOps
/-!
# IAVL on the heap: `recursiveSet` refines the pure model (C09 stage B)
-/
namespace Iavl.Heap
open Iavl
variable (H : HashIn → Hash)

theorem asIs_setClonesDirty : Cfg.asIs.setClonesDirty = true := rfl
theorem asIs_rotateClones : Cfg.asIs.rotateClones = true := rfl

/-- Validity survives an extension even at an object outside `K`, if that object is unpersisted. -/
theorem Valid.ext' {K : Addr → Prop} {st st' : St} {x : Addr} (h : Valid st x) (hext : ExtOn K st st')
    (hk : K x ∨ ∃ c, st.heap[x]? = some c ∧ c.persisted = false) : Valid st' x := by
  rcases hk with hk | ⟨c, hc, hp⟩
  · exact h.ext hext hk
  · obtain ⟨c', hc'⟩ := get_of_lt (Nat.lt_of_lt_of_le (lt_of_get hc) hext.len)
    exact ⟨c', hc', fun hp' => by rw [hext.pers x c c' hc hc', hp] at hp'; cases hp'⟩

theorem Fresh.mono {st : St} {P P' : Addr → Prop} (h : ∀ x, P x → P' x) {x : Addr} (hx : Fresh st P x) :
    Fresh st P' x := by
  rcases hx with hx | hx | hx
  · exact Or.inl (h x hx)
  · exact Or.inr (Or.inl hx)
  · exact Or.inr (Or.inr hx)

/-- **`recursiveSet` on the heap commutes with the pure `recursiveSet`** (as-is clone discipline):
given enough fuel it succeeds, the returned object represents the pure result, the `updated` flag
is the pure one, and no object that existed before the call is written. -/
theorem recursiveSet_spec (version : Nat) (key value : Bytes) :
    ∀ (t : Node) (fuel : Nat) (P : Addr → Prop) (st : St) (a : Addr) (orphans : List Addr),
      depth t < fuel → CacheOK st → Rep H P st t a →
      ∃ st' n orph', recursiveSet Cfg.asIs version fuel st a key value orphans
          = some (st', n, (Node.recursiveSet version t key value).2, orph') ∧
        Ext st st' ∧ CacheOK st' ∧ Rep H (Fresh st P) st' (Node.recursiveSet version t key value).1 n ∧
        (∃ extra, orph' = orphans ++ extra ∧ ∀ x ∈ extra, Valid st' x) := by
  intro t
  induction t with
  | leaf k v ver =>
    intro fuel P st a orphans hfuel hc hrep
    obtain ⟨fuel, rfl⟩ : ∃ f, fuel = f + 1 := ⟨fuel - 1, by omega⟩
    obtain ⟨hPa, c, ha, hk, hv, hh, hs, hver, hlp, hrp, hhash, hpers⟩ := hrep
    have hrepa : Rep H P st (.leaf k v ver) a := ⟨hPa, c, ha, hk, hv, hh, hs, hver, hlp, hrp, hhash, hpers⟩
    -- the new leaf
    let st1 := (st.alloc (newLeaf key value version)).1
    let nl := st.heap.length
    have he1 : Ext st st1 := alloc_ext st _
    have hnl1 : st1.heap[nl]? = some (newLeaf key value version) := alloc_new st _
    have hc1 : CacheOK st1 := CacheOK.ext hc he1 (fun _ _ _ _ => trivial) (fun _ _ h => h)
    by_cases hlt : key < k
    · let cn : Cell := { key := c.key, height := 1, size := 2, leftPtr := some nl, rightPtr := some a, version := version }
      let st2 := (st1.alloc cn).1
      let n := st1.heap.length
      have he2 : Ext st1 st2 := alloc_ext st1 _
      have hn2 : st2.heap[n]? = some cn := alloc_new st1 _
      refine ⟨st2, n, orphans, ?_, he1.trans he2, CacheOK.ext hc1 he2 (fun _ _ _ _ => trivial) (fun _ _ h => h), ?_,
        ⟨[], by simp, fun _ hx => by cases hx⟩⟩
      · have hlt' : key < c.key := by rw [hk]; exact hlt
        simp [recursiveSet, ha, hh, hlt', Node.recursiveSet, hlt]
        exact ⟨rfl, rfl⟩
      · simp only [Node.recursiveSet, if_pos hlt]
        have hfn : Fresh st P n := Or.inr (Or.inl he1.len)
        have hfnl : Fresh st P nl := Or.inr (Or.inl (Nat.le_refl _))
        refine Rep.mk_inner H hfn hn2 hk rfl (by decide) rfl rfl ?_ ?_ rfl rfl
        · exact Slot.ofPtr H (Rep.mk_leaf H hfnl (he2.cells _ _ trivial hnl1))
        · exact Slot.ofPtr H (Rep.mono H (Rep.ext H hrepa (he1.trans he2) (fun _ _ => trivial)) (fun _ _ hx _ => Or.inl hx))
    · by_cases hgt : k < key
      · let cn : Cell := { key := key, height := 1, size := 2, leftPtr := some a, rightPtr := some nl, version := version }
        let st2 := (st1.alloc cn).1
        let n := st1.heap.length
        have he2 : Ext st1 st2 := alloc_ext st1 _
        have hn2 : st2.heap[n]? = some cn := alloc_new st1 _
        refine ⟨st2, n, orphans, ?_, he1.trans he2, CacheOK.ext hc1 he2 (fun _ _ _ _ => trivial) (fun _ _ h => h), ?_,
          ⟨[], by simp, fun _ hx => by cases hx⟩⟩
        · have hlt' : ¬ key < c.key := by rw [hk]; exact hlt
          have hgt' : c.key < key := by rw [hk]; exact hgt
          simp [recursiveSet, ha, hh, hlt', hgt', Node.recursiveSet, hlt, hgt]
          exact ⟨rfl, rfl⟩
        · simp only [Node.recursiveSet, if_neg hlt, if_pos hgt]
          have hfn : Fresh st P n := Or.inr (Or.inl he1.len)
          have hfnl : Fresh st P nl := Or.inr (Or.inl (Nat.le_refl _))
          refine Rep.mk_inner H hfn hn2 rfl rfl (by decide) rfl rfl ?_ ?_ rfl rfl
          · exact Slot.ofPtr H (Rep.mono H (Rep.ext H hrepa (he1.trans he2) (fun _ _ => trivial)) (fun _ _ hx _ => Or.inl hx))
          · exact Slot.ofPtr H (Rep.mk_leaf H hfnl (he2.cells _ _ trivial hnl1))
      · refine ⟨st1, nl, orphans ++ [a], ?_, he1, hc1, ?_, ⟨[a], rfl, fun x hx => ?_⟩⟩
        rotate_left 2
        · rw [List.mem_singleton.mp hx]
          exact (Rep.valid H hrepa).ext he1 trivial
        · have hlt' : ¬ key < c.key := by rw [hk]; exact hlt
          have hgt' : ¬ c.key < key := by rw [hk]; exact hgt
          simp [recursiveSet, ha, hh, hlt', hgt', Node.recursiveSet, hlt, hgt]
          exact ⟨rfl, rfl⟩
        · simp only [Node.recursiveSet, if_neg hlt, if_neg hgt]
          exact Rep.mk_leaf H (Or.inr (Or.inl (Nat.le_refl _))) hnl1
  | inner k h s l r ver ihl ihr =>
    intro fuel P st a orphans hfuel hc hrep
    obtain ⟨fuel, rfl⟩ : ∃ f, fuel = f + 1 := ⟨fuel - 1, by omega⟩
    have hdl : depth l < fuel := by simp only [depth] at hfuel; omega
    have hdr : depth r < fuel := by simp only [depth] at hfuel; omega
    obtain ⟨_, c, ha, hk, hh, h0, hs, _, hl, hr, _, _⟩ := Rep.restrict H hrep
    let P0 : Addr → Prop := fun x => P x ∧ x < st.heap.length
    have hc0 : c.height ≠ 0 := by rw [hh]; exact h0
    -- node := clone(a)
    let cn := cloneCell c version
    let node := st.heap.length
    let st1 := (st.alloc cn).1
    have he1 : Ext st st1 := alloc_ext st cn
    have hnode1 : st1.heap[node]? = some cn := alloc_new st cn
    have hc1 : CacheOK st1 := CacheOK.ext hc he1 (fun _ _ _ _ => trivial) (fun _ _ h => h)
    have hl1 : Slot H P0 st1 l cn.leftPtr cn.leftHash := Slot.ext H hl he1 (fun _ _ => trivial)
    have hr1 : Slot H P0 st1 r cn.rightPtr cn.rightHash := Slot.ext H hr he1 (fun _ _ => trivial)
    have hnotP0 : ¬ P0 node := fun hp => absurd hp.2 (Nat.lt_irrefl _)
    have hnotF1 : ¬ Fresh st1 P0 node := Fresh.not hnode1 rfl hnotP0
    have e1 : clone st a version = some (st1, node) := clone_spec' ha hc0 version
    by_cases hlt : key < k
    · -- descend to the left
      obtain ⟨st2, lp, hg2, he2, hc2, hrl2⟩ := getLeft_spec H hc1 hnode1 hl1
      obtain ⟨st3, nl, orph3, hrec, he3, hc3, hrep3, ex3, hex3, hv3⟩ := ihl fuel _ st2 lp (orphans ++ [a]) hdl hc2 hrl2
      have hnode2 : st2.heap[node]? = some cn := he2.cells _ _ trivial hnode1
      have hnode3 : st3.heap[node]? = some cn := he3.cells _ _ trivial hnode2
      let PB : Addr → Prop := Fresh st2 (Fresh st1 P0)
      have hnotPB : ¬ PB node := Fresh.not hnode2 rfl hnotF1
      let cn4 : Cell := { cn with leftPtr := some nl, leftHash := none }
      let st4 := st3.write node cn4
      have he4 : ExtOn (· ≠ node) st3 st4 := write_ext hnode3 cn4 rfl
      have hnode4 : st4.heap[node]? = some cn4 := write_same hnode3 cn4
      have hc4 : CacheOK st4 := by
        refine CacheOK.ext hc3 he4 (fun x cx hx hp e => ?_) (fun _ _ h => h)
        subst e; rw [hnode3] at hx; cases hx; cases hp
      have e4 : st3.modify node (fun c => { c with leftPtr := some nl, leftHash := none }) = some st4 := modify_eq hnode3 _
      have hPBne : ∀ x, PB x → x ≠ node := fun x hx e => hnotPB (e ▸ hx)
      have hl4 : Slot H PB st4 (Node.recursiveSet version l key value).1 cn4.leftPtr cn4.leftHash :=
        Slot.ofPtr H (Rep.ext H hrep3 he4 hPBne)
      have he14 : ExtOn (· ≠ node) st1 st4 := ((he2.trans he3).on _).trans he4
      have hva1 : Valid st1 a := (Rep.valid H hrep).ext he1 trivial
      have hane : a ≠ node := Nat.ne_of_lt (lt_of_get ha)
      have hr4 : Slot H PB st4 r cn4.rightPtr cn4.rightHash :=
        Slot.mono H (Slot.ext H hr1 he14 (fun x hx e => hnotP0 (e ▸ hx))) (fun _ _ hx _ => Or.inl (Or.inl hx))
      have hPBfresh : ∀ x, PB x → Fresh st P x := fun x hx =>
        Fresh.of_ext (he1.trans he2) (fun y hy => Fresh.of_ext he1 (fun z hz => Or.inl hz.1) hy) hx
      have hcnk : cn.key = k := hk
      have hlt' : key < cn.key := by rw [hcnk]; exact hlt
      cases hupd : (Node.recursiveSet version l key value).2 with
      | true =>
        have hvfin : ∀ x ∈ [a] ++ ex3, Valid st4 x := by
          intro x hx
          have hk : ∀ y, y ≠ node ∨ ∃ c, st3.heap[y]? = some c ∧ c.persisted = false := fun y => by
            by_cases e : y = node
            · exact Or.inr ⟨cn, e ▸ hnode3, rfl⟩
            · exact Or.inl e
          rcases List.mem_append.mp hx with hx | hx
          · rw [List.mem_singleton.mp hx]
            exact ((hva1.ext (he2.trans he3) trivial).ext' he4 (hk a))
          · exact (hv3 x hx).ext' he4 (hk x)
        refine ⟨st4, node, orph3, ?_, ?_, hc4, ?_, ⟨[a] ++ ex3, by rw [hex3]; simp, hvfin⟩⟩
        · rw [hupd] at hrec
          simp only [recursiveSet, ha, hc0, asIs_setClonesDirty, Bool.true_or, if_true, if_false, e1, Option.map_some,
            Option.bind_eq_bind, Option.bind_some, hnode1, hlt', hg2, hrec, e4, Node.recursiveSet, if_pos hlt, hupd]
        · exact (((he1.on (· < st.heap.length)).trans (he14.mono (fun x hx => Nat.ne_of_lt hx)))).toExt
            (fun _ _ hx => lt_of_get hx)
        · simp only [Node.recursiveSet, if_pos hlt, hupd, if_true]
          have : Rep H (fun x => PB x ∨ x = node) st4
              (.inner k h s (Node.recursiveSet version l key value).1 r version) node :=
            Rep.mk_inner H (Or.inr rfl) hnode4 hk hh h0 hs rfl
              (Slot.mono H hl4 (fun _ _ hx _ => Or.inl hx)) (Slot.mono H hr4 (fun _ _ hx _ => Or.inl hx)) rfl rfl
          refine Rep.mono H this (fun x _ hx _ => ?_)
          rcases hx with hx | hx
          · exact hPBfresh x hx
          · exact Or.inr (Or.inl (by rw [hx]; exact Nat.le_refl _))
      | false =>
        obtain ⟨st5, hcalc, he5, hc5, hnode5⟩ := calcHS_spec H hc4 hnode4 rfl hnotPB hl4 hr4
        have hl5 := Slot.ext H hl4 he5 hPBne
        have hr5 := Slot.ext H hr4 he5 hPBne
        obtain ⟨st6, n, orph6, cn6, hbal, he6, hc6, hrep6, _, _, _, _, ex6, hex6, hv6⟩ :=
          balance_spec H version orph3 hc5 hnode5 rfl hnotPB hk rfl (Nat.succ_ne_zero _) rfl rfl rfl hl5 hr5
        have hvfin : ∀ x ∈ [a] ++ ex3 ++ ex6, Valid st6 x := by
          intro x hx
          have he36 : ExtOn (· ≠ node) st3 st6 := (he4.trans he5).trans he6
          have hk : ∀ y, y ≠ node ∨ ∃ c, st3.heap[y]? = some c ∧ c.persisted = false := fun y => by
            by_cases e : y = node
            · exact Or.inr ⟨cn, e ▸ hnode3, rfl⟩
            · exact Or.inl e
          rcases List.mem_append.mp hx with hx | hx
          · rcases List.mem_append.mp hx with hx | hx
            · rw [List.mem_singleton.mp hx]
              exact ((hva1.ext (he2.trans he3) trivial).ext' he36 (hk a))
            · exact (hv3 x hx).ext' he36 (hk x)
          · exact hv6 x hx
        refine ⟨st6, n, orph6, ?_, ?_, hc6, ?_, ⟨[a] ++ ex3 ++ ex6, by rw [hex6, hex3]; simp, hvfin⟩⟩
        · rw [hupd] at hrec
          simp only [recursiveSet, ha, hc0, asIs_setClonesDirty, Bool.true_or, if_true, if_false, e1, Option.map_some,
            Option.bind_eq_bind, Option.bind_some, hnode1, hlt', hg2, hrec, e4, Node.recursiveSet, if_pos hlt, hupd,
            hcalc, hbal, Bool.false_eq_true]
        · exact ((he1.on (· < st.heap.length)).trans (((he14.trans he5).trans he6).mono (fun x hx => Nat.ne_of_lt hx))).toExt
            (fun _ _ hx => lt_of_get hx)
        · simp only [Node.recursiveSet, if_pos hlt, hupd, Bool.false_eq_true, if_false, Node.calcHeightAndSize]
          refine Rep.mono H hrep6 (fun x _ hx _ => ?_)
          rcases hx with hx | hx
          · exact Fresh.of_ext ((he1.on (· ≠ node)).trans (he14.trans he5)) hPBfresh hx
          · exact Or.inr (Or.inl (by rw [hx]; exact Nat.le_refl _))
    · -- descend to the right
      obtain ⟨st2, rp, hg2, he2, hc2, hrr2⟩ := getRight_spec H hc1 hnode1 hr1
      obtain ⟨st3, nr, orph3, hrec, he3, hc3, hrep3, ex3, hex3, hv3⟩ := ihr fuel _ st2 rp (orphans ++ [a]) hdr hc2 hrr2
      have hnode2 : st2.heap[node]? = some cn := he2.cells _ _ trivial hnode1
      have hnode3 : st3.heap[node]? = some cn := he3.cells _ _ trivial hnode2
      let PB : Addr → Prop := Fresh st2 (Fresh st1 P0)
      have hnotPB : ¬ PB node := Fresh.not hnode2 rfl hnotF1
      let cn4 : Cell := { cn with rightPtr := some nr, rightHash := none }
      let st4 := st3.write node cn4
      have he4 : ExtOn (· ≠ node) st3 st4 := write_ext hnode3 cn4 rfl
      have hnode4 : st4.heap[node]? = some cn4 := write_same hnode3 cn4
      have hc4 : CacheOK st4 := by
        refine CacheOK.ext hc3 he4 (fun x cx hx hp e => ?_) (fun _ _ h => h)
        subst e; rw [hnode3] at hx; cases hx; cases hp
      have e4 : st3.modify node (fun c => { c with rightPtr := some nr, rightHash := none }) = some st4 := modify_eq hnode3 _
      have hPBne : ∀ x, PB x → x ≠ node := fun x hx e => hnotPB (e ▸ hx)
      have hr4 : Slot H PB st4 (Node.recursiveSet version r key value).1 cn4.rightPtr cn4.rightHash :=
        Slot.ofPtr H (Rep.ext H hrep3 he4 hPBne)
      have he14 : ExtOn (· ≠ node) st1 st4 := ((he2.trans he3).on _).trans he4
      have hva1 : Valid st1 a := (Rep.valid H hrep).ext he1 trivial
      have hane : a ≠ node := Nat.ne_of_lt (lt_of_get ha)
      have hl4 : Slot H PB st4 l cn4.leftPtr cn4.leftHash :=
        Slot.mono H (Slot.ext H hl1 he14 (fun x hx e => hnotP0 (e ▸ hx))) (fun _ _ hx _ => Or.inl (Or.inl hx))
      have hPBfresh : ∀ x, PB x → Fresh st P x := fun x hx =>
        Fresh.of_ext (he1.trans he2) (fun y hy => Fresh.of_ext he1 (fun z hz => Or.inl hz.1) hy) hx
      have hcnk : cn.key = k := hk
      have hlt' : ¬ key < cn.key := by rw [hcnk]; exact hlt
      cases hupd : (Node.recursiveSet version r key value).2 with
      | true =>
        have hvfin : ∀ x ∈ [a] ++ ex3, Valid st4 x := by
          intro x hx
          have hk : ∀ y, y ≠ node ∨ ∃ c, st3.heap[y]? = some c ∧ c.persisted = false := fun y => by
            by_cases e : y = node
            · exact Or.inr ⟨cn, e ▸ hnode3, rfl⟩
            · exact Or.inl e
          rcases List.mem_append.mp hx with hx | hx
          · rw [List.mem_singleton.mp hx]
            exact ((hva1.ext (he2.trans he3) trivial).ext' he4 (hk a))
          · exact (hv3 x hx).ext' he4 (hk x)
        refine ⟨st4, node, orph3, ?_, ?_, hc4, ?_, ⟨[a] ++ ex3, by rw [hex3]; simp, hvfin⟩⟩
        · rw [hupd] at hrec
          simp only [recursiveSet, ha, hc0, asIs_setClonesDirty, Bool.true_or, if_true, if_false, e1, Option.map_some,
            Option.bind_eq_bind, Option.bind_some, hnode1, hlt', hg2, hrec, e4, Node.recursiveSet, if_neg hlt, hupd]
        · exact (((he1.on (· < st.heap.length)).trans (he14.mono (fun x hx => Nat.ne_of_lt hx)))).toExt
            (fun _ _ hx => lt_of_get hx)
        · simp only [Node.recursiveSet, if_neg hlt, hupd, if_true]
          have : Rep H (fun x => PB x ∨ x = node) st4
              (.inner k h s l (Node.recursiveSet version r key value).1 version) node :=
            Rep.mk_inner H (Or.inr rfl) hnode4 hk hh h0 hs rfl
              (Slot.mono H hl4 (fun _ _ hx _ => Or.inl hx)) (Slot.mono H hr4 (fun _ _ hx _ => Or.inl hx)) rfl rfl
          refine Rep.mono H this (fun x _ hx _ => ?_)
          rcases hx with hx | hx
          · exact hPBfresh x hx
          · exact Or.inr (Or.inl (by rw [hx]; exact Nat.le_refl _))
      | false =>
        obtain ⟨st5, hcalc, he5, hc5, hnode5⟩ := calcHS_spec H hc4 hnode4 rfl hnotPB hl4 hr4
        have hl5 := Slot.ext H hl4 he5 hPBne
        have hr5 := Slot.ext H hr4 he5 hPBne
        obtain ⟨st6, n, orph6, cn6, hbal, he6, hc6, hrep6, _, _, _, _, ex6, hex6, hv6⟩ :=
          balance_spec H version orph3 hc5 hnode5 rfl hnotPB hk rfl (Nat.succ_ne_zero _) rfl rfl rfl hl5 hr5
        have hvfin : ∀ x ∈ [a] ++ ex3 ++ ex6, Valid st6 x := by
          intro x hx
          have he36 : ExtOn (· ≠ node) st3 st6 := (he4.trans he5).trans he6
          have hk : ∀ y, y ≠ node ∨ ∃ c, st3.heap[y]? = some c ∧ c.persisted = false := fun y => by
            by_cases e : y = node
            · exact Or.inr ⟨cn, e ▸ hnode3, rfl⟩
            · exact Or.inl e
          rcases List.mem_append.mp hx with hx | hx
          · rcases List.mem_append.mp hx with hx | hx
            · rw [List.mem_singleton.mp hx]
              exact ((hva1.ext (he2.trans he3) trivial).ext' he36 (hk a))
            · exact (hv3 x hx).ext' he36 (hk x)
          · exact hv6 x hx
        refine ⟨st6, n, orph6, ?_, ?_, hc6, ?_, ⟨[a] ++ ex3 ++ ex6, by rw [hex6, hex3]; simp, hvfin⟩⟩
        · rw [hupd] at hrec
          simp only [recursiveSet, ha, hc0, asIs_setClonesDirty, Bool.true_or, if_true, if_false, e1, Option.map_some,
            Option.bind_eq_bind, Option.bind_some, hnode1, hlt', hg2, hrec, e4, Node.recursiveSet, if_neg hlt, hupd,
            hcalc, hbal, Bool.false_eq_true]
        · exact ((he1.on (· < st.heap.length)).trans (((he14.trans he5).trans he6).mono (fun x hx => Nat.ne_of_lt hx))).toExt
            (fun _ _ hx => lt_of_get hx)
        · simp only [Node.recursiveSet, if_neg hlt, hupd, Bool.false_eq_true, if_false, Node.calcHeightAndSize]
          refine Rep.mono H hrep6 (fun x _ hx _ => ?_)
          rcases hx with hx | hx
          · exact Fresh.of_ext ((he1.on (· ≠ node)).trans (he14.trans he5)) hPBfresh hx
          · exact Or.inr (Or.inl (by rw [hx]; exact Nat.le_refl _))

end Iavl.Heap
