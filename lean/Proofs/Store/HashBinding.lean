import Proofs.Store.NodeDB
/-! Equal root hashes force equal trees, or exhibit a collision of `H` (C04 `hash_binding`). -/
set_option linter.unusedSimpArgs false
set_option linter.unusedVariables false
namespace NodeDB
open Amino

/-- Two different inputs with the same hash. -/
def Collision (H : Bytes → Bytes) : Prop := ∃ x y, x ≠ y ∧ H x = H y

/-- Smallest key under a node (its left-most leaf). -/
def Tree.minKey : Tree → Bytes
  | .leaf k _ _ => k
  | .inner _ _ _ _ l _ => l.minKey

/-- The IAVL routing invariant: an inner node's key is the smallest key of its right subtree (part of
C03's `Inv`).  `writeHashBytes` does not cover the inner key, so this is what ties it to the hash. -/
def Tree.KeyOK : Tree → Prop
  | .leaf .. => True
  | .inner k _ _ _ l r => k = r.minKey ∧ l.KeyOK ∧ r.KeyOK

variable {H : Bytes → Bytes}

theorem whb_inj (hH : HashOK H) (a b : NodeRec) (ha : a.WF) (hb : b.WF) (h : writeHashBytes H a = writeHashBytes H b) :
    a.height = b.height ∧ a.size = b.size ∧ a.version = b.version ∧
    (a.height = 0 → a.key = b.key ∧ H a.value = H b.value) ∧
    (a.height ≠ 0 → a.leftHash = b.leftHash ∧ a.rightHash = b.rightHash) := by
  unfold writeHashBytes at h
  have e1 := congrArg decodeInt8 h
  rw [int8_roundtrip _ ha.height, int8_roundtrip _ hb.height] at e1
  simp only [Option.some.injEq, Prod.mk.injEq] at e1
  obtain ⟨hh, h⟩ := e1
  have e2 := congrArg decodeVarint h
  rw [varint_roundtrip _ ha.size, varint_roundtrip _ hb.size] at e2
  simp only [Option.some.injEq, Prod.mk.injEq] at e2
  obtain ⟨hs, h⟩ := e2
  have e3 := congrArg decodeVarint h
  rw [varint_roundtrip _ ha.version, varint_roundtrip _ hb.version] at e3
  simp only [Option.some.injEq, Prod.mk.injEq] at e3
  obtain ⟨hv, h⟩ := e3
  refine ⟨hh, hs, hv, ?_, ?_⟩
  · intro h0
    have h0' : b.height = 0 := hh ▸ h0
    simp only [h0, h0', if_true] at h
    have e4 := congrArg decodeByteSlice h
    rw [byteslice_roundtrip _ ha.key, byteslice_roundtrip _ hb.key] at e4
    simp only [Option.some.injEq, Prod.mk.injEq] at e4
    obtain ⟨hk, h⟩ := e4
    have e5 := congrArg decodeByteSlice h
    have r1 := byteslice_roundtrip (H a.value) (hH.short _) []
    have r2 := byteslice_roundtrip (H b.value) (hH.short _) []
    rw [List.append_nil] at r1 r2
    rw [r1, r2] at e5
    simp only [Option.some.injEq, Prod.mk.injEq] at e5
    exact ⟨hk, e5.1⟩
  · intro h0
    have h0' : b.height ≠ 0 := hh ▸ h0
    simp only [h0, h0', if_false] at h
    have e4 := congrArg decodeByteSlice h
    rw [byteslice_roundtrip _ ha.lh, byteslice_roundtrip _ hb.lh] at e4
    simp only [Option.some.injEq, Prod.mk.injEq] at e4
    obtain ⟨hl, h⟩ := e4
    have e5 := congrArg decodeByteSlice h
    have r1 := byteslice_roundtrip a.rightHash ha.rh []
    have r2 := byteslice_roundtrip b.rightHash hb.rh []
    rw [List.append_nil] at r1 r2
    rw [r1, r2] at e5
    simp only [Option.some.injEq, Prod.mk.injEq] at e5
    exact ⟨hl, e5.1⟩

/-- **Equal hashes, equal trees — or a collision.** -/
theorem hashTree_inj (hH : HashOK H) : ∀ (a b : Tree), a.WF → b.WF → a.KeyOK → b.KeyOK →
    hashTree H a = hashTree H b → a = b ∨ Collision H := by
  intro a
  induction a with
  | leaf k v ver =>
    intro b wa wb ka kb h
    cases b with
    | leaf k' v' ver' =>
      simp only [hashTree, NodeRec.hash] at h
      by_cases hne : writeHashBytes H ⟨0, 1, ver, k, v, [], []⟩ = writeHashBytes H ⟨0, 1, ver', k', v', [], []⟩
      · have := whb_inj hH _ _ (Tree.toRec_WF hH (.leaf k v ver) wa) (Tree.toRec_WF hH (.leaf k' v' ver') wb) hne
        obtain ⟨_, _, hv, hleaf, _⟩ := this
        obtain ⟨hk, hval⟩ := hleaf rfl
        have hv : ver = ver' := hv
        have hk : k = k' := hk
        have hval : H v = H v' := hval
        by_cases hvv : v = v'
        · left; subst hvv; subst hk; subst hv; rfl
        · right; exact ⟨v, v', hvv, hval⟩
      · right; exact ⟨_, _, hne, h⟩
    | inner k' h' s' ver' l' r' =>
      simp only [hashTree, NodeRec.hash] at h
      by_cases hne : writeHashBytes H ⟨0, 1, ver, k, v, [], []⟩ = writeHashBytes H ⟨h', s', ver', k', [], hashTree H l', hashTree H r'⟩
      · have := whb_inj hH _ _ (Tree.toRec_WF hH (.leaf k v ver) wa) (Tree.toRec_WF hH (.inner k' h' s' ver' l' r') wb) hne
        obtain ⟨hh, _⟩ := this
        have hh2 : (0 : Int) = h' := hh
        obtain ⟨_, _, _, _, h5, h6, _⟩ := wb
        omega
      · right; exact ⟨_, _, hne, h⟩
  | inner k hh s ver l r ihl ihr =>
    intro b wa wb ka kb h
    cases b with
    | leaf k' v' ver' =>
      simp only [hashTree, NodeRec.hash] at h
      by_cases hne : writeHashBytes H ⟨hh, s, ver, k, [], hashTree H l, hashTree H r⟩ = writeHashBytes H ⟨0, 1, ver', k', v', [], []⟩
      · have := whb_inj hH _ _ (Tree.toRec_WF hH (.inner k hh s ver l r) wa) (Tree.toRec_WF hH (.leaf k' v' ver') wb) hne
        obtain ⟨hh', _⟩ := this
        have hh2 : hh = (0 : Int) := hh'
        obtain ⟨_, _, _, _, h5, h6, _⟩ := wa
        omega
      · right; exact ⟨_, _, hne, h⟩
    | inner k' h' s' ver' l' r' =>
      simp only [hashTree, NodeRec.hash] at h
      by_cases hne : writeHashBytes H ⟨hh, s, ver, k, [], hashTree H l, hashTree H r⟩ = writeHashBytes H ⟨h', s', ver', k', [], hashTree H l', hashTree H r'⟩
      · have := whb_inj hH _ _ (Tree.toRec_WF hH (.inner k hh s ver l r) wa) (Tree.toRec_WF hH (.inner k' h' s' ver' l' r') wb) hne
        obtain ⟨e1, e2, e3, _, hin⟩ := this
        have hh0 : hh ≠ 0 := by obtain ⟨_, _, _, _, h5, h6, _⟩ := wa; omega
        obtain ⟨el, er⟩ := hin hh0
        have el : hashTree H l = hashTree H l' := el
        have er : hashTree H r = hashTree H r' := er
        obtain ⟨_, _, _, _, _, _, _, _, wl, wr⟩ := wa
        obtain ⟨_, _, _, _, _, _, _, _, wl', wr'⟩ := wb
        obtain ⟨kk, kl, kr⟩ := ka
        obtain ⟨kk', kl', kr'⟩ := kb
        rcases ihl l' wl wl' kl kl' el with rfl | c
        · rcases ihr r' wr wr' kr kr' er with rfl | c
          · left
            have e1' : hh = h' := e1
            have e2' : s = s' := e2
            have e3' : ver = ver' := e3
            subst e1' e2' e3'
            rw [kk, kk']
          · exact Or.inr c
        · exact Or.inr c
      · right; exact ⟨_, _, hne, h⟩

end NodeDB
