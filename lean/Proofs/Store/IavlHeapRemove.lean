import Proofs.Store.IavlHeapSet
/-!
# IAVL on the heap: `recursiveRemove` refines the pure model (C09 stage B)
-/
namespace Iavl.Heap
open Iavl
variable (H : HashIn → Hash)

/-- What `recursiveRemove` hands back for the pure result `node`: nothing for a removed leaf, else a
child slot `(newSelf, newHash)` holding the new subtree. -/
def RemSlot (P : Addr → Prop) (st : St) (node : Option Node) (res : RemoveRes) : Prop :=
  match node with
  | none => res.newHash = none ∧ res.newSelf = none
  | some t => Slot H P st t res.newSelf res.newHash

theorem Slot.not_both_none {P : Addr → Prop} {st : St} {t : Node} {ptr : Option Addr} {hash : Option Hash}
    (h : Slot H P st t ptr hash) : (hash.isNone && ptr.isNone) = false := by
  cases ptr with
  | some p => simp
  | none =>
    have : hash = some (treeHash H t) := h.1
    simp [this]

theorem recursiveRemove_spec (version : Nat) (key : Bytes) :
    ∀ (t : Node) (fuel : Nat) (P : Addr → Prop) (st : St) (a : Addr),
      depth t < fuel → CacheOK st → Rep H P st t a →
      ∃ st' res orph', recursiveRemove Cfg.asIs version fuel st a key [] = some (st', res, orph') ∧
        Ext st st' ∧ CacheOK st' ∧
        (orph' = [] ↔ (Node.recursiveRemove version t key).removed = false) ∧
        res.newKey = (Node.recursiveRemove version t key).newKey ∧
        res.value = (Node.recursiveRemove version t key).value ∧
        RemSlot H (Fresh st P) st' (Node.recursiveRemove version t key).node res ∧
        (∀ x ∈ orph', Valid st' x) := by
  intro t
  induction t with
  | leaf k v ver =>
    intro fuel P st a hfuel hc hrep
    obtain ⟨fuel, rfl⟩ : ∃ f, fuel = f + 1 := ⟨fuel - 1, by omega⟩
    have hrep0 := hrep
    obtain ⟨hPa, c, ha, hk, hv, hh, _, _, _, _, hhash, _⟩ := hrep0
    by_cases hkey : key = k
    · refine ⟨st, ⟨none, none, none, c.value⟩, [a], ?_, ExtOn.refl _ _, hc, ?_, ?_, ?_, ?_,
        fun x hx => by rw [List.mem_singleton.mp hx]; exact Rep.valid H hrep⟩
      · simp [recursiveRemove, ha, hh, hk, hkey]
      · simp [Node.recursiveRemove, hkey]
      · simp [Node.recursiveRemove, hkey]
      · simp [Node.recursiveRemove, hkey, hv]
      · simp [Node.recursiveRemove, hkey, RemSlot]
    · refine ⟨st, ⟨c.hash, some a, none, none⟩, [], ?_, ExtOn.refl _ _, hc, ?_, ?_, ?_, ?_, fun _ hx => by cases hx⟩
      · have : ¬ key = c.key := by rw [hk]; exact hkey
        simp [recursiveRemove, ha, hh, this]
      · simp [Node.recursiveRemove, hkey]
      · simp [Node.recursiveRemove, hkey]
      · simp [Node.recursiveRemove, hkey]
      · simp only [Node.recursiveRemove, if_neg hkey, RemSlot]
        exact ⟨Rep.mono H hrep (fun _ _ hx _ => Or.inl hx), hhash⟩
  | inner k h s l r ver ihl ihr =>
    intro fuel P st a hfuel hc hrep
    obtain ⟨fuel, rfl⟩ : ∃ f, fuel = f + 1 := ⟨fuel - 1, by omega⟩
    have hdl : depth l < fuel := by simp only [depth] at hfuel; omega
    have hdr : depth r < fuel := by simp only [depth] at hfuel; omega
    have hrep0 := hrep
    obtain ⟨hPa, c, ha, hk, hh, h0, hs, hver, hl, hr, hhash, _⟩ := hrep0
    have hc0 : c.height ≠ 0 := by rw [hh]; exact h0
    by_cases hlt : key < k
    · have hlt' : key < c.key := by rw [hk]; exact hlt
      obtain ⟨st1, lp, hg1, he1, hc1, hrl1⟩ := getLeft_spec H hc ha hl
      obtain ⟨st2, res, orph2, hrec, he2, hc2, horph, hnk, hval, hslot, hv2⟩ := ihl fuel _ st1 lp hdl hc1 hrl1
      have he02 : Ext st st2 := he1.trans he2
      have ha2 : st2.heap[a]? = some c := he02.cells a c trivial ha
      -- common footprint for everything represented in st2
      let PB : Addr → Prop := fun x => Fresh st P x ∧ x < st2.heap.length
      have hFF : ∀ x, Fresh st1 (Fresh st P) x → Fresh st P x := fun x hx => Fresh.of_ext he1 (fun _ hy => hy) hx
      cases hrm : (Node.recursiveRemove version l key).removed with
      | false =>
        have horph2 : orph2 = [] := horph.mpr hrm
        refine ⟨st2, ⟨c.hash, some a, none, res.value⟩, orph2, ?_, he02, hc2, ?_, ?_, ?_, ?_, hv2⟩
        · subst horph2
          simp only [recursiveRemove, ha, hc0, hlt', hg1, hrec, Option.bind_eq_bind, Option.bind_some, if_false, if_true,
            List.isEmpty_nil]
        · simp [Node.recursiveRemove, hlt, hrm, horph2]
        · simp [Node.recursiveRemove, hlt, hrm]
        · simp [Node.recursiveRemove, hlt, hrm, hval]
        · simp only [Node.recursiveRemove, if_pos hlt, hrm, Bool.not_false, if_true, RemSlot]
          exact ⟨Rep.mono H (Rep.ext H hrep he02 (fun _ _ => trivial)) (fun _ _ hx _ => Or.inl hx), hhash⟩
      | true =>
        have horph2 : orph2 ≠ [] := fun e => by
          have := horph.mp e; rw [hrm] at this; cases this
        have hemp : orph2.isEmpty = false := by
          cases orph2 with
          | nil => exact absurd rfl horph2
          | cons _ _ => rfl
        cases hnode : (Node.recursiveRemove version l key).node with
        | none =>
          rw [hnode] at hslot
          obtain ⟨e1, e2⟩ := hslot
          refine ⟨st2, ⟨c.rightHash, c.rightPtr, some c.key, res.value⟩, orph2 ++ [a], ?_, he02, hc2, ?_, ?_, ?_, ?_,
            fun x hx => by
            rcases List.mem_append.mp hx with hx | hx
            · exact hv2 x hx
            · rw [List.mem_singleton.mp hx]; exact (Rep.valid H hrep).ext he02 trivial⟩
          · simp only [recursiveRemove, ha, hc0, hlt', hg1, hrec, Option.bind_eq_bind, Option.bind_some, if_false, if_true,
              hemp, e1, e2, Option.isNone_none, Bool.and_self, Bool.false_eq_true]
          · simp [Node.recursiveRemove, hlt, hrm, hnode]
          · simp [Node.recursiveRemove, hlt, hrm, hnode, hk]
          · simp [Node.recursiveRemove, hlt, hrm, hnode, hval]
          · simp only [Node.recursiveRemove, if_pos hlt, hrm, Bool.not_true, Bool.false_eq_true, if_false, hnode, RemSlot]
            exact Slot.mono H (Slot.ext H hr he02 (fun _ _ => trivial)) (fun _ _ hx _ => Or.inl hx)
        | some l' =>
          rw [hnode] at hslot
          simp only [RemSlot] at hslot
          have hnb : (res.newHash.isNone && res.newSelf.isNone) = false := Slot.not_both_none H hslot
          -- newNode := clone(a)
          let cn := cloneCell c version
          let nn := st2.heap.length
          let st3 := (st2.alloc cn).1
          have he3 : Ext st2 st3 := alloc_ext st2 cn
          have hnn3 : st3.heap[nn]? = some cn := alloc_new st2 cn
          have hc3 : CacheOK st3 := CacheOK.ext hc2 he3 (fun _ _ _ _ => trivial) (fun _ _ h => h)
          have e3 : clone st2 a version = some (st3, nn) := clone_spec' ha2 hc0 version
          let cn4 : Cell := { cn with leftHash := res.newHash, leftPtr := res.newSelf }
          let st4 := st3.write nn cn4
          have he4 : ExtOn (· ≠ nn) st3 st4 := write_ext hnn3 cn4 rfl
          have hnn4 : st4.heap[nn]? = some cn4 := write_same hnn3 cn4
          have hc4 : CacheOK st4 := by
            refine CacheOK.ext hc3 he4 (fun x cx hx hp e => ?_) (fun _ _ h => h)
            subst e; rw [hnn3] at hx; cases hx; cases hp
          have e4 : st3.modify nn (fun c => { c with leftHash := res.newHash, leftPtr := res.newSelf }) = some st4 :=
            modify_eq hnn3 _
          have hnotPB : ¬ PB nn := fun hx => absurd hx.2 (Nat.lt_irrefl _)
          have hPBne : ∀ x, PB x → x ≠ nn := fun x hx e => hnotPB (e ▸ hx)
          have he24 : ExtOn (· ≠ nn) st2 st4 := (he3.on _).trans he4
          have hl4 : Slot H PB st4 l' cn4.leftPtr cn4.leftHash :=
            Slot.ext H (Slot.mono H hslot (fun x cx hx hcx => ⟨hFF x hx, lt_of_get hcx⟩)) he24 hPBne
          have hr4 : Slot H PB st4 r cn4.rightPtr cn4.rightHash :=
            Slot.ext H (Slot.mono H (Slot.ext H hr he02 (fun _ _ => trivial))
              (fun x cx hx hcx => ⟨Or.inl hx, lt_of_get hcx⟩)) he24 hPBne
          obtain ⟨st5, hcalc, he5, hc5, hnn5⟩ := calcHS_spec H hc4 hnn4 rfl hnotPB hl4 hr4
          have hl5 := Slot.ext H hl4 he5 hPBne
          have hr5 := Slot.ext H hr4 he5 hPBne
          obtain ⟨st6, n, orph6, cn6, hbal, he6, hc6, hrep6, hn6, hnp6, hh6, _, extra, hext, hvx⟩ :=
            balance_spec H version (orph2 ++ [a]) hc5 hnn5 rfl hnotPB hk rfl (Nat.succ_ne_zero _) rfl rfl rfl hl5 hr5
          have hvfin : ∀ x ∈ orph6, Valid st6 x := by
            intro x hx
            have he26 : ExtOn (· ≠ nn) st2 st6 := (he24.trans he5).trans he6
            have hne : ∀ y, Valid st2 y → y ≠ nn := fun y hy => by
              obtain ⟨cy, hcy, _⟩ := hy
              exact Nat.ne_of_lt (lt_of_get hcy)
            rw [hext] at hx
            rcases List.mem_append.mp hx with hx | hx
            · rcases List.mem_append.mp hx with hx | hx
              · exact (hv2 x hx).ext he26 (hne x (hv2 x hx))
              · rw [List.mem_singleton.mp hx]
                have hva : Valid st2 a := (Rep.valid H hrep).ext he02 trivial
                exact hva.ext he26 (hne a hva)
            · exact hvx x hx
          refine ⟨st6, ⟨cn6.hash, some n, res.newKey, res.value⟩, orph6, ?_, ?_, hc6, ?_, ?_, ?_, ?_, hvfin⟩
          · simp only [recursiveRemove, ha, hc0, hlt', hg1, hrec, Option.bind_eq_bind, Option.bind_some, if_false, if_true,
              hemp, hnb, Bool.false_eq_true, e3, e4, hcalc, hbal, hn6]
          · exact ((he02.on (· < st.heap.length)).trans (((he24.trans he5).trans he6).mono
              (fun x hx => Nat.ne_of_lt (Nat.lt_of_lt_of_le hx he02.len)))).toExt (fun _ _ hx => lt_of_get hx)
          · subst hext
            simp [Node.recursiveRemove, hlt, hrm, hnode]
          · simp [Node.recursiveRemove, hlt, hrm, hnode, hnk]
          · simp [Node.recursiveRemove, hlt, hrm, hnode, hval]
          · simp only [Node.recursiveRemove, if_pos hlt, hrm, Bool.not_true, Bool.false_eq_true, if_false, hnode, RemSlot,
              Node.calcHeightAndSize]
            refine ⟨Rep.mono H hrep6 (fun x _ hx _ => ?_), Or.inl hh6⟩
            rcases hx with hx | hx
            · exact Fresh.of_ext (((he02.on (· ≠ nn)).trans he24).trans he5) (fun y hy => hy.1) hx
            · exact Or.inr (Or.inl (by rw [hx]; exact he02.len))
    · have hlt' : ¬ key < c.key := by rw [hk]; exact hlt
      obtain ⟨st1, rp, hg1, he1, hc1, hrr1⟩ := getRight_spec H hc ha hr
      obtain ⟨st2, res, orph2, hrec, he2, hc2, horph, hnk, hval, hslot, hv2⟩ := ihr fuel _ st1 rp hdr hc1 hrr1
      have he02 : Ext st st2 := he1.trans he2
      have ha2 : st2.heap[a]? = some c := he02.cells a c trivial ha
      let PB : Addr → Prop := fun x => Fresh st P x ∧ x < st2.heap.length
      have hFF : ∀ x, Fresh st1 (Fresh st P) x → Fresh st P x := fun x hx => Fresh.of_ext he1 (fun _ hy => hy) hx
      cases hrm : (Node.recursiveRemove version r key).removed with
      | false =>
        have horph2 : orph2 = [] := horph.mpr hrm
        refine ⟨st2, ⟨c.hash, some a, none, res.value⟩, orph2, ?_, he02, hc2, ?_, ?_, ?_, ?_, hv2⟩
        · subst horph2
          simp only [recursiveRemove, ha, hc0, hlt', hg1, hrec, Option.bind_eq_bind, Option.bind_some, if_false, if_true,
            List.isEmpty_nil]
        · simp [Node.recursiveRemove, hlt, hrm, horph2]
        · simp [Node.recursiveRemove, hlt, hrm]
        · simp [Node.recursiveRemove, hlt, hrm, hval]
        · simp only [Node.recursiveRemove, if_neg hlt, hrm, Bool.not_false, if_true, RemSlot]
          exact ⟨Rep.mono H (Rep.ext H hrep he02 (fun _ _ => trivial)) (fun _ _ hx _ => Or.inl hx), hhash⟩
      | true =>
        have horph2 : orph2 ≠ [] := fun e => by
          have := horph.mp e; rw [hrm] at this; cases this
        have hemp : orph2.isEmpty = false := by
          cases orph2 with
          | nil => exact absurd rfl horph2
          | cons _ _ => rfl
        cases hnode : (Node.recursiveRemove version r key).node with
        | none =>
          rw [hnode] at hslot
          obtain ⟨e1, e2⟩ := hslot
          refine ⟨st2, ⟨c.leftHash, c.leftPtr, none, res.value⟩, orph2 ++ [a], ?_, he02, hc2, ?_, ?_, ?_, ?_,
            fun x hx => by
            rcases List.mem_append.mp hx with hx | hx
            · exact hv2 x hx
            · rw [List.mem_singleton.mp hx]; exact (Rep.valid H hrep).ext he02 trivial⟩
          · simp only [recursiveRemove, ha, hc0, hlt', hg1, hrec, Option.bind_eq_bind, Option.bind_some, if_false, if_true,
              hemp, e1, e2, Option.isNone_none, Bool.and_self, Bool.false_eq_true]
          · simp [Node.recursiveRemove, hlt, hrm, hnode]
          · simp [Node.recursiveRemove, hlt, hrm, hnode]
          · simp [Node.recursiveRemove, hlt, hrm, hnode, hval]
          · simp only [Node.recursiveRemove, if_neg hlt, hrm, Bool.not_true, Bool.false_eq_true, if_false, hnode, RemSlot]
            exact Slot.mono H (Slot.ext H hl he02 (fun _ _ => trivial)) (fun _ _ hx _ => Or.inl hx)
        | some r' =>
          rw [hnode] at hslot
          simp only [RemSlot] at hslot
          have hnb : (res.newHash.isNone && res.newSelf.isNone) = false := Slot.not_both_none H hslot
          let cn := cloneCell c version
          let nn := st2.heap.length
          let st3 := (st2.alloc cn).1
          have he3 : Ext st2 st3 := alloc_ext st2 cn
          have hnn3 : st3.heap[nn]? = some cn := alloc_new st2 cn
          have hc3 : CacheOK st3 := CacheOK.ext hc2 he3 (fun _ _ _ _ => trivial) (fun _ _ h => h)
          have e3 : clone st2 a version = some (st3, nn) := clone_spec' ha2 hc0 version
          let cn4 : Cell := { cn with rightHash := res.newHash, rightPtr := res.newSelf }
          let st4 := st3.write nn cn4
          have he4 : ExtOn (· ≠ nn) st3 st4 := write_ext hnn3 cn4 rfl
          have hnn4 : st4.heap[nn]? = some cn4 := write_same hnn3 cn4
          have e4 : st3.modify nn (fun c => { c with rightHash := res.newHash, rightPtr := res.newSelf }) = some st4 :=
            modify_eq hnn3 _
          -- `if newKey != nil { newNode.key = newKey }`
          let k' := (Node.recursiveRemove version r key).newKey.getD k
          have hkey5 : ∃ st5 cn5, setKeyOpt st4 nn res.newKey = some st5 ∧ st5.heap[nn]? = some cn5 ∧
              cn5 = { cn4 with key := k' } ∧ ExtOn (· ≠ nn) st4 st5 ∧ st5.cmap = st4.cmap := by
            cases hq : res.newKey with
            | none =>
              refine ⟨st4, cn4, rfl, hnn4, ?_, ExtOn.refl _ _, rfl⟩
              have hk'k : k' = k := by simp only [k', ← hnk, hq, Option.getD_none]
              have hkk : cn4.key = k := hk
              rw [hk'k, ← hkk]
            | some nk =>
              refine ⟨st4.write nn { cn4 with key := nk }, _, modify_eq hnn4 _, write_same hnn4 _, ?_,
                write_ext hnn4 _ rfl, rfl⟩
              have : k' = nk := by simp only [k', ← hnk, hq, Option.getD_some]
              rw [this]
          obtain ⟨st5, cn5, e5, hnn5, hcn5, he5, hcm5⟩ := hkey5
          subst hcn5
          have hc5 : CacheOK st5 := by
            have he35 : ExtOn (· ≠ nn) st3 st5 := he4.trans he5
            refine CacheOK.ext hc3 he35 (fun x cx hx hp e => ?_) (fun _ _ h => by rw [hcm5] at h; exact h)
            subst e; rw [hnn3] at hx; cases hx; cases hp
          have hnotPB : ¬ PB nn := fun hx => absurd hx.2 (Nat.lt_irrefl _)
          have hPBne : ∀ x, PB x → x ≠ nn := fun x hx e => hnotPB (e ▸ hx)
          have he25 : ExtOn (· ≠ nn) st2 st5 := ((he3.on _).trans he4).trans he5
          have hr5 : Slot H PB st5 r' cn4.rightPtr cn4.rightHash := by
            exact Slot.ext H (Slot.mono H hslot (fun x cx hx hcx => ⟨hFF x hx, lt_of_get hcx⟩)) he25 hPBne
          have hl5 : Slot H PB st5 l cn4.leftPtr cn4.leftHash := by
            exact Slot.ext H (Slot.mono H (Slot.ext H hl he02 (fun _ _ => trivial))
              (fun x cx hx hcx => ⟨Or.inl hx, lt_of_get hcx⟩)) he25 hPBne
          obtain ⟨st6, hcalc, he6, hc6, hnn6⟩ := calcHS_spec H hc5 hnn5 rfl hnotPB hl5 hr5
          have hl6 := Slot.ext H hl5 he6 hPBne
          have hr6 := Slot.ext H hr5 he6 hPBne
          obtain ⟨st7, n, orph7, cn7, hbal, he7, hc7, hrep7, hn7, hnp7, hh7, _, extra, hext, hvx⟩ :=
            balance_spec H (k := k') (ver := version) version (orph2 ++ [a]) hc6 hnn6 rfl hnotPB rfl rfl
              (Nat.succ_ne_zero _) rfl rfl rfl hl6 hr6
          have hvfin : ∀ x ∈ orph7, Valid st7 x := by
            intro x hx
            have he27 : ExtOn (· ≠ nn) st2 st7 := (he25.trans he6).trans he7
            have hne : ∀ y, Valid st2 y → y ≠ nn := fun y hy => by
              obtain ⟨cy, hcy, _⟩ := hy
              exact Nat.ne_of_lt (lt_of_get hcy)
            rw [hext] at hx
            rcases List.mem_append.mp hx with hx | hx
            · rcases List.mem_append.mp hx with hx | hx
              · exact (hv2 x hx).ext he27 (hne x (hv2 x hx))
              · rw [List.mem_singleton.mp hx]
                have hva : Valid st2 a := (Rep.valid H hrep).ext he02 trivial
                exact hva.ext he27 (hne a hva)
            · exact hvx x hx
          refine ⟨st7, ⟨cn7.hash, some n, none, res.value⟩, orph7, ?_, ?_, hc7, ?_, ?_, ?_, ?_, hvfin⟩
          · simp only [recursiveRemove, ha, hc0, hlt', hg1, hrec, Option.bind_eq_bind, Option.bind_some, if_false, if_true,
              hemp, hnb, Bool.false_eq_true, e3, e4, e5, hcalc, hbal, hn7]
          · exact ((he02.on (· < st.heap.length)).trans (((he25.trans he6).trans he7).mono
              (fun x hx => Nat.ne_of_lt (Nat.lt_of_lt_of_le hx he02.len)))).toExt (fun _ _ hx => lt_of_get hx)
          · subst hext
            simp [Node.recursiveRemove, hlt, hrm, hnode]
          · simp [Node.recursiveRemove, hlt, hrm, hnode]
          · simp [Node.recursiveRemove, hlt, hrm, hnode, hval]
          · simp only [Node.recursiveRemove, if_neg hlt, hrm, Bool.not_true, Bool.false_eq_true, if_false, hnode, RemSlot,
              Node.calcHeightAndSize]
            refine ⟨Rep.mono H hrep7 (fun x _ hx _ => ?_), Or.inl hh7⟩
            rcases hx with hx | hx
            · exact Fresh.of_ext (((he02.on (· ≠ nn)).trans he25).trans he6) (fun y hy => hy.1) hx
            · exact Or.inr (Or.inl (by rw [hx]; exact he02.len))

end Iavl.Heap
