import Proofs.Store.IavlHeapOps
/-!
# IAVL on the heap: reads through a root handle return the pure tree's answers (C09 stage B)

Reads follow pointers or load children through `GetNode` (cache first).  They allocate and reorder
the cache but write no existing object; under the cache invariant their answers are the pure
model's reads of the represented tree.
-/
namespace Iavl.Heap
open Iavl
variable (H : HashIn → Hash)

theorem get_spec (key : Bytes) :
    ∀ (t : Node) (fuel : Nat) (P : Addr → Prop) (st : St) (a : Addr), depth t < fuel → CacheOK st → Rep H P st t a →
      ∃ st', get fuel st a key = some (st', (Node.get t key).1, (Node.get t key).2) ∧ Ext st st' ∧ CacheOK st' := by
  intro t
  induction t with
  | leaf k v ver =>
    intro fuel P st a hfuel hc hrep
    obtain ⟨fuel, rfl⟩ : ∃ f, fuel = f + 1 := ⟨fuel - 1, by omega⟩
    obtain ⟨_, c, ha, hk, hv, hh, _⟩ := hrep
    refine ⟨st, ?_, ExtOn.refl _ _, hc⟩
    simp only [get, ha, hh, hk, hv, Option.bind_eq_bind, Option.bind_some, if_true, Node.get]
    by_cases h1 : k < key
    · simp [h1]
    · by_cases h2 : key < k
      · simp [h1, h2]
      · simp [h1, h2]
  | inner k h s l r ver ihl ihr =>
    intro fuel P st a hfuel hc hrep
    obtain ⟨fuel, rfl⟩ : ∃ f, fuel = f + 1 := ⟨fuel - 1, by omega⟩
    have hdl : depth l < fuel := by simp only [depth] at hfuel; omega
    have hdr : depth r < fuel := by simp only [depth] at hfuel; omega
    obtain ⟨_, c, ha, hk, hh, h0, hs, _, hl, hr, _, _⟩ := hrep
    have hc0 : c.height ≠ 0 := by rw [hh]; exact h0
    by_cases hlt : key < k
    · obtain ⟨st1, lp, hg, he1, hc1, hrl⟩ := getLeft_spec H hc ha hl
      obtain ⟨st2, e2, he2, hc2⟩ := ihl fuel _ st1 lp hdl hc1 hrl
      refine ⟨st2, ?_, he1.trans he2, hc2⟩
      have hlt' : key < c.key := by rw [hk]; exact hlt
      simp only [get, ha, hc0, hlt', hg, e2, Option.bind_eq_bind, Option.bind_some, if_false, if_true, Node.get, if_pos hlt]
    · obtain ⟨st1, rp, hg, he1, hc1, hrr⟩ := getRight_spec H hc ha hr
      obtain ⟨_, cr, hcr, _, _, hcrs, _⟩ := Rep.cell H hrr
      obtain ⟨st2, e2, he2, hc2⟩ := ihr fuel _ st1 rp hdr hc1 hrr
      refine ⟨st2, ?_, he1.trans he2, hc2⟩
      have hlt' : ¬ key < c.key := by rw [hk]; exact hlt
      simp only [get, ha, hc0, hlt', hg, hcr, e2, Option.bind_eq_bind, Option.bind_some, if_false, Node.get, if_neg hlt,
        hs, hcrs]

theorem has_spec (key : Bytes) :
    ∀ (t : Node) (fuel : Nat) (P : Addr → Prop) (st : St) (a : Addr), depth t < fuel → CacheOK st → Rep H P st t a →
      ∃ st', has fuel st a key = some (st', Node.has t key) ∧ Ext st st' ∧ CacheOK st' := by
  intro t
  induction t with
  | leaf k v ver =>
    intro fuel P st a hfuel hc hrep
    obtain ⟨fuel, rfl⟩ : ∃ f, fuel = f + 1 := ⟨fuel - 1, by omega⟩
    obtain ⟨_, c, ha, hk, hv, hh, _⟩ := hrep
    refine ⟨st, ?_, ExtOn.refl _ _, hc⟩
    by_cases h1 : k = key
    · simp [has, ha, hk, h1, Node.has]
    · simp [has, ha, hk, h1, hh, Node.has]
  | inner k h s l r ver ihl ihr =>
    intro fuel P st a hfuel hc hrep
    obtain ⟨fuel, rfl⟩ : ∃ f, fuel = f + 1 := ⟨fuel - 1, by omega⟩
    have hdl : depth l < fuel := by simp only [depth] at hfuel; omega
    have hdr : depth r < fuel := by simp only [depth] at hfuel; omega
    obtain ⟨_, c, ha, hk, hh, h0, hs, _, hl, hr, _, _⟩ := hrep
    have hc0 : c.height ≠ 0 := by rw [hh]; exact h0
    by_cases h1 : k = key
    · refine ⟨st, ?_, ExtOn.refl _ _, hc⟩
      simp [has, ha, hk, h1, Node.has]
    · by_cases hlt : key < k
      · obtain ⟨st1, lp, hg, he1, hc1, hrl⟩ := getLeft_spec H hc ha hl
        obtain ⟨st2, e2, he2, hc2⟩ := ihl fuel _ st1 lp hdl hc1 hrl
        refine ⟨st2, ?_, he1.trans he2, hc2⟩
        simp [has, ha, hk, h1, hc0, hlt, hg, e2, Node.has]
      · obtain ⟨st1, rp, hg, he1, hc1, hrr⟩ := getRight_spec H hc ha hr
        obtain ⟨st2, e2, he2, hc2⟩ := ihr fuel _ st1 rp hdr hc1 hrr
        refine ⟨st2, ?_, he1.trans he2, hc2⟩
        simp [has, ha, hk, h1, hc0, hlt, hg, e2, Node.has]

theorem getByIndex_spec :
    ∀ (t : Node) (fuel : Nat) (P : Addr → Prop) (st : St) (a : Addr) (i : Int), depth t < fuel → CacheOK st →
      Rep H P st t a →
      ∃ st', getByIndex fuel st a i = some (st', Node.getByIndex t i) ∧ Ext st st' ∧ CacheOK st' := by
  intro t
  induction t with
  | leaf k v ver =>
    intro fuel P st a i hfuel hc hrep
    obtain ⟨fuel, rfl⟩ : ∃ f, fuel = f + 1 := ⟨fuel - 1, by omega⟩
    obtain ⟨_, c, ha, hk, hv, hh, _⟩ := hrep
    refine ⟨st, ?_, ExtOn.refl _ _, hc⟩
    by_cases h1 : i = 0
    · simp [getByIndex, ha, hk, hv, hh, h1, Node.getByIndex]
    · simp [getByIndex, ha, hk, hv, hh, h1, Node.getByIndex]
  | inner k h s l r ver ihl ihr =>
    intro fuel P st a i hfuel hc hrep
    obtain ⟨fuel, rfl⟩ : ∃ f, fuel = f + 1 := ⟨fuel - 1, by omega⟩
    have hdl : depth l < fuel := by simp only [depth] at hfuel; omega
    have hdr : depth r < fuel := by simp only [depth] at hfuel; omega
    obtain ⟨_, c, ha, hk, hh, h0, hs, _, hl, hr, _, _⟩ := hrep
    have hc0 : c.height ≠ 0 := by rw [hh]; exact h0
    obtain ⟨st1, lp, hg, he1, hc1, hrl⟩ := getLeft_spec H hc ha hl
    obtain ⟨_, cl, hcl, _, _, hcls, _⟩ := Rep.cell H hrl
    by_cases hlt : i < (l.size : Int)
    · obtain ⟨st2, e2, he2, hc2⟩ := ihl fuel _ st1 lp i hdl hc1 hrl
      refine ⟨st2, ?_, he1.trans he2, hc2⟩
      simp [getByIndex, ha, hc0, hg, hcl, hcls, hlt, e2, Node.getByIndex]
    · have ha1 : st1.heap[a]? = some c := he1.cells a c trivial ha
      have hr1 : Slot H P st1 r c.rightPtr c.rightHash := Slot.ext H hr he1 (fun _ _ => trivial)
      obtain ⟨st2, rp, hg2, he2, hc2, hrr⟩ := getRight_spec H hc1 ha1 hr1
      obtain ⟨st3, e3, he3, hc3⟩ := ihr fuel _ st2 rp (i - (l.size : Int)) hdr hc2 hrr
      refine ⟨st3, ?_, (he1.trans he2).trans he3, hc3⟩
      simp [getByIndex, ha, hc0, hg, hcl, hcls, hlt, hg2, e3, Node.getByIndex]

theorem traverse_spec (start end_ : Option Bytes) (asc incl : Bool) :
    ∀ (t : Node) (fuel : Nat) (P : Addr → Prop) (st : St) (a : Addr), depth t < fuel → CacheOK st → Rep H P st t a →
      ∃ st', traverseInRange start end_ asc incl fuel st a = some (st', Node.traverseInRange start end_ asc incl t) ∧
        Ext st st' ∧ CacheOK st' := by
  intro t
  induction t with
  | leaf k v ver =>
    intro fuel P st a hfuel hc hrep
    obtain ⟨fuel, rfl⟩ : ∃ f, fuel = f + 1 := ⟨fuel - 1, by omega⟩
    obtain ⟨_, c, ha, hk, hv, hh, _⟩ := hrep
    refine ⟨st, ?_, ExtOn.refl _ _, hc⟩
    by_cases h1 : (Node.startOrAfter start k && Node.beforeEnd end_ incl k) = true
    · simp only [traverseInRange, ha, hk, hv, hh, h1, Node.traverseInRange, Option.bind_eq_bind, Option.bind_some,
        if_true, Option.getD_some]
    · simp only [traverseInRange, ha, hk, hv, hh, h1, Node.traverseInRange, Option.bind_eq_bind, Option.bind_some,
        if_true, if_false, Bool.false_eq_true]
  | inner k h s l r ver ihl ihr =>
    intro fuel P st a hfuel hc hrep
    obtain ⟨fuel, rfl⟩ : ∃ f, fuel = f + 1 := ⟨fuel - 1, by omega⟩
    have hdl : depth l < fuel := by simp only [depth] at hfuel; omega
    have hdr : depth r < fuel := by simp only [depth] at hfuel; omega
    obtain ⟨_, c, ha, hk, hh, h0, hs, _, hl, hr, _, _⟩ := hrep
    have hc0 : c.height ≠ 0 := by rw [hh]; exact h0
    -- visiting one side from any later state
    have goL : ∀ st0, Ext st st0 → CacheOK st0 → ∃ st1,
        (if Node.afterStart start c.key then
            (getLeft st0 a).bind (fun p => traverseInRange start end_ asc incl fuel p.1 p.2)
          else some (st0, [])) =
          some (st1, if Node.afterStart start k then Node.traverseInRange start end_ asc incl l else []) ∧
        Ext st0 st1 ∧ CacheOK st1 := by
      intro st0 he0 hc0'
      rw [hk]
      by_cases hgo : Node.afterStart start k = true
      · have ha0 : st0.heap[a]? = some c := he0.cells a c trivial ha
        have hl0 : Slot H P st0 l c.leftPtr c.leftHash := Slot.ext H hl he0 (fun _ _ => trivial)
        obtain ⟨st1, lp, hg, he1, hc1, hrl⟩ := getLeft_spec H hc0' ha0 hl0
        obtain ⟨st2, e2, he2, hc2⟩ := ihl fuel _ st1 lp hdl hc1 hrl
        exact ⟨st2, by simp [hgo, hg, e2], he1.trans he2, hc2⟩
      · exact ⟨st0, by simp [hgo], ExtOn.refl _ _, hc0'⟩
    have goR : ∀ st0, Ext st st0 → CacheOK st0 → ∃ st1,
        (if Node.beforeEnd end_ incl c.key then
            (getRight st0 a).bind (fun p => traverseInRange start end_ asc incl fuel p.1 p.2)
          else some (st0, [])) =
          some (st1, if Node.beforeEnd end_ incl k then Node.traverseInRange start end_ asc incl r else []) ∧
        Ext st0 st1 ∧ CacheOK st1 := by
      intro st0 he0 hc0'
      rw [hk]
      by_cases hgo : Node.beforeEnd end_ incl k = true
      · have ha0 : st0.heap[a]? = some c := he0.cells a c trivial ha
        have hr0 : Slot H P st0 r c.rightPtr c.rightHash := Slot.ext H hr he0 (fun _ _ => trivial)
        obtain ⟨st1, rp, hg, he1, hc1, hrr⟩ := getRight_spec H hc0' ha0 hr0
        obtain ⟨st2, e2, he2, hc2⟩ := ihr fuel _ st1 rp hdr hc1 hrr
        exact ⟨st2, by simp [hgo, hg, e2], he1.trans he2, hc2⟩
      · exact ⟨st0, by simp [hgo], ExtOn.refl _ _, hc0'⟩
    cases asc with
    | true =>
      obtain ⟨st1, e1, he1, hc1⟩ := goL st (ExtOn.refl _ _) hc
      obtain ⟨st2, e2, he2, hc2⟩ := goR st1 he1 hc1
      refine ⟨st2, ?_, he1.trans he2, hc2⟩
      simp only [traverseInRange, ha, hc0, Option.bind_eq_bind, Option.bind_some, if_false, if_true, Node.traverseInRange]
      rw [e1]; simp only [Option.bind_some]; rw [e2]; simp only [Option.bind_some]
    | false =>
      obtain ⟨st1, e1, he1, hc1⟩ := goR st (ExtOn.refl _ _) hc
      obtain ⟨st2, e2, he2, hc2⟩ := goL st1 he1 hc1
      refine ⟨st2, ?_, he1.trans he2, hc2⟩
      simp only [traverseInRange, ha, hc0, Option.bind_eq_bind, Option.bind_some, if_false, Bool.false_eq_true,
        Node.traverseInRange]
      rw [e1]; simp only [Option.bind_some]; rw [e2]; simp only [Option.bind_some]

/-- **Reads through a handle.** If the root handle represents `root`, every read
(`Get/Has/GetByIndex/IterateRange[Inclusive]`) returns the pure model's answer on `root`; it writes
no existing object and keeps the cache invariant. -/
theorem readRootH_spec (r : Read) (fuel : Nat) (P : Addr → Prop) (st : St) (root : Option Node) (ra : Option Addr)
    (hfuel : ∀ t, root = some t → depth t < fuel) (hc : CacheOK st) (hrep : RepRoot H P st root ra) :
    ∃ st', readRootH fuel st ra r = some (st', readRoot root r) ∧ Ext st st' ∧ CacheOK st' := by
  cases root with
  | none =>
    cases ra with
    | some a => cases hrep
    | none => cases r <;> exact ⟨st, rfl, ExtOn.refl _ _, hc⟩
  | some t =>
    cases ra with
    | none => cases hrep
    | some a =>
      have hf := hfuel t rfl
      have hrep' : Rep H P st t a := hrep
      cases r with
      | get k =>
        obtain ⟨st', e, he, hc'⟩ := get_spec H k t fuel P st a hf hc hrep'
        exact ⟨st', by simp [readRootH, readRoot, e], he, hc'⟩
      | has k =>
        obtain ⟨st', e, he, hc'⟩ := has_spec H k t fuel P st a hf hc hrep'
        exact ⟨st', by simp [readRootH, readRoot, e], he, hc'⟩
      | byIndex i =>
        obtain ⟨st', e, he, hc'⟩ := getByIndex_spec H t fuel P st a i hf hc hrep'
        exact ⟨st', by simp [readRootH, readRoot, e], he, hc'⟩
      | range s e asc incl =>
        obtain ⟨st', e', he, hc'⟩ := traverse_spec H s e asc incl t fuel P st a hf hc hrep'
        exact ⟨st', by simp [readRootH, readRoot, e'], he, hc'⟩

end Iavl.Heap
