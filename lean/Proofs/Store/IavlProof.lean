import PocketModel.Store.IavlProof
import Proofs.Basic.Bytes
/-! Lemmas for C05: Merkle-path completeness and soundness, multistore hash injectivity. -/
namespace IavlProof

/-- two different byte strings with the same hash -/
def Collision (H : Bytes → Bytes) : Prop := ∃ x y, x ≠ y ∧ H x = H y

/-- the hashed byte layout determines its five fields (true of the amino layout on int8/int64) -/
def EncInj (enc : Int → Int → Int → Bytes → Bytes → Bytes) : Prop :=
  ∀ h s v a b h' s' v' a' b', enc h s v a b = enc h' s' v' a' b' → h = h' ∧ s = s' ∧ v = v' ∧ a = a' ∧ b = b'

/-- hashes are never the empty string (SHA-256: 32 bytes); the code tests `len(hash) == 0` for "absent" -/
def HNonEmpty (H : Bytes → Bytes) : Prop := ∀ x, H x ≠ []

/-- Shape invariant of a committed tree: inner heights positive, keys of the left subtree below the
routing key, keys of the right subtree not below it. -/
inductive WF : Tree → Prop
  | leaf (k v : Bytes) (ver : Int) : WF (.leaf k v ver)
  | inner (h s ver : Int) (nk : Bytes) (l r : Tree) : 0 < h → WF l → WF r →
      (∀ e ∈ l.leaves, e.1 < nk) → (∀ e ∈ r.leaves, nk ≤ e.1) → WF (.inner h s ver nk l r)

section
variable (H : Bytes → Bytes) (enc : Int → Int → Int → Bytes → Bytes → Bytes)

/-- the proof leaf of a tree leaf -/
def pleafOf (e : Bytes × Bytes × Int) : PLeaf := ⟨e.1, H e.2.1, e.2.2⟩

theorem pleafOf_hash (k v : Bytes) (ver : Int) :
    PLeaf.hash H enc (pleafOf H (k, v, ver)) = Tree.hash H enc (.leaf k v ver) := rfl

/-- The path built by `pathToLeaf` hashes, from the leaf it reaches, to the root hash. -/
theorem pathToLeaf_hash (hne : HNonEmpty H) (t : Tree) (key : Bytes) :
    pathLeafHash H enc (pathToLeaf H enc t key).1 (pleafOf H (pathToLeaf H enc t key).2) = Tree.hash H enc t := by
  induction t with
  | leaf k v ver => simp [pathToLeaf, pathLeafHash, pathHash, pleafOf, PLeaf.hash, Tree.hash]
  | inner h s ver nk l r ihl ihr =>
    simp only [pathToLeaf]
    split
    · simp only [pathLeafHash, pathHash, PIN.hash, if_true, Tree.hash]
      simp only [pathLeafHash] at ihl
      rw [ihl]
    · have : Tree.hash H enc l ≠ [] := by
        cases l <;> exact hne _
      simp only [pathLeafHash, pathHash, PIN.hash, if_neg this, Tree.hash]
      simp only [pathLeafHash] at ihr
      rw [ihr]

/-- `pathToLeaf` reaches the leaf that `find` returns. -/
theorem pathToLeaf_find (t : Tree) (key v : Bytes) (h : t.find key = some v) :
    ∃ ver, (pathToLeaf H enc t key).2 = (key, v, ver) := by
  induction t with
  | leaf k v' ver =>
    simp only [Tree.find] at h
    split at h
    · rename_i hk; simp at h; subst hk; subst h; exact ⟨ver, rfl⟩
    · simp at h
  | inner hh s ver nk l r ihl ihr =>
    simp only [Tree.find] at h
    simp only [pathToLeaf]
    split
    · rename_i hlt; rw [if_pos hlt] at h; exact ihl h
    · rename_i hlt; rw [if_neg hlt] at h; exact ihr h


theorem hash_ne_nil (hne : HNonEmpty H) (t : Tree) : Tree.hash H enc t ≠ [] := by
  cases t <;> exact hne _

/-- `PathToLeaf.validate(leftmost)` in logical form -/
def ValidNode (lm : Bool) (n : PIN) : Prop :=
  0 < n.height ∧ ((n.left = [] ∧ n.right ≠ []) ∨ (n.left ≠ [] ∧ n.right = [])) ∧ (lm = true → n.left = [])

theorem validPath_iff (lm : Bool) (p : Path) : validPath lm p = true ↔ ∀ n ∈ p, ValidNode lm n := by
  unfold validPath ValidNode
  rw [List.all_eq_true]
  constructor
  · intro h n hn
    have := h n hn
    simp only [Bool.and_eq_true, decide_eq_true_eq, Bool.or_eq_true, Bool.not_eq_true', bne_iff_ne, ne_eq] at this
    obtain ⟨⟨h1, h2⟩, h3⟩ := this
    refine ⟨h1, ?_, ?_⟩
    · by_cases hl : n.left = [] <;> by_cases hr : n.right = [] <;> simp_all
    · intro hlm; subst hlm; simpa using h3
  · intro h n hn
    obtain ⟨h1, h2, h3⟩ := h n hn
    simp only [Bool.and_eq_true, decide_eq_true_eq, Bool.or_eq_true, Bool.not_eq_true', bne_iff_ne, ne_eq]
    refine ⟨⟨h1, ?_⟩, ?_⟩
    · rcases h2 with ⟨a, b⟩ | ⟨a, b⟩ <;> simp [a, b]
    · cases lm with
      | false => simp
      | true => simp [h3 rfl]

theorem pathToLeaf_valid (hne : HNonEmpty H) (t : Tree) (hw : WF t) (key : Bytes) :
    validPath false (pathToLeaf H enc t key).1 = true := by
  rw [validPath_iff]
  induction hw with
  | leaf k v ver => simp [pathToLeaf]
  | inner h s ver nk l r hh _ _ _ _ ihl ihr =>
    simp only [pathToLeaf]
    split
    · intro n hn
      simp only [List.mem_cons] at hn
      rcases hn with rfl | hn
      · exact ⟨hh, Or.inl ⟨rfl, hash_ne_nil H enc hne r⟩, by simp⟩
      · exact ihl n hn
    · intro n hn
      simp only [List.mem_cons] at hn
      rcases hn with rfl | hn
      · exact ⟨hh, Or.inr ⟨hash_ne_nil H enc hne l, rfl⟩, by simp⟩
      · exact ihr n hn

/-- What the prover returns for a stored key: its value and the one-leaf proof along `pathToLeaf`. -/
theorem queryProof_present (fx : Fixes) (t : Tree) (k v : Bytes) (hf : t.find k = some v) (hk : k < nextKey fx k) :
    ∃ ver, (pathToLeaf H enc t k).2 = (k, v, ver) ∧
      queryProof H enc fx (some t) k = some (some v, some ⟨(pathToLeaf H enc t k).1, [], [⟨k, H v, ver⟩]⟩) := by
  obtain ⟨ver, hver⟩ := pathToLeaf_find H enc t k v hf
  refine ⟨ver, hver, ?_⟩
  have hp : pathToLeaf H enc t k = ((pathToLeaf H enc t k).1, (k, v, ver)) := by rw [← hver]
  have hnk : ¬ nextKey fx k ≤ k := Bytes.not_le.mpr hk
  simp only [queryProof, getWithProof, getRangeProof, if_neg hnk]
  rw [hp]
  simp [Bytes.le_refl, hk]

theorem searchLeaves_single (l : PLeaf) : searchLeaves [l] l.key 1 0 1 = 0 := by
  simp [searchLeaves, Bytes.le_refl]

/-- a one-leaf proof computes the path hash of its leaf -/
theorem computeRootHash_single (fx : Fixes) (path : Path) (l : PLeaf)
    (hv : fx.strictNodes = true → validPath false path = true) :
    computeRootHash H enc fx ⟨path, [], [l]⟩ = .ok (pathLeafHash H enc path l, isRightmost path) := by
  unfold computeRootHash
  have h3 : ¬ (fx.strictNodes = true ∧ ¬ (validPath false path = true ∧ ([] : List Path).all (validPath true) = true)) := by
    intro ⟨h1, h2⟩; exact h2 ⟨hv h1, rfl⟩
  simp only [List.length_nil, List.length_cons, Nat.zero_add, ne_eq, not_true_eq_false, if_false, if_neg h3]
  simp [computeHash]

/-- **Completeness for stored keys.** -/
theorem value_complete' (fx : Fixes) (hne : HNonEmpty H) (t : Tree) (hw : WF t) (k v : Bytes)
    (hf : t.find k = some v) (hk : k < nextKey fx k) :
    ∃ p, queryProof H enc fx (some t) k = some (some v, some p) ∧
      valueOpRun H enc fx (some p) k [v] = .ok [Tree.hash H enc t] := by
  obtain ⟨ver, hver, hq⟩ := queryProof_present H enc fx t k v hf hk
  refine ⟨_, hq, ?_⟩
  have hroot := pathToLeaf_hash H enc hne t k
  rw [hver] at hroot
  have hval := pathToLeaf_valid H enc hne t hw k
  simp only [valueOpRun]
  rw [computeRootHash_single H enc fx _ _ (fun _ => hval)]
  simp only [verifyItem, List.length_cons, List.length_nil, Nat.zero_add]
  have := searchLeaves_single (⟨k, H v, ver⟩ : PLeaf)
  simp only at this
  rw [this]
  simp [pleafOf] at hroot
  simp [hroot]

/-- leftmost / rightmost leaf -/
def Tree.first : Tree → Bytes × Bytes × Int
  | .leaf k v ver => (k, v, ver)
  | .inner _ _ _ _ l _ => Tree.first l
def Tree.last : Tree → Bytes × Bytes × Int
  | .leaf k v ver => (k, v, ver)
  | .inner _ _ _ _ _ r => Tree.last r

theorem first_mem (t : Tree) : t.first ∈ t.leaves := by
  induction t with
  | leaf => simp [Tree.first, Tree.leaves]
  | inner _ _ _ _ l r ihl _ => simp [Tree.first, Tree.leaves, ihl]
theorem last_mem (t : Tree) : t.last ∈ t.leaves := by
  induction t with
  | leaf => simp [Tree.last, Tree.leaves]
  | inner _ _ _ _ l r _ ihr => simp [Tree.last, Tree.leaves, ihr]

/-- descent for a key below every stored key: all left turns, ends at the first leaf -/
theorem pathToLeaf_below (t : Tree) (hw : WF t) (key : Bytes) (hb : ∀ e ∈ t.leaves, key < e.1) :
    isLeftmost (pathToLeaf H enc t key).1 = true ∧ (pathToLeaf H enc t key).2 = t.first := by
  induction hw with
  | leaf k v ver => simp [pathToLeaf, isLeftmost, Tree.first]
  | inner h s ver nk l r _ _ _ hl _ ihl _ =>
    have hlt : key < nk := Bytes.lt_trans (hb _ (by simp [Tree.leaves, first_mem l])) (hl _ (first_mem l))
    simp only [pathToLeaf, if_pos hlt, Tree.first]
    have := ihl (fun e he => hb e (by simp [Tree.leaves, he]))
    simp only [isLeftmost, List.all_cons] at this ⊢
    simp [this.1, this.2]

/-- descent for a key above every stored key: all right turns, ends at the last leaf -/
theorem pathToLeaf_above (t : Tree) (hw : WF t) (key : Bytes) (ha : ∀ e ∈ t.leaves, e.1 < key) :
    isRightmost (pathToLeaf H enc t key).1 = true ∧ (pathToLeaf H enc t key).2 = t.last := by
  induction hw with
  | leaf k v ver => simp [pathToLeaf, isRightmost, Tree.last]
  | inner h s ver nk l r _ _ _ _ hr _ ihr =>
    have hlt : ¬ key < nk :=
      Bytes.not_lt.mpr (Bytes.le_of_lt (Bytes.lt_of_le_of_lt (hr _ (last_mem r)) (ha _ (by simp [Tree.leaves, last_mem r]))))
    simp only [pathToLeaf, if_neg hlt, Tree.last]
    have := ihr (fun e he => ha e (by simp [Tree.leaves, he]))
    simp only [isRightmost, List.all_cons] at this ⊢
    simp [this.1, this.2]

theorem trackPath_fields (path : Path) (st : Trav) (h : Int) (lh rh : Bytes) :
    (trackPath path st h lh rh).allPaths = st.allPaths ∧ (trackPath path st h lh rh).leaves = st.leaves ∧
    (trackPath path st h lh rh).values = st.values ∧ (trackPath path st h lh rh).current = st.current := by
  unfold trackPath
  split
  · exact ⟨rfl, rfl, rfl, rfl⟩
  · split
    · exact ⟨rfl, rfl, rfl, rfl⟩
    · split <;> exact ⟨rfl, rfl, rfl, rfl⟩

/-- a traversal that starts above every stored key visits no leaf -/
theorem traverse_none (fx : Fixes) (path : Path) (start keyEnd : Bytes) (limit : Nat) (t : Tree)
    (ha : ∀ e ∈ t.leaves, e.1 < start) : ∀ st : Trav,
    (traverse H enc fx path start keyEnd limit t st).2 = false ∧
    (traverse H enc fx path start keyEnd limit t st).1.allPaths = st.allPaths ∧
    (traverse H enc fx path start keyEnd limit t st).1.leaves = st.leaves ∧
    (traverse H enc fx path start keyEnd limit t st).1.values = st.values := by
  induction t with
  | leaf k v ver =>
    intro st
    have : ¬ start ≤ k := Bytes.not_le.mpr (ha (k, v, ver) (by simp [Tree.leaves]))
    simp [traverse, this]
  | inner h s ver nk l r ihl ihr =>
    intro st
    have hl := ihl (fun e he => ha e (by simp [Tree.leaves, he]))
    have hr := ihr (fun e he => ha e (by simp [Tree.leaves, he]))
    simp only [traverse]
    obtain ⟨t1, t2, t3, _⟩ := trackPath_fields path st h (Tree.hash H enc l) (Tree.hash H enc r)
    generalize hst1 : trackPath path st h (Tree.hash H enc l) (Tree.hash H enc r) = st1 at *
    generalize hst2 : (if st1.pathCount.isNone = true then { st1 with current := st1.current ++ [⟨h, s, ver, [], Tree.hash H enc r⟩] } else st1) = st2
    have e2 : st2.allPaths = st.allPaths ∧ st2.leaves = st.leaves ∧ st2.values = st.values := by
      rw [← hst2]; split <;> simp [t1, t2, t3]
    by_cases hs : start < nk
    · simp only [if_pos hs]
      have h1 := hl st2
      generalize hres : traverse H enc fx path start keyEnd limit l st2 = res at h1
      obtain ⟨st3, stop⟩ := res
      simp only at h1
      obtain ⟨hstop, a1, a2, a3⟩ := h1
      subst hstop
      simp only [Bool.false_eq_true, if_false]
      have h2 := hr st3
      exact ⟨h2.1, by rw [h2.2.1, a1, e2.1], by rw [h2.2.2.1, a2, e2.2.1], by rw [h2.2.2.2, a3, e2.2.2]⟩
    · simp only [if_neg hs, Bool.false_eq_true, if_false]
      have h2 := hr st2
      exact ⟨h2.1, by rw [h2.2.1, e2.1], by rw [h2.2.2.1, e2.2.1], by rw [h2.2.2.2, e2.2.2]⟩

theorem le_last (t : Tree) (hw : WF t) : ∀ e ∈ t.leaves, e.1 ≤ t.last.1 := by
  induction hw with
  | leaf k v ver => intro e he; simp [Tree.leaves] at he; subst he; exact Bytes.le_refl _
  | inner h s ver nk l r _ _ _ hl hr _ ihr =>
    intro e he
    simp only [Tree.leaves, List.mem_append] at he
    simp only [Tree.last]
    rcases he with he | he
    · exact Bytes.le_of_lt (Bytes.lt_of_lt_of_le (hl e he) (hr _ (last_mem r)))
    · exact ihr e he

/-- `getRangeProof` with the destructuring `let` written as projections -/
theorem getRangeProof_eq (fx : Fixes) (t : Tree) (ks ke : Bytes) (limit : Nat) :
    getRangeProof H enc fx t ks ke limit =
      if ke ≤ ks then none else
      if limit = 1 ∨ ke ≤ nextKey fx (pathToLeaf H enc t ks).2.1 then
        some (⟨(pathToLeaf H enc t ks).1, [], [pleafOf H (pathToLeaf H enc t ks).2]⟩,
              if ks ≤ (pathToLeaf H enc t ks).2.1 ∧ (pathToLeaf H enc t ks).2.1 < ke then [(pathToLeaf H enc t ks).2.2.1] else [])
      else
        some (⟨(pathToLeaf H enc t ks).1,
               (traverse H enc fx (pathToLeaf H enc t ks).1 (nextKey fx (pathToLeaf H enc t ks).2.1) ke limit t
                 ⟨some 0, [], [], [pleafOf H (pathToLeaf H enc t ks).2], 1,
                  if ks ≤ (pathToLeaf H enc t ks).2.1 ∧ (pathToLeaf H enc t ks).2.1 < ke then [(pathToLeaf H enc t ks).2.2.1] else []⟩).1.allPaths,
               (traverse H enc fx (pathToLeaf H enc t ks).1 (nextKey fx (pathToLeaf H enc t ks).2.1) ke limit t
                 ⟨some 0, [], [], [pleafOf H (pathToLeaf H enc t ks).2], 1,
                  if ks ≤ (pathToLeaf H enc t ks).2.1 ∧ (pathToLeaf H enc t ks).2.1 < ke then [(pathToLeaf H enc t ks).2.2.1] else []⟩).1.leaves⟩,
              (traverse H enc fx (pathToLeaf H enc t ks).1 (nextKey fx (pathToLeaf H enc t ks).2.1) ke limit t
                 ⟨some 0, [], [], [pleafOf H (pathToLeaf H enc t ks).2], 1,
                  if ks ≤ (pathToLeaf H enc t ks).2.1 ∧ (pathToLeaf H enc t ks).2.1 < ke then [(pathToLeaf H enc t ks).2.2.1] else []⟩).1.values) := by
  unfold getRangeProof
  rcases hp : pathToLeaf H enc t ks with ⟨path, lk, lv, lver⟩
  rfl

/-- `GetWithProof` answers "absent" with the proof whenever the first proof leaf is not the key -/
theorem getWithProof_absent (fx : Fixes) (t : Tree) (key : Bytes) (p : RangeProof) (vals : List Bytes)
    (hg : getRangeProof H enc fx t key (nextKey fx key) 2 = some (p, vals))
    (hne : ∀ l ∈ p.leaves.head?, l.key ≠ key) :
    queryProof H enc fx (some t) key = some (none, some p) := by
  simp only [queryProof, getWithProof, hg]
  cases vals with
  | nil => rfl
  | cons v vs =>
    cases hl : p.leaves with
    | nil => rfl
    | cons l ls =>
      have : l.key ≠ key := hne l (by simp [hl])
      simp [this]

/-- the prover's answer for a key below every stored key, when the range ends at the first leaf -/
theorem queryProof_below (fx : Fixes) (t : Tree) (hw : WF t) (key : Bytes)
    (hb : ∀ e ∈ t.leaves, key < e.1) (hk : key < nextKey fx key)
    (hstop : nextKey fx key ≤ nextKey fx t.first.1) :
    queryProof H enc fx (some t) key = some (none, some ⟨(pathToLeaf H enc t key).1, [], [pleafOf H t.first]⟩) := by
  obtain ⟨_, hleaf⟩ := pathToLeaf_below H enc t hw key hb
  have hnk : ¬ nextKey fx key ≤ key := Bytes.not_le.mpr hk
  have hne : t.first.1 ≠ key := fun e => Bytes.lt_irrefl key (by have := hb _ (first_mem t); rwa [e] at this)
  have hg := getRangeProof_eq H enc fx t key (nextKey fx key) 2
  rw [if_neg hnk, hleaf, if_pos (Or.inr hstop)] at hg
  exact getWithProof_absent H enc fx t key _ _ hg (by simpa [pleafOf] using hne)

/-- **Absence completeness, key below the first leaf** (one-leaf proof). -/
theorem absence_complete_below' (fx : Fixes) (hne : HNonEmpty H) (t : Tree) (hw : WF t) (key : Bytes)
    (hb : ∀ e ∈ t.leaves, key < e.1) (hk : key < nextKey fx key)
    (hstop : nextKey fx key ≤ nextKey fx t.first.1) :
    ∃ p, queryProof H enc fx (some t) key = some (none, some p) ∧
      absenceOpRun H enc fx (some p) key [] = .ok [Tree.hash H enc t] := by
  refine ⟨_, queryProof_below H enc fx t hw key hb hk hstop, ?_⟩
  obtain ⟨hlm, hleaf⟩ := pathToLeaf_below H enc t hw key hb
  have hroot := pathToLeaf_hash H enc hne t key
  rw [hleaf] at hroot
  simp only [absenceOpRun]
  rw [computeRootHash_single H enc fx _ _ (fun _ => pathToLeaf_valid H enc hne t hw key)]
  have : key < (pleafOf H t.first).key := hb _ (first_mem t)
  simp [verifyAbsence, this, hlm, hroot]

/-- the prover's answer for a key above every stored key -/
theorem queryProof_above (fx : Fixes) (t : Tree) (hw : WF t) (key : Bytes)
    (ha : ∀ e ∈ t.leaves, e.1 < key) (hk : key < nextKey fx key) (hl : t.last.1 < nextKey fx t.last.1) :
    queryProof H enc fx (some t) key = some (none, some ⟨(pathToLeaf H enc t key).1, [], [pleafOf H t.last]⟩) := by
  obtain ⟨_, hleaf⟩ := pathToLeaf_above H enc t hw key ha
  have hnk : ¬ nextKey fx key ≤ key := Bytes.not_le.mpr hk
  have hne : t.last.1 ≠ key := fun e => Bytes.lt_irrefl key (by have := ha _ (last_mem t); rwa [e] at this)
  by_cases hs : (2 = 1 ∨ nextKey fx key ≤ nextKey fx t.last.1)
  · have hg := getRangeProof_eq H enc fx t key (nextKey fx key) 2
    rw [if_neg hnk, hleaf, if_pos hs] at hg
    exact getWithProof_absent H enc fx t key _ _ hg (by simpa [pleafOf] using hne)
  · have htr := traverse_none H enc fx (pathToLeaf H enc t key).1 (nextKey fx t.last.1) (nextKey fx key) 2 t
      (fun e he => Bytes.lt_of_le_of_lt (le_last t hw e he) hl)
      ⟨some 0, [], [], [pleafOf H t.last], 1,
        if key ≤ t.last.1 ∧ t.last.1 < nextKey fx key then [t.last.2.1] else []⟩
    obtain ⟨_, a1, a2, a3⟩ := htr
    have hg := getRangeProof_eq H enc fx t key (nextKey fx key) 2
    rw [if_neg hnk, hleaf, if_neg hs, a1, a2, a3] at hg
    exact getWithProof_absent H enc fx t key _ _ hg (by simpa [pleafOf] using hne)

/-- **Absence completeness, key above the last leaf** (one-leaf proof). -/
theorem absence_complete_above' (fx : Fixes) (hne : HNonEmpty H) (t : Tree) (hw : WF t) (key : Bytes)
    (ha : ∀ e ∈ t.leaves, e.1 < key) (hk : key < nextKey fx key) (hl : t.last.1 < nextKey fx t.last.1) :
    ∃ p, queryProof H enc fx (some t) key = some (none, some p) ∧
      absenceOpRun H enc fx (some p) key [] = .ok [Tree.hash H enc t] := by
  refine ⟨_, queryProof_above H enc fx t hw key ha hk hl, ?_⟩
  obtain ⟨hrm, hleaf⟩ := pathToLeaf_above H enc t hw key ha
  have hroot := pathToLeaf_hash H enc hne t key
  rw [hleaf] at hroot
  simp only [absenceOpRun]
  rw [computeRootHash_single H enc fx _ _ (fun _ => pathToLeaf_valid H enc hne t hw key)]
  have hlt : t.last.1 < key := ha _ (last_mem t)
  have h1 : ¬ key < (pleafOf H t.last).key := Bytes.lt_asymm hlt
  have h2 : key ≠ (pleafOf H t.last).key := fun e => Bytes.lt_irrefl key (by rw [e] at hlt ⊢; exact hlt)
  simp [verifyAbsence, h1, h2, hrm, hroot]

/-- `key ‖ 0x00` is the immediate successor: anything above `a` is at least `a ‖ 0x00` -/
theorem succ_le_of_lt : ∀ (a b : Bytes), a < b → a ++ [0] ≤ b
  | [], [], h => absurd h (List.lt_irrefl _)
  | [], y :: ys, _ => by
    show ¬ (y :: ys) < [0]
    intro h
    rcases List.cons_lt_cons_iff.mp h with h | ⟨_, h⟩
    · exact absurd h (by simp [UInt8.lt_iff_toNat_lt])
    · exact List.not_lt_nil _ h
  | x :: xs, [], h => absurd h (List.not_lt_nil _)
  | x :: xs, y :: ys, h => by
    rcases List.cons_lt_cons_iff.mp h with h1 | ⟨e, h2⟩
    · exact List.le_of_lt (List.cons_lt_cons_iff.mpr (Or.inl h1))
    · subst e
      have := succ_le_of_lt xs ys h2
      show ¬ (x :: ys) < (x :: (xs ++ [0]))
      intro hc
      rcases List.cons_lt_cons_iff.mp hc with hc | ⟨_, hc⟩
      · exact absurd hc (by simp)
      · exact this hc

theorem lt_succ (a : Bytes) : a < a ++ [0] := by
  induction a with
  | nil => exact List.nil_lt_cons _ _
  | cons x xs ih => exact List.cons_lt_cons_iff.mpr (Or.inr ⟨rfl, ih⟩)

theorem H_inj_or_collision {x y : Bytes} (h : H x = H y) : x = y ∨ Collision H := by
  by_cases e : x = y
  · exact Or.inl e
  · exact Or.inr ⟨x, y, e, h⟩

/-- `Reach t p s`: the proof path `p`, read from the root of `t`, names real inner nodes of `t` with the
real hash of the sibling at every step, and ends at the subtree `s`. -/
inductive Reach : Tree → Path → Tree → Prop
  | nil (t : Tree) : Reach t [] t
  | left (h sz v : Int) (k : Bytes) (l r : Tree) (rest : Path) (s : Tree) :
      Reach l rest s → Reach (.inner h sz v k l r) (⟨h, sz, v, [], Tree.hash H enc r⟩ :: rest) s
  | right (h sz v : Int) (k : Bytes) (l r : Tree) (rest : Path) (s : Tree) :
      Reach r rest s → Reach (.inner h sz v k l r) (⟨h, sz, v, Tree.hash H enc l, []⟩ :: rest) s

/-- **Merkle path soundness**: a valid path that hashes `x` up to the root hash of `t` follows `t`. -/
theorem pathHash_sound (hinj : EncInj enc) :
    ∀ (p : Path) (x : Bytes) (t : Tree), (∀ n ∈ p, ValidNode false n) → WF t →
      pathHash H enc p x = Tree.hash H enc t → Collision H ∨ ∃ s, Reach H enc t p s ∧ Tree.hash H enc s = x := by
  intro p
  induction p with
  | nil => intro x t _ _ h; exact Or.inr ⟨t, Reach.nil t, h.symm⟩
  | cons n rest ih =>
    intro x t hv hw h
    have hn := hv n (by simp)
    have hrest : ∀ m ∈ rest, ValidNode false m := fun m hm => hv m (by simp [hm])
    obtain ⟨hpos, hside, _⟩ := hn
    simp only [pathHash, PIN.hash] at h
    cases hw with
    | leaf k v ver =>
      simp only [Tree.hash] at h
      split at h
      · rcases H_inj_or_collision H h with e | c
        · have := (hinj _ _ _ _ _ _ _ _ _ _ e).1; omega
        · exact Or.inl c
      · rcases H_inj_or_collision H h with e | c
        · have := (hinj _ _ _ _ _ _ _ _ _ _ e).1; omega
        · exact Or.inl c
    | inner hh s ver nk l r hhpos hwl hwr _ _ =>
      simp only [Tree.hash] at h
      split at h
      · rename_i hl0
        rcases H_inj_or_collision H h with e | c
        · obtain ⟨e1, e2, e3, e4, e5⟩ := hinj _ _ _ _ _ _ _ _ _ _ e
          rcases ih x l hrest hwl e4 with c | ⟨s', hr, hs⟩
          · exact Or.inl c
          · refine Or.inr ⟨s', ?_, hs⟩
            have : n = ⟨hh, s, ver, [], Tree.hash H enc r⟩ := by
              cases n; simp_all
            rw [this]; exact Reach.left _ _ _ _ _ _ _ _ hr
        · exact Or.inl c
      · rename_i hl0
        have hr0 : n.right = [] := by
          rcases hside with ⟨a, _⟩ | ⟨_, b⟩
          · exact absurd a hl0
          · exact b
        rcases H_inj_or_collision H h with e | c
        · obtain ⟨e1, e2, e3, e4, e5⟩ := hinj _ _ _ _ _ _ _ _ _ _ e
          rcases ih x r hrest hwr e5 with c | ⟨s', hr, hs⟩
          · exact Or.inl c
          · refine Or.inr ⟨s', ?_, hs⟩
            have : n = ⟨hh, s, ver, Tree.hash H enc l, []⟩ := by
              cases n; simp_all
            rw [this]; exact Reach.right _ _ _ _ _ _ _ _ hr
        · exact Or.inl c

/-- a subtree whose hash is a proof leaf's hash is that leaf -/
theorem leaf_sound (hinj : EncInj enc) (s : Tree) (hw : WF s) (lf : PLeaf)
    (h : Tree.hash H enc s = PLeaf.hash H enc lf) :
    Collision H ∨ ∃ k v ver, s = .leaf k v ver ∧ lf = ⟨k, H v, ver⟩ := by
  cases hw with
  | leaf k v ver =>
    simp only [Tree.hash, PLeaf.hash] at h
    rcases H_inj_or_collision H h with e | c
    · obtain ⟨_, _, e3, e4, e5⟩ := hinj _ _ _ _ _ _ _ _ _ _ e
      exact Or.inr ⟨k, v, ver, rfl, by cases lf; simp_all⟩
    · exact Or.inl c
  | inner hh sz ver nk l r hpos _ _ _ _ =>
    simp only [Tree.hash, PLeaf.hash] at h
    rcases H_inj_or_collision H h with e | c
    · have := (hinj _ _ _ _ _ _ _ _ _ _ e).1; omega
    · exact Or.inl c

/-- the leaves of a tree as proof leaves, in key order -/
def pl (t : Tree) : List PLeaf := t.leaves.map (pleafOf H)

theorem pl_inner (h s v : Int) (k : Bytes) (l r : Tree) : pl H (.inner h s v k l r) = pl H l ++ pl H r := by
  simp [pl, Tree.leaves]

/-- `Sibs rev rs`: `rs` are the right siblings hanging off the left-turn nodes of `rev` (a path read
from the leaf upwards), each node carrying the real hash of its sibling. -/
inductive Sibs : List PIN → List Tree → Prop
  | nil : Sibs [] []
  | skip (n : PIN) (rev : List PIN) (rs : List Tree) : n.right = [] → Sibs rev rs → Sibs (n :: rev) rs
  | take (n : PIN) (rev : List PIN) (r : Tree) (rs : List Tree) :
      n.right ≠ [] → n.right = Tree.hash H enc r → WF r → Sibs rev rs → Sibs (n :: rev) (r :: rs)

theorem Sibs.append {a b : List PIN} {ra rb : List Tree} (ha : Sibs H enc a ra) (hb : Sibs H enc b rb) :
    Sibs H enc (a ++ b) (ra ++ rb) := by
  induction ha with
  | nil => simpa using hb
  | skip n rev rs h _ ih => exact Sibs.skip n _ _ h ih
  | take n rev r rs h1 h2 h3 _ ih => exact Sibs.take n _ r _ h1 h2 h3 ih

theorem Sibs.nil_of_rightmost {rev : List PIN} {rs : List Tree} (h : Sibs H enc rev rs)
    (hr : ∀ n ∈ rev, n.right = []) : rs = [] := by
  induction h with
  | nil => rfl
  | skip n rev rs _ _ ih => exact ih (fun m hm => hr m (by simp [hm]))
  | take n rev r rs h1 _ _ _ _ => exact absurd (hr n (by simp)) h1

theorem isRightmost_iff (p : Path) : isRightmost p = true ↔ ∀ n ∈ p, n.right = [] := by
  simp [isRightmost, List.all_eq_true]
theorem isLeftmost_iff (p : Path) : isLeftmost p = true ↔ ∀ n ∈ p, n.left = [] := by
  simp [isLeftmost, List.all_eq_true]

/-- what a path that follows the tree says about the tree's leaf list -/
theorem reach_sibs (hne : HNonEmpty H) {t : Tree} {p : Path} {s : Tree} (hr : Reach H enc t p s) (hw : WF t) :
    WF s ∧ ∃ rs pre, Sibs H enc p.reverse rs ∧ pl H t = pre ++ pl H s ++ rs.flatMap (pl H) ∧
      (isLeftmost p = true → pre = []) := by
  induction hr with
  | nil t => exact ⟨hw, [], [], Sibs.nil, by simp, fun _ => rfl⟩
  | left h sz v k l r rest s _ ih =>
    cases hw with
    | inner _ _ _ _ _ _ _ hwl hwr _ _ =>
      obtain ⟨hws, rs, pre, hs, hpl, hlm⟩ := ih hwl
      refine ⟨hws, rs ++ [r], pre, ?_, ?_, ?_⟩
      · rw [List.reverse_cons]
        exact Sibs.append H enc hs (Sibs.take _ _ r _ (hash_ne_nil H enc hne r) rfl hwr Sibs.nil)
      · rw [pl_inner, hpl]; simp
      · intro hl
        rw [isLeftmost_iff] at hl
        exact hlm ((isLeftmost_iff rest).mpr (fun n hn => hl n (by simp [hn])))
  | right h sz v k l r rest s _ ih =>
    cases hw with
    | inner _ _ _ _ _ _ _ hwl hwr _ _ =>
      obtain ⟨hws, rs, pre, hs, hpl, hlm⟩ := ih hwr
      refine ⟨hws, rs, pl H l ++ pre, ?_, ?_, ?_⟩
      · rw [List.reverse_cons]
        have := Sibs.append H enc hs (Sibs.skip ⟨h, sz, v, Tree.hash H enc l, []⟩ [] [] rfl Sibs.nil)
        simpa using this
      · rw [pl_inner, hpl]; simp
      · intro hl
        rw [isLeftmost_iff] at hl
        exact absurd (hl ⟨h, sz, v, Tree.hash H enc l, []⟩ (by simp)) (hash_ne_nil H enc hne l)

theorem valid_true_false {n : PIN} (h : ValidNode true n) : ValidNode false n :=
  ⟨h.1, h.2.1, by simp⟩

/-- the specification of `COMPUTEHASH` with `fuel` levels of recursion left -/
def CHSpec (fuel : Nat) : Prop :=
  ∀ path rm leaves inners r, computeHash H enc fuel path rm leaves inners = .ok r →
    (∀ n ∈ path, ValidNode false n) → (∀ p ∈ inners, ∀ n ∈ p, ValidNode true n) →
    (r.treeEnd = true → rm = true) ∧ (r.done = true → r.leaves = []) ∧ (∀ p ∈ r.inners, p ∈ inners) ∧
    ∀ s, WF s → r.hash = Tree.hash H enc s →
      Collision H ∨ ∃ pre C post, pl H s = pre ++ C ++ post ∧ leaves = C ++ r.leaves ∧
        (r.done = false → post = []) ∧ (r.treeEnd = true → post = []) ∧
        (isLeftmost path = true → pre = []) ∧ (isRightmost path = true → post = [] ∧ C.length = 1)

/-- the loop of `COMPUTEHASH` over the path, given the specification of the recursive calls -/
theorem pathLoop_spec (hinj : EncInj enc) (hne : HNonEmpty H) (fuel : Nat) (ih : CHSpec H enc fuel) :
    ∀ (rev : List PIN) (rs : List Tree), Sibs H enc rev rs →
    ∀ hash rm leaves inners r,
      pathLoop (computeHash H enc fuel) hash rm rev leaves inners = .ok r →
      (∀ p ∈ inners, ∀ n ∈ p, ValidNode true n) →
      r.hash = hash ∧ (r.treeEnd = true → rm = true) ∧ (r.done = true → r.leaves = []) ∧ (∀ p ∈ r.inners, p ∈ inners) ∧
      (Collision H ∨ ∃ C post, rs.flatMap (pl H) = C ++ post ∧ leaves = C ++ r.leaves ∧
        (r.done = false → post = []) ∧ (r.treeEnd = true → post = [])) := by
  intro rev rs hs
  induction hs with
  | nil =>
    intro hash rm leaves inners r h _
    simp only [pathLoop] at h
    injection h with h; subst h
    exact ⟨rfl, by simp, by simp, fun p hp => hp, Or.inr ⟨[], [], by simp, by simp, by simp, by simp⟩⟩
  | skip n rev rs hn _ ihs =>
    intro hash rm leaves inners r h hv
    simp only [pathLoop, if_pos hn] at h
    exact ihs hash rm leaves inners r h hv
  | take n rev rt rs hn1 hn2 hwr hsibs ihs =>
    intro hash rm leaves inners r h hv
    simp only [pathLoop, if_neg hn1] at h
    cases inners with
    | nil => simp at h
    | cons ins rinners =>
      simp only at h
      cases hc : computeHash H enc fuel ins (rm && isRightmost rev.reverse) leaves rinners with
      | error e => rw [hc] at h; simp at h
      | ok r1 =>
        rw [hc] at h
        simp only at h
        have hvins : ∀ n ∈ ins, ValidNode false n := fun n hn => valid_true_false (hv ins (by simp) n hn)
        have hvr : ∀ p ∈ rinners, ∀ n ∈ p, ValidNode true n := fun p hp => hv p (by simp [hp])
        obtain ⟨b1, c1, d1, a1⟩ := ih ins _ leaves rinners r1 hc hvins hvr
        by_cases hh : r1.hash ≠ n.right
        · rw [if_pos hh] at h; simp at h
        · rw [if_neg hh] at h
          have hh' : r1.hash = Tree.hash H enc rt := by rw [← hn2]; exact Classical.not_not.mp hh
          have hlm : isLeftmost ins = true := (isLeftmost_iff ins).mpr (fun m hm => (hv ins (by simp) m hm).2.2 rfl)
          rcases a1 rt hwr hh' with c | ⟨pre, C1, post1, e1, e2, e3, e4, e5, _⟩
          · -- collision: still establish the bookkeeping facts
            by_cases hd : r1.done = true
            · rw [if_pos hd] at h
              injection h with h; subst h
              refine ⟨rfl, ?_, fun _ => c1 hd, fun p hp => by simp [d1 p hp], Or.inl c⟩
              intro ht
              have := b1 ht
              simp only [Bool.and_eq_true] at this
              exact this.1
            · rw [if_neg hd] at h
              obtain ⟨g1, g2, g3, g4, _⟩ := ihs hash rm r1.leaves r1.inners r h (fun p hp => hvr p (d1 p hp))
              exact ⟨g1, g2, g3, fun p hp => by simp [d1 p (g4 p hp)], Or.inl c⟩
          · have hpre : pre = [] := e5 hlm
            subst hpre
            by_cases hd : r1.done = true
            · rw [if_pos hd] at h
              injection h with h; subst h
              refine ⟨rfl, ?_, fun _ => c1 hd, fun p hp => by simp [d1 p hp], Or.inr ⟨C1, post1 ++ rs.flatMap (pl H), ?_, e2, by simp [hd], ?_⟩⟩
              · intro ht
                have := b1 ht
                simp only [Bool.and_eq_true] at this
                exact this.1
              · simp only [List.flatMap_cons]; rw [e1]; simp
              · intro ht
                have hrm := b1 ht
                simp only [Bool.and_eq_true] at hrm
                have hrs : rs = [] := Sibs.nil_of_rightmost H enc hsibs
                  (fun m hm => (isRightmost_iff rev.reverse).mp hrm.2 m (by simp [hm]))
                rw [e4 ht, hrs]; simp
            · rw [if_neg hd] at h
              have hd' : r1.done = false := by simpa using hd
              obtain ⟨g1, g2, g3, g4, g5⟩ := ihs hash rm r1.leaves r1.inners r h (fun p hp => hvr p (d1 p hp))
              refine ⟨g1, g2, g3, fun p hp => by simp [d1 p (g4 p hp)], ?_⟩
              rcases g5 with c | ⟨C2, post2, f1, f2, f3, f4⟩
              · exact Or.inl c
              · refine Or.inr ⟨C1 ++ C2, post2, ?_, ?_, f3, f4⟩
                · simp only [List.flatMap_cons]; rw [e1, e3 hd', f1]; simp
                · rw [e2, f2]; simp

/-- bookkeeping facts of `COMPUTEHASH` that need no tree -/
def CHBook (fuel : Nat) : Prop :=
  ∀ path rm leaves inners r, computeHash H enc fuel path rm leaves inners = .ok r →
    (r.treeEnd = true → rm = true) ∧ (r.done = true → r.leaves = []) ∧ (∀ p ∈ r.inners, p ∈ inners) ∧
    ∃ nleaf rleaves, leaves = nleaf :: rleaves ∧ r.hash = pathLeafHash H enc path nleaf

theorem pathLoop_book (fuel : Nat) (ih : CHBook H enc fuel) :
    ∀ (rev : List PIN) hash rm leaves inners r,
      pathLoop (computeHash H enc fuel) hash rm rev leaves inners = .ok r →
      r.hash = hash ∧ (r.treeEnd = true → rm = true) ∧ (r.done = true → r.leaves = []) ∧ (∀ p ∈ r.inners, p ∈ inners) := by
  intro rev
  induction rev with
  | nil =>
    intro hash rm leaves inners r h
    simp only [pathLoop] at h
    injection h with h; subst h
    exact ⟨rfl, by simp, by simp, fun p hp => hp⟩
  | cons n rev ihs =>
    intro hash rm leaves inners r h
    simp only [pathLoop] at h
    by_cases hn : n.right = []
    · rw [if_pos hn] at h; exact ihs hash rm leaves inners r h
    · rw [if_neg hn] at h
      cases inners with
      | nil => simp at h
      | cons ins rinners =>
        simp only at h
        cases hc : computeHash H enc fuel ins (rm && isRightmost rev.reverse) leaves rinners with
        | error e => rw [hc] at h; simp at h
        | ok r1 =>
          rw [hc] at h
          simp only at h
          obtain ⟨b1, c1, d1, _⟩ := ih ins _ leaves rinners r1 hc
          by_cases hh : r1.hash ≠ n.right
          · rw [if_pos hh] at h; simp at h
          · rw [if_neg hh] at h
            by_cases hd : r1.done = true
            · rw [if_pos hd] at h
              injection h with h; subst h
              refine ⟨rfl, ?_, fun _ => c1 hd, fun p hp => by simp [d1 p hp]⟩
              intro ht
              have := b1 ht
              simp only [Bool.and_eq_true] at this
              exact this.1
            · rw [if_neg hd] at h
              obtain ⟨g1, g2, g3, g4⟩ := ihs hash rm r1.leaves r1.inners r h
              exact ⟨g1, g2, g3, fun p hp => by simp [d1 p (g4 p hp)]⟩

theorem chbook : ∀ fuel, CHBook H enc fuel := by
  intro fuel
  induction fuel with
  | zero => intro path rm leaves inners r h; simp [computeHash] at h
  | succ fuel ih =>
    intro path rm leaves inners r h
    cases leaves with
    | nil => simp [computeHash] at h
    | cons nleaf rleaves =>
      simp only [computeHash] at h
      by_cases hr : rleaves = []
      · rw [if_pos hr] at h
        injection h with h; subst h
        refine ⟨?_, fun _ => rfl, fun p hp => hp, nleaf, rleaves, rfl, rfl⟩
        intro ht; simp only [Bool.and_eq_true] at ht; exact ht.1
      · rw [if_neg hr] at h
        obtain ⟨g1, g2, g3, g4⟩ := pathLoop_book H enc fuel ih _ _ _ _ _ _ h
        exact ⟨g2, g3, g4, nleaf, rleaves, rfl, g1⟩

/-- **the specification of `COMPUTEHASH` holds at every recursion depth** -/
theorem chspec (hinj : EncInj enc) (hne : HNonEmpty H) : ∀ fuel, CHSpec H enc fuel := by
  intro fuel
  induction fuel with
  | zero => intro path rm leaves inners r h; simp [computeHash] at h
  | succ fuel ih =>
    intro path rm leaves inners r h hvp hvi
    obtain ⟨b, c, d, nleaf, rleaves, hl, hhash⟩ := chbook H enc (fuel + 1) path rm leaves inners r h
    refine ⟨b, c, d, ?_⟩
    intro s hws hs
    subst hl
    rw [hhash] at hs
    rcases pathHash_sound H enc hinj path _ s hvp hws hs with cl | ⟨s', hreach, hs'⟩
    · exact Or.inl cl
    · obtain ⟨hws', rs, pre, hsibs, hpl, hlm⟩ := reach_sibs H enc hne hreach hws
      rcases leaf_sound H enc hinj s' hws' nleaf hs' with cl | ⟨k, v, ver, e1, e2⟩
      · exact Or.inl cl
      · have hpl' : pl H s' = [nleaf] := by subst e1; subst e2; simp [pl, Tree.leaves, pleafOf]
        rw [hpl'] at hpl
        have hrmost : isRightmost path = true → rs = [] := fun hr =>
          Sibs.nil_of_rightmost H enc hsibs (fun m hm => (isRightmost_iff path).mp hr m (by simpa using hm))
        simp only [computeHash] at h
        by_cases hr : rleaves = []
        · rw [if_pos hr] at h
          injection h with h; subst h
          subst hr
          refine Or.inr ⟨pre, [nleaf], rs.flatMap (pl H), hpl, by simp, by simp, ?_, hlm, ?_⟩
          · intro ht; simp only [Bool.and_eq_true] at ht; rw [hrmost ht.2]; simp
          · intro hrm; rw [hrmost hrm]; simp
        · rw [if_neg hr] at h
          obtain ⟨_, _, _, _, g5⟩ := pathLoop_spec H enc hinj hne fuel ih path.reverse rs hsibs _ _ _ _ _ h hvi
          rcases g5 with cl | ⟨C, post, f1, f2, f3, f4⟩
          · exact Or.inl cl
          · refine Or.inr ⟨pre, nleaf :: C, post, ?_, by rw [f2]; simp, f3, f4, hlm, ?_⟩
            · rw [hpl, f1]; simp
            · intro hrm
              have hrs := hrmost hrm
              subst hrs
              simp at f1
              obtain ⟨fc, fp⟩ := f1
              subst fc; subst fp
              simp

/-- **Range-proof soundness (strict verifier).**  A proof whose recomputed root is the root hash of `t`
lists a contiguous run of `t`'s leaves; the run starts at the first leaf when the left path is
leftmost, is the single last leaf when the left path is rightmost, and ends at the last leaf when
`treeEnd` is reported. -/
theorem range_sound (hinj : EncInj enc) (hne : HNonEmpty H) (fx : Fixes) (hfx : fx.strictNodes = true)
    (p : RangeProof) (t : Tree) (hw : WF t) (te : Bool)
    (h : computeRootHash H enc fx p = .ok (Tree.hash H enc t, te)) :
    Collision H ∨ ∃ pre post, pl H t = pre ++ p.leaves ++ post ∧
      (isLeftmost p.leftPath = true → pre = []) ∧
      (isRightmost p.leftPath = true → post = [] ∧ p.leaves.length = 1) ∧ (te = true → post = []) := by
  unfold computeRootHash at h
  split at h
  · simp at h
  · split at h
    · simp at h
    · split at h
      · simp at h
      · rename_i _ _ hval
        have hval' : validPath false p.leftPath = true ∧ p.innerNodes.all (validPath true) = true := by
          by_cases hv : validPath false p.leftPath = true ∧ p.innerNodes.all (validPath true) = true
          · exact hv
          · exact absurd ⟨hfx, hv⟩ hval
        cases hc : computeHash H enc (p.leaves.length + 1) p.leftPath true p.leaves p.innerNodes with
        | error e => rw [hc] at h; simp at h
        | ok r =>
          rw [hc] at h
          simp only at h
          split at h
          · rename_i hd
            injection h with h
            simp only [Prod.mk.injEq] at h
            obtain ⟨hh, hte⟩ := h
            have hvp : ∀ n ∈ p.leftPath, ValidNode false n := (validPath_iff false _).mp hval'.1
            have hvi : ∀ q ∈ p.innerNodes, ∀ n ∈ q, ValidNode true n := by
              intro q hq
              exact (validPath_iff true q).mp (List.all_eq_true.mp hval'.2 q hq)
            obtain ⟨_, c, _, a⟩ := chspec H enc hinj hne _ p.leftPath true p.leaves p.innerNodes r hc hvp hvi
            rcases a t hw hh with cl | ⟨pre, C, post, e1, e2, _, e4, e5, e6⟩
            · exact Or.inl cl
            · have : p.leaves = C := by rw [e2, c hd]; simp
              subst this
              exact Or.inr ⟨pre, post, e1, e5, e6, fun ht => e4 (by rw [hte]; exact ht)⟩
          · simp at h

/-- keys strictly increase along the leaves of a well-formed tree -/
theorem leaves_sorted (t : Tree) (hw : WF t) : t.leaves.Pairwise (fun a b => a.1 < b.1) := by
  induction hw with
  | leaf k v ver => simp [Tree.leaves]
  | inner h s ver nk l r _ _ _ hl hr ihl ihr =>
    simp only [Tree.leaves]
    rw [List.pairwise_append]
    exact ⟨ihl, ihr, fun a ha b hb => Bytes.lt_of_lt_of_le (hl a ha) (hr b hb)⟩

theorem pl_sorted (t : Tree) (hw : WF t) : (pl H t).Pairwise (fun a b => a.key < b.key) := by
  unfold pl
  rw [List.pairwise_map]
  exact leaves_sorted t hw

theorem searchLeaves_le (leaves : List PLeaf) (key : Bytes) : ∀ fuel i j, i ≤ j → i ≤ searchLeaves leaves key fuel i j := by
  intro fuel
  induction fuel with
  | zero => intro i j _; simp [searchLeaves]
  | succ f ih =>
    intro i j hij
    simp only [searchLeaves]
    split
    · split
      · exact ih i _ (by omega)
      · exact Nat.le_trans (by omega) (ih ((i + j) / 2 + 1) j (by omega))
    · exact Nat.le_refl _

/-- **value_sound (strict verifier)**: an accepted existence proof for `(key, value)` against the root
hash of `t` means `t` stores `value` under `key` — or exhibits a hash collision. -/
theorem value_sound' (hinj : EncInj enc) (hne : HNonEmpty H) (fx : Fixes) (hfx : fx.strictNodes = true)
    (p : RangeProof) (t : Tree) (hw : WF t) (key value : Bytes)
    (h : valueOpRun H enc fx (some p) key [value] = .ok [Tree.hash H enc t]) :
    (∃ ver, (key, value, ver) ∈ t.leaves) ∨ Collision H := by
  simp only [valueOpRun] at h
  cases hc : computeRootHash H enc fx p with
  | error e => rw [hc] at h; simp at h
  | ok rt =>
    obtain ⟨root, te⟩ := rt
    rw [hc] at h
    simp only at h
    split at h
    · rename_i hvi
      injection h with h
      simp only [List.cons.injEq, and_true] at h
      subst h
      rcases range_sound H enc hinj hne fx hfx p t hw te hc with cl | ⟨pre, post, e1, _⟩
      · exact Or.inr cl
      · simp only [verifyItem] at hvi
        split at hvi
        · simp at hvi
        · rename_i l hl
          simp only [Bool.and_eq_true, decide_eq_true_eq] at hvi
          have hmem : l ∈ pl H t := by
            rw [e1]; simp [List.mem_of_getElem? hl]
          simp only [pl, List.mem_map] at hmem
          obtain ⟨e, he, hel⟩ := hmem
          obtain ⟨k, v, ver⟩ := e
          simp only [pleafOf] at hel
          subst hel
          simp only at hvi
          obtain ⟨hk, hv⟩ := hvi
          subst hk
          rcases H_inj_or_collision H hv with ev | cl
          · subst ev; exact Or.inl ⟨ver, he⟩
          · exact Or.inr cl
    · simp at h

theorem absenceLoop_true (key : Bytes) : ∀ rest : List PLeaf, absenceLoop key rest = some true →
    ∃ a l b, rest = a ++ l :: b ∧ key < l.key ∧ ∀ x ∈ a, x.key < key := by
  intro rest
  induction rest with
  | nil => simp [absenceLoop]
  | cons x xs ih =>
    intro h
    simp only [absenceLoop] at h
    split at h
    · rename_i hlt; exact ⟨[], x, xs, rfl, hlt, by simp⟩
    · split at h
      · simp at h
      · rename_i h1 h2
        obtain ⟨a, l, b, e, hl, ha⟩ := ih h
        refine ⟨x :: a, l, b, by simp [e], hl, ?_⟩
        intro y hy
        simp only [List.mem_cons] at hy
        rcases hy with rfl | hy
        · rcases Bytes.lt_tri key y.key with c | c | c
          · exact absurd c h1
          · exact absurd c h2
          · exact c
        · exact ha y hy

theorem absenceLoop_none (key : Bytes) : ∀ rest : List PLeaf, absenceLoop key rest = none →
    ∀ x ∈ rest, x.key < key := by
  intro rest
  induction rest with
  | nil => simp
  | cons x xs ih =>
    intro h
    simp only [absenceLoop] at h
    split at h
    · simp at h
    · split at h
      · simp at h
      · rename_i h1 h2
        intro y hy
        simp only [List.mem_cons] at hy
        rcases hy with rfl | hy
        · rcases Bytes.lt_tri key y.key with c | c | c
          · exact absurd c h1
          · exact absurd c h2
          · exact c
        · exact ih h y hy

/-- **absence_sound (strict verifier)**: an accepted absence proof for `key` against the root hash of
`t` means no leaf of `t` has that key — or exhibits a hash collision. -/
theorem absence_sound' (hinj : EncInj enc) (hne : HNonEmpty H) (fx : Fixes) (hfx : fx.strictNodes = true)
    (p : RangeProof) (t : Tree) (hw : WF t) (key : Bytes)
    (h : absenceOpRun H enc fx (some p) key [] = .ok [Tree.hash H enc t]) :
    (∀ e ∈ t.leaves, e.1 ≠ key) ∨ Collision H := by
  simp only [absenceOpRun] at h
  cases hc : computeRootHash H enc fx p with
  | error e => rw [hc] at h; simp at h
  | ok rt =>
    obtain ⟨root, te⟩ := rt
    rw [hc] at h
    simp only at h
    split at h
    · rename_i hva
      injection h with h
      simp only [List.cons.injEq, and_true] at h
      subst h
      rcases range_sound H enc hinj hne fx hfx p t hw te hc with cl | ⟨pre, post, e1, e2, e3, e4⟩
      · exact Or.inr cl
      · left
        have hsort := pl_sorted H t hw
        -- it suffices to show that no proof-leaf of the tree carries the key
        suffices hx : ∀ x ∈ pl H t, x.key ≠ key by
          intro e he
          exact hx (pleafOf H e) (by simp only [pl]; exact List.mem_map_of_mem he)
        rw [e1] at hsort ⊢
        simp only [verifyAbsence] at hva
        cases hlv : p.leaves with
        | nil => rw [hlv] at hva; simp at hva
        | cons l0 rest =>
          rw [hlv] at hva hsort e3
          simp only at hva
          rw [List.pairwise_append, List.pairwise_append] at hsort
          obtain ⟨⟨hpre, hseg, hps⟩, hpost, hpp⟩ := hsort
          have hseg' := List.pairwise_cons.mp hseg
          split at hva
          · -- key below the first proof leaf, which is the first leaf of the tree
            rename_i hlt
            have hp0 : pre = [] := e2 hva
            subst hp0
            intro x hx
            simp only [List.nil_append, List.mem_append, List.mem_cons] at hx
            have hge : l0.key ≤ x.key := by
              rcases hx with (rfl | hx) | hx
              · exact Bytes.le_refl _
              · exact Bytes.le_of_lt (hseg'.1 x hx)
              · exact Bytes.le_of_lt (hpp l0 (by simp) x hx)
            exact fun e => Bytes.lt_irrefl key (by rw [e] at hge; exact Bytes.lt_of_lt_of_le hlt hge)
          · rename_i hnlt
            split at hva
            · simp at hva
            · rename_i hneq
              have hgt : l0.key < key := by
                rcases Bytes.lt_tri key l0.key with c | c | c
                · exact absurd c hnlt
                · exact absurd c hneq
                · exact c
              have hpre_lt : ∀ x ∈ pre, x.key < key := fun x hx =>
                Bytes.lt_trans (hps x hx l0 (by simp)) hgt
              -- the two shortcuts: the first proof leaf is the last leaf of the tree
              have hlast : isRightmost p.leftPath = true → ∀ x ∈ pre ++ (l0 :: rest) ++ post, x.key ≠ key := by
                intro hr
                obtain ⟨hp, hlen⟩ := e3 hr
                have hrest : rest = [] := by simpa using hlen
                subst hp; subst hrest
                intro x hx
                simp only [List.append_nil, List.mem_append, List.mem_cons, List.not_mem_nil, or_false] at hx
                rcases hx with hx | rfl
                · exact Bytes.ne_of_lt (hpre_lt x hx)
                · exact Bytes.ne_of_lt hgt
              split at hva
              · rename_i hnil; exact hlast (by rw [hnil]; rfl)
              · split at hva
                · rename_i hrm; exact hlast hrm
                · cases hal : absenceLoop key rest with
                  | some b =>
                    rw [hal] at hva
                    simp only at hva
                    subst hva
                    obtain ⟨a, l, b, er, hl, ha⟩ := absenceLoop_true key rest hal
                    subst er
                    intro x hx
                    simp only [List.mem_append, List.mem_cons] at hx
                    have hrest' := hseg'.2
                    rw [List.pairwise_append] at hrest'
                    obtain ⟨_, hlb, hab⟩ := hrest'
                    have hlb' := List.pairwise_cons.mp hlb
                    rcases hx with (hx | rfl | hx | rfl | hx) | hx
                    · exact Bytes.ne_of_lt (hpre_lt x hx)
                    · exact Bytes.ne_of_lt hgt
                    · exact Bytes.ne_of_lt (ha x hx)
                    · exact fun e => Bytes.lt_irrefl key (by rw [e] at hl; exact hl)
                    · exact fun e => Bytes.lt_irrefl key (by have := Bytes.lt_trans hl (hlb'.1 x hx); rw [e] at this; exact this)
                    · have : l.key < x.key := hpp l (by simp) x hx
                      exact fun e => Bytes.lt_irrefl key (by have := Bytes.lt_trans hl this; rw [e] at this; exact this)
                  | none =>
                    rw [hal] at hva
                    simp only at hva
                    have hp := e4 hva
                    subst hp
                    have hr := absenceLoop_none key rest hal
                    intro x hx
                    simp only [List.append_nil, List.mem_append, List.mem_cons] at hx
                    rcases hx with hx | rfl | hx
                    · exact Bytes.ne_of_lt (hpre_lt x hx)
                    · exact Bytes.ne_of_lt hgt
                    · exact Bytes.ne_of_lt (hr x hx)
    · simp at h
end
section
variable (H : Bytes → Bytes) (encKV : Bytes → Bytes → Bytes)

/-- all hashes have one length (SHA-256: 32) — needed to split `left ‖ right` in `innerHash` -/
def HLen (H : Bytes → Bytes) : Prop := ∀ x y, (H x).length = (H y).length

def KVInj (encKV : Bytes → Bytes → Bytes) : Prop := ∀ a b a' b', encKV a b = encKV a' b' → a = a' ∧ b = b'

theorem splitPointAux_bounds : ∀ fuel k n, 1 ≤ k → k < n → k ≤ splitPointAux fuel k n ∧ splitPointAux fuel k n < n := by
  intro fuel
  induction fuel with
  | zero => intro k n h1 h2; simp [splitPointAux, h2]
  | succ f ih =>
    intro k n h1 h2
    simp only [splitPointAux]
    split
    · rename_i h
      have := ih (2 * k) n (by omega) h
      exact ⟨by omega, this.2⟩
    · exact ⟨Nat.le_refl _, h2⟩

theorem splitPoint_bounds (n : Nat) (h : 2 ≤ n) : 1 ≤ splitPoint n ∧ splitPoint n < n :=
  splitPointAux_bounds n 1 n (Nat.le_refl _) (by omega)

theorem simpleHash_two (fuel : Nat) (a b : Bytes) (rest : List Bytes) :
    simpleHash H (fuel + 1) (a :: b :: rest) =
      H (1 :: (simpleHash H fuel ((a :: b :: rest).take (splitPoint (rest.length + 2))) ++
               simpleHash H fuel ((a :: b :: rest).drop (splitPoint (rest.length + 2))))) := by
  simp [simpleHash]

theorem simpleHash_ne_nil (hne : HNonEmpty H) : ∀ fuel items, items ≠ [] → items.length ≤ fuel → simpleHash H fuel items ≠ [] := by
  intro fuel items h1 h2
  match fuel, items with
  | 0, _ :: _ => simp at h2
  | _ + 1, [x] => simp only [simpleHash]; exact hne _
  | f + 1, a :: b :: rest => rw [simpleHash_two]; exact hne _
  | _, [] => exact absurd rfl h1

theorem simpleHash_len (hlen : HLen H) : ∀ fuel items fuel' items', items ≠ [] → items' ≠ [] →
    items.length ≤ fuel → items'.length ≤ fuel' →
    (simpleHash H fuel items).length = (simpleHash H fuel' items').length := by
  intro fuel items fuel' items' h1 h1' h2 h2'
  have key : ∀ f its, its ≠ [] → its.length ≤ f → ∃ x, simpleHash H f its = H x := by
    intro f its g1 g2
    match f, its with
    | 0, _ :: _ => simp at g2
    | _ + 1, [x] => exact ⟨0 :: x, by simp only [simpleHash]⟩
    | f + 1, a :: b :: rest => exact ⟨_, simpleHash_two H f a b rest⟩
    | _, [] => exact absurd rfl g1
  obtain ⟨x, hx⟩ := key fuel items h1 h2
  obtain ⟨y, hy⟩ := key fuel' items' h1' h2'
  rw [hx, hy]; exact hlen x y

/-- **`SimpleHashFromByteSlices` is injective up to hash collisions.** -/
theorem simpleHash_inj (hne : HNonEmpty H) (hlen : HLen H) :
    ∀ n, ∀ items items' : List Bytes, items.length ≤ n → items'.length ≤ n →
    ∀ f f', items.length ≤ f → items'.length ≤ f' →
    simpleHash H f items = simpleHash H f' items' → Collision H ∨ items = items' := by
  intro n
  induction n with
  | zero =>
    intro items items' h1 h2 _ _ _ _ _
    have : items = [] := List.length_eq_zero_iff.mp (by omega)
    have : items' = [] := List.length_eq_zero_iff.mp (by omega)
    simp_all
  | succ n ih =>
    intro items items' h1 h2 f f' g1 g2 he
    match items, items', f, f' with
    | [], [], _, _ => exact Or.inr rfl
    | [], y :: ys, f, f' =>
      have : simpleHash H f' (y :: ys) ≠ [] := simpleHash_ne_nil H hne f' _ (by simp) g2
      have e0 : simpleHash H f ([] : List Bytes) = [] := by cases f <;> simp [simpleHash]
      rw [e0] at he; exact absurd he.symm this
    | x :: xs, [], f, f' =>
      have : simpleHash H f (x :: xs) ≠ [] := simpleHash_ne_nil H hne f _ (by simp) g1
      have e0 : simpleHash H f' ([] : List Bytes) = [] := by cases f' <;> simp [simpleHash]
      rw [e0] at he; exact absurd he this
    | [_], _ :: _, 0, _ => simp at g1
    | _ :: _, [_], _, 0 => simp at g2
    | _ :: _ :: _, _, 0, _ => simp at g1
    | _, _ :: _ :: _, _, 0 => simp at g2
    | [x], [y], f + 1, f' + 1 =>
      simp only [simpleHash] at he
      rcases H_inj_or_collision H he with e | c
      · simp at e; subst e; exact Or.inr rfl
      · exact Or.inl c
    | [x], a :: b :: rest, f + 1, f' + 1 =>
      rw [simpleHash_two] at he
      simp only [simpleHash] at he
      rcases H_inj_or_collision H he with e | c
      · simp at e
      · exact Or.inl c
    | a :: b :: rest, [y], f + 1, f' + 1 =>
      rw [simpleHash_two] at he
      simp only [simpleHash] at he
      rcases H_inj_or_collision H he with e | c
      · simp at e
      · exact Or.inl c
    | a :: b :: rest, a' :: b' :: rest', f + 1, f' + 1 =>
      rw [simpleHash_two, simpleHash_two] at he
      rcases H_inj_or_collision H he with e | c
      · simp only [List.cons.injEq, true_and] at e
        obtain ⟨k1, k2⟩ := splitPoint_bounds (rest.length + 2) (by omega)
        obtain ⟨k1', k2'⟩ := splitPoint_bounds (rest'.length + 2) (by omega)
        generalize hk : splitPoint (rest.length + 2) = k at *
        generalize hk' : splitPoint (rest'.length + 2) = k' at *
        simp only [List.length_cons] at h1 h2 g1 g2
        have hl1 : ((a :: b :: rest).take k).length = k := by simp [List.length_take]; omega
        have hl1' : ((a' :: b' :: rest').take k').length = k' := by simp [List.length_take]; omega
        have hl2 : ((a :: b :: rest).drop k).length = rest.length + 2 - k := by simp [List.length_drop]
        have hl2' : ((a' :: b' :: rest').drop k').length = rest'.length + 2 - k' := by simp [List.length_drop]
        have hlenL := simpleHash_len H hlen f ((a :: b :: rest).take k) f' ((a' :: b' :: rest').take k')
          (by intro h; rw [h] at hl1; simp at hl1; omega) (by intro h; rw [h] at hl1'; simp at hl1'; omega)
          (by omega) (by omega)
        obtain ⟨eL, eR⟩ := List.append_inj e hlenL
        rcases ih _ _ (by omega) (by omega) f f' (by omega) (by omega) eL with c | tL
        · exact Or.inl c
        · rcases ih _ _ (by omega) (by omega) f f' (by omega) (by omega) eR with c | tR
          · exact Or.inl c
          · right
            rw [← List.take_append_drop k (a :: b :: rest), ← List.take_append_drop k' (a' :: b' :: rest'), tL, tR]
      · exact Or.inl c
end
section
variable (H : Bytes → Bytes) (encKV : Bytes → Bytes → Bytes)

theorem mem_mapInsert {k v : Bytes} {m : List (Bytes × Bytes)} {p : Bytes × Bytes}
    (h : p ∈ mapInsert k v m) : p = (k, v) ∨ p ∈ m := by
  induction m with
  | nil => simp [mapInsert] at h; exact Or.inl h
  | cons q r ih =>
    obtain ⟨k', v'⟩ := q
    simp only [mapInsert] at h
    split at h
    · simp at h; rcases h with h | h | h <;> simp [h]
    · split at h
      · simp at h; rcases h with h | h <;> simp [h]
      · simp at h; rcases h with h | h
        · simp [h]
        · rcases ih h with h | h <;> simp [h]

theorem mapInsert_self (k v : Bytes) (m : List (Bytes × Bytes)) : (k, v) ∈ mapInsert k v m := by
  induction m with
  | nil => simp [mapInsert]
  | cons q r ih =>
    obtain ⟨k', v'⟩ := q
    simp only [mapInsert]
    split
    · simp
    · split <;> simp [ih]

theorem mapInsert_other {k v : Bytes} {m : List (Bytes × Bytes)} {p : Bytes × Bytes}
    (h : p ∈ m) (hk : p.1 ≠ k) : p ∈ mapInsert k v m := by
  induction m with
  | nil => simp at h
  | cons q r ih =>
    obtain ⟨k', v'⟩ := q
    simp only [mapInsert]
    simp only [List.mem_cons] at h
    split
    · rcases h with h | h <;> simp [h]
    · split
      · rename_i _ he
        rcases h with h | h
        · subst h; exact absurd he.symm hk
        · simp [h]
      · rcases h with h | h
        · simp [h]
        · simp [ih h]

theorem mem_foldl_insert (infos : List StoreInfo) : ∀ (acc : List (Bytes × Bytes)) (p : Bytes × Bytes),
    p ∈ infos.foldl (fun m si => mapInsert si.name (H si.hash) m) acc →
    p ∈ acc ∨ ∃ si ∈ infos, p = (si.name, H si.hash) := by
  induction infos with
  | nil => intro acc p h; exact Or.inl h
  | cons x xs ih =>
    intro acc p h
    simp only [List.foldl_cons] at h
    rcases ih _ p h with h | ⟨si, hs, e⟩
    · rcases mem_mapInsert h with h | h
      · exact Or.inr ⟨x, by simp, h⟩
      · exact Or.inl h
    · exact Or.inr ⟨si, by simp [hs], e⟩

theorem foldl_insert_keep (infos : List StoreInfo) : ∀ (acc : List (Bytes × Bytes)) (p : Bytes × Bytes),
    p ∈ acc → (∀ y ∈ infos, y.name ≠ p.1) →
    p ∈ infos.foldl (fun m si => mapInsert si.name (H si.hash) m) acc := by
  induction infos with
  | nil => intro acc p h _; exact h
  | cons x xs ih =>
    intro acc p h hn
    simp only [List.foldl_cons]
    exact ih _ p (mapInsert_other h (fun e => hn x (by simp) e.symm)) (fun y hy => hn y (by simp [hy]))

theorem mem_foldl_of_nodup (infos : List StoreInfo) (hnd : (infos.map (·.name)).Nodup) :
    ∀ (acc : List (Bytes × Bytes)) (si : StoreInfo), si ∈ infos →
    (si.name, H si.hash) ∈ infos.foldl (fun m si => mapInsert si.name (H si.hash) m) acc := by
  induction infos with
  | nil => intro acc si h; simp at h
  | cons x xs ih =>
    intro acc si h
    simp only [List.map_cons, List.nodup_cons] at hnd
    simp only [List.foldl_cons]
    simp only [List.mem_cons] at h
    rcases h with rfl | h
    · apply foldl_insert_keep H xs _ _ (mapInsert_self _ _ _)
      intro y hy e
      exact hnd.1 (by simp only [List.mem_map]; exact ⟨y, hy, e⟩)
    · exact ih hnd.2 _ si h

/-- equal `CommitInfo` hashes mean equal name ↦ hash maps, up to collisions -/
theorem commitHash_inj (hne : HNonEmpty H) (hlen : HLen H) (hkv : KVInj encKV) (a b : List StoreInfo)
    (h : commitHash H encKV a = commitHash H encKV b) : Collision H ∨ infosMap H a = infosMap H b := by
  simp only [commitHash] at h
  rcases simpleHash_inj H hne hlen _ _ _ (Nat.le_max_left _ _) (Nat.le_max_right _ _) _ _ (Nat.le_refl _) (Nat.le_refl _) h with c | e
  · exact Or.inl c
  · generalize infosMap H a = ma at e
    generalize infosMap H b = mb at e
    induction ma generalizing mb with
    | nil => cases mb with
      | nil => exact Or.inr rfl
      | cons _ _ => simp at e
    | cons p ps ih => cases mb with
      | nil => simp at e
      | cons q qs =>
        simp only [List.map_cons, List.cons.injEq] at e
        obtain ⟨e1, e2⟩ := e
        obtain ⟨k1, k2⟩ := hkv _ _ _ _ e1
        rcases H_inj_or_collision H k2 with e3 | c
        · rcases ih qs e2 with c | e4
          · exact Or.inl c
          · right; rw [e4]; congr 1; exact Prod.ext k1 e3
        · exact Or.inl c

/-- **multistore_sound**: when the proof names every store at most once (or the repaired code rejects
duplicates), an accepted multistore op for `(name, value)` against the hash of the committed
`StoreInfo`s means the commit holds `value` as the root of store `name` — or a collision. -/
theorem multistore_sound' (hne : HNonEmpty H) (hlen : HLen H) (hkv : KVInj encKV) (fx : Fixes)
    (proofInfos real : List StoreInfo) (name value : Bytes)
    (hnd : fx.dupNames = true ∨ (proofInfos.map (·.name)).Nodup)
    (h : multiStoreRun H encKV fx proofInfos name [value] = .ok [commitHash H encKV real]) :
    (∃ si ∈ real, si.name = name ∧ si.hash = value) ∨ Collision H := by
  simp only [multiStoreRun] at h
  split at h
  · simp at h
  · rename_i hdup
    have hnd' : (proofInfos.map (·.name)).Nodup := by
      rcases hnd with hfx | hnd
      · exact Classical.byContradiction (fun hc => hdup ⟨hfx, hc⟩)
      · exact hnd
    split at h
    · rename_i si hfind
      split at h
      · rename_i hv
        injection h with h
        simp only [List.cons.injEq, and_true] at h
        have hmem := List.mem_of_find?_eq_some hfind
        have hname : si.name = name := by simpa using List.find?_some hfind
        rcases commitHash_inj H encKV hne hlen hkv _ _ h with c | e
        · exact Or.inr c
        · have h1 := mem_foldl_of_nodup H proofInfos hnd' [] si hmem
          have h1' : (si.name, H si.hash) ∈ infosMap H proofInfos := h1
          rw [e] at h1'
          rcases mem_foldl_insert H real [] _ h1' with h2 | ⟨sr, hsr, e2⟩
          · simp at h2
          · simp only [Prod.mk.injEq] at e2
            rcases H_inj_or_collision H e2.2 with e3 | c
            · exact Or.inl ⟨sr, hsr, by rw [← e2.1, hname], by rw [← e3, hv]⟩
            · exact Or.inr c
      · simp at h
    · simp at h

/-- **multistore_dup_forges** (code as it is): with the store named twice, `Run` checks the first
`StoreInfo` while the root hash keeps the last: any value is "proved" under the honest root. -/
theorem multistore_dup_forges' (name real forged : Bytes) (ver : Int) :
    multiStoreRun H encKV Fixes.none [⟨name, ver, forged⟩, ⟨name, ver, real⟩] name [forged]
      = .ok [commitHash H encKV [⟨name, ver, real⟩]] := by
  simp [multiStoreRun, Fixes.none, commitHash, infosMap, mapInsert, Bytes.lt_irrefl]

def ka : Bytes := [0x61]
def kb : Bytes := [0x62]
def kc : Bytes := [0x63]
def kd : Bytes := [0x64]

/-- two leaves `a`, `b` -/
def t2 (va vb : Bytes) : Tree := .inner 1 2 1 kb (.leaf ka va 1) (.leaf kb vb 1)

theorem wf_t2 (va vb : Bytes) : WF (t2 va vb) := by
  refine WF.inner _ _ _ _ _ _ (by decide) (WF.leaf _ _ _) (WF.leaf _ _ _) ?_ ?_
  · intro e he; simp [Tree.leaves] at he; subst he; show ka < kb; decide
  · intro e he; simp [Tree.leaves] at he; subst he; show kb ≤ kb; decide

/-- **Existence forgery on the code as it is** (both child hashes set): for every hash function with
non-empty outputs, the two-leaf tree `{a, b}` admits an accepted existence proof for the key `c`,
which it does not store. -/
theorem value_forged_bothset (hne : HNonEmpty H) (va vb vf : Bytes) :
    valueOpRun H enc Fixes.none
      (some ⟨[⟨1, 2, 1, Tree.hash H enc (.leaf ka va 1), PLeaf.hash H enc ⟨kc, H vf, 1⟩⟩], [[]],
             [⟨kb, H vb, 1⟩, ⟨kc, H vf, 1⟩]⟩) kc [vf]
      = .ok [Tree.hash H enc (t2 va vb)] ∧ (∀ e ∈ (t2 va vb).leaves, e.1 ≠ kc) := by
  have h1 : ∀ x, (H x = []) = False := fun x => eq_false (hne x)
  have c1 : ¬ (kc ≤ kb) := by decide
  have c2 : kc ≤ kc := by decide
  constructor
  · simp [valueOpRun, computeRootHash, Fixes.none, computeHash, pathLoop, pathLeafHash, pathHash, PIN.hash,
      PLeaf.hash, Tree.hash, h1, isRightmost, verifyItem, searchLeaves, c1, c2, t2]
  · intro e he; simp [t2, Tree.leaves] at he; rcases he with rfl | rfl
    · show ka ≠ kc; decide
    · show kb ≠ kc; decide

/-- three leaves `a`, `b` | `c` -/
def t3 (va vb vc : Bytes) : Tree := .inner 2 3 1 kc (.inner 1 2 1 kb (.leaf ka va 1) (.leaf kb vb 1)) (.leaf kc vc 1)

/-- **Absence forgery on the code as it is** (both child hashes set): the stored key `c` is "proved"
absent from `{a, b, c}` with a forged leaf `d`. -/
theorem absence_forged_bothset (hne : HNonEmpty H) (va vb vc vf : Bytes) :
    absenceOpRun H enc Fixes.none
      (some ⟨[⟨2, 3, 1, [], Tree.hash H enc (.leaf kc vc 1)⟩,
              ⟨1, 2, 1, Tree.hash H enc (.leaf ka va 1), PLeaf.hash H enc ⟨kd, H vf, 1⟩⟩], [[]],
             [⟨kb, H vb, 1⟩, ⟨kd, H vf, 1⟩]⟩) kc []
      = .ok [Tree.hash H enc (t3 va vb vc)] ∧ (kc, vc, 1) ∈ (t3 va vb vc).leaves := by
  have h1 : ∀ x, (H x = []) = False := fun x => eq_false (hne x)
  have c1 : ¬ (kc < kb) := by decide
  have c2 : kc ≠ kb := by decide
  have c3 : kc < kd := by decide
  constructor
  · simp [absenceOpRun, computeRootHash, Fixes.none, computeHash, pathLoop, pathLeafHash, pathHash, PIN.hash,
      PLeaf.hash, Tree.hash, h1, isRightmost, verifyAbsence, absenceLoop, c1, c2, c3, t3]
  · simp [t3, Tree.leaves]

/-- three leaves `a` | `b`, `c` -/
def t4 (va vb vc : Bytes) : Tree := .inner 2 3 1 kb (.leaf ka va 1) (.inner 1 2 1 kc (.leaf kb vb 1) (.leaf kc vc 1))

/-- **Absence forgery on the code as it is** (inner path not leftmost): leaves `a` and `c` with the
path of `c` turning right inside the sibling subtree skip the stored key `b`. -/
theorem absence_forged_not_leftmost (hne : HNonEmpty H) (va vb vc : Bytes) :
    absenceOpRun H enc Fixes.none
      (some ⟨[⟨2, 3, 1, [], Tree.hash H enc (.inner 1 2 1 kc (.leaf kb vb 1) (.leaf kc vc 1))⟩],
             [[⟨1, 2, 1, Tree.hash H enc (.leaf kb vb 1), []⟩]],
             [⟨ka, H va, 1⟩, ⟨kc, H vc, 1⟩]⟩) kb []
      = .ok [Tree.hash H enc (t4 va vb vc)] ∧ (kb, vb, 1) ∈ (t4 va vb vc).leaves := by
  have h1 : ∀ x, (H x = []) = False := fun x => eq_false (hne x)
  have c1 : ¬ (kb < ka) := by decide
  have c2 : kb ≠ ka := by decide
  have c3 : kb < kc := by decide
  constructor
  · simp [absenceOpRun, computeRootHash, Fixes.none, computeHash, pathLoop, pathLeafHash, pathHash, PIN.hash,
      PLeaf.hash, Tree.hash, h1, isRightmost, verifyAbsence, absenceLoop, c1, c2, c3, t4]
  · simp [t4, Tree.leaves]

/-- **Existence forgery on the code as it is** (leaf presented as inner node): a one-leaf tree whose
stored value is the hash preimage of a leaf `(c, vf)` yields an accepted existence proof for `c`. -/
theorem value_forged_leaf_as_inner (hne : HNonEmpty H) (vf : Bytes) :
    valueOpRun H enc Fixes.none
      (some ⟨[⟨0, 1, 1, ka, []⟩], [], [⟨kc, H vf, 1⟩]⟩) kc [vf]
      = .ok [Tree.hash H enc (.leaf ka (enc 0 1 1 kc (H vf)) 1)] := by
  have c0 : ka ≠ [] := by decide
  have c2 : kc ≤ kc := by decide
  simp [valueOpRun, computeRootHash, Fixes.none, computeHash, pathLeafHash, pathHash, PIN.hash,
      PLeaf.hash, Tree.hash, c0, verifyItem, searchLeaves, c2]

/-- the strict verifier rejects each of these proofs -/
theorem forgeries_rejected_strict (hne : HNonEmpty H) (fx : Fixes) (hfx : fx.strictNodes = true) (va vb vc vf : Bytes) :
    (∃ e, valueOpRun H enc fx
      (some ⟨[⟨1, 2, 1, Tree.hash H enc (.leaf ka va 1), PLeaf.hash H enc ⟨kc, H vf, 1⟩⟩], [[]],
             [⟨kb, H vb, 1⟩, ⟨kc, H vf, 1⟩]⟩) kc [vf] = .error e) ∧
    (∃ e, absenceOpRun H enc fx
      (some ⟨[⟨2, 3, 1, [], Tree.hash H enc (.inner 1 2 1 kc (.leaf kb vb 1) (.leaf kc vc 1))⟩],
             [[⟨1, 2, 1, Tree.hash H enc (.leaf kb vb 1), []⟩]],
             [⟨ka, H va, 1⟩, ⟨kc, H vc, 1⟩]⟩) kb [] = .error e) ∧
    (∃ e, valueOpRun H enc fx (some ⟨[⟨0, 1, 1, ka, []⟩], [], [⟨kc, H vf, 1⟩]⟩) kc [vf] = .error e) := by
  have h1 : ∀ x, (H x = []) = False := fun x => eq_false (hne x)
  refine ⟨⟨.invalidProof, ?_⟩, ⟨.invalidProof, ?_⟩, ⟨.invalidProof, ?_⟩⟩
  · simp [valueOpRun, computeRootHash, hfx, validPath, Tree.hash, PLeaf.hash, h1]
  · simp [absenceOpRun, computeRootHash, hfx, validPath, Tree.hash, h1]
  · simp [valueOpRun, computeRootHash, hfx, validPath]

/-- **Incompleteness on the code as it is**: `Query(prove=true)` for a key made of 0xFF bytes panics
(`cpIncr` wraps below the key), on any tree and on the empty store. -/
theorem query_panics_ff (t : Option Tree) : queryProof H enc Fixes.none t [0xff] = none := by
  have c : cpIncr [0xff] = [0, 0] := by decide
  have c' : ([0, 0] : Bytes) ≤ [0xff] := by decide
  cases t <;> simp [queryProof, getWithProof, getRangeProof, nextKey, Fixes.none, c, c']

/-- a tree with the prefix-related keys `a`, `ab` -/
def tp (v1 v2 : Bytes) : Tree := .inner 1 2 1 [0x61, 0x62] (.leaf [0x61] v1 1) (.leaf [0x61, 0x62] v2 1)

/-- **Incompleteness on the code as it is**: for the absent key `aa` in `{a, ab}` the prover returns a
one-leaf proof (`cpIncr(a) = b ≥ cpIncr(aa)`), which the verifier rejects. -/
theorem absence_incomplete_asis (hne : HNonEmpty H) (v1 v2 : Bytes) :
    ∃ p, queryProof H enc Fixes.none (some (tp v1 v2)) [0x61, 0x61] = some (none, some p) ∧
      (∃ e, absenceOpRun H enc Fixes.none (some p) [0x61, 0x61] [] = .error e) ∧
      (∀ e ∈ (tp v1 v2).leaves, e.1 ≠ [0x61, 0x61]) := by
  have h1 : ∀ x, (H x = []) = False := fun x => eq_false (hne x)
  have c1 : cpIncr [0x61, 0x61] = [0x61, 0x62] := by decide
  have c2 : cpIncr [0x61] = [0x62] := by decide
  have d1 : ¬ (([0x61, 0x62] : Bytes) ≤ [0x61, 0x61]) := by decide
  have d2 : ([0x61, 0x61] : Bytes) < [0x61, 0x62] := by decide
  have d3 : ([0x61, 0x62] : Bytes) ≤ [0x62] := by decide
  have d4 : ¬ (([0x61, 0x61] : Bytes) ≤ [0x61]) := by decide
  have d5 : ¬ (([0x61, 0x61] : Bytes) < [0x61]) := by decide
  have d6 : ([0x61, 0x61] : Bytes) ≠ [0x61] := by decide
  refine ⟨⟨[⟨1, 2, 1, [], Tree.hash H enc (.leaf [0x61, 0x62] v2 1)⟩], [], [⟨[0x61], H v1, 1⟩]⟩, ?_, ⟨.other, ?_⟩, ?_⟩
  · simp [queryProof, getWithProof, getRangeProof, nextKey, Fixes.none, c1, c2, d1, d2, d3, d4, tp, pathToLeaf]
  · simp [absenceOpRun, computeRootHash, Fixes.none, computeHash, verifyAbsence, d5, d6, isRightmost, Tree.hash, h1, absenceLoop]
  · intro e he; simp [tp, Tree.leaves] at he; rcases he with rfl | rfl
    · show ([0x61] : Bytes) ≠ [0x61, 0x61]; decide
    · show ([0x61, 0x62] : Bytes) ≠ [0x61, 0x61]; decide
end

/-! A concrete injective layout, to show that `EncInj`/`KVInj` are satisfiable. -/

def unary (n : Nat) : Bytes := List.replicate n 1 ++ [0]

theorem unary_inj : ∀ (n m : Nat) (x y : Bytes), unary n ++ x = unary m ++ y → n = m ∧ x = y := by
  intro n
  induction n with
  | zero =>
    intro m x y h
    cases m with
    | zero => simpa [unary] using h
    | succ m => simp [unary, List.replicate_succ] at h
  | succ n ih =>
    intro m x y h
    cases m with
    | zero => simp [unary, List.replicate_succ] at h
    | succ m =>
      simp only [unary, List.replicate_succ, List.cons_append, List.cons.injEq, true_and] at h
      have := ih m x y (by simpa [unary] using h)
      exact ⟨by omega, this.2⟩

def zig (i : Int) : Nat := if 0 ≤ i then 2 * i.toNat else 2 * (-i).toNat - 1

theorem zig_inj (i j : Int) (h : zig i = zig j) : i = j := by
  unfold zig at h
  split at h <;> split at h <;> omega

def encToy (h s v : Int) (a b : Bytes) : Bytes :=
  unary (zig h) ++ (unary (zig s) ++ (unary (zig v) ++ (unary a.length ++ (a ++ b))))

theorem encToy_inj : EncInj encToy := by
  intro h s v a b h' s' v' a' b' e
  unfold encToy at e
  obtain ⟨e1, e⟩ := unary_inj _ _ _ _ e
  obtain ⟨e2, e⟩ := unary_inj _ _ _ _ e
  obtain ⟨e3, e⟩ := unary_inj _ _ _ _ e
  obtain ⟨e4, e⟩ := unary_inj _ _ _ _ e
  obtain ⟨e5, e6⟩ := List.append_inj e e4
  exact ⟨zig_inj _ _ e1, zig_inj _ _ e2, zig_inj _ _ e3, e5, e6⟩

def encKVToy (a b : Bytes) : Bytes := unary a.length ++ (a ++ b)

theorem encKVToy_inj : KVInj encKVToy := by
  intro a b a' b' e
  unfold encKVToy at e
  obtain ⟨e4, e⟩ := unary_inj _ _ _ _ e
  exact List.append_inj e e4

section
variable (H : Bytes → Bytes) (enc : Int → Int → Int → Bytes → Bytes → Bytes) (encKV : Bytes → Bytes → Bytes)

/-- what an accepted two-operator proof (IAVL op, then multistore op) went through -/
theorem verify_two_ops (fx : Fixes) (op1 : Op) (name : Bytes) (infos : List StoreInfo) (root key : Bytes)
    (args : List Bytes) (hk : op1.key = key) (hk0 : key ≠ []) (hn0 : name ≠ [])
    (h : verify H enc encKV fx [op1, .multi name infos] root [name, key] args = some true) :
    ∃ r1, Op.run H enc encKV fx op1 args = .ok r1 ∧ multiStoreRun H encKV fx infos name r1 = .ok [root] := by
  subst hk
  have km : (Op.multi name infos).key = name := rfl
  simp only [verify, verifyOps, km, ne_eq, hk0, hn0, not_false_eq_true, if_true, List.reverse_cons,
    List.reverse_nil, List.nil_append, List.cons_append, not_true_eq_false, if_false] at h
  cases h1 : Op.run H enc encKV fx op1 args with
  | error e => rw [h1] at h; simp at h
  | ok r1 =>
    rw [h1] at h
    simp only [List.reverse_cons, List.reverse_nil, List.nil_append, not_true_eq_false, if_false, Op.run] at h
    refine ⟨r1, rfl, ?_⟩
    cases h2 : multiStoreRun H encKV fx infos name r1 with
    | error e => rw [h2] at h; simp at h
    | ok r2 =>
      rw [h2] at h
      simp only [List.reverse_nil] at h
      cases r2 with
      | nil => simp at h
      | cons a rest =>
        simp only [Option.some.injEq, Bool.and_eq_true, decide_eq_true_eq] at h
        -- the multistore op returns exactly one root
        have : rest = [] := by
          simp only [multiStoreRun] at h2
          split at h2
          · split at h2
            · simp at h2
            · split at h2
              · split at h2
                · injection h2 with h2; simp at h2; exact h2.2
                · simp at h2
              · simp at h2
          · simp at h2
        rw [this, h.1]

/-- **End to end (strict verifier, duplicate names rejected)**: a value proof accepted by
`ProofRuntime.VerifyValue` against the app hash of a commit whose store `name` has the tree `t` states
a pair stored in `t` — or a hash collision. -/
theorem verify_value_sound' (hinj : EncInj enc) (hne : HNonEmpty H) (hlen : HLen H) (hkv : KVInj encKV)
    (fx : Fixes) (hs : fx.strictNodes = true) (hd : fx.dupNames = true)
    (p : Option RangeProof) (infos real : List StoreInfo) (name key value : Bytes) (hk0 : key ≠ []) (hn0 : name ≠ [])
    (t : Tree) (hw : WF t) (hreal : ∀ si ∈ real, si.name = name → si.hash = Tree.hash H enc t)
    (h : verify H enc encKV fx [.value key p, .multi name infos] (commitHash H encKV real) [name, key] [value] = some true) :
    (∃ ver, (key, value, ver) ∈ t.leaves) ∨ Collision H := by
  obtain ⟨r1, h1, h2⟩ := verify_two_ops H enc encKV fx (.value key p) name infos _ key [value] rfl hk0 hn0 h
  simp only [Op.run] at h1
  cases p with
  | none => simp [valueOpRun] at h1
  | some p =>
    -- the value op returns one root
    have hr : ∃ root, r1 = [root] := by
      simp only [valueOpRun] at h1
      split at h1
      · simp at h1
      · split at h1
        · injection h1 with h1; exact ⟨_, h1.symm⟩
        · simp at h1
    obtain ⟨root, rfl⟩ := hr
    rcases multistore_sound' H encKV hne hlen hkv fx infos real name root (Or.inl hd) h2 with ⟨si, hsi, e1, e2⟩ | c
    · have : root = Tree.hash H enc t := by rw [← e2]; exact hreal si hsi e1
      subst this
      exact value_sound' H enc hinj hne fx hs p t hw key value h1
    · exact Or.inr c

/-- the same for absence proofs -/
theorem verify_absence_sound' (hinj : EncInj enc) (hne : HNonEmpty H) (hlen : HLen H) (hkv : KVInj encKV)
    (fx : Fixes) (hs : fx.strictNodes = true) (hd : fx.dupNames = true)
    (p : RangeProof) (infos real : List StoreInfo) (name key : Bytes) (hk0 : key ≠ []) (hn0 : name ≠ [])
    (t : Tree) (hw : WF t) (hreal : ∀ si ∈ real, si.name = name → si.hash = Tree.hash H enc t)
    (h : verify H enc encKV fx [.absence key (some p), .multi name infos] (commitHash H encKV real) [name, key] [] = some true) :
    (∀ e ∈ t.leaves, e.1 ≠ key) ∨ Collision H := by
  obtain ⟨r1, h1, h2⟩ := verify_two_ops H enc encKV fx (.absence key (some p)) name infos _ key [] rfl hk0 hn0 h
  simp only [Op.run] at h1
  have hr : ∃ root, r1 = [root] := by
    simp only [absenceOpRun] at h1
    split at h1
    · simp at h1
    · split at h1
      · injection h1 with h1; exact ⟨_, h1.symm⟩
      · simp at h1
  obtain ⟨root, rfl⟩ := hr
  rcases multistore_sound' H encKV hne hlen hkv fx infos real name root (Or.inl hd) h2 with ⟨si, hsi, e1, e2⟩ | c
  · have : root = Tree.hash H enc t := by rw [← e2]; exact hreal si hsi e1
    subst this
    exact absence_sound' H enc hinj hne fx hs p t hw key h1
  · exact Or.inr c
end
end IavlProof
