import PocketModel.Store.IavlProof
import Proofs.Basic.Bytes
/-! Lemmas for C05: Merkle-path completeness and soundness, multistore hash injectivity. -/
namespace IavlProof

/-- two different byte strings with the same hash -/
def Collision (H : Bytes → Bytes) : Prop := ∃ x y, x ≠ y ∧ H x = H y

/-- the hashed byte layout determines its five fields (true of the amino layout on int8/int64) -/
def EncInj (enc : Int → Int → Int → Bytes → Bytes → Bytes) : Prop :=
  ∀ h s v a b h' s' v' a' b', enc h s v a b = enc h' s' v' a' b' → h = h' ∧ s = s' ∧ v = v' ∧ a = a' ∧ b = b'

/-- hashes are never the empty string (SHA-256: 32 bytes); the code tests `len(hash) == 0` for "absent" -/
def HNonEmpty (H : Bytes → Bytes) : Prop := ∀ x, H x ≠ []

/-- Shape invariant of a committed tree: inner heights positive, keys of the left subtree below the
routing key, keys of the right subtree not below it. -/
inductive WF : Tree → Prop
  | leaf (k v : Bytes) (ver : Int) : WF (.leaf k v ver)
  | inner (h s ver : Int) (nk : Bytes) (l r : Tree) : 0 < h → WF l → WF r →
      (∀ e ∈ l.leaves, e.1 < nk) → (∀ e ∈ r.leaves, nk ≤ e.1) → WF (.inner h s ver nk l r)

section
variable (H : Bytes → Bytes) (enc : Int → Int → Int → Bytes → Bytes → Bytes)

/-- the proof leaf of a tree leaf -/
def pleafOf (e : Bytes × Bytes × Int) : PLeaf := ⟨e.1, H e.2.1, e.2.2⟩

theorem pleafOf_hash (k v : Bytes) (ver : Int) :
    PLeaf.hash H enc (pleafOf H (k, v, ver)) = Tree.hash H enc (.leaf k v ver) := rfl

/-- The path built by `pathToLeaf` hashes, from the leaf it reaches, to the root hash. -/
theorem pathToLeaf_hash (hne : HNonEmpty H) (t : Tree) (key : Bytes) :
    pathLeafHash H enc (pathToLeaf H enc t key).1 (pleafOf H (pathToLeaf H enc t key).2) = Tree.hash H enc t := by
  induction t with
  | leaf k v ver => simp [pathToLeaf, pathLeafHash, pathHash, pleafOf, PLeaf.hash, Tree.hash]
  | inner h s ver nk l r ihl ihr =>
    simp only [pathToLeaf]
    split
    · simp only [pathLeafHash, pathHash, PIN.hash, if_true, Tree.hash]
      simp only [pathLeafHash] at ihl
      rw [ihl]
    · have : Tree.hash H enc l ≠ [] := by
        cases l <;> exact hne _
      simp only [pathLeafHash, pathHash, PIN.hash, if_neg this, Tree.hash]
      simp only [pathLeafHash] at ihr
      rw [ihr]

/-- `pathToLeaf` reaches the leaf that `find` returns. -/
theorem pathToLeaf_find (t : Tree) (key v : Bytes) (h : t.find key = some v) :
    ∃ ver, (pathToLeaf H enc t key).2 = (key, v, ver) := by
  induction t with
  | leaf k v' ver =>
    simp only [Tree.find] at h
    split at h
    · rename_i hk; simp at h; subst hk; subst h; exact ⟨ver, rfl⟩
    · simp at h
  | inner hh s ver nk l r ihl ihr =>
    simp only [Tree.find] at h
    simp only [pathToLeaf]
    split
    · rename_i hlt; rw [if_pos hlt] at h; exact ihl h
    · rename_i hlt; rw [if_neg hlt] at h; exact ihr h


theorem hash_ne_nil (hne : HNonEmpty H) (t : Tree) : Tree.hash H enc t ≠ [] := by
  cases t <;> exact hne _

/-- `PathToLeaf.validate(leftmost)` in logical form -/
def ValidNode (lm : Bool) (n : PIN) : Prop :=
  0 < n.height ∧ ((n.left = [] ∧ n.right ≠ []) ∨ (n.left ≠ [] ∧ n.right = [])) ∧ (lm = true → n.left = [])

theorem validPath_iff (lm : Bool) (p : Path) : validPath lm p = true ↔ ∀ n ∈ p, ValidNode lm n := by
  unfold validPath ValidNode
  rw [List.all_eq_true]
  constructor
  · intro h n hn
    have := h n hn
    simp only [Bool.and_eq_true, decide_eq_true_eq, Bool.or_eq_true, Bool.not_eq_true', bne_iff_ne, ne_eq] at this
    obtain ⟨⟨h1, h2⟩, h3⟩ := this
    refine ⟨h1, ?_, ?_⟩
    · by_cases hl : n.left = [] <;> by_cases hr : n.right = [] <;> simp_all
    · intro hlm; subst hlm; simpa using h3
  · intro h n hn
    obtain ⟨h1, h2, h3⟩ := h n hn
    simp only [Bool.and_eq_true, decide_eq_true_eq, Bool.or_eq_true, Bool.not_eq_true', bne_iff_ne, ne_eq]
    refine ⟨⟨h1, ?_⟩, ?_⟩
    · rcases h2 with ⟨a, b⟩ | ⟨a, b⟩ <;> simp [a, b]
    · cases lm with
      | false => simp
      | true => simp [h3 rfl]

theorem pathToLeaf_valid (hne : HNonEmpty H) (t : Tree) (hw : WF t) (key : Bytes) :
    validPath false (pathToLeaf H enc t key).1 = true := by
  rw [validPath_iff]
  induction hw with
  | leaf k v ver => simp [pathToLeaf]
  | inner h s ver nk l r hh _ _ _ _ ihl ihr =>
    simp only [pathToLeaf]
    split
    · intro n hn
      simp only [List.mem_cons] at hn
      rcases hn with rfl | hn
      · exact ⟨hh, Or.inl ⟨rfl, hash_ne_nil H enc hne r⟩, by simp⟩
      · exact ihl n hn
    · intro n hn
      simp only [List.mem_cons] at hn
      rcases hn with rfl | hn
      · exact ⟨hh, Or.inr ⟨hash_ne_nil H enc hne l, rfl⟩, by simp⟩
      · exact ihr n hn

/-- What the prover returns for a stored key: its value and the one-leaf proof along `pathToLeaf`. -/
theorem queryProof_present (fx : Fixes) (t : Tree) (k v : Bytes) (hf : t.find k = some v) (hk : k < nextKey fx k) :
    ∃ ver, (pathToLeaf H enc t k).2 = (k, v, ver) ∧
      queryProof H enc fx (some t) k = some (some v, some ⟨(pathToLeaf H enc t k).1, [], [⟨k, H v, ver⟩]⟩) := by
  obtain ⟨ver, hver⟩ := pathToLeaf_find H enc t k v hf
  refine ⟨ver, hver, ?_⟩
  have hp : pathToLeaf H enc t k = ((pathToLeaf H enc t k).1, (k, v, ver)) := by rw [← hver]
  have hnk : ¬ nextKey fx k ≤ k := Bytes.not_le.mpr hk
  simp only [queryProof, getWithProof, getRangeProof, if_neg hnk]
  rw [hp]
  simp [Bytes.le_refl, hk]

theorem searchLeaves_single (l : PLeaf) : searchLeaves [l] l.key 1 0 1 = 0 := by
  simp [searchLeaves, Bytes.le_refl]

/-- a one-leaf proof computes the path hash of its leaf -/
theorem computeRootHash_single (fx : Fixes) (path : Path) (l : PLeaf)
    (hv : fx.strictNodes = true → validPath false path = true) :
    computeRootHash H enc fx ⟨path, [], [l]⟩ = .ok (pathLeafHash H enc path l, isRightmost path) := by
  unfold computeRootHash
  have h3 : ¬ (fx.strictNodes = true ∧ ¬ (validPath false path = true ∧ ([] : List Path).all (validPath true) = true)) := by
    intro ⟨h1, h2⟩; exact h2 ⟨hv h1, rfl⟩
  simp only [List.length_nil, List.length_cons, Nat.zero_add, ne_eq, not_true_eq_false, if_false, if_neg h3]
  simp [computeHash]

/-- **Completeness for stored keys.** -/
theorem value_complete' (fx : Fixes) (hne : HNonEmpty H) (t : Tree) (hw : WF t) (k v : Bytes)
    (hf : t.find k = some v) (hk : k < nextKey fx k) :
    ∃ p, queryProof H enc fx (some t) k = some (some v, some p) ∧
      valueOpRun H enc fx (some p) k [v] = .ok [Tree.hash H enc t] := by
  obtain ⟨ver, hver, hq⟩ := queryProof_present H enc fx t k v hf hk
  refine ⟨_, hq, ?_⟩
  have hroot := pathToLeaf_hash H enc hne t k
  rw [hver] at hroot
  have hval := pathToLeaf_valid H enc hne t hw k
  simp only [valueOpRun]
  rw [computeRootHash_single H enc fx _ _ (fun _ => hval)]
  simp only [verifyItem, List.length_cons, List.length_nil, Nat.zero_add]
  have := searchLeaves_single (⟨k, H v, ver⟩ : PLeaf)
  simp only at this
  rw [this]
  simp [pleafOf] at hroot
  simp [hroot]
end
end IavlProof
