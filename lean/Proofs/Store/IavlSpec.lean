import PocketModel.Store.IavlSpec
import Proofs.Basic.Bytes
/-! Lemmas about the sorted-association-list map model `Iavl.KVs`. -/
namespace Iavl.KVs

theorem filter_eq_nil_of {α} {p : α → Bool} {l : List α} (h : ∀ x ∈ l, p x = false) : l.filter p = [] := by
  apply List.filter_eq_nil_iff.mpr
  intro x hx; simp [h x hx]

theorem filter_eq_self_of {α} {p : α → Bool} {l : List α} (h : ∀ x ∈ l, p x = true) : l.filter p = l :=
  List.filter_eq_self.mpr h

/-! ### insert -/

theorem insert_append_left (k v : Bytes) (a b : KVs) (h : ∀ p ∈ b, k < p.1) :
    insert k v (a ++ b) = insert k v a ++ b := by
  unfold insert
  have h1 : b.filter (fun p => decide (p.1 < k)) = [] :=
    filter_eq_nil_of (fun p hp => by simpa using Bytes.lt_asymm (h p hp))
  have h2 : b.filter (fun p => decide (k < p.1)) = b :=
    filter_eq_self_of (fun p hp => by simpa using h p hp)
  simp [List.filter_append, h1, h2]

theorem insert_append_right (k v : Bytes) (a b : KVs) (h : ∀ p ∈ a, p.1 < k) :
    insert k v (a ++ b) = a ++ insert k v b := by
  unfold insert
  have h1 : a.filter (fun p => decide (p.1 < k)) = a :=
    filter_eq_self_of (fun p hp => by simpa using h p hp)
  have h2 : a.filter (fun p => decide (k < p.1)) = [] :=
    filter_eq_nil_of (fun p hp => by simpa using Bytes.lt_asymm (h p hp))
  simp [List.filter_append, h1, h2]

theorem mem_insert {k v : Bytes} {m : KVs} {p : Bytes × Bytes} :
    p ∈ insert k v m ↔ (p ∈ m ∧ p.1 < k) ∨ p = (k, v) ∨ (p ∈ m ∧ k < p.1) := by
  unfold insert
  simp [List.mem_append, List.mem_filter]

theorem mem_insert_imp {k v : Bytes} {m : KVs} {p : Bytes × Bytes} (h : p ∈ insert k v m) :
    p ∈ m ∨ p = (k, v) := by
  rcases mem_insert.mp h with h | h | h
  · exact Or.inl h.1
  · exact Or.inr h
  · exact Or.inl h.1

theorem sorted_cons {p : Bytes × Bytes} {m : KVs} :
    Sorted (p :: m) ↔ (∀ q ∈ m, p.1 < q.1) ∧ Sorted m := List.pairwise_cons

theorem sorted_append {a b : KVs} :
    Sorted (a ++ b) ↔ Sorted a ∧ Sorted b ∧ ∀ p ∈ a, ∀ q ∈ b, p.1 < q.1 := List.pairwise_append

theorem Sorted.filter {m : KVs} (h : Sorted m) (f : Bytes × Bytes → Bool) : Sorted (m.filter f) :=
  List.Pairwise.sublist List.filter_sublist h

theorem insert_sorted {k v : Bytes} {m : KVs} (h : Sorted m) : Sorted (insert k v m) := by
  unfold insert
  refine sorted_append.mpr ⟨h.filter _, ?_, ?_⟩
  · refine sorted_cons.mpr ⟨?_, h.filter _⟩
    intro q hq
    simpa using (List.mem_filter.mp hq).2
  · intro p hp q hq
    have hp' : p.1 < k := by simpa using (List.mem_filter.mp hp).2
    rcases List.mem_cons.mp hq with rfl | hq
    · exact hp'
    · have : k < q.1 := by simpa using (List.mem_filter.mp hq).2
      exact Bytes.lt_trans hp' this

/-- On a sorted list whose first key is `≤ k`, insertion keeps the first key. -/
theorem insert_head {k v k0 v0 : Bytes} {rest : KVs} (hs : Sorted ((k0, v0) :: rest)) (hle : k0 ≤ k) :
    ∃ v' rest', insert k v ((k0, v0) :: rest) = (k0, v') :: rest' := by
  rcases (Bytes.le_iff k0 k).mp hle with hlt | heq
  · refine ⟨v0, rest.filter (fun p => decide (p.1 < k)) ++ (k, v) :: ((k0, v0) :: rest).filter (fun p => decide (k < p.1)), ?_⟩
    unfold insert
    simp [List.filter_cons, hlt]
  · subst heq
    have hrest : rest.filter (fun p => decide (p.1 < k0)) = [] :=
      filter_eq_nil_of (fun p hp => by
        have := (sorted_cons.mp hs).1 p hp
        simpa using Bytes.lt_asymm this)
    refine ⟨v, ((k0, v0) :: rest).filter (fun p => decide (k0 < p.1)), ?_⟩
    unfold insert
    simp [Bytes.lt_irrefl, hrest]

theorem insert_eq_insertRec (k v : Bytes) (m : KVs) (hs : Sorted m) : insert k v m = insertRec k v m := by
  induction m with
  | nil => simp [insert, insertRec]
  | cons p rest ih =>
    obtain ⟨k', v'⟩ := p
    have ⟨hp, hrest⟩ := sorted_cons.mp hs
    simp only [insertRec]
    by_cases h1 : k < k'
    · rw [if_pos h1]
      have : insert k v ([] ++ (k', v') :: rest) = insert k v [] ++ (k', v') :: rest := by
        apply insert_append_left
        intro p hp'
        rcases List.mem_cons.mp hp' with rfl | hp'
        · exact h1
        · exact Bytes.lt_trans h1 (hp p hp')
      simpa [insert] using this
    · rw [if_neg h1]
      by_cases h2 : k = k'
      · subst h2
        rw [if_pos rfl]
        have hlt : rest.filter (fun p => decide (p.1 < k)) = [] :=
          filter_eq_nil_of (fun p hp' => by simpa using Bytes.lt_asymm (hp p hp'))
        have hgt : rest.filter (fun p => decide (k < p.1)) = rest :=
          filter_eq_self_of (fun p hp' => by simpa using hp p hp')
        simp [insert, Bytes.lt_irrefl, hlt, hgt]
      · rw [if_neg h2]
        have h3 : k' < k := by
          rcases Bytes.lt_tri k k' with h | h | h
          · exact absurd h h1
          · exact absurd h h2
          · exact h
        have : insert k v ([(k', v')] ++ rest) = [(k', v')] ++ insert k v rest := by
          apply insert_append_right
          intro p hp'
          simp at hp'; subst hp'; exact h3
        rw [← ih hrest]
        simpa using this

/-! ### erase -/

theorem erase_append (k : Bytes) (a b : KVs) : erase k (a ++ b) = erase k a ++ erase k b := by
  simp [erase, List.filter_append]

theorem erase_of_absent {k : Bytes} {m : KVs} (h : ∀ p ∈ m, p.1 ≠ k) : erase k m = m := by
  unfold erase
  exact filter_eq_self_of (fun p hp => by simpa using h p hp)

theorem mem_erase {k : Bytes} {m : KVs} {p : Bytes × Bytes} : p ∈ erase k m ↔ p ∈ m ∧ p.1 ≠ k := by
  simp [erase, List.mem_filter]

theorem erase_sorted {k : Bytes} {m : KVs} (h : Sorted m) : Sorted (erase k m) := h.filter _

/-! ### lookup / contains / rank -/

theorem lookup_append (k : Bytes) (a b : KVs) : lookup k (a ++ b) = (lookup k a).or (lookup k b) := by
  unfold lookup
  rw [List.find?_append]
  cases List.find? (fun p => p.1 == k) a <;> simp

theorem lookup_eq_none_of_absent {k : Bytes} {m : KVs} (h : ∀ p ∈ m, p.1 ≠ k) : lookup k m = none := by
  unfold lookup
  have : m.find? (fun p => p.1 == k) = none := by
    apply List.find?_eq_none.mpr
    intro p hp; simpa using h p hp
  simp [this]

theorem contains_append (k : Bytes) (a b : KVs) : contains k (a ++ b) = (contains k a || contains k b) := by
  simp [contains, List.any_append]

theorem contains_eq_false_of_absent {k : Bytes} {m : KVs} (h : ∀ p ∈ m, p.1 ≠ k) : contains k m = false := by
  unfold contains
  apply List.any_eq_false.mpr
  intro p hp; simpa using h p hp

theorem contains_iff {k : Bytes} {m : KVs} : contains k m = true ↔ ∃ v, (k, v) ∈ m := by
  unfold contains
  simp only [List.any_eq_true, beq_iff_eq]
  constructor
  · rintro ⟨⟨a, b⟩, hp, rfl⟩; exact ⟨b, hp⟩
  · rintro ⟨v, hv⟩; exact ⟨(k, v), hv, rfl⟩

theorem contains_eq_lookup_isSome (k : Bytes) (m : KVs) : contains k m = (lookup k m).isSome := by
  unfold contains lookup
  induction m with
  | nil => simp
  | cons p rest ih =>
    simp only [List.any_cons, List.find?_cons]
    by_cases h : (p.1 == k) = true
    · simp [h]
    · simp only [Bool.not_eq_true] at h
      simp [h, ih]

theorem rank_append (k : Bytes) (a b : KVs) : rank k (a ++ b) = rank k a + rank k b := by
  simp [rank, List.countP_append]

theorem rank_eq_zero_of {k : Bytes} {m : KVs} (h : ∀ p ∈ m, ¬ p.1 < k) : rank k m = 0 := by
  unfold rank
  apply List.countP_eq_zero.mpr
  intro p hp; simpa using h p hp

theorem rank_eq_length_of {k : Bytes} {m : KVs} (h : ∀ p ∈ m, p.1 < k) : rank k m = m.length := by
  unfold rank
  apply List.countP_eq_length.mpr
  intro p hp; simpa using h p hp

/-! ### range -/

theorem range_append_asc (s e : Option Bytes) (incl : Bool) (a b : KVs) :
    range s e true incl (a ++ b) = range s e true incl a ++ range s e true incl b := by
  simp [range, List.filter_append]

theorem range_append_desc (s e : Option Bytes) (incl : Bool) (a b : KVs) :
    range s e false incl (a ++ b) = range s e false incl b ++ range s e false incl a := by
  simp [range, List.filter_append, List.reverse_append]

theorem range_eq_nil_of {s e : Option Bytes} {asc incl : Bool} {m : KVs}
    (h : ∀ p ∈ m, inRange s e incl p.1 = false) : range s e asc incl m = [] := by
  unfold range
  have : m.filter (fun p => inRange s e incl p.1) = [] := filter_eq_nil_of h
  cases asc <;> simp [this]

end Iavl.KVs
