import Proofs.Store.IavlSpec
/-!
# IAVL: order invariant and the abstraction function

`Ord t`: search-tree order with every inner key equal to the least key of its right subtree.
Rotations and `balance` preserve `toList` and `Ord` unconditionally; `recursiveSet` is `insert`
and `recursiveRemove` is `erase` on `toList`.
-/
namespace Iavl.Node
open Iavl.KVs

/-- Order invariant used in the proofs (`Proofs.Store.IavlInv`: equivalent to `BST ∧ KeyOK`). -/
def Ord : Node → Prop
  | leaf .. => True
  | inner k _ _ l r _ => Ord l ∧ Ord r ∧ (∀ p ∈ toList l, p.1 < k) ∧ k = minKey r

/-! ### toList, minKey -/

theorem toList_head (t : Node) : ∃ v rest, toList t = (minKey t, v) :: rest := by
  induction t with
  | leaf k v ver => exact ⟨v, [], rfl⟩
  | inner k h s l r ver ihl _ =>
    obtain ⟨v, rest, hl⟩ := ihl
    exact ⟨v, rest ++ toList r, by simp [toList, minKey, hl]⟩

theorem toList_ne_nil (t : Node) : toList t ≠ [] := by
  obtain ⟨v, rest, h⟩ := toList_head t
  simp [h]

theorem minKey_mem (t : Node) : ∃ v, (minKey t, v) ∈ toList t := by
  obtain ⟨v, rest, h⟩ := toList_head t
  exact ⟨v, by simp [h]⟩

theorem minKey_of_toList {t : Node} {a b : Bytes} {rest : KVs} (h : toList t = (a, b) :: rest) :
    minKey t = a := by
  obtain ⟨v, rest', h'⟩ := toList_head t
  rw [h'] at h
  injection h with h1 _
  exact (Prod.mk.inj h1).1

theorem minKey_eq_of_toList_eq {t t' : Node} (h : toList t = toList t') : minKey t = minKey t' := by
  obtain ⟨v, rest, h'⟩ := toList_head t'
  exact minKey_of_toList (h.trans h')

theorem Ord.min_le {t : Node} (h : Ord t) : ∀ p ∈ toList t, minKey t ≤ p.1 := by
  induction t with
  | leaf k v ver =>
    intro p hp
    simp [toList] at hp
    subst hp
    exact Bytes.le_refl _
  | inner k hh s l r ver ihl ihr =>
    obtain ⟨hl, hr, hlk, hk⟩ := h
    intro p hp
    simp only [toList, List.mem_append] at hp
    simp only [minKey]
    rcases hp with hp | hp
    · exact ihl hl p hp
    · obtain ⟨v, hv⟩ := minKey_mem l
      have h1 : minKey l < k := hlk _ hv
      have h2 : k ≤ p.1 := hk ▸ ihr hr p hp
      exact Bytes.le_of_lt (Bytes.lt_of_lt_of_le h1 h2)

theorem Ord.right_ge {k : Bytes} {h s : Nat} {l r : Node} {ver : Nat} (ho : Ord (inner k h s l r ver)) :
    ∀ p ∈ toList r, k ≤ p.1 := by
  obtain ⟨_, hr, _, hk⟩ := ho
  intro p hp
  exact hk ▸ hr.min_le p hp

theorem Ord.left_lt {k : Bytes} {h s : Nat} {l r : Node} {ver : Nat} (ho : Ord (inner k h s l r ver)) :
    ∀ p ∈ toList l, p.1 < k := ho.2.2.1

theorem Ord.sorted {t : Node} (h : Ord t) : Sorted (toList t) := by
  induction t with
  | leaf k v ver => simp [toList, Sorted]
  | inner k hh s l r ver ihl ihr =>
    have hge := h.right_ge
    obtain ⟨hl, hr, hlk, _⟩ := h
    simp only [toList]
    refine sorted_append.mpr ⟨ihl hl, ihr hr, ?_⟩
    intro p hp q hq
    exact Bytes.lt_of_lt_of_le (hlk p hp) (hge q hq)

/-! ### calcHeightAndSize, rotations, balance: `toList` and `Ord` -/

@[simp] theorem toList_calcHS (t : Node) : toList (calcHeightAndSize t) = toList t := by
  cases t <;> rfl

@[simp] theorem minKey_calcHS (t : Node) : minKey (calcHeightAndSize t) = minKey t := by
  cases t <;> rfl

theorem Ord_calcHS {t : Node} : Ord (calcHeightAndSize t) ↔ Ord t := by
  cases t <;> simp [calcHeightAndSize, Ord]

@[simp] theorem toList_rotateRight (v : Nat) (t : Node) : toList (rotateRight v t) = toList t := by
  unfold rotateRight
  split
  · simp [toList, calcHeightAndSize]
  · rfl

@[simp] theorem toList_rotateLeft (v : Nat) (t : Node) : toList (rotateLeft v t) = toList t := by
  unfold rotateLeft
  split
  · simp [toList, calcHeightAndSize]
  · rfl

theorem Ord_rotateRight (v : Nat) {t : Node} (h : Ord t) : Ord (rotateRight v t) := by
  unfold rotateRight
  split
  · rename_i k hh s lk lh ls ll lr lver r ver
    obtain ⟨⟨hll, hlr, hllk, hlk⟩, hr, hlt, hk⟩ := h
    simp only [calcHeightAndSize, Ord, minKey]
    refine ⟨hll, ⟨hlr, hr, ?_, hk⟩, hllk, hlk⟩
    intro p hp
    exact hlt p (by simp [toList, hp])
  · exact h

theorem Ord_rotateLeft (v : Nat) {t : Node} (h : Ord t) : Ord (rotateLeft v t) := by
  unfold rotateLeft
  split
  · rename_i k hh s l rk rh rs rl rr rver ver
    obtain ⟨hl, ⟨hrl, hrr, hrlk, hrk⟩, hlt, hk⟩ := h
    simp only [minKey] at hk
    simp only [calcHeightAndSize, Ord]
    refine ⟨⟨hl, hrl, hlt, hk⟩, hrr, ?_, hrk⟩
    intro p hp
    simp only [toList, List.mem_append] at hp
    rcases hp with hp | hp
    · obtain ⟨w, hw⟩ := minKey_mem rl
      exact Bytes.lt_trans (hk ▸ hlt p hp) (hrlk _ hw)
    · exact hrlk p hp
  · exact h

/-- Replacing a child by one with the same `toList` (and `Ord`) keeps `Ord`. -/
theorem Ord_congr_left {k : Bytes} {h s h' s' : Nat} {l l' r : Node} {ver ver' : Nat}
    (ho : Ord (inner k h s l r ver)) (hl' : Ord l') (he : toList l' = toList l) :
    Ord (inner k h' s' l' r ver') := by
  obtain ⟨_, hr, hlt, hk⟩ := ho
  exact ⟨hl', hr, he ▸ hlt, hk⟩

theorem Ord_congr_right {k : Bytes} {h s h' s' : Nat} {l r r' : Node} {ver ver' : Nat}
    (ho : Ord (inner k h s l r ver)) (hr' : Ord r') (he : toList r' = toList r) :
    Ord (inner k h' s' l r' ver') := by
  obtain ⟨hl, _, hlt, hk⟩ := ho
  exact ⟨hl, hr', hlt, hk.trans (minKey_eq_of_toList_eq he).symm⟩

@[simp] theorem toList_balance (v : Nat) (t : Node) : toList (balance v t) = toList t := by
  unfold balance
  split
  · simp only
    split
    · split <;> simp [toList]
    · split
      · split <;> simp [toList]
      · rfl
  · rfl

theorem Ord_balance (v : Nat) {t : Node} (h : Ord t) : Ord (balance v t) := by
  unfold balance
  split
  · simp only
    split
    · split
      · exact Ord_rotateRight v h
      · exact Ord_rotateRight v (Ord_congr_left h (Ord_rotateLeft v h.1) (toList_rotateLeft v _))
    · split
      · split
        · exact Ord_rotateLeft v h
        · exact Ord_rotateLeft v (Ord_congr_right h (Ord_rotateRight v h.2.1) (toList_rotateRight v _))
      · exact h
  · exact h

@[simp] theorem minKey_balance (v : Nat) (t : Node) : minKey (balance v t) = minKey t :=
  minKey_eq_of_toList_eq (toList_balance v t)

/-! ### recursiveSet -/

/-- `recursiveSet` keeps the order invariant and is `insert` on the abstraction. -/
theorem recursiveSet_ord_toList (version : Nat) (t : Node) (key value : Bytes) (h : Ord t) :
    Ord (recursiveSet version t key value).1 ∧
    toList (recursiveSet version t key value).1 = KVs.insert key value (toList t) := by
  induction t with
  | leaf k v ver =>
    simp only [recursiveSet]
    by_cases h1 : key < k
    · rw [if_pos h1]
      have h1' : ¬ k < key := Bytes.lt_asymm h1
      refine ⟨⟨trivial, trivial, ?_, rfl⟩, ?_⟩
      · intro p hp; simp [toList] at hp; subst hp; exact h1
      · simp [toList, KVs.insert, h1, h1']
    · rw [if_neg h1]
      by_cases h2 : k < key
      · rw [if_pos h2]
        refine ⟨⟨trivial, trivial, ?_, rfl⟩, ?_⟩
        · intro p hp; simp [toList] at hp; subst hp; exact h2
        · simp [toList, KVs.insert, h1, h2]
      · rw [if_neg h2]
        refine ⟨trivial, ?_⟩
        simp [toList, KVs.insert, h1, h2]
  | inner k hh s l r ver ihl ihr =>
    have hge := h.right_ge
    have hlt := h.left_lt
    obtain ⟨hl, hr, _, hk⟩ := h
    simp only [recursiveSet]
    by_cases h1 : key < k
    · rw [if_pos h1]
      obtain ⟨ho, hto⟩ := ihl hl
      have hnew : ∀ h' s' ver', Ord (inner k h' s' (recursiveSet version l key value).1 r ver') := by
        intro h' s' ver'
        refine ⟨ho, hr, ?_, hk⟩
        intro p hp
        rw [hto] at hp
        rcases mem_insert_imp hp with hp | hp
        · exact hlt p hp
        · subst hp; exact h1
      have hlist : toList (recursiveSet version l key value).1 ++ toList r
          = insert key value (toList l ++ toList r) := by
        rw [hto, insert_append_left]
        intro p hp
        exact Bytes.lt_of_lt_of_le h1 (hge p hp)
      split
      · exact ⟨hnew _ _ _, by simpa [toList] using hlist⟩
      · dsimp only
        refine ⟨Ord_balance _ (Ord_calcHS.mpr (hnew _ _ _)), ?_⟩
        simpa [toList, calcHeightAndSize] using hlist
    · rw [if_neg h1]
      have hle : k ≤ key := Bytes.not_lt.mp h1
      obtain ⟨ho, hto⟩ := ihr hr
      have hmin : minKey (recursiveSet version r key value).1 = k := by
        obtain ⟨v0, rest, hr0⟩ := toList_head r
        have hs := hr.sorted
        rw [hr0] at hs
        obtain ⟨v', rest', hins⟩ := insert_head (k := key) (v := value) hs (hk ▸ hle)
        rw [hr0, hins] at hto
        rw [minKey_of_toList hto, hk]
      have hnew : ∀ h' s' ver', Ord (inner k h' s' l (recursiveSet version r key value).1 ver') :=
        fun h' s' ver' => ⟨hl, ho, hlt, hmin.symm⟩
      have hlist : toList l ++ toList (recursiveSet version r key value).1
          = insert key value (toList l ++ toList r) := by
        rw [hto, insert_append_right]
        intro p hp
        exact Bytes.lt_of_lt_of_le (hlt p hp) hle
      split
      · exact ⟨hnew _ _ _, by simpa [toList] using hlist⟩
      · dsimp only
        refine ⟨Ord_balance _ (Ord_calcHS.mpr (hnew _ _ _)), ?_⟩
        simpa [toList, calcHeightAndSize] using hlist

/-- `updated` is reported exactly when the key was present. -/
theorem recursiveSet_updated (version : Nat) (t : Node) (key value : Bytes) (h : Ord t) :
    (recursiveSet version t key value).2 = contains key (toList t) := by
  induction t with
  | leaf k v ver =>
    simp only [recursiveSet]
    by_cases h1 : key < k
    · rw [if_pos h1]; simp [toList, contains, Bytes.ne_of_lt h1 |> Ne.symm]
    · rw [if_neg h1]
      by_cases h2 : k < key
      · rw [if_pos h2]; simp [toList, contains, Bytes.ne_of_lt h2]
      · rw [if_neg h2]
        have : k = key := by
          rcases Bytes.lt_tri k key with h | h | h
          · exact absurd h h2
          · exact h
          · exact absurd h h1
        simp [toList, contains, this]
  | inner k hh s l r ver ihl ihr =>
    have hge := h.right_ge
    have hlt := h.left_lt
    obtain ⟨hl, hr, _, hk⟩ := h
    simp only [recursiveSet, toList, contains_append]
    by_cases h1 : key < k
    · rw [if_pos h1]
      have : contains key (toList r) = false := contains_eq_false_of_absent (fun p hp => by
        intro he
        exact Bytes.lt_irrefl _ (Bytes.lt_of_lt_of_le (he ▸ h1) (hge p hp)))
      rw [this, Bool.or_false, ← ihl hl]
      split <;> simp_all
    · rw [if_neg h1]
      have : contains key (toList l) = false := contains_eq_false_of_absent (fun p hp => by
        intro he
        exact h1 (he ▸ hlt p hp))
      rw [this, Bool.false_or, ← ihr hr]
      split <;> simp_all

/-! ### recursiveRemove -/

/-- An inner node is never "removed entirely". -/
theorem recursiveRemove_inner_node (version : Nat) (k : Bytes) (h s : Nat) (l r : Node) (ver : Nat) (key : Bytes) :
    (recursiveRemove version (inner k h s l r ver) key).node ≠ none := by
  simp only [recursiveRemove]
  split
  · split
    · simp
    · split <;> simp
  · split
    · simp
    · split <;> simp

theorem recursiveRemove_node_none {version : Nat} {t : Node} {key : Bytes}
    (h : (recursiveRemove version t key).node = none) : ∃ v ver, t = leaf key v ver := by
  cases t with
  | leaf k v ver =>
    simp only [recursiveRemove] at h
    by_cases hk : key = k
    · exact ⟨v, ver, by rw [hk]⟩
    · rw [if_neg hk] at h; simp at h
  | inner k hh s l r ver => exact absurd h (recursiveRemove_inner_node _ _ _ _ _ _ _ _)

/-- Full functional specification of `recursiveRemove` under the order invariant. -/
theorem recursiveRemove_spec (version : Nat) (t : Node) (key : Bytes) (h : Ord t) :
    (recursiveRemove version t key).value = lookup key (toList t) ∧
    (recursiveRemove version t key).removed = contains key (toList t) ∧
    ((recursiveRemove version t key).removed = false →
      (recursiveRemove version t key).node = some t ∧ (recursiveRemove version t key).newKey = none) ∧
    ((recursiveRemove version t key).removed = true →
      ∀ t', (recursiveRemove version t key).node = some t' →
        Ord t' ∧ toList t' = erase key (toList t) ∧
        minKey t' = ((recursiveRemove version t key).newKey).getD (minKey t)) := by
  induction t with
  | leaf k v ver =>
    simp only [recursiveRemove]
    by_cases hk : key = k
    · subst hk
      simp [toList, lookup, contains]
    · rw [if_neg hk]
      have hk' : ¬ k = key := fun e => hk e.symm
      simp [toList, lookup, contains, hk']
  | inner k hh s l r ver ihl ihr =>
    have hge := h.right_ge
    have hlt := h.left_lt
    have hfull := h
    obtain ⟨hl, hr, _, hk⟩ := h
    by_cases h1 : key < k
    · -- descend left; the right subtree does not contain the key
      have habs : ∀ p ∈ toList r, p.1 ≠ key := fun p hp he =>
        Bytes.lt_irrefl _ (Bytes.lt_of_lt_of_le (he ▸ h1) (hge p hp))
      obtain ⟨ihv, ihrem, ihno, ihyes⟩ := ihl hl
      have hlook : lookup key (toList l ++ toList r) = lookup key (toList l) := by
        rw [lookup_append, lookup_eq_none_of_absent habs]; simp
      have hcont : contains key (toList l ++ toList r) = contains key (toList l) := by
        rw [contains_append, contains_eq_false_of_absent habs]; simp
      simp only [recursiveRemove, if_pos h1, toList, hlook, hcont]
      cases hrm : (recursiveRemove version l key).removed with
      | false =>
        simp only [Bool.not_false, if_true]
        refine ⟨ihv, ?_, ?_, ?_⟩
        · rw [← ihrem, hrm]
        · intro _; simp
        · intro hc; cases hc
      | true =>
        simp only [Bool.not_true, Bool.false_eq_true, if_false]
        have ihy := ihyes hrm
        cases hnode : (recursiveRemove version l key).node with
        | none =>
          obtain ⟨v0, ver0, hleaf⟩ := recursiveRemove_node_none hnode
          refine ⟨ihv, ?_, ?_, ?_⟩
          · simp only; rw [← ihrem, hrm]
          · intro hc; cases hc
          · intro _ t' ht'
            simp only [Option.some.injEq] at ht'
            subst ht'
            refine ⟨hr, ?_, ?_⟩
            · rw [erase_append, erase_of_absent habs, hleaf]
              simp [toList, erase]
            · simp [hk]
        | some l' =>
          obtain ⟨hol', htl', hml'⟩ := ihy l' hnode
          refine ⟨ihv, ?_, ?_, ?_⟩
          · simp only; rw [← ihrem, hrm]
          · intro hc; cases hc
          · intro _ t' ht'
            simp only [Option.some.injEq] at ht'
            subst ht'
            have hnew : Ord (inner k hh s l' r version) := by
              refine ⟨hol', hr, ?_, hk⟩
              intro p hp
              rw [htl'] at hp
              exact hlt p (mem_erase.mp hp).1
            refine ⟨Ord_balance _ (Ord_calcHS.mpr hnew), ?_, ?_⟩
            · simp [toList, calcHeightAndSize, htl', erase_append, erase_of_absent habs]
            · simp [calcHeightAndSize, minKey, hml']
    · -- descend right; the left subtree does not contain the key
      have hle : k ≤ key := Bytes.not_lt.mp h1
      have habs : ∀ p ∈ toList l, p.1 ≠ key := fun p hp he => h1 (he ▸ hlt p hp)
      obtain ⟨ihv, ihrem, ihno, ihyes⟩ := ihr hr
      have hlook : lookup key (toList l ++ toList r) = lookup key (toList r) := by
        rw [lookup_append, lookup_eq_none_of_absent habs]; simp
      have hcont : contains key (toList l ++ toList r) = contains key (toList r) := by
        rw [contains_append, contains_eq_false_of_absent habs]; simp
      simp only [recursiveRemove, if_neg h1, toList, hlook, hcont]
      cases hrm : (recursiveRemove version r key).removed with
      | false =>
        simp only [Bool.not_false, if_true]
        refine ⟨ihv, ?_, ?_, ?_⟩
        · rw [← ihrem, hrm]
        · intro _; simp
        · intro hc; cases hc
      | true =>
        simp only [Bool.not_true, Bool.false_eq_true, if_false]
        have ihy := ihyes hrm
        cases hnode : (recursiveRemove version r key).node with
        | none =>
          obtain ⟨v0, ver0, hleaf⟩ := recursiveRemove_node_none hnode
          refine ⟨ihv, ?_, ?_, ?_⟩
          · simp only; rw [← ihrem, hrm]
          · intro hc; cases hc
          · intro _ t' ht'
            simp only [Option.some.injEq] at ht'
            subst ht'
            refine ⟨hl, ?_, ?_⟩
            · rw [erase_append, erase_of_absent habs, hleaf]
              simp [toList, erase]
            · simp [minKey]
        | some r' =>
          obtain ⟨hor', htr', hmr'⟩ := ihy r' hnode
          refine ⟨ihv, ?_, ?_, ?_⟩
          · simp only; rw [← ihrem, hrm]
          · intro hc; cases hc
          · intro _ t' ht'
            simp only [Option.some.injEq] at ht'
            subst ht'
            -- the key installed in the clone is the least key of the new right subtree
            have hk'ge : k ≤ minKey r' := by
              obtain ⟨w, hw⟩ := minKey_mem r'
              rw [htr'] at hw
              exact hge _ (mem_erase.mp hw).1
            have hnew : Ord (inner (minKey r') hh s l r' version) := by
              refine ⟨hl, hor', ?_, rfl⟩
              intro p hp
              exact Bytes.lt_of_lt_of_le (hlt p hp) hk'ge
            have hkey : (recursiveRemove version r key).newKey.getD k = minKey r' := by
              rw [hmr', ← hk]
            simp only [hkey]
            refine ⟨Ord_balance _ (Ord_calcHS.mpr hnew), ?_, ?_⟩
            · simp [toList, calcHeightAndSize, htr', erase_append, erase_of_absent habs]
            · simp [calcHeightAndSize, minKey]

end Iavl.Node
