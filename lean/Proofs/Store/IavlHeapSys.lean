import Proofs.Store.IavlHeapSet
import Proofs.Store.IavlHeapRemove
import Proofs.Store.IavlHeapRead
import Proofs.Store.IavlHeapHash
import Proofs.Store.IavlVersions
/-!
# IAVL on the heap: the ownership invariant `Own` and refinement of the pure versioned tree (C09 stage B)

`Own H sys T V`: the heap system `sys` represents the pure versioned tree `T` (`Iavl.Tree`) and the
held view handles represent the pure trees `V`.  Every operation of `Iavl.Heap.stepH` (as-is clone
discipline, injective hash) preserves it, answers what the pure model answers, and keeps **every**
representation judgement (`RepStable`) — which is the heap-level form of "saved versions are frozen".
-/
namespace Iavl.Heap
open Iavl
variable (H : HashIn → Hash)

/-- The trivial footprint. -/
abbrev All : Addr → Prop := fun _ => True

/-- Every held handle represents its pure tree. -/
def ViewsOK (st : St) (V : List (Option Node)) (vs : List (Option Addr)) : Prop :=
  V.length = vs.length ∧
    ∀ (i : Nat) (root : Option Node) (h : Option Addr), V[i]? = some root → vs[i]? = some h → RepRoot H All st root h

/-- The ownership / simulation invariant. -/
structure Own (sys : Sys) (T : Tree) (V : List (Option Node)) : Prop where
  cache : CacheOK sys.st
  dbwf : DBWF H sys.st.db
  root : RepRoot H All sys.st T.root sys.tree.root
  last : RepRoot H All sys.st T.lastSaved sys.tree.lastSaved
  version : sys.tree.version = T.version
  tversions : sys.tree.versions = T.versions.map (·.1)
  roots : sys.st.roots = T.versions.map (fun p => (p.1, p.2.map (treeHash H)))
  indb : ∀ p ∈ T.versions, ∀ t, p.2 = some t → InDB H sys.st.db t
  latest : sys.st.latestVersion = T.version
  wf : T.WF
  views : ViewsOK H sys.st V sys.views

theorem RepRoot.stable {st st' : St} (h : RepStable H st st') {root : Option Node} {ra : Option Addr}
    (hr : RepRoot H All st root ra) : RepRoot H All st' root ra := by
  cases root <;> cases ra <;> first | exact hr | exact h _ _ _ hr

theorem RepRoot.mono {P : Addr → Prop} {st : St} {root : Option Node} {ra : Option Addr}
    (hr : RepRoot H P st root ra) : RepRoot H All st root ra := by
  cases root <;> cases ra <;> first | exact hr | exact Rep.mono H hr (fun _ _ _ _ => trivial)

theorem views_stable {st st' : St} (h : RepStable H st st') {V : List (Option Node)} {vs : List (Option Addr)}
    (hv : ViewsOK H st V vs) : ViewsOK H st' V vs :=
  ⟨hv.1, fun i root ha h1 h2 => RepRoot.stable H h (hv.2 i root ha h1 h2)⟩

theorem views_push {st : St} {V : List (Option Node)} {vs : List (Option Addr)} (hv : ViewsOK H st V vs)
    {root : Option Node} {ha : Option Addr} (hr : RepRoot H All st root ha) : ViewsOK H st (V ++ [root]) (vs ++ [ha]) := by
  refine ⟨by simp [hv.1], fun i root' ha' h1 h2 => ?_⟩
  by_cases hi : i < V.length
  · rw [List.getElem?_append_left hi] at h1
    rw [List.getElem?_append_left (hv.1 ▸ hi)] at h2
    exact hv.2 i root' ha' h1 h2
  · have hi' : V.length ≤ i := Nat.le_of_not_lt hi
    rw [List.getElem?_append_right hi'] at h1
    rw [List.getElem?_append_right (hv.1 ▸ hi')] at h2
    rw [hv.1] at h1
    cases hk : i - vs.length with
    | zero =>
      rw [hk] at h1 h2
      simp at h1 h2
      subst h1 h2
      exact hr
    | succ n => rw [hk] at h1; simp at h1

/-- `addOrphans` succeeds on valid orphans and only touches the `orphans` field. -/
theorem addOrphans_spec (st : St) : ∀ (l : List Addr) (t : MT), (∀ x ∈ l, Valid st x) →
    ∃ o, addOrphans st t l = some { t with orphans := o } := by
  intro l
  induction l with
  | nil => intro t _; exact ⟨t.orphans, rfl⟩
  | cons x rest ih =>
    intro t hv
    obtain ⟨c, hc, hp⟩ := hv x (List.mem_cons_self)
    have hrest : ∀ y ∈ rest, Valid st y := fun y hy => hv y (List.mem_cons_of_mem _ hy)
    simp only [addOrphans, List.foldlM_cons, hc]
    cases hpers : c.persisted with
    | false =>
      simp only [Bool.not_false, if_true, Option.bind_eq_bind, Option.bind_some]
      exact ih t hrest
    | true =>
      have := hp hpers
      obtain ⟨hh, hhh⟩ := Option.isSome_iff_exists.mp this
      simp only [Bool.not_true, Bool.false_eq_true, if_false, hhh, Option.bind_eq_bind, Option.bind_some]
      obtain ⟨o, ho⟩ := ih { t with orphans := (hh, c.version) :: t.orphans } hrest
      exact ⟨o, ho⟩

theorem foldl_max_init (l : List (Nat × Option Hash)) (m : Nat) :
    l.foldl (fun m p => max m p.1) m = max m (l.foldl (fun m p => max m p.1) 0) := by
  induction l generalizing m with
  | nil => simp
  | cons p rest ih =>
    simp only [List.foldl_cons]
    rw [ih (max m p.1), ih (max 0 p.1)]
    omega

theorem latestVersion_cons (st : St) (v : Nat) (hh : Option Hash) :
    St.latestVersion { st with roots := (v, hh) :: st.roots } = max v st.latestVersion := by
  simp only [St.latestVersion, List.foldl_cons]
  rw [foldl_max_init]
  omega

/-- Pure counterpart of an operation on the tree. -/
def pureStep (T : Tree) : HOp → Tree
  | .set k v => (T.set k v).1
  | .remove k => (T.remove k).1
  | .save => T.saveVersion
  | .rollback => T.rollback
  | _ => T

/-- Pure counterpart: the view trees after the operation. -/
def pureViews (T : Tree) (V : List (Option Node)) : HOp → List (Option Node)
  | .getImmutable v => match T.getImmutable v with
    | some root => V ++ [root]
    | none => V
  | .lazyLoad target => match T.lazyLoadVersion target with
    | .view root _ => V ++ [root]
    | _ => V
  | _ => V

/-- Pure counterpart: the answer. -/
def pureOut (T : Tree) (V : List (Option Node)) : HOp → HOut
  | .set k v => .updated (T.set k v).2
  | .remove k => .removed (T.remove k).2.1 (T.remove k).2.2
  | .save => .saved (.saved (T.root.map (treeHash H)) (T.version + 1))
  | .rollback => .unit
  | .workingHash => .hash (T.root.map (treeHash H))
  | .getImmutable v => .opened (T.getImmutable v).isSome
  | .lazyLoad target => .opened (match T.lazyLoadVersion target with | .view _ _ => true | _ => false)
  | .readWorking r => .read (some (readRoot T.root r))
  | .readView i r => .read ((V[i]?).map (fun root => readRoot root r))

/-- Fuel is adequate for an operation: larger than the depth of every tree it walks. -/
def Adequate (fuel : Nat) (T : Tree) (V : List (Option Node)) : Prop :=
  (∀ t, T.root = some t → depth t < fuel) ∧ (∀ root ∈ V, ∀ t, root = some t → depth t < fuel)

theorem Grows.of_Ext {st st' : St} (h : Ext st st') : Grows st st' :=
  Grows.of_ext h (fun x c hc => h.cells x c trivial hc)

/-- Carrying `Own` over an extension that changes only the tree object's root and orphans. -/
theorem Own.of_ext {sys : Sys} {T : Tree} {V : List (Option Node)} (hown : Own H sys T V) {st' : St}
    (hext : Ext sys.st st') (hc : CacheOK st') {T' : Tree} {t' : MT}
    (hroot : RepRoot H All st' T'.root t'.root)
    (hv : t'.version = sys.tree.version) (hvs : t'.versions = sys.tree.versions) (hl : t'.lastSaved = sys.tree.lastSaved)
    (hT1 : T'.version = T.version) (hT2 : T'.lastSaved = T.lastSaved) (hT3 : T'.versions = T.versions)
    (hwf : T'.WF) : Own H { sys with st := st', tree := t' } T' V where
  cache := hc
  dbwf := by show DBWF H st'.db; rw [hext.db]; exact hown.dbwf
  root := hroot
  last := by
    show RepRoot H All st' T'.lastSaved t'.lastSaved
    rw [hT2, hl]; exact RepRoot.stable H (RepStable.of_ext H hext) hown.last
  version := by show t'.version = T'.version; rw [hv, hT1]; exact hown.version
  tversions := by show t'.versions = _; rw [hvs, hT3]; exact hown.tversions
  roots := by show st'.roots = _; rw [hext.roots, hT3]; exact hown.roots
  indb := by
    intro p hp t ht
    show InDB H st'.db t
    rw [hext.db]; exact hown.indb p (hT3 ▸ hp) t ht
  latest := by
    show St.latestVersion st' = T'.version
    rw [hT1, ← hown.latest]; simp only [St.latestVersion, hext.roots]
  wf := hwf
  views := views_stable H (RepStable.of_ext H hext) hown.views

theorem set_refines {sys : Sys} {T : Tree} {V : List (Option Node)} (hown : Own H sys T V) (k v : Bytes) (fuel : Nat)
    (hfuel : Adequate fuel T V) :
    ∃ sys', stepH H Cfg.asIs fuel sys (.set k v) = some (sys', .updated (T.set k v).2) ∧
      Own H sys' (T.set k v).1 V ∧ Ext sys.st sys'.st := by
  have hwf' : (T.set k v).1.WF := Tree.step_wf T (.set k v) hown.wf
  obtain ⟨f1, f2, f3⟩ := Tree.set_frame T k v
  cases hr : T.root with
  | none =>
    have hroot := hown.root
    rw [hr] at hroot
    cases hra : sys.tree.root with
    | some a => rw [hra] at hroot; cases hroot
    | none =>
      let st' := (sys.st.alloc (newLeaf k v (sys.tree.version + 1))).1
      have hext : Ext sys.st st' := alloc_ext _ _
      have hc : CacheOK st' := CacheOK.ext hown.cache hext (fun _ _ _ _ => trivial) (fun _ _ h => h)
      refine ⟨{ sys with st := st', tree := { sys.tree with root := some sys.st.heap.length } }, ?_, ?_, hext⟩
      · simp [stepH, set, hra, Tree.set, hr]; exact ⟨rfl, rfl⟩
      · refine Own.of_ext H hown hext hc ?_ rfl rfl rfl f1 f2 f3 hwf'
        simp only [Tree.set, hr]
        have hnew : st'.heap[sys.st.heap.length]? = some (newLeaf k v (T.version + 1)) := by
          rw [← hown.version]; exact alloc_new _ _
        exact Rep.mk_leaf H trivial hnew
  | some t =>
    have hroot := hown.root
    rw [hr] at hroot
    cases hra : sys.tree.root with
    | none => rw [hra] at hroot; cases hroot
    | some a =>
      rw [hra] at hroot
      obtain ⟨st', n, orph', hrec, hext, hc, hrep, extra, hex, hvalid⟩ :=
        recursiveSet_spec H (sys.tree.version + 1) k v t fuel All sys.st a [] (hfuel.1 t hr) hown.cache hroot
      obtain ⟨o, ho⟩ := addOrphans_spec st' orph' { sys.tree with root := some n }
        (fun x hx => hvalid x (by rw [hex] at hx; simpa using hx))
      refine ⟨{ sys with st := st', tree := { sys.tree with root := some n, orphans := o } }, ?_, ?_, hext⟩
      · simp only [stepH, set, hra, hrec, Option.bind_eq_bind, Option.bind_some, ho, Option.map_some]
        simp only [Tree.set, hr, hown.version]
      · refine Own.of_ext H hown hext hc ?_ rfl rfl rfl f1 f2 f3 hwf'
        simp only [Tree.set, hr]
        rw [← hown.version]
        exact Rep.mono H hrep (fun _ _ _ _ => trivial)

theorem remove_refines {sys : Sys} {T : Tree} {V : List (Option Node)} (hown : Own H sys T V) (k : Bytes) (fuel : Nat)
    (hfuel : Adequate fuel T V) :
    ∃ sys', stepH H Cfg.asIs fuel sys (.remove k) = some (sys', .removed (T.remove k).2.1 (T.remove k).2.2) ∧
      Own H sys' (T.remove k).1 V ∧ Ext sys.st sys'.st := by
  have hwf' : (T.remove k).1.WF := Tree.step_wf T (.remove k) hown.wf
  obtain ⟨f1, f2, f3⟩ := Tree.remove_frame T k
  cases hr : T.root with
  | none =>
    have hroot := hown.root
    rw [hr] at hroot
    cases hra : sys.tree.root with
    | some a => rw [hra] at hroot; cases hroot
    | none =>
      refine ⟨sys, ?_, ?_, ExtOn.refl _ _⟩
      · simp [stepH, remove, hra, Tree.remove, hr]
      · have : (T.remove k).1 = T := by simp [Tree.remove, hr]
        rw [this]; exact hown
  | some t =>
    have hroot := hown.root
    rw [hr] at hroot
    cases hra : sys.tree.root with
    | none => rw [hra] at hroot; cases hroot
    | some a =>
      rw [hra] at hroot
      obtain ⟨st', res, orph', hrec, hext, hc, horph, hnk, hval, hslot, hvalid⟩ :=
        recursiveRemove_spec H (sys.tree.version + 1) k t fuel All sys.st a (hfuel.1 t hr) hown.cache hroot
      rw [hown.version] at hrec horph hval hslot
      cases hrm : (Node.recursiveRemove (T.version + 1) t k).removed with
      | false =>
        have he : orph' = [] := horph.mpr hrm
        subst he
        refine ⟨{ sys with st := st' }, ?_, ?_, hext⟩
        · simp only [stepH, remove, hra, hown.version, hrec, Option.bind_eq_bind, Option.bind_some, List.isEmpty_nil,
            if_true, Option.map_some, Tree.remove, hr, hrm, Bool.not_false]
        · have hT : (T.remove k).1 = T := by simp [Tree.remove, hr, hrm]
          rw [hT]
          have := Own.of_ext H hown hext hc (T' := T) (t' := sys.tree)
            (RepRoot.stable H (RepStable.of_ext H hext) hown.root) rfl rfl rfl rfl rfl rfl hown.wf
          exact this
      | true =>
        have hne : orph' ≠ [] := fun e => by
          have := horph.mp e; rw [hrm] at this; cases this
        have hemp : orph'.isEmpty = false := by
          cases orph' with
          | nil => exact absurd rfl hne
          | cons _ _ => rfl
        -- the new root handle
        have hnewroot : ∃ st2 root, newRootAfterRemove st' res = some (st2, root) ∧ Ext st' st2 ∧ CacheOK st2 ∧
            RepRoot H All st2 (Node.recursiveRemove (T.version + 1) t k).node root := by
          cases hnode : (Node.recursiveRemove (T.version + 1) t k).node with
          | none =>
            rw [hnode] at hslot
            obtain ⟨e1, e2⟩ := hslot
            exact ⟨st', none, by simp [newRootAfterRemove, e1, e2], ExtOn.refl _ _, hc, trivial⟩
          | some t' =>
            rw [hnode] at hslot
            simp only [RemSlot] at hslot
            cases hp : res.newSelf with
            | some p =>
              simp only [Slot, ChildOK, hp] at hslot
              exact ⟨st', some p, by simp [newRootAfterRemove, hp], ExtOn.refl _ _, hc,
                Rep.mono H hslot.1 (fun _ _ _ _ => trivial)⟩
            | none =>
              simp only [Slot, ChildOK, hp] at hslot
              obtain ⟨hh, hdb⟩ := hslot
              obtain ⟨st2, p, hg, he2, hc2, _, hrep2⟩ := getNode_spec H hc hdb
              exact ⟨st2, some p, by simp [newRootAfterRemove, hp, hh, hg], he2, hc2, hrep2 All trivial⟩
        obtain ⟨st2, root, eroot, he2, hc2, hrep2⟩ := hnewroot
        obtain ⟨o, ho⟩ := addOrphans_spec st2 orph' { sys.tree with root := root }
          (fun x hx => (hvalid x hx).ext he2 trivial)
        refine ⟨{ sys with st := st2, tree := { sys.tree with root := root, orphans := o } }, ?_, ?_, hext.trans he2⟩
        · simp only [stepH, remove, hra, hown.version, hrec, Option.bind_eq_bind, Option.bind_some, hemp,
            Bool.false_eq_true, if_false]
          rw [eroot]
          simp only [Option.bind_some, ← hown.version, ho, Option.map_some]
          simp only [Tree.remove, hr, hrm, hval, hown.version, Bool.not_true, Bool.false_eq_true, if_false]
        · refine Own.of_ext H hown (hext.trans he2) hc2 ?_ rfl rfl rfl f1 f2 f3 hwf'
          simp only [Tree.remove, hr, hrm, Bool.not_true, Bool.false_eq_true, if_false]
          exact hrep2

theorem Rep.with_roots {P : Addr → Prop} {st : St} {t : Node} {a : Addr} (r : List (Nat × Option Hash))
    (h : Rep H P st t a) : Rep H P { st with roots := r } t a :=
  Rep.frame H (st := st) (st' := { st with roots := r }) (fun _ _ _ hc => hc) (fun _ _ hs => hs) (fun _ _ hp _ => hp) h

theorem contains_map_fst (l : List (Nat × Option Node)) (v : Nat) :
    (l.map (·.1)).contains v = l.any (·.1 == v) := by
  induction l with
  | nil => rfl
  | cons p rest ih =>
    simp only [List.map_cons, List.contains_cons, List.any_cons, ih]
    congr 1
    exact Bool.eq_iff_iff.mpr ⟨fun h => by simpa using (beq_iff_eq.mp h).symm, fun h => by simpa using (beq_iff_eq.mp h).symm⟩

theorem save_refines (hinj : Function.Injective H) {sys : Sys} {T : Tree} {V : List (Option Node)}
    (hown : Own H sys T V) (fuel : Nat) (hfuel : Adequate fuel T V) :
    ∃ sys', stepH H Cfg.asIs fuel sys .save = some (sys', .saved (.saved (T.root.map (treeHash H)) (T.version + 1))) ∧
      Own H sys' T.saveVersion V ∧ RepStable H sys.st sys'.st ∧ Grows sys.st sys'.st := by
  have hwf' : T.saveVersion.WF := Tree.step_wf T .save hown.wf
  have hfresh : T.versionExists (T.version + 1) = false := hown.wf.fresh
  have hTsave : T.saveVersion =
      ({ root := T.root, version := T.version + 1, lastSaved := T.root, versions := (T.version + 1, T.root) :: T.versions } : Tree) := by
    simp [Tree.saveVersion, hfresh]
  have hcont : sys.tree.versions.contains (T.version + 1) = false := by
    rw [hown.tversions, contains_map_fst]; exact hfresh
  cases hr : T.root with
  | none =>
    have hroot := hown.root
    rw [hr] at hroot
    cases hra : sys.tree.root with
    | some a => rw [hra] at hroot; cases hroot
    | none =>
      let st' : St := { sys.st with roots := (T.version + 1, none) :: sys.st.roots }
      let t' : MT := { root := none, version := T.version + 1, versions := (T.version + 1) :: sys.tree.versions, lastSaved := none, orphans := [] }
      refine ⟨{ sys with st := st', tree := t' }, ?_, ?_, ?_, ?_⟩
      · simp only [stepH, saveVersion, hcont, hra, hown.latest, hown.version, Bool.false_eq_true, if_false, ne_eq,
          not_true_eq_false, Option.map_some, Option.map_none]
        rfl
      · rw [hTsave, hr]
        have hst : RepStable H sys.st st' := fun P t x h => Rep.with_roots H _ h
        exact {
          cache := hown.cache
          dbwf := hown.dbwf
          root := trivial
          last := trivial
          version := rfl
          tversions := by
            show (T.version + 1) :: sys.tree.versions = _
            rw [hown.tversions]; rfl
          roots := by
            show (T.version + 1, none) :: sys.st.roots = _
            rw [hown.roots]; rfl
          indb := by
            intro p hp t ht
            rcases List.mem_cons.mp hp with rfl | hp
            · cases ht
            · exact hown.indb p hp t ht
          latest := by
            show St.latestVersion st' = T.version + 1
            rw [latestVersion_cons, hown.latest]; omega
          wf := by rw [← hr, ← hTsave]; exact hwf'
          views := views_stable H hst hown.views }
      · exact fun P t x h => Rep.with_roots H _ h
      · exact ⟨fun x c hc => ⟨c, hc, cellLe_refl c⟩, Nat.le_refl _, fun _ _ h => h⟩
  | some t =>
    have hroot := hown.root
    rw [hr] at hroot
    cases hra : sys.tree.root with
    | none => rw [hra] at hroot; cases hroot
    | some a =>
      rw [hra] at hroot
      have hord : t.Ord := by
        have := hown.wf.root
        rw [hr] at this
        exact Node.Inv.ord this
      obtain ⟨st1, e1, hs1, hc1, hwf1, ca, hca, hpa⟩ :=
        saveBranch_spec H hinj t fuel All sys.st a (hfuel.1 t hr) hroot hord hown.cache hown.dbwf
      have hrep1 : Rep H All st1 t a := hs1.stable All t a hroot
      have hindb : InDB H st1.db t := Rep.inDB_of_persisted H hrep1 hca hpa
      let st' : St := { st1 with roots := (T.version + 1, some (treeHash H t)) :: st1.roots }
      have hlat1 : st1.latestVersion = T.version := by
        rw [← hown.latest]; simp only [St.latestVersion, hs1.roots]
      have hst : RepStable H sys.st st' := fun P t x h => Rep.with_roots H _ (hs1.stable P t x h)
      let t' : MT := { root := some a, version := T.version + 1, versions := (T.version + 1) :: sys.tree.versions, lastSaved := some a, orphans := [] }
      refine ⟨{ sys with st := st', tree := t' }, ?_, ?_, hst, ?_⟩
      · simp only [stepH, saveVersion, hcont, hra, e1, hlat1, hown.version, Bool.false_eq_true, if_false, ne_eq,
          not_true_eq_false, Option.map_some, Option.bind_eq_bind, Option.bind_some]
        rfl
      · rw [hTsave, hr]
        exact {
          cache := hc1
          dbwf := hwf1
          root := Rep.with_roots H _ hrep1
          last := Rep.with_roots H _ hrep1
          version := rfl
          tversions := by
            show (T.version + 1) :: sys.tree.versions = _
            rw [hown.tversions]; rfl
          roots := by
            show (T.version + 1, some (treeHash H t)) :: st1.roots = _
            rw [hs1.roots, hown.roots]; rfl
          indb := by
            intro p hp t' ht'
            rcases List.mem_cons.mp hp with rfl | hp
            · cases ht'; exact hindb
            · exact InDB.mono H hs1.grows.db (hown.indb p hp t' ht')
          latest := by
            show St.latestVersion st' = T.version + 1
            rw [latestVersion_cons, hlat1]; omega
          wf := by rw [← hr, ← hTsave]; exact hwf'
          views := views_stable H hst hown.views }
      · exact ⟨hs1.grows.cells, hs1.grows.len, hs1.grows.db⟩

/-- Carrying `Own` over a step that keeps the tree object and every representation. -/
theorem Own.of_stable {sys : Sys} {T : Tree} {V : List (Option Node)} (hown : Own H sys T V) {st' : St}
    (hst : RepStable H sys.st st') (hc : CacheOK st') (hdb : st'.db = sys.st.db) (hroots : st'.roots = sys.st.roots)
    {V' : List (Option Node)} {vs' : List (Option Addr)} (hv : ViewsOK H st' V' vs') :
    Own H { sys with st := st', views := vs' } T V' where
  cache := hc
  dbwf := by show DBWF H st'.db; rw [hdb]; exact hown.dbwf
  root := RepRoot.stable H hst hown.root
  last := RepRoot.stable H hst hown.last
  version := hown.version
  tversions := hown.tversions
  roots := by show st'.roots = _; rw [hroots]; exact hown.roots
  indb := by intro p hp t ht; show InDB H st'.db t; rw [hdb]; exact hown.indb p hp t ht
  latest := by show St.latestVersion st' = _; rw [← hown.latest]; simp only [St.latestVersion, hroots]
  wf := hown.wf
  views := hv

theorem rollback_refines {sys : Sys} {T : Tree} {V : List (Option Node)} (hown : Own H sys T V) (fuel : Nat) :
    ∃ sys', stepH H Cfg.asIs fuel sys .rollback = some (sys', .unit) ∧ Own H sys' T.rollback V ∧ sys'.st = sys.st := by
  refine ⟨{ sys with tree := rollback sys.tree }, rfl, ?_, rfl⟩
  have hwf' : T.rollback.WF := Tree.step_wf T .rollback hown.wf
  by_cases hv : T.version > 0
  · have hv' : sys.tree.version > 0 := by rw [hown.version]; exact hv
    have e1 : rollback sys.tree = { sys.tree with root := sys.tree.lastSaved, orphans := [] } := by simp [rollback, hv']
    have e2 : T.rollback = { T with root := T.lastSaved } := by simp [Tree.rollback, hv]
    rw [e1]
    exact { cache := hown.cache, dbwf := hown.dbwf, root := by rw [e2]; exact hown.last,
            last := by rw [e2]; exact hown.last, version := by rw [e2]; exact hown.version,
            tversions := by rw [e2]; exact hown.tversions, roots := by rw [e2]; exact hown.roots,
            indb := by rw [e2]; exact hown.indb, latest := by rw [e2]; exact hown.latest, wf := hwf',
            views := hown.views }
  · have hv' : ¬ sys.tree.version > 0 := by rw [hown.version]; exact hv
    have e1 : rollback sys.tree = { sys.tree with root := none, orphans := [] } := by simp [rollback, hv']
    have e2 : T.rollback = { T with root := none } := by simp [Tree.rollback, hv]
    rw [e1]
    exact { cache := hown.cache, dbwf := hown.dbwf, root := by rw [e2]; trivial,
            last := by rw [e2]; exact hown.last, version := by rw [e2]; exact hown.version,
            tversions := by rw [e2]; exact hown.tversions, roots := by rw [e2]; exact hown.roots,
            indb := by rw [e2]; exact hown.indb, latest := by rw [e2]; exact hown.latest, wf := hwf',
            views := hown.views }

theorem workingHash_refines {sys : Sys} {T : Tree} {V : List (Option Node)} (hown : Own H sys T V) (fuel : Nat)
    (hfuel : Adequate fuel T V) :
    ∃ sys', stepH H Cfg.asIs fuel sys .workingHash = some (sys', .hash (T.root.map (treeHash H))) ∧
      Own H sys' T V ∧ RepStable H sys.st sys'.st ∧ Grows sys.st sys'.st := by
  cases hr : T.root with
  | none =>
    have hroot := hown.root
    rw [hr] at hroot
    cases hra : sys.tree.root with
    | some a => rw [hra] at hroot; cases hroot
    | none =>
      exact ⟨sys, by simp [stepH, workingHash, hra], hown, RepStable.refl H _, Grows.refl _⟩
  | some t =>
    have hroot := hown.root
    rw [hr] at hroot
    cases hra : sys.tree.root with
    | none => rw [hra] at hroot; cases hroot
    | some a =>
      rw [hra] at hroot
      obtain ⟨st', e, hs, hc, hdb, _, _⟩ := hashWithCount_spec H t fuel All sys.st a (hfuel.1 t hr) hroot hown.cache
      refine ⟨{ sys with st := st' }, by simp [stepH, workingHash, hra, e], ?_, hs.stable, hs.grows⟩
      exact Own.of_stable H hown hs.stable hc hdb hs.roots (views_stable H hs.stable hown.views)

theorem getRoot_eq {sys : Sys} {T : Tree} {V : List (Option Node)} (hown : Own H sys T V) (v : Nat) :
    sys.st.getRoot v = (T.getImmutable v).map (Option.map (treeHash H)) := by
  simp only [St.getRoot, Tree.getImmutable, hown.roots]
  induction T.versions with
  | nil => rfl
  | cons p rest ih =>
    simp only [List.map_cons, List.find?_cons]
    cases hp : (p.1 == v)
    · simp only []; exact ih
    · simp

theorem getImmutable_mem {T : Tree} {v : Nat} {root : Option Node} (h : T.getImmutable v = some root) :
    (v, root) ∈ T.versions := by
  simp only [Tree.getImmutable, Option.map_eq_some_iff] at h
  obtain ⟨p, hp, rfl⟩ := h
  have hmem := List.mem_of_find?_eq_some hp
  have hv : p.1 = v := by simpa using List.find?_some hp
  rw [← hv]; exact hmem

/-- Opening a view of version `v` (`GetImmutable`, and the last step of `LazyLoadVersion`). -/
theorem openView {sys : Sys} {T : Tree} {V : List (Option Node)} (hown : Own H sys T V) (v : Nat) :
    ∃ st' res, getImmutable sys.st v = some (st', res) ∧ Ext sys.st st' ∧ CacheOK st' ∧
      (match T.getImmutable v with
        | none => res = .errMissing
        | some root => ∃ ra, res = .view ra v ∧ RepRoot H All st' root ra) := by
  have hg := getRoot_eq H hown v
  cases hi : T.getImmutable v with
  | none =>
    rw [hi] at hg
    exact ⟨sys.st, .errMissing, by simp [getImmutable, hg], ExtOn.refl _ _, hown.cache, rfl⟩
  | some root =>
    rw [hi] at hg
    cases root with
    | none =>
      exact ⟨sys.st, .view none v, by simp [getImmutable, hg], ExtOn.refl _ _, hown.cache, none, rfl, trivial⟩
    | some t =>
      have hindb := hown.indb _ (getImmutable_mem hi) t rfl
      obtain ⟨st', a, e, hext, hc, _, hrep⟩ := getNode_spec H hown.cache hindb
      exact ⟨st', .view (some a) v, by simp [getImmutable, hg, e], hext, hc, some a, rfl, hrep All trivial⟩

theorem getImmutable_refines {sys : Sys} {T : Tree} {V : List (Option Node)} (hown : Own H sys T V) (v fuel : Nat) :
    ∃ sys', stepH H Cfg.asIs fuel sys (.getImmutable v) = some (sys', .opened (T.getImmutable v).isSome) ∧
      Own H sys' T (pureViews T V (.getImmutable v)) ∧ Ext sys.st sys'.st := by
  obtain ⟨st', res, e, hext, hc, hres⟩ := openView H hown v
  have hst := RepStable.of_ext H hext
  cases hi : T.getImmutable v with
  | none =>
    rw [hi] at hres; subst hres
    refine ⟨{ sys with st := st' }, by simp [stepH, e], ?_, hext⟩
    simp only [pureViews, hi]
    exact Own.of_stable H hown hst hc hext.db hext.roots (views_stable H hst hown.views)
  | some root =>
    rw [hi] at hres
    obtain ⟨ra, rfl, hrep⟩ := hres
    refine ⟨{ sys with st := st', views := sys.views ++ [ra] }, by simp [stepH, e], ?_, hext⟩
    simp only [pureViews, hi]
    exact Own.of_stable H hown hst hc hext.db hext.roots (views_push H (views_stable H hst hown.views) hrep)

theorem lazy_heap_eq (st : St) (target : Int) :
    lazyLoadVersion st target =
      if (st.latestVersion : Int) < target then some (st, .errTooNew)
      else if st.latestVersion = 0 then some (st, .nilTree)
      else getImmutable st (if target ≤ 0 then st.latestVersion else target.toNat) := rfl

theorem lazy_pure_eq (T : Tree) (target : Int) :
    T.lazyLoadVersion target =
      if (T.version : Int) < target then .errTooNew
      else if T.version = 0 then .nilTree
      else match T.getImmutable (if target ≤ 0 then T.version else target.toNat) with
        | none => .errMissing
        | some r => .view r (if target ≤ 0 then T.version else target.toNat) := rfl

theorem lazyLoad_refines {sys : Sys} {T : Tree} {V : List (Option Node)} (hown : Own H sys T V) (target : Int)
    (fuel : Nat) :
    ∃ sys', stepH H Cfg.asIs fuel sys (.lazyLoad target) =
        some (sys', .opened (match T.lazyLoadVersion target with | .view _ _ => true | _ => false)) ∧
      Own H sys' T (pureViews T V (.lazyLoad target)) ∧ Ext sys.st sys'.st := by
  by_cases h1 : (T.version : Int) < target
  · have eH : lazyLoadVersion sys.st target = some (sys.st, .errTooNew) := by
      rw [lazy_heap_eq, hown.latest, if_pos h1]
    have eP : T.lazyLoadVersion target = .errTooNew := by rw [lazy_pure_eq, if_pos h1]
    refine ⟨sys, by simp only [stepH, eH, eP, Option.map_some], ?_, ExtOn.refl _ _⟩
    simp only [pureViews, eP]; exact hown
  · by_cases h2 : T.version = 0
    · have eH : lazyLoadVersion sys.st target = some (sys.st, .nilTree) := by
        rw [lazy_heap_eq, hown.latest, if_neg h1, if_pos h2]
      have eP : T.lazyLoadVersion target = .nilTree := by rw [lazy_pure_eq, if_neg h1, if_pos h2]
      refine ⟨sys, by simp only [stepH, eH, eP, Option.map_some], ?_, ExtOn.refl _ _⟩
      simp only [pureViews, eP]; exact hown
    · obtain ⟨st', res, e, hext, hc, hres⟩ := openView H hown (if target ≤ 0 then T.version else target.toNat)
      have eH : lazyLoadVersion sys.st target = some (st', res) := by
        rw [lazy_heap_eq, hown.latest, if_neg h1, if_neg h2, e]
      have hst := RepStable.of_ext H hext
      cases hi : T.getImmutable (if target ≤ 0 then T.version else target.toNat) with
      | none =>
        rw [hi] at hres; subst hres
        have eP : T.lazyLoadVersion target = .errMissing := by rw [lazy_pure_eq, if_neg h1, if_neg h2, hi]
        refine ⟨{ sys with st := st' }, by simp only [stepH, eH, eP, Option.map_some], ?_, hext⟩
        simp only [pureViews, eP]
        exact Own.of_stable H hown hst hc hext.db hext.roots (views_stable H hst hown.views)
      | some root =>
        rw [hi] at hres
        obtain ⟨ra, rfl, hrep⟩ := hres
        have eP : T.lazyLoadVersion target = .view root (if target ≤ 0 then T.version else target.toNat) := by
          rw [lazy_pure_eq, if_neg h1, if_neg h2, hi]
        refine ⟨{ sys with st := st', views := sys.views ++ [ra] }, by simp only [stepH, eH, eP, Option.map_some], ?_,
          hext⟩
        simp only [pureViews, eP]
        exact Own.of_stable H hown hst hc hext.db hext.roots (views_push H (views_stable H hst hown.views) hrep)

theorem readWorking_refines {sys : Sys} {T : Tree} {V : List (Option Node)} (hown : Own H sys T V) (r : Read)
    (fuel : Nat) (hfuel : Adequate fuel T V) :
    ∃ sys', stepH H Cfg.asIs fuel sys (.readWorking r) = some (sys', .read (some (readRoot T.root r))) ∧
      Own H sys' T V ∧ Ext sys.st sys'.st := by
  obtain ⟨st', e, hext, hc⟩ := readRootH_spec H r fuel All sys.st T.root sys.tree.root hfuel.1 hown.cache hown.root
  have hst := RepStable.of_ext H hext
  exact ⟨{ sys with st := st' }, by simp [stepH, e],
    Own.of_stable H hown hst hc hext.db hext.roots (views_stable H hst hown.views), hext⟩

theorem readView_refines {sys : Sys} {T : Tree} {V : List (Option Node)} (hown : Own H sys T V) (i : Nat) (r : Read)
    (fuel : Nat) (hfuel : Adequate fuel T V) :
    ∃ sys', stepH H Cfg.asIs fuel sys (.readView i r) =
        some (sys', .read ((V[i]?).map (fun root => readRoot root r))) ∧
      Own H sys' T V ∧ Ext sys.st sys'.st := by
  cases hv : sys.views[i]? with
  | none =>
    have : V[i]? = none := by
      rw [List.getElem?_eq_none_iff] at hv ⊢
      rw [hown.views.1]; exact hv
    exact ⟨sys, by simp [stepH, hv, this], hown, ExtOn.refl _ _⟩
  | some h =>
    have hlt : i < sys.views.length := by
      rcases Nat.lt_or_ge i sys.views.length with h' | h'
      · exact h'
      · rw [List.getElem?_eq_none h'] at hv; cases hv
    have hlt' : i < V.length := by rw [hown.views.1]; exact hlt
    have hV : V[i]? = some V[i] := List.getElem?_eq_getElem hlt'
    have hrep := hown.views.2 i V[i] h hV hv
    have hf : ∀ t, V[i] = some t → depth t < fuel := fun t ht => hfuel.2 V[i] (List.getElem_mem hlt') t ht
    obtain ⟨st', e, hext, hc⟩ := readRootH_spec H r fuel All sys.st V[i] h hf hown.cache hrep
    have hst := RepStable.of_ext H hext
    exact ⟨{ sys with st := st' }, by simp [stepH, hv, hV, e],
      Own.of_stable H hown hst hc hext.db hext.roots (views_stable H hst hown.views), hext⟩

/-- **heap_refines_pure.**  Every heap-level operation (as-is clone discipline, injective hash,
adequate fuel) succeeds, answers what the pure model answers, re-establishes the ownership
invariant for the pure model's next state, keeps **every** representation judgement, and lets every
object evolve only by the write-once discipline `cellLe`. -/
theorem step_refines (hinj : Function.Injective H) {sys : Sys} {T : Tree} {V : List (Option Node)}
    (hown : Own H sys T V) (op : HOp) (fuel : Nat) (hfuel : Adequate fuel T V) :
    ∃ sys', stepH H Cfg.asIs fuel sys op = some (sys', pureOut H T V op) ∧
      Own H sys' (pureStep T op) (pureViews T V op) ∧ RepStable H sys.st sys'.st ∧ Grows sys.st sys'.st := by
  cases op with
  | set k v =>
    obtain ⟨sys', e, ho, hext⟩ := set_refines H hown k v fuel hfuel
    exact ⟨sys', e, ho, RepStable.of_ext H hext, Grows.of_Ext hext⟩
  | remove k =>
    obtain ⟨sys', e, ho, hext⟩ := remove_refines H hown k fuel hfuel
    exact ⟨sys', e, ho, RepStable.of_ext H hext, Grows.of_Ext hext⟩
  | save => exact save_refines H hinj hown fuel hfuel
  | rollback =>
    obtain ⟨sys', e, ho, hst⟩ := rollback_refines H hown fuel
    exact ⟨sys', e, ho, by rw [hst]; exact RepStable.refl H _, by rw [hst]; exact Grows.refl _⟩
  | workingHash => exact workingHash_refines H hown fuel hfuel
  | getImmutable v =>
    obtain ⟨sys', e, ho, hext⟩ := getImmutable_refines H hown v fuel
    exact ⟨sys', e, ho, RepStable.of_ext H hext, Grows.of_Ext hext⟩
  | lazyLoad target =>
    obtain ⟨sys', e, ho, hext⟩ := lazyLoad_refines H hown target fuel
    exact ⟨sys', e, ho, RepStable.of_ext H hext, Grows.of_Ext hext⟩
  | readWorking r =>
    obtain ⟨sys', e, ho, hext⟩ := readWorking_refines H hown r fuel hfuel
    exact ⟨sys', e, ho, RepStable.of_ext H hext, Grows.of_Ext hext⟩
  | readView i r =>
    obtain ⟨sys', e, ho, hext⟩ := readView_refines H hown i r fuel hfuel
    exact ⟨sys', e, ho, RepStable.of_ext H hext, Grows.of_Ext hext⟩

/-- The pure model's run: final tree, final view trees, answers. -/
def pureRun (T : Tree) (V : List (Option Node)) : List HOp → Tree × List (Option Node) × List HOut
  | [] => (T, V, [])
  | op :: rest =>
    let r := pureRun (pureStep T op) (pureViews T V op) rest
    (r.1, r.2.1, pureOut H T V op :: r.2.2)

/-- Fuel is adequate along a whole history. -/
def AdequateRun (fuel : Nat) : Tree → List (Option Node) → List HOp → Prop
  | T, V, [] => Adequate fuel T V
  | T, V, op :: rest => Adequate fuel T V ∧ AdequateRun fuel (pureStep T op) (pureViews T V op) rest

/-- **Histories.** For every operation list the heap model succeeds, gives the pure model's
answers, ends in a state owning the pure model's final state, and every representation judgement
of the start state still holds at the end. -/
theorem run_refines (hinj : Function.Injective H) (fuel : Nat) :
    ∀ (ops : List HOp) (sys : Sys) (T : Tree) (V : List (Option Node)), Own H sys T V → AdequateRun fuel T V ops →
      ∃ sys', runH H Cfg.asIs fuel sys ops = some (sys', (pureRun H T V ops).2.2) ∧
        Own H sys' (pureRun H T V ops).1 (pureRun H T V ops).2.1 ∧ RepStable H sys.st sys'.st ∧ Grows sys.st sys'.st := by
  intro ops
  induction ops with
  | nil =>
    intro sys T V hown _
    exact ⟨sys, rfl, hown, RepStable.refl H _, Grows.refl _⟩
  | cons op rest ih =>
    intro sys T V hown had
    obtain ⟨sys1, e1, ho1, hs1, hg1⟩ := step_refines H hinj hown op fuel had.1
    obtain ⟨sys2, e2, ho2, hs2, hg2⟩ := ih sys1 _ _ ho1 had.2
    exact ⟨sys2, by simp only [runH, e1, e2, Option.map_some, pureRun], ho2, hs1.trans H hs2, hg1.trans hg2⟩

/-- The empty system owns the empty pure tree. -/
theorem Own.init (cacheSize : Nat) : Own H { st := { cacheSize := cacheSize } } Tree.empty [] where
  cache := by intro hh a h; cases h
  dbwf := by intro hh s h; cases h
  root := trivial
  last := trivial
  version := rfl
  tversions := rfl
  roots := rfl
  indb := by intro p hp; cases hp
  latest := rfl
  wf := Tree.WF.empty
  views := ⟨rfl, fun i root h h1 _ => by simp at h1⟩

end Iavl.Heap
