import PocketModel.Store.NodeDB
import Proofs.Codec.AminoNode
/-! Lemmas about the node database model (shared by C04, C07, C08). -/
set_option linter.unusedSimpArgs false
set_option linter.unusedVariables false
namespace NodeDB
open Amino RootMulti

/-! ### association lists -/
section alist
variable {κ ν : Type} [DecidableEq κ]

@[simp] theorem aget_nil (k : κ) : aget k ([] : List (κ × ν)) = none := rfl

theorem aget_cons (k k' : κ) (v : ν) (m : List (κ × ν)) :
    aget k ((k', v) :: m) = if k' = k then some v else aget k m := rfl

theorem aget_filter (q : κ → Bool) (k : κ) (m : List (κ × ν)) :
    aget k (m.filter fun e => q e.1) = if q k then aget k m else none := by
  induction m with
  | nil => simp
  | cons e m ih =>
    obtain ⟨k', v⟩ := e
    simp only [List.filter_cons]
    by_cases hk : k' = k
    · subst hk
      cases hq : q k' <;> simp [aget_cons, hq, ih]
    · cases hq : q k' <;> simp [aget_cons, hq, hk, ih]

theorem aget_aput_self (k : κ) (v : ν) (m : List (κ × ν)) : aget k (aput k v m) = some v := by
  simp [aput, aget_cons]

theorem aget_aput_ne {k k' : κ} (h : k ≠ k') (v : ν) (m : List (κ × ν)) : aget k' (aput k v m) = aget k' m := by
  unfold aput
  rw [aget_cons, if_neg h]
  have := aget_filter (fun x => decide (x ≠ k)) k' m
  simp only [decide_eq_true_eq] at this
  rw [this, if_pos (Ne.symm h)]

theorem aget_aput (k k' : κ) (v : ν) (m : List (κ × ν)) :
    aget k' (aput k v m) = if k = k' then some v else aget k' m := by
  by_cases h : k = k'
  · subst h; simp [aget_aput_self]
  · simp [h, aget_aput_ne h]

theorem aget_adel (k k' : κ) (m : List (κ × ν)) : aget k' (adel k m) = if k' = k then none else aget k' m := by
  unfold adel
  have := aget_filter (fun x => decide (x ≠ k)) k' m
  simp only [decide_eq_true_eq] at this
  rw [this]
  by_cases h : k' = k <;> simp [h]

theorem aget_some_mem {k : κ} {v : ν} {m : List (κ × ν)} (h : aget k m = some v) : (k, v) ∈ m := by
  induction m with
  | nil => simp at h
  | cons e m ih =>
    obtain ⟨k', v'⟩ := e
    rw [aget_cons] at h
    by_cases hk : k' = k
    · simp [hk] at h; subst hk; subst h; exact List.mem_cons_self
    · simp [hk] at h; exact List.mem_cons_of_mem _ (ih h)

theorem aget_isSome_of_mem {k : κ} {v : ν} {m : List (κ × ν)} (h : (k, v) ∈ m) : (aget k m).isSome := by
  induction m with
  | nil => cases h
  | cons e m ih =>
    obtain ⟨k', v'⟩ := e
    rw [aget_cons]
    by_cases hk : k' = k
    · simp [hk]
    · simp only [hk, if_false]
      rcases List.mem_cons.mp h with h | h
      · cases h; exact absurd rfl hk
      · exact ih h

theorem aget_none_all {m : List (κ × ν)} (h : ∀ k, aget k m = none) : m = [] := by
  cases m with
  | nil => rfl
  | cons e m => obtain ⟨k, v⟩ := e; have := h k; rw [aget_cons] at this; simp at this
end alist

/-! ### maxKey -/

theorem maxKey_aux (p : Int → Bool) (l : List (Int × Bytes)) (m0 : Int) :
    let r := l.foldl (fun m e => if p e.1 ∧ m < e.1 then e.1 else m) m0
    m0 ≤ r ∧ (r = m0 ∨ ∃ e ∈ l, p e.1 = true ∧ e.1 = r) ∧ ∀ e ∈ l, p e.1 = true → e.1 ≤ r := by
  induction l generalizing m0 with
  | nil => simp
  | cons x l ih =>
    simp only [List.foldl_cons]
    by_cases hx : p x.1 = true ∧ m0 < x.1
    · rw [if_pos hx]
      obtain ⟨h1, h2, h3⟩ := ih x.1
      refine ⟨by omega, ?_, ?_⟩
      · rcases h2 with h2 | ⟨e, he, hp, hr⟩
        · exact Or.inr ⟨x, List.mem_cons_self, hx.1, h2.symm⟩
        · exact Or.inr ⟨e, List.mem_cons_of_mem _ he, hp, hr⟩
      · intro e he hp
        rcases List.mem_cons.mp he with rfl | he
        · exact h1
        · exact h3 e he hp
    · rw [if_neg hx]
      obtain ⟨h1, h2, h3⟩ := ih m0
      refine ⟨h1, ?_, ?_⟩
      · rcases h2 with h2 | ⟨e, he, hp, hr⟩
        · exact Or.inl h2
        · exact Or.inr ⟨e, List.mem_cons_of_mem _ he, hp, hr⟩
      · intro e he hp
        rcases List.mem_cons.mp he with rfl | he
        · have : ¬ m0 < e.1 := fun h => hx ⟨hp, h⟩
          omega
        · exact h3 e he hp

/-- `maxKey` is the largest selected key when the selected keys are exactly the positive keys up to `k`. -/
theorem maxKey_eq (p : Int → Bool) (l : List (Int × Bytes)) (k : Int) (hk : 0 ≤ k)
    (hsel : ∀ e ∈ l, p e.1 = true → 1 ≤ e.1 ∧ e.1 ≤ k)
    (hmem : 1 ≤ k → ∃ e ∈ l, e.1 = k ∧ p e.1 = true) : maxKey p l = k := by
  obtain ⟨h1, h2, h3⟩ := maxKey_aux p l 0
  unfold maxKey
  by_cases hk1 : 1 ≤ k
  · obtain ⟨e, he, hek, hp⟩ := hmem hk1
    have := h3 e he hp
    rcases h2 with h2 | ⟨e', he', hp', hr⟩
    · omega
    · have := (hsel e' he' hp').2; omega
  · rcases h2 with h2 | ⟨e', he', hp', hr⟩
    · omega
    · have := hsel e' he' hp'; omega

/-! ### trees -/

theorem Tree.self_mem_subtrees (t : Tree) : t ∈ t.subtrees := by
  cases t <;> simp [Tree.subtrees]

theorem Tree.subtrees_trans {a b c : Tree} (h1 : a ∈ b.subtrees) (h2 : b ∈ c.subtrees) : a ∈ c.subtrees := by
  induction c with
  | leaf k v ver =>
    simp [Tree.subtrees] at h2; subst h2; exact h1
  | inner k h s ver l r ihl ihr =>
    simp only [Tree.subtrees, List.mem_cons, List.mem_append] at h2 ⊢
    rcases h2 with rfl | h2 | h2
    · simpa [Tree.subtrees] using h1
    · exact Or.inr (Or.inl (ihl h2))
    · exact Or.inr (Or.inr (ihr h2))

/-- Output of the hash function: non-empty and of representable length (`tmhash`: 32 bytes). -/
structure HashOK (H : Bytes → Bytes) : Prop where
  nonempty : ∀ x, H x ≠ []
  short : ∀ x, (H x).length < 2 ^ 63

/-- Every field fits its machine type and children are strictly lower than their parent (so that
`height == 0` identifies leaves). -/
def Tree.WF : Tree → Prop
  | .leaf k v ver => isInt64 ver ∧ k.length < 2 ^ 63 ∧ v.length < 2 ^ 63
  | .inner k h s ver l r => isInt8 h ∧ isInt64 s ∧ isInt64 ver ∧ k.length < 2 ^ 63 ∧
      0 ≤ l.height ∧ l.height < h ∧ 0 ≤ r.height ∧ r.height < h ∧ l.WF ∧ r.WF

theorem hashTree_ne_nil {H : Bytes → Bytes} (hH : HashOK H) (t : Tree) : hashTree H t ≠ [] := by
  cases t <;> exact hH.nonempty _

theorem hashTree_short {H : Bytes → Bytes} (hH : HashOK H) (t : Tree) : (hashTree H t).length < 2 ^ 63 := by
  cases t <;> exact hH.short _

theorem Tree.toRec_WF {H : Bytes → Bytes} (hH : HashOK H) (t : Tree) (h : t.WF) : (t.toRec H).WF := by
  cases t with
  | leaf k v ver =>
    obtain ⟨h1, h2, h3⟩ := h
    constructor <;> simp_all [Tree.toRec, isInt8, isInt64]
  | inner k hh s ver l r =>
    obtain ⟨h1, h2, h3, h4, h5, h6, h7, h8, _, _⟩ := h
    constructor <;> simp_all [Tree.toRec, hashTree_short hH]
    · intro h0; unfold Tree.height at *; omega

theorem Tree.toRec_height (H : Bytes → Bytes) (t : Tree) : (t.toRec H).height = t.height := by
  cases t <;> rfl

theorem Tree.height_nonneg {t : Tree} (h : t.WF) : 0 ≤ t.height := by
  cases t with
  | leaf => simp [Tree.height]
  | inner k hh s ver l r => obtain ⟨_, _, _, _, h5, h6, _⟩ := h; simp [Tree.height]; omega

theorem Tree.WF_subtree {t s : Tree} (h : t.WF) (hs : s ∈ t.subtrees) : s.WF := by
  induction t with
  | leaf k v ver => simp [Tree.subtrees] at hs; subst hs; exact h
  | inner k hh sz ver l r ihl ihr =>
    simp only [Tree.subtrees, List.mem_cons, List.mem_append] at hs
    rcases hs with rfl | hs | hs
    · exact h
    · exact ihl h.2.2.2.2.2.2.2.2.1 hs
    · exact ihr h.2.2.2.2.2.2.2.2.2 hs

/-! ### the hash-addressed node map -/
section nodes
variable (H : Bytes → Bytes)

/-- `t` and all its descendants are stored under their hashes. -/
def Present (nodes : List (Bytes × Bytes)) (t : Tree) : Prop :=
  ∀ s ∈ t.subtrees, aget (hashTree H s) nodes = some (s.encode H)

/-- Every entry of the node map is the encoding of a tree of the universe `S`, under its hash. -/
def Cons (S : Tree → Prop) (nodes : List (Bytes × Bytes)) : Prop :=
  ∀ h bz, aget h nodes = some bz → ∃ s, S s ∧ hashTree H s = h ∧ bz = s.encode H

/-- No two different trees of the universe have the same hash. -/
def Inj (S : Tree → Prop) : Prop := ∀ a b, S a → S b → hashTree H a = hashTree H b → a = b

variable {H}

theorem Present.sub {nodes : List (Bytes × Bytes)} {t s : Tree} (h : Present H nodes t) (hs : s ∈ t.subtrees) :
    Present H nodes s := fun u hu => h u (Tree.subtrees_trans hu hs)

theorem load_of_present (hH : HashOK H) (nodes : List (Bytes × Bytes)) (t : Tree) (hwf : t.WF)
    (hp : Present H nodes t) : ∀ fuel : Nat, t.height.toNat < fuel → load nodes fuel (hashTree H t) = some t := by
  induction t with
  | leaf k v ver =>
    intro fuel hf
    cases fuel with
    | zero => omega
    | succ fuel =>
      have h1 := hp _ (Tree.self_mem_subtrees _)
      simp only [load, h1, Tree.encode]
      rw [makeNode_writeBytes _ (Tree.toRec_WF hH _ hwf)]
      simp [Tree.toRec]
  | inner k hh s ver l r ihl ihr =>
    intro fuel hf
    cases fuel with
    | zero => omega
    | succ fuel =>
      have h1 := hp _ (Tree.self_mem_subtrees _)
      obtain ⟨_, _, _, _, h5, h6, h7, h8, hwl, hwr⟩ := hwf
      have hwf' : (Tree.inner k hh s ver l r).WF := ⟨by assumption, by assumption, by assumption, by assumption, h5, h6, h7, h8, hwl, hwr⟩
      simp only [load, h1, Tree.encode]
      rw [makeNode_writeBytes _ (Tree.toRec_WF hH _ hwf')]
      have hne : hh ≠ 0 := by omega
      simp only [Tree.toRec, hne, if_false]
      simp only [Tree.height] at hf
      have hl : l ∈ (Tree.inner k hh s ver l r).subtrees := by
        simp [Tree.subtrees, Tree.self_mem_subtrees]
      have hr : r ∈ (Tree.inner k hh s ver l r).subtrees := by
        simp [Tree.subtrees, Tree.self_mem_subtrees]
      rw [ihl hwl (hp.sub hl) fuel (by omega), ihr hwr (hp.sub hr) fuel (by omega)]

theorem loadRoot_of_present (hH : HashOK H) (nodes : List (Bytes × Bytes)) (t : Tree) (hwf : t.WF)
    (hp : Present H nodes t) : loadRoot nodes (hashTree H t) = some (some t) := by
  unfold loadRoot
  rw [if_neg (hashTree_ne_nil hH t)]
  have h1 := hp _ (Tree.self_mem_subtrees _)
  simp only [h1, Tree.encode]
  rw [makeNode_writeBytes _ (Tree.toRec_WF hH _ hwf)]
  simp only [Tree.toRec_height]
  rw [load_of_present hH nodes t hwf hp _ (by omega)]
  rfl

theorem loadRoot_hashOpt (hH : HashOK H) (nodes : List (Bytes × Bytes)) (ot : Option Tree)
    (hwf : ∀ t, ot = some t → t.WF) (hp : ∀ t, ot = some t → Present H nodes t) :
    loadRoot nodes (hashOpt H ot) = some ot := by
  cases ot with
  | none => simp [hashOpt, loadRoot]
  | some t => exact loadRoot_of_present hH nodes t (hwf t rfl) (hp t rfl)

/-! ### SaveBranch -/

theorem put_cons {S : Tree → Prop} {nodes : List (Bytes × Bytes)} (hc : Cons H S nodes) {s : Tree} (hs : S s) :
    Cons H S (aput (hashTree H s) (s.encode H) nodes) := by
  intro h bz hg
  rw [aget_aput] at hg
  by_cases e : hashTree H s = h
  · simp [e] at hg; exact ⟨s, hs, e, hg.symm⟩
  · simp [e] at hg; exact hc h bz hg

theorem put_mono {S : Tree → Prop} {nodes : List (Bytes × Bytes)} (hc : Cons H S nodes) (hi : Inj H S) {s : Tree} (hs : S s)
    {h bz : Bytes} (hg : aget h nodes = some bz) : aget h (aput (hashTree H s) (s.encode H) nodes) = some bz := by
  rw [aget_aput]
  by_cases e : hashTree H s = h
  · obtain ⟨s', hs', hh, hbz⟩ := hc h bz hg
    have : s = s' := hi s s' hs hs' (e.trans hh.symm)
    subst this
    simp [e, hbz]
  · simp [e, hg]

theorem saveBranch_cons {S : Tree → Prop} (cur : Int) (t : Tree) :
    ∀ nodes : List (Bytes × Bytes), Cons H S nodes → (∀ s ∈ t.subtrees, S s) → Cons H S (saveBranch H cur t nodes) := by
  induction t with
  | leaf k v ver =>
    intro nodes hc hS
    simp only [saveBranch]
    split
    · exact hc
    · exact put_cons hc (hS _ (Tree.self_mem_subtrees _))
  | inner k hh s ver l r ihl ihr =>
    intro nodes hc hS
    simp only [saveBranch]
    split
    · exact hc
    · have hl : ∀ u ∈ l.subtrees, S u := fun u hu => hS u (by simp [Tree.subtrees, hu])
      have hr : ∀ u ∈ r.subtrees, S u := fun u hu => hS u (by simp [Tree.subtrees, hu])
      exact put_cons (ihr _ (ihl _ hc hl) hr) (hS _ (Tree.self_mem_subtrees _))

theorem saveBranch_mono {S : Tree → Prop} (hi : Inj H S) (cur : Int) (t : Tree) :
    ∀ nodes : List (Bytes × Bytes), Cons H S nodes → (∀ s ∈ t.subtrees, S s) →
      ∀ h bz, aget h nodes = some bz → aget h (saveBranch H cur t nodes) = some bz := by
  induction t with
  | leaf k v ver =>
    intro nodes hc hS h bz hg
    simp only [saveBranch]
    split
    · exact hg
    · exact put_mono hc hi (hS _ (Tree.self_mem_subtrees _)) hg
  | inner k hh s ver l r ihl ihr =>
    intro nodes hc hS h bz hg
    simp only [saveBranch]
    split
    · exact hg
    · have hl : ∀ u ∈ l.subtrees, S u := fun u hu => hS u (by simp [Tree.subtrees, hu])
      have hr : ∀ u ∈ r.subtrees, S u := fun u hu => hS u (by simp [Tree.subtrees, hu])
      have c1 := saveBranch_cons (H := H) cur l nodes hc hl
      have c2 := saveBranch_cons (H := H) cur r _ c1 hr
      exact put_mono c2 hi (hS _ (Tree.self_mem_subtrees _)) (ihr _ c1 hr h bz (ihl _ hc hl h bz hg))

theorem Present.mono {S : Tree → Prop} (hi : Inj H S) (cur : Int) (t : Tree) {nodes : List (Bytes × Bytes)}
    (hc : Cons H S nodes) (hS : ∀ s ∈ t.subtrees, S s) {u : Tree} (hu : Present H nodes u) :
    Present H (saveBranch H cur t nodes) u :=
  fun s hs => saveBranch_mono hi cur t nodes hc hS _ _ (hu s hs)

theorem saveBranch_present {S : Tree → Prop} (hi : Inj H S) (cur : Int) (t : Tree) :
    ∀ nodes : List (Bytes × Bytes), Cons H S nodes → (∀ s ∈ t.subtrees, S s) →
      (∀ s ∈ t.subtrees, s.version ≤ cur → Present H nodes s) → Present H (saveBranch H cur t nodes) t := by
  induction t with
  | leaf k v ver =>
    intro nodes hc hS hp
    simp only [saveBranch]
    split
    · rename_i hv; exact hp _ (Tree.self_mem_subtrees _) hv
    · intro s hs
      simp [Tree.subtrees] at hs; subst hs
      exact aget_aput_self _ _ _
  | inner k hh sz ver l r ihl ihr =>
    intro nodes hc hS hp
    simp only [saveBranch]
    split
    · rename_i hv; exact hp _ (Tree.self_mem_subtrees _) hv
    · have hl : ∀ u ∈ l.subtrees, S u := fun u hu => hS u (by simp [Tree.subtrees, hu])
      have hr : ∀ u ∈ r.subtrees, S u := fun u hu => hS u (by simp [Tree.subtrees, hu])
      have c1 := saveBranch_cons (H := H) cur l nodes hc hl
      have c2 := saveBranch_cons (H := H) cur r _ c1 hr
      have pl : Present H (saveBranch H cur l nodes) l :=
        ihl nodes hc hl (fun s hs hv => hp s (by simp [Tree.subtrees, hs]) hv)
      have pr : Present H (saveBranch H cur r (saveBranch H cur l nodes)) r :=
        ihr _ c1 hr (fun s hs hv => Present.mono hi cur l hc hl (hp s (by simp [Tree.subtrees, hs]) hv))
      have pl2 : Present H (saveBranch H cur r (saveBranch H cur l nodes)) l := Present.mono hi cur r c1 hr pl
      intro s hs
      simp only [Tree.subtrees, List.mem_cons, List.mem_append] at hs
      rcases hs with rfl | hs | hs
      · exact aget_aput_self _ _ _
      · exact put_mono c2 hi (hS _ (Tree.self_mem_subtrees _)) (pl2 s hs)
      · exact put_mono c2 hi (hS _ (Tree.self_mem_subtrees _)) (pr s hs)

end nodes

/-! ### histories of saved versions -/
section hist
variable (H : Bytes → Bytes)

/-- The tree saved as version `v` (versions are numbered from 1). -/
def histAt (hist : List (Option Tree)) (v : Int) : Option (Option Tree) :=
  if 1 ≤ v then hist[(v - 1).toNat]? else none

def lastOf (hist : List (Option Tree)) : Option Tree := hist.getLast?.getD none

theorem lastOf_append (hist : List (Option Tree)) (r : Option Tree) : lastOf (hist ++ [r]) = r := by
  simp [lastOf]

theorem histAt_append (hist : List (Option Tree)) (r : Option Tree) (v : Int) :
    histAt (hist ++ [r]) v = if v = hist.length + 1 then some r else histAt hist v := by
  unfold histAt
  by_cases h1 : 1 ≤ v
  · simp only [h1, if_true]
    by_cases h2 : v = hist.length + 1
    · subst h2
      have : ((hist.length : Int) + 1 - 1).toNat = hist.length := by omega
      simp [this]
    · simp only [h2, if_false]
      by_cases h3 : (v - 1).toNat < hist.length
      · rw [List.getElem?_append_left h3]
      · have h4 : hist.length < (v - 1).toNat := by omega
        rw [List.getElem?_eq_none (by simp; omega), List.getElem?_eq_none (by omega)]
  · have : v ≠ hist.length + 1 := by omega
    simp [h1, this]

theorem histAt_some_iff (hist : List (Option Tree)) (v : Int) :
    (histAt hist v).isSome ↔ 1 ≤ v ∧ v ≤ hist.length := by
  unfold histAt
  by_cases h1 : 1 ≤ v
  · simp only [h1, if_true, true_and]
    by_cases h2 : (v - 1).toNat < hist.length
    · rw [List.getElem?_eq_getElem h2]; simp; omega
    · rw [List.getElem?_eq_none (by omega)]; simp; omega
  · simp [h1]

theorem histAt_mem {hist : List (Option Tree)} {v : Int} {ot : Option Tree} (h : histAt hist v = some ot) : ot ∈ hist := by
  unfold histAt at h
  split at h
  · exact List.mem_of_getElem? h
  · cases h

/-- What the saved trees must satisfy: they live in the universe `S`, fit the machine types, and a
tree saved as version `i+1` contains no node of a later version. -/
structure HistOK (S : Tree → Prop) (hist : List (Option Tree)) : Prop where
  inS : ∀ ot ∈ hist, ∀ t, ot = some t → ∀ s ∈ t.subtrees, S s
  wf : ∀ ot ∈ hist, ∀ t, ot = some t → t.WF
  vbound : ∀ (i : Nat) (t : Tree), hist[i]? = some (some t) → ∀ s ∈ t.subtrees, s.version ≤ i + 1

/-- The disk of one IAVL store after the versions `hist` have been saved. -/
structure GoodDisk (S : Tree → Prop) (hist : List (Option Tree)) (db : NDB) : Prop where
  cons : Cons H S db.nodes
  roots : ∀ v, aget v db.roots = (histAt hist v).map (hashOpt H)
  present : ∀ ot ∈ hist, ∀ t, ot = some t → Present H db.nodes t
  orph : ∀ e ∈ db.orphans, ∃ o, S o ∧ hashTree H o = e.1.2.2 ∧ o.version = e.1.2.1 ∧ e.2 = e.1.2.2

/-- The in-memory tree of a store that has saved (or loaded the latest of) the versions `hist`. -/
structure GoodTree (S : Tree → Prop) (hist : List (Option Tree)) (t : MTree) : Prop where
  disk : GoodDisk H S hist t.db
  version : t.version = hist.length
  lastSaved : t.lastSaved = lastOf hist
  persistedTo : t.persistedTo ≤ hist.length
  latest : t.latest = hist.length
  versions : ∀ v ∈ t.versions, v ≤ hist.length

/-- What a block may do to the working tree (C03 shows the IAVL algorithm does exactly this): nodes
it keeps come from the last saved tree, nodes it creates carry the next version. -/
structure StepOK (S : Tree → Prop) (k : Int) (prev next : Option Tree) : Prop where
  prov : ∀ s ∈ subtreesOpt next, s.version ≤ k → s ∈ subtreesOpt prev
  vb : ∀ s ∈ subtreesOpt next, s.version ≤ k + 1
  wf : ∀ t, next = some t → t.WF
  inS : ∀ s ∈ subtreesOpt next, S s

variable {H}

theorem HistOK.append {S : Tree → Prop} {hist : List (Option Tree)} (h : HistOK S hist) {prev r : Option Tree}
    (hs : StepOK S hist.length prev r) : HistOK S (hist ++ [r]) := by
  constructor
  · intro ot hot t e s hs'
    rcases List.mem_append.mp hot with hot | hot
    · exact h.inS ot hot t e s hs'
    · simp at hot; subst hot; subst e; exact hs.inS s hs'
  · intro ot hot t e
    rcases List.mem_append.mp hot with hot | hot
    · exact h.wf ot hot t e
    · simp at hot; subst hot; exact hs.wf t e
  · intro i t hi s hs'
    by_cases hlt : i < hist.length
    · rw [List.getElem?_append_left hlt] at hi
      exact h.vbound i t hi s hs'
    · have : i = hist.length := by
        by_cases hne : i = hist.length
        · exact hne
        · rw [List.getElem?_eq_none (by simp; omega)] at hi; cases hi
      subst this
      simp at hi; subst hi
      exact hs.vb s hs'

theorem mem_aput {κ ν : Type} [DecidableEq κ] {k : κ} {v : ν} {m : List (κ × ν)} {e : κ × ν}
    (h : e ∈ aput k v m) : e = (k, v) ∨ e ∈ m := by
  unfold aput at h
  rcases List.mem_cons.mp h with h | h
  · exact Or.inl h
  · exact Or.inr (List.mem_filter.mp h).1

theorem mem_foldl_aput {κ ν α : Type} [DecidableEq κ] (f : α → κ) (g : α → ν) (l : List α) :
    ∀ (m : List (κ × ν)) (e : κ × ν), e ∈ l.foldl (fun m o => aput (f o) (g o) m) m → (∃ o ∈ l, e = (f o, g o)) ∨ e ∈ m := by
  induction l with
  | nil => intro m e h; exact Or.inr h
  | cons o l ih =>
    intro m e h
    simp only [List.foldl_cons] at h
    rcases ih _ e h with ⟨o', ho', he⟩ | h
    · exact Or.inl ⟨o', List.mem_cons_of_mem _ ho', he⟩
    · rcases mem_aput h with h | h
      · exact Or.inl ⟨o, List.mem_cons_self, h⟩
      · exact Or.inr h

theorem GoodDisk.latestOnDisk {S : Tree → Prop} {hist : List (Option Tree)} {db : NDB} (g : GoodDisk H S hist db) :
    db.latestOnDisk = hist.length := by
  unfold NDB.latestOnDisk
  apply maxKey_eq _ _ _ (by omega)
  · intro e he hp
    have hs := aget_isSome_of_mem he
    rw [g.roots] at hs
    simp only [Option.isSome_map] at hs
    have := (histAt_some_iff hist e.1).mp hs
    exact this
  · intro hk
    have : (histAt hist hist.length).isSome := (histAt_some_iff hist _).mpr ⟨hk, by omega⟩
    have h2 : (aget (hist.length : Int) db.roots).isSome := by rw [g.roots]; simpa using this
    obtain ⟨x, hx⟩ := Option.isSome_iff_exists.mp h2
    exact ⟨_, aget_some_mem hx, rfl, by simpa using hk⟩

theorem GoodDisk.prevVersion {S : Tree → Prop} {hist : List (Option Tree)} {db : NDB} (g : GoodDisk H S hist db) :
    db.prevVersion (hist.length + 1) = hist.length := by
  unfold NDB.prevVersion
  apply maxKey_eq _ _ _ (by omega)
  · intro e he hp
    simp only [Bool.and_eq_true, decide_eq_true_eq] at hp
    omega
  · intro hk
    have : (histAt hist hist.length).isSome := (histAt_some_iff hist _).mpr ⟨hk, by omega⟩
    have h2 : (aget (hist.length : Int) db.roots).isSome := by rw [g.roots]; simpa using this
    obtain ⟨x, hx⟩ := Option.isSome_iff_exists.mp h2
    refine ⟨_, aget_some_mem hx, rfl, ?_⟩
    simp only [Bool.and_eq_true, decide_eq_true_eq]
    omega

/-- `SaveVersion` on a good tree whose working tree is a legal successor: it succeeds, returns the
working tree's hash and the next version, and the result is a good tree for the extended history. -/
theorem saveVersion_good (hH : HashOK H) {S : Tree → Prop} (hi : Inj H S) {hist : List (Option Tree)} {t : MTree}
    (g : GoodTree H S hist t) (hok : HistOK S hist) (hs : StepOK S hist.length t.lastSaved t.root) :
    ∃ t', saveVersion H t = some (t', hashOpt H t.root, (hist.length : Int) + 1) ∧
      GoodTree H S (hist ++ [t.root]) t' ∧ t'.root = t.root := by
  have hver : ¬ (t.versions.contains (t.version + 1) = true) := by
    intro hc
    have := g.versions _ (List.contains_iff_mem.mp hc)
    rw [g.version] at this; omega
  have hprev := g.disk.prevVersion
  have hno : (orphansOf t.persistedTo t.lastSaved t.root).any (fun o => decide (o.version > t.db.prevVersion (t.version + 1))) = false := by
    rw [g.version, hprev]
    apply List.any_eq_false.mpr
    intro o ho
    unfold orphansOf at ho
    have := (List.mem_filter.mp ho).2
    simp only [Bool.and_eq_true, decide_eq_true_eq] at this
    have := g.persistedTo
    simp; omega
  have hlat : ¬ (t.version + 1 ≠ t.latest + 1) := by rw [g.version, g.latest]; simp
  unfold saveVersion
  simp only [hver, if_false, hlat, hno, Bool.false_eq_true]
  rw [g.version]
  refine ⟨_, rfl, ?_, rfl⟩
  · -- the new disk
    have hSr : ∀ r, t.root = some r → ∀ s ∈ r.subtrees, S s := fun r e s hs' => hs.inS s (by simpa [e, subtreesOpt] using hs')
    have hcons : Cons H S (match t.root with | none => t.db.nodes | some r => saveBranch H t.persistedTo r t.db.nodes) := by
      cases e : t.root with
      | none => exact g.disk.cons
      | some r => exact saveBranch_cons _ r _ g.disk.cons (hSr r e)
    have hmono : ∀ u, Present H t.db.nodes u →
        Present H (match t.root with | none => t.db.nodes | some r => saveBranch H t.persistedTo r t.db.nodes) u := by
      intro u hu
      cases e : t.root with
      | none => exact hu
      | some r => exact Present.mono hi _ r g.disk.cons (hSr r e) hu
    constructor
    · constructor
      · exact hcons
      · intro v
        simp only
        rw [aget_aput, histAt_append]
        by_cases hv : (hist.length : Int) + 1 = v
        · subst hv; simp
        · have : ¬ v = hist.length + 1 := fun e => hv e.symm
          simp only [hv, this, if_false]
          exact g.disk.roots v
      · intro ot hot u e
        rcases List.mem_append.mp hot with hot | hot
        · exact hmono u (g.disk.present ot hot u e)
        · simp at hot
          subst hot
          simp only [e]
          apply saveBranch_present hi _ u _ g.disk.cons (hSr u e)
          intro s hs' hv
          have hv : s.version ≤ hist.length := Int.le_trans hv g.persistedTo
          have hm := hs.prov s (by simpa [e, subtreesOpt] using hs') hv
          rw [g.lastSaved] at hm
          cases hl : lastOf hist with
          | none => simp [hl, subtreesOpt] at hm
          | some p =>
            simp only [hl, subtreesOpt] at hm
            have hp : some p ∈ hist := by
              unfold lastOf at hl
              cases hg : hist.getLast? with
              | none => simp [hg] at hl
              | some x => simp [hg] at hl; subst hl; exact List.mem_of_getLast? hg
            exact (g.disk.present _ hp p rfl).sub hm
      · intro e he
        simp only at he
        rcases mem_foldl_aput _ _ _ _ _ he with ⟨o, ho, rfl⟩ | he
        · refine ⟨o, ?_, rfl, rfl, rfl⟩
          unfold orphansOf at ho
          have hm := (List.mem_filter.mp ho).1
          rw [g.lastSaved] at hm
          cases hl : lastOf hist with
          | none => simp [hl, subtreesOpt] at hm
          | some p =>
            simp only [hl, subtreesOpt] at hm
            have hp : some p ∈ hist := by
              unfold lastOf at hl
              cases hg : hist.getLast? with
              | none => simp [hg] at hl
              | some x => simp [hg] at hl; subst hl; exact List.mem_of_getLast? hg
            exact hok.inS _ hp p rfl o hm
        · exact g.disk.orph e he
    · simp [g.version]
    · simp [lastOf_append]
    · simp [g.version]
    · have hl := g.latest
      simp only [MTree.latest] at hl ⊢
      simp only [hl]
      have : (hist.length : Int) < hist.length + 1 := by omega
      simp [this]; omega
    · intro v hv
      simp only [List.mem_cons] at hv
      rcases hv with rfl | hv
      · simp [g.version]
      · have := g.versions v hv; simp; omega


/-! ### LoadVersion -/

/-- The `versions` set after `LoadVersion`: everything that was there plus every root on disk. -/
def loadedVersions (t : MTree) : List Int :=
  t.db.roots.foldl (fun vs e => if vs.contains e.1 then vs else e.1 :: vs) t.versions

theorem mem_versions_fold (roots : List (Int × Bytes)) : ∀ (init : List Int) (v : Int),
    v ∈ roots.foldl (fun vs e => if vs.contains e.1 then vs else e.1 :: vs) init ↔ v ∈ init ∨ ∃ e ∈ roots, e.1 = v := by
  induction roots with
  | nil => intro init v; simp
  | cons x l ih =>
    intro init v
    simp only [List.foldl_cons]
    rw [ih]
    by_cases hc : init.contains x.1 = true
    · simp only [hc, if_true]
      have hx : x.1 ∈ init := List.contains_iff_mem.mp hc
      constructor
      · rintro (h | ⟨e, he, hv⟩)
        · exact Or.inl h
        · exact Or.inr ⟨e, List.mem_cons_of_mem _ he, hv⟩
      · rintro (h | ⟨e, he, hv⟩)
        · exact Or.inl h
        · rcases List.mem_cons.mp he with rfl | he
          · exact Or.inl (hv ▸ hx)
          · exact Or.inr ⟨e, he, hv⟩
    · simp only [hc, if_false]
      constructor
      · rintro (h | ⟨e, he, hv⟩)
        · rcases List.mem_cons.mp h with rfl | h
          · exact Or.inr ⟨x, List.mem_cons_self, rfl⟩
          · exact Or.inl h
        · exact Or.inr ⟨e, List.mem_cons_of_mem _ he, hv⟩
      · rintro (h | ⟨e, he, hv⟩)
        · exact Or.inl (List.mem_cons_of_mem _ h)
        · rcases List.mem_cons.mp he with rfl | he
          · exact Or.inl (hv ▸ List.mem_cons_self)
          · exact Or.inr ⟨e, he, hv⟩

theorem GoodDisk.root_mem {S : Tree → Prop} {hist : List (Option Tree)} {db : NDB} (g : GoodDisk H S hist db)
    {e : Int × Bytes} (he : e ∈ db.roots) : 1 ≤ e.1 ∧ e.1 ≤ hist.length := by
  have hs := aget_isSome_of_mem he
  rw [g.roots] at hs
  simp only [Option.isSome_map] at hs
  exact (histAt_some_iff hist e.1).mp hs

theorem GoodDisk.mem_root {S : Tree → Prop} {hist : List (Option Tree)} {db : NDB} (g : GoodDisk H S hist db)
    {v : Int} (h1 : 1 ≤ v) (h2 : v ≤ hist.length) : ∃ e ∈ db.roots, e.1 = v := by
  have : (histAt hist v).isSome := (histAt_some_iff hist _).mpr ⟨h1, h2⟩
  have h3 : (aget v db.roots).isSome := by rw [g.roots]; simpa using this
  obtain ⟨x, hx⟩ := Option.isSome_iff_exists.mp h3
  exact ⟨_, aget_some_mem hx, rfl⟩

theorem GoodDisk.roots_nil {S : Tree → Prop} {db : NDB} (g : GoodDisk H S [] db) : db.roots = [] := by
  apply aget_none_all
  intro k
  rw [g.roots]
  simp [histAt]

theorem GoodDisk.roots_ne_nil {S : Tree → Prop} {hist : List (Option Tree)} {db : NDB} (g : GoodDisk H S hist db)
    (h : hist ≠ []) : db.roots ≠ [] := by
  have hl : 1 ≤ (hist.length : Int) := by
    cases hist with
    | nil => exact absurd rfl h
    | cons a l => simp; omega
  obtain ⟨e, he, _⟩ := g.mem_root hl (by omega)
  intro hn; rw [hn] at he; cases he

theorem loadVersion_empty {S : Tree → Prop} {t0 : MTree} (g : GoodDisk H S [] t0.db) (target : Int) :
    loadVersion t0 target = some (t0, 0) := by
  unfold loadVersion
  simp [g.roots_nil]

/-- `LoadVersion(target)` for `target` = a saved version `v`, or `target = 0` and `v` = the latest one:
the tree saved as `v` comes back, node for node. -/
theorem loadVersion_at (hH : HashOK H) {S : Tree → Prop} {hist : List (Option Tree)} {t0 : MTree}
    (g : GoodDisk H S hist t0.db) (hok : HistOK S hist) (target v : Int) (h1 : 1 ≤ v) (h2 : v ≤ hist.length)
    (ht : target = v ∨ (target = 0 ∧ v = hist.length)) :
    ∃ r, histAt hist v = some r ∧
      loadVersion t0 target = some ({ t0 with version := v, root := r, lastSaved := r, versions := loadedVersions t0, persistedTo := v }, v) := by
  have hne : t0.db.roots ≠ [] := by
    obtain ⟨e, he, _⟩ := g.mem_root h1 h2
    intro hn; rw [hn] at he; cases he
  have hmax : maxKey (fun x => decide (target = 0) || decide (x ≤ target)) t0.db.roots = v := by
    apply maxKey_eq _ _ _ (by omega)
    · intro e he hp
      have := g.root_mem he
      simp only [Bool.or_eq_true, decide_eq_true_eq] at hp
      rcases ht with rfl | ⟨rfl, rfl⟩
      · refine ⟨this.1, ?_⟩
        rcases hp with hp | hp
        · omega
        · exact hp
      · exact this
    · intro _
      obtain ⟨e, he, hev⟩ := g.mem_root h1 h2
      refine ⟨e, he, hev, ?_⟩
      simp only [Bool.or_eq_true, decide_eq_true_eq]
      rcases ht with rfl | ⟨rfl, rfl⟩
      · right; omega
      · left; rfl
  obtain ⟨r, hr⟩ := Option.isSome_iff_exists.mp ((histAt_some_iff hist v).mpr ⟨h1, h2⟩)
  refine ⟨r, hr, ?_⟩
  have hmem := histAt_mem hr
  unfold loadVersion
  simp only [hne, if_false, hmax]
  have hcond : ¬ ¬ (target = 0 ∨ v = target) := by
    rcases ht with rfl | ⟨rfl, _⟩ <;> simp
  rw [if_neg hcond]
  rw [g.roots, hr]
  simp only [Option.map_some, Option.getD_some]
  rw [loadRoot_hashOpt hH _ r (fun t e => hok.wf r hmem t e) (fun t e => g.present r hmem t e)]
  rfl

/-- Asking for a version above the latest one on disk is an error. -/
theorem loadVersion_beyond {S : Tree → Prop} {hist : List (Option Tree)} {t0 : MTree}
    (g : GoodDisk H S hist t0.db) (hne : hist ≠ []) (target : Int) (h : (hist.length : Int) < target) :
    loadVersion t0 target = none := by
  have hl : 1 ≤ (hist.length : Int) := by
    cases hist with
    | nil => exact absurd rfl hne
    | cons a l => simp; omega
  have hmax : maxKey (fun x => decide (target = 0) || decide (x ≤ target)) t0.db.roots = hist.length := by
    apply maxKey_eq _ _ _ (by omega)
    · intro e he _; exact g.root_mem he
    · intro _
      obtain ⟨e, he, hev⟩ := g.mem_root hl (by omega)
      refine ⟨e, he, hev, ?_⟩
      simp only [Bool.or_eq_true, decide_eq_true_eq]
      right; omega
  unfold loadVersion
  simp only [g.roots_ne_nil hne, if_false, hmax]
  rw [if_pos]
  omega

/-- A fresh tree object that loaded the latest version is a good tree again: the history can go on. -/
theorem loadVersion_goodTree {S : Tree → Prop} {hist : List (Option Tree)} {db : NDB}
    (g : GoodDisk H S hist db) (hne : hist ≠ []) {r : Option Tree} (hr : histAt hist hist.length = some r) :
    GoodTree H S hist { MTree.new db with version := hist.length, root := r, lastSaved := r,
                                          versions := loadedVersions (MTree.new db), persistedTo := hist.length } := by
  have hlast : r = lastOf hist := by
    unfold histAt at hr
    unfold lastOf
    have hl : 1 ≤ (hist.length : Int) := by
      cases hist with
      | nil => exact absurd rfl hne
      | cons a l => simp; omega
    simp only [hl, if_true] at hr
    have : ((hist.length : Int) - 1).toNat = hist.length - 1 := by omega
    rw [this] at hr
    rw [List.getLast?_eq_getElem?, hr]; rfl
  constructor
  · exact g
  · rfl
  · exact hlast
  · exact Int.le_refl _
  · simp only [MTree.latest, MTree.new]
    simp [g.latestOnDisk]
  · intro v hv
    unfold loadedVersions at hv
    rw [mem_versions_fold] at hv
    rcases hv with hv | ⟨e, he, rfl⟩
    · simp [MTree.new] at hv
    · exact (g.root_mem he).2

/-- `GetImmutable(v)` / lazy loads return the saved tree of every saved version, and nothing else. -/
theorem getImmutable_good (hH : HashOK H) {S : Tree → Prop} {hist : List (Option Tree)} {db : NDB}
    (g : GoodDisk H S hist db) (hok : HistOK S hist) (v : Int) :
    getImmutable db v = histAt hist v := by
  unfold getImmutable
  rw [g.roots]
  cases hr : histAt hist v with
  | none => rfl
  | some r =>
    have hmem := histAt_mem hr
    simp only [Option.map_some]
    exact loadRoot_hashOpt hH _ r (fun t e => hok.wf r hmem t e) (fun t e => g.present r hmem t e)


/-! ### whole histories -/

/-- Every block of the list is a legal successor of the tree before it. -/
def GoodSteps (S : Tree → Prop) : Int → Option Tree → List (Option Tree) → Prop
  | _, _, [] => True
  | k, prev, r :: rs => StepOK S k prev r ∧ GoodSteps S (k + 1) r rs

theorem GoodTree.setRoot {S : Tree → Prop} {hist : List (Option Tree)} {t : MTree} (g : GoodTree H S hist t)
    (r : Option Tree) : GoodTree H S hist (t.setRoot r) :=
  ⟨g.disk, g.version, g.lastSaved, g.persistedTo, g.latest, g.versions⟩

theorem goodTree_fresh (S : Tree → Prop) : GoodTree H S [] (MTree.new {}) := by
  refine ⟨⟨?_, ?_, ?_, ?_⟩, rfl, rfl, Int.le_refl _, ?_, ?_⟩
  · intro h bz hg; simp [MTree.new] at hg
  · intro v; simp [MTree.new, histAt]
  · intro ot hot; cases hot
  · intro e he; simp [MTree.new] at he
  · simp [MTree.latest, MTree.new, NDB.latestOnDisk, maxKey]
  · intro v hv; simp [MTree.new] at hv

theorem histOK_nil (S : Tree → Prop) : HistOK S [] := by
  constructor
  · intro ot hot; cases hot
  · intro ot hot; cases hot
  · intro i t h; simp at h

theorem runSaves_good (hH : HashOK H) {S : Tree → Prop} (hi : Inj H S) (rs : List (Option Tree)) :
    ∀ (hist : List (Option Tree)) (t : MTree), GoodTree H S hist t → HistOK S hist →
      GoodSteps S hist.length (lastOf hist) rs →
      ∃ t', runSaves H t rs = some t' ∧ GoodTree H S (hist ++ rs) t' ∧ HistOK S (hist ++ rs) := by
  induction rs with
  | nil => intro hist t g hok _; exact ⟨t, rfl, by simpa using g, by simpa using hok⟩
  | cons r rs ih =>
    intro hist t g hok hs
    obtain ⟨hs1, hs2⟩ := hs
    have g' := g.setRoot r
    have hstep : StepOK S hist.length (t.setRoot r).lastSaved (t.setRoot r).root := by
      simp only [MTree.setRoot]; rw [g.lastSaved]; exact hs1
    obtain ⟨t', hsv, gt', hroot⟩ := saveVersion_good hH hi g' hok hstep
    have hok' : HistOK S (hist ++ [r]) := hok.append hs1
    have hs2' : GoodSteps S ((hist ++ [r]).length) (lastOf (hist ++ [r])) rs := by
      rw [lastOf_append]; simpa using hs2
    have gt'' : GoodTree H S (hist ++ [r]) t' := by simpa [MTree.setRoot] using gt'
    obtain ⟨t'', hrun, g'', hok''⟩ := ih (hist ++ [r]) t' gt'' hok' hs2'
    refine ⟨t'', ?_, by simpa using g'', by simpa using hok''⟩
    simp only [runSaves, hsv]
    exact hrun

end hist
end NodeDB
