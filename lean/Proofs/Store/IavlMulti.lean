import Proofs.Store.IavlVersions
import PocketModel.Store.IavlMulti
/-!
# C09 stage A: historical views of the multistore read the state committed at their height
-/
namespace Iavl
open KVs

/-- Simulation relation between the multistore model and its per-height map specification. -/
structure Sim (n : Nat) (ms : MS) (s : MSpec) : Prop where
  len : ms.stores.length = n
  slen : s.cur.length = n
  ver : s.version = ms.version
  wf : ∀ (i : Nat) (t : Tree), ms.stores[i]? = some t → t.WF ∧ t.version = ms.version
  cur : ∀ (i : Nat) (t : Tree), ms.stores[i]? = some t → s.cur[i]? = some (contents t.root)
  hist : ∀ (h i : Nat) (t : Tree), ms.stores[i]? = some t → (t.getImmutable h).map contents = s.committedAt h i
  full : ∀ (h i : Nat) (t : Tree), ms.stores[i]? = some t → 1 ≤ h → h ≤ ms.version → (t.getImmutable h).isSome

theorem Sim.init (n : Nat) : Sim n (MS.init n) (MSpec.init n) := by
  refine ⟨by simp [MS.init], by simp [MSpec.init], rfl, ?_, ?_, ?_, ?_⟩
  · intro i t ht
    simp only [MS.init, List.getElem?_replicate] at ht
    split at ht <;> simp at ht
    subst ht
    exact ⟨Tree.WF.empty, rfl⟩
  · intro i t ht
    simp only [MS.init, List.getElem?_replicate] at ht
    split at ht <;> simp at ht
    subst ht
    rename_i hi
    simp [MSpec.init, hi, Tree.empty, contents]
  · intro h i t ht
    simp only [MS.init, List.getElem?_replicate] at ht
    split at ht <;> simp at ht
    subst ht
    simp [MSpec.init, MSpec.committedAt, Tree.empty, Tree.getImmutable]
  · intro h i t _ h1 h2
    simp only [MS.init] at h2
    omega

theorem getElem?_modify_tree (l : List Tree) (i j : Nat) (f : Tree → Tree) :
    (MS.modify l i f)[j]? = (l[j]?).map (fun t => if j = i then f t else t) := by
  simp [MS.modify, List.getElem?_mapIdx]

theorem getElem?_modify_kvs (l : List KVs) (i j : Nat) (f : KVs → KVs) :
    (MSpec.modify l i f)[j]? = (l[j]?).map (fun m => if j = i then f m else m) := by
  simp [MSpec.modify, List.getElem?_mapIdx]

/-- A write to one substore: everything but that substore's working root is untouched. -/
theorem Sim.write {n : Nat} {ms : MS} {s : MSpec} (h : Sim n ms s) (i : Nat)
    (f : Tree → Tree) (g : KVs → KVs)
    (hroot : ∀ t, t.WF → RootInv (f t).root ∧ contents (f t).root = g (contents t.root))
    (hframe : ∀ t, (f t).version = t.version ∧ (f t).lastSaved = t.lastSaved ∧ (f t).versions = t.versions) :
    Sim n { ms with stores := MS.modify ms.stores i f } { s with cur := MSpec.modify s.cur i g } := by
  have key : ∀ (j : Nat) (t' : Tree), (MS.modify ms.stores i f)[j]? = some t' →
      ∃ t : Tree, ms.stores[j]? = some t ∧ t' = (if j = i then f t else t) := by
    intro j t' ht'
    rw [getElem?_modify_tree] at ht'
    cases hj : ms.stores[j]? with
    | none => simp [hj] at ht'
    | some t => simp [hj] at ht'; exact ⟨t, rfl, ht'.symm⟩
  refine ⟨by simp [MS.modify, h.len], by simp [MSpec.modify, h.slen], h.ver, ?_, ?_, ?_, ?_⟩
  · intro j t' ht'
    obtain ⟨t, ht, rfl⟩ := key j t' ht'
    obtain ⟨hwf, hv⟩ := h.wf j t ht
    by_cases hji : j = i
    · simp only [hji, if_true]
      obtain ⟨e1, e2, e3⟩ := hframe t
      exact ⟨⟨(hroot t hwf).1, e2 ▸ hwf.last, e3 ▸ hwf.saved, by rw [e1, e3]; exact hwf.le⟩, by rw [e1]; exact hv⟩
    · simp only [hji, if_false]; exact ⟨hwf, hv⟩
  · intro j t' ht'
    obtain ⟨t, ht, rfl⟩ := key j t' ht'
    simp only
    rw [getElem?_modify_kvs, h.cur j t ht]
    by_cases hji : j = i
    · simp [hji, (hroot t (h.wf j t ht).1).2]
    · simp [hji]
  · intro hh j t' ht'
    obtain ⟨t, ht, rfl⟩ := key j t' ht'
    have := h.hist hh j t ht
    simp only [MSpec.committedAt] at this ⊢
    rw [← this]
    by_cases hji : j = i
    · simp only [hji, if_true, Tree.getImmutable, (hframe t).2.2]
    · simp only [hji, if_false]
  · intro hh j t' ht' h1 h2
    obtain ⟨t, ht, rfl⟩ := key j t' ht'
    have := h.full hh j t ht h1 h2
    by_cases hji : j = i
    · simp only [hji, if_true, Tree.getImmutable, (hframe t).2.2]; exact this
    · simp only [hji, if_false]; exact this

theorem Sim.step {n : Nat} {ms : MS} {s : MSpec} (h : Sim n ms s) (o : MOp) :
    Sim n (ms.step o) (s.step o) := by
  cases o with
  | set i k v =>
    exact h.write i (fun t => (t.set k v).1) (KVs.insert k v)
      (fun t hwf => ⟨Tree.set_root_inv t k v hwf.root, (Tree.set_spec t k v hwf.root).1⟩)
      (fun t => Tree.set_frame t k v)
  | remove i k =>
    exact h.write i (fun t => (t.remove k).1) (KVs.erase k)
      (fun t hwf => ⟨Tree.remove_root_inv t k hwf.root, (Tree.remove_spec t k hwf.root).1⟩)
      (fun t => Tree.remove_frame t k)
  | commit =>
    have key : ∀ (j : Nat) (t' : Tree), (ms.stores.map Tree.saveVersion)[j]? = some t' →
        ∃ t : Tree, ms.stores[j]? = some t ∧ t' = t.saveVersion := by
      intro j t' ht'
      rw [List.getElem?_map] at ht'
      cases hj : ms.stores[j]? with
      | none => simp [hj] at ht'
      | some t => simp [hj] at ht'; exact ⟨t, rfl, ht'.symm⟩
    have hsave : ∀ t : Tree, t.WF → t.saveVersion =
        { root := t.root, version := t.version + 1, lastSaved := t.root,
          versions := (t.version + 1, t.root) :: t.versions } := by
      intro t hwf
      simp [Tree.saveVersion, hwf.fresh]
    simp only [MS.step, MSpec.step]
    refine ⟨by simp [h.len], h.slen, by simp [h.ver], ?_, ?_, ?_, ?_⟩
    · intro j t' ht'
      obtain ⟨t, ht, rfl⟩ := key j t' ht'
      obtain ⟨hwf, hv⟩ := h.wf j t ht
      refine ⟨Tree.step_wf t .save hwf, ?_⟩
      rw [hsave t hwf]; simp [hv]
    · intro j t' ht'
      obtain ⟨t, ht, rfl⟩ := key j t' ht'
      rw [hsave t (h.wf j t ht).1]
      exact h.cur j t ht
    · intro hh j t' ht'
      obtain ⟨t, ht, rfl⟩ := key j t' ht'
      obtain ⟨hwf, hv⟩ := h.wf j t ht
      rw [hsave t hwf]
      have hold := h.hist hh j t ht
      simp only [MSpec.committedAt, Tree.getImmutable, List.find?_cons] at hold ⊢
      rw [hv, h.ver]
      by_cases hc : (ms.version + 1 == hh) = true
      · simp only [hc]
        simp [h.cur j t ht]
      · simp only [Bool.not_eq_true] at hc
        simp only [hc]
        exact hold
    · intro hh j t' ht' h1 h2
      obtain ⟨t, ht, rfl⟩ := key j t' ht'
      obtain ⟨hwf, hv⟩ := h.wf j t ht
      rw [hsave t hwf]
      simp only [Tree.getImmutable, List.find?_cons]
      by_cases hc : (t.version + 1 == hh) = true
      · simp [hc]
      · simp only [Bool.not_eq_true] at hc
        simp only [hc]
        have hne : t.version + 1 ≠ hh := by simpa using hc
        exact h.full hh j t ht h1 (by simp only at h2; omega)

theorem Sim.foldl {n : Nat} (ops : List MOp) {ms : MS} {s : MSpec} (h : Sim n ms s) :
    Sim n (ops.foldl MS.step ms) (ops.foldl MSpec.step s) := by
  induction ops generalizing ms s with
  | nil => exact h
  | cons o rest ih => exact ih (h.step o)

theorem Sim.run (n : Nat) (ops : List MOp) : Sim n (MS.run n ops) (MSpec.run n ops) :=
  Sim.foldl ops (Sim.init n)

/-- Reads through a historical view and reads of the working state, in terms of the map model. -/
theorem Sim.readAt {n : Nat} {ms : MS} {s : MSpec} (h : Sim n ms s) (hh i : Nat) (r : Read) (hi : i < n) :
    ms.readAt hh i r = (s.committedAt hh i).map (fun m => KVs.read m r) := by
  have hlt : i < ms.stores.length := by rw [h.len]; exact hi
  have hget : ms.stores[i]? = some ms.stores[i] := List.getElem?_eq_getElem hlt
  simp only [MS.readAt, hget, Option.bind_some]
  rw [← h.hist hh i _ hget, Tree.read_spec _ (h.wf i _ hget).1]
  simp [Spec.read, Tree.abs_getVersion]

theorem Sim.readWorking {n : Nat} {ms : MS} {s : MSpec} (h : Sim n ms s) (i : Nat) (r : Read) (hi : i < n) :
    ms.readWorking i r = (s.cur[i]?).map (fun m => KVs.read m r) := by
  have hlt : i < ms.stores.length := by rw [h.len]; exact hi
  have hget : ms.stores[i]? = some ms.stores[i] := List.getElem?_eq_getElem hlt
  simp only [MS.readWorking, hget, Option.bind_some, h.cur i _ hget, Option.map_some]
  rw [Tree.read_spec _ (h.wf i _ hget).1]
  rfl

/-! ### stability under later operations -/

/-- Later writes and commits do not change an existing saved version of any substore. -/
theorem MS.step_getImmutable (ms : MS) (o : MOp) (i h : Nat) (t : Tree) (root : Option Node)
    (ht : ms.stores[i]? = some t) (hv : t.getImmutable h = some root) :
    ∃ t', (ms.step o).stores[i]? = some t' ∧ t'.getImmutable h = some root := by
  cases o with
  | set j k v =>
    refine ⟨if i = j then (t.set k v).1 else t, by simp [MS.step, getElem?_modify_tree, ht], ?_⟩
    split
    · exact Tree.step_getImmutable t (.set k v) h root hv (by simp)
    · exact hv
  | remove j k =>
    refine ⟨if i = j then (t.remove k).1 else t, by simp [MS.step, getElem?_modify_tree, ht], ?_⟩
    split
    · exact Tree.step_getImmutable t (.remove k) h root hv (by simp)
    · exact hv
  | commit =>
    exact ⟨t.saveVersion, by simp [MS.step, ht], Tree.step_getImmutable t .save h root hv (by simp)⟩

theorem MS.foldl_getImmutable (ops : List MOp) (ms : MS) (i h : Nat) (t : Tree) (root : Option Node)
    (ht : ms.stores[i]? = some t) (hv : t.getImmutable h = some root) :
    ∃ t', (ops.foldl MS.step ms).stores[i]? = some t' ∧ t'.getImmutable h = some root := by
  induction ops generalizing ms t with
  | nil => exact ⟨t, ht, hv⟩
  | cons o rest ih =>
    obtain ⟨t1, ht1, hv1⟩ := MS.step_getImmutable ms o i h t root ht hv
    exact ih _ t1 ht1 hv1

theorem MS.run_append (n : Nat) (ops1 ops2 : List MOp) :
    MS.run n (ops1 ++ ops2) = ops2.foldl MS.step (MS.run n ops1) := by
  simp [MS.run, List.foldl_append]

/-! ### event lists -/

theorem runEvents_spec_from (n : Nat) (evs : List Ev) (ms : MS) (s : MSpec) (acc : List (Option ReadResult))
    (h : Sim n ms s) (hidx : ∀ ev ∈ evs, ev.inRange n) :
    (evs.foldl evStep (ms, acc)).2 = (evs.foldl specEvStep (s, acc)).2 ∧
    Sim n (evs.foldl evStep (ms, acc)).1 (evs.foldl specEvStep (s, acc)).1 := by
  induction evs generalizing ms s acc with
  | nil => exact ⟨rfl, h⟩
  | cons ev rest ih =>
    have hrest : ∀ e ∈ rest, e.inRange n := fun e he => hidx e (List.mem_cons_of_mem _ he)
    have hev := hidx ev List.mem_cons_self
    simp only [List.foldl_cons]
    cases ev with
    | op o => exact ih _ _ _ (h.step o) hrest
    | readAt hh i r =>
      simp only [Ev.inRange] at hev
      simp only [evStep, specEvStep]
      rw [h.readAt hh i r hev]
      exact ih _ _ _ h hrest
    | readWorking i r =>
      simp only [Ev.inRange] at hev
      simp only [evStep, specEvStep]
      rw [h.readWorking i r hev]
      exact ih _ _ _ h hrest

end Iavl
