import Proofs.Store.CacheKV
/-!
# The cachekv store satisfies the KV interface theorem

Representation invariant `CInv`, the pending map pointwise (`pending_get`), preservation of the
invariant by every operation, and `ops_spec`: `CacheKV.ops O` satisfies `KVSpec` (with view =
overlay of the parent's view and the pending map) whenever the parent `O` does; `write_spec`.
-/
namespace CacheKV

/-! ### 5. Invariant, pending map, interface theorem -/

/-- Representation invariant of a cache store over a parent whose contents are `m`. -/
structure CInv (m : KV) (c : CStore) : Prop where
  cacheSorted : Assoc.Sorted c.cache
  unsortedSorted : Assoc.Sorted c.unsorted
  sortedSorted : Assoc.Sorted c.sorted
  /-- a dirty entry is a delete iff its value is nil (`Set` refuses nil values) -/
  flags : ∀ k cv, Assoc.get c.cache k = some cv → cv.dirty = true → cv.deleted = cv.value.isNone
  /-- a clean entry remembers the parent's answer -/
  clean : ∀ k cv, Assoc.get c.cache k = some cv → cv.dirty = false → cv.value = Assoc.get m k
  unsortedDirty : ∀ k, (Assoc.get c.unsorted k).isSome = true →
    ∃ cv, Assoc.get c.cache k = some cv ∧ cv.dirty = true
  /-- every dirty key is still waiting in `unsorted` or has its current value in `sorted` -/
  dirtyTracked : ∀ k cv, Assoc.get c.cache k = some cv → cv.dirty = true →
    (Assoc.get c.unsorted k).isSome = true ∨ Assoc.get c.sorted k = some cv.value
  sortedDirty : ∀ k, (Assoc.get c.sorted k).isSome = true →
    ∃ cv, Assoc.get c.cache k = some cv ∧ cv.dirty = true

theorem cinv_empty (m : KV) : CInv m empty where
  cacheSorted := List.Pairwise.nil
  unsortedSorted := List.Pairwise.nil
  sortedSorted := List.Pairwise.nil
  flags := by intro k cv h; simp [empty] at h
  clean := by intro k cv h; simp [empty] at h
  unsortedDirty := by intro k h; simp [empty] at h
  dirtyTracked := by intro k cv h; simp [empty] at h
  sortedDirty := by intro k h; simp [empty] at h

theorem get_filter_val {β : Type} {l : Assoc β} (hs : Assoc.Sorted l) (g : β → Bool) (k : Bytes) :
    Assoc.get (l.filter fun p => g p.2) k = (Assoc.get l k).filter g := by
  induction l with
  | nil => rfl
  | cons a l ih =>
    obtain ⟨a, b⟩ := a
    rw [Assoc.get_cons]
    by_cases hg : g b = true
    · rw [List.filter_cons_of_pos (by simpa using hg), Assoc.get_cons, ih hs.tail]
      by_cases e : k = a
      · simp [e, Option.filter, hg]
      · simp [e]
    · rw [List.filter_cons_of_neg (by simpa using hg), ih hs.tail]
      by_cases e : k = a
      · subst e
        rw [Assoc.get_eq_none_of_lt hs.head_lt]
        simp [Option.filter, hg]
      · simp [e]

theorem get_map_val {β γ : Type} (l : Assoc β) (f : β → γ) (k : Bytes) :
    Assoc.get (l.map fun p => (p.1, f p.2)) k = (Assoc.get l k).map f := by
  induction l with
  | nil => rfl
  | cons a l ih =>
    obtain ⟨a, b⟩ := a
    rw [List.map_cons, Assoc.get_cons, Assoc.get_cons, ih]
    by_cases e : k = a <;> simp [e]

/-- The pending map, pointwise. -/
theorem pending_get {c : CStore} (hs : Assoc.Sorted c.cache) (k : Bytes) :
    Assoc.get (pending c) k =
      (Assoc.get c.cache k).bind (fun cv => if cv.dirty then some cv.value else none) := by
  unfold pending
  rw [get_map_val, get_filter_val hs (fun cv => cv.dirty)]
  cases Assoc.get c.cache k with
  | none => rfl
  | some cv => by_cases h : cv.dirty = true <;> simp [Option.filter, h]

theorem pending_sorted {c : CStore} (hs : Assoc.Sorted c.cache) : Assoc.Sorted (pending c) := by
  unfold pending Assoc.Sorted
  rw [List.pairwise_map]
  exact List.Pairwise.filter _ hs

/-! #### `setCacheValue` -/

theorem get_cache_setCacheValue (c : CStore) (k : Bytes) (v : Option Bytes) (d dirty : Bool) (k' : Bytes) :
    Assoc.get (setCacheValue c k v d dirty).cache k' =
      if k' = k then some ⟨v, d, dirty⟩ else Assoc.get c.cache k' := Assoc.get_set _ _ _ _

/-- `Get` on a miss: remembering the parent's answer as a clean entry keeps the invariant. -/
theorem cinv_fill {m : KV} {c : CStore} (h : CInv m c) (k : Bytes) (hmiss : Assoc.get c.cache k = none) :
    CInv m (setCacheValue c k (Assoc.get m k) false false) where
  cacheSorted := Assoc.set_sorted h.cacheSorted _ _
  unsortedSorted := h.unsortedSorted
  sortedSorted := h.sortedSorted
  flags := by
    intro k' cv hg hd
    rw [get_cache_setCacheValue] at hg
    by_cases e : k' = k
    · rw [if_pos e] at hg; cases hg; cases hd
    · rw [if_neg e] at hg; exact h.flags k' cv hg hd
  clean := by
    intro k' cv hg hd
    rw [get_cache_setCacheValue] at hg
    by_cases e : k' = k
    · rw [if_pos e] at hg; cases hg; rw [e]
    · rw [if_neg e] at hg; exact h.clean k' cv hg hd
  unsortedDirty := by
    intro k' hk'
    obtain ⟨cv, h1, h2⟩ := h.unsortedDirty k' hk'
    have e : k' ≠ k := by intro e; rw [e, hmiss] at h1; cases h1
    exact ⟨cv, by rw [get_cache_setCacheValue, if_neg e]; exact h1, h2⟩
  dirtyTracked := by
    intro k' cv hg hd
    rw [get_cache_setCacheValue] at hg
    by_cases e : k' = k
    · rw [if_pos e] at hg; cases hg; cases hd
    · rw [if_neg e] at hg; exact h.dirtyTracked k' cv hg hd
  sortedDirty := by
    intro k' hk'
    obtain ⟨cv, h1, h2⟩ := h.sortedDirty k' hk'
    have e : k' ≠ k := by intro e; rw [e, hmiss] at h1; cases h1
    exact ⟨cv, by rw [get_cache_setCacheValue, if_neg e]; exact h1, h2⟩

/-- `Set` / `Delete`: a dirty entry (delete flag iff nil value) keeps the invariant. -/
theorem cinv_dirty {m : KV} {c : CStore} (h : CInv m c) (k : Bytes) (v : Option Bytes) (d : Bool)
    (hd : d = v.isNone) : CInv m (setCacheValue c k v d true) where
  cacheSorted := Assoc.set_sorted h.cacheSorted _ _
  unsortedSorted := Assoc.set_sorted h.unsortedSorted _ _
  sortedSorted := h.sortedSorted
  flags := by
    intro k' cv hg hdirty
    rw [get_cache_setCacheValue] at hg
    by_cases e : k' = k
    · rw [if_pos e] at hg; cases hg; exact hd
    · rw [if_neg e] at hg; exact h.flags k' cv hg hdirty
  clean := by
    intro k' cv hg hdirty
    rw [get_cache_setCacheValue] at hg
    by_cases e : k' = k
    · rw [if_pos e] at hg; cases hg; cases hdirty
    · rw [if_neg e] at hg; exact h.clean k' cv hg hdirty
  unsortedDirty := by
    intro k' hk'
    simp only [setCacheValue, if_true] at hk' ⊢
    rw [Assoc.get_set] at hk'
    rw [Assoc.get_set]
    by_cases e : k' = k
    · exact ⟨_, by rw [if_pos e], rfl⟩
    · rw [if_neg e] at hk' ⊢; exact h.unsortedDirty k' hk'
  dirtyTracked := by
    intro k' cv hg hdirty
    rw [get_cache_setCacheValue] at hg
    simp only [setCacheValue, if_true]
    rw [Assoc.get_set]
    by_cases e : k' = k
    · left; rw [if_pos e]; rfl
    · rw [if_neg e] at hg ⊢; exact h.dirtyTracked k' cv hg hdirty
  sortedDirty := by
    intro k' hk'
    obtain ⟨cv, h1, h2⟩ := h.sortedDirty k' hk'
    rw [get_cache_setCacheValue]
    by_cases e : k' = k
    · exact ⟨_, by rw [if_pos e], rfl⟩
    · exact ⟨cv, by rw [if_neg e]; exact h1, h2⟩

theorem pending_fill {c : CStore} (hs : Assoc.Sorted c.cache) (k : Bytes) (v : Option Bytes)
    (hmiss : Assoc.get c.cache k = none) : pending (setCacheValue c k v false false) = pending c := by
  have hs' : Assoc.Sorted (setCacheValue c k v false false).cache := Assoc.set_sorted hs _ _
  apply Assoc.ext (pending_sorted hs') (pending_sorted hs)
  intro k'
  rw [pending_get hs', pending_get hs, get_cache_setCacheValue]
  by_cases e : k' = k
  · rw [if_pos e, e, hmiss]; rfl
  · rw [if_neg e]

theorem pending_dirty {c : CStore} (hs : Assoc.Sorted c.cache) (k : Bytes) (v : Option Bytes) (d : Bool) :
    pending (setCacheValue c k v d true) = Assoc.set (pending c) k v := by
  have hs' : Assoc.Sorted (setCacheValue c k v d true).cache := Assoc.set_sorted hs _ _
  apply Assoc.ext (pending_sorted hs') (Assoc.set_sorted (pending_sorted hs) _ _)
  intro k'
  rw [pending_get hs', Assoc.get_set, pending_get hs, get_cache_setCacheValue]
  by_cases e : k' = k
  · rw [if_pos e, if_pos e]; rfl
  · rw [if_neg e, if_neg e]

/-- Recording one more pending change = applying it to the overlaid map. -/
theorem overlay_set {m : KV} (hm : Assoc.Sorted m) {pend : Assoc (Option Bytes)} (hp : Assoc.Sorted pend)
    (k : Bytes) (ov : Option Bytes) :
    overlay m (Assoc.set pend k ov) = applyEntry (overlay m pend) (k, ov) := by
  have hp' := Assoc.set_sorted hp k ov
  apply Assoc.ext (overlay_sorted hm _) (applyEntry_sorted (overlay_sorted hm _) _)
  intro k'
  rw [overlay_get hm (sortedD_true.mpr hp'), get_applyEntry (overlay_sorted hm _),
    overlay_get hm (sortedD_true.mpr hp)]
  unfold overlayGet
  rw [Assoc.get_set]
  by_cases e : k' = k
  · rw [if_pos e, if_pos e]
  · rw [if_neg e, if_neg e]

/-! #### `dirtyItems` -/

theorem pending_dirtyItems (c : CStore) (s e : Option Bytes) : pending (dirtyItems c s e) = pending c := rfl

theorem get_sorted_dirtyItems {c : CStore} (hu : Assoc.Sorted c.unsorted) (s e : Option Bytes) (k : Bytes) :
    Assoc.get (dirtyItems c s e).sorted k =
      if (Assoc.get c.unsorted k).isSome = true ∧ inDomain k s e = true
      then some ((Assoc.get c.cache k).bind (·.value)) else Assoc.get c.sorted k := by
  unfold dirtyItems
  simp only
  rw [get_mergeDirty (map_keyfn_sorted (Assoc.filter_sorted hu _)
      (fun k => (Assoc.get c.cache k).bind (·.value))),
    get_map_keyfn _ (fun k => (Assoc.get c.cache k).bind (·.value)),
    Assoc.get_filter c.unsorted (fun k => inDomain k s e)]
  by_cases hd : inDomain k s e = true
  · by_cases hk : (Assoc.get c.unsorted k).isSome = true
    · simp [hd, hk]
    · simp [hd, hk]
  · simp [hd]

theorem cinv_dirtyItems {m : KV} {c : CStore} (h : CInv m c) (s e : Option Bytes) :
    CInv m (dirtyItems c s e) where
  cacheSorted := h.cacheSorted
  unsortedSorted := Assoc.filter_sorted h.unsortedSorted _
  sortedSorted :=
    mergeDirty_sorted (map_keyfn_sorted (Assoc.filter_sorted h.unsortedSorted _)
      (fun k => (Assoc.get c.cache k).bind (·.value))) h.sortedSorted
  flags := h.flags
  clean := h.clean
  unsortedDirty := by
    intro k hk
    apply h.unsortedDirty k
    have : (dirtyItems c s e).unsorted = c.unsorted.filter (fun p => !inDomain p.1 s e) := rfl
    rw [this, Assoc.get_filter c.unsorted (fun k => !inDomain k s e)] at hk
    split at hk
    · exact hk
    · simp at hk
  dirtyTracked := by
    intro k cv hg hd
    have hg : Assoc.get c.cache k = some cv := hg
    have hu : (dirtyItems c s e).unsorted = c.unsorted.filter (fun p => !inDomain p.1 s e) := rfl
    rw [hu, Assoc.get_filter c.unsorted (fun k => !inDomain k s e),
      get_sorted_dirtyItems h.unsortedSorted]
    by_cases hk : (Assoc.get c.unsorted k).isSome = true
    · by_cases hdm : inDomain k s e = true
      · right; rw [if_pos ⟨hk, hdm⟩, hg]; rfl
      · left; simp [hdm, hk]
    · right
      rw [if_neg (fun hh => hk hh.1)]
      rcases h.dirtyTracked k cv hg hd with h1 | h1
      · exact absurd h1 hk
      · exact h1
  sortedDirty := by
    intro k hk
    rw [get_sorted_dirtyItems h.unsortedSorted] at hk
    by_cases hh : (Assoc.get c.unsorted k).isSome = true ∧ inDomain k s e = true
    · exact h.unsortedDirty k hh.1
    · rw [if_neg hh] at hk; exact h.sortedDirty k hk

/-- After `dirtyItems(start, end)` the mem iterator over `[start, end)` lists exactly the pending
changes inside the domain. -/
theorem memItems_dirtyItems {m : KV} {c : CStore} (h : CInv m c) (s e : Option Bytes) :
    memItems s e false (dirtyItems c s e).sorted = (pending c).filter (fun p => inDomain p.1 s e) := by
  have h' := cinv_dirtyItems h s e
  rw [memItems_eq_filter h'.sortedSorted]
  apply Assoc.ext (Assoc.filter_sorted h'.sortedSorted _) (Assoc.filter_sorted (pending_sorted h.cacheSorted) _)
  intro k
  rw [Assoc.get_filter _ (fun k => inDomain k s e), Assoc.get_filter _ (fun k => inDomain k s e)]
  by_cases hd : inDomain k s e = true
  · rw [if_pos hd, if_pos hd, get_sorted_dirtyItems h.unsortedSorted, pending_get h.cacheSorted]
    by_cases hk : (Assoc.get c.unsorted k).isSome = true
    · rw [if_pos ⟨hk, hd⟩]
      obtain ⟨cv, h1, h2⟩ := h.unsortedDirty k hk
      rw [h1]; simp [h2]
    · rw [if_neg (fun hh => hk hh.1)]
      cases hg : Assoc.get c.cache k with
      | none =>
        cases hsrt : Assoc.get c.sorted k with
        | none => rfl
        | some v =>
          obtain ⟨cv, h1, _⟩ := h.sortedDirty k (by rw [hsrt]; rfl)
          rw [hg] at h1; cases h1
      | some cv =>
        by_cases hdirty : cv.dirty = true
        · rcases h.dirtyTracked k cv hg hdirty with h1 | h1
          · exact absurd h1 hk
          · rw [h1]; simp [hdirty]
        · cases hsrt : Assoc.get c.sorted k with
          | none => simp [hdirty]
          | some v =>
            obtain ⟨cv', h1, h2⟩ := h.sortedDirty k (by rw [hsrt]; rfl)
            rw [hg] at h1; cases h1; exact absurd h2 hdirty
  · rw [if_neg hd, if_neg hd]

/-! #### The interface theorem -/

section spec
variable {σ : Type} {O : KVOps σ} {inv : σ → Prop} {vw : σ → KV}

/-- Invariant of a cache store over a parent: parent invariant + `CInv` w.r.t. the parent's view. -/
def cinv (inv : σ → Prop) (vw : σ → KV) (s : σ × CStore) : Prop := inv s.1 ∧ CInv (vw s.1) s.2

/-- Contents of a cache store: the parent's contents overlaid with the pending changes. -/
def cview (vw : σ → KV) (s : σ × CStore) : KV := overlay (vw s.1) (pending s.2)

theorem get_cview (P : KVSpec O inv vw) (s : σ × CStore) (h : cinv inv vw s) (k : Bytes) :
    Assoc.get (cview vw s) k = overlayGet (vw s.1) (pending s.2) k :=
  overlay_get (P.sorted s.1 h.1) (sortedD_true.mpr (pending_sorted h.2.cacheSorted)) k

/-- `Get`: result, view and invariant. -/
theorem get_spec (P : KVSpec O inv vw) (s : σ × CStore) (h : cinv inv vw s) (k : Bytes) :
    cinv inv vw (get O s k).1 ∧ cview vw (get O s k).1 = cview vw s ∧
      (get O s k).2 = Assoc.get (cview vw s) k := by
  rw [get_cview P s h]
  unfold get overlayGet
  rw [pending_get h.2.cacheSorted]
  cases hc : Assoc.get s.2.cache k with
  | some cv =>
    refine ⟨h, rfl, ?_⟩
    simp only [Option.bind_some]
    by_cases hd : cv.dirty = true
    · simp [hd]
    · simp only [hd]
      exact h.2.clean k cv hc (by simpa using hd)
  | none =>
    have hv := P.get_val s.1 k h.1
    have hw := P.get_view s.1 k h.1
    simp only [Option.bind_none]
    refine ⟨⟨P.get_inv s.1 k h.1, ?_⟩, ?_, hv⟩
    · simp only; rw [hw, hv]; exact cinv_fill h.2 k hc
    · unfold cview; simp only; rw [hw, pending_fill h.2.cacheSorted k _ hc]

theorem set_spec (P : KVSpec O inv vw) (s : σ × CStore) (h : cinv inv vw s) (k v : Bytes) :
    cinv inv vw (set s k v) ∧ cview vw (set s k v) = Assoc.set (cview vw s) k v := by
  refine ⟨⟨h.1, cinv_dirty h.2 k (some v) false rfl⟩, ?_⟩
  unfold cview set
  simp only
  rw [pending_dirty h.2.cacheSorted, overlay_set (P.sorted s.1 h.1) (pending_sorted h.2.cacheSorted)]
  rfl

theorem del_spec (P : KVSpec O inv vw) (s : σ × CStore) (h : cinv inv vw s) (k : Bytes) :
    cinv inv vw (del s k) ∧ cview vw (del s k) = Assoc.del (cview vw s) k := by
  refine ⟨⟨h.1, cinv_dirty h.2 k none true rfl⟩, ?_⟩
  unfold cview del
  simp only
  rw [pending_dirty h.2.cacheSorted, overlay_set (P.sorted s.1 h.1) (pending_sorted h.2.cacheSorted)]
  rfl

theorem iter_spec (P : KVSpec O inv vw) (s : σ × CStore) (h : cinv inv vw s) (asc : Bool)
    (st e : Option Bytes) :
    cinv inv vw (iter O s asc st e).1 ∧ cview vw (iter O s asc st e).1 = cview vw s ∧
      (iter O s asc st e).2 = KV.iter (cview vw s) asc st e := by
  have hv := P.iter_val s.1 asc st e h.1
  have hw := P.iter_view s.1 asc st e h.1
  unfold iter
  simp only
  refine ⟨⟨P.iter_inv s.1 asc st e h.1, ?_⟩, ?_, ?_⟩
  · rw [hw]; exact cinv_dirtyItems h.2 st e
  · unfold cview; simp only; rw [hw, pending_dirtyItems]
  · rw [hv]
    unfold memIter KV.iter
    rw [memItems_dirtyItems h.2,
      drain_eq_overlay asc (KV.range_sorted (P.sorted s.1 h.1) st e)
        (Assoc.filter_sorted (pending_sorted h.2.cacheSorted) _)]
    unfold cview
    rw [range_overlay (P.sorted s.1 h.1) (pending_sorted h.2.cacheSorted)]

/-- **The cache-wrapped store is again a KV store**: if the parent behaves like the specification
store `vw s`, the cachekv store over it behaves like the specification store
`overlay (vw s) (pending c)`. -/
theorem ops_spec (P : KVSpec O inv vw) : KVSpec (ops O) (cinv inv vw) (cview vw) where
  sorted s h := overlay_sorted (P.sorted s.1 h.1) _
  get_inv s k h := (get_spec P s h k).1
  get_view s k h := (get_spec P s h k).2.1
  get_val s k h := (get_spec P s h k).2.2
  has_inv s k h := (get_spec P s h k).1
  has_view s k h := (get_spec P s h k).2.1
  has_val s k h := by
    show (get O s k).2.isSome = _
    rw [(get_spec P s h k).2.2]
  set_inv s k v h := (set_spec P s h k v).1
  set_view s k v h := (set_spec P s h k v).2
  del_inv s k h := (del_spec P s h k).1
  del_view s k h := (del_spec P s h k).2
  iter_inv s asc st e h := (iter_spec P s h asc st e).1
  iter_view s asc st e h := (iter_spec P s h asc st e).2.1
  iter_val s asc st e h := (iter_spec P s h asc st e).2.2

/-! #### `Write` -/

theorem writeOne_spec (P : KVSpec O inv vw) (par : σ) (hp : inv par) (kv : Bytes × CValue)
    (hf : kv.2.deleted = kv.2.value.isNone) :
    inv (writeOne O par kv) ∧ vw (writeOne O par kv) = applyEntry (vw par) (kv.1, kv.2.value) := by
  obtain ⟨k, ⟨v, d, dirty⟩⟩ := kv
  simp only at hf
  subst hf
  unfold writeOne applyEntry
  cases v with
  | none => simp only [Option.isNone_none, if_true]; exact ⟨P.del_inv par k hp, P.del_view par k hp⟩
  | some v =>
    simp only [Option.isNone_some, Bool.false_eq_true, if_false]
    exact ⟨P.set_inv par k v hp, P.set_view par k v hp⟩

theorem foldl_writeOne_spec (P : KVSpec O inv vw) (l : Assoc CValue) (par : σ) (hp : inv par)
    (hf : ∀ kv ∈ l, kv.2.deleted = kv.2.value.isNone) :
    inv (l.foldl (writeOne O) par) ∧
      vw (l.foldl (writeOne O) par) = overlay (vw par) (l.map fun kv => (kv.1, kv.2.value)) := by
  induction l generalizing par with
  | nil => exact ⟨hp, rfl⟩
  | cons a l ih =>
    obtain ⟨h1, h2⟩ := writeOne_spec P par hp a (hf a List.mem_cons_self)
    obtain ⟨i1, i2⟩ := ih (writeOne O par a) h1 (fun kv hkv => hf kv (List.mem_cons_of_mem _ hkv))
    refine ⟨i1, ?_⟩
    rw [List.foldl_cons, i2, h2]
    rfl

/-- **`Write` applies exactly the net pending changes and clears the cache**: afterwards the
parent's contents are the overlay, the cache store is empty (and satisfies its invariant), so its
own contents are unchanged by the write. -/
theorem write_spec (P : KVSpec O inv vw) (s : σ × CStore) (h : cinv inv vw s) :
    cinv inv vw (write O s) ∧ vw (write O s).1 = cview vw s ∧ (write O s).2 = empty ∧
      cview vw (write O s) = cview vw s := by
  have hf : ∀ kv ∈ s.2.cache.filter (fun kv => kv.2.dirty), kv.2.deleted = kv.2.value.isNone := by
    intro kv hkv
    obtain ⟨hm, hd⟩ := List.mem_filter.mp hkv
    exact h.2.flags kv.1 kv.2 (Assoc.get_of_mem h.2.cacheSorted hm) hd
  obtain ⟨h1, h2⟩ := foldl_writeOne_spec P _ s.1 h.1 hf
  have hv : vw (write O s).1 = cview vw s := h2
  refine ⟨⟨h1, cinv_empty _⟩, hv, rfl, ?_⟩
  show overlay (vw (write O s).1) (pending empty) = _
  rw [hv]; rfl

/-- Whatever is done through a cache store short of `Write`, the parent's contents stay as they
were (so dropping the cache store discards its changes). -/
theorem step_parent_view (P : KVSpec O inv vw) (s : σ × CStore) (h : cinv inv vw s) (op : KVOp) :
    vw ((ops O).step s op).1.1 = vw s.1 := by
  cases op with
  | get k =>
    show vw (get O s k).1.1 = _
    unfold get
    cases Assoc.get s.2.cache k with
    | none => exact P.get_view s.1 k h.1
    | some cv => rfl
  | has k =>
    show vw (get O s k).1.1 = _
    unfold get
    cases Assoc.get s.2.cache k with
    | none => exact P.get_view s.1 k h.1
    | some cv => rfl
  | set k v => rfl
  | del k => rfl
  | iter asc st e => exact P.iter_view s.1 asc st e h.1

theorem run_parent_view (P : KVSpec O inv vw) (s : σ × CStore) (h : cinv inv vw s) (l : List KVOp) :
    vw ((ops O).run s l).1.1 = vw s.1 := by
  induction l generalizing s with
  | nil => rfl
  | cons op l ih =>
    simp only [KVOps.run]
    rw [ih _ ((ops_spec P).step_refines s h op).1, step_parent_view P s h op]

end spec

end CacheKV
