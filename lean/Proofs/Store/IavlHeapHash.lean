import Proofs.Store.IavlHeapBranch
/-!
# IAVL on the heap: `hashWithCount` (WorkingHash) keeps every representation (C09 stage B)
-/
namespace Iavl.Heap
open Iavl
variable (H : HashIn → Hash)

/-- Memoising the correct hash in an unpersisted, unhashed object keeps everything. -/
theorem memoHash_step {P : Addr → Prop} {st : St} {a : Addr} {c : Cell} {t : Node}
    (hrep : Rep H P st t a) (ha : st.heap[a]? = some c) (hnp : c.persisted = false) (hnone : c.hash = none)
    (hc : CacheOK st) :
    SaveStep H P st (st.write a { c with hash := some (treeHash H t) }) ∧
      CacheOK (st.write a { c with hash := some (treeHash H t) }) := by
  let c' : Cell := { c with hash := some (treeHash H t) }
  have hPa : P a := (Rep.cell H hrep).1
  have hother : ∀ (x : Addr) (cx : Cell), x ≠ a → st.heap[x]? = some cx → (st.write a c').heap[x]? = some cx :=
    fun x cx hx hcx => by rw [write_other st c' hx]; exact hcx
  refine ⟨⟨?_, ?_, fun x cx hx hcx => hother x cx (fun e => hx (e ▸ hPa)) hcx, write_len _ _ _, rfl, rfl⟩, ?_⟩
  · refine update_preserves H hrep hother (fun _ _ h => h) (fun P' hk hrep' => ?_)
    cases t with
    | leaf k v ver =>
      obtain ⟨hp, c0, hc0, h1, h2, h3, h4, h5, h6, h7, _, _⟩ := hrep'
      rw [ha] at hc0; cases hc0
      exact ⟨hp, c', write_same ha _, h1, h2, h3, h4, h5, h6, h7, Or.inr rfl, fun hp' => by
        have : c.persisted = true := hp'
        rw [hnp] at this; cases this⟩
    | inner k h s l r ver =>
      obtain ⟨hp, c0, hc0, h1, h2, h3, h4, h5, hl, hr, _, _⟩ := hrep'
      rw [ha] at hc0; cases hc0
      exact ⟨hp, c', write_same ha _, h1, h2, h3, h4, h5, hl.imp (fun q hq => hk.1 P' q hq) id,
        hr.imp (fun q hq => hk.2 P' q hq) id, Or.inr rfl, fun hp' => by
          have : c.persisted = true := hp'
          rw [hnp] at this; cases this⟩
  · refine ⟨fun x cx hcx => ?_, Nat.le_of_eq (write_len _ _ _).symm, fun _ _ h => h⟩
    by_cases hx : x = a
    · subst hx
      rw [ha] at hcx; cases hcx
      exact ⟨c', write_same ha _, by simp [cellLe, hnp, hnone, c']⟩
    · exact ⟨cx, hother x cx hx hcx, cellLe_refl cx⟩
  · refine CacheOK.transfer hc (fun x cx hcx hp => hother x cx (fun e => ?_) hcx) (fun _ _ h => h) (fun _ _ h => h)
    subst e; rw [ha] at hcx; cases hcx; rw [hnp] at hp; cases hp

/-- `if node.leftNode != nil { node.leftHash = node.leftNode.hashWithCount() }` -/
def hashLeftChild (fuel : Nat) (st : St) (a : Addr) (c : Cell) : Option St :=
  match c.leftPtr with
  | some p => do
    let (st, lh) ← hashWithCount H fuel st p
    st.modify a (fun c => { c with leftHash := some lh })
  | none => some st

def hashRightChild (fuel : Nat) (st : St) (a : Addr) (c : Cell) : Option St :=
  match c.rightPtr with
  | some p => do
    let (st, rh) ← hashWithCount H fuel st p
    st.modify a (fun c => { c with rightHash := some rh })
  | none => some st

/-- `writeHashBytes` + `node.hash = …` -/
def hashTail (st : St) (a : Addr) : Option (St × Hash) := do
  let c ← st.heap[a]?
  let inp ← hashInput c
  let st ← st.modify a (fun c => { c with hash := some (H inp) })
  some (st, H inp)

theorem hashWithCount_unfold (fuel : Nat) (st : St) (a : Addr) (c : Cell) (ha : st.heap[a]? = some c)
    (hnone : c.hash = none) :
    hashWithCount H (fuel + 1) st a =
      (hashLeftChild H fuel st a c).bind (fun st => (hashRightChild H fuel st a c).bind (fun st => hashTail H st a)) := by
  simp only [hashWithCount, ha, hnone, Option.bind_eq_bind, Option.bind_some, hashTail, hashLeftChild, hashRightChild]
  cases c.leftPtr <;> cases c.rightPtr <;> simp only [Option.bind_some, Option.bind_assoc, ha] <;> rfl

/-- **`hashWithCount` keeps every representation**; afterwards the object carries the Merkle hash of
the tree it represents. The DB is untouched. -/
theorem hashWithCount_spec :
    ∀ (t : Node) (fuel : Nat) (P : Addr → Prop) (st : St) (a : Addr), depth t < fuel → Rep H P st t a → CacheOK st →
      ∃ st', hashWithCount H fuel st a = some (st', treeHash H t) ∧ SaveStep H P st st' ∧ CacheOK st' ∧
        st'.db = st.db ∧ st'.cmap = st.cmap ∧ (∃ c', st'.heap[a]? = some c' ∧ c'.hash = some (treeHash H t)) := by
  intro t
  induction t with
  | leaf k v ver =>
    intro fuel P st a hfuel hrep hc
    obtain ⟨fuel, rfl⟩ : ∃ f, fuel = f + 1 := ⟨fuel - 1, by omega⟩
    obtain ⟨hPa, c, ha, _, _, _, _, _, hhash, hpers⟩ := Rep.cell H hrep
    rcases hhash with hnone | hsome
    · have hnp : c.persisted = false := by
        cases hp : c.persisted with
        | false => rfl
        | true => rw [(hpers hp).1] at hnone; cases hnone
      have hrep0 := hrep
      obtain ⟨_, c0, hc0, h1, h2, h3, h4, h5, hlp, hrp, _, _⟩ := hrep0
      rw [ha] at hc0; cases hc0
      obtain ⟨hs, hc'⟩ := memoHash_step H hrep ha hnp hnone hc
      have hinp : hashInput c = some (.leaf 0 1 ver k v) := by simp [hashInput, h1, h2, h3, h4, h5]
      refine ⟨_, ?_, hs, hc', rfl, rfl, ⟨_, write_same ha _, rfl⟩⟩
      rw [hashWithCount_unfold H fuel st a c ha hnone]
      simp only [hashLeftChild, hashRightChild, hlp, hrp, Option.bind_some, hashTail, ha, hinp, Option.bind_eq_bind,
        modify_eq ha]
      rfl
    · refine ⟨st, ?_, SaveStep.refl H P st, hc, rfl, rfl, ⟨c, ha, hsome⟩⟩
      simp [hashWithCount, ha, hsome]
  | inner k h s l r ver ihl ihr =>
    intro fuel P st a hfuel hrep hc
    obtain ⟨fuel, rfl⟩ : ∃ f, fuel = f + 1 := ⟨fuel - 1, by omega⟩
    have hdl : depth l < fuel := by simp only [depth] at hfuel; omega
    have hdr : depth r < fuel := by simp only [depth] at hfuel; omega
    have hdl' : depth l < depth (.inner k h s l r ver) := by simp only [depth]; omega
    have hdr' : depth r < depth (.inner k h s l r ver) := by simp only [depth]; omega
    obtain ⟨hPa, c, ha, _, _, _, _, _, hhash, hpers⟩ := Rep.cell H hrep
    rcases hhash with hnone | hsome
    · have hnp : c.persisted = false := by
        cases hp : c.persisted with
        | false => rfl
        | true => rw [(hpers hp).1] at hnone; cases hnone
      let Pa : Addr → Prop := fun x => P x ∧ x ≠ a
      have hPaP : ∀ x, Pa x → P x := fun _ hx => hx.1
      have hnotPa : ¬ Pa a := fun hx => hx.2 rfl
      have hleft : ∃ st2 c2, hashLeftChild H fuel st a c = some st2 ∧ st2.heap[a]? = some c2 ∧
          c2.leftHash = some (treeHash H l) ∧ c2.rightHash = c.rightHash ∧ c2.rightPtr = c.rightPtr ∧
          c2.hash = none ∧ c2.persisted = false ∧
          SaveStep H P st st2 ∧ CacheOK st2 ∧ st2.db = st.db ∧ st2.cmap = st.cmap := by
        have hrep0 := hrep
        obtain ⟨_, c0, hc0, _, _, _, _, _, hl, _, _, _⟩ := hrep0
        rw [ha] at hc0; cases hc0
        cases hq : c.leftPtr with
        | none =>
          simp only [ChildOK, hq] at hl
          exact ⟨st, c, by simp only [hashLeftChild, hq], ha, hl.1, rfl, rfl, hnone, hnp, SaveStep.refl H P st, hc, rfl, rfl⟩
        | some p =>
          simp only [ChildOK, hq] at hl
          have hrl : Rep H Pa st l p := Rep.avoid H hrep l p hdl' hl.1
          obtain ⟨st1, e1, hs1, hc1, hdb1, hcm1, _⟩ := ihl fuel Pa st p hdl hrl hc
          have ha1 : st1.heap[a]? = some c := hs1.outside a c hnotPa ha
          have hrep1 : Rep H P st1 (.inner k h s l r ver) a := hs1.stable P _ a hrep
          obtain ⟨hs2, hc2⟩ := fillHash_step H (c' := { c with leftHash := some (treeHash H l) }) hrep1 ha1 hnp hc1
            (Or.inl ⟨rfl, by rw [hq]; rfl⟩)
          refine ⟨st1.write a { c with leftHash := some (treeHash H l) }, _, ?_, write_same ha1 _, rfl, rfl, rfl, hnone,
            hnp, (hs1.mono H hPaP).trans H hs2, hc2, hdb1, hcm1⟩
          simp only [hashLeftChild, hq, e1, Option.bind_eq_bind, Option.bind_some, modify_eq ha1]
      obtain ⟨st2, c2, e2, ha2, hlh2, hrh2, hrp2, hnone2, hnp2, hs2, hc2, hdb2, hcm2⟩ := hleft
      have hrep2 : Rep H P st2 (.inner k h s l r ver) a := hs2.stable P _ a hrep
      have hright : ∃ st4 c4, hashRightChild H fuel st2 a c = some st4 ∧ st4.heap[a]? = some c4 ∧
          c4.leftHash = some (treeHash H l) ∧ c4.rightHash = some (treeHash H r) ∧
          c4.hash = none ∧ c4.persisted = false ∧
          SaveStep H P st2 st4 ∧ CacheOK st4 ∧ st4.db = st2.db ∧ st4.cmap = st2.cmap := by
        have hrep0 := hrep2
        obtain ⟨_, c0, hc0, _, _, _, _, _, _, hr, _, _⟩ := hrep0
        rw [ha2] at hc0; cases hc0
        cases hq : c.rightPtr with
        | none =>
          rw [hrp2] at hr
          simp only [ChildOK, hq] at hr
          exact ⟨st2, c2, by simp only [hashRightChild, hq], ha2, hlh2, hr.1, hnone2, hnp2, SaveStep.refl H P st2, hc2,
            rfl, rfl⟩
        | some p =>
          rw [hrp2] at hr
          simp only [ChildOK, hq] at hr
          have hrr : Rep H Pa st2 r p := Rep.avoid H hrep2 r p hdr' hr.1
          obtain ⟨st3, e3, hs3, hc3, hdb3, hcm3, _⟩ := ihr fuel Pa st2 p hdr hrr hc2
          have ha3 : st3.heap[a]? = some c2 := hs3.outside a c2 hnotPa ha2
          have hrep3 : Rep H P st3 (.inner k h s l r ver) a := hs3.stable P _ a hrep2
          obtain ⟨hs4, hc4⟩ := fillHash_step H (c' := { c2 with rightHash := some (treeHash H r) }) hrep3 ha3 hnp2 hc3
            (Or.inr ⟨rfl, by rw [hrp2, hq]; rfl⟩)
          refine ⟨st3.write a { c2 with rightHash := some (treeHash H r) }, _, ?_, write_same ha3 _, hlh2, rfl, hnone2,
            hnp2, (hs3.mono H hPaP).trans H hs4, hc4, hdb3, hcm3⟩
          simp only [hashRightChild, hq, e3, Option.bind_eq_bind, Option.bind_some, modify_eq ha3]
      obtain ⟨st4, c4, e4, ha4, hlh4, hrh4, hnone4, hnp4, hs4, hc4, hdb4, hcm4⟩ := hright
      have hrep4 : Rep H P st4 (.inner k h s l r ver) a := hs4.stable P _ a hrep2
      obtain ⟨hs5, hc5⟩ := memoHash_step H hrep4 ha4 hnp4 hnone4 hc4
      have hinp : hashInput c4 = some (.inner h s ver (treeHash H l) (treeHash H r)) := by
        obtain ⟨_, c0, hc0, _, h2, h3, h4, h5, _⟩ := hrep4
        rw [ha4] at hc0; cases hc0
        have h0 : c4.height ≠ 0 := by rw [h2]; exact h3
        simp [hashInput, h3, hlh4, hrh4, h2, h4, h5]
      refine ⟨_, ?_, (hs2.trans H hs4).trans H hs5, hc5, by show st4.db = st.db; rw [hdb4, hdb2],
        by show st4.cmap = st.cmap; rw [hcm4, hcm2], ⟨_, write_same ha4 _, rfl⟩⟩
      rw [hashWithCount_unfold H fuel st a c ha hnone, e2, Option.bind_some, e4, Option.bind_some]
      simp only [hashTail, ha4, hinp, Option.bind_eq_bind, Option.bind_some, modify_eq ha4]
      rfl
    · refine ⟨st, ?_, SaveStep.refl H P st, hc, rfl, rfl, ⟨c, ha, hsome⟩⟩
      simp [hashWithCount, ha, hsome]

end Iavl.Heap
