import PocketModel.Store.HeightCache
import Proofs.Basic.Bytes
/-! Lemmas for C10: sorted maps, the binary search, the fixed iterator, the history invariant. -/
namespace HeightCache

/-- keys strictly increasing -/
def Sorted (d : Data) : Prop := d.Pairwise (fun a b => a.1 < b.1)

theorem sorted_nil : Sorted [] := List.Pairwise.nil

theorem Data.mem_set {d : Data} {k v : Bytes} {p : Bytes × Bytes} (h : p ∈ d.set k v) : p = (k, v) ∨ p ∈ d := by
  induction d with
  | nil => simp [Data.set] at h; exact Or.inl h
  | cons q r ih =>
    obtain ⟨k', v'⟩ := q
    simp only [Data.set] at h
    split at h
    · simp at h; rcases h with h | h | h
      · exact Or.inl h
      · exact Or.inr (by simp [h])
      · exact Or.inr (by simp [h])
    · split at h
      · simp at h; rcases h with h | h
        · exact Or.inl h
        · exact Or.inr (by simp [h])
      · simp at h; rcases h with h | h
        · exact Or.inr (by simp [h])
        · rcases ih h with h | h
          · exact Or.inl h
          · exact Or.inr (by simp [h])

theorem Data.mem_del {d : Data} {k : Bytes} {p : Bytes × Bytes} (h : p ∈ d.del k) : p ∈ d := by
  induction d with
  | nil => simp [Data.del] at h
  | cons q r ih =>
    obtain ⟨k', v'⟩ := q
    simp only [Data.del] at h
    split at h
    · exact List.mem_cons_of_mem _ h
    · simp at h; rcases h with h | h
      · simp [h]
      · exact List.mem_cons_of_mem _ (ih h)

theorem sorted_set {d : Data} (hs : Sorted d) (k v : Bytes) : Sorted (d.set k v) := by
  induction d with
  | nil => simp [Data.set, Sorted]
  | cons q r ih =>
    obtain ⟨k', v'⟩ := q
    have hs' := List.pairwise_cons.mp hs
    simp only [Data.set]
    split
    · rename_i hlt
      refine List.pairwise_cons.mpr ⟨?_, hs⟩
      intro p hp
      simp at hp
      rcases hp with hp | hp
      · simpa [hp] using hlt
      · exact Bytes.lt_trans hlt (hs'.1 p hp)
    · split
      · rename_i _ heq
        subst heq
        exact List.pairwise_cons.mpr ⟨fun p hp => hs'.1 p hp, hs'.2⟩
      · rename_i hnlt hne
        refine List.pairwise_cons.mpr ⟨?_, ih hs'.2⟩
        intro p hp
        rcases Data.mem_set hp with hp | hp
        · subst hp
          rcases Bytes.lt_tri k k' with h | h | h
          · exact absurd h hnlt
          · exact absurd h hne
          · exact h
        · exact hs'.1 p hp

theorem sorted_del {d : Data} (hs : Sorted d) (k : Bytes) : Sorted (d.del k) := by
  induction d with
  | nil => simp [Data.del, Sorted]
  | cons q r ih =>
    obtain ⟨k', v'⟩ := q
    have hs' := List.pairwise_cons.mp hs
    simp only [Data.del]
    split
    · exact hs'.2
    · exact List.pairwise_cons.mpr ⟨fun p hp => hs'.1 p (Data.mem_del hp), ih hs'.2⟩

/-- in a sorted map every stored pair is what `get` returns for its key -/
theorem get_of_mem {d : Data} (hs : Sorted d) {p : Bytes × Bytes} (hp : p ∈ d) : d.get p.1 = some p.2 := by
  induction d with
  | nil => simp at hp
  | cons q r ih =>
    obtain ⟨k', v'⟩ := q
    have hs' := List.pairwise_cons.mp hs
    simp only [Data.get]
    simp at hp
    rcases hp with hp | hp
    · subst hp; simp
    · have : p.1 ≠ k' := fun e => Bytes.lt_irrefl k' (by simpa [e] using hs'.1 p hp)
      simp [this, ih hs'.2 hp]



theorem getD_lt_of_sorted {keys : List Bytes} (hs : keys.Pairwise (· < ·)) {a b : Nat} (hab : a < b) (hb : b < keys.length) :
    keys.getD a [] < keys.getD b [] := by
  have ha : a < keys.length := Nat.lt_trans hab hb
  have e1 : keys.getD a [] = keys[a] := by simp [List.getD_eq_getElem?_getD, ha]
  have e2 : keys.getD b [] = keys[b] := by simp [List.getD_eq_getElem?_getD, hb]
  rw [e1, e2]
  exact List.pairwise_iff_getElem.mp hs a b ha hb hab

theorem searchLoop_spec (keys : List Bytes) (x : Bytes) (hs : keys.Pairwise (· < ·)) :
    ∀ fuel i j, i ≤ j → j ≤ keys.length → j - i ≤ fuel →
    (∀ t, t < i → keys.getD t [] < x) → (∀ t, j ≤ t → t < keys.length → x ≤ keys.getD t []) →
    i ≤ searchLoop keys x fuel i j ∧ searchLoop keys x fuel i j ≤ j ∧
    (∀ t, t < searchLoop keys x fuel i j → keys.getD t [] < x) ∧
    (∀ t, searchLoop keys x fuel i j ≤ t → t < keys.length → x ≤ keys.getD t []) := by
  intro fuel
  induction fuel with
  | zero =>
    intro i j hij hj hf hlo hhi
    have : i = j := by omega
    subst this
    simp [searchLoop]
    exact ⟨hlo, hhi⟩
  | succ f ih =>
    intro i j hij hj hf hlo hhi
    simp only [searchLoop]
    by_cases hlt : i < j
    · rw [if_pos hlt]
      have h1 : i ≤ (i + j) / 2 := by omega
      have h2 : (i + j) / 2 < j := by omega
      by_cases hx : x ≤ keys.getD ((i + j) / 2) []
      · rw [if_pos hx]
        have := ih i ((i + j) / 2) h1 (by omega) (by omega) hlo (by
          intro t ht htl
          rcases Nat.eq_or_lt_of_le ht with e | e
          · rw [← e]; exact hx
          · exact Bytes.le_of_lt (Bytes.lt_of_le_of_lt hx (getD_lt_of_sorted hs e htl)))
        exact ⟨this.1, by omega, this.2.2.1, this.2.2.2⟩
      · rw [if_neg hx]
        have hx' : keys.getD ((i + j) / 2) [] < x := Bytes.not_le.mp hx
        have := ih ((i + j) / 2 + 1) j (by omega) hj (by omega) (by
          intro t ht
          rcases Nat.eq_or_lt_of_le (Nat.le_of_lt_succ ht) with e | e
          · rw [e]; exact hx'
          · exact Bytes.lt_trans (getD_lt_of_sorted hs e (by omega)) hx') hhi
        exact ⟨by omega, this.2.1, this.2.2.1, this.2.2.2⟩
    · rw [if_neg hlt]
      have : i = j := by omega
      subst this
      exact ⟨Nat.le_refl _, Nat.le_refl _, hlo, hhi⟩

theorem searchStrings_spec (keys : List Bytes) (x : Bytes) (hs : keys.Pairwise (· < ·)) :
    searchStrings keys x ≤ keys.length ∧
    (∀ t, t < searchStrings keys x → keys.getD t [] < x) ∧
    (∀ t, searchStrings keys x ≤ t → t < keys.length → x ≤ keys.getD t []) := by
  have := searchLoop_spec keys x hs keys.length 0 keys.length (Nat.zero_le _) (Nat.le_refl _) (by omega)
    (by intro t ht; omega) (by intro t ht htl; omega)
  exact ⟨this.2.1, this.2.2.1, this.2.2.2⟩


theorem filter_eq_seg {α : Type} (l : List α) (P : α → Bool) (a b : Nat) (hab : a ≤ b) (hb : b ≤ l.length)
    (h1 : ∀ t (h : t < l.length), t < a → P l[t] = false)
    (h2 : ∀ t (h : t < l.length), a ≤ t → t < b → P l[t] = true)
    (h3 : ∀ t (h : t < l.length), b ≤ t → P l[t] = false) :
    l.filter P = (l.drop a).take (b - a) := by
  have e1 : l = l.take a ++ ((l.drop a).take (b - a) ++ (l.drop a).drop (b - a)) := by
    rw [List.take_append_drop, List.take_append_drop]
  conv => lhs; rw [e1]
  rw [List.filter_append, List.filter_append]
  have f1 : (l.take a).filter P = [] := by
    rw [List.filter_eq_nil_iff]
    intro x hx
    obtain ⟨i, hi, rfl⟩ := List.mem_iff_getElem.mp hx
    rw [List.getElem_take]
    have hi' : i < a := by rw [List.length_take] at hi; omega
    have hil : i < l.length := by rw [List.length_take] at hi; omega
    simp [h1 i hil hi']
  have f2 : ((l.drop a).take (b - a)).filter P = (l.drop a).take (b - a) := by
    rw [List.filter_eq_self]
    intro x hx
    obtain ⟨i, hi, rfl⟩ := List.mem_iff_getElem.mp hx
    rw [List.getElem_take, List.getElem_drop]
    rw [List.length_take, List.length_drop] at hi
    exact h2 (a + i) (by omega) (by omega) (by omega)
  have f3 : ((l.drop a).drop (b - a)).filter P = [] := by
    rw [List.filter_eq_nil_iff]
    intro x hx
    obtain ⟨i, hi, rfl⟩ := List.mem_iff_getElem.mp hx
    rw [List.getElem_drop, List.getElem_drop]
    rw [List.length_drop, List.length_drop] at hi
    simp [h3 (a + (b - a + i)) (by omega) (by omega)]
  rw [f1, f2, f3]; simp



/-- what `Key()`/`Value()` give for a key -/
def pairOf (data : Data) (k : Bytes) : Bytes × Bytes := (k, (data.get k).getD [])

theorem getD_eq {keys : List Bytes} {c : Nat} (h : c < keys.length) : keys.getD c [] = keys[c] := by
  simp [List.getD_eq_getElem?_getD, h]

theorem drain_fixed_asc (data : Data) (keys : List Bytes) (a b : Nat) (st en : Bytes) (hb : b ≤ keys.length) :
    ∀ n c fuel, c + n = b → a ≤ c → n < fuel →
    drain validFixed ⟨data, keys, (c : Int), (a : Int), (b : Int) - 1, st, en, true, false⟩ fuel
      = ⟨((keys.drop c).take n).map (pairOf data), false⟩ := by
  intro n
  induction n with
  | zero =>
    intro c fuel hc hac hf
    obtain ⟨f, rfl⟩ : ∃ f, fuel = f + 1 := ⟨fuel - 1, by omega⟩
    have : ¬ ((c : Int) ≤ (b : Int) - 1) := by omega
    simp [drain, validFixed, this]
  | succ n ih =>
    intro c fuel hc hac hf
    obtain ⟨f, rfl⟩ : ∃ f, fuel = f + 1 := ⟨fuel - 1, by omega⟩
    have h1 : ((a : Int) ≤ (c : Int)) := by omega
    have h2 : ((c : Int) ≤ (b : Int) - 1) := by omega
    have hcl : c < keys.length := by omega
    simp only [drain, validFixed, h1, h2]
    simp only [Bool.false_eq_true, if_false, decide_true, Bool.and_self, if_true]
    have := ih (c + 1) f (by omega) (by omega) (by omega)
    simp only [Int.toNat_natCast, Int.natCast_add, Int.cast_ofNat_Int] at this ⊢
    rw [this]
    rw [List.drop_eq_getElem_cons hcl, List.take_succ_cons, List.map_cons, getD_eq hcl]
    rfl

theorem drain_fixed_desc (data : Data) (keys : List Bytes) (a b : Nat) (st en : Bytes) (hb : b ≤ keys.length) :
    ∀ n fuel, a + n ≤ b → n < fuel →
    drain validFixed ⟨data, keys, ((a + n : Nat) : Int) - 1, (a : Int), (b : Int) - 1, st, en, false, false⟩ fuel
      = ⟨(((keys.drop a).take n).map (pairOf data)).reverse, false⟩ := by
  intro n
  induction n with
  | zero =>
    intro fuel hc hf
    obtain ⟨f, rfl⟩ : ∃ f, fuel = f + 1 := ⟨fuel - 1, by omega⟩
    have : ¬ ((a : Int) ≤ (a : Int) - 1) := by omega
    simp [drain, validFixed, this]
  | succ n ih =>
    intro fuel hc hf
    obtain ⟨f, rfl⟩ : ∃ f, fuel = f + 1 := ⟨fuel - 1, by omega⟩
    have h1 : ((a : Int) ≤ ((a + (n + 1) : Nat) : Int) - 1) := by omega
    have h2 : (((a + (n + 1) : Nat) : Int) - 1 ≤ (b : Int) - 1) := by omega
    have hcl : a + n < keys.length := by omega
    simp only [drain, validFixed, h1, h2]
    simp only [Bool.false_eq_true, if_false, decide_true, Bool.and_self, if_true]
    have e : ((a + (n + 1) : Nat) : Int) - 1 - 1 = ((a + n : Nat) : Int) - 1 := by omega
    have e2 : (((a + (n + 1) : Nat) : Int) - 1).toNat = a + n := by omega
    rw [e, e2, ih f (by omega) (by omega)]
    rw [List.take_add_one, List.map_append, List.reverse_append]
    have : (keys.drop a)[n]? = some keys[a + n] := by
      rw [List.getElem?_drop]; simp [hcl]
    rw [this, getD_eq hcl]
    rfl



theorem keys_sorted {d : Data} (hs : Sorted d) : d.keys.Pairwise (· < ·) := by
  unfold Data.keys; exact List.pairwise_map.mpr hs

theorem inRange_eq (s e : Option Bytes) (k : Bytes) :
    inRange s e k = (decide (str s ≤ k) && (match e with | none => true | some e => decide (k < e))) := by
  cases s with
  | none => cases e <;> simp [inRange, str, List.nil_le]
  | some s => rfl

/-- pairs of a sorted map are recovered from their keys -/
theorem map_pairOf_keys {d : Data} (hs : Sorted d) (l : List (Bytes × Bytes)) (hl : ∀ p ∈ l, p ∈ d) :
    (l.map (·.1)).map (pairOf d) = l := by
  rw [List.map_map]
  conv => rhs; rw [← List.map_id l]
  apply List.map_congr_left
  intro p hp
  simp [pairOf, get_of_mem hs (hl p hp)]

theorem seg_keys {d : Data} (hs : Sorted d) (a n : Nat) :
    ((d.keys.drop a).take n).map (pairOf d) = (d.drop a).take n := by
  unfold Data.keys
  rw [← List.map_drop, ← List.map_take]
  exact map_pairOf_keys hs _ (fun p hp => List.mem_of_mem_drop (List.mem_of_mem_take hp))

theorem drain_empty (fuel : Nat) : drain validFixed emptyIter (fuel + 1) = ⟨[], false⟩ := by
  simp [drain, validFixed, emptyIter]

theorem key_getD (d : Data) (t : Nat) (h : t < d.length) : d.keys.getD t [] = d[t].1 := by
  have : t < d.keys.length := by simpa [Data.keys] using h
  rw [getD_eq this]; simp [Data.keys]

theorem fixed_iter_eq (d : Data) (hs : Sorted d) (s e : Option Bytes) (asc : Bool) :
    fixed.iter d d.keys s e asc = treeIter d s e asc := by
  have hk := keys_sorted hs
  have hlen : d.keys.length = d.length := by simp [Data.keys]
  by_cases he0 : e = some []
  · subst he0
    simp only [fixed, if_true]
    rw [drain_empty]
    cases asc <;> simp [treeIter, inRange, List.not_lt_nil]
  · simp only [fixed, if_neg he0, newIterFixed]
    by_cases hswap : str s ≠ [] ∧ str e ≠ [] ∧ str e < str s
    · rw [if_pos hswap, drain_empty]
      obtain ⟨_, h2, h3⟩ := hswap
      have : d.filter (fun p => inRange s e p.1) = [] := by
        rw [List.filter_eq_nil_iff]
        intro p _
        cases e with
        | none => simp [str] at h2
        | some e' =>
          rw [inRange_eq]
          simp only [str, Option.getD_some] at h3
          intro hc
          simp at hc
          exact Bytes.lt_irrefl _ (Bytes.lt_of_le_of_lt hc.1 (Bytes.lt_trans hc.2 h3))
      simp [treeIter, this]
    · rw [if_neg hswap]
      have hkeys : (if d.keys.length = 0 then d.keys else d.keys) = d.keys := by split <;> rfl
      simp only [hkeys]
      -- the two indices
      let a : Nat := if str s ≠ [] then searchStrings d.keys (str s) else 0
      let b : Nat := if str e ≠ [] then searchStrings d.keys (str e) else d.keys.length
      have ha : (if str s ≠ [] then ((searchStrings d.keys (str s) : Nat) : Int) else 0) = (a : Int) := by
        simp only [a]; split <;> simp
      have hb : (if str e ≠ [] then ((searchStrings d.keys (str e) : Nat) : Int) - 1 else (d.keys.length : Int) - 1) = (b : Int) - 1 := by
        simp only [b]; split <;> simp
      rw [ha, hb]
      have sa := searchStrings_spec d.keys (str s) hk
      have sb := searchStrings_spec d.keys (str e) hk
      have hbl : b ≤ d.keys.length := by simp only [b]; split; exact sb.1; exact Nat.le_refl _
      -- facts about the indices
      have lo1 : ∀ t, t < a → d.keys.getD t [] < str s := by
        intro t ht; simp only [a] at ht; split at ht
        · exact sa.2.1 t ht
        · omega
      have lo2 : ∀ t, a ≤ t → t < d.keys.length → str s ≤ d.keys.getD t [] := by
        intro t ht htl; simp only [a] at ht; split at ht
        · exact sa.2.2 t ht htl
        · rename_i h; simp at h; rw [h]; exact List.nil_le _
      have hi1 : ∀ t, t < b → str e ≠ [] → d.keys.getD t [] < str e := by
        intro t ht hne; simp only [b, if_pos hne] at ht
        exact sb.2.1 t ht
      have hi2 : ∀ t, b ≤ t → t < d.keys.length → str e ≠ [] ∧ str e ≤ d.keys.getD t [] := by
        intro t ht htl; simp only [b] at ht; split at ht
        · rename_i h; exact ⟨h, sb.2.2 t ht htl⟩
        · omega
      have hab : a ≤ b := by
        rcases Nat.lt_or_ge b a with h | h
        · exfalso
          have hbl' : b < d.keys.length := by
            have : a ≤ d.keys.length := by simp only [a]; split; exact sa.1; exact Nat.zero_le _
            omega
          have h1 := lo1 b h
          have h2 := hi2 b (Nat.le_refl _) hbl'
          have hsne : str s ≠ [] := by
            intro h0; rw [h0] at h1; exact List.not_lt_nil _ h1
          exact hswap ⟨hsne, h2.1, Bytes.lt_of_le_of_lt h2.2 h1⟩
        · exact h
      -- the tree side
      have htree : d.filter (fun p => inRange s e p.1) = (d.drop a).take (b - a) := by
        apply filter_eq_seg d _ a b hab (by omega)
        · intro t h ht
          have := lo1 t ht
          rw [key_getD d t h] at this
          rw [inRange_eq]
          simp [Bytes.not_le.mpr this]
        · intro t h h1 h2
          have l := lo2 t h1 (by omega)
          rw [key_getD d t h] at l
          rw [inRange_eq]
          simp only [l, decide_true, Bool.true_and]
          cases e with
          | none => rfl
          | some e' =>
            have hne : str (some e') ≠ [] := by simpa [str] using he0
            have := hi1 t h2 hne
            rw [key_getD d t h] at this
            simpa [str] using this
        · intro t h h1
          have := hi2 t h1 (by omega)
          rw [key_getD d t h] at this
          rw [inRange_eq]
          cases e with
          | none => simp [str] at this
          | some e' =>
            have h3 : ¬ d[t].1 < e' := Bytes.not_lt.mpr (by simpa [str] using this.2)
            simp [h3]
      cases asc with
      | true =>
        simp only [if_true]
        rw [drain_fixed_asc d d.keys a b (str s) (str e) hbl (b - a) a _ (by omega) (Nat.le_refl _) (by omega)]
        rw [seg_keys hs]
        simp [treeIter, htree]
      | false =>
        simp only [Bool.false_eq_true, if_false]
        have hd := drain_fixed_desc d d.keys a b (str s) (str e) hbl (b - a) (d.keys.length + 2) (by omega) (by omega)
        rw [show ((a + (b - a) : Nat) : Int) = (b : Int) by omega] at hd
        rw [hd]
        rw [seg_keys hs]
        simp [treeIter, htree]



theorem savedAt_mem {saved : List (Int × Data)} {h : Int} {d : Data} (hs : savedAt saved h = some d) : (h, d) ∈ saved := by
  unfold savedAt at hs
  rw [Option.map_eq_some_iff] at hs
  obtain ⟨p, hp, rfl⟩ := hs
  have := List.find?_some hp
  simp at this
  rw [← this]
  exact List.mem_of_find?_eq_some hp

/-- The history invariant: the cache's current data is the working tree, and every filled slot holds
the saved map of its height together with the variant's `orderedKeys` for it. -/
structure Inv (V : Variant) (s : Store) : Prop where
  working : Sorted s.working
  saved_sorted : ∀ p ∈ s.saved, Sorted p.2
  saved_range : ∀ p ∈ s.saved, 1 ≤ p.1 ∧ p.1 ≤ s.version
  ver : 0 ≤ s.version
  cache : ∀ c, s.cache = some c →
    c.curData = s.working ∧ c.curHeight = s.version ∧
    ∀ sl ∈ c.past, sl.height = -1 ∨ (savedAt s.saved sl.height = some sl.data ∧ sl.orderedKeys = V.ordered sl.data)

theorem inv_fresh (V : Variant) (cap : Option Nat) : Inv V (Store.fresh cap) := by
  refine ⟨sorted_nil, by simp [Store.fresh], by simp [Store.fresh], by simp [Store.fresh], ?_⟩
  intro c hc
  cases cap with
  | none => simp [Store.fresh] at hc
  | some n =>
    simp [Store.fresh] at hc
    subst hc
    refine ⟨rfl, rfl, ?_⟩
    intro sl hsl
    simp [Cache.initialize, Cache.new] at hsl
    exact Or.inl (by rw [hsl.2])

theorem inv_step (V : Variant) (s : Store) (o : Op) (hi : Inv V s) : Inv V (s.step V o) := by
  cases o with
  | set k v =>
    refine ⟨sorted_set hi.working k v, hi.saved_sorted, hi.saved_range, hi.ver, ?_⟩
    intro c hc
    simp only [Store.step, Option.map_eq_some_iff] at hc
    obtain ⟨c0, hc0, rfl⟩ := hc
    obtain ⟨h1, h2, h3⟩ := hi.cache c0 hc0
    exact ⟨by simp [Store.step, h1], h2, h3⟩
  | del k =>
    refine ⟨sorted_del hi.working k, hi.saved_sorted, hi.saved_range, hi.ver, ?_⟩
    intro c hc
    simp only [Store.step, Option.map_eq_some_iff] at hc
    obtain ⟨c0, hc0, rfl⟩ := hc
    obtain ⟨h1, h2, h3⟩ := hi.cache c0 hc0
    exact ⟨by simp [Store.step, h1], h2, h3⟩
  | commit =>
    have hver := hi.ver
    refine ⟨hi.working, ?_, ?_, by simp only [Store.step]; omega, ?_⟩
    · intro p hp
      simp only [Store.step, List.mem_cons] at hp
      rcases hp with rfl | hp
      · exact hi.working
      · exact hi.saved_sorted p hp
    · intro p hp
      simp only [Store.step, List.mem_cons] at hp ⊢
      rcases hp with rfl | hp
      · simp only; omega
      · have := hi.saved_range p hp; omega
    · intro c hc
      simp only [Store.step, Option.map_eq_some_iff] at hc
      obtain ⟨c0, hc0, rfl⟩ := hc
      obtain ⟨h1, h2, h3⟩ := hi.cache c0 hc0
      -- old slots keep their meaning under the longer `saved` list
      have hold : ∀ sl ∈ c0.past, sl.height = -1 ∨
          (savedAt ((s.version + 1, s.working) :: s.saved) sl.height = some sl.data ∧ sl.orderedKeys = V.ordered sl.data) := by
        intro sl hsl
        rcases h3 sl hsl with h | ⟨h, h'⟩
        · exact Or.inl h
        · refine Or.inr ⟨?_, h'⟩
          have hr := hi.saved_range _ (savedAt_mem h)
          have hne : ¬ (s.version + 1 = sl.height) := by simp only at hr; omega
          unfold savedAt at h ⊢
          rw [List.find?_cons_of_neg (by simpa using hne)]
          exact h
      unfold Cache.commit
      split
      · exact ⟨h1, rfl, hold⟩
      · refine ⟨h1, rfl, ?_⟩
        intro sl hsl
        rcases List.mem_or_eq_of_mem_set hsl with hsl | rfl
        · exact hold sl hsl
        · refine Or.inr ⟨?_, rfl⟩
          simp [savedAt, h1, Store.step]
  | reopen =>
    have hd : Sorted ((savedAt s.saved s.version).getD []) := by
      cases h : savedAt s.saved s.version with
      | none => exact sorted_nil
      | some d => exact hi.saved_sorted _ (savedAt_mem h)
    refine ⟨hd, hi.saved_sorted, hi.saved_range, hi.ver, ?_⟩
    intro c hc
    simp only [Store.step, Option.map_eq_some_iff] at hc
    obtain ⟨c0, hc0, rfl⟩ := hc
    refine ⟨rfl, rfl, ?_⟩
    intro sl hsl
    simp [Cache.initialize, Cache.new] at hsl
    exact Or.inl (by rw [hsl.2])

theorem inv_run (V : Variant) (ops : List Op) : ∀ s, Inv V s → Inv V (s.run V ops) := by
  induction ops with
  | nil => intro s h; exact h
  | cons o r ih => intro s h; exact ih _ (inv_step V s o h)

/-- What the slot selected for a saved height contains. -/
theorem slot_spec {V : Variant} {s : Store} (hi : Inv V s) {c : Cache} (hc : s.cache = some c)
    {h : Int} {d : Data} (hd : savedAt s.saved h = some d) {sl : Slot} (hs : c.slot h = some sl) :
    sl.data = d ∧ sl.orderedKeys = V.ordered d := by
  unfold Cache.slot at hs
  split at hs
  · have hm := List.mem_of_find?_eq_some hs
    have hh := List.find?_some hs
    simp at hh
    obtain ⟨_, _, h3⟩ := hi.cache c hc
    have hr := hi.saved_range _ (savedAt_mem hd)
    rcases h3 sl hm with h | ⟨h, h'⟩
    · simp only at hr; omega
    · rw [hh, hd] at h
      injection h with h
      exact ⟨h.symm, by rw [h', ← h]⟩
  · simp at hs



theorem lazyLoad_eq {s : Store} {h : Int} {view : Store} (hv : s.lazyLoad h = some view) :
    ∃ d, savedAt s.saved h = some d ∧ view = { s with version := h, working := d } := by
  unfold Store.lazyLoad at hv
  rw [Option.map_eq_some_iff] at hv
  obtain ⟨d, hd, rfl⟩ := hv
  exact ⟨d, hd, rfl⟩

theorem slot_some_served {c : Cache} {h : Int} {sl : Slot} (hs : c.slot h = some sl) : c.safe h = true := by
  unfold Cache.slot at hs
  split at hs
  · assumption
  · simp at hs

/-- A point read of a lazily loaded version is the tree's, or the cache's on the same map. -/
theorem view_get_cases {V : Variant} {s : Store} (hi : Inv V s) {h : Int} {view : Store}
    (hv : s.lazyLoad h = some view) (k : Bytes) :
    view.get V k = view.working.get k ∨ (view.served = true ∧ view.get V k = V.get view.working k) := by
  obtain ⟨d, hd, rfl⟩ := lazyLoad_eq hv
  cases hc : s.cache with
  | none => left; simp [Store.get, hc]
  | some c =>
    cases hs : c.slot h with
    | none => left; simp [Store.get, hc, Cache.get, hs]
    | some sl =>
      right
      obtain ⟨h1, _⟩ := slot_spec hi hc hd hs
      refine ⟨by simp [Store.served, hc, slot_some_served hs], ?_⟩
      simp [Store.get, hc, Cache.get, hs, h1]

/-- A range read of a lazily loaded version is the tree's, or the cache iterator's on the same map
with the `orderedKeys` that `Commit` stored for it. -/
theorem view_iter_cases {V : Variant} {s : Store} (hi : Inv V s) {h : Int} {view : Store}
    (hv : s.lazyLoad h = some view) (st e : Option Bytes) (asc : Bool) :
    view.iter V st e asc = treeIter view.working st e asc ∨
    (view.served = true ∧ view.iter V st e asc = V.iter view.working (V.ordered view.working) st e asc) := by
  obtain ⟨d, hd, rfl⟩ := lazyLoad_eq hv
  cases hc : s.cache with
  | none => left; simp [Store.iter, hc]
  | some c =>
    cases hs : c.slot h with
    | none => left; simp [Store.iter, hc, Cache.iter, hs]
    | some sl =>
      right
      obtain ⟨h1, h2⟩ := slot_spec hi hc hd hs
      refine ⟨by simp [Store.served, hc, slot_some_served hs], ?_⟩
      simp [Store.iter, hc, Cache.iter, hs, h1, h2]

theorem view_sorted {V : Variant} {s : Store} (hi : Inv V s) {h : Int} {view : Store}
    (hv : s.lazyLoad h = some view) : Sorted view.working := by
  obtain ⟨d, hd, rfl⟩ := lazyLoad_eq hv
  exact hi.saved_sorted _ (savedAt_mem hd)

@[simp] theorem readNoCache_get (s : Store) (k : Bytes) : s.readNoCache (.get k) = .val (s.working.get k) := by
  simp [Store.readNoCache, Store.read, Store.get]
@[simp] theorem readNoCache_getW (s : Store) (k : Bytes) : s.readNoCache (.getW k) = .val (s.working.get k) := by
  simp [Store.readNoCache, Store.read, Store.get]
@[simp] theorem readNoCache_has (s : Store) (k : Bytes) : s.readNoCache (.has k) = .bool (s.working.get k).isSome := by
  simp [Store.readNoCache, Store.read]
@[simp] theorem readNoCache_hasW (s : Store) (k : Bytes) : s.readNoCache (.hasW k) = .bool (s.working.get k).isSome := by
  simp [Store.readNoCache, Store.read, Store.get]
@[simp] theorem readNoCache_iter (s : Store) (st e : Option Bytes) (asc : Bool) :
    s.readNoCache (.iter st e asc) = .items (treeIter s.working st e asc) := by
  simp [Store.readNoCache, Store.read, Store.iter]
@[simp] theorem readNoCache_iterW (s : Store) (st e : Option Bytes) (asc : Bool) :
    s.readNoCache (.iterW st e asc) = .items (treeIter s.working st e asc) := by
  simp [Store.readNoCache, Store.read, Store.iter]

/-- Full transparency for any variant whose `Get` is the map lookup and whose iterator over the
stored `orderedKeys` is the tree's range scan. -/
theorem transparent_of_variant {V : Variant} (hget : ∀ d k, V.get d k = d.get k)
    (hiter : ∀ d, Sorted d → ∀ st e asc, V.iter d (V.ordered d) st e asc = treeIter d st e asc)
    {s : Store} (hi : Inv V s) {h : Int} {view : Store} (hv : s.lazyLoad h = some view) (r : Read) :
    view.read V r = view.readNoCache r := by
  have hg : ∀ k, view.get V k = view.working.get k := by
    intro k; rcases view_get_cases hi hv k with h | ⟨_, h⟩
    · exact h
    · rw [h, hget]
  have hit : ∀ st e asc, view.iter V st e asc = treeIter view.working st e asc := by
    intro st e asc; rcases view_iter_cases hi hv st e asc with h | ⟨_, h⟩
    · exact h
    · rw [h, hiter _ (view_sorted hi hv)]
  cases r <;> simp [Store.read, hg, hit]

/-- The working store (height = the cache's current height) is never served from the cache. -/
theorem working_not_served {V : Variant} {s : Store} (hi : Inv V s) : s.served = false := by
  unfold Store.served
  cases hc : s.cache with
  | none => rfl
  | some c =>
    obtain ⟨_, h2, _⟩ := hi.cache c hc
    simp [Cache.safe, h2]

theorem working_read {V : Variant} {s : Store} (hi : Inv V s) (r : Read) : s.read V r = s.readNoCache r := by
  have hs : ∀ c, s.cache = some c → c.slot s.version = none := by
    intro c hc
    obtain ⟨_, h2, _⟩ := hi.cache c hc
    simp [Cache.slot, Cache.safe, h2]
  have hg : ∀ k, s.get V k = s.working.get k := by
    intro k
    cases hc : s.cache with
    | none => simp [Store.get, hc]
    | some c => simp [Store.get, hc, Cache.get, hs c hc]
  have hit : ∀ st e asc, s.iter V st e asc = treeIter s.working st e asc := by
    intro st e asc
    cases hc : s.cache with
    | none => simp [Store.iter, hc]
    | some c => simp [Store.iter, hc, Cache.iter, hs c hc]
  cases r <;> simp [Store.read, hg, hit]

/-- The tree part of the state does not depend on the cache: the cache-off twin has the same. -/
theorem twin_tree (V : Variant) (ops : List Op) : ∀ (s t : Store),
    s.version = t.version → s.working = t.working → s.saved = t.saved →
    (s.run V ops).version = (t.run V ops).version ∧ (s.run V ops).working = (t.run V ops).working ∧
    (s.run V ops).saved = (t.run V ops).saved := by
  induction ops with
  | nil => intro s t h1 h2 h3; exact ⟨h1, h2, h3⟩
  | cons o r ih =>
    intro s t h1 h2 h3
    apply ih
    all_goals cases o <;> simp [Store.step, h1, h2, h3]



theorem run_cache_none (V : Variant) (ops : List Op) : ∀ s : Store, s.cache = none → (s.run V ops).cache = none := by
  induction ops with
  | nil => intro s h; exact h
  | cons o r ih => intro s h; exact ih (s.step V o) (by cases o <;> simp [Store.step, h])

end HeightCache
