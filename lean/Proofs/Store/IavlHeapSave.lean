import Proofs.Store.IavlHeapOps
import Proofs.Store.IavlOrd
/-!
# IAVL on the heap: hashing and `SaveBranch` (C09 stage B)

`RepStable st st'`: every representation judgement of `st` still holds in `st'`.  Set/remove have it
because they write no existing object (`Ext`); hashing and saving have it because the only writes to
existing objects are memoising a correct hash, filling in a correct child hash, and sealing an
object (persisted := true, pointers := nil) whose children are in the DB.
-/
namespace Iavl.Heap
open Iavl
variable (H : HashIn → Hash)

/-- Everything that represented a tree still represents the same tree. -/
def RepStable (st st' : St) : Prop := ∀ (P : Addr → Prop) (t : Node) (x : Addr), Rep H P st t x → Rep H P st' t x

theorem RepStable.refl (st : St) : RepStable H st st := fun _ _ _ h => h

theorem RepStable.trans {st st1 st2 : St} (h1 : RepStable H st st1) (h2 : RepStable H st1 st2) : RepStable H st st2 :=
  fun P t x h => h2 P t x (h1 P t x h)

theorem RepStable.of_ext {st st' : St} (h : Ext st st') : RepStable H st st' :=
  fun _ _ _ hr => Rep.ext H hr h (fun _ _ => trivial)

/-! ## A represented tree is determined by the address -/

theorem storedOf_height_leaf (k v : Bytes) (ver : Nat) : (storedOf H (.leaf k v ver)).height = 0 := rfl

theorem InDB.functional {db : Hash → Option Stored} :
    ∀ {t t' : Node}, InDB H db t → InDB H db t' → treeHash H t = treeHash H t' → t = t'
  | .leaf k v ver, .leaf k' v' ver', h, h', e => by
    simp only [InDB] at h h'
    rw [e, h'] at h
    simp only [storedOf, Option.some.injEq, Stored.mk.injEq] at h
    obtain ⟨rfl, hv, _, _, rfl, _, _⟩ := h
    cases hv; rfl
  | .leaf k v ver, .inner k' h' s' l' r' ver', h, hi, e => by
    simp only [InDB] at h hi
    rw [e, hi.2.1] at h
    simp only [storedOf, Option.some.injEq, Stored.mk.injEq] at h
    exact absurd h.2.2.1 hi.1
  | .inner k h s l r ver, .leaf k' v' ver', hi, h', e => by
    simp only [InDB] at hi h'
    rw [← e, hi.2.1] at h'
    simp only [storedOf, Option.some.injEq, Stored.mk.injEq] at h'
    exact absurd h'.2.2.1 hi.1
  | .inner k h s l r ver, .inner k' h' s' l' r' ver', hi, hi', e => by
    simp only [InDB] at hi hi'
    have := hi.2.1
    rw [e, hi'.2.1] at this
    simp only [storedOf, Option.some.injEq, Stored.mk.injEq] at this
    obtain ⟨rfl, _, rfl, rfl, rfl, hl, hr⟩ := this
    have el := InDB.functional hi.2.2.1 hi'.2.2.1 hl.symm
    have er := InDB.functional hi.2.2.2 hi'.2.2.2 hr.symm
    rw [el, er]

theorem Rep.functional {P P' : Addr → Prop} {st : St} :
    ∀ {t t' : Node} {a : Addr}, Rep H P st t a → Rep H P' st t' a → t = t'
  | .leaf k v ver, .leaf k' v' ver', a, ⟨_, c, hc, h⟩, ⟨_, c', hc', h'⟩ => by
    rw [hc] at hc'; cases hc'
    obtain ⟨rfl, hv, _, _, rfl, _⟩ := h
    obtain ⟨rfl, hv', _, _, rfl, _⟩ := h'
    rw [hv] at hv'; cases hv'; rfl
  | .leaf k v ver, .inner k' h' s' l' r' ver', a, ⟨_, c, hc, h⟩, ⟨_, c', hc', hi⟩ => by
    rw [hc] at hc'; cases hc'
    exact absurd (hi.2.1 ▸ h.2.2.1) hi.2.2.1
  | .inner k h s l r ver, .leaf k' v' ver', a, ⟨_, c, hc, hi⟩, ⟨_, c', hc', h'⟩ => by
    rw [hc] at hc'; cases hc'
    exact absurd (hi.2.1 ▸ h'.2.2.1) hi.2.2.1
  | .inner k h s l r ver, .inner k' h' s' l' r' ver', a, ⟨_, c, hc, hi⟩, ⟨_, c', hc', hi'⟩ => by
    rw [hc] at hc'; cases hc'
    obtain ⟨rfl, rfl, _, rfl, rfl, hl, hr, _, _⟩ := hi
    obtain ⟨rfl, rfl, _, rfl, rfl, hl', hr', _, _⟩ := hi'
    have el : l = l' := by
      cases hp : c.leftPtr with
      | some p =>
        simp only [ChildOK, hp] at hl hl'
        exact Rep.functional hl.1 hl'.1
      | none =>
        simp only [ChildOK, hp] at hl hl'
        exact InDB.functional H hl.2 hl'.2 (Option.some.inj (hl.1.symm.trans hl'.1))
    have er : r = r' := by
      cases hp : c.rightPtr with
      | some p =>
        simp only [ChildOK, hp] at hr hr'
        exact Rep.functional hr.1 hr'.1
      | none =>
        simp only [ChildOK, hp] at hr hr'
        exact InDB.functional H hr.2 hr'.2 (Option.some.inj (hr.1.symm.trans hr'.1))
    rw [el, er]

/-! ## Acyclicity: an object is not below itself -/

theorem Rep.avoid {P0 : Addr → Prop} {st : St} {t : Node} {a : Addr} (hta : Rep H P0 st t a) :
    ∀ {P : Addr → Prop} (l : Node) (p : Addr), depth l < depth t → Rep H P st l p →
      Rep H (fun x => P x ∧ x ≠ a) st l p := by
  intro P l
  induction l with
  | leaf k v ver =>
    intro p hd hrep
    have hne : p ≠ a := by
      intro e; subst e
      have := Rep.functional H hrep hta
      rw [← this] at hd; exact absurd hd (Nat.lt_irrefl _)
    obtain ⟨hp, rest⟩ := hrep
    exact ⟨⟨hp, hne⟩, rest⟩
  | inner k h s l r ver ihl ihr =>
    intro p hd hrep
    have hne : p ≠ a := by
      intro e; subst e
      have := Rep.functional H hrep hta
      rw [← this] at hd; exact absurd hd (Nat.lt_irrefl _)
    have hdl : depth l < depth t := by simp only [depth] at hd; omega
    have hdr : depth r < depth t := by simp only [depth] at hd; omega
    obtain ⟨hp, c, hc, h1, h2, h3, h4, h5, hl, hr, h8, h9⟩ := hrep
    exact ⟨⟨hp, hne⟩, c, hc, h1, h2, h3, h4, h5, hl.imp (fun q hq => ihl q hdl hq) id,
      hr.imp (fun q hq => ihr q hdr hq) id, h8, h9⟩

/-! ## In-place updates that keep every representation -/

/-- "All representations of the children of `t` survive". -/
def KidsStable (st st' : St) : Node → Prop
  | .leaf .. => True
  | .inner _ _ _ l r _ =>
    (∀ (P : Addr → Prop) (x : Addr), Rep H P st l x → Rep H P st' l x) ∧
    (∀ (P : Addr → Prop) (x : Addr), Rep H P st r x → Rep H P st' r x)

/-- If only the object at `a` (which represents `t`) and the DB change, the DB only grows, and the
new object still represents `t` once its children's representations are carried over, then every
representation is carried over. -/
theorem update_preserves {P0 : Addr → Prop} {st st' : St} {t : Node} {a : Addr} (hta : Rep H P0 st t a)
    (hcells : ∀ (x : Addr) (c : Cell), x ≠ a → st.heap[x]? = some c → st'.heap[x]? = some c)
    (hdb : ∀ k s, st.db k = some s → st'.db k = some s)
    (hnew : ∀ P' : Addr → Prop, KidsStable H st st' t → Rep H P' st t a → Rep H P' st' t a) :
    RepStable H st st' := by
  intro P t'
  induction t' generalizing P with
  | leaf k v ver =>
    intro x hrep
    by_cases hx : x = a
    · subst hx
      have := Rep.functional H hrep hta
      subst this
      exact hnew P trivial hrep
    · obtain ⟨hp, c, hc, h1, h2, h3, h4, h5, h6, h7, h8, h9⟩ := hrep
      exact ⟨hp, c, hcells x c hx hc, h1, h2, h3, h4, h5, h6, h7, h8, fun hpers => ⟨(h9 hpers).1, hdb _ _ (h9 hpers).2⟩⟩
  | inner k h s l r ver ihl ihr =>
    intro x hrep
    by_cases hx : x = a
    · subst hx
      have := Rep.functional H hrep hta
      subst this
      exact hnew P ⟨fun P x => ihl P x, fun P x => ihr P x⟩ hrep
    · obtain ⟨hp, c, hc, h1, h2, h3, h4, h5, hl, hr, h8, h9⟩ := hrep
      refine ⟨hp, c, hcells x c hx hc, h1, h2, h3, h4, h5, hl.imp (fun q hq => ihl P q hq) (InDB.mono H hdb),
        hr.imp (fun q hq => ihr P q hq) (InDB.mono H hdb), h8, ?_⟩
      intro hpers
      obtain ⟨e1, e2, e3, e4⟩ := h9 hpers
      exact ⟨e1, e2, e3, hdb _ _ e4⟩


theorem cellLe_refl (c : Cell) : cellLe c c = true := by
  cases hp : c.persisted <;> simp [cellLe, hp]

theorem cellLe_trans {a b c : Cell} (h1 : cellLe a b = true) (h2 : cellLe b c = true) : cellLe a c = true := by
  simp only [cellLe, Bool.and_eq_true, beq_iff_eq, Bool.or_eq_true, Option.isNone_iff_eq_none] at h1 h2 ⊢
  obtain ⟨⟨⟨⟨⟨k1, v1⟩, hh1⟩, s1⟩, ve1⟩, r1⟩ := h1
  obtain ⟨⟨⟨⟨⟨k2, v2⟩, hh2⟩, s2⟩, ve2⟩, r2⟩ := h2
  refine ⟨⟨⟨⟨⟨k2.trans k1, v2.trans v1⟩, hh2.trans hh1⟩, s2.trans s1⟩, ve2.trans ve1⟩, ?_⟩
  cases hpa : a.persisted
  · simp only [hpa, Bool.false_eq_true, if_false, Bool.and_eq_true, Bool.or_eq_true, beq_iff_eq,
      Option.isNone_iff_eq_none] at r1 ⊢
    cases hpb : b.persisted
    · simp only [hpb, Bool.false_eq_true, if_false, Bool.and_eq_true, Bool.or_eq_true, beq_iff_eq,
        Option.isNone_iff_eq_none] at r1 r2
      obtain ⟨⟨⟨a1, a2⟩, a3⟩, a4⟩ := r1
      obtain ⟨⟨⟨b1, b2⟩, b3⟩, b4⟩ := r2
      refine ⟨⟨⟨?_, ?_⟩, ?_⟩, ?_⟩
      · rcases a1 with a1 | a1
        · exact Or.inl a1
        · rcases b1 with b1 | b1
          · left; rw [← a1, b1]
          · right; rw [b1, a1]
      · rcases a2 with a2 | a2
        · exact Or.inl a2
        · rcases b2 with b2 | b2
          · left; rw [← a2, b2]
          · right; rw [b2, a2]
      · rcases a3 with a3 | a3
        · exact Or.inl a3
        · rcases b3 with b3 | b3
          · left; rw [← a3, b3]
          · right; rw [b3, a3]
      · cases hpc : c.persisted
        · simp only [hpc, Bool.false_eq_true, if_false, Bool.and_eq_true, beq_iff_eq] at b4 ⊢
          exact ⟨b4.1.trans a4.1, b4.2.trans a4.2⟩
        · simpa [hpc] using b4
    · simp only [hpb, if_true, beq_iff_eq] at r2
      subst r2
      exact r1
  · simp only [hpa, if_true, beq_iff_eq] at r1 ⊢
    subst r1
    simpa [hpa] using r2


theorem cellLe_persisted {c c' : Cell} (hp : c.persisted = true) (h : cellLe c c' = true) : c' = c := by
  simp only [cellLe, Bool.and_eq_true, hp, if_true, beq_iff_eq] at h
  exact h.2

/-! ## Hash injectivity on ordered trees (the inner key is not hashed) -/

theorem treeHash_inj (hinj : Function.Injective H) :
    ∀ {t t' : Node}, t.Ord → t'.Ord → treeHash H t = treeHash H t' → t = t'
  | .leaf k v ver, .leaf k' v' ver', _, _, e => by
    have := hinj e
    cases this; rfl
  | .leaf k v ver, .inner k' h' s' l' r' ver', _, _, e => by
    have := hinj e
    cases this
  | .inner k h s l r ver, .leaf k' v' ver', _, _, e => by
    have := hinj e
    cases this
  | .inner k h s l r ver, .inner k' h' s' l' r' ver', ho, ho', e => by
    have := hinj e
    simp only [HashIn.inner.injEq] at this
    obtain ⟨rfl, rfl, rfl, el, er⟩ := this
    obtain ⟨hol, hor, _, hk⟩ := ho
    obtain ⟨hol', hor', _, hk'⟩ := ho'
    have e1 := treeHash_inj hinj hol hol' el
    have e2 := treeHash_inj hinj hor hor' er
    subst e1 e2
    rw [hk, hk']

/-- Every DB record is the root record of an ordered tree that is entirely in the DB. -/
def DBWF (db : Hash → Option Stored) : Prop :=
  ∀ hh s, db hh = some s → ∃ t : Node, treeHash H t = hh ∧ storedOf H t = s ∧ InDB H db t ∧ t.Ord

/-- The discipline between two states: every object evolves by `cellLe` (the relation the run-time
monitor checks on the real heap), nothing is freed, the DB only grows. -/
structure Grows (st st' : St) : Prop where
  cells : ∀ (x : Addr) (c : Cell), st.heap[x]? = some c → ∃ c', st'.heap[x]? = some c' ∧ cellLe c c' = true
  len : st.heap.length ≤ st'.heap.length
  db : ∀ k s, st.db k = some s → st'.db k = some s

theorem Grows.refl (st : St) : Grows st st :=
  ⟨fun _ c h => ⟨c, h, cellLe_refl c⟩, Nat.le_refl _, fun _ _ h => h⟩

theorem Grows.trans {st st1 st2 : St} (h1 : Grows st st1) (h2 : Grows st1 st2) : Grows st st2 :=
  ⟨fun x c h => by
      obtain ⟨c1, hc1, l1⟩ := h1.cells x c h
      obtain ⟨c2, hc2, l2⟩ := h2.cells x c1 hc1
      exact ⟨c2, hc2, cellLe_trans l1 l2⟩,
    Nat.le_trans h1.len h2.len, fun k s h => h2.db k s (h1.db k s h)⟩

theorem Grows.of_ext {K : Addr → Prop} {st st' : St} (h : ExtOn K st st')
    (hcells : ∀ (x : Addr) (c : Cell), st.heap[x]? = some c → st'.heap[x]? = some c) : Grows st st' :=
  ⟨fun x c hc => ⟨c, hcells x c hc, cellLe_refl c⟩, h.len, fun k s hs => by rw [h.db]; exact hs⟩

theorem Grows.persisted {st st' : St} (h : Grows st st') {x : Addr} {c : Cell} (hc : st.heap[x]? = some c)
    (hp : c.persisted = true) : st'.heap[x]? = some c := by
  obtain ⟨c', hc', hle⟩ := h.cells x c hc
  rw [cellLe_persisted hp hle] at hc'; exact hc'

end Iavl.Heap
