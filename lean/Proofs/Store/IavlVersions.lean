import Proofs.Store.IavlInv
/-!
# IAVL: the versioned tree refines the per-version map model
-/
namespace Iavl
open KVs Node

/-! ### node-level corollaries in terms of `Inv` -/

theorem Node.set_inv (version : Nat) (t : Node) (key value : Bytes) (h : t.Inv) :
    (recursiveSet version t key value).1.Inv :=
  (inv_iff _).mpr ⟨(recursiveSet_ord_toList version t key value h.ord).1,
    (recursiveSet_shape version t key value h.shape).1⟩

theorem Node.remove_inv (version : Nat) (t : Node) (key : Bytes) (h : t.Inv) (t' : Node)
    (ht' : (recursiveRemove version t key).node = some t') : t'.Inv := by
  obtain ⟨_, _, hno, hyes⟩ := recursiveRemove_spec version t key h.ord
  refine (inv_iff _).mpr ⟨?_, (recursiveRemove_shape version t key h.shape t' ht').1⟩
  cases hrm : (recursiveRemove version t key).removed with
  | false =>
    have := (hno hrm).1
    rw [ht'] at this
    injection this with e
    exact e ▸ h.ord
  | true => exact (hyes hrm t' ht').1

theorem contains_false_absent {k : Bytes} {m : KVs} (h : contains k m = false) : ∀ p ∈ m, p.1 ≠ k := by
  intro p hp he
  have : contains k m = true := contains_iff.mpr ⟨p.2, by rw [← he]; exact hp⟩
  rw [h] at this; cases this

/-! ### reads -/

/-- Every read on a root satisfying the invariant returns what the map of its contents returns. -/
theorem readRoot_spec (root : Option Node) (r : Read) (h : RootInv root) :
    readRoot root r = KVs.read (contents root) r := by
  cases root with
  | none =>
    cases r <;> simp [readRoot, KVs.read, contents, rank, lookup, contains, atIndex, range]
  | some n =>
    have ho : n.Ord := Node.Inv.ord h
    have hs : n.Shape := Node.Inv.shape h
    cases r with
    | get k => simp [readRoot, KVs.read, contents, get_spec n k ho hs]
    | has k => simp [readRoot, KVs.read, contents, has_spec n k ho]
    | byIndex i => simp [readRoot, KVs.read, contents, getByIndex_spec n i hs]
    | range s e asc incl => simp [readRoot, KVs.read, contents, traverse_spec n s e asc incl ho]

/-! ### well-formed versioned trees -/

/-- Invariant of the versioned tree: every root it holds satisfies the node invariant and no saved
version number exceeds `tree.version`. -/
structure Tree.WF (t : Tree) : Prop where
  root : RootInv t.root
  last : RootInv t.lastSaved
  saved : ∀ p ∈ t.versions, RootInv p.2
  le : ∀ p ∈ t.versions, p.1 ≤ t.version

theorem Tree.WF.empty : Tree.WF Tree.empty :=
  ⟨trivial, trivial, by simp [Tree.empty], by simp [Tree.empty]⟩

/-- On a well-formed tree the next version number is unused, so `SaveVersion` always takes its
normal branch. -/
theorem Tree.WF.fresh {t : Tree} (h : t.WF) : t.versionExists (t.version + 1) = false := by
  unfold Tree.versionExists
  apply List.any_eq_false.mpr
  intro p hp
  have := h.le p hp
  simp; omega

theorem Tree.set_root_inv (t : Tree) (key value : Bytes) (h : RootInv t.root) :
    RootInv (t.set key value).1.root := by
  unfold Tree.set
  cases hr : t.root with
  | none =>
    simp only [RootInv]
    exact (inv_iff _).mpr ⟨trivial, trivial⟩
  | some n =>
    rw [hr] at h
    exact Node.set_inv _ n key value h

theorem Tree.remove_root_inv (t : Tree) (key : Bytes) (h : RootInv t.root) :
    RootInv (t.remove key).1.root := by
  unfold Tree.remove
  cases hr : t.root with
  | none => simp only [hr, RootInv]
  | some n =>
    rw [hr] at h
    simp only
    split
    · simp only [hr]; exact h
    · simp only
      cases hn : (recursiveRemove (t.version + 1) n key).node with
      | none => trivial
      | some t' => exact Node.remove_inv _ n key h t' hn

theorem Tree.set_frame (t : Tree) (k v : Bytes) :
    (t.set k v).1.version = t.version ∧ (t.set k v).1.lastSaved = t.lastSaved ∧
    (t.set k v).1.versions = t.versions := by
  unfold Tree.set; split <;> exact ⟨rfl, rfl, rfl⟩

theorem Tree.remove_frame (t : Tree) (k : Bytes) :
    (t.remove k).1.version = t.version ∧ (t.remove k).1.lastSaved = t.lastSaved ∧
    (t.remove k).1.versions = t.versions := by
  unfold Tree.remove; split
  · exact ⟨rfl, rfl, rfl⟩
  · dsimp only
    split <;> exact ⟨rfl, rfl, rfl⟩

theorem Tree.step_wf (t : Tree) (op : Tree.Op) (h : t.WF) : (t.step op).WF := by
  cases op with
  | set k v =>
    show (t.set k v).1.WF
    obtain ⟨e1, e2, e3⟩ := Tree.set_frame t k v
    exact ⟨Tree.set_root_inv t k v h.root, e2 ▸ h.last, e3 ▸ h.saved, by rw [e1, e3]; exact h.le⟩
  | remove k =>
    show (t.remove k).1.WF
    obtain ⟨e1, e2, e3⟩ := Tree.remove_frame t k
    exact ⟨Tree.remove_root_inv t k h.root, e2 ▸ h.last, e3 ▸ h.saved, by rw [e1, e3]; exact h.le⟩
  | save =>
    simp only [Tree.step, Tree.saveVersion, h.fresh, Bool.false_eq_true, if_false]
    refine ⟨h.root, h.root, ?_, ?_⟩
    · intro p hp
      rcases List.mem_cons.mp hp with rfl | hp
      · exact h.root
      · exact h.saved p hp
    · intro p hp
      rcases List.mem_cons.mp hp with rfl | hp
      · exact Nat.le_refl _
      · exact Nat.le_succ_of_le (h.le p hp)
  | delete v =>
    simp only [Tree.step, Tree.deleteVersion]
    split
    · exact h
    · split
      · exact h
      · split
        · exact h
        · exact ⟨h.root, h.last, fun p hp => h.saved p (List.mem_filter.mp hp).1,
            fun p hp => h.le p (List.mem_filter.mp hp).1⟩
  | rollback =>
    simp only [Tree.step, Tree.rollback]
    split
    · exact ⟨h.last, h.last, h.saved, h.le⟩
    · exact ⟨trivial, h.last, h.saved, h.le⟩

theorem Tree.run_wf_from (ops : List Tree.Op) (t : Tree) (h : t.WF) : (ops.foldl Tree.step t).WF := by
  induction ops generalizing t with
  | nil => exact h
  | cons op rest ih => exact ih _ (Tree.step_wf t op h)

theorem Tree.run_wf (ops : List Tree.Op) : (Tree.run ops).WF := Tree.run_wf_from ops _ Tree.WF.empty

/-! ### refinement of the map model -/

theorem Tree.abs_versionExists (t : Tree) (v : Nat) : t.abs.versionExists v = t.versionExists v := by
  simp [Tree.abs, Spec.versionExists, Tree.versionExists, List.any_map, Function.comp_def]

theorem Tree.abs_getVersion (t : Tree) (v : Nat) :
    t.abs.getVersion v = (t.getImmutable v).map contents := by
  simp only [Tree.abs, Spec.getVersion, Tree.getImmutable]
  induction t.versions with
  | nil => simp
  | cons p rest ih =>
    simp only [List.map_cons, List.find?_cons]
    by_cases hp : (p.1 == v) = true
    · simp [hp]
    · simp only [Bool.not_eq_true] at hp
      simp only [hp]
      exact ih

/-- `Set` on the working tree is `insert` on the working map, and reports `updated` iff the key was
there. -/
theorem Tree.set_spec (t : Tree) (key value : Bytes) (h : RootInv t.root) :
    contents (t.set key value).1.root = KVs.insert key value (contents t.root) ∧
    (t.set key value).2 = contains key (contents t.root) := by
  obtain ⟨root, version, lastSaved, versions⟩ := t
  cases root with
  | none => simp [Tree.set, contents, KVs.insert, contains, toList]
  | some n =>
    simp only [Tree.set, contents]
    exact ⟨(recursiveSet_ord_toList _ n key value (Node.Inv.ord h)).2,
      recursiveSet_updated _ n key value (Node.Inv.ord h)⟩

/-- `Remove` on the working tree is `erase` on the working map and returns the old value and
whether the key was there. -/
theorem Tree.remove_spec (t : Tree) (key : Bytes) (h : RootInv t.root) :
    contents (t.remove key).1.root = KVs.erase key (contents t.root) ∧
    (t.remove key).2.1 = lookup key (contents t.root) ∧
    (t.remove key).2.2 = contains key (contents t.root) := by
  obtain ⟨root, version, lastSaved, versions⟩ := t
  cases root with
  | none => simp [Tree.remove, contents, KVs.erase, contains, lookup]
  | some n =>
    obtain ⟨hv, hrem, hno, hyes⟩ := recursiveRemove_spec (version + 1) n key (Node.Inv.ord h)
    simp only [Tree.remove, contents]
    cases hrm : (recursiveRemove (version + 1) n key).removed with
    | false =>
      have hc : contains key (toList n) = false := by rw [← hrem, hrm]
      simp only [Bool.not_false, if_true]
      refine ⟨(erase_of_absent (contains_false_absent hc)).symm, ?_, hc.symm⟩
      rw [lookup_eq_none_of_absent (contains_false_absent hc)]
    | true =>
      simp only [Bool.not_true, Bool.false_eq_true, if_false]
      refine ⟨?_, hv, by rw [← hrem, hrm]⟩
      cases hn : (recursiveRemove (version + 1) n key).node with
      | none =>
        obtain ⟨v0, ver0, hleaf⟩ := recursiveRemove_node_none hn
        subst hleaf
        simp [toList, KVs.erase]
      | some t' =>
        exact (hyes hrm t' hn).2.1

/-- One step of the tree is one step of the map model. -/
theorem Tree.abs_step (t : Tree) (op : Tree.Op) (h : t.WF) : (t.step op).abs = t.abs.step op := by
  cases op with
  | set k v =>
    have hs := (Tree.set_spec t k v h.root).1
    obtain ⟨e1, e2, e3⟩ := Tree.set_frame t k v
    simp only [Tree.step, Spec.step, Tree.abs, hs, e1, e2, e3]
  | remove k =>
    have hs := (Tree.remove_spec t k h.root).1
    obtain ⟨e1, e2, e3⟩ := Tree.remove_frame t k
    simp only [Tree.step, Spec.step, Tree.abs, hs, e1, e2, e3]
  | save =>
    simp only [Tree.step, Spec.step, Tree.saveVersion]
    rw [show t.abs.version = t.version from rfl, Tree.abs_versionExists]
    split
    · rfl
    · simp [Tree.abs]
  | delete v =>
    simp only [Tree.step, Spec.step, Tree.deleteVersion]
    rw [show t.abs.version = t.version from rfl, Tree.abs_versionExists]
    by_cases h0 : v = 0
    · rw [if_pos h0, if_pos (Or.inl h0)]
    · rw [if_neg h0]
      by_cases h1 : v = t.version
      · rw [if_pos h1, if_pos (Or.inr (Or.inl h1))]
      · rw [if_neg h1]
        by_cases h2 : t.versionExists v = true
        · simp [h0, h1, h2, Tree.abs, List.filter_map, Function.comp_def]
        · simp only [Bool.not_eq_true] at h2
          simp [h2]
  | rollback =>
    simp only [Tree.step, Spec.step, Tree.rollback]
    rw [show t.abs.version = t.version from rfl]
    split <;> simp [Tree.abs, contents]

theorem Tree.abs_run_from (ops : List Tree.Op) (t : Tree) (h : t.WF) :
    (ops.foldl Tree.step t).abs = ops.foldl Spec.step t.abs := by
  induction ops generalizing t with
  | nil => rfl
  | cons op rest ih =>
    simp only [List.foldl_cons]
    rw [ih _ (Tree.step_wf t op h), Tree.abs_step t op h]

/-- For every history the tree abstracts to the map model's state. -/
theorem Tree.abs_run (ops : List Tree.Op) : (Tree.run ops).abs = Spec.run ops :=
  Tree.abs_run_from ops _ Tree.WF.empty

/-- Reads on a well-formed tree (working tree or any retained version) are the map model's reads. -/
theorem Tree.read_spec (t : Tree) (h : t.WF) (tgt : Target) (r : Read) :
    t.read tgt r = t.abs.read tgt r := by
  cases tgt with
  | working =>
    simp only [Tree.read, Spec.read]
    rw [readRoot_spec _ r h.root]
    rfl
  | version v =>
    simp only [Tree.read, Spec.read, Tree.abs_getVersion]
    cases hg : t.getImmutable v with
    | none => rfl
    | some root =>
      simp only [Option.map_some]
      have hmem : (v, root) ∈ t.versions ∨ True := Or.inr trivial
      have hinv : RootInv root := by
        unfold Tree.getImmutable at hg
        simp only [Option.map_eq_some_iff] at hg
        obtain ⟨p, hp, rfl⟩ := hg
        exact h.saved p (List.mem_of_find?_eq_some hp)
      rw [readRoot_spec _ r hinv]

/-! ### saved versions are frozen -/

/-- A step other than deleting version `v` leaves an existing version `v` exactly as it is. -/
theorem Tree.step_getImmutable (t : Tree) (op : Tree.Op) (v : Nat) (root : Option Node)
    (hv : t.getImmutable v = some root) (hop : op ≠ .delete v) :
    (t.step op).getImmutable v = some root := by
  cases op with
  | set k val =>
    show (t.set k val).1.getImmutable v = some root
    unfold Tree.getImmutable at hv ⊢
    rw [(Tree.set_frame t k val).2.2]; exact hv
  | remove k =>
    show (t.remove k).1.getImmutable v = some root
    unfold Tree.getImmutable at hv ⊢
    rw [(Tree.remove_frame t k).2.2]; exact hv
  | save =>
    simp only [Tree.step, Tree.saveVersion]
    split
    · exact hv
    · rename_i hne
      simp only [Tree.getImmutable, List.find?_cons]
      by_cases hc : (t.version + 1 == v) = true
      · exfalso
        have : v = t.version + 1 := (beq_iff_eq.mp hc).symm
        subst this
        apply hne
        unfold Tree.getImmutable at hv
        simp only [Option.map_eq_some_iff] at hv
        obtain ⟨p, hp, _⟩ := hv
        unfold Tree.versionExists
        exact List.any_eq_true.mpr ⟨p, List.mem_of_find?_eq_some hp, by simpa using List.find?_some hp⟩
      · simp only [Bool.not_eq_true] at hc
        simp only [hc]
        exact hv
  | delete v' =>
    have hne : v' ≠ v := fun e => hop (by rw [e])
    simp only [Tree.step, Tree.deleteVersion]
    split
    · exact hv
    · split
      · exact hv
      · split
        · exact hv
        · unfold Tree.getImmutable at hv ⊢
          simp only
          rw [List.find?_filter]
          have : (fun (a : Nat × Option Node) => decide ((a.1 != v') = true ∧ (a.1 == v) = true))
              = (fun a => a.1 == v) := by
            funext a
            by_cases ha : a.1 = v
            · simp [ha, Ne.symm hne]
            · simp [ha]
          rw [this]; exact hv
  | rollback => simp only [Tree.step, Tree.rollback]; split <;> exact hv

theorem Tree.foldl_getImmutable (ops : List Tree.Op) (t : Tree) (v : Nat) (root : Option Node)
    (hv : t.getImmutable v = some root) (hops : ∀ op ∈ ops, op ≠ .delete v) :
    (ops.foldl Tree.step t).getImmutable v = some root := by
  induction ops generalizing t with
  | nil => exact hv
  | cons op rest ih =>
    simp only [List.foldl_cons]
    exact ih _ (Tree.step_getImmutable t op v root hv (hops op List.mem_cons_self))
      (fun o ho => hops o (List.mem_cons_of_mem _ ho))

theorem Tree.run_append (ops1 ops2 : List Tree.Op) :
    Tree.run (ops1 ++ ops2) = ops2.foldl Tree.step (Tree.run ops1) := by
  simp [Tree.run, List.foldl_append]

/-- `SaveVersion` stores the working root as the new version (it is what `GetImmutable` returns). -/
theorem Tree.save_getImmutable (t : Tree) (h : t.WF) :
    t.saveVersion.getImmutable (t.version + 1) = some t.root ∧ t.saveVersion.version = t.version + 1 := by
  simp [Tree.saveVersion, h.fresh, Tree.getImmutable]

end Iavl
