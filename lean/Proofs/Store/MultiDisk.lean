import Proofs.Store.NodeDBCrash
import Proofs.Store.RootMulti
/-! The multistore over its disk: `commitMS`, `crashDisk`, `openMS`/`loadMS`, `rollbackMS` (C04, C07, C08). -/
set_option linter.unusedSimpArgs false
set_option linter.unusedVariables false
namespace NodeDB
open Amino RootMulti

/-! ### helpers -/

theorem mapM_some {α β : Type} (f : α → Option β) (g : α → β) : ∀ (l : List α), (∀ a ∈ l, f a = some (g a)) →
    l.mapM f = some (l.map g)
  | [], _ => rfl
  | a :: l, h => by
    rw [List.mapM_cons, h a List.mem_cons_self, mapM_some f g l (fun b hb => h b (List.mem_cons_of_mem _ hb))]
    rfl

theorem mapM_none {α β : Type} (f : α → Option β) : ∀ (l : List α) (a : α), a ∈ l → f a = none → l.mapM f = none
  | b :: l, a, hm, hf => by
    rw [List.mapM_cons]
    rcases List.mem_cons.mp hm with rfl | hm
    · rw [hf]; rfl
    · cases hb : f b with
      | none => rfl
      | some x => rw [mapM_none f l a hm hf]; rfl

theorem aget_map_names {ν : Type} (g : Name → ν) (names : List Name) (n : Name) :
    aget n (names.map fun m => (m, g m)) = if n ∈ names then some (g n) else none := by
  induction names with
  | nil => simp
  | cons a l ih =>
    simp only [List.map_cons, aget_cons, List.mem_cons]
    by_cases h : a = n
    · subst h; simp
    · have : ¬ n = a := fun e => h e.symm
      simp [h, this, ih]

theorem aget_map_upd {ν : Type} (m : List (Name × ν)) (P : Name → Bool) (f : Name → ν) (n : Name) :
    aget n (m.map fun e => if P e.1 then (e.1, f e.1) else e) = if P n then (aget n m).map (fun _ => f n) else aget n m := by
  induction m with
  | nil => simp
  | cons e m ih =>
    obtain ⟨k, v⟩ := e
    simp only [List.map_cons]
    by_cases hP : P k = true
    · simp only [hP, if_true, aget_cons]
      by_cases hk : k = n
      · subst hk; simp [hP]
      · simp [hk, ih]
    · have hP' : P k = false := by simpa using hP
      simp only [hP', Bool.false_eq_true, if_false]
      rw [aget_cons, aget_cons]
      by_cases hk : k = n
      · subst hk; simp [hP']
      · simp [hk, ih]

theorem aget_isSome_iff_keys {ν : Type} (m : List (Name × ν)) (n : Name) : (aget n m).isSome ↔ n ∈ m.map (·.1) := by
  induction m with
  | nil => simp
  | cons e m ih =>
    obtain ⟨k, v⟩ := e
    simp only [aget_cons, List.map_cons, List.mem_cons]
    by_cases hk : k = n
    · subst hk; simp
    · have : ¬ n = k := fun e => hk e.symm
      simp [hk, this, ih]

/-! ### `commitStores` in oracle order -/

section commit
variable (H : Bytes → Bytes)

/-- One step of the fold in `commitStoresD`. -/
def commitStep (acc : List (Name × MTree) × List SInfo × List DWrite) (n : Name) :
    Option (List (Name × MTree) × List SInfo × List DWrite) :=
  match aget n acc.1 with
  | none => some acc
  | some t =>
    match saveVersion H t with
    | none => none
    | some (t', hash, ver) =>
      some (acc.1.map (fun e => if e.1 = n then (n, t') else e), acc.2.1 ++ [⟨n, ⟨ver, hash⟩⟩], acc.2.2 ++ [.store n t'.db])

theorem commitStoresD_eq (order : List Name) (stores : List (Name × MTree)) :
    commitStoresD H order stores = order.foldlM (commitStep H) (stores, [], []) := rfl

theorem commitStores_fold (stores : List (Name × MTree)) (sv : Name → MTree × Bytes × Int) :
    ∀ (order : List Name) (st : List (Name × MTree)) (is : List SInfo) (ws : List DWrite), order.Nodup →
      (∀ n ∈ order, ∃ t, aget n st = some t ∧ aget n stores = some t ∧ saveVersion H t = some (sv n)) →
      order.foldlM (commitStep H) (st, is, ws) =
        some (st.map (fun e => if order.contains e.1 then (e.1, (sv e.1).1) else e),
              is ++ order.map (fun n => ⟨n, ⟨(sv n).2.2, (sv n).2.1⟩⟩),
              ws ++ order.map (fun n => DWrite.store n (sv n).1.db)) := by
  intro order
  induction order with
  | nil => intro st is ws _ _; simp
  | cons n rest ih =>
    intro st is ws hnd hsv
    obtain ⟨t, h1, h2, h3⟩ := hsv n List.mem_cons_self
    rw [List.foldlM_cons]
    have hstep : commitStep H (st, is, ws) n =
        some (st.map (fun e => if e.1 = n then (n, (sv n).1) else e), is ++ [⟨n, ⟨(sv n).2.2, (sv n).2.1⟩⟩], ws ++ [.store n (sv n).1.db]) := by
      simp only [commitStep, h1, h3]
    rw [hstep]
    simp only [Option.bind_eq_bind, Option.bind_some]
    have hnd' := (List.nodup_cons.mp hnd)
    rw [ih _ _ _ hnd'.2]
    · simp only [List.map_map, List.map_cons, List.append_assoc, List.singleton_append]
      congr 2
      apply List.map_congr_left
      intro e he
      simp only [Function.comp]
      by_cases hen : e.1 = n
      · have : rest.contains n = false := by simpa using hnd'.1
        simp [hen, this]
      · have : (n == e.1) = false := by simpa using fun h => hen h.symm
        simp [hen, List.contains_cons, this]
    · intro m hm
      obtain ⟨t', g1, g2, g3⟩ := hsv m (List.mem_cons_of_mem _ hm)
      have hne : m ≠ n := fun e => hnd'.1 (e ▸ hm)
      refine ⟨t', ?_, g2, g3⟩
      have := aget_map_upd st (fun k => decide (k = n)) (fun _ => (sv n).1) m
      simp only [decide_eq_true_eq] at this
      have e2 : (st.map fun e => if e.1 = n then (n, (sv n).1) else e) = (st.map fun e => if e.1 = n then (e.1, (sv n).1) else e) := by
        apply List.map_congr_left; intro e _; by_cases h : e.1 = n <;> simp [h]
      rw [e2, this, if_neg hne, g1]

theorem commitStoresD_spec (order : List Name) (hnd : order.Nodup) (stores : List (Name × MTree))
    (sv : Name → MTree × Bytes × Int)
    (hsv : ∀ n ∈ order, ∃ t, aget n stores = some t ∧ saveVersion H t = some (sv n)) :
    commitStoresD H order stores =
      some (stores.map (fun e => if order.contains e.1 then (e.1, (sv e.1).1) else e),
            order.map (fun n => ⟨n, ⟨(sv n).2.2, (sv n).2.1⟩⟩),
            order.map (fun n => DWrite.store n (sv n).1.db)) := by
  rw [commitStoresD_eq, commitStores_fold H stores sv order stores [] [] hnd
    (fun n hn => by obtain ⟨t, h1, h2⟩ := hsv n hn; exact ⟨t, h1, h1, h2⟩)]
  simp

end commit

/-! ### the disk after a prefix of the store batches -/

theorem crash_stores (dbOf : Name → NDB) : ∀ (l : List Name) (d : Disk),
    (l.map fun n => DWrite.store n (dbOf n)).foldl Disk.apply d =
      { d with stores := d.stores.map fun e => if l.contains e.1 then (e.1, dbOf e.1) else e } := by
  intro l
  induction l with
  | nil => intro d; simp
  | cons n l ih =>
    intro d
    simp only [List.map_cons, List.foldl_cons]
    rw [ih]
    simp only [Disk.apply, List.map_map]
    congr 1
    apply List.map_congr_left
    intro e _
    simp only [Function.comp, List.contains_cons]
    by_cases h2 : e.1 = n
    · by_cases h1 : l.contains n = true
      · simp [h2, h1]
      · have h1' : l.contains n = false := by simpa using h1
        simp [h2, h1']
    · have : (e.1 == n) = false := by simpa using h2
      simp [h2, this]

theorem Disk.storeDB_upd (d : Disk) (P : Name → Bool) (dbOf : Name → NDB) (n : Name) (hn : n ∈ d.stores.map (·.1)) :
    ({ d with stores := d.stores.map fun e => if P e.1 then (e.1, dbOf e.1) else e } : Disk).storeDB n =
      if P n then dbOf n else d.storeDB n := by
  unfold Disk.storeDB
  simp only
  rw [aget_map_upd]
  have hs := (aget_isSome_iff_keys d.stores n).mpr hn
  obtain ⟨x, hx⟩ := Option.isSome_iff_exists.mp hs
  by_cases hP : P n = true <;> simp [hP, hx]


theorem aget_map_val {ν ν' : Type} (f : Name → ν → ν') (m : List (Name × ν)) (n : Name) :
    aget n (m.map fun e => (e.1, f e.1 e.2)) = (aget n m).map (f n) := by
  induction m with
  | nil => simp
  | cons e m ih =>
    obtain ⟨k, v⟩ := e
    simp only [List.map_cons, aget_cons]
    by_cases hk : k = n
    · subst hk; simp
    · simp [hk, ih]

theorem verOf_map (v : Int) (c : Name → Int) (h : Name → Bytes) : ∀ (order : List Name), order.Nodup → ∀ n ∈ order,
    CInfo.verOf ⟨v, order.map fun m => ⟨m, ⟨c m, h m⟩⟩⟩ n = c n := by
  intro order hnd n hn
  unfold CInfo.verOf
  simp only
  have : (order.map fun m => (⟨m, ⟨c m, h m⟩⟩ : SInfo)).filter (fun si => decide (si.name = n)) = [⟨n, ⟨c n, h n⟩⟩] := by
    induction order with
    | nil => cases hn
    | cons a l ih =>
      have hnd' := List.nodup_cons.mp hnd
      simp only [List.map_cons, List.filter_cons]
      by_cases ha : a = n
      · subst ha
        simp only [decide_true, if_true]
        congr 1
        apply List.filter_eq_nil_iff.mpr
        intro si hsi
        obtain ⟨m, hm, rfl⟩ := List.mem_map.mp hsi
        simp only [decide_eq_true_eq]
        intro e; exact hnd'.1 (e ▸ hm)
      · simp only [ha, decide_false, Bool.false_eq_true, if_false]
        rcases List.mem_cons.mp hn with e | hn'
        · exact absurd e.symm ha
        · exact ih hnd'.2 hn'
  rw [this]; rfl

/-! ### multistore invariants -/
section ms
variable (H : Bytes → Bytes)

/-- A block that gives every mounted substore its next working tree. -/
def fullBlock (names : List Name) (nx : Name → Option Tree) : DBlock := names.map fun n => (n, nx n)

/-- The commit-info records and the latest-version record after `k` commits. -/
structure GoodRecords (names : List Name) (k : Nat) (cinfos : List (Int × CInfo)) (latest : Option Int) : Prop where
  cinfo : ∀ v : Int, 1 ≤ v → v ≤ k → ∃ ci, aget v cinfos = some ci ∧ ci.version = v ∧ ∀ n ∈ names, ci.verOf n = v
  cinfo_none : ∀ v : Int, ¬ (1 ≤ v ∧ v ≤ k) → aget v cinfos = none
  latest : latest = if k = 0 then none else some (k : Int)

/-- A disk on which the multistore has completed `k` commits while substore `n` holds the versions
`hd n` (at least `k` of them — more if a later commit was interrupted). -/
structure GoodDiskMS (S : Tree → Prop) (names : List Name) (hd : Name → List (Option Tree)) (k : Nat) (d : Disk) : Prop where
  nodup : names.Nodup
  keys : d.stores.map (·.1) = names
  store : ∀ n ∈ names, GoodDisk H S (hd n) (d.storeDB n) ∧ HistOK S (hd n) ∧ k ≤ (hd n).length
  recs : GoodRecords names k d.cinfos d.latest

/-- The running multistore after `k` commits. -/
structure GoodMS (S : Tree → Prop) (names : List Name) (hs : Name → List (Option Tree)) (k : Nat) (s : MStore) : Prop where
  nodup : names.Nodup
  keys : s.stores.map (·.1) = names
  tree : ∀ n ∈ names, ∃ t, aget n s.stores = some t ∧ GoodTree H S (hs n) t ∧ HistOK S (hs n) ∧ (hs n).length = k
  recs : GoodRecords names k s.cinfos s.latest
  lcid : s.lastCommitID = if k = 0 then {} else ((aget (k : Int) s.cinfos).map (·.commitID H)).getD {}

variable {H}

theorem MStore.disk_storeDB (s : MStore) (n : Name) : s.disk.storeDB n = ((aget n s.stores).map (·.db)).getD {} := by
  unfold MStore.disk Disk.storeDB
  simp only
  exact congrArg (·.getD {}) (aget_map_val (fun _ (t : MTree) => t.db) s.stores n)

theorem GoodMS.disk {S : Tree → Prop} {names : List Name} {hs : Name → List (Option Tree)} {k : Nat} {s : MStore}
    (g : GoodMS H S names hs k s) : GoodDiskMS H S names hs k s.disk := by
  refine ⟨g.nodup, ?_, ?_, g.recs⟩
  · simp [MStore.disk, List.map_map, Function.comp_def, g.keys.symm]
  · intro n hn
    obtain ⟨t, ht, gt, hok, hl⟩ := g.tree n hn
    rw [MStore.disk_storeDB, ht]
    exact ⟨gt.disk, hok, by omega⟩

/-- `LoadVersion(v)` of the multistore for a committed version: the commit id of `v`, and every
substore on version `v` holding the tree it saved at `v`. -/
theorem loadMS_good (hH : HashOK H) {S : Tree → Prop} {names : List Name} {hd : Name → List (Option Tree)} {k : Nat} {d : Disk}
    (g : GoodDiskMS H S names hd k d) (v : Int) (h1 : 1 ≤ v) (h2 : v ≤ k) :
    ∃ ci, aget v d.cinfos = some ci ∧ ci.version = v ∧
      loadMS H d names v = some ⟨ci.commitID H,
        names.map (fun n => (n, recovered (d.storeDB n) v ((histAt (hd n) v).getD none))), d.cinfos, d.latest⟩ := by
  obtain ⟨ci, hci, hv, hver⟩ := g.recs.cinfo v h1 h2
  refine ⟨ci, hci, hv, ?_⟩
  unfold loadMS
  have h0 : ¬ v = 0 := by omega
  simp only [h0, if_false, hci]
  rw [mapM_some _ (fun n => (n, recovered (d.storeDB n) v ((histAt (hd n) v).getD none)))]
  intro n hn
  obtain ⟨gd, hok, hl⟩ := g.store n hn
  rw [hver n hn]
  obtain ⟨r, hr, hload⟩ := loadStore_recovered hH gd hok v h1 (by omega)
  rw [hload, hr]; rfl

/-- Versions that were never committed (or whose commit info is gone) do not load. -/
theorem loadMS_none {S : Tree → Prop} {names : List Name} {hd : Name → List (Option Tree)} {k : Nat} {d : Disk}
    (g : GoodDiskMS H S names hd k d) (v : Int) (h0 : v ≠ 0) (hv : ¬ (1 ≤ v ∧ v ≤ k)) : loadMS H d names v = none := by
  unfold loadMS
  simp only [h0, if_false, g.recs.cinfo_none v hv]

theorem openMS_good (hH : HashOK H) {S : Tree → Prop} {names : List Name} {hd : Name → List (Option Tree)} {k : Nat} {d : Disk}
    (g : GoodDiskMS H S names hd k d) (hk : 1 ≤ k) :
    ∃ ci, aget (k : Int) d.cinfos = some ci ∧
      openMS H d names = some ⟨ci.commitID H,
        names.map (fun n => (n, recovered (d.storeDB n) k ((histAt (hd n) k).getD none))), d.cinfos, d.latest⟩ := by
  obtain ⟨ci, hci, _, hl⟩ := loadMS_good hH g k (by omega) (by omega)
  refine ⟨ci, hci, ?_⟩
  have hlat : d.latestVersion = k := by
    unfold Disk.latestVersion
    rw [g.recs.latest]
    have : ¬ k = 0 := by omega
    simp [this]
  unfold openMS
  rw [hlat]
  exact hl

theorem goodTree_new {S : Tree → Prop} {db : NDB} (g : GoodDisk H S [] db) : GoodTree H S [] (MTree.new db) := by
  refine ⟨g, rfl, rfl, Int.le_refl _, ?_, ?_⟩
  · simp only [MTree.latest, MTree.new, if_true]
    exact g.latestOnDisk
  · intro v hv; simp [MTree.new] at hv

/-- One substore under `rootmulti.LoadVersion(0)` (fixed code): whatever versions an interrupted first
commit left on its disk, it comes back empty at version 0 as a good tree for the empty history; a
substore with nothing on disk is not touched at all. -/
theorem loadStoreZero_good (hH : HashOK H) {S : Tree → Prop} (hi : Inj H S) {hist : List (Option Tree)} {db : NDB}
    (g : GoodDisk H S hist db) (hok : HistOK S hist) :
    ∃ t, loadStoreZero db = some t ∧ GoodTree H S [] t ∧ t.version = 0 ∧ t.root = none ∧ (hist = [] → t = MTree.new db) := by
  by_cases hne : hist = []
  · subst hne
    refine ⟨MTree.new db, ?_, goodTree_new g, rfl, rfl, fun _ => rfl⟩
    unfold loadStoreZero loadStore
    rw [loadVersion_empty (t0 := MTree.new db) g 0]
    rfl
  · have hl1 : 1 ≤ (hist.length : Int) := by
      cases hist with
      | nil => exact absurd rfl hne
      | cons a l => simp; omega
    obtain ⟨r, hr, hl⟩ := loadVersion_at hH (t0 := MTree.new db) g hok 0 hist.length hl1 (by omega) (Or.inr ⟨rfl, rfl⟩)
    let t : MTree := recovered db hist.length r
    have hload : loadStore db 0 = some t := by simp only [loadStore, hl, Option.map_some]; rfl
    -- Rollback(0)
    obtain ⟨r2, hr2, hl2⟩ := loadVersion_at hH (t0 := t) g hok 0 hist.length hl1 (by omega) (Or.inr ⟨rfl, rfl⟩)
    let t1 : MTree := ⟨hist.length, r2, r2, loadedVersions t, 0, hist.length, db⟩
    have hlat : t1.latest = hist.length := by
      simp only [MTree.latest, t1, if_true]
      exact g.latestOnDisk
    obtain ⟨db', hdel, g'⟩ := deleteVersionsFrom_good hH hi (t := t1) g hok hlat 0 (by omega)
    simp only [List.take_zero] at g'
    have hover : loadVersionForOverwriting t 0 = some ((⟨hist.length, r2, r2, (loadedVersions t).filter fun v => decide (v ≤ 0), hist.length, hist.length, db'⟩ : MTree), (hist.length : Int)) := by
      unfold loadVersionForOverwriting
      simp only [hl2]
      have e : (0 : Int) + 1 = ((0 : Nat) : Int) + 1 := by simp
      have e2 : ({ version := (hist.length : Int), root := r2, lastSaved := r2, versions := loadedVersions t, ndbLatest := t.ndbLatest,
                   persistedTo := (hist.length : Int), db := t.db } : MTree) = t1 := rfl
      rw [e2, e, hdel]
    refine ⟨MTree.new db', ?_, goodTree_new g', rfl, rfl, fun e => absurd e hne⟩
    unfold loadStoreZero
    rw [hload]
    have hv : ¬ t.version = 0 := by simp only [t, recovered]; omega
    simp only [hv, if_false, hover]
    unfold loadStore
    rw [loadVersion_empty (t0 := MTree.new db') g' 0]
    rfl

/-- `LoadLatestVersion` on a disk where no multistore commit has completed (whatever an interrupted
first commit left in the substores): a good multistore at version 0. -/
theorem openMS_zero (hH : HashOK H) {S : Tree → Prop} (hi : Inj H S) {names : List Name} {hd : Name → List (Option Tree)} {d : Disk}
    (g : GoodDiskMS H S names hd 0 d) :
    ∃ s0, openMS H d names = some s0 ∧ GoodMS H S names (fun _ => []) 0 s0 ∧
      ∀ n ∈ names, ∃ t, aget n s0.stores = some t ∧ t.version = 0 ∧ t.root = none ∧ (hd n = [] → t = MTree.new (d.storeDB n)) := by
  have hlat : d.latestVersion = 0 := by
    unfold Disk.latestVersion
    rw [g.recs.latest]; simp
  let f : Name → MTree := fun n => (loadStoreZero (d.storeDB n)).getD default
  have hf : ∀ n ∈ names, loadStoreZero (d.storeDB n) = some (f n) ∧ GoodTree H S [] (f n) ∧ (f n).version = 0 ∧ (f n).root = none ∧
      (hd n = [] → f n = MTree.new (d.storeDB n)) := by
    intro n hn
    obtain ⟨gd, hok, _⟩ := g.store n hn
    obtain ⟨t, h1, h2, h3, h4, h5⟩ := loadStoreZero_good hH hi gd hok
    have : f n = t := by simp only [f, h1, Option.getD_some]
    rw [this]; exact ⟨h1, h2, h3, h4, h5⟩
  refine ⟨⟨{}, names.map (fun n => (n, f n)), d.cinfos, d.latest⟩, ?_, ?_, ?_⟩
  · unfold openMS loadMS
    rw [hlat]
    simp only [if_true]
    rw [mapM_some _ (fun n => (n, f n))]
    intro n hn
    rw [(hf n hn).1]; rfl
  · refine ⟨g.nodup, by simp [List.map_map, Function.comp_def], ?_, g.recs, by simp⟩
    intro n hn
    refine ⟨f n, ?_, (hf n hn).2.1, histOK_nil S, rfl⟩
    rw [aget_map_names f names n, if_pos hn]
  · intro n hn
    refine ⟨f n, ?_, (hf n hn).2.2⟩
    rw [aget_map_names f names n, if_pos hn]

/-- A fresh disk: `LoadLatestVersion` gives empty substores at version 0. -/
theorem openMS_fresh (hH : HashOK H) {S : Tree → Prop} (hi : Inj H S) {names : List Name} {d : Disk}
    (g : GoodDiskMS H S names (fun _ => []) 0 d) :
    ∃ s0, openMS H d names = some s0 ∧ GoodMS H S names (fun _ => []) 0 s0 := by
  obtain ⟨s0, h1, h2, _⟩ := openMS_zero hH hi g
  exact ⟨s0, h1, h2⟩

theorem GoodMS.congr {S : Tree → Prop} {names : List Name} {hs hs' : Name → List (Option Tree)} {k : Nat} {s : MStore}
    (g : GoodMS H S names hs k s) (h : ∀ n ∈ names, hs n = hs' n) : GoodMS H S names hs' k s :=
  ⟨g.nodup, g.keys, fun n hn => by rw [← h n hn]; exact g.tree n hn, g.recs, g.lcid⟩

/-! ### Commit -/

/-- `order` is a possible iteration order of the mounted substores. -/
def IsOrder (names order : List Name) : Prop := order.Nodup ∧ ∀ n, n ∈ order ↔ n ∈ names

theorem applyBlock_full (s : MStore) (names : List Name) (nx : Name → Option Tree) (hkeys : s.stores.map (·.1) = names) :
    (s.applyBlock (fullBlock names nx)).stores = s.stores.map fun e => (e.1, e.2.setRoot (nx e.1)) := by
  unfold MStore.applyBlock fullBlock
  simp only
  apply List.map_congr_left
  intro e he
  have hn : e.1 ∈ names := by rw [← hkeys]; exact List.mem_map_of_mem he
  rw [aget_map_names nx names e.1, if_pos hn]

/-- The commit info written by the commit that produces version `k+1`. -/
def nextCI (order : List Name) (nx : Name → Option Tree) (k : Nat) : CInfo :=
  ⟨(k : Int) + 1, order.map fun n => ⟨n, ⟨(k : Int) + 1, hashOpt H (nx n)⟩⟩⟩

/-- `Commit` when every substore's `SaveVersion` is known to succeed with the hash of its working
tree: the written batches, the commit id and the resulting multistore. -/
theorem commitMS_core {S : Tree → Prop} {names : List Name} (hs : Name → List (Option Tree)) (nx : Name → Option Tree)
    (k : Nat) (s : MStore) (order : List Name) (ho : IsOrder names order) (hnd : names.Nodup)
    (hkeys : s.stores.map (·.1) = names) (hv : s.lastCommitID.version = k)
    (hrec : GoodRecords names k s.cinfos s.latest)
    (hstore : ∀ n ∈ names, ∃ t t', aget n s.stores = some t ∧
        saveVersion H (t.setRoot (nx n)) = some (t', hashOpt H (nx n), (k : Int) + 1) ∧
        GoodTree H S (hs n ++ [nx n]) t' ∧ HistOK S (hs n ++ [nx n]) ∧ (hs n).length = k) :
    ∃ (s' : MStore) (dbOf : Name → NDB),
      commitMS H order (s.applyBlock (fullBlock names nx)) =
        some (s', ⟨(k : Int) + 1, (nextCI (H := H) order nx k).hash H⟩,
              order.map (fun n => DWrite.store n (dbOf n)) ++ [.final ((k : Int) + 1) (nextCI (H := H) order nx k)]) ∧
      GoodMS H S names (fun n => hs n ++ [nx n]) (k + 1) s' ∧
      (∀ n ∈ names, GoodDisk H S (hs n ++ [nx n]) (dbOf n) ∧ s'.disk.storeDB n = dbOf n) ∧
      s'.cinfos = aput ((k : Int) + 1) (nextCI (H := H) order nx k) s.cinfos ∧ s'.latest = some ((k : Int) + 1) := by
  let st := s.stores.map fun e => (e.1, e.2.setRoot (nx e.1))
  have hst : (s.applyBlock (fullBlock names nx)).stores = st := applyBlock_full s names nx hkeys
  let sv : Name → MTree × Bytes × Int := fun n => ((aget n st).bind (saveVersion H)).getD default
  have hsv : ∀ n ∈ names, ∃ (t t' : MTree), aget n st = some (t.setRoot (nx n)) ∧
      sv n = (t', hashOpt H (nx n), (k : Int) + 1) ∧ saveVersion H (t.setRoot (nx n)) = some (sv n) ∧
      GoodTree H S (hs n ++ [nx n]) t' ∧ HistOK S (hs n ++ [nx n]) ∧ (hs n).length = k := by
    intro n hn
    obtain ⟨t, t', h1, h2, h3, h4, h5⟩ := hstore n hn
    have e1 : aget n st = some (t.setRoot (nx n)) := by
      simp only [st]
      rw [aget_map_val (fun m (t : MTree) => t.setRoot (nx m)), h1]; rfl
    have e2 : sv n = (t', hashOpt H (nx n), (k : Int) + 1) := by
      simp only [sv, e1, Option.bind_some, h2, Option.getD_some]
    exact ⟨t, t', e1, e2, by rw [e2]; exact h2, h3, h4, h5⟩
  have hspec := commitStoresD_spec H order ho.1 st sv (by
    intro n hn
    obtain ⟨t, t', e1, _, e3, _⟩ := hsv n ((ho.2 n).mp hn)
    exact ⟨_, e1, e3⟩)
  have hinfos : order.map (fun n => (⟨n, ⟨(sv n).2.2, (sv n).2.1⟩⟩ : SInfo)) = (nextCI (H := H) order nx k).infos := by
    simp only [nextCI]
    apply List.map_congr_left
    intro n hn
    obtain ⟨t, t', _, e2, _⟩ := hsv n ((ho.2 n).mp hn)
    rw [e2]
  refine ⟨⟨⟨(k : Int) + 1, (nextCI (H := H) order nx k).hash H⟩, st.map (fun e => if order.contains e.1 then (e.1, (sv e.1).1) else e),
            aput ((k : Int) + 1) (nextCI (H := H) order nx k) s.cinfos, some ((k : Int) + 1)⟩, fun n => (sv n).1.db, ?_, ?_, ?_, rfl, rfl⟩
  · have e1 : (s.applyBlock (fullBlock names nx)).lastCommitID = s.lastCommitID := rfl
    have e2 : (s.applyBlock (fullBlock names nx)).cinfos = s.cinfos := rfl
    unfold commitMS
    simp only [hst, hspec, e1, e2, hv, hinfos]
    rfl
  · have hkeys' : (st.map fun e => if order.contains e.1 then (e.1, (sv e.1).1) else e).map (·.1) = names := by
      rw [← hkeys]
      simp only [st, List.map_map]
      apply List.map_congr_left
      intro e _
      simp only [Function.comp]
      split <;> rfl
    have htree : ∀ n ∈ names, aget n (st.map fun e => if order.contains e.1 then (e.1, (sv e.1).1) else e) = some (sv n).1 := by
      intro n hn
      obtain ⟨t, t', e1, _, _⟩ := hsv n hn
      rw [aget_map_upd st (fun m => order.contains m) (fun m => (sv m).1) n]
      have hmem : n ∈ order := (ho.2 n).mpr hn
      have : order.contains n = true := List.contains_iff_mem.mpr hmem
      simp [this, hmem, e1]
    constructor
    · exact hnd
    · exact hkeys'
    · intro n hn
      obtain ⟨t, t', _, e2, _, g1, g2, g3⟩ := hsv n hn
      refine ⟨(sv n).1, htree n hn, ?_, g2, by simp [g3]⟩
      rw [e2]; exact g1
    · constructor
      · intro v h1 h2
        simp only
        rw [aget_aput]
        by_cases hvk : (k : Int) + 1 = v
        · subst hvk
          refine ⟨nextCI (H := H) order nx k, by simp, rfl, ?_⟩
          intro n hn
          exact verOf_map _ (fun _ => (k : Int) + 1) (fun m => hashOpt H (nx m)) order ho.1 n ((ho.2 n).mpr hn)
        · simp only [hvk, if_false]
          exact hrec.cinfo v h1 (by push_cast at h2; omega)
      · intro v hv'
        simp only
        rw [aget_aput]
        have : ¬ ((k : Int) + 1 = v) := by intro e; apply hv'; push_cast; omega
        simp only [this, if_false]
        exact hrec.cinfo_none v (by intro h; apply hv'; push_cast; omega)
      · simp
    · simp only [Nat.succ_ne_zero, if_false]
      have : ((k + 1 : Nat) : Int) = (k : Int) + 1 := by push_cast; rfl
      rw [this, aget_aput_self]
      rfl
  · intro n hn
    obtain ⟨t, t', _, e2, _, g1, _, _⟩ := hsv n hn
    refine ⟨by show GoodDisk H S _ (sv n).1.db; rw [e2]; exact g1.disk, ?_⟩
    rw [MStore.disk_storeDB]
    have : aget n (st.map fun e => if order.contains e.1 then (e.1, (sv e.1).1) else e) = some (sv n).1 := by
      obtain ⟨t, t', e1, _, _⟩ := hsv n hn
      rw [aget_map_upd st (fun m => order.contains m) (fun m => (sv m).1) n]
      have hmem : n ∈ order := (ho.2 n).mpr hn
      have : order.contains n = true := List.contains_iff_mem.mpr hmem
      simp [this, hmem, e1]
    simp only [this]
    rfl


theorem GoodMS.version {S : Tree → Prop} {names : List Name} {hs : Name → List (Option Tree)} {k : Nat} {s : MStore}
    (g : GoodMS H S names hs k s) : s.lastCommitID.version = k := by
  rw [g.lcid]
  by_cases hk : k = 0
  · simp [hk]
  · simp only [hk, if_false]
    obtain ⟨ci, hci, hv, _⟩ := g.recs.cinfo k (by omega) (by omega)
    simp [hci, CInfo.commitID, hv]

/-- `Commit` of a legal block on a good multistore. -/
theorem commitMS_good (hH : HashOK H) {S : Tree → Prop} (hi : Inj H S) {names : List Name} {hs : Name → List (Option Tree)}
    {k : Nat} {s : MStore} (g : GoodMS H S names hs k s) (nx : Name → Option Tree) (order : List Name)
    (ho : IsOrder names order) (hstep : ∀ n ∈ names, StepOK S k (lastOf (hs n)) (nx n)) :
    ∃ (s' : MStore) (dbOf : Name → NDB),
      commitMS H order (s.applyBlock (fullBlock names nx)) =
        some (s', ⟨(k : Int) + 1, (nextCI (H := H) order nx k).hash H⟩,
              order.map (fun n => DWrite.store n (dbOf n)) ++ [.final ((k : Int) + 1) (nextCI (H := H) order nx k)]) ∧
      GoodMS H S names (fun n => hs n ++ [nx n]) (k + 1) s' ∧
      (∀ n ∈ names, GoodDisk H S (hs n ++ [nx n]) (dbOf n) ∧ s'.disk.storeDB n = dbOf n) ∧
      s'.cinfos = aput ((k : Int) + 1) (nextCI (H := H) order nx k) s.cinfos ∧ s'.latest = some ((k : Int) + 1) := by
  apply commitMS_core hs nx k s order ho g.nodup g.keys g.version g.recs
  intro n hn
  obtain ⟨t, ht, gt, hok, hl⟩ := g.tree n hn
  have hs' : StepOK S (hs n).length (t.setRoot (nx n)).lastSaved (t.setRoot (nx n)).root := by
    simp only [MTree.setRoot]; rw [gt.lastSaved, hl]; exact hstep n hn
  obtain ⟨t', hsv, gt', _⟩ := saveVersion_good hH hi (gt.setRoot (nx n)) hok hs'
  refine ⟨t, t', ht, ?_, by simpa [MTree.setRoot] using gt', ?_, hl⟩
  · rw [hl] at hsv; simpa [MTree.setRoot] using hsv
  · have := hok.append (hl ▸ hstep n hn : StepOK S (hs n).length (lastOf (hs n)) (nx n))
    exact this

/-- The commit hash does not depend on the order in which the substores were committed. -/
theorem CInfo.hash_perm (v : Int) {i₁ i₂ : List SInfo} (hp : i₁.Perm i₂) (hn : (i₁.map (·.name)).Nodup) :
    (CInfo.mk v i₁).hash H = (CInfo.mk v i₂).hash H := by
  unfold CInfo.hash simpleHashFromMap
  simp only
  rw [toSortedMap_perm ((hp.map _).map _)]
  simpa [List.map_map, Function.comp_def] using hn

theorem nextCI_hash_order {names order order' : List Name} (ho : IsOrder names order) (ho' : IsOrder names order')
    (nx : Name → Option Tree) (k : Nat) : (nextCI (H := H) order nx k).hash H = (nextCI (H := H) order' nx k).hash H := by
  unfold nextCI
  apply CInfo.hash_perm
  · apply List.Perm.map
    exact (List.perm_ext_iff_of_nodup ho.1 ho'.1).mpr (fun a => by rw [ho.2, ho'.2])
  · simpa [List.map_map, Function.comp_def] using ho.1

/-! ### Crash during `Commit` -/

/-- The substore histories on disk after the first `j` store batches of the commit producing `k+1`. -/
def crashHist (hs : Name → List (Option Tree)) (nx : Name → Option Tree) (order : List Name) (j : Nat) (n : Name) :
    List (Option Tree) :=
  if (order.take j).contains n then hs n ++ [nx n] else hs n

theorem crashDisk_stores (d : Disk) (order : List Name) (dbOf : Name → NDB) (fin : DWrite) (j : Nat) (hj : j ≤ order.length) :
    crashDisk d (order.map (fun n => DWrite.store n (dbOf n)) ++ [fin]) j =
      { d with stores := d.stores.map fun e => if (order.take j).contains e.1 then (e.1, dbOf e.1) else e } := by
  unfold crashDisk
  rw [List.take_append_of_le_length (by simpa using hj), ← List.map_take]
  exact crash_stores dbOf (order.take j) d

theorem crashDisk_full (d : Disk) (order : List Name) (dbOf : Name → NDB) (v : Int) (ci : CInfo) :
    crashDisk d (order.map (fun n => DWrite.store n (dbOf n)) ++ [.final v ci]) (order.length + 1) =
      { stores := d.stores.map fun e => if order.contains e.1 then (e.1, dbOf e.1) else e,
        cinfos := aput v ci d.cinfos, latest := some v } := by
  unfold crashDisk
  rw [List.take_of_length_le (by simp), List.foldl_append, crash_stores dbOf order d]
  rfl

/-- **Every crash point.**  Commit of a legal block on a good multistore at version `k`: for every
prefix of the atomic writes the disk is a good multistore disk — still at version `k` while only
substore batches have been written (the substores already written hold one more version), at version
`k+1` once the final batch is in. -/
theorem crash_disks (hH : HashOK H) {S : Tree → Prop} (hi : Inj H S) {names : List Name} {hs : Name → List (Option Tree)}
    {k : Nat} {s : MStore} (g : GoodMS H S names hs k s) (nx : Name → Option Tree) (order : List Name)
    (ho : IsOrder names order) (hstep : ∀ n ∈ names, StepOK S k (lastOf (hs n)) (nx n)) :
    ∃ (s' : MStore) (ws : List DWrite),
      commitMS H order (s.applyBlock (fullBlock names nx)) = some (s', ⟨(k : Int) + 1, (nextCI (H := H) order nx k).hash H⟩, ws) ∧
      ws.length = order.length + 1 ∧
      GoodMS H S names (fun n => hs n ++ [nx n]) (k + 1) s' ∧
      (∀ j, j ≤ order.length → GoodDiskMS H S names (crashHist hs nx order j) k (crashDisk s.disk ws j)) ∧
      GoodDiskMS H S names (fun n => hs n ++ [nx n]) (k + 1) (crashDisk s.disk ws (order.length + 1)) ∧
      aget ((k : Int) + 1) (crashDisk s.disk ws (order.length + 1)).cinfos = some (nextCI (H := H) order nx k) := by
  obtain ⟨s', dbOf, hc, g', hdb, hci, hlat⟩ := commitMS_good hH hi g nx order ho hstep
  have gd := g.disk
  refine ⟨s', _, hc, by simp, g', ?_, ?_, ?_⟩
  · intro j hj
    rw [crashDisk_stores s.disk order dbOf _ j hj]
    refine ⟨g.nodup, ?_, ?_, gd.recs⟩
    · simp only [List.map_map]
      rw [← gd.keys]
      apply List.map_congr_left
      intro e _; simp only [Function.comp]; split <;> rfl
    · intro n hn
      have hkn : n ∈ s.disk.stores.map (·.1) := by rw [gd.keys]; exact hn
      rw [Disk.storeDB_upd s.disk (fun m => (order.take j).contains m) dbOf n hkn]
      obtain ⟨g0, hok0, hl0⟩ := gd.store n hn
      obtain ⟨t, ht, gt, hok, hl⟩ := g.tree n hn
      unfold crashHist
      by_cases hc : (order.take j).contains n = true
      · simp only [hc, if_true]
        exact ⟨(hdb n hn).1, hok.append (hl ▸ hstep n hn : StepOK S (hs n).length (lastOf (hs n)) (nx n)), by simp; omega⟩
      · simp only [hc, Bool.false_eq_true, if_false]
        exact ⟨g0, hok0, hl0⟩
  · rw [crashDisk_full]
    have gd' := g'.disk
    refine ⟨g.nodup, ?_, ?_, ?_⟩
    · simp only [List.map_map]
      rw [← gd.keys]
      apply List.map_congr_left
      intro e _; simp only [Function.comp]; split <;> rfl
    · intro n hn
      have hkn : n ∈ s.disk.stores.map (·.1) := by rw [gd.keys]; exact hn
      have : (({ stores := s.disk.stores.map fun e => if order.contains e.1 then (e.1, dbOf e.1) else e,
                 cinfos := aput ((k : Int) + 1) (nextCI (H := H) order nx k) s.disk.cinfos, latest := some ((k : Int) + 1) } : Disk).storeDB n) = dbOf n := by
        have h1 := Disk.storeDB_upd s.disk (fun m => order.contains m) dbOf n hkn
        have hmem : order.contains n = true := List.contains_iff_mem.mpr ((ho.2 n).mpr hn)
        simp only [hmem, if_true] at h1
        exact h1
      rw [this]
      obtain ⟨gdn, hokn, hln⟩ := gd'.store n hn
      rw [(hdb n hn).2] at gdn
      exact ⟨gdn, hokn, hln⟩
    · have := g'.recs
      rw [hci, hlat] at this
      exact this
  · rw [crashDisk_full]
    simp only
    exact aget_aput_self _ _ _


theorem histAt_last (hist : List (Option Tree)) (hne : hist ≠ []) : histAt hist hist.length = some (lastOf hist) := by
  have hl1 : 1 ≤ (hist.length : Int) := by
    cases hist with
    | nil => exact absurd rfl hne
    | cons a l => simp; omega
  unfold histAt lastOf
  simp only [hl1, if_true]
  have : ((hist.length : Int) - 1).toNat = hist.length - 1 := by omega
  rw [this, List.getLast?_eq_getElem?]
  cases h : hist[hist.length - 1]? with
  | none =>
    have := List.getElem?_eq_none_iff.mp h
    cases hist with
    | nil => exact absurd rfl hne
    | cons a l => simp at this; omega
  | some x => rfl

theorem crashHist_at (hs : Name → List (Option Tree)) (nx : Name → Option Tree) (order : List Name) (j : Nat) (n : Name)
    (k : Nat) (hk : 1 ≤ k) (hl : (hs n).length = k) :
    (histAt (crashHist hs nx order j n) k).getD none = lastOf (hs n) := by
  have hne : hs n ≠ [] := by intro e; rw [e] at hl; simp at hl; omega
  unfold crashHist
  split
  · rw [histAt_append]
    have : ¬ ((k : Int) = (hs n).length + 1) := by omega
    simp only [this, if_false]
    rw [← hl, histAt_last _ hne]; rfl
  · rw [← hl, histAt_last _ hne]; rfl

/-- **Recovery** from any crash point before the final batch (`k ≥ 1`): `LoadLatestVersion` on the
crashed disk gives the last commit id and every substore on version `k` with the tree committed at `k`. -/
theorem recover_state (hH : HashOK H) {S : Tree → Prop} {names : List Name} {hs : Name → List (Option Tree)}
    (nx : Name → Option Tree) (order : List Name) (j : Nat) {k : Nat} {d : Disk}
    (gd : GoodDiskMS H S names (crashHist hs nx order j) k d) (hk : 1 ≤ k) (hlen : ∀ n ∈ names, (hs n).length = k) :
    ∃ ci, aget (k : Int) d.cinfos = some ci ∧ ci.version = k ∧
      openMS H d names = some ⟨ci.commitID H,
        names.map (fun n => (n, recovered (d.storeDB n) k (lastOf (hs n)))), d.cinfos, d.latest⟩ := by
  obtain ⟨ci, hci, ho⟩ := openMS_good hH gd hk
  obtain ⟨ci', hci', hv, _⟩ := gd.recs.cinfo k (by omega) (by omega)
  rw [hci] at hci'; cases hci'
  refine ⟨ci, hci, hv, ?_⟩
  rw [ho]
  congr 2
  apply List.map_congr_left
  intro n hn
  rw [crashHist_at hs nx order j n k hk (hlen n hn)]

/-- **Re-execution** after such a recovery, with any iteration order: the commit succeeds, reports
version `k+1` with the hash of the uninterrupted commit, and the store is again a good multistore. -/
theorem reexecute (hH : HashOK H) {S : Tree → Prop} (hi : Inj H S) {names : List Name} {hs : Name → List (Option Tree)}
    (nx : Name → Option Tree) (order order' : List Name) (ho : IsOrder names order) (ho' : IsOrder names order') (j : Nat)
    {k : Nat} {d : Disk} (gd : GoodDiskMS H S names (crashHist hs nx order j) k d) (hk : 1 ≤ k)
    (hlen : ∀ n ∈ names, (hs n).length = k) (hok : ∀ n ∈ names, HistOK S (hs n))
    (hstep : ∀ n ∈ names, StepOK S k (lastOf (hs n)) (nx n)) (ci : CInfo) (hci : ci.version = k) :
    ∃ s'' ws, commitMS H order' ((⟨ci.commitID H, names.map (fun n => (n, recovered (d.storeDB n) k (lastOf (hs n)))), d.cinfos, d.latest⟩ : MStore).applyBlock (fullBlock names nx)) =
        some (s'', ⟨(k : Int) + 1, (nextCI (H := H) order nx k).hash H⟩, ws) ∧
      GoodMS H S names (fun n => hs n ++ [nx n]) (k + 1) s'' := by
  have hkeys : (names.map (fun n => (n, recovered (d.storeDB n) k (lastOf (hs n))))).map (·.1) = names := by
    simp [List.map_map, Function.comp_def]
  obtain ⟨s'', dbOf, hc, g'', _⟩ := commitMS_core (H := H) (S := S) hs nx k
    ⟨ci.commitID H, names.map (fun n => (n, recovered (d.storeDB n) k (lastOf (hs n)))), d.cinfos, d.latest⟩ order' ho' gd.nodup hkeys
    (by simp [CInfo.commitID, hci]) gd.recs (by
      intro n hn
      have hag : aget n (names.map (fun n => (n, recovered (d.storeDB n) k (lastOf (hs n))))) = some (recovered (d.storeDB n) k (lastOf (hs n))) := by
        rw [aget_map_names (fun n => recovered (d.storeDB n) k (lastOf (hs n))) names n, if_pos hn]
      have hl := hlen n hn
      have hne : hs n ≠ [] := by intro e; rw [e] at hl; simp at hl; omega
      have hstep' : StepOK S (hs n).length (lastOf (hs n)) (nx n) := hl ▸ hstep n hn
      obtain ⟨gdn, hokn, _⟩ := gd.store n hn
      unfold crashHist at gdn hokn
      by_cases hc : (order.take j).contains n = true
      · simp only [hc, if_true] at gdn hokn
        obtain ⟨r, hr, hlast, hload, t', hsv, _, _, gt'⟩ := recover_after hH hi (nx n) gdn hokn hne
        subst hlast
        rw [hl] at hsv
        exact ⟨_, t', hag, hsv, gt', hokn, hl⟩
      · simp only [hc, Bool.false_eq_true, if_false] at gdn hokn
        obtain ⟨r, hr, hload, hlast, gt⟩ := recover_before hH hi gdn hokn hne
        subst hlast
        have hs' : StepOK S (hs n).length ((recovered (d.storeDB n) (hs n).length (lastOf (hs n))).setRoot (nx n)).lastSaved
            ((recovered (d.storeDB n) (hs n).length (lastOf (hs n))).setRoot (nx n)).root := by
          simp only [recovered, MTree.setRoot]; exact hstep'
        obtain ⟨t', hsv, gt', _⟩ := saveVersion_good hH hi (gt.setRoot (nx n)) hokn hs'
        rw [hl] at hsv gt'
        refine ⟨_, t', hag, by simpa [MTree.setRoot] using hsv, by simpa [MTree.setRoot] using gt', hokn.append hstep', hl⟩)
  rw [nextCI_hash_order ho' ho nx k] at hc
  exact ⟨s'', _, hc, g''⟩


/-! ### whole multistore histories -/

/-- A legal multistore history from version `k`: every block gives every substore a legal next tree,
and is committed in some iteration order. -/
def GoodBlocks (S : Tree → Prop) (names : List Name) : (Name → List (Option Tree)) → Nat → List (List Name × (Name → Option Tree)) → Prop
  | _, _, [] => True
  | hs, k, (order, nx) :: rest =>
    IsOrder names order ∧ (∀ n ∈ names, StepOK S k (lastOf (hs n)) (nx n)) ∧
      GoodBlocks S names (fun n => hs n ++ [nx n]) (k + 1) rest

/-- The substore histories after a list of blocks. -/
def histsAfter : (Name → List (Option Tree)) → List (List Name × (Name → Option Tree)) → Name → List (Option Tree)
  | hs, [] => hs
  | hs, (_, nx) :: rest => histsAfter (fun n => hs n ++ [nx n]) rest

def freshDisk (names : List Name) : Disk := { stores := names.map fun n => (n, {}) }

theorem freshDisk_good (S : Tree → Prop) (names : List Name) (hnd : names.Nodup) :
    GoodDiskMS H S names (fun _ => []) 0 (freshDisk names) := by
  refine ⟨hnd, by simp [freshDisk, List.map_map, Function.comp_def], ?_, ⟨?_, ?_, rfl⟩⟩
  · intro n hn
    have : (freshDisk names).storeDB n = {} := by
      unfold Disk.storeDB freshDisk
      simp only
      rw [aget_map_names (fun _ => ({} : NDB)) names n, if_pos hn]; rfl
    rw [this]
    exact ⟨(goodTree_fresh (H := H) S).disk, histOK_nil S, by simp⟩
  · intro v h1 h2; omega
  · intro v _; simp [freshDisk]

/-- `LoadLatestVersion` on a fresh disk is a good multistore at version 0. -/
theorem openMS_fresh_good (hH : HashOK H) (S : Tree → Prop) (hi : Inj H S) (names : List Name) (hnd : names.Nodup) :
    ∃ s0, openMS H (freshDisk names) names = some s0 ∧ GoodMS H S names (fun _ => []) 0 s0 :=
  openMS_fresh hH hi (freshDisk_good (H := H) S names hnd)

theorem runMS_good (hH : HashOK H) {S : Tree → Prop} (hi : Inj H S) {names : List Name} :
    ∀ (blocks : List (List Name × (Name → Option Tree))) (hs : Name → List (Option Tree)) (k : Nat) (s : MStore),
      GoodMS H S names hs k s → GoodBlocks S names hs k blocks →
      ∃ s' ids, runMS H s (blocks.map fun b => (b.1, fullBlock names b.2)) = some (s', ids) ∧
        GoodMS H S names (histsAfter hs blocks) (k + blocks.length) s' ∧ ids.length = blocks.length := by
  intro blocks
  induction blocks with
  | nil => intro hs k s g _; exact ⟨s, [], rfl, by simpa [histsAfter] using g, rfl⟩
  | cons b rest ih =>
    intro hs k s g hb
    obtain ⟨order, nx⟩ := b
    obtain ⟨ho, hstep, hrest⟩ := hb
    obtain ⟨s', dbOf, hc, g', _⟩ := commitMS_good hH hi g nx order ho hstep
    obtain ⟨s'', ids, hrun, g'', hl⟩ := ih _ _ s' g' hrest
    refine ⟨s'', ⟨(k : Int) + 1, (nextCI (H := H) order nx k).hash H⟩ :: ids, ?_, ?_, by simp [hl]⟩
    · simp only [List.map_cons, runMS, hc, hrun, Option.map_some]
    · have : k + 1 + rest.length = k + (rest.length + 1) := by omega
      simpa [histsAfter, this] using g''


/-- The commit ids reported along a history are exactly the ids of the commit infos left on disk, and
a later commit never touches an earlier commit info. -/
theorem runMS_ids (hH : HashOK H) {S : Tree → Prop} (hi : Inj H S) {names : List Name} :
    ∀ (blocks : List (List Name × (Name → Option Tree))) (hs : Name → List (Option Tree)) (k : Nat) (s : MStore),
      GoodMS H S names hs k s → GoodBlocks S names hs k blocks →
      ∃ s' ids, runMS H s (blocks.map fun b => (b.1, fullBlock names b.2)) = some (s', ids) ∧
        GoodMS H S names (histsAfter hs blocks) (k + blocks.length) s' ∧
        (∀ v : Int, v ≤ k → aget v s'.cinfos = aget v s.cinfos) ∧
        (∀ (i : Nat) (c : CID), ids[i]? = some c → (aget ((k : Int) + i + 1) s'.cinfos).map (·.commitID H) = some c) := by
  intro blocks
  induction blocks with
  | nil => intro hs k s g _; exact ⟨s, [], rfl, by simpa [histsAfter] using g, fun _ _ => rfl, fun i c h => by simp at h⟩
  | cons b rest ih =>
    intro hs k s g hb
    obtain ⟨order, nx⟩ := b
    obtain ⟨ho, hstep, hrest⟩ := hb
    obtain ⟨s', dbOf, hc, g', _, hci, _⟩ := commitMS_good hH hi g nx order ho hstep
    obtain ⟨s'', ids, hrun, g'', hkeep, hids⟩ := ih _ _ s' g' hrest
    refine ⟨s'', ⟨(k : Int) + 1, (nextCI (H := H) order nx k).hash H⟩ :: ids, ?_, ?_, ?_, ?_⟩
    · simp only [List.map_cons, runMS, hc, hrun, Option.map_some]
    · have : k + 1 + rest.length = k + (rest.length + 1) := by omega
      simpa [histsAfter, this] using g''
    · intro v hv
      rw [hkeep v (by push_cast; omega), hci, aget_aput_ne (by omega)]
    · intro i c hic
      cases i with
      | zero =>
        simp at hic; subst hic
        have := hkeep ((k : Int) + 1) (by push_cast; omega)
        simp only [Int.natCast_zero, Int.add_zero]
        rw [this, hci, aget_aput_self]; rfl
      | succ i =>
        simp only [List.getElem?_cons_succ] at hic
        have := hids i c hic
        have e : (((k + 1 : Nat) : Int) + i + 1) = ((k : Int) + ((i + 1 : Nat) : Int) + 1) := by push_cast; omega
        rw [e] at this
        exact this


/-- The commit ids of a history in canonical form: height and the hash of the commit info built in
mount order — independent of the iteration orders actually used and of everything but the trees. -/
def canonIds (names : List Name) : Nat → List (List Name × (Name → Option Tree)) → List CID
  | _, [] => []
  | k, (_, nx) :: rest => ⟨(k : Int) + 1, (nextCI (H := H) names nx k).hash H⟩ :: canonIds names (k + 1) rest

theorem isOrder_self {names : List Name} (hnd : names.Nodup) : IsOrder names names := ⟨hnd, fun _ => Iff.rfl⟩

theorem runMS_canon (hH : HashOK H) {S : Tree → Prop} (hi : Inj H S) {names : List Name} :
    ∀ (blocks : List (List Name × (Name → Option Tree))) (hs : Name → List (Option Tree)) (k : Nat) (s : MStore),
      GoodMS H S names hs k s → GoodBlocks S names hs k blocks →
      ∃ s', runMS H s (blocks.map fun b => (b.1, fullBlock names b.2)) = some (s', canonIds (H := H) names k blocks) ∧
        GoodMS H S names (histsAfter hs blocks) (k + blocks.length) s' := by
  intro blocks
  induction blocks with
  | nil => intro hs k s g _; exact ⟨s, rfl, by simpa [histsAfter] using g⟩
  | cons b rest ih =>
    intro hs k s g hb
    obtain ⟨order, nx⟩ := b
    obtain ⟨ho, hstep, hrest⟩ := hb
    obtain ⟨s', dbOf, hc, g', _⟩ := commitMS_good hH hi g nx order ho hstep
    obtain ⟨s'', hrun, g''⟩ := ih _ _ s' g' hrest
    refine ⟨s'', ?_, ?_⟩
    · simp only [List.map_cons, runMS, hc, hrun, Option.map_some, canonIds]
      rw [nextCI_hash_order ho (isOrder_self g.nodup) nx k]
    · have : k + 1 + rest.length = k + (rest.length + 1) := by omega
      simpa [histsAfter, this] using g''

theorem canonIds_append (names : List Name) : ∀ (l₁ l₂ : List (List Name × (Name → Option Tree))) (k : Nat),
    canonIds (H := H) names k (l₁ ++ l₂) = canonIds (H := H) names k l₁ ++ canonIds (H := H) names (k + l₁.length) l₂ := by
  intro l₁
  induction l₁ with
  | nil => intro l₂ k; simp [canonIds]
  | cons b l ih =>
    intro l₂ k
    obtain ⟨o, nx⟩ := b
    simp only [List.cons_append, canonIds, ih, List.length_cons]
    have : k + 1 + l.length = k + (l.length + 1) := by omega
    rw [this]

theorem GoodBlocks.split {S : Tree → Prop} {names : List Name} : ∀ (l₁ l₂ : List (List Name × (Name → Option Tree)))
    (hs : Name → List (Option Tree)) (k : Nat), GoodBlocks S names hs k (l₁ ++ l₂) →
      GoodBlocks S names hs k l₁ ∧ GoodBlocks S names (histsAfter hs l₁) (k + l₁.length) l₂ := by
  intro l₁
  induction l₁ with
  | nil => intro l₂ hs k h; exact ⟨trivial, by simpa [histsAfter] using h⟩
  | cons b l ih =>
    intro l₂ hs k h
    obtain ⟨o, nx⟩ := b
    obtain ⟨h1, h2, h3⟩ := h
    obtain ⟨h4, h5⟩ := ih l₂ _ _ h3
    refine ⟨⟨h1, h2, h4⟩, ?_⟩
    have : k + 1 + l.length = k + (l.length + 1) := by omega
    simpa [histsAfter, this] using h5

theorem histsAfter_append (hs : Name → List (Option Tree)) : ∀ (l₁ l₂ : List (List Name × (Name → Option Tree))),
    histsAfter hs (l₁ ++ l₂) = histsAfter (histsAfter hs l₁) l₂ := by
  intro l₁
  induction l₁ generalizing hs with
  | nil => intro l₂; rfl
  | cons b l ih => intro l₂; obtain ⟨o, nx⟩ := b; simp [histsAfter, ih]

theorem histsAfter_take (l : List (List Name × (Name → Option Tree))) (n : Name) :
    ∀ (hs : Name → List (Option Tree)) (h : Nat), h ≤ l.length →
      histsAfter hs (l.take h) n = (histsAfter hs l n).take ((hs n).length + h) := by
  induction l with
  | nil => intro hs h hh; simp at hh; subst hh; simp [histsAfter]
  | cons b l ih =>
    intro hs h hh
    obtain ⟨o, nx⟩ := b
    cases h with
    | zero =>
      simp only [List.take_zero, histsAfter, Nat.add_zero]
      -- the history only grows
      have grow : ∀ (l : List (List Name × (Name → Option Tree))) (hs : Name → List (Option Tree)),
          (histsAfter hs l n).take (hs n).length = hs n := by
        intro l
        induction l with
        | nil => intro hs; simp [histsAfter]
        | cons b l ih2 =>
          intro hs; obtain ⟨o, nx⟩ := b
          simp only [histsAfter]
          have := ih2 (fun m => hs m ++ [nx m])
          simp only [List.length_append, List.length_cons, List.length_nil] at this
          have h2 : (histsAfter (fun m => hs m ++ [nx m]) l n).take (hs n).length =
              ((histsAfter (fun m => hs m ++ [nx m]) l n).take ((hs n).length + 1)).take (hs n).length := by
            rw [List.take_take]; congr 1; omega
          rw [h2, this]; simp
      exact (grow ((o, nx) :: l) hs).symm
    | succ h =>
      simp only [List.take_succ_cons, histsAfter]
      rw [ih _ h (by simpa using hh)]
      simp only [List.length_append, List.length_cons, List.length_nil]
      congr 1; omega


/-! ### RollbackVersion -/

/-- `rootmulti.RollbackVersion(h)` on a disk with `k` commits, `1 ≤ h < k`: it succeeds and leaves a
good multistore disk for the first `h` commits (substore trees, commit infos `1..h`, latest = `h`). -/
theorem rollbackMS_good (hH : HashOK H) {S : Tree → Prop} (hi : Inj H S) {names : List Name} {hs : Name → List (Option Tree)}
    {k : Nat} {d : Disk} (gd : GoodDiskMS H S names hs k d) (hlen : ∀ n ∈ names, (hs n).length = k)
    (h : Nat) (h1 : 1 ≤ h) (hh : h < k) :
    ∃ s', rollbackMS d names h = some s' ∧ GoodDiskMS H S names (fun n => (hs n).take h) h s'.disk ∧
      ∀ v : Int, v ≤ h → aget v s'.disk.cinfos = aget v d.cinfos := by
  have hlat : d.latestVersion = k := by
    unfold Disk.latestVersion
    rw [gd.recs.latest]
    have : ¬ k = 0 := by omega
    simp [this]
  obtain ⟨ci, hci, hv, hver⟩ := gd.recs.cinfo k (by omega) (by omega)
  let rb : Name → MTree := fun n =>
    (((loadStore (d.storeDB n) (k : Int)).bind fun t => loadVersionForOverwriting t (h : Int)).map (·.1)).getD default
  have hrb : ∀ n ∈ names, rollbackStore (d.storeDB n) (ci.verOf n) (h : Int) n = some (n, rb n) ∧
      GoodTree H S ((hs n).take h) (rb n) := by
    intro n hn
    obtain ⟨g0, hok0, _⟩ := gd.store n hn
    have hl := hlen n hn
    obtain ⟨r, hr, hload⟩ := loadStore_recovered hH g0 hok0 (k : Int) (by omega) (by omega)
    obtain ⟨t', r', hb, _, _, gt⟩ := rollback_store_good hH hi (t := recovered (d.storeDB n) k r) g0 hok0 rfl h h1 (by omega)
    unfold rollbackStore
    rw [hver n hn, hload]
    simp only [hb, Option.map_some]
    have : rb n = t' := by simp only [rb, hload, Option.bind_some, hb, Option.map_some, Option.getD_some]
    rw [this]
    exact ⟨rfl, gt⟩
  refine ⟨⟨{}, names.map (fun n => (n, rb n)), d.cinfos.filter (fun e => !(decide ((h : Int) + 1 ≤ e.1) && decide (e.1 ≤ (k : Int)))), some (h : Int)⟩, ?_, ?_, ?_⟩
  · unfold rollbackMS
    rw [hlat]
    have : ¬ ((h : Int) ≥ k) := by omega
    simp only [this, if_false, hci]
    rw [mapM_some _ (fun n => (n, rb n)) names (fun n hn => (hrb n hn).1)]
  · refine ⟨gd.nodup, by simp [MStore.disk, List.map_map, Function.comp_def], ?_, ⟨?_, ?_, ?_⟩⟩
    · intro n hn
      rw [MStore.disk_storeDB]
      simp only
      rw [aget_map_names rb names n, if_pos hn]
      obtain ⟨g0, hok0, _⟩ := gd.store n hn
      refine ⟨(hrb n hn).2.disk, ?_, by simp [hlen n hn]; omega⟩
      exact ⟨fun ot hot => hok0.inS ot (List.mem_of_mem_take hot), fun ot hot => hok0.wf ot (List.mem_of_mem_take hot),
        fun i t hi' => by
          rw [List.getElem?_take] at hi'
          split at hi'
          · exact hok0.vbound i t hi'
          · cases hi'⟩
    · intro v hv1 hv2
      simp only [MStore.disk]
      rw [aget_filter (fun x => !(decide ((h : Int) + 1 ≤ x) && decide (x ≤ (k : Int))))]
      have : ¬ ((h : Int) + 1 ≤ v) := by omega
      simp only [this, decide_false, Bool.false_and, Bool.not_false, if_true]
      exact gd.recs.cinfo v hv1 (by omega)
    · intro v hv
      simp only [MStore.disk]
      rw [aget_filter (fun x => !(decide ((h : Int) + 1 ≤ x) && decide (x ≤ (k : Int))))]
      by_cases hq : (h : Int) + 1 ≤ v ∧ v ≤ k
      · simp [hq.1, hq.2]
      · have : (!(decide ((h : Int) + 1 ≤ v) && decide (v ≤ (k : Int)))) = true := by
          simp only [Bool.not_eq_true', Bool.and_eq_false_imp, decide_eq_true_eq, decide_eq_false_iff_not]
          intro a b; exact hq ⟨a, b⟩
        rw [if_pos this]
        apply gd.recs.cinfo_none
        omega
    · simp [MStore.disk]; omega
  · intro v hv
    simp only [MStore.disk]
    rw [aget_filter (fun x => !(decide ((h : Int) + 1 ≤ x) && decide (x ≤ (k : Int))))]
    have : ¬ ((h : Int) + 1 ≤ v) := by omega
    simp [this]

end ms
end NodeDB
