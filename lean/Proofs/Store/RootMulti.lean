import PocketModel.Store.RootMulti
import Proofs.Basic.Bytes
/-! Lemmas about the content-level multistore commit (C06). -/
set_option linter.unusedSimpArgs false
namespace RootMulti

theorem eq_of_nodup_map {α β : Type} (f : α → β) : ∀ {l : List α}, (l.map f).Nodup → ∀ {a b : α}, a ∈ l → b ∈ l → f a = f b → a = b
  | [], _, _, _, ha, _, _ => by cases ha
  | x :: l, hn, a, b, ha, hb, hf => by
    simp only [List.map_cons, List.nodup_cons, List.mem_map, not_exists, not_and] at hn
    simp only [List.mem_cons] at ha hb
    rcases ha with rfl | ha <;> rcases hb with rfl | hb
    · rfl
    · exact absurd hf.symm (hn.1 b hb)
    · exact absurd hf (hn.1 a ha)
    · exact eq_of_nodup_map f hn.2 ha hb hf

/-! ### the sorted map is independent of assignment order (distinct keys) -/

theorem sinsert_comm (k1 k2 : Name) (v1 v2 : Bytes) (hne : k1 ≠ k2) (m : List (Name × Bytes)) :
    sinsert k1 v1 (sinsert k2 v2 m) = sinsert k2 v2 (sinsert k1 v1 m) := by
  have hne' : k2 ≠ k1 := Ne.symm hne
  have i1 := Bytes.lt_irrefl k1
  have i2 := Bytes.lt_irrefl k2
  induction m with
  | nil =>
    rcases Bytes.lt_tri k1 k2 with h | h | h
    · have := Bytes.lt_asymm h; simp [sinsert, h, this, hne, hne']
    · exact absurd h hne
    · have := Bytes.lt_asymm h; simp [sinsert, h, this, hne, hne']
  | cons e m ih =>
    obtain ⟨k', v'⟩ := e
    rcases Bytes.lt_tri k1 k' with a | a | a <;> rcases Bytes.lt_tri k2 k' with b | b | b
    · -- both below k'
      rcases Bytes.lt_tri k1 k2 with h | h | h
      · have h' := Bytes.lt_asymm h
        simp [sinsert, a, b, h, h', hne, hne']
      · exact absurd h hne
      · have h' := Bytes.lt_asymm h
        simp [sinsert, a, b, h, h', hne, hne']
    · subst b
      have a' := Bytes.lt_asymm a
      simp [sinsert, a, a', hne, hne', i1, i2]
    · have h : k1 < k2 := Bytes.lt_trans a b
      have h' := Bytes.lt_asymm h
      have b' := Bytes.lt_asymm b
      have hb : k2 ≠ k' := fun e => Bytes.lt_irrefl k' (e ▸ b)
      simp [sinsert, a, b', hb, h, h', hne, hne']
    · subst a
      have b' := Bytes.lt_asymm b
      simp [sinsert, b, b', hne, hne', i1, i2]
    · exact absurd (a.trans b.symm) hne
    · subst a
      have b' := Bytes.lt_asymm b
      simp [sinsert, b, b', hne, hne', i1, i2]
    · have h : k2 < k1 := Bytes.lt_trans b a
      have h' := Bytes.lt_asymm h
      have a' := Bytes.lt_asymm a
      have ha : k1 ≠ k' := fun e => Bytes.lt_irrefl k' (e ▸ a)
      simp [sinsert, b, a', ha, h, h', hne, hne']
    · subst b
      have a' := Bytes.lt_asymm a
      simp [sinsert, a, a', hne, hne', i1, i2]
    · have a' := Bytes.lt_asymm a
      have b' := Bytes.lt_asymm b
      have ha : k1 ≠ k' := fun e => Bytes.lt_irrefl k' (e ▸ a)
      have hb : k2 ≠ k' := fun e => Bytes.lt_irrefl k' (e ▸ b)
      simp [sinsert, a', b', ha, hb, ih]

theorem foldl_sinsert_perm {l₁ l₂ : List (Name × Bytes)} (hp : l₁.Perm l₂) :
    (l₁.map (·.1)).Nodup → ∀ m : List (Name × Bytes),
      l₁.foldl (fun m kv => sinsert kv.1 kv.2 m) m = l₂.foldl (fun m kv => sinsert kv.1 kv.2 m) m := by
  induction hp with
  | nil => intros; rfl
  | cons x _ ih =>
    intro hn m
    simp only [List.map_cons, List.nodup_cons] at hn
    simp only [List.foldl_cons]
    exact ih hn.2 _
  | swap x y l =>
    intro hn m
    simp only [List.map_cons, List.nodup_cons, List.mem_cons, not_or] at hn
    simp only [List.foldl_cons]
    rw [sinsert_comm x.1 y.1 x.2 y.2 (fun e => hn.1.1 e.symm)]
  | trans h1 _ ih1 ih2 =>
    intro hn m
    rw [ih1 hn m]
    exact ih2 ((h1.map _).nodup_iff.mp hn) m

theorem toSortedMap_perm {l₁ l₂ : List (Name × Bytes)} (hp : l₁.Perm l₂) (hn : (l₁.map (·.1)).Nodup) :
    toSortedMap l₁ = toSortedMap l₂ := foldl_sinsert_perm hp hn []

/-- Keys of `sinsert`. -/
theorem mem_sinsert {k : Name} {v : Bytes} {m : List (Name × Bytes)} {e : Name × Bytes}
    (h : e ∈ sinsert k v m) : e = (k, v) ∨ e ∈ m := by
  induction m with
  | nil => simp [sinsert] at h; exact Or.inl h
  | cons x m ih =>
    obtain ⟨k', v'⟩ := x
    simp only [sinsert] at h
    split at h
    · simp at h ⊢; rcases h with h | h | h <;> simp [h]
    · split at h
      · simp at h ⊢; rcases h with h | h <;> simp [h]
      · simp at h ⊢
        rcases h with h | h
        · simp [h]
        · rcases ih h with h | h <;> simp [h]

/-- The map content is sorted by key (strictly: one entry per key). -/
theorem sinsert_sorted (k : Name) (v : Bytes) (m : List (Name × Bytes))
    (hs : m.Pairwise (fun a b => a.1 < b.1)) : (sinsert k v m).Pairwise (fun a b => a.1 < b.1) := by
  induction m with
  | nil => simp [sinsert]
  | cons x m ih =>
    obtain ⟨k', v'⟩ := x
    rw [List.pairwise_cons] at hs
    simp only [sinsert]
    split
    · rename_i h
      rw [List.pairwise_cons]
      refine ⟨?_, List.pairwise_cons.mpr hs⟩
      intro e he
      simp at he
      rcases he with he | he
      · simpa [he] using h
      · exact Bytes.lt_trans h (hs.1 e he)
    · split
      · rename_i h; subst h
        rw [List.pairwise_cons]; exact ⟨hs.1, hs.2⟩
      · rename_i h1 h2
        rw [List.pairwise_cons]
        refine ⟨?_, ih hs.2⟩
        intro e he
        rcases mem_sinsert he with he | he
        · subst he
          rcases Bytes.lt_tri k k' with h | h | h
          · exact absurd h h1
          · exact absurd h h2
          · exact h
        · exact hs.1 e he

theorem toSortedMap_sorted (l : List (Name × Bytes)) : (toSortedMap l).Pairwise (fun a b => a.1 < b.1) := by
  unfold toSortedMap
  suffices ∀ m : List (Name × Bytes), m.Pairwise (fun a b => a.1 < b.1) →
      (l.foldl (fun m kv => sinsert kv.1 kv.2 m) m).Pairwise (fun a b => a.1 < b.1) from this [] List.Pairwise.nil
  induction l with
  | nil => intro m h; exact h
  | cons x l ih => intro m h; exact ih _ (sinsert_sorted _ _ _ h)

/-! ### commit info hash under permutation -/

theorem CommitInfo.hash_perm (H : Bytes → Bytes) (v w : Nat) {i₁ i₂ : List StoreInfo} (hp : i₁.Perm i₂)
    (hn : (i₁.map (·.name)).Nodup) : (CommitInfo.mk v i₁).hash H = (CommitInfo.mk w i₂).hash H := by
  unfold CommitInfo.hash simpleHashFromMap
  simp only
  rw [toSortedMap_perm ((hp.map _).map _)]
  simpa [List.map_map, Function.comp_def] using hn

theorem commitStores_names (TH : List (List Op) → Bytes) (l : List (Name × Sub)) :
    (commitStores TH l).map (·.name) = (l.filter fun e => !e.2.isTransient).map (·.1) := by
  induction l with
  | nil => rfl
  | cons e l ih =>
    unfold commitStores at ih ⊢
    cases h : e.2.isTransient <;> simp [List.filterMap_cons, List.filter_cons, h, ih]

theorem commitStores_nodup (TH : List (List Op) → Bytes) (l : List (Name × Sub)) (hn : (l.map (·.1)).Nodup) :
    ((commitStores TH l).map (·.name)).Nodup := by
  rw [commitStores_names]
  exact hn.sublist ((List.filter_sublist).map _)

theorem commitStores_filter (TH : List (List Op) → Bytes) (l : List (Name × Sub)) :
    commitStores TH (l.filter fun e => !e.2.isTransient) = commitStores TH l := by
  induction l with
  | nil => rfl
  | cons e l ih =>
    unfold commitStores at ih ⊢
    cases h : e.2.isTransient <;> simp [List.filterMap_cons, List.filter_cons, h, ih]

theorem commitStores_perm (TH : List (List Op) → Bytes) {l₁ l₂ : List (Name × Sub)} (hp : l₁.Perm l₂) :
    (commitStores TH l₁).Perm (commitStores TH l₂) := hp.filterMap _

/-! ### substore facts -/

theorem Sub.isTransient_commit (TH : List (List Op) → Bytes) (s : Sub) : (s.commit TH).1.isTransient = s.isTransient := by
  cases s <;> rfl

theorem Sub.isTransient_write (op : Op) (s : Sub) : (s.write op).isTransient = s.isTransient := by
  cases s <;> rfl

def NodupNames (s : MS) : Prop := (s.stores.map (·.1)).Nodup

instance (s : MS) : Decidable (NodupNames s) := by unfold NodupNames; infer_instance

theorem lastVersion_applyBlock (s : MS) (b : Block) : (s.applyBlock b).lastVersion = s.lastVersion := by
  unfold MS.applyBlock
  induction b generalizing s with
  | nil => rfl
  | cons w b ihb => simp only [List.foldl_cons]; rw [ihb]; rfl

theorem names_write (s : MS) (n : Name) (op : Op) : (s.write n op).stores.map (·.1) = s.stores.map (·.1) := by
  unfold MS.write
  simp only [List.map_map]
  apply List.map_congr_left
  intro e _
  simp only [Function.comp]
  split <;> rfl

theorem names_commit (H : Bytes → Bytes) (TH : List (List Op) → Bytes) (σ : Oracle) (s : MS) :
    (commit H TH σ s).1.stores.map (·.1) = s.stores.map (·.1) := by
  simp [commit, List.map_map, Function.comp_def]

theorem names_applyBlock (s : MS) (b : Block) : (s.applyBlock b).stores.map (·.1) = s.stores.map (·.1) := by
  unfold MS.applyBlock
  induction b generalizing s with
  | nil => rfl
  | cons w b ih => simp only [List.foldl_cons]; rw [ih, names_write]

theorem transientNames_write (s : MS) (n : Name) (op : Op) : (s.write n op).transientNames = s.transientNames := by
  unfold MS.transientNames MS.write
  simp only
  induction s.stores with
  | nil => rfl
  | cons e l ih =>
    simp only [List.map_cons, List.filter_cons]
    by_cases h : e.1 = n
    · simp only [h, if_true, Sub.isTransient_write]
      cases e.2.isTransient <;> simp [ih, h]
    · simp only [h, if_false]
      cases e.2.isTransient <;> simp [ih]

theorem transientNames_applyBlock (s : MS) (b : Block) : (s.applyBlock b).transientNames = s.transientNames := by
  unfold MS.applyBlock
  induction b generalizing s with
  | nil => rfl
  | cons w b ih => simp only [List.foldl_cons]; rw [ih, transientNames_write]

theorem transientNames_commit (H : Bytes → Bytes) (TH : List (List Op) → Bytes) (σ : Oracle) (s : MS) :
    (commit H TH σ s).1.transientNames = s.transientNames := by
  unfold MS.transientNames commit
  simp only
  induction s.stores with
  | nil => rfl
  | cons e l ih =>
    simp only [List.map_cons, List.filter_cons, Sub.isTransient_commit]
    cases e.2.isTransient <;> simp [ih]

/-! ### dropping the transient stores commutes with everything -/

theorem dropTransient_write (s : MS) (n : Name) (op : Op) :
    (s.write n op).dropTransient = s.dropTransient.write n op := by
  unfold MS.dropTransient MS.write
  simp only [MS.mk.injEq, true_and]
  induction s.stores with
  | nil => rfl
  | cons e l ih =>
    simp only [List.map_cons, List.filter_cons]
    by_cases h : e.1 = n
    · simp only [h, if_true, Sub.isTransient_write]
      cases e.2.isTransient <;> simp [ih, h]
    · simp only [h, if_false]
      cases e.2.isTransient <;> simp [ih, h]

theorem write_transient_noop (s : MS) (n : Name) (op : Op) (hn : NodupNames s) (ht : n ∈ s.transientNames) :
    s.dropTransient.write n op = s.dropTransient := by
  unfold MS.dropTransient MS.write
  simp only [MS.mk.injEq, true_and]
  unfold MS.transientNames at ht
  unfold NodupNames at hn
  rw [List.map_congr_left (g := id)]
  · simp
  · intro e he
    simp only [List.mem_filter, Bool.not_eq_eq_eq_not, Bool.not_true] at he
    simp only [id]
    rw [if_neg]
    intro hname
    simp only [List.mem_map, List.mem_filter] at ht
    obtain ⟨e', ⟨he', ht'⟩, hn'⟩ := ht
    -- e and e' have the same name, one transient, the other not
    have : e = e' := by
      exact eq_of_nodup_map (·.1) hn he.1 he' (by rw [hname, hn'])
    subst this
    simp [he.2] at ht'

theorem dropTransient_applyBlock (s : MS) (b : Block) (hn : NodupNames s) :
    (s.applyBlock b).dropTransient = s.dropTransient.applyBlock (b.without s.transientNames) := by
  unfold MS.applyBlock Block.without
  induction b generalizing s with
  | nil => rfl
  | cons w b ih =>
    simp only [List.foldl_cons, List.filter_cons]
    have hn' : NodupNames (s.write w.1 w.2) := by unfold NodupNames; rw [names_write]; exact hn
    rw [ih _ hn', transientNames_write, dropTransient_write]
    by_cases ht : w.1 ∈ s.transientNames
    · have : s.transientNames.contains w.1 = true := by simpa using ht
      simp only [this, Bool.not_true]
      rw [write_transient_noop s w.1 w.2 hn ht]
      rfl
    · have : s.transientNames.contains w.1 = false := by simpa using ht
      simp [ht]

theorem dropTransient_commit (H : Bytes → Bytes) (TH : List (List Op) → Bytes) (σ τ : Oracle)
    (hσ : IsPerm σ) (hτ : IsPerm τ) (s : MS) (hn : NodupNames s) :
    (commit H TH σ s).1.dropTransient = (commit H TH τ s.dropTransient).1 ∧
    (commit H TH σ s).2.commitID H = (commit H TH τ s.dropTransient).2.commitID H := by
  have hhash : (CommitInfo.mk (s.lastVersion + 1) (commitStores TH (σ s.stores))).hash H =
      (CommitInfo.mk (s.lastVersion + 1) (commitStores TH (τ (s.stores.filter fun e => !e.2.isTransient)))).hash H := by
    apply CommitInfo.hash_perm
    · have h1 := commitStores_perm TH (hσ s.stores)
      have h2 := commitStores_perm TH (hτ (s.stores.filter fun e => !e.2.isTransient))
      rw [commitStores_filter] at h2
      exact h1.trans h2.symm
    · apply commitStores_nodup
      exact ((hσ s.stores).map _).nodup_iff.mpr hn
  constructor
  · unfold commit MS.dropTransient
    simp only [MS.mk.injEq, true_and]
    refine ⟨hhash, ?_⟩
    induction s.stores with
    | nil => rfl
    | cons e l ih =>
      simp only [List.map_cons, List.filter_cons, Sub.isTransient_commit]
      cases e.2.isTransient <;> simp [ih]
  · unfold commit CommitInfo.commitID MS.dropTransient
    simp only [CommitID.mk.injEq, true_and]
    exact hhash

end RootMulti
