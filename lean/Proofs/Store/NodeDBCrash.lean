import Proofs.Store.NodeDBRollback
/-! One IAVL substore around an interrupted `rootmulti.Commit` (C07). -/
set_option linter.unusedSimpArgs false
set_option linter.unusedVariables false
namespace NodeDB
open Amino RootMulti

section crash
variable {H : Bytes → Bytes}

/-- The "version already exists, same hash ⇒ no-op" branch of `SaveVersion`. -/
theorem saveVersion_idempotent (t : MTree) (hv : t.versions.contains (t.version + 1) = true)
    (hr : aget (t.version + 1) t.db.roots = some (hashOpt H t.root)) :
    saveVersion H t = some ({ t with version := t.version + 1, lastSaved := t.root }, hashOpt H t.root, t.version + 1) := by
  unfold saveVersion
  simp only [hv, if_true, hr, Option.getD_some]

/-- What a fresh store object looks like after `LoadVersion(k)` on a disk holding `hist`, `1 ≤ k ≤ |hist|`. -/
def recovered (db : NDB) (k : Int) (r : Option Tree) : MTree :=
  { version := k, root := r, lastSaved := r, versions := loadedVersions (MTree.new db), ndbLatest := 0, persistedTo := k, db := db }

theorem loadStore_recovered (hH : HashOK H) {S : Tree → Prop} {hist : List (Option Tree)} {db : NDB}
    (g : GoodDisk H S hist db) (hok : HistOK S hist) (k : Int) (h1 : 1 ≤ k) (h2 : k ≤ hist.length) :
    ∃ r, histAt hist k = some r ∧ loadStore db k = some (recovered db k r) := by
  obtain ⟨r, hr, hl⟩ := loadVersion_at hH (t0 := MTree.new db) g hok k k h1 h2 (Or.inl rfl)
  exact ⟨r, hr, by simp only [loadStore, hl, Option.map_some]; rfl⟩

theorem mem_loadedVersions {S : Tree → Prop} {hist : List (Option Tree)} {db : NDB} (g : GoodDisk H S hist db) (v : Int) :
    v ∈ loadedVersions (MTree.new db) ↔ 1 ≤ v ∧ v ≤ hist.length := by
  unfold loadedVersions
  rw [mem_versions_fold]
  constructor
  · rintro (h | ⟨e, he, rfl⟩)
    · simp [MTree.new] at h
    · exact g.root_mem he
  · rintro ⟨h1, h2⟩
    exact Or.inr (g.mem_root h1 h2)

/-- Crash **before** this substore's batch reached the disk: the recovered object is a good tree for
the committed history, so re-executing the block saves the same version with the same hash. -/
theorem recover_before (hH : HashOK H) {S : Tree → Prop} (hi : Inj H S) {hist : List (Option Tree)} {db : NDB}
    (g : GoodDisk H S hist db) (hok : HistOK S hist) (hne : hist ≠ []) :
    ∃ r, histAt hist hist.length = some r ∧ loadStore db hist.length = some (recovered db hist.length r) ∧
      r = lastOf hist ∧ GoodTree H S hist (recovered db hist.length r) := by
  have hl1 : 1 ≤ (hist.length : Int) := by
    cases hist with
    | nil => exact absurd rfl hne
    | cons a l => simp; omega
  obtain ⟨r, hr, hl⟩ := loadStore_recovered hH g hok hist.length hl1 (by omega)
  have gt := loadVersion_goodTree g hne hr
  refine ⟨r, hr, hl, gt.lastSaved, ?_⟩
  exact ⟨gt.disk, gt.version, gt.lastSaved, gt.persistedTo, gt.latest, gt.versions⟩

/-- Crash **after** this substore's batch reached the disk (but before the commit info did): the
multistore asks for version `k = |hist|`; the object comes back on version `k` with the committed tree
although version `k+1` is on disk; re-executing the block hits the idempotent branch of `SaveVersion`:
same hash, no write, and the object is again a good tree for the extended history. -/
theorem recover_after (hH : HashOK H) {S : Tree → Prop} (hi : Inj H S) {hist : List (Option Tree)} {db : NDB} (next : Option Tree)
    (g : GoodDisk H S (hist ++ [next]) db) (hok : HistOK S (hist ++ [next])) (hne : hist ≠ []) :
    ∃ r, histAt hist hist.length = some r ∧ r = lastOf hist ∧
      loadStore db hist.length = some (recovered db hist.length r) ∧
      ∃ t', saveVersion H ((recovered db hist.length r).setRoot next) = some (t', hashOpt H next, (hist.length : Int) + 1) ∧
        t'.db = db ∧ t'.root = next ∧ GoodTree H S (hist ++ [next]) t' := by
  have hl1 : 1 ≤ (hist.length : Int) := by
    cases hist with
    | nil => exact absurd rfl hne
    | cons a l => simp; omega
  obtain ⟨r, hr, hl⟩ := loadStore_recovered hH g hok hist.length hl1 (by simp; omega)
  rw [histAt_append] at hr
  have hne' : ¬ ((hist.length : Int) = hist.length + 1) := by omega
  simp only [hne', if_false] at hr
  have hlast : r = lastOf hist := by
    unfold histAt at hr
    unfold lastOf
    simp only [hl1, if_true] at hr
    have : ((hist.length : Int) - 1).toNat = hist.length - 1 := by omega
    rw [this] at hr
    rw [List.getLast?_eq_getElem?, hr]; rfl
  refine ⟨r, hr, hlast, hl, ?_⟩
  have hv : ((recovered db hist.length r).setRoot next).versions.contains (((recovered db hist.length r).setRoot next).version + 1) = true := by
    apply List.contains_iff_mem.mpr
    simp only [recovered, MTree.setRoot]
    exact (mem_loadedVersions g _).mpr ⟨by omega, by simp⟩
  have hroot : aget (((recovered db hist.length r).setRoot next).version + 1) ((recovered db hist.length r).setRoot next).db.roots
      = some (hashOpt H ((recovered db hist.length r).setRoot next).root) := by
    simp only [recovered, MTree.setRoot]
    rw [g.roots, histAt_append]
    simp
  refine ⟨{ (recovered db hist.length r).setRoot next with version := (hist.length : Int) + 1, lastSaved := next }, ?_, rfl, rfl, ?_⟩
  · rw [saveVersion_idempotent _ hv hroot]; rfl
  · constructor
    · exact g
    · simp [recovered, MTree.setRoot]
    · simp [recovered, MTree.setRoot, lastOf_append]
    · simp [recovered, MTree.setRoot]; omega
    · simp only [MTree.latest, recovered, MTree.setRoot, if_true]
      exact g.latestOnDisk
    · intro v hv'
      simp only [recovered, MTree.setRoot] at hv'
      exact ((mem_loadedVersions g v).mp hv').2

end crash
end NodeDB
