import Proofs.Store.IavlOrd
import Proofs.Store.IavlShape
/-!
# IAVL: reads agree with the map model

`get` (index and value, also for absent keys), `has`, `getByIndex`, `traverseInRange` (both
directions, optional bounds, inclusive flag) and stopped traversals.
-/
namespace Iavl.Node
open Iavl.KVs

/-- `Node.get` returns the looked-up value and the rank of the key (number of keys below it),
whether or not the key is present. -/
theorem get_spec (t : Node) (key : Bytes) (ho : Ord t) (hs : Shape t) :
    get t key = (rank key (toList t), lookup key (toList t)) := by
  induction t with
  | leaf k v ver =>
    simp only [get, toList, rank, lookup, List.countP_cons, List.countP_nil, List.find?_cons, List.find?_nil]
    by_cases h1 : k < key
    · have : (k == key) = false := beq_eq_false_iff_ne.mpr (Bytes.ne_of_lt h1)
      simp [h1, this]
    · by_cases h2 : key < k
      · have : (k == key) = false :=
          beq_eq_false_iff_ne.mpr (fun e => Bytes.lt_irrefl _ (e ▸ h2))
        simp [h1, h2, this]
      · have : k = key := by
          rcases Bytes.lt_tri k key with h | h | h
          · exact absurd h h1
          · exact h
          · exact absurd h h2
        subst this
        simp [Bytes.lt_irrefl]
  | inner k hh s l r ver ihl ihr =>
    have hge := ho.right_ge
    have hlt := ho.left_lt
    obtain ⟨hol, hor, _, hk⟩ := ho
    obtain ⟨hsl, hsr, _, hss, _, _⟩ := hs
    simp only [get, toList, rank_append, lookup_append]
    by_cases h1 : key < k
    · rw [if_pos h1, ihl hol hsl]
      have habs : ∀ p ∈ toList r, p.1 ≠ key := fun p hp he =>
        Bytes.lt_irrefl _ (Bytes.lt_of_lt_of_le (he ▸ h1) (hge p hp))
      have hr0 : rank key (toList r) = 0 := rank_eq_zero_of (fun p hp hc =>
        Bytes.lt_irrefl _ (Bytes.lt_trans (Bytes.lt_of_lt_of_le h1 (hge p hp)) hc))
      rw [hr0, lookup_eq_none_of_absent habs]
      simp
    · rw [if_neg h1, ihr hor hsr]
      have hle : k ≤ key := Bytes.not_lt.mp h1
      have habs : ∀ p ∈ toList l, p.1 ≠ key := fun p hp he => h1 (he ▸ hlt p hp)
      have hl0 : rank key (toList l) = (toList l).length :=
        rank_eq_length_of (fun p hp => Bytes.lt_of_lt_of_le (hlt p hp) hle)
      rw [hl0, lookup_eq_none_of_absent habs, ← hsl.size_eq_length, hss]
      simp only [Option.none_or, Prod.mk.injEq, and_true]
      omega

/-- `Node.has` is key membership.  The early `true` on an inner-key match is correct because an
inner key is always the least key of the right subtree. -/
theorem has_spec (t : Node) (key : Bytes) (ho : Ord t) : has t key = contains key (toList t) := by
  induction t with
  | leaf k v ver => simp [has, toList, contains]
  | inner k hh s l r ver ihl ihr =>
    have hge := ho.right_ge
    have hlt := ho.left_lt
    obtain ⟨hol, hor, _, hk⟩ := ho
    simp only [has, toList, contains_append]
    by_cases h0 : k = key
    · rw [if_pos h0]
      obtain ⟨w, hw⟩ := minKey_mem r
      have : contains key (toList r) = true := contains_iff.mpr ⟨w, by rw [← h0, hk]; exact hw⟩
      simp [this]
    · rw [if_neg h0]
      by_cases h1 : key < k
      · rw [if_pos h1, ihl hol]
        have : contains key (toList r) = false := contains_eq_false_of_absent (fun p hp he =>
          Bytes.lt_irrefl _ (Bytes.lt_of_lt_of_le (he ▸ h1) (hge p hp)))
        simp [this]
      · rw [if_neg h1, ihr hor]
        have : contains key (toList l) = false :=
          contains_eq_false_of_absent (fun p hp he => h1 (he ▸ hlt p hp))
        simp [this]

/-- `Node.getByIndex` is positional access into the sorted contents (nothing for negative or too
large indices). -/
theorem getByIndex_spec (t : Node) (i : Int) (hs : Shape t) : getByIndex t i = atIndex (toList t) i := by
  induction t generalizing i with
  | leaf k v ver =>
    simp only [getByIndex, toList, atIndex]
    by_cases h0 : i = 0
    · subst h0; simp
    · rw [if_neg h0]
      by_cases hn : i < 0
      · rw [if_pos hn]
      · rw [if_neg hn]
        have : i.toNat = (i.toNat - 1) + 1 := by omega
        rw [this]; simp
  | inner k hh s l r ver ihl ihr =>
    obtain ⟨hsl, hsr, _, hss, _, _⟩ := hs
    have hlen := hsl.size_eq_length
    simp only [getByIndex, toList]
    by_cases h1 : i < (l.size : Int)
    · rw [if_pos h1, ihl i hsl]
      simp only [atIndex]
      by_cases hn : i < 0
      · simp [hn]
      · rw [if_neg hn, if_neg hn, List.getElem?_append_left (by omega)]
    · rw [if_neg h1, ihr _ hsr]
      simp only [atIndex]
      have hn : ¬ i < 0 := by omega
      have hn' : ¬ i - (l.size : Int) < 0 := by omega
      rw [if_neg hn, if_neg hn', List.getElem?_append_right (by omega)]
      congr 1
      omega

/-- `Node.traverseInRange` lists exactly the entries in range, in the requested direction, for all
bounds (absent, empty, outside the key set, start ≥ end) and both inclusive flags. -/
theorem traverse_spec (t : Node) (s e : Option Bytes) (asc incl : Bool) (ho : Ord t) :
    traverseInRange s e asc incl t = range s e asc incl (toList t) := by
  induction t with
  | leaf k v ver =>
    simp only [traverseInRange, toList, range, inRange, List.filter_cons, List.filter_nil]
    split <;> cases asc <;> simp
  | inner k hh sz l r ver ihl ihr =>
    have hge := ho.right_ge
    have hlt := ho.left_lt
    obtain ⟨hol, hor, _, hk⟩ := ho
    have hleft : (if afterStart s k then traverseInRange s e asc incl l else [])
        = range s e asc incl (toList l) := by
      by_cases ha : afterStart s k = true
      · rw [if_pos ha, ihl hol]
      · rw [if_neg ha]
        symm
        apply range_eq_nil_of
        intro p hp
        cases s with
        | none => simp [afterStart] at ha
        | some s0 =>
          simp only [afterStart, decide_eq_true_eq] at ha
          have : ¬ s0 ≤ p.1 := fun hc =>
            ha (Bytes.lt_of_le_of_lt hc (hlt p hp))
          simp [inRange, startOrAfter, this]
    have hright : (if beforeEnd e incl k then traverseInRange s e asc incl r else [])
        = range s e asc incl (toList r) := by
      by_cases hb : beforeEnd e incl k = true
      · rw [if_pos hb, ihr hor]
      · rw [if_neg hb]
        symm
        apply range_eq_nil_of
        intro p hp
        cases e with
        | none => simp [beforeEnd] at hb
        | some e0 =>
          cases incl with
          | true =>
            simp only [beforeEnd, if_true, decide_eq_true_eq] at hb
            have : ¬ p.1 ≤ e0 := fun hc => hb (Bytes.le_trans (hge p hp) hc)
            simp [inRange, beforeEnd, this]
          | false =>
            simp only [beforeEnd, Bool.false_eq_true, if_false, decide_eq_true_eq] at hb
            have : ¬ p.1 < e0 := fun hc => hb (Bytes.lt_of_le_of_lt (hge p hp) hc)
            simp [inRange, beforeEnd, this]
    simp only [traverseInRange, toList]
    rw [hleft, hright]
    cases asc with
    | true => simp [range_append_asc]
    | false => simp [range_append_desc]

/-! ### stopped traversals -/

theorem takeUntil_append (cb : Bytes → Bytes → Bool) (a b : KVs) :
    takeUntil cb (a ++ b) =
      if (takeUntil cb a).2 then takeUntil cb a
      else ((takeUntil cb a).1 ++ (takeUntil cb b).1, (takeUntil cb b).2) := by
  induction a with
  | nil => simp [takeUntil]
  | cons p rest ih =>
    simp only [List.cons_append, takeUntil]
    by_cases hc : cb p.1 p.2 = true
    · simp [hc]
    · simp only [hc, Bool.false_eq_true, if_false, ih]
      split <;> simp

/-- A traversal whose callback stops sees exactly the prefix of the full traversal up to and
including the entry it stopped on (this is how the store iterator drains a range lazily). -/
theorem traverseStop_spec (t : Node) (s e : Option Bytes) (asc incl : Bool) (cb : Bytes → Bytes → Bool) :
    traverseStop s e asc incl cb t = takeUntil cb (traverseInRange s e asc incl t) := by
  induction t with
  | leaf k v ver =>
    simp only [traverseStop, traverseInRange]
    split
    · simp only [takeUntil]
      split <;> simp_all
    · simp [takeUntil]
  | inner k hh sz l r ver ihl ihr =>
    simp only [traverseStop, traverseInRange]
    cases asc with
    | true =>
      simp only [if_true, takeUntil_append]
      by_cases ha : afterStart s k = true <;> by_cases hb : beforeEnd e incl k = true <;>
        simp [ha, hb, ihl, ihr, takeUntil]
    | false =>
      simp only [Bool.false_eq_true, if_false, takeUntil_append]
      by_cases ha : afterStart s k = true <;> by_cases hb : beforeEnd e incl k = true <;>
        simp [ha, hb, ihl, ihr, takeUntil]

end Iavl.Node
