import Proofs.Store.IavlHeapSave
/-!
# IAVL on the heap: `SaveBranch` and `hashWithCount` keep every representation (C09 stage B)
-/
namespace Iavl.Heap
open Iavl
variable (H : HashIn → Hash)

/-- The children of `t`, as far as sealing the object `c` is concerned, are ready: both child hashes
are filled in correctly and both children are in the DB. -/
def Ready (db : Hash → Option Stored) : Node → Cell → Prop
  | .leaf .., _ => True
  | .inner _ _ _ l r _, c =>
    c.leftHash = some (treeHash H l) ∧ c.rightHash = some (treeHash H r) ∧ InDB H db l ∧ InDB H db r

/-- The tail of `SaveBranch` on one node: `_hash()`, `SaveNode`, drop the child pointers. -/
def sealTail (st : St) (a : Addr) : Option (St × Hash) := do
  let (st, hh) ← hashSelf H st a
  let st ← saveNode st a
  let st ← st.modify a (fun c => { c with leftPtr := none, rightPtr := none })
  some (st, hh)

/-- The argument of the hash function for the root of a pure tree. -/
def hashInOf : Node → HashIn
  | .leaf k v ver => .leaf 0 1 ver k v
  | .inner _ h s l r ver => .inner h s ver (treeHash H l) (treeHash H r)

theorem ofCell_of_rep {P : Addr → Prop} {st : St} {t : Node} {a : Addr} {c : Cell}
    (hrep : Rep H P st t a) (ha : st.heap[a]? = some c) (hready : Ready H st.db t c) :
    Stored.ofCell c = storedOf H t ∧ hashInput c = some (hashInOf H t) := by
  cases t with
  | leaf k v ver =>
    obtain ⟨_, c', hc', h1, h2, h3, h4, h5, _⟩ := hrep
    rw [ha] at hc'; cases hc'
    simp [Stored.ofCell, storedOf, hashInput, hashInOf, h1, h2, h3, h4, h5]
  | inner k h s l r ver =>
    obtain ⟨_, c', hc', h1, h2, h3, h4, h5, _⟩ := hrep
    rw [ha] at hc'; cases hc'
    obtain ⟨r1, r2, _, _⟩ := hready
    have h0 : c.height ≠ 0 := by rw [h2]; exact h3
    simp [Stored.ofCell, storedOf, hashInput, hashInOf, h0, h1, h2, h3, h4, h5, r1, r2]

theorem treeHash_eq_H (t : Node) : treeHash H t = H (hashInOf H t) := by
  cases t <;> rfl

/-- A state that differs from `st` only in the object at `a` (and possibly DB / cache, stated apart). -/
structure HeapAt (a : Addr) (st st' : St) : Prop where
  others : ∀ (x : Addr), x ≠ a → st'.heap[x]? = st.heap[x]?
  len : st'.heap.length = st.heap.length
  roots : st'.roots = st.roots
  csize : st'.cacheSize = st.cacheSize

theorem HeapAt.write (st : St) (a : Addr) (c : Cell) : HeapAt a st (st.write a c) :=
  ⟨fun _ hx => write_other st c hx, write_len st a c, rfl, rfl⟩

theorem HeapAt.refl (st : St) (a : Addr) : HeapAt a st st := ⟨fun _ _ => rfl, rfl, rfl, rfl⟩

theorem HeapAt.trans {a : Addr} {st st1 st2 : St} (h1 : HeapAt a st st1) (h2 : HeapAt a st1 st2) : HeapAt a st st2 :=
  ⟨fun x hx => (h2.others x hx).trans (h1.others x hx), h2.len.trans h1.len, h2.roots.trans h1.roots,
    h2.csize.trans h1.csize⟩

theorem hashSelf_spec {st : St} {a : Addr} {c : Cell} {inp : HashIn} (ha : st.heap[a]? = some c)
    (hinp : hashInput c = some inp) (hhash : c.hash = none ∨ c.hash = some (H inp)) :
    ∃ stA, hashSelf H st a = some (stA, H inp) ∧ stA.heap[a]? = some { c with hash := some (H inp) } ∧
      HeapAt a st stA ∧ stA.db = st.db ∧ stA.cmap = st.cmap := by
  rcases hhash with hn | hs
  · refine ⟨st.write a { c with hash := some (H inp) }, ?_, write_same ha _, HeapAt.write _ _ _, rfl, rfl⟩
    simp [hashSelf, ha, hn, hinp, modify_eq ha]
  · refine ⟨st, ?_, ?_, HeapAt.refl _ _, rfl, rfl⟩
    · simp [hashSelf, ha, hs]
    · rw [ha]; congr 1
      cases c; simp_all

theorem saveNode_spec {st : St} {a : Addr} {c : Cell} {th : Hash} (ha : st.heap[a]? = some c)
    (hh : c.hash = some th) (hnp : c.persisted = false)
    (hkids : c.height ≠ 0 → c.leftHash.isSome ∧ c.rightHash.isSome) :
    ∃ stB, saveNode st a = some stB ∧ stB.heap[a]? = some { c with persisted := true } ∧ HeapAt a st stB ∧
      stB.db = (fun x => if x = th then some (Stored.ofCell c) else st.db x) ∧
      (∀ x b, stB.cmap x = some b → (x = th ∧ b = a) ∨ st.cmap x = some b) := by
  let st1 : St := { st with db := fun x => if x = th then some (Stored.ofCell c) else st.db x }
  have ha1 : st1.heap[a]? = some c := ha
  refine ⟨cacheNode (st1.write a { c with persisted := true }) th a, ?_, ?_, ?_, ?_, ?_⟩
  · have hchk : (c.height ≠ 0 && (c.leftHash.isNone || c.rightHash.isNone)) = false := by
      by_cases h0 : c.height = 0
      · simp [h0]
      · obtain ⟨h1, h2⟩ := hkids h0
        cases hl : c.leftHash <;> cases hr : c.rightHash <;> simp_all
    simp only [saveNode, ha, hh, hnp, Option.bind_eq_bind, Option.bind_some, Bool.false_eq_true, if_false, hchk]
    show (do
      let st ← st1.modify a (fun c => { c with persisted := true })
      some (cacheNode st th a)) = _
    simp only [modify_eq ha1, Option.bind_eq_bind, Option.bind_some, hh]
  · rw [cacheNode_heap]; exact write_same ha1 _
  · refine ⟨fun x hx => ?_, ?_, ?_, ?_⟩
    · rw [cacheNode_heap]; exact write_other st1 _ hx
    · rw [cacheNode_heap]; exact write_len st1 a _
    · rw [cacheNode_roots]; rfl
    · rw [cacheNode_csize]; rfl
  · rw [cacheNode_db]; rfl
  · intro x b hx
    exact cacheNode_cmap (st1.write a { c with persisted := true }) th a x b hx

theorem sealTail_spec (hinj : Function.Injective H) {P : Addr → Prop} {st : St} {t : Node} {a : Addr} {c : Cell}
    (hrep : Rep H P st t a) (ha : st.heap[a]? = some c) (hnp : c.persisted = false)
    (hready : Ready H st.db t c) (ho : t.Ord) (hc : CacheOK st) (hwf : DBWF H st.db) :
    ∃ st', sealTail H st a = some (st', treeHash H t) ∧ RepStable H st st' ∧ Grows st st' ∧
      (∀ (x : Addr), x ≠ a → st'.heap[x]? = st.heap[x]?) ∧ st'.heap.length = st.heap.length ∧
      st'.roots = st.roots ∧ st'.cacheSize = st.cacheSize ∧ CacheOK st' ∧ DBWF H st'.db ∧
      (∃ c', st'.heap[a]? = some c' ∧ c'.persisted = true) := by
  obtain ⟨hof, hinp⟩ := ofCell_of_rep H hrep ha hready
  have hth := treeHash_eq_H H t
  obtain ⟨_, c0, hc0, _, _, _, _, _, hhash, _⟩ := Rep.cell H hrep
  rw [ha] at hc0; cases hc0
  let th := treeHash H t
  let cA : Cell := { c with hash := some th }
  let db' : Hash → Option Stored := fun x => if x = th then some (Stored.ofCell cA) else st.db x
  let cC : Cell := { c with hash := some th, persisted := true, leftPtr := none, rightPtr := none }
  have hofA : Stored.ofCell cA = storedOf H t := by rw [← hof]; simp [Stored.ofCell, cA]
  -- the DB only grows (no clash: same hash ⇒ same ordered tree ⇒ same record)
  have hdbsub : ∀ k s, st.db k = some s → db' k = some s := by
    intro k s hs
    by_cases hk : k = th
    · subst hk
      obtain ⟨t0, e0, s0, _, o0⟩ := hwf _ s hs
      have : t0 = t := treeHash_inj H hinj o0 ho e0
      subst this
      simp only [db', if_true, hofA, s0]
    · simp only [db', if_neg hk, hs]
  -- 1. node._hash()
  obtain ⟨stA, eA, haA, hatA, hdbA, hcmA⟩ := hashSelf_spec H ha hinp (by rw [← hth]; exact hhash)
  rw [← hth] at eA haA
  -- 2. SaveNode
  have hkids : cA.height ≠ 0 → cA.leftHash.isSome ∧ cA.rightHash.isSome := by
    intro h0
    cases t with
    | leaf k v ver =>
      obtain ⟨_, c', hc', _, _, h3, _⟩ := hrep
      rw [ha] at hc'; cases hc'; exact absurd h3 h0
    | inner k h s l r ver =>
      obtain ⟨r1, r2, _, _⟩ := hready
      exact ⟨by show c.leftHash.isSome = true; rw [r1]; rfl, by show c.rightHash.isSome = true; rw [r2]; rfl⟩
  obtain ⟨stB, eB, haB, hatB, hdbB, hcmB⟩ := saveNode_spec (th := th) haA rfl hnp hkids
  -- 3. drop the pointers
  let stC := stB.write a cC
  have eC : stB.modify a (fun c => { c with leftPtr := none, rightPtr := none }) = some stC := modify_eq haB _
  have haC : stC.heap[a]? = some cC := write_same haB cC
  have hatC : HeapAt a st stC := (hatA.trans hatB).trans (HeapAt.write stB a cC)
  have hdbC : stC.db = db' := by
    show stB.db = db'
    rw [hdbB, hdbA]
  have hother : ∀ (x : Addr) (cx : Cell), x ≠ a → st.heap[x]? = some cx → stC.heap[x]? = some cx :=
    fun x cx hx hcx => by rw [hatC.others x hx]; exact hcx
  have hdbsubC : ∀ k s, st.db k = some s → stC.db k = some s := by rw [hdbC]; exact hdbsub
  have hrecC : stC.db th = some (storedOf H t) := by rw [hdbC]; simp only [db', if_true, hofA]
  refine ⟨stC, ?_, ?_, ?_, hatC.others, hatC.len, hatC.roots, hatC.csize, ?_, ?_, ⟨cC, haC, rfl⟩⟩
  · simp only [sealTail, eA, eB, eC, Option.bind_eq_bind, Option.bind_some]
  · -- every representation survives
    refine update_preserves H hrep hother hdbsubC (fun P' hkids' hrep' => ?_)
    cases t with
    | leaf k v ver =>
      obtain ⟨hp, c', hc', h1, h2, h3, h4, h5, h6, h7, _, _⟩ := hrep'
      rw [ha] at hc'; cases hc'
      exact ⟨hp, cC, haC, h1, h2, h3, h4, h5, rfl, rfl, Or.inr rfl, fun _ => ⟨rfl, hrecC⟩⟩
    | inner k h s l r ver =>
      obtain ⟨hp, c', hc', h1, h2, h3, h4, h5, _, _, _, _⟩ := hrep'
      rw [ha] at hc'; cases hc'
      obtain ⟨r1, r2, r3, r4⟩ := hready
      exact ⟨hp, cC, haC, h1, h2, h3, h4, h5, ⟨r1, InDB.mono H hdbsubC r3⟩, ⟨r2, InDB.mono H hdbsubC r4⟩,
        Or.inr rfl, fun _ => ⟨rfl, rfl, rfl, hrecC⟩⟩
  · -- the write-once discipline
    refine ⟨fun x cx hcx => ?_, Nat.le_of_eq hatC.len.symm, hdbsubC⟩
    by_cases hx : x = a
    · subst hx
      rw [ha] at hcx; cases hcx
      refine ⟨cC, haC, ?_⟩
      rcases hhash with hn | hs
      · simp [cellLe, hnp, cC, hn]
      · simp [cellLe, hnp, cC, hs, th]
    · exact ⟨cx, hother x cx hx hcx, cellLe_refl cx⟩
  · -- the cache
    intro hh b hm
    have hm' : (hh = th ∧ b = a) ∨ st.cmap hh = some b := by
      have : stB.cmap hh = some b := hm
      rcases hcmB hh b this with h | h
      · exact Or.inl h
      · rw [hcmA] at h; exact Or.inr h
    rcases hm' with ⟨rfl, rfl⟩ | hold
    · refine ⟨cC, haC, rfl, rfl, rfl, rfl, ?_⟩
      rw [hrecC, ← hofA]; simp [Stored.ofCell, cC, cA]
    · obtain ⟨cb, hcb, hpb, h1, h2, h3, h4⟩ := hc hh b hold
      have hne : b ≠ a := by
        intro e; subst e; rw [ha] at hcb; cases hcb; rw [hnp] at hpb; cases hpb
      exact ⟨cb, hother b cb hne hcb, hpb, h1, h2, h3, hdbsubC _ _ h4⟩
  · -- the DB stays well-formed
    rw [hdbC]
    intro hh s hs
    by_cases hk : hh = th
    · subst hk
      simp only [db', if_true, Option.some.injEq] at hs
      refine ⟨t, rfl, by rw [← hs, hofA], ?_, ho⟩
      cases t with
      | leaf k v ver =>
        show db' _ = _
        simp only [db']; rw [if_pos rfl, hofA]
      | inner k h s' l r ver =>
        obtain ⟨_, _, r3, r4⟩ := hready
        obtain ⟨_, c', hc', _, _, h3, _⟩ := hrep
        exact ⟨h3, by simp only [db']; rw [if_pos rfl, hofA], InDB.mono H hdbsub r3, InDB.mono H hdbsub r4⟩
    · simp only [db', if_neg hk] at hs
      obtain ⟨t0, e0, s0, i0, o0⟩ := hwf hh s hs
      exact ⟨t0, e0, s0, InDB.mono H hdbsub i0, o0⟩

end Iavl.Heap
