import Proofs.Store.IavlHeapSave
/-!
# IAVL on the heap: `SaveBranch` and `hashWithCount` keep every representation (C09 stage B)
-/
namespace Iavl.Heap
open Iavl
variable (H : HashIn → Hash)

/-- The children of `t`, as far as sealing the object `c` is concerned, are ready: both child hashes
are filled in correctly and both children are in the DB. -/
def Ready (db : Hash → Option Stored) : Node → Cell → Prop
  | .leaf .., _ => True
  | .inner _ _ _ l r _, c =>
    c.leftHash = some (treeHash H l) ∧ c.rightHash = some (treeHash H r) ∧ InDB H db l ∧ InDB H db r

/-- The tail of `SaveBranch` on one node: `_hash()`, `SaveNode`, drop the child pointers. -/
def sealTail (st : St) (a : Addr) : Option (St × Hash) := do
  let (st, hh) ← hashSelf H st a
  let st ← saveNode st a
  let st ← st.modify a (fun c => { c with leftPtr := none, rightPtr := none })
  some (st, hh)

/-- The argument of the hash function for the root of a pure tree. -/
def hashInOf : Node → HashIn
  | .leaf k v ver => .leaf 0 1 ver k v
  | .inner _ h s l r ver => .inner h s ver (treeHash H l) (treeHash H r)

theorem ofCell_of_rep {P : Addr → Prop} {st : St} {t : Node} {a : Addr} {c : Cell}
    (hrep : Rep H P st t a) (ha : st.heap[a]? = some c) (hready : Ready H st.db t c) :
    Stored.ofCell c = storedOf H t ∧ hashInput c = some (hashInOf H t) := by
  cases t with
  | leaf k v ver =>
    obtain ⟨_, c', hc', h1, h2, h3, h4, h5, _⟩ := hrep
    rw [ha] at hc'; cases hc'
    simp [Stored.ofCell, storedOf, hashInput, hashInOf, h1, h2, h3, h4, h5]
  | inner k h s l r ver =>
    obtain ⟨_, c', hc', h1, h2, h3, h4, h5, _⟩ := hrep
    rw [ha] at hc'; cases hc'
    obtain ⟨r1, r2, _, _⟩ := hready
    have h0 : c.height ≠ 0 := by rw [h2]; exact h3
    simp [Stored.ofCell, storedOf, hashInput, hashInOf, h0, h1, h2, h3, h4, h5, r1, r2]

theorem treeHash_eq_H (t : Node) : treeHash H t = H (hashInOf H t) := by
  cases t <;> rfl

/-- A state that differs from `st` only in the object at `a` (and possibly DB / cache, stated apart). -/
structure HeapAt (a : Addr) (st st' : St) : Prop where
  others : ∀ (x : Addr), x ≠ a → st'.heap[x]? = st.heap[x]?
  len : st'.heap.length = st.heap.length
  roots : st'.roots = st.roots
  csize : st'.cacheSize = st.cacheSize

theorem HeapAt.write (st : St) (a : Addr) (c : Cell) : HeapAt a st (st.write a c) :=
  ⟨fun _ hx => write_other st c hx, write_len st a c, rfl, rfl⟩

theorem HeapAt.refl (st : St) (a : Addr) : HeapAt a st st := ⟨fun _ _ => rfl, rfl, rfl, rfl⟩

theorem HeapAt.trans {a : Addr} {st st1 st2 : St} (h1 : HeapAt a st st1) (h2 : HeapAt a st1 st2) : HeapAt a st st2 :=
  ⟨fun x hx => (h2.others x hx).trans (h1.others x hx), h2.len.trans h1.len, h2.roots.trans h1.roots,
    h2.csize.trans h1.csize⟩

theorem hashSelf_spec {st : St} {a : Addr} {c : Cell} {inp : HashIn} (ha : st.heap[a]? = some c)
    (hinp : hashInput c = some inp) (hhash : c.hash = none ∨ c.hash = some (H inp)) :
    ∃ stA, hashSelf H st a = some (stA, H inp) ∧ stA.heap[a]? = some { c with hash := some (H inp) } ∧
      HeapAt a st stA ∧ stA.db = st.db ∧ stA.cmap = st.cmap := by
  rcases hhash with hn | hs
  · refine ⟨st.write a { c with hash := some (H inp) }, ?_, write_same ha _, HeapAt.write _ _ _, rfl, rfl⟩
    simp [hashSelf, ha, hn, hinp, modify_eq ha]
  · refine ⟨st, ?_, ?_, HeapAt.refl _ _, rfl, rfl⟩
    · simp [hashSelf, ha, hs]
    · rw [ha]; congr 1
      cases c; simp_all

theorem saveNode_spec {st : St} {a : Addr} {c : Cell} {th : Hash} (ha : st.heap[a]? = some c)
    (hh : c.hash = some th) (hnp : c.persisted = false)
    (hkids : c.height ≠ 0 → c.leftHash.isSome ∧ c.rightHash.isSome) :
    ∃ stB, saveNode st a = some stB ∧ stB.heap[a]? = some { c with persisted := true } ∧ HeapAt a st stB ∧
      stB.db = (fun x => if x = th then some (Stored.ofCell c) else st.db x) ∧
      (∀ x b, stB.cmap x = some b → (x = th ∧ b = a) ∨ st.cmap x = some b) := by
  let st1 : St := { st with db := fun x => if x = th then some (Stored.ofCell c) else st.db x }
  have ha1 : st1.heap[a]? = some c := ha
  refine ⟨cacheNode (st1.write a { c with persisted := true }) th a, ?_, ?_, ?_, ?_, ?_⟩
  · have hchk : (c.height ≠ 0 && (c.leftHash.isNone || c.rightHash.isNone)) = false := by
      by_cases h0 : c.height = 0
      · simp [h0]
      · obtain ⟨h1, h2⟩ := hkids h0
        cases hl : c.leftHash <;> cases hr : c.rightHash <;> simp_all
    simp only [saveNode, ha, hh, hnp, Option.bind_eq_bind, Option.bind_some, Bool.false_eq_true, if_false, hchk]
    show (do
      let st ← st1.modify a (fun c => { c with persisted := true })
      some (cacheNode st th a)) = _
    simp only [modify_eq ha1, Option.bind_eq_bind, Option.bind_some, hh]
  · rw [cacheNode_heap]; exact write_same ha1 _
  · refine ⟨fun x hx => ?_, ?_, ?_, ?_⟩
    · rw [cacheNode_heap]; exact write_other st1 _ hx
    · rw [cacheNode_heap]; exact write_len st1 a _
    · rw [cacheNode_roots]; rfl
    · rw [cacheNode_csize]; rfl
  · rw [cacheNode_db]; rfl
  · intro x b hx
    exact cacheNode_cmap (st1.write a { c with persisted := true }) th a x b hx

theorem sealTail_spec (hinj : Function.Injective H) {P : Addr → Prop} {st : St} {t : Node} {a : Addr} {c : Cell}
    (hrep : Rep H P st t a) (ha : st.heap[a]? = some c) (hnp : c.persisted = false)
    (hready : Ready H st.db t c) (ho : t.Ord) (hc : CacheOK st) (hwf : DBWF H st.db) :
    ∃ st', sealTail H st a = some (st', treeHash H t) ∧ RepStable H st st' ∧ Grows st st' ∧
      (∀ (x : Addr), x ≠ a → st'.heap[x]? = st.heap[x]?) ∧ st'.heap.length = st.heap.length ∧
      st'.roots = st.roots ∧ st'.cacheSize = st.cacheSize ∧ CacheOK st' ∧ DBWF H st'.db ∧
      (∃ c', st'.heap[a]? = some c' ∧ c'.persisted = true) := by
  obtain ⟨hof, hinp⟩ := ofCell_of_rep H hrep ha hready
  have hth := treeHash_eq_H H t
  obtain ⟨_, c0, hc0, _, _, _, _, _, hhash, _⟩ := Rep.cell H hrep
  rw [ha] at hc0; cases hc0
  let th := treeHash H t
  let cA : Cell := { c with hash := some th }
  let db' : Hash → Option Stored := fun x => if x = th then some (Stored.ofCell cA) else st.db x
  let cC : Cell := { c with hash := some th, persisted := true, leftPtr := none, rightPtr := none }
  have hofA : Stored.ofCell cA = storedOf H t := by rw [← hof]; simp [Stored.ofCell, cA]
  -- the DB only grows (no clash: same hash ⇒ same ordered tree ⇒ same record)
  have hdbsub : ∀ k s, st.db k = some s → db' k = some s := by
    intro k s hs
    by_cases hk : k = th
    · subst hk
      obtain ⟨t0, e0, s0, _, o0⟩ := hwf _ s hs
      have : t0 = t := treeHash_inj H hinj o0 ho e0
      subst this
      simp only [db', if_true, hofA, s0]
    · simp only [db', if_neg hk, hs]
  -- 1. node._hash()
  obtain ⟨stA, eA, haA, hatA, hdbA, hcmA⟩ := hashSelf_spec H ha hinp (by rw [← hth]; exact hhash)
  rw [← hth] at eA haA
  -- 2. SaveNode
  have hkids : cA.height ≠ 0 → cA.leftHash.isSome ∧ cA.rightHash.isSome := by
    intro h0
    cases t with
    | leaf k v ver =>
      obtain ⟨_, c', hc', _, _, h3, _⟩ := hrep
      rw [ha] at hc'; cases hc'; exact absurd h3 h0
    | inner k h s l r ver =>
      obtain ⟨r1, r2, _, _⟩ := hready
      exact ⟨by show c.leftHash.isSome = true; rw [r1]; rfl, by show c.rightHash.isSome = true; rw [r2]; rfl⟩
  obtain ⟨stB, eB, haB, hatB, hdbB, hcmB⟩ := saveNode_spec (th := th) haA rfl hnp hkids
  -- 3. drop the pointers
  let stC := stB.write a cC
  have eC : stB.modify a (fun c => { c with leftPtr := none, rightPtr := none }) = some stC := modify_eq haB _
  have haC : stC.heap[a]? = some cC := write_same haB cC
  have hatC : HeapAt a st stC := (hatA.trans hatB).trans (HeapAt.write stB a cC)
  have hdbC : stC.db = db' := by
    show stB.db = db'
    rw [hdbB, hdbA]
  have hother : ∀ (x : Addr) (cx : Cell), x ≠ a → st.heap[x]? = some cx → stC.heap[x]? = some cx :=
    fun x cx hx hcx => by rw [hatC.others x hx]; exact hcx
  have hdbsubC : ∀ k s, st.db k = some s → stC.db k = some s := by rw [hdbC]; exact hdbsub
  have hrecC : stC.db th = some (storedOf H t) := by rw [hdbC]; simp only [db', if_true, hofA]
  refine ⟨stC, ?_, ?_, ?_, hatC.others, hatC.len, hatC.roots, hatC.csize, ?_, ?_, ⟨cC, haC, rfl⟩⟩
  · simp only [sealTail, eA, eB, eC, Option.bind_eq_bind, Option.bind_some]
  · -- every representation survives
    refine update_preserves H hrep hother hdbsubC (fun P' hkids' hrep' => ?_)
    cases t with
    | leaf k v ver =>
      obtain ⟨hp, c', hc', h1, h2, h3, h4, h5, h6, h7, _, _⟩ := hrep'
      rw [ha] at hc'; cases hc'
      exact ⟨hp, cC, haC, h1, h2, h3, h4, h5, rfl, rfl, Or.inr rfl, fun _ => ⟨rfl, hrecC⟩⟩
    | inner k h s l r ver =>
      obtain ⟨hp, c', hc', h1, h2, h3, h4, h5, _, _, _, _⟩ := hrep'
      rw [ha] at hc'; cases hc'
      obtain ⟨r1, r2, r3, r4⟩ := hready
      exact ⟨hp, cC, haC, h1, h2, h3, h4, h5, ⟨r1, InDB.mono H hdbsubC r3⟩, ⟨r2, InDB.mono H hdbsubC r4⟩,
        Or.inr rfl, fun _ => ⟨rfl, rfl, rfl, hrecC⟩⟩
  · -- the write-once discipline
    refine ⟨fun x cx hcx => ?_, Nat.le_of_eq hatC.len.symm, hdbsubC⟩
    by_cases hx : x = a
    · subst hx
      rw [ha] at hcx; cases hcx
      refine ⟨cC, haC, ?_⟩
      rcases hhash with hn | hs
      · simp [cellLe, hnp, cC, hn]
      · simp [cellLe, hnp, cC, hs, th]
    · exact ⟨cx, hother x cx hx hcx, cellLe_refl cx⟩
  · -- the cache
    intro hh b hm
    have hm' : (hh = th ∧ b = a) ∨ st.cmap hh = some b := by
      have : stB.cmap hh = some b := hm
      rcases hcmB hh b this with h | h
      · exact Or.inl h
      · rw [hcmA] at h; exact Or.inr h
    rcases hm' with ⟨rfl, rfl⟩ | hold
    · refine ⟨cC, haC, rfl, rfl, rfl, rfl, ?_⟩
      rw [hrecC, ← hofA]; simp [Stored.ofCell, cC, cA]
    · obtain ⟨cb, hcb, hpb, h1, h2, h3, h4⟩ := hc hh b hold
      have hne : b ≠ a := by
        intro e; subst e; rw [ha] at hcb; cases hcb; rw [hnp] at hpb; cases hpb
      exact ⟨cb, hother b cb hne hcb, hpb, h1, h2, h3, hdbsubC _ _ h4⟩
  · -- the DB stays well-formed
    rw [hdbC]
    intro hh s hs
    by_cases hk : hh = th
    · subst hk
      simp only [db', if_true, Option.some.injEq] at hs
      refine ⟨t, rfl, by rw [← hs, hofA], ?_, ho⟩
      cases t with
      | leaf k v ver =>
        show db' _ = _
        simp only [db']; rw [if_pos rfl, hofA]
      | inner k h s' l r ver =>
        obtain ⟨_, _, r3, r4⟩ := hready
        obtain ⟨_, c', hc', _, _, h3, _⟩ := hrep
        exact ⟨h3, by simp only [db']; rw [if_pos rfl, hofA], InDB.mono H hdbsub r3, InDB.mono H hdbsub r4⟩
    · simp only [db', if_neg hk] at hs
      obtain ⟨t0, e0, s0, i0, o0⟩ := hwf hh s hs
      exact ⟨t0, e0, s0, InDB.mono H hdbsub i0, o0⟩

/-- What hashing and saving do to the state. -/
structure SaveStep (P : Addr → Prop) (st st' : St) : Prop where
  stable : RepStable H st st'
  grows : Grows st st'
  outside : ∀ (x : Addr) (c : Cell), ¬ P x → st.heap[x]? = some c → st'.heap[x]? = some c
  len : st'.heap.length = st.heap.length
  roots : st'.roots = st.roots
  csize : st'.cacheSize = st.cacheSize

theorem SaveStep.refl (P : Addr → Prop) (st : St) : SaveStep H P st st :=
  ⟨RepStable.refl H st, Grows.refl st, fun _ _ _ h => h, rfl, rfl, rfl⟩

theorem SaveStep.trans {P : Addr → Prop} {st st1 st2 : St} (h1 : SaveStep H P st st1) (h2 : SaveStep H P st1 st2) :
    SaveStep H P st st2 :=
  ⟨h1.stable.trans H h2.stable, h1.grows.trans h2.grows,
    fun x c hx hc => h2.outside x c hx (h1.outside x c hx hc), h2.len.trans h1.len, h2.roots.trans h1.roots,
    h2.csize.trans h1.csize⟩

theorem SaveStep.mono {P P' : Addr → Prop} {st st' : St} (h : SaveStep H P st st') (hP : ∀ x, P x → P' x) :
    SaveStep H P' st st' :=
  ⟨h.stable, h.grows, fun x c hx hc => h.outside x c (fun hp => hx (hP x hp)) hc, h.len, h.roots, h.csize⟩

/-- Filling in a correct child hash on an unpersisted object keeps everything. -/
theorem fillHash_step {P : Addr → Prop} {st : St} {a : Addr} {c c' : Cell} {k : Bytes} {h s ver : Nat} {l r : Node}
    (hrep : Rep H P st (.inner k h s l r ver) a) (ha : st.heap[a]? = some c) (hnp : c.persisted = false)
    (hc : CacheOK st)
    (hc' : (c' = { c with leftHash := some (treeHash H l) } ∧ c.leftPtr.isSome) ∨
           (c' = { c with rightHash := some (treeHash H r) } ∧ c.rightPtr.isSome)) :
    SaveStep H P st (st.write a c') ∧ CacheOK (st.write a c') := by
  have hPa : P a := hrep.1
  have hother : ∀ (x : Addr) (cx : Cell), x ≠ a → st.heap[x]? = some cx → (st.write a c').heap[x]? = some cx :=
    fun x cx hx hcx => by rw [write_other st c' hx]; exact hcx
  have hpers : c'.persisted = false := by
    rcases hc' with ⟨rfl, _⟩ | ⟨rfl, _⟩ <;> exact hnp
  refine ⟨⟨?_, ?_, fun x cx hx hcx => hother x cx (fun e => hx (e ▸ hPa)) hcx, write_len _ _ _, rfl, rfl⟩, ?_⟩
  · refine update_preserves H hrep hother (fun _ _ h => h) (fun P' hk hrep' => ?_)
    obtain ⟨hp, c0, hc0, h1, h2, h3, h4, h5, hl, hr, h8, h9⟩ := hrep'
    rw [ha] at hc0; cases hc0
    have hl' : ChildOK (Rep H P' (st.write a c') l) (treeHash H l) (InDB H st.db l) c.leftPtr c.leftHash :=
      hl.imp (fun q hq => hk.1 P' q hq) id
    have hr' : ChildOK (Rep H P' (st.write a c') r) (treeHash H r) (InDB H st.db r) c.rightPtr c.rightHash :=
      hr.imp (fun q hq => hk.2 P' q hq) id
    rcases hc' with ⟨rfl, hsome⟩ | ⟨rfl, hsome⟩
    · refine ⟨hp, _, write_same ha _, h1, h2, h3, h4, h5, ?_, hr', h8, fun hp' => by rw [hnp] at hp'; cases hp'⟩
      cases hq : c.leftPtr with
      | none => rw [hq] at hsome; cases hsome
      | some q =>
        simp only [ChildOK, hq] at hl' ⊢
        exact ⟨hl'.1, Or.inr trivial⟩
    · refine ⟨hp, _, write_same ha _, h1, h2, h3, h4, h5, hl', ?_, h8, fun hp' => by rw [hnp] at hp'; cases hp'⟩
      cases hq : c.rightPtr with
      | none => rw [hq] at hsome; cases hsome
      | some q =>
        simp only [ChildOK, hq] at hr' ⊢
        exact ⟨hr'.1, Or.inr trivial⟩
  · refine ⟨fun x cx hcx => ?_, Nat.le_of_eq (write_len _ _ _).symm, fun _ _ h => h⟩
    by_cases hx : x = a
    · subst hx
      rw [ha] at hcx; cases hcx
      refine ⟨c', write_same ha _, ?_⟩
      obtain ⟨_, c0, hc0, _, _, _, _, _, hl, hr, _, _⟩ := hrep
      rw [ha] at hc0; cases hc0
      rcases hc' with ⟨rfl, hsome⟩ | ⟨rfl, hsome⟩
      · cases hq : c.leftPtr with
        | none => rw [hq] at hsome; cases hsome
        | some q =>
          simp only [ChildOK, hq] at hl
          rcases hl.2 with e | e <;> simp [cellLe, hnp, e, hq]
      · cases hq : c.rightPtr with
        | none => rw [hq] at hsome; cases hsome
        | some q =>
          simp only [ChildOK, hq] at hr
          rcases hr.2 with e | e <;> simp [cellLe, hnp, e, hq]
    · exact ⟨cx, hother x cx hx hcx, cellLe_refl cx⟩
  · refine CacheOK.transfer hc (fun x cx hcx hp => hother x cx (fun e => ?_) hcx) (fun _ _ h => h) (fun _ _ h => h)
    subst e; rw [ha] at hcx; cases hcx; rw [hnp] at hp; cases hp

/-- `if node.leftNode != nil { node.leftHash = ndb.SaveBranch(node.leftNode) }` -/
def saveLeftChild (fuel : Nat) (st : St) (a : Addr) (c : Cell) : Option St :=
  match c.leftPtr with
  | some p => do
    let (st, lh) ← saveBranch H fuel st p
    st.modify a (fun c => { c with leftHash := some lh })
  | none => some st

/-- `if node.rightNode != nil { node.rightHash = ndb.SaveBranch(node.rightNode) }` -/
def saveRightChild (fuel : Nat) (st : St) (a : Addr) (c : Cell) : Option St :=
  match c.rightPtr with
  | some p => do
    let (st, rh) ← saveBranch H fuel st p
    st.modify a (fun c => { c with rightHash := some rh })
  | none => some st

theorem saveBranch_unfold (fuel : Nat) (st : St) (a : Addr) (c : Cell) (ha : st.heap[a]? = some c)
    (hnp : c.persisted = false) :
    saveBranch H (fuel + 1) st a =
      (saveLeftChild H fuel st a c).bind (fun st => (saveRightChild H fuel st a c).bind (fun st => sealTail H st a)) := by
  simp only [saveBranch, ha, hnp, Option.bind_eq_bind, Option.bind_some, Bool.false_eq_true, if_false, sealTail,
    saveLeftChild, saveRightChild]
  cases c.leftPtr <;> cases c.rightPtr <;> simp only [Option.bind_some, Option.bind_assoc] <;> rfl

/-- **`SaveBranch` keeps every representation** (`RepStable`): after it the object is persisted, the
whole tree is in the DB under its Merkle hash, no object outside the footprint was touched, every
object evolved by `cellLe`, and cache / DB invariants hold.  Needs an injective hash and an ordered
tree (the inner key is not hashed). -/
theorem saveBranch_spec (hinj : Function.Injective H) :
    ∀ (t : Node) (fuel : Nat) (P : Addr → Prop) (st : St) (a : Addr), depth t < fuel → Rep H P st t a → t.Ord →
      CacheOK st → DBWF H st.db →
      ∃ st', saveBranch H fuel st a = some (st', treeHash H t) ∧ SaveStep H P st st' ∧ CacheOK st' ∧
        DBWF H st'.db ∧ (∃ c', st'.heap[a]? = some c' ∧ c'.persisted = true) := by
  intro t
  induction t with
  | leaf k v ver =>
    intro fuel P st a hfuel hrep ho hc hwf
    obtain ⟨fuel, rfl⟩ : ∃ f, fuel = f + 1 := ⟨fuel - 1, by omega⟩
    obtain ⟨hPa, c, ha, _, _, _, _, _, hhash, hpers⟩ := Rep.cell H hrep
    cases hp : c.persisted with
    | true =>
      refine ⟨st, ?_, SaveStep.refl H P st, hc, hwf, ⟨c, ha, hp⟩⟩
      simp [saveBranch, ha, hp, (hpers hp).1]
    | false =>
      have hrep0 := hrep
      obtain ⟨_, c0, hc0, _, _, _, _, _, hlp, hrp, _⟩ := hrep0
      rw [ha] at hc0; cases hc0
      obtain ⟨st', e, hst, hgr, hoth, hlen, hroots, hcs, hc', hwf', hfin⟩ :=
        sealTail_spec H hinj hrep ha hp trivial ho hc hwf
      refine ⟨st', ?_, ⟨hst, hgr, fun x cx hx hcx => ?_, hlen, hroots, hcs⟩, hc', hwf', hfin⟩
      · rw [saveBranch_unfold H fuel st a c ha hp]
        simp only [saveLeftChild, saveRightChild, hlp, hrp, Option.bind_some, e]
      · rw [hoth x (fun e => hx (e ▸ hPa))]; exact hcx
  | inner k h s l r ver ihl ihr =>
    intro fuel P st a hfuel hrep ho hc hwf
    obtain ⟨fuel, rfl⟩ : ∃ f, fuel = f + 1 := ⟨fuel - 1, by omega⟩
    have hdl : depth l < fuel := by simp only [depth] at hfuel; omega
    have hdr : depth r < fuel := by simp only [depth] at hfuel; omega
    have hdl' : depth l < depth (.inner k h s l r ver) := by simp only [depth]; omega
    have hdr' : depth r < depth (.inner k h s l r ver) := by simp only [depth]; omega
    obtain ⟨hol, hor, _, _⟩ := ho
    have ho : (Node.inner k h s l r ver).Ord := ⟨hol, hor, by assumption, by assumption⟩
    obtain ⟨hPa, c, ha, _, _, _, _, _, hhash, hpers⟩ := Rep.cell H hrep
    cases hp : c.persisted with
    | true =>
      refine ⟨st, ?_, SaveStep.refl H P st, hc, hwf, ⟨c, ha, hp⟩⟩
      simp [saveBranch, ha, hp, (hpers hp).1]
    | false =>
      let Pa : Addr → Prop := fun x => P x ∧ x ≠ a
      have hPaP : ∀ x, Pa x → P x := fun _ hx => hx.1
      have hnotPa : ¬ Pa a := fun hx => hx.2 rfl
      -- left child
      have hleft : ∃ st2 c2, saveLeftChild H fuel st a c = some st2 ∧ st2.heap[a]? = some c2 ∧
          c2 = { c with leftHash := some (treeHash H l) } ∧ InDB H st2.db l ∧
          SaveStep H P st st2 ∧ CacheOK st2 ∧ DBWF H st2.db := by
        have hrep0 := hrep
        obtain ⟨_, c0, hc0, _, _, _, _, _, hl, _, _, _⟩ := hrep0
        rw [ha] at hc0; cases hc0
        cases hq : c.leftPtr with
        | none =>
          simp only [ChildOK, hq] at hl
          refine ⟨st, c, by simp only [saveLeftChild, hq], ha, ?_, hl.2, SaveStep.refl H P st, hc, hwf⟩
          cases c; simp_all
        | some p =>
          simp only [ChildOK, hq] at hl
          have hrl : Rep H Pa st l p := Rep.avoid H hrep l p hdl' hl.1
          obtain ⟨st1, e1, hs1, hc1, hwf1, cp, hcp, hpp⟩ := ihl fuel Pa st p hdl hrl hol hc hwf
          have ha1 : st1.heap[a]? = some c := hs1.outside a c hnotPa ha
          have hrep1 : Rep H P st1 (.inner k h s l r ver) a := hs1.stable P _ a hrep
          have hrl1 : Rep H Pa st1 l p := hs1.stable Pa l p hrl
          have hindb : InDB H st1.db l := Rep.inDB_of_persisted H hrl1 hcp hpp
          obtain ⟨hs2, hc2⟩ := fillHash_step H (c' := { c with leftHash := some (treeHash H l) }) hrep1 ha1 hp hc1
            (Or.inl ⟨rfl, by rw [hq]; rfl⟩)
          refine ⟨st1.write a { c with leftHash := some (treeHash H l) }, _, ?_, write_same ha1 _, by rw [hq], hindb,
            (hs1.mono H hPaP).trans H hs2, hc2, hwf1⟩
          simp only [saveLeftChild, hq, e1, Option.bind_eq_bind, Option.bind_some, modify_eq ha1]
      obtain ⟨st2, c2, e2, ha2, hc2eq, hindbl, hs2, hc2, hwf2⟩ := hleft
      have hrep2 : Rep H P st2 (.inner k h s l r ver) a := hs2.stable P _ a hrep
      have hp2 : c2.persisted = false := by rw [hc2eq]; exact hp
      -- right child
      have hright : ∃ st4 c4, saveRightChild H fuel st2 a c = some st4 ∧ st4.heap[a]? = some c4 ∧
          c4 = { c2 with rightHash := some (treeHash H r) } ∧ InDB H st4.db r ∧
          SaveStep H P st2 st4 ∧ CacheOK st4 ∧ DBWF H st4.db := by
        have hrep0 := hrep2
        obtain ⟨_, c0, hc0, _, _, _, _, _, _, hr, _, _⟩ := hrep0
        rw [ha2] at hc0; cases hc0
        have hrp : c2.rightPtr = c.rightPtr := by rw [hc2eq]
        have hrh : c2.rightHash = c.rightHash := by rw [hc2eq]
        cases hq : c.rightPtr with
        | none =>
          rw [hrp] at hr
          simp only [ChildOK, hq] at hr
          refine ⟨st2, c2, by simp only [saveRightChild, hq], ha2, ?_, hr.2, SaveStep.refl H P st2, hc2, hwf2⟩
          cases c2; simp_all
        | some p =>
          rw [hrp] at hr
          simp only [ChildOK, hq] at hr
          have hrr : Rep H Pa st2 r p := Rep.avoid H hrep2 r p hdr' hr.1
          obtain ⟨st3, e3, hs3, hc3, hwf3, cp, hcp, hpp⟩ := ihr fuel Pa st2 p hdr hrr hor hc2 hwf2
          have ha3 : st3.heap[a]? = some c2 := hs3.outside a c2 hnotPa ha2
          have hrep3 : Rep H P st3 (.inner k h s l r ver) a := hs3.stable P _ a hrep2
          have hrr3 : Rep H Pa st3 r p := hs3.stable Pa r p hrr
          have hindb : InDB H st3.db r := Rep.inDB_of_persisted H hrr3 hcp hpp
          obtain ⟨hs4, hc4⟩ := fillHash_step H (c' := { c2 with rightHash := some (treeHash H r) }) hrep3 ha3 hp2 hc3
            (Or.inr ⟨rfl, by rw [hrp, hq]; rfl⟩)
          refine ⟨st3.write a { c2 with rightHash := some (treeHash H r) }, _, ?_, write_same ha3 _, rfl, hindb,
            (hs3.mono H hPaP).trans H hs4, hc4, hwf3⟩
          simp only [saveRightChild, hq, e3, Option.bind_eq_bind, Option.bind_some, modify_eq ha3]
      obtain ⟨st4, c4, e4, ha4, hc4eq, hindbr, hs4, hc4, hwf4⟩ := hright
      have hrep4 : Rep H P st4 (.inner k h s l r ver) a := hs4.stable P _ a hrep2
      have hp4 : c4.persisted = false := by rw [hc4eq]; exact hp2
      have hready : Ready H st4.db (.inner k h s l r ver) c4 :=
        ⟨by rw [hc4eq, hc2eq], by rw [hc4eq], InDB.mono H hs4.grows.db hindbl, hindbr⟩
      obtain ⟨st', e, hst, hgr, hoth, hlen, hroots, hcs, hc', hwf', hfin⟩ :=
        sealTail_spec H hinj hrep4 ha4 hp4 hready ho hc4 hwf4
      have hs5 : SaveStep H P st4 st' :=
        ⟨hst, hgr, fun x cx hx hcx => by rw [hoth x (fun e => hx (e ▸ hPa))]; exact hcx, hlen, hroots, hcs⟩
      refine ⟨st', ?_, (hs2.trans H hs4).trans H hs5, hc', hwf', hfin⟩
      rw [saveBranch_unfold H fuel st a c ha hp, e2, Option.bind_some, e4, Option.bind_some, e]

end Iavl.Heap
