import Proofs.Indexer.Store
import Proofs.Num.Elen
/-! Index keys: segments without `/`, injectivity, order, and what lies inside a scan range. -/
namespace Indexer
open Elen

def NoSlash (l : Bytes) : Prop := ∀ b ∈ l, b ≠ slash

theorem NoSlash.append {u v : Bytes} (hu : NoSlash u) (hv : NoSlash v) : NoSlash (u ++ v) := by
  intro b hb
  rcases List.mem_append.mp hb with h | h
  · exact hu b h
  · exact hv b h

/-- Splitting at the first `/` is unique. -/
theorem append_slash_inj : ∀ (u v x y : Bytes), NoSlash u → NoSlash v →
    u ++ slash :: x = v ++ slash :: y → u = v ∧ x = y := by
  intro u
  induction u with
  | nil =>
    intro v x y _ hv h
    cases v with
    | nil => simp at h; exact ⟨rfl, h⟩
    | cons d v =>
      simp at h
      exact absurd h.1.symm (hv d List.mem_cons_self)
  | cons c u ih =>
    intro v x y hu hv h
    cases v with
    | nil =>
      simp at h
      exact absurd h.1 (hu c List.mem_cons_self)
    | cons d v =>
      simp only [List.cons_append, List.cons.injEq] at h
      obtain ⟨hcd, hrest⟩ := h
      obtain ⟨e1, e2⟩ := ih v x y (fun b hb => hu b (List.mem_cons_of_mem _ hb))
        (fun b hb => hv b (List.mem_cons_of_mem _ hb)) hrest
      exact ⟨by rw [hcd, e1], e2⟩

theorem encodeInt_noSlash (n : Nat) : NoSlash (encodeInt n) := encodeInt_no_slash n

/-! ## Hex -/

theorem hexDigit_ne_slash : ∀ n, n < 16 → hexDigitByte n ≠ slash := by decide

theorem hexDigit_inj : ∀ n, n < 16 → ∀ m, m < 16 → hexDigitByte n = hexDigitByte m → n = m := by decide

theorem hexBytes_noSlash (a : Bytes) : NoSlash (hexBytes a) := by
  intro b hb
  unfold hexBytes at hb
  obtain ⟨x, _, hx⟩ := List.mem_flatMap.mp hb
  have h1 : x.toNat / 16 < 16 := by have := x.toNat_lt; omega
  have h2 : x.toNat % 16 < 16 := by omega
  rcases List.mem_cons.mp hx with rfl | hx
  · exact hexDigit_ne_slash _ h1
  · have : b = hexDigitByte (x.toNat % 16) := by simpa using hx
    rw [this]; exact hexDigit_ne_slash _ h2

theorem hexBytes_cons (x : UInt8) (a : Bytes) :
    hexBytes (x :: a) = hexDigitByte (x.toNat / 16) :: hexDigitByte (x.toNat % 16) :: hexBytes a := by
  simp [hexBytes]

theorem hexBytes_inj : ∀ (a b : Bytes), hexBytes a = hexBytes b → a = b := by
  intro a
  induction a with
  | nil =>
    intro b h
    cases b with
    | nil => rfl
    | cons y b => rw [hexBytes_cons] at h; simp [hexBytes] at h
  | cons x a ih =>
    intro b h
    cases b with
    | nil => rw [hexBytes_cons] at h; simp [hexBytes] at h
    | cons y b =>
      rw [hexBytes_cons, hexBytes_cons] at h
      simp only [List.cons.injEq] at h
      obtain ⟨h1, h2, h3⟩ := h
      have hx := x.toNat_lt
      have hy := y.toNat_lt
      have e1 := hexDigit_inj _ (by omega) _ (by omega) h1
      have e2 := hexDigit_inj _ (by omega) _ (by omega) h2
      have : x = y := UInt8.toNat_inj.mp (by omega)
      rw [this, ih b h3]

/-! ## `endKey` -/

theorem dropWhile_noSlash (r rest : Bytes) (hr : NoSlash r) :
    (r ++ slash :: rest).dropWhile (· != slash) = slash :: rest := by
  induction r with
  | nil => simp [List.dropWhile]
  | cons c r ih =>
    have hc : c ≠ slash := hr c List.mem_cons_self
    simp only [List.cons_append, List.dropWhile_cons]
    have : (c != slash) = true := by simp [hc]
    rw [this]
    simp only [if_true]
    exact ih (fun b hb => hr b (List.mem_cons_of_mem _ hb))

theorem dirOf_append (q r : Bytes) (hr : NoSlash r) : dirOf (q ++ slash :: r) = q ++ [slash] := by
  unfold dirOf
  have hrev : NoSlash r.reverse := fun b hb => hr b (List.mem_reverse.mp hb)
  have : (q ++ slash :: r).reverse = r.reverse ++ slash :: q.reverse := by simp
  rw [this, dropWhile_noSlash _ _ hrev]
  simp

/-! ## Pairs `enc h / enc i` -/

/-- `(h, i)` before `(h', i')` in block order. -/
def PosLt (h i h' i' : Nat) : Prop := h < h' ∨ (h = h' ∧ i < i')

theorem posLt_tri (h i h' i' : Nat) : PosLt h i h' i' ∨ (h = h' ∧ i = i') ∨ PosLt h' i' h i := by
  unfold PosLt; omega

theorem pair_slt {h i h' i' : Nat} (hl : PosLt h i h' i') :
    List.SLt (encodeInt h ++ slash :: encodeInt i) (encodeInt h' ++ slash :: encodeInt i') := by
  rcases hl with hl | ⟨rfl, hl⟩
  · exact (encodeInt_slt hl).append _ _
  · exact ((encodeInt_slt hl).cons slash).prepend _

theorem pair_inj {h i h' i' : Nat}
    (e : encodeInt h ++ slash :: encodeInt i = encodeInt h' ++ slash :: encodeInt i') : h = h' ∧ i = i' := by
  obtain ⟨e1, e2⟩ := append_slash_inj _ _ _ _ (encodeInt_noSlash h) (encodeInt_noSlash h') e
  exact ⟨encodeInt_injective e1, encodeInt_injective e2⟩

theorem pair_lt_iff (h i h' i' : Nat) :
    encodeInt h ++ slash :: encodeInt i < encodeInt h' ++ slash :: encodeInt i' ↔ PosLt h i h' i' := by
  constructor
  · intro hlt
    rcases posLt_tri h i h' i' with hp | ⟨rfl, rfl⟩ | hp
    · exact hp
    · exact absurd hlt (Bytes.lt_irrefl _)
    · exact absurd hlt (Bytes.lt_asymm (pair_slt hp).lt)
  · intro hp; exact (pair_slt hp).lt

/-! ## Name spaces and directories -/

theorem txHeightKey_noSlash : NoSlash txHeightKey := by unfold NoSlash; decide
theorem txSignerKey_noSlash : NoSlash txSignerKey := by unfold NoSlash; decide
theorem txRecipientKey_noSlash : NoSlash txRecipientKey := by unfold NoSlash; decide

/-- `"tx."`. -/
def txPrefix : Bytes := [116, 120, 46]

/-- The address name spaces. -/
def IsAddrNs (ns : Bytes) : Prop := ns = txSignerKey ∨ ns = txRecipientKey

theorem IsAddrNs.noSlash {ns : Bytes} (h : IsAddrNs ns) : NoSlash ns := by
  rcases h with rfl | rfl
  · exact txSignerKey_noSlash
  · exact txRecipientKey_noSlash

theorem IsAddrNs.ne_height {ns : Bytes} (h : IsAddrNs ns) : ns ≠ txHeightKey := by
  rcases h with rfl | rfl <;> decide

theorem IsAddrNs.txPrefix {ns : Bytes} (h : IsAddrNs ns) : ∃ r, ns = Indexer.txPrefix ++ r := by
  rcases h with rfl | rfl
  · exact ⟨[115, 105, 103, 110, 101, 114], rfl⟩
  · exact ⟨[114, 101, 99, 105, 112, 105, 101, 110, 116], rfl⟩

/-- `tx.signer/<hex a>/`. -/
def addrDir (ns a : Bytes) : Bytes := ns ++ slash :: (hexBytes a ++ [slash])

/-- `tx.height/<enc h>/`. -/
def heightDir (h : Nat) : Bytes := txHeightKey ++ slash :: (encodeInt h ++ [slash])

theorem keyForAddr_eq (ns a : Bytes) (h i : Nat) :
    keyForAddr ns a h i = addrDir ns a ++ (encodeInt h ++ slash :: encodeInt i) := by
  simp [keyForAddr, addrDir]

theorem keyForHeight_eq (h i : Nat) : keyForHeight h i = heightDir h ++ encodeInt i := by
  simp [keyForHeight, heightDir]

theorem prefixKeyForAddr_eq (ns a : Bytes) : prefixKeyForAddr ns a = addrDir ns a ++ encodeInt 0 := by
  simp [prefixKeyForAddr, addrDir]

theorem prefixKeyForHeight_eq (h : Nat) : prefixKeyForHeight h = heightDir h ++ [] := by
  simp [prefixKeyForHeight, heightDir]

theorem endKey_addr (ns a : Bytes) :
    endKey (prefixKeyForAddr ns a) = addrDir ns a ++ encodeInt maxInt64 := by
  unfold endKey
  have : prefixKeyForAddr ns a = (ns ++ slash :: hexBytes a) ++ slash :: encodeInt 0 := by
    simp [prefixKeyForAddr]
  rw [this, dirOf_append _ _ (encodeInt_noSlash 0)]
  simp [addrDir]

theorem endKey_height (h : Nat) : endKey (prefixKeyForHeight h) = heightDir h ++ encodeInt maxInt64 := by
  unfold endKey
  have : prefixKeyForHeight h = (txHeightKey ++ slash :: encodeInt h) ++ slash :: [] := by
    simp [prefixKeyForHeight]
  rw [this, dirOf_append _ _ (by intro b hb; simp at hb)]
  simp [heightDir]

/-! ## Injectivity -/

theorem keyForAddr_inj {ns ns' a a' : Bytes} {h i h' i' : Nat} (hn : NoSlash ns) (hn' : NoSlash ns')
    (e : keyForAddr ns a h i = keyForAddr ns' a' h' i') : ns = ns' ∧ a = a' ∧ h = h' ∧ i = i' := by
  unfold keyForAddr at e
  obtain ⟨e1, e2⟩ := append_slash_inj _ _ _ _ hn hn' e
  obtain ⟨e3, e4⟩ := append_slash_inj _ _ _ _ (hexBytes_noSlash a) (hexBytes_noSlash a') e2
  obtain ⟨e5, e6⟩ := pair_inj e4
  exact ⟨e1, hexBytes_inj _ _ e3, e5, e6⟩

theorem keyForHeight_inj {h i h' i' : Nat} (e : keyForHeight h i = keyForHeight h' i') : h = h' ∧ i = i' := by
  unfold keyForHeight at e
  obtain ⟨_, e2⟩ := append_slash_inj _ _ _ _ txHeightKey_noSlash txHeightKey_noSlash e
  exact pair_inj e2

theorem keyForAddr_ne_height {ns a : Bytes} {h i h' i' : Nat} (hn : IsAddrNs ns) :
    keyForAddr ns a h i ≠ keyForHeight h' i' := by
  intro e
  unfold keyForAddr keyForHeight at e
  obtain ⟨e1, _⟩ := append_slash_inj _ _ _ _ hn.noSlash txHeightKey_noSlash e
  exact hn.ne_height e1

theorem keyForAddr_txPrefix {ns a : Bytes} {h i : Nat} (hn : IsAddrNs ns) : txPrefix <+: keyForAddr ns a h i := by
  obtain ⟨r, rfl⟩ := hn.txPrefix
  exact ⟨r ++ slash :: (hexBytes a ++ slash :: (encodeInt h ++ slash :: encodeInt i)), by simp [keyForAddr]⟩

theorem keyForHeight_txPrefix {h i : Nat} : txPrefix <+: keyForHeight h i :=
  ⟨[104, 101, 105, 103, 104, 116] ++ slash :: (encodeInt h ++ slash :: encodeInt i), by simp [keyForHeight, txPrefix, txHeightKey]⟩

/-! ## Order of keys within one directory -/

theorem keyForAddr_lt_iff (ns a : Bytes) (h i h' i' : Nat) :
    keyForAddr ns a h i < keyForAddr ns a h' i' ↔ PosLt h i h' i' := by
  rw [keyForAddr_eq, keyForAddr_eq, Bytes.append_lt_append_iff, pair_lt_iff]

theorem keyForHeight_lt_iff (h i i' : Nat) : keyForHeight h i < keyForHeight h i' ↔ i < i' := by
  rw [keyForHeight_eq, keyForHeight_eq, Bytes.append_lt_append_iff]
  constructor
  · intro hlt
    rcases Nat.lt_trichotomy i i' with hh | rfl | hh
    · exact hh
    · exact absurd hlt (Bytes.lt_irrefl _)
    · exact absurd hlt (Bytes.lt_asymm (encodeInt_lt hh))
  · exact encodeInt_lt

/-! ## What a scan range contains -/

theorem addr_key_in_range (ns a : Bytes) {h i : Nat} (hh : h < maxInt64) :
    prefixKeyForAddr ns a ≤ keyForAddr ns a h i ∧ keyForAddr ns a h i < endKey (prefixKeyForAddr ns a) := by
  rw [endKey_addr, prefixKeyForAddr_eq, keyForAddr_eq, Bytes.append_le_append_iff, Bytes.append_lt_append_iff]
  constructor
  · by_cases h0 : h = 0
    · subst h0; exact Bytes.le_append _ _
    · exact Bytes.le_of_lt ((encodeInt_slt (Nat.pos_of_ne_zero h0)).append [] _).lt
  · have := ((encodeInt_slt hh).append (slash :: encodeInt i) []).lt
    simpa using this

theorem height_key_in_range (h : Nat) {i : Nat} (hi : i < maxInt64) :
    prefixKeyForHeight h ≤ keyForHeight h i ∧ keyForHeight h i < endKey (prefixKeyForHeight h) := by
  rw [endKey_height, prefixKeyForHeight_eq, keyForHeight_eq, Bytes.append_le_append_iff, Bytes.append_lt_append_iff]
  exact ⟨by simp, encodeInt_lt hi⟩

/-- A key inside the scan range of `(ns, a)` lies in the directory `ns/<hex a>/`. -/
theorem in_addr_range_dir (ns a k : Bytes) (h1 : prefixKeyForAddr ns a ≤ k)
    (h2 : k < endKey (prefixKeyForAddr ns a)) : ∃ r, k = addrDir ns a ++ r := by
  rw [prefixKeyForAddr_eq] at h1
  rw [endKey_addr] at h2
  exact Bytes.prefix_of_between _ _ _ _ h1 h2

theorem in_height_range_dir (h : Nat) (k : Bytes) (h1 : prefixKeyForHeight h ≤ k)
    (h2 : k < endKey (prefixKeyForHeight h)) : ∃ r, k = heightDir h ++ r := by
  rw [prefixKeyForHeight_eq] at h1
  rw [endKey_height] at h2
  exact Bytes.prefix_of_between _ _ _ _ h1 h2

/-- An address key that lies in the directory of `(ns, a)` is a key of exactly that name space and
address: no neighbouring address (not even one whose hex string extends `a`'s) leaks in. -/
theorem addr_key_in_dir {ns ns' a a' r : Bytes} {h i : Nat} (hn : NoSlash ns) (hn' : NoSlash ns')
    (e : keyForAddr ns' a' h i = addrDir ns a ++ r) : ns' = ns ∧ a' = a := by
  unfold keyForAddr addrDir at e
  have e' : ns' ++ slash :: (hexBytes a' ++ slash :: (encodeInt h ++ slash :: encodeInt i)) =
      ns ++ slash :: (hexBytes a ++ slash :: r) := by simpa using e
  obtain ⟨e1, e2⟩ := append_slash_inj _ _ _ _ hn' hn e'
  obtain ⟨e3, _⟩ := append_slash_inj _ _ _ _ (hexBytes_noSlash a') (hexBytes_noSlash a) e2
  exact ⟨e1, hexBytes_inj _ _ e3⟩

theorem height_key_not_in_addr_dir {ns a r : Bytes} {h i : Nat} (hn : IsAddrNs ns) :
    keyForHeight h i ≠ addrDir ns a ++ r := by
  intro e
  unfold keyForHeight addrDir at e
  have e' : txHeightKey ++ slash :: (encodeInt h ++ slash :: encodeInt i) =
      ns ++ slash :: (hexBytes a ++ slash :: r) := by simpa using e
  obtain ⟨e1, _⟩ := append_slash_inj _ _ _ _ txHeightKey_noSlash hn.noSlash e'
  exact hn.ne_height e1.symm

theorem height_key_in_dir {h h' i : Nat} {r : Bytes} (e : keyForHeight h' i = heightDir h ++ r) : h' = h := by
  unfold keyForHeight heightDir at e
  have e' : txHeightKey ++ slash :: (encodeInt h' ++ slash :: encodeInt i) =
      txHeightKey ++ slash :: (encodeInt h ++ slash :: r) := by simpa using e
  obtain ⟨_, e2⟩ := append_slash_inj _ _ _ _ txHeightKey_noSlash txHeightKey_noSlash e'
  obtain ⟨e3, _⟩ := append_slash_inj _ _ _ _ (encodeInt_noSlash h') (encodeInt_noSlash h) e2
  exact encodeInt_injective e3

theorem addr_key_not_in_height_dir {ns a r : Bytes} {h h' i : Nat} (hn : IsAddrNs ns) :
    keyForAddr ns a h' i ≠ heightDir h ++ r := by
  intro e
  unfold keyForAddr heightDir at e
  have e' : ns ++ slash :: (hexBytes a ++ slash :: (encodeInt h' ++ slash :: encodeInt i)) =
      txHeightKey ++ slash :: (encodeInt h ++ slash :: r) := by simpa using e
  obtain ⟨e1, _⟩ := append_slash_inj _ _ _ _ hn.noSlash txHeightKey_noSlash e'
  exact hn.ne_height e1

theorem addrDir_txPrefix {ns a : Bytes} (hn : IsAddrNs ns) (r : Bytes) : txPrefix <+: addrDir ns a ++ r := by
  obtain ⟨q, rfl⟩ := hn.txPrefix
  exact ⟨q ++ slash :: (hexBytes a ++ [slash]) ++ r, by simp [addrDir]⟩

theorem heightDir_txPrefix (h : Nat) (r : Bytes) : txPrefix <+: heightDir h ++ r :=
  ⟨[104, 101, 105, 103, 104, 116] ++ slash :: (encodeInt h ++ [slash]) ++ r, by simp [heightDir, txPrefix, txHeightKey]⟩

end Indexer
