import PocketModel.Indexer
import Proofs.Basic.Bytes
/-! Byte-string order with common prefixes, and the sorted association list behind the indexer. -/

namespace Bytes

theorem append_lt_append_iff (p a b : Bytes) : p ++ a < p ++ b ↔ a < b := by
  induction p with
  | nil => simp
  | cons x p ih =>
    rw [List.cons_append, List.cons_append, List.cons_lt_cons_iff]
    constructor
    · rintro (h | ⟨_, h⟩)
      · exact absurd h (UInt8.lt_irrefl x)
      · exact ih.mp h
    · intro h; exact Or.inr ⟨rfl, ih.mpr h⟩

theorem append_le_append_iff (p a b : Bytes) : p ++ a ≤ p ++ b ↔ a ≤ b := by
  rw [← Bytes.not_lt, ← Bytes.not_lt, append_lt_append_iff]

theorem le_append (a r : Bytes) : a ≤ a ++ r := by
  have : a ++ [] ≤ a ++ r := (append_le_append_iff a [] r).mpr (by
    cases r with
    | nil => exact Bytes.le_refl _
    | cons x r => exact Bytes.le_of_lt (List.nil_lt_cons x r))
  simpa using this

/-- Everything between two strings with a common prefix has that prefix. -/
theorem prefix_of_between : ∀ (p a b k : Bytes), p ++ a ≤ k → k < p ++ b → ∃ r, k = p ++ r := by
  intro p
  induction p with
  | nil => intro a b k _ _; exact ⟨k, rfl⟩
  | cons x p ih =>
    intro a b k h1 h2
    cases k with
    | nil =>
      exact absurd (List.nil_lt_cons x (p ++ a)) (Bytes.not_lt.mpr h1)
    | cons y k =>
      simp only [List.cons_append] at h1 h2
      rcases List.cons_lt_cons_iff.mp h2 with hyx | ⟨rfl, hk⟩
      · exact absurd (List.cons_lt_cons_iff.mpr (Or.inl hyx)) (Bytes.not_lt.mpr h1)
      · have h1' : p ++ a ≤ k := by
          apply Bytes.not_lt.mp
          intro hlt
          exact (Bytes.not_lt.mpr h1) (List.cons_lt_cons_iff.mpr (Or.inr ⟨rfl, hlt⟩))
        obtain ⟨r, hr⟩ := ih a b k h1' hk
        exact ⟨r, by rw [hr]; rfl⟩

end Bytes

namespace Indexer

/-- Keys strictly ascending. -/
def Sorted (s : Store) : Prop := s.Pairwise (fun a b => a.1 < b.1)

theorem Sorted.tail {hd : Entry} {tl : Store} (h : Sorted (hd :: tl)) : Sorted tl :=
  (List.pairwise_cons.mp h).2

theorem Sorted.head_lt {hd : Entry} {tl : Store} (h : Sorted (hd :: tl)) : ∀ b ∈ tl, hd.1 < b.1 :=
  (List.pairwise_cons.mp h).1

theorem mem_set : ∀ (s : Store), Sorted s → ∀ (k : Bytes) (v : Val) (e : Entry),
    (e ∈ set s k v ↔ e = (k, v) ∨ (e ∈ s ∧ e.1 ≠ k)) := by
  intro s
  induction s with
  | nil => intro _ k v e; simp [set]
  | cons hd tl ih =>
    intro hs k v e
    obtain ⟨k', v'⟩ := hd
    have hlt := hs.head_lt
    unfold set
    by_cases h1 : k < k'
    · simp only [h1, if_true, List.mem_cons]
      constructor
      · rintro (h | h | h)
        · exact Or.inl h
        · subst h; exact Or.inr ⟨Or.inl rfl, fun e => Bytes.lt_irrefl _ (e ▸ h1)⟩
        · refine Or.inr ⟨Or.inr h, fun e => ?_⟩
          have := Bytes.lt_trans h1 (hlt _ h)
          exact Bytes.lt_irrefl _ (e ▸ this)
      · rintro (h | ⟨h | h, _⟩)
        · exact Or.inl h
        · exact Or.inr (Or.inl h)
        · exact Or.inr (Or.inr h)
    · simp only [h1, if_false]
      by_cases h2 : k = k'
      · subst h2
        simp only [if_true, List.mem_cons]
        constructor
        · rintro (h | h)
          · exact Or.inl h
          · exact Or.inr ⟨Or.inr h, fun e => Bytes.lt_irrefl _ (e ▸ hlt _ h)⟩
        · rintro (h | ⟨h | h, hne⟩)
          · exact Or.inl h
          · subst h; exact absurd rfl hne
          · exact Or.inr h
      · simp only [h2, if_false, List.mem_cons]
        rw [ih hs.tail k v e]
        constructor
        · rintro (h | h | ⟨h, hne⟩)
          · subst h; exact Or.inr ⟨Or.inl rfl, fun e => h2 e.symm⟩
          · exact Or.inl h
          · exact Or.inr ⟨Or.inr h, hne⟩
        · rintro (h | ⟨h | h, hne⟩)
          · exact Or.inr (Or.inl h)
          · exact Or.inl h
          · exact Or.inr (Or.inr ⟨h, hne⟩)

theorem set_sorted : ∀ (s : Store), Sorted s → ∀ (k : Bytes) (v : Val), Sorted (set s k v) := by
  intro s
  induction s with
  | nil => intro _ k v; simp [set, Sorted]
  | cons hd tl ih =>
    intro hs k v
    obtain ⟨k', v'⟩ := hd
    have hlt := hs.head_lt
    unfold set
    by_cases h1 : k < k'
    · simp only [h1, if_true]
      refine List.pairwise_cons.mpr ⟨?_, hs⟩
      intro b hb
      rcases List.mem_cons.mp hb with rfl | hb
      · exact h1
      · exact Bytes.lt_trans h1 (hlt b hb)
    · simp only [h1, if_false]
      by_cases h2 : k = k'
      · subst h2
        simp only [if_true]
        exact List.pairwise_cons.mpr ⟨hlt, hs.tail⟩
      · simp only [h2, if_false]
        refine List.pairwise_cons.mpr ⟨?_, ih hs.tail k v⟩
        intro b hb
        rcases (mem_set tl hs.tail k v b).mp hb with rfl | ⟨hb, _⟩
        · rcases Bytes.lt_tri k k' with h | h | h
          · exact absurd h h1
          · exact absurd h h2
          · exact h
        · exact hlt b hb

theorem lookup_eq_some : ∀ (s : Store), Sorted s → ∀ (k : Bytes) (v : Val),
    (lookup s k = some v ↔ (k, v) ∈ s) := by
  intro s
  induction s with
  | nil => intro _ k v; simp [lookup]
  | cons hd tl ih =>
    intro hs k v
    obtain ⟨k', v'⟩ := hd
    unfold lookup
    by_cases h : k = k'
    · subst h
      simp only [if_true, List.mem_cons]
      constructor
      · intro e; injection e with e; subst e; exact Or.inl rfl
      · rintro (e | e)
        · injection e with _ e; rw [e]
        · exact absurd (hs.head_lt _ e) (Bytes.lt_irrefl _)
    · simp only [h, if_false, List.mem_cons]
      rw [ih hs.tail k v]
      constructor
      · exact Or.inr
      · rintro (e | e)
        · injection e with e _; exact absurd e h
        · exact e

theorem lookup_eq_none : ∀ (s : Store) (k : Bytes), (∀ e ∈ s, e.1 ≠ k) → lookup s k = none := by
  intro s
  induction s with
  | nil => intro k _; rfl
  | cons hd tl ih =>
    intro k h
    obtain ⟨k', v'⟩ := hd
    unfold lookup
    have : k ≠ k' := fun e => h (k', v') List.mem_cons_self e.symm
    simp only [this, if_false]
    exact ih k (fun e he => h e (List.mem_cons_of_mem _ he))

theorem applyWrites_sorted : ∀ (ws : List Entry) (s : Store), Sorted s → Sorted (applyWrites s ws) := by
  intro ws
  induction ws with
  | nil => intro s h; exact h
  | cons w ws ih =>
    intro s h
    unfold applyWrites
    simp only [List.foldl_cons]
    exact ih _ (set_sorted s h w.1 w.2)

/-- With pairwise distinct keys (also distinct from the keys already present) every write survives:
the store is the union. -/
theorem mem_applyWrites : ∀ (ws : List Entry) (s : Store), Sorted s →
    ws.Pairwise (fun a b => a.1 ≠ b.1) → (∀ w ∈ ws, ∀ e ∈ s, w.1 ≠ e.1) →
    ∀ e, (e ∈ applyWrites s ws ↔ e ∈ s ∨ e ∈ ws) := by
  intro ws
  induction ws with
  | nil => intro s _ _ _ e; simp [applyWrites]
  | cons w ws ih =>
    intro s hs hp hd e
    obtain ⟨hw, hp'⟩ := List.pairwise_cons.mp hp
    have hstep : applyWrites s (w :: ws) = applyWrites (set s w.1 w.2) ws := by
      simp [applyWrites]
    rw [hstep]
    have hd' : ∀ w' ∈ ws, ∀ e ∈ set s w.1 w.2, w'.1 ≠ e.1 := by
      intro w' hw' e he
      rcases (mem_set s hs w.1 w.2 e).mp he with rfl | ⟨he, _⟩
      · exact fun eq => hw w' hw' eq.symm
      · exact hd w' (List.mem_cons_of_mem _ hw') e he
    rw [ih (set s w.1 w.2) (set_sorted s hs w.1 w.2) hp' hd' e, mem_set s hs w.1 w.2 e]
    constructor
    · rintro ((h | ⟨h, _⟩) | h)
      · exact Or.inr (by rw [h]; exact List.mem_cons_self)
      · exact Or.inl h
      · exact Or.inr (List.mem_cons_of_mem _ h)
    · rintro (h | h)
      · exact Or.inl (Or.inr ⟨h, fun eq => hd w List.mem_cons_self e h eq.symm⟩)
      · rcases List.mem_cons.mp h with rfl | h
        · exact Or.inl (Or.inl rfl)
        · exact Or.inr h

theorem iterator_sorted (s : Store) (hs : Sorted s) (lo hi : Bytes) : Sorted (iterator s lo hi) :=
  List.Pairwise.sublist List.filter_sublist hs

theorem mem_iterator (s : Store) (lo hi : Bytes) (e : Entry) :
    e ∈ iterator s lo hi ↔ e ∈ s ∧ lo ≤ e.1 ∧ e.1 < hi := by
  unfold iterator
  simp [List.mem_filter]

end Indexer
