import Proofs.Indexer.Keys
/-! The indexer as a whole: contents of the database after any sequence of `Index`/`AddBatch`,
exact scan ranges, lookup by hash, the pagination loop in closed form, and the search theorems. -/
namespace Indexer
open Elen

instance : Inhabited TxRes := ⟨⟨0, 0, [], none, none, false⟩⟩

/-- The results that are indexed at all (ante-handler level failures are skipped). -/
def indexed (txs : List TxRes) : List TxRes := txs.filter fun t => !t.anteFail

/-- The database after the given results went through `Index`/`AddBatch` (in any grouping). -/
def build (txs : List TxRes) : Store := addBatch [] txs

theorem applyWrites_append (s : Store) (a b : List Entry) :
    applyWrites s (a ++ b) = applyWrites (applyWrites s a) b := by
  simp [applyWrites, List.foldl_append]

theorem writes_append (a b : List TxRes) : writes (a ++ b) = writes a ++ writes b := by
  simp [writes]

/-- `AddBatch` of a concatenation = two `AddBatch`es; `Index` = `AddBatch` of one. -/
theorem addBatch_append (s : Store) (a b : List TxRes) : addBatch s (a ++ b) = addBatch (addBatch s a) b := by
  simp [addBatch, writes_append, applyWrites_append]

theorem index_eq_addBatch (s : Store) (t : TxRes) : index s t = addBatch s [t] := rfl

/-! ## Key kinds -/

inductive KeyKind where
  | addr (ns a : Bytes) (h i : Nat)
  | height (h i : Nat)
  | hash (b : Bytes)
deriving DecidableEq

def KeyKind.key : KeyKind → Bytes
  | .addr ns a h i => keyForAddr ns a h i
  | .height h i => keyForHeight h i
  | .hash b => b

def KeyKind.WF : KeyKind → Prop
  | .addr ns _ _ _ => IsAddrNs ns
  | .height _ _ => True
  | .hash b => b ≠ [] ∧ ¬ txPrefix <+: b

theorem keyKind_inj {k1 k2 : KeyKind} (w1 : k1.WF) (w2 : k2.WF) (e : k1.key = k2.key) : k1 = k2 := by
  cases k1 with
  | addr ns a h i =>
    cases k2 with
    | addr ns' a' h' i' =>
      obtain ⟨rfl, rfl, rfl, rfl⟩ := keyForAddr_inj (IsAddrNs.noSlash w1) (IsAddrNs.noSlash w2) e
      rfl
    | height h' i' => exact absurd e (keyForAddr_ne_height w1)
    | hash b =>
      simp only [KeyKind.key] at e
      exact absurd (e ▸ keyForAddr_txPrefix w1) w2.2
  | height h i =>
    cases k2 with
    | addr ns' a' h' i' => exact absurd e.symm (keyForAddr_ne_height w2)
    | height h' i' =>
      obtain ⟨rfl, rfl⟩ := keyForHeight_inj e
      rfl
    | hash b =>
      simp only [KeyKind.key] at e
      exact absurd (e ▸ keyForHeight_txPrefix) w2.2
  | hash b =>
    cases k2 with
    | addr ns' a' h' i' =>
      simp only [KeyKind.key] at e
      exact absurd (e.symm ▸ keyForAddr_txPrefix w2) w1.2
    | height h' i' =>
      simp only [KeyKind.key] at e
      exact absurd (e.symm ▸ keyForHeight_txPrefix) w1.2
    | hash b' => simp only [KeyKind.key] at e; rw [e]

/-- The keys one result writes. -/
def kindsOf (t : TxRes) : List KeyKind :=
  (match t.signer with | some a => [KeyKind.addr txSignerKey a t.height t.index] | none => []) ++
  (match t.recipient with | some a => [KeyKind.addr txRecipientKey a t.height t.index] | none => []) ++
  [KeyKind.height t.height t.index, KeyKind.hash t.hash]

def valOf (t : TxRes) : KeyKind → Val
  | .hash _ => .result t
  | _ => .idx t.hash

theorem entriesOf_eq (t : TxRes) : entriesOf t = (kindsOf t).map fun k => (k.key, valOf t k) := by
  unfold entriesOf kindsOf
  cases t.signer <;> cases t.recipient <;> simp [KeyKind.key, valOf]

theorem mem_kindsOf (t : TxRes) (k : KeyKind) :
    k ∈ kindsOf t ↔ (∃ a, t.signer = some a ∧ k = .addr txSignerKey a t.height t.index) ∨
      (∃ a, t.recipient = some a ∧ k = .addr txRecipientKey a t.height t.index) ∨
      k = .height t.height t.index ∨ k = .hash t.hash := by
  unfold kindsOf
  cases hs : t.signer <;> cases hr : t.recipient <;> simp

theorem signer_ne_recipient : txSignerKey ≠ txRecipientKey := by decide

theorem kindsOf_nodup (t : TxRes) : (kindsOf t).Nodup := by
  unfold kindsOf
  cases t.signer <;> cases t.recipient <;> simp [signer_ne_recipient]

/-- Preconditions of the search theorems. -/
structure Good (txs : List TxRes) : Prop where
  distinct : (indexed txs).Pairwise fun a b => a.hash ≠ b.hash ∧ ¬ (a.height = b.height ∧ a.index = b.index)
  hashOK : ∀ t ∈ indexed txs, t.hash ≠ [] ∧ ¬ txPrefix <+: t.hash
  bound : ∀ t ∈ indexed txs, t.height < maxInt64 ∧ t.index < maxInt64

theorem kindsOf_wf {t : TxRes} (h : t.hash ≠ [] ∧ ¬ txPrefix <+: t.hash) : ∀ k ∈ kindsOf t, k.WF := by
  intro k hk
  rcases (mem_kindsOf t k).mp hk with ⟨a, _, rfl⟩ | ⟨a, _, rfl⟩ | rfl | rfl
  · exact Or.inl rfl
  · exact Or.inr rfl
  · trivial
  · exact h

theorem kinds_disjoint {t1 t2 : TxRes} (hd : t1.hash ≠ t2.hash ∧ ¬ (t1.height = t2.height ∧ t1.index = t2.index)) :
    ∀ x ∈ kindsOf t1, ∀ y ∈ kindsOf t2, x ≠ y := by
  intro x hx y hy e
  subst e
  rcases (mem_kindsOf t1 x).mp hx with ⟨a, _, rfl⟩ | ⟨a, _, rfl⟩ | rfl | rfl <;>
  rcases (mem_kindsOf t2 _).mp hy with ⟨b, _, e⟩ | ⟨b, _, e⟩ | e | e <;>
  first
  | (injection e with _ _ e1 e2; exact hd.2 ⟨e1, e2⟩)
  | (injection e with e1 e2; exact hd.2 ⟨e1, e2⟩)
  | (injection e with e1; exact hd.1 e1)
  | cases e

/-- The entries of one result, by key kind. -/
def entriesK (t : TxRes) : List Entry := (kindsOf t).map fun k => (k.key, valOf t k)

theorem writes_eq (txs : List TxRes) : writes txs = (indexed txs).flatMap entriesK := by
  induction txs with
  | nil => rfl
  | cons t ts ih =>
    have hcons : writes (t :: ts) = (if t.anteFail then [] else entriesOf t) ++ writes ts := by
      simp [writes]
    rw [hcons, ih]
    unfold indexed
    by_cases h : t.anteFail = true
    · simp [h, List.filter_cons]
    · have h' : t.anteFail = false := by simpa using h
      simp [h', List.filter_cons, entriesK, entriesOf_eq]

theorem entriesK_pairwise {t : TxRes} (h : t.hash ≠ [] ∧ ¬ txPrefix <+: t.hash) :
    (entriesK t).Pairwise fun a b => a.1 ≠ b.1 := by
  unfold entriesK
  rw [List.pairwise_map]
  refine List.Pairwise.imp_of_mem ?_ (kindsOf_nodup t)
  intro k1 k2 h1 h2 hne e
  exact hne (keyKind_inj (kindsOf_wf h k1 h1) (kindsOf_wf h k2 h2) e)

theorem writes_keys_pairwise {txs : List TxRes} (hg : Good txs) :
    (writes txs).Pairwise fun a b => a.1 ≠ b.1 := by
  rw [writes_eq, List.pairwise_flatMap]
  refine ⟨fun t ht => entriesK_pairwise (hg.hashOK t ht), ?_⟩
  refine List.Pairwise.imp_of_mem ?_ hg.distinct
  intro t1 t2 h1 h2 hd x hx y hy e
  unfold entriesK at hx hy
  obtain ⟨k1, hk1, rfl⟩ := List.mem_map.mp hx
  obtain ⟨k2, hk2, rfl⟩ := List.mem_map.mp hy
  have := keyKind_inj (kindsOf_wf (hg.hashOK t1 h1) k1 hk1) (kindsOf_wf (hg.hashOK t2 h2) k2 hk2) e
  exact kinds_disjoint hd k1 hk1 k2 hk2 this

theorem build_sorted (txs : List TxRes) : Sorted (build txs) :=
  applyWrites_sorted _ [] (by simp [Sorted])

/-- The database holds exactly the entries of the indexed results. -/
theorem mem_build {txs : List TxRes} (hg : Good txs) (e : Entry) :
    e ∈ build txs ↔ ∃ t ∈ indexed txs, ∃ k ∈ kindsOf t, e = (k.key, valOf t k) := by
  unfold build addBatch
  rw [mem_applyWrites (writes txs) [] (by simp [Sorted]) (writes_keys_pairwise hg) (by simp) e, writes_eq]
  simp only [List.not_mem_nil, false_or, List.mem_flatMap, entriesK, List.mem_map]
  constructor
  · rintro ⟨t, ht, k, hk, rfl⟩; exact ⟨t, ht, k, hk, rfl⟩
  · rintro ⟨t, ht, k, hk, rfl⟩; exact ⟨t, ht, k, hk, rfl⟩

/-! ## Lookup by hash -/

theorem get_indexed {txs : List TxRes} (hg : Good txs) {t : TxRes} (ht : t ∈ indexed txs) :
    get (build txs) t.hash = .ok (some t) := by
  unfold get
  have hne := (hg.hashOK t ht).1
  rw [if_neg hne]
  have : lookup (build txs) t.hash = some (.result t) := by
    rw [lookup_eq_some _ (build_sorted txs)]
    exact (mem_build hg _).mpr ⟨t, ht, .hash t.hash, by rw [mem_kindsOf]; simp, rfl⟩
  rw [this]

theorem get_absent {txs : List TxRes} (hg : Good txs) {hash : Bytes} (hne : hash ≠ [])
    (hnt : ¬ txPrefix <+: hash) (hno : ∀ t ∈ indexed txs, t.hash ≠ hash) :
    get (build txs) hash = .ok none := by
  unfold get
  rw [if_neg hne]
  have : lookup (build txs) hash = none := by
    apply lookup_eq_none
    intro e he heq
    obtain ⟨t, ht, k, hk, rfl⟩ := (mem_build hg e).mp he
    rcases (mem_kindsOf t k).mp hk with ⟨a, _, rfl⟩ | ⟨a, _, rfl⟩ | rfl | rfl
    · exact hnt (heq ▸ keyForAddr_txPrefix (Or.inl rfl))
    · exact hnt (heq ▸ keyForAddr_txPrefix (Or.inr rfl))
    · exact hnt (heq ▸ keyForHeight_txPrefix)
    · exact hno t ht heq
  rw [this]

/-! ## Exact scan ranges -/

/-- Which field of a result an address name space indexes. -/
def addrField (ns : Bytes) (t : TxRes) : Option Bytes :=
  if ns = txSignerKey then t.signer else t.recipient

theorem addr_range_exact {txs : List TxRes} (hg : Good txs) {ns : Bytes} (hn : IsAddrNs ns) (a : Bytes)
    (e : Entry) :
    e ∈ iterator (build txs) (prefixKeyForAddr ns a) (endKey (prefixKeyForAddr ns a)) ↔
      ∃ t ∈ indexed txs, addrField ns t = some a ∧ e = (keyForAddr ns a t.height t.index, Val.idx t.hash) := by
  rw [mem_iterator]
  constructor
  · rintro ⟨he, h1, h2⟩
    obtain ⟨r, hr⟩ := in_addr_range_dir ns a e.1 h1 h2
    obtain ⟨t, ht, k, hk, rfl⟩ := (mem_build hg e).mp he
    refine ⟨t, ht, ?_⟩
    rcases (mem_kindsOf t k).mp hk with ⟨a', hs, rfl⟩ | ⟨a', hs, rfl⟩ | rfl | rfl
    · obtain ⟨e1, e2⟩ := addr_key_in_dir hn.noSlash txSignerKey_noSlash hr
      subst e1 e2
      exact ⟨by simp [addrField, hs], rfl⟩
    · obtain ⟨e1, e2⟩ := addr_key_in_dir hn.noSlash txRecipientKey_noSlash hr
      subst e1 e2
      exact ⟨by simp [addrField, hs, signer_ne_recipient.symm], rfl⟩
    · exact absurd hr (height_key_not_in_addr_dir hn)
    · simp only [KeyKind.key] at hr
      exact absurd (hr ▸ addrDir_txPrefix hn r) (hg.hashOK t ht).2
  · rintro ⟨t, ht, hf, rfl⟩
    have hk : KeyKind.addr ns a t.height t.index ∈ kindsOf t := by
      rw [mem_kindsOf]
      rcases hn with rfl | rfl
      · exact Or.inl ⟨a, by simpa [addrField] using hf, rfl⟩
      · exact Or.inr (Or.inl ⟨a, by simpa [addrField, signer_ne_recipient.symm] using hf, rfl⟩)
    refine ⟨(mem_build hg _).mpr ⟨t, ht, _, hk, rfl⟩, ?_⟩
    exact addr_key_in_range ns a (hg.bound t ht).1

theorem height_range_exact {txs : List TxRes} (hg : Good txs) (h : Nat) (e : Entry) :
    e ∈ iterator (build txs) (prefixKeyForHeight h) (endKey (prefixKeyForHeight h)) ↔
      ∃ t ∈ indexed txs, t.height = h ∧ e = (keyForHeight h t.index, Val.idx t.hash) := by
  rw [mem_iterator]
  constructor
  · rintro ⟨he, h1, h2⟩
    obtain ⟨r, hr⟩ := in_height_range_dir h e.1 h1 h2
    obtain ⟨t, ht, k, hk, rfl⟩ := (mem_build hg e).mp he
    refine ⟨t, ht, ?_⟩
    rcases (mem_kindsOf t k).mp hk with ⟨a', hs, rfl⟩ | ⟨a', hs, rfl⟩ | rfl | rfl
    · exact absurd hr (addr_key_not_in_height_dir (Or.inl rfl))
    · exact absurd hr (addr_key_not_in_height_dir (Or.inr rfl))
    · have := height_key_in_dir hr
      subst this
      exact ⟨rfl, rfl⟩
    · simp only [KeyKind.key] at hr
      exact absurd (hr ▸ heightDir_txPrefix h r) (hg.hashOK t ht).2
  · rintro ⟨t, ht, rfl, rfl⟩
    refine ⟨(mem_build hg _).mpr ⟨t, ht, .height t.height t.index, by rw [mem_kindsOf]; simp, rfl⟩, ?_⟩
    exact height_key_in_range t.height (hg.bound t ht).2

end Indexer
