import Proofs.Indexer.Search
import Proofs.Session
/-! The pagination loop of `getByPrefix` in closed form and the search theorems. -/
namespace Indexer
open Elen

/-- The loop of `getByPrefix`: when every `Get` succeeds it returns the page
`take size (drop skip es)` and counts every position. -/
theorem pageLoop_closed (s : Store) (skip size : Int) (f : Entry → Option TxRes) :
    ∀ (es : List Entry) (i sc : Nat), (∀ e ∈ es, getEntry s e = .ok (f e)) →
      pageLoop s skip size es i sc =
        .ok (((es.drop (skip - sc).toNat).take (size - i).toNat).map f, es.length) := by
  intro es
  induction es with
  | nil => intro i sc _; simp [pageLoop]
  | cons e es ih =>
    intro i sc hall
    have hall' : ∀ e ∈ es, getEntry s e = .ok (f e) := fun x hx => hall x (List.mem_cons_of_mem _ hx)
    unfold pageLoop
    by_cases h1 : (sc : Int) < skip
    · rw [if_pos h1, ih i (sc + 1) hall']
      have e1 : (skip - (sc : Int)).toNat = (skip - ((sc + 1 : Nat) : Int)).toNat + 1 := by
        push_cast; omega
      simp only [e1, List.drop_succ_cons, List.length_cons]
    · rw [if_neg h1, hall e List.mem_cons_self]
      simp only
      rw [ih (i + 1) sc hall']
      have e0 : (skip - (sc : Int)).toNat = 0 := by omega
      simp only [e0, List.drop_zero, List.length_cons]
      by_cases h2 : (i : Int) < size
      · have e2 : (size - (i : Int)).toNat = (size - ((i + 1 : Nat) : Int)).toNat + 1 := by
          push_cast; omega
        rw [if_pos h2, e2]
        simp
      · have e2 : (size - (i : Int)).toNat = 0 := by omega
        have e3 : (size - ((i + 1 : Nat) : Int)).toNat = 0 := by push_cast; omega
        rw [if_neg h2, e2, e3]
        simp

/-- The result an iterator position stands for. -/
def txOf (s : Store) (e : Entry) : TxRes :=
  match getEntry s e with
  | .ok (some t) => t
  | _ => default

/-- The `Size > maxPerPage` clamp of `Search`. -/
def clampSize (size : Int) : Int := if size > maxPerPage then maxPerPage else size

/-- The entries of a scan in the direction of the iterator. -/
def scan (s : Store) (pre : Bytes) : Dir → List Entry
  | .forward => iterator s pre (endKey pre)
  | .reverse => reverseIterator s pre (endKey pre)

theorem getByPrefix_closed (m : SortArg → Option Dir) (s : Store) (pre : Bytes) (sort : SortArg) (dir : Dir)
    (hm : m sort = some dir) (skip size : Int)
    (hall : ∀ e ∈ iterator s pre (endKey pre), ∃ t, getEntry s e = .ok (some t)) :
    getByPrefix m s pre sort skip size =
      .ok (((((scan s pre dir).map (txOf s)).drop skip.toNat).take (clampSize size).toNat).map some,
        ((scan s pre dir).map (txOf s)).length) := by
  have hall' : ∀ e ∈ scan s pre dir, getEntry s e = .ok ((fun e => some (txOf s e)) e) := by
    intro e he
    have he' : e ∈ iterator s pre (endKey pre) := by
      cases dir with
      | forward => exact he
      | reverse => exact List.mem_reverse.mp he
    obtain ⟨t, ht⟩ := hall e he'
    simp only [txOf, ht]
  unfold getByPrefix prefixIterator
  rw [hm]
  cases dir with
  | forward =>
    have h := pageLoop_closed s skip (clampSize size) (fun e => some (txOf s e)) (scan s pre .forward) 0 0 hall'
    simp only [scan, clampSize] at h ⊢
    rw [h]
    simp [List.map_drop, List.map_take, Function.comp_def]
  | reverse =>
    have h := pageLoop_closed s skip (clampSize size) (fun e => some (txOf s e)) (scan s pre .reverse) 0 0 hall'
    simp only [scan, clampSize] at h ⊢
    rw [h]
    simp [List.map_drop, List.map_take, Function.comp_def]

/-- Block order of two results, in the direction of a scan. -/
def DirOrder : Dir → TxRes → TxRes → Prop
  | .forward, x, y => PosLt x.height x.index y.height y.index
  | .reverse, x, y => PosLt y.height y.index x.height x.index

theorem getEntry_addr {txs : List TxRes} (hg : Good txs) {t : TxRes} (ht : t ∈ indexed txs) (k : Bytes) :
    getEntry (build txs) (k, Val.idx t.hash) = .ok (some t) := by
  unfold getEntry
  exact get_indexed hg ht

/-- Search by sender or recipient: the full result list behind the pages is exactly the indexed
results of that address, in block order along the iterator direction; each call returns the
requested page of it and the total. -/
theorem searchAddr_spec {txs : List TxRes} (hg : Good txs) {ns : Bytes} (hn : IsAddrNs ns) (a : Bytes)
    (m : SortArg → Option Dir) (sort : SortArg) (dir : Dir) (hm : m sort = some dir) :
    ∃ full : List TxRes,
      (∀ skip size : Int, searchAddr m (build txs) ns a sort skip size =
        .ok (((full.drop skip.toNat).take (clampSize size).toNat).map some, full.length)) ∧
      (∀ t, t ∈ full ↔ t ∈ indexed txs ∧ addrField ns t = some a) ∧
      full.Pairwise (DirOrder dir) := by
  let pre := prefixKeyForAddr ns a
  have hex := addr_range_exact hg hn a
  have hall : ∀ e ∈ iterator (build txs) pre (endKey pre), ∃ t, getEntry (build txs) e = .ok (some t) := by
    intro e he
    obtain ⟨t, ht, _, rfl⟩ := (hex e).mp he
    exact ⟨t, getEntry_addr hg ht _⟩
  have htx : ∀ e ∈ iterator (build txs) pre (endKey pre), ∀ t ∈ indexed txs,
      e = (keyForAddr ns a t.height t.index, Val.idx t.hash) → txOf (build txs) e = t := by
    intro e _ t ht he
    simp only [txOf, he, getEntry_addr hg ht]
  refine ⟨(scan (build txs) pre dir).map (txOf (build txs)), ?_, ?_, ?_⟩
  · intro skip size
    exact getByPrefix_closed m (build txs) pre sort dir hm skip size hall
  · intro t
    have hscan : ∀ e, e ∈ scan (build txs) pre dir ↔ e ∈ iterator (build txs) pre (endKey pre) := by
      intro e; cases dir with
      | forward => exact Iff.rfl
      | reverse => exact List.mem_reverse
    rw [List.mem_map]
    constructor
    · rintro ⟨e, he, rfl⟩
      have he' := (hscan e).mp he
      obtain ⟨t, ht, hf, hk⟩ := (hex e).mp he'
      rw [htx e he' t ht hk]
      exact ⟨ht, hf⟩
    · rintro ⟨ht, hf⟩
      have he' : (keyForAddr ns a t.height t.index, Val.idx t.hash) ∈ iterator (build txs) pre (endKey pre) :=
        (hex _).mpr ⟨t, ht, hf, rfl⟩
      exact ⟨_, (hscan _).mpr he', htx _ he' t ht rfl⟩
  · have hsorted := iterator_sorted (build txs) (build_sorted txs) pre (endKey pre)
    have hfwd : (iterator (build txs) pre (endKey pre)).Pairwise
        (fun e1 e2 => DirOrder .forward (txOf (build txs) e1) (txOf (build txs) e2)) := by
      refine List.Pairwise.imp_of_mem ?_ hsorted
      intro e1 e2 h1 h2 hlt
      obtain ⟨t1, ht1, _, hk1⟩ := (hex e1).mp h1
      obtain ⟨t2, ht2, _, hk2⟩ := (hex e2).mp h2
      rw [htx e1 h1 t1 ht1 hk1, htx e2 h2 t2 ht2 hk2]
      rw [hk1, hk2] at hlt
      exact (keyForAddr_lt_iff ns a _ _ _ _).mp hlt
    cases dir with
    | forward => exact List.pairwise_map.mpr hfwd
    | reverse =>
      simp only [scan, reverseIterator]
      rw [List.pairwise_map, List.pairwise_reverse]
      exact hfwd

/-- Search by height: exactly that height's indexed results, ordered by position along the
iterator direction, paginated, with the total. -/
theorem searchHeight_spec {txs : List TxRes} (hg : Good txs) (h : Nat)
    (m : SortArg → Option Dir) (sort : SortArg) (dir : Dir) (hm : m sort = some dir) :
    ∃ full : List TxRes,
      (∀ skip size : Int, searchHeight m (build txs) h sort skip size =
        .ok (((full.drop skip.toNat).take (clampSize size).toNat).map some, full.length)) ∧
      (∀ t, t ∈ full ↔ t ∈ indexed txs ∧ t.height = h) ∧
      full.Pairwise (DirOrder dir) := by
  let pre := prefixKeyForHeight h
  have hex := height_range_exact hg h
  have hall : ∀ e ∈ iterator (build txs) pre (endKey pre), ∃ t, getEntry (build txs) e = .ok (some t) := by
    intro e he
    obtain ⟨t, ht, _, rfl⟩ := (hex e).mp he
    exact ⟨t, getEntry_addr hg ht _⟩
  have htx : ∀ e ∈ iterator (build txs) pre (endKey pre), ∀ t ∈ indexed txs,
      e = (keyForHeight h t.index, Val.idx t.hash) → txOf (build txs) e = t := by
    intro e _ t ht he
    simp only [txOf, he, getEntry_addr hg ht]
  refine ⟨(scan (build txs) pre dir).map (txOf (build txs)), ?_, ?_, ?_⟩
  · intro skip size
    exact getByPrefix_closed m (build txs) pre sort dir hm skip size hall
  · intro t
    have hscan : ∀ e, e ∈ scan (build txs) pre dir ↔ e ∈ iterator (build txs) pre (endKey pre) := by
      intro e; cases dir with
      | forward => exact Iff.rfl
      | reverse => exact List.mem_reverse
    rw [List.mem_map]
    constructor
    · rintro ⟨e, he, rfl⟩
      have he' := (hscan e).mp he
      obtain ⟨t, ht, hf, hk⟩ := (hex e).mp he'
      rw [htx e he' t ht hk]
      exact ⟨ht, hf⟩
    · rintro ⟨ht, hf⟩
      have he' : (keyForHeight h t.index, Val.idx t.hash) ∈ iterator (build txs) pre (endKey pre) :=
        (hex _).mpr ⟨t, ht, hf, rfl⟩
      exact ⟨_, (hscan _).mpr he', htx _ he' t ht rfl⟩
  · have hsorted := iterator_sorted (build txs) (build_sorted txs) pre (endKey pre)
    have hfwd : (iterator (build txs) pre (endKey pre)).Pairwise
        (fun e1 e2 => DirOrder .forward (txOf (build txs) e1) (txOf (build txs) e2)) := by
      refine List.Pairwise.imp_of_mem ?_ hsorted
      intro e1 e2 h1 h2 hlt
      obtain ⟨t1, ht1, hh1, hk1⟩ := (hex e1).mp h1
      obtain ⟨t2, ht2, hh2, hk2⟩ := (hex e2).mp h2
      rw [htx e1 h1 t1 ht1 hk1, htx e2 h2 t2 ht2 hk2]
      rw [hk1, hk2] at hlt
      exact Or.inr ⟨by rw [hh1, hh2], (keyForHeight_lt_iff h _ _).mp hlt⟩
    cases dir with
    | forward => exact List.pairwise_map.mpr hfwd
    | reverse =>
      simp only [scan, reverseIterator]
      rw [List.pairwise_map, List.pairwise_reverse]
      exact hfwd

/-! ## Pagination partitions the result -/

theorem pages_concat {α : Type} (n : Nat) (hn : 0 < n) :
    ∀ (k : Nat) (l : List α), l.length ≤ k * n →
      (List.range k).flatMap (fun j => (l.drop (j * n)).take n) = l := by
  intro k
  induction k with
  | zero =>
    intro l hl
    have : l = [] := List.eq_nil_of_length_eq_zero (by omega)
    simp [this]
  | succ k ih =>
    intro l hl
    rw [List.range_succ_eq_map, List.flatMap_cons, List.flatMap_map]
    have hshift : ∀ j, (l.drop (Nat.succ j * n)).take n = ((l.drop n).drop (j * n)).take n := by
      intro j
      rw [List.drop_drop]
      congr 2
      rw [Nat.succ_mul]; omega
    simp only [Nat.zero_mul, List.drop_zero, hshift]
    rw [ih (l.drop n) (by rw [List.length_drop]; rw [Nat.succ_mul] at hl; omega)]
    exact List.take_append_drop n l

/-! ## Counting and relative position -/

theorem posLt_irrefl (h i : Nat) : ¬ PosLt h i h i := by unfold PosLt; omega

theorem posLt_asymm {h i h' i' : Nat} (p : PosLt h i h' i') : ¬ PosLt h' i' h i := by
  unfold PosLt at *; omega

theorem dirOrder_irrefl (d : Dir) (x : TxRes) : ¬ DirOrder d x x := by
  cases d <;> exact posLt_irrefl _ _

theorem indexed_nodup {txs : List TxRes} (hg : Good txs) : (indexed txs).Nodup := by
  refine List.Pairwise.imp ?_ hg.distinct
  intro a b h e
  subst e
  exact h.1 rfl

/-- The total a search reports is the number of matching indexed results. -/
theorem full_length_eq {txs : List TxRes} (hg : Good txs) (p : TxRes → Bool) (d : Dir) (full : List TxRes)
    (hmem : ∀ t, t ∈ full ↔ t ∈ indexed txs ∧ p t = true) (hord : full.Pairwise (DirOrder d)) :
    full.length = ((indexed txs).filter p).length := by
  have hn : full.Nodup := by
    refine List.Pairwise.imp ?_ hord
    intro a b h e
    subst e
    exact dirOrder_irrefl d _ h
  have hn2 : ((indexed txs).filter p).Nodup := Session.nodup_filter p (indexed_nodup hg)
  apply Nat.le_antisymm
  · exact Session.nodup_subset_length _ _ hn (fun x hx => List.mem_filter.mpr ((hmem x).mp hx))
  · exact Session.nodup_subset_length _ _ hn2 (fun x hx => (hmem x).mpr (List.mem_filter.mp hx))

/-- In a list ordered by a relation, the relation tells which of two members comes first. -/
theorem before_of_pairwise {α : Type} {R : α → α → Prop} {l : List α} (hp : l.Pairwise R) {x y : α}
    (hx : x ∈ l) (hy : y ∈ l) (hne : x ≠ y) (hnot : ¬ R x y) : ∃ l1 l2 l3, l = l1 ++ y :: l2 ++ x :: l3 := by
  induction l with
  | nil => cases hx
  | cons a l ih =>
    obtain ⟨ha, hp'⟩ := List.pairwise_cons.mp hp
    rcases List.mem_cons.mp hx with rfl | hx'
    · rcases List.mem_cons.mp hy with rfl | hy'
      · exact absurd rfl hne
      · exact absurd (ha y hy') hnot
    · rcases List.mem_cons.mp hy with rfl | hy'
      · obtain ⟨s, t, rfl⟩ := List.append_of_mem hx'
        exact ⟨[], s, t, by simp⟩
      · obtain ⟨l1, l2, l3, rfl⟩ := ih hp' hx' hy'
        exact ⟨a :: l1, l2, l3, by simp⟩

theorem map_some_inj {α : Type} : ∀ (l1 l2 : List α), l1.map some = l2.map some → l1 = l2 := by
  intro l1
  induction l1 with
  | nil => intro l2 h; cases l2 with
    | nil => rfl
    | cons _ _ => simp at h
  | cons x xs ih => intro l2 h; cases l2 with
    | nil => simp at h
    | cons y ys =>
      simp only [List.map_cons, List.cons.injEq, Option.some.injEq] at h
      rw [h.1, ih ys h.2]


end Indexer
