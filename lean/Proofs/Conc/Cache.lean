import PocketModel.Conc.Cache
/-! C34: with the repaired read path the LRU+DB layer is unobservable (refines a plain map). -/
namespace SerialCache

theorem lookup_nil (k : K) : lookup [] k = none := rfl

theorem lookup_cons (a : K × List P) (l : List (K × List P)) (k : K) :
    lookup (a :: l) k = if a.1 = k then some a.2 else lookup l k := by
  unfold lookup
  by_cases h : a.1 = k <;> simp [List.find?_cons, h]

theorem lookup_erase_self (l : List (K × List P)) (k : K) : lookup (erase l k) k = none := by
  induction l with
  | nil => rfl
  | cons a l ih =>
    unfold erase at *
    by_cases h : a.1 = k
    · simp [List.filter_cons, h, ih]
    · simp only [List.filter_cons, bne_iff_ne, ne_eq, h, not_false_eq_true, decide_true, if_true]
      rw [lookup_cons]; simp [h, ih]

theorem lookup_erase_ne (l : List (K × List P)) (k k' : K) (h : k ≠ k') :
    lookup (erase l k) k' = lookup l k' := by
  induction l with
  | nil => rfl
  | cons a l ih =>
    unfold erase at *
    by_cases ha : a.1 = k
    · have : a.1 ≠ k' := fun e => h (ha ▸ e)
      simp only [List.filter_cons, bne_iff_ne, ne_eq, ha, not_true_eq_false, decide_false]
      rw [lookup_cons]; simp [this, ih]
    · simp only [List.filter_cons, bne_iff_ne, ne_eq, ha, not_false_eq_true, decide_true, if_true]
      rw [lookup_cons, lookup_cons, ih]

theorem length_erase_le (l : List (K × List P)) (k : K) : (erase l k).length ≤ l.length := by
  unfold erase; exact List.length_filter_le _ _

theorem length_erase_lt (l : List (K × List P)) (k : K) (v : List P) (h : lookup l k = some v) :
    (erase l k).length < l.length := by
  induction l with
  | nil => simp [lookup] at h
  | cons a l ih =>
    rw [lookup_cons] at h
    by_cases ha : a.1 = k
    · have h1 := length_erase_le l k
      have e : erase (a :: l) k = erase l k := by
        unfold erase; simp [List.filter_cons, ha]
      rw [e]; simp; omega
    · simp only [ha, if_false] at h
      have h1 := ih h
      have e : erase (a :: l) k = a :: erase l k := by
        unfold erase; simp [List.filter_cons, ha]
      rw [e]; simp; omega

/-- what the store holds for a key: the cache entry if there is one, else the DB entry -/
def eff (c : C) (k : K) : Option (List P) := (lookup c.lru k).orElse fun _ => lookup c.db k

theorem lookup_flush_db (lru db : List (K × List P)) (k : K) :
    lookup (lru.foldr (fun kv db => kv :: erase db kv.1) db) k =
      (lookup lru k).orElse fun _ => lookup db k := by
  induction lru with
  | nil => simp [lookup_nil]
  | cons a l ih =>
    simp only [List.foldr_cons]
    rw [lookup_cons, lookup_cons]
    by_cases h : a.1 = k
    · simp [h]
    · simp only [h, if_false]
      rw [lookup_erase_ne _ _ _ h, ih]

theorem eff_flush (c : C) (k : K) : eff (flush c) k = eff c k := by
  unfold eff flush
  simp [lookup_nil, lookup_flush_db]

/-- cache invariant: within capacity, capacity positive -/
structure CInvS (c : C) : Prop where
  cap_pos : 0 < c.cap
  len : c.lru.length ≤ c.cap

theorem lruAdd_noevict (cap : Nat) (lru : List (K × List P)) (k : K) (v : List P)
    (h : (erase lru k).length < cap) : lruAdd cap lru k v = (k, v) :: erase lru k := by
  unfold lruAdd
  have : ¬ ((k, v) :: erase lru k).length > cap := by simp; omega
  simp only [this, if_false]

theorem setNoCheck_spec (c : C) (k : K) (v : List P) (h : CInvS c) :
    CInvS (setNoCheck c k v) ∧ (∀ k', eff (setNoCheck c k v) k' = if k = k' then some v else eff c k') ∧
    (setNoCheck c k v).sealed_ = c.sealed_ ∧ (setNoCheck c k v).snap = c.snap ∧ (setNoCheck c k v).cap = c.cap := by
  unfold setNoCheck
  by_cases hfull : (c.lru.length == c.cap && (lookup c.lru k).isNone) = true
  · -- flushed first: the cache is empty, nothing is evicted
    simp only [hfull, if_true]
    have hcap : (flush c).cap = c.cap := rfl
    have hl : (flush c).lru = [] := rfl
    have hne : lruAdd (flush c).cap (flush c).lru k v = [(k, v)] := by
      rw [lruAdd_noevict]
      · simp [hl, erase]
      · simp [hl, erase, hcap]; exact h.cap_pos
    refine ⟨⟨h.cap_pos, by simp [hne]; exact h.cap_pos⟩, ?_, rfl, rfl, rfl⟩
    intro k'
    have := eff_flush c k'
    unfold eff at this ⊢
    simp only [hne]
    rw [lookup_cons]
    by_cases hk : k = k'
    · simp [hk]
    · simp only [hk, if_false, lookup_nil]
      simp only [hl, lookup_nil] at this
      simpa using this
  · have hfull' : (c.lru.length == c.cap && (lookup c.lru k).isNone) = false := by
      cases hb : (c.lru.length == c.cap && (lookup c.lru k).isNone) with
      | false => rfl
      | true => exact absurd hb hfull
    simp only [hfull', Bool.false_eq_true, if_false]
    -- not full, or the key is cached: the (possibly shorter) list plus one entry still fits
    have hfit : (erase c.lru k).length < c.cap := by
      by_cases hlen : c.lru.length = c.cap
      · cases hv : lookup c.lru k with
        | none => simp [hlen, hv] at hfull
        | some v' => have := length_erase_lt c.lru k v' hv; omega
      · have := length_erase_le c.lru k
        have := h.len
        omega
    rw [lruAdd_noevict _ _ _ _ hfit]
    refine ⟨⟨h.cap_pos, by simp; omega⟩, ?_, by trivial, by trivial, by trivial⟩
    intro k'
    unfold eff
    rw [lookup_cons]
    by_cases hk : k = k'
    · simp [hk]
    · simp only [hk, if_false]
      rw [lookup_erase_ne _ _ _ hk]

theorem get_spec (c : C) (k : K) (h : CInvS c) :
    (get true c k).1 = eff c k ∧ CInvS (get true c k).2 ∧ (∀ k', eff (get true c k).2 k' = eff c k') ∧
    (get true c k).2.sealed_ = c.sealed_ ∧ (get true c k).2.snap = c.snap ∧ (get true c k).2.cap = c.cap := by
  unfold get
  cases hl : lookup c.lru k with
  | some v =>
    simp only
    refine ⟨by simp [eff, hl], ⟨h.cap_pos, ?_⟩, ?_, by trivial, by trivial, by trivial⟩
    · have := length_erase_lt c.lru k v hl
      have := h.len
      simp; omega
    · intro k'
      unfold eff
      rw [lookup_cons]
      by_cases hk : k = k'
      · subst hk; simp [hl]
      · simp only [hk, if_false]; rw [lookup_erase_ne _ _ _ hk]
  | none =>
    cases hd : lookup c.db k with
    | none => simp only; exact ⟨by simp [eff, hl, hd], h, fun _ => by trivial, by trivial, by trivial, by trivial⟩
    | some v =>
      simp only [if_true]
      obtain ⟨hi, he, hs, hsn, hc⟩ := setNoCheck_spec c k v h
      refine ⟨by simp [eff, hl, hd], hi, ?_, hs, hsn, hc⟩
      intro k'
      rw [he k']
      by_cases hk : k = k'
      · subst hk; simp [eff, hl, hd]
      · simp [hk]

theorem lookup_rset (m : List (K × List P)) (k k' : K) (v : List P) :
    lookup (rset m k v) k' = if k = k' then some v else lookup m k' := by
  unfold rset
  rw [lookup_cons]
  by_cases h : k = k'
  · simp [h]
  · simp only [h, if_false]; exact lookup_erase_ne _ _ _ h

/-- the simulation relation between the cache layer and the plain map -/
structure Rel (c : C) (r : R) : Prop where
  inv : CInvS c
  map : ∀ k, eff c k = lookup r.m k
  sealed_eq : c.sealed_ = r.sealed_
  snap : ∀ k, lookup c.snap k = lookup r.snap k

theorem rel_init (cap : Nat) (h : 0 < cap) : Rel (init cap) rinit := by
  refine ⟨⟨h, by simp [init]⟩, ?_, rfl, ?_⟩ <;> intro k <;> simp [eff, init, rinit, lookup_nil]

theorem sealKey_rel (c : C) (r : R) (k : K) (v : List P) (h : Rel c r) :
    Rel (sealKey c k v) (if r.sealed_.contains k then r else { r with sealed_ := k :: r.sealed_, m := rset r.m k v }) := by
  unfold sealKey
  rw [h.sealed_eq]
  by_cases hs : r.sealed_.contains k = true
  · simp only [if_pos hs]; exact h
  · simp only [if_neg hs]
    have hi : CInvS { c with sealed_ := k :: r.sealed_ } := ⟨h.inv.cap_pos, h.inv.len⟩
    obtain ⟨i1, e1, s1, sn1, _⟩ := setNoCheck_spec { c with sealed_ := k :: r.sealed_ } k v hi
    refine ⟨i1, ?_, s1, ?_⟩
    · intro k'
      rw [e1 k', lookup_rset]
      by_cases hk : k = k'
      · simp [hk]
      · simp only [hk, if_false]; exact h.map k'
    · intro k'; rw [sn1]; exact h.snap k'

theorem getEvidence_rel (c : C) (r : R) (k : K) (max : Nat) (h : Rel c r) :
    (getEvidence true c k max).1 = (rgetEvidence r k max).1 ∧
    Rel (getEvidence true c k max).2 (rgetEvidence r k max).2 := by
  obtain ⟨g1, g2, g3, g4, g5, _⟩ := get_spec c k h.inv
  have hrel : Rel (get true c k).2 r := ⟨g2, fun k' => by rw [g3 k']; exact h.map k', by rw [g4]; exact h.sealed_eq, fun k' => by rw [g5]; exact h.snap k'⟩
  unfold getEvidence rgetEvidence
  have hv : (get true c k).1 = lookup r.m k := by rw [g1]; exact h.map k
  cases hg : get true c k with
  | mk ov c1 =>
    rw [hg] at hv hrel g4
    simp only at hv hrel g4
    subst hv
    cases hl : lookup r.m k with
    | none => simp only; exact ⟨by trivial, hrel⟩
    | some v =>
      simp only
      rw [hrel.sealed_eq]
      by_cases hs : r.sealed_.contains k = true
      · simp only [if_pos hs]; exact ⟨by trivial, hrel⟩
      · simp only [if_neg hs]
        by_cases hm : max ≠ 0 ∧ v.length ≥ max
        · simp only [if_pos hm]
          refine ⟨by trivial, ?_⟩
          have := sealKey_rel c1 r k v hrel
          simp only [if_neg hs] at this
          -- the reference only marks the key; the cache writes the same value back
          refine ⟨this.inv, ?_, this.sealed_eq, this.snap⟩
          intro k'
          rw [this.map k', lookup_rset]
          by_cases hk : k = k'
          · subst hk; simp [hl]
          · simp [hk]
        · simp only [if_neg hm]; exact ⟨by trivial, hrel⟩

theorem set_rel (c : C) (r : R) (k : K) (v : List P) (h : Rel c r) (hs : r.sealed_.contains k = false) :
    Rel (set true c k v) { r with m := rset r.m k v } := by
  obtain ⟨_, g2, g3, g4, g5, _⟩ := get_spec c k h.inv
  unfold set
  cases hg : get true c k with
  | mk ov c1 =>
    rw [hg] at g2 g3 g4 g5
    simp only at g2 g3 g4 g5
    have hsl : c1.sealed_.contains k = false := by rw [g4, h.sealed_eq]; exact hs
    simp only [hsl, Bool.and_false, Bool.false_eq_true, if_false]
    obtain ⟨i1, e1, s1, sn1, _⟩ := setNoCheck_spec c1 k v g2
    refine ⟨i1, ?_, by rw [s1, g4]; exact h.sealed_eq, fun k' => by rw [sn1, g5]; exact h.snap k'⟩
    intro k'
    rw [e1 k', lookup_rset]
    by_cases hk : k = k'
    · simp [hk]
    · simp only [hk, if_false]; rw [g3 k']; exact h.map k'

theorem rgetEvidence_m (r : R) (k : K) (max : Nat) :
    (rgetEvidence r k max).2.m = r.m ∧ (rgetEvidence r k max).2.snap = r.snap ∧
    (rgetEvidence r k max).1 = (lookup r.m k).getD [] := by
  unfold rgetEvidence
  cases hl : lookup r.m k with
  | none => exact ⟨by trivial, by trivial, by trivial⟩
  | some v =>
    by_cases hs : r.sealed_.contains k = true
    · simp only [if_pos hs]; exact ⟨by trivial, by trivial, by trivial⟩
    · by_cases hm : max ≠ 0 ∧ v.length ≥ max
      · simp only [if_neg hs, if_pos hm]; exact ⟨by trivial, by trivial, by trivial⟩
      · simp only [if_neg hs, if_neg hm]; exact ⟨by trivial, by trivial, by trivial⟩

/-- a second `GetEvidence` right after an unsealed, under-allowance first one changes nothing -/
theorem rgetEvidence_again (r : R) (k : K) (max : Nat)
    (hs : (rgetEvidence r k max).2.sealed_.contains k = false)
    (hn : ¬ (rgetEvidence r k max).1.length ≥ max) :
    rgetEvidence (rgetEvidence r k max).2 k max = rgetEvidence r k max := by
  unfold rgetEvidence at *
  cases hl : lookup r.m k with
  | none => simp only [hl]
  | some v =>
    simp only [hl] at hs hn ⊢
    by_cases h1 : r.sealed_.contains k = true
    · simp only [if_pos h1] at hs; rw [h1] at hs; cases hs
    · by_cases hm : max ≠ 0 ∧ v.length ≥ max
      · simp only [if_neg h1, if_pos hm] at hn
        exact absurd hm.2 hn
      · simp only [if_neg h1, if_neg hm, hl]

/-- one operation: same answer, relation kept -/
theorem step_rel (max : Nat) (c : C) (r : R) (op : Op) (h : Rel c r) :
    (step true max c op).2 = (rstep max r op).2 ∧ Rel (step true max c op).1 (rstep max r op).1 := by
  cases op with
  | relay k p =>
    obtain ⟨e1, h1⟩ := getEvidence_rel c r k max h
    simp only [step, rstep]
    cases hg : getEvidence true c k max with
    | mk ev c1 =>
      cases hr : rgetEvidence r k max with
      | mk ev' r1 =>
        rw [hg, hr] at e1 h1
        simp only at e1 h1
        subst e1
        simp only
        rw [h1.sealed_eq]
        by_cases hs : r1.sealed_.contains k = true
        · simp only [if_pos hs]; exact ⟨by trivial, h1⟩
        · simp only [if_neg hs]
          by_cases hd : ev.contains p = true
          · simp only [if_pos hd]; exact ⟨by trivial, h1⟩
          · simp only [if_neg hd]
            by_cases hn : ev.length ≥ max
            · simp only [if_pos hn]; exact ⟨by trivial, h1⟩
            · simp only [if_neg hn]
              obtain ⟨e2, h2⟩ := getEvidence_rel c1 r1 k max h1
              have hs' : r1.sealed_.contains k = false := by simpa using hs
              have hagain : rgetEvidence r1 k max = (ev, r1) := by
                have := rgetEvidence_again r k max (by rw [hr]; exact hs') (by rw [hr]; exact hn)
                rw [hr] at this; exact this
              rw [hagain] at e2 h2
              cases hg2 : getEvidence true c1 k max with
              | mk ev2 c2 =>
                rw [hg2] at e2 h2
                simp only at e2 h2
                subst e2
                simp only
                exact ⟨by trivial, set_rel c2 r1 k _ h2 hs'⟩
  | iter =>
    simp only [step, rstep]
    refine ⟨by trivial, ⟨⟨h.inv.cap_pos, by simp [flush]⟩, ?_, h.sealed_eq, ?_⟩⟩
    · intro k
      show eff (flush c) k = lookup r.m k
      rw [eff_flush]; exact h.map k
    · intro k
      show lookup (flush c).db k = lookup r.m k
      simp only [flush]
      rw [lookup_flush_db]
      exact h.map k
  | sealSnap k =>
    simp only [step, rstep]
    rw [h.snap k]
    cases hl : lookup r.snap k with
    | none => exact ⟨by trivial, h⟩
    | some v => exact ⟨by trivial, sealKey_rel c r k v h⟩

/-- **With the repaired read path the cache is unobservable**: for every positive capacity, every
allowance and every sequence of operations, the answers are those of the plain map, and so is
what is stored under every key. -/
theorem run_rel (max : Nat) (ops : List Op) : ∀ (c : C) (r : R), Rel c r →
    (run true max c ops).2 = (rrun max r ops).2 ∧ Rel (run true max c ops).1 (rrun max r ops).1 := by
  induction ops with
  | nil => intro c r h; exact ⟨rfl, h⟩
  | cons op ops ih =>
    intro c r h
    obtain ⟨e1, h1⟩ := step_rel max c r op h
    obtain ⟨e2, h2⟩ := ih _ _ h1
    simp only [run, rrun]
    exact ⟨by rw [e1, e2], h2⟩

end SerialCache
