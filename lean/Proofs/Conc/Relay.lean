import PocketModel.Conc.Relay
/-! Lemmas for C34: the invariant of the repaired (atomic) design over all schedules. -/
namespace ConcRelay

/-- Invariant of the repaired design. -/
structure AInv (a : ASt) : Prop where
  nodup : a.proofs.Nodup
  limit : a.proofs.length ≤ a.max
  stored : ∀ (i : Nat) (p : P) (pc : Pc), a.threads[i]? = some (p, pc) → (pc = Pc.stored ∨ pc = Pc.responded) → p ∈ a.proofs
  logged : ∀ (i : Nat), Event.resp i ∈ a.log → ∃ p : P, a.threads[i]? = some (p, Pc.responded)

theorem ainv_init (max : Nat) (ps : List P) : AInv (ainit max ps) := by
  refine ⟨by simp [ainit], by simp [ainit], ?_, by simp [ainit]⟩
  intro i p pc h hpc
  simp only [ainit, List.getElem?_map, Option.map_eq_some_iff] at h
  obtain ⟨q, _, hq⟩ := h
  cases hq
  rcases hpc with h | h <;> cases h

theorem getElem?_set_cases {α : Type} (l : List α) (i j : Nat) (a b : α)
    (h : (l.set i a)[j]? = some b) : (j = i ∧ b = a) ∨ (j ≠ i ∧ l[j]? = some b) := by
  by_cases hij : i = j
  · subst hij
    rw [List.getElem?_set_self'] at h
    left
    cases hl : l[i]? with
    | none => simp [hl] at h
    | some x => simp [hl] at h; exact ⟨rfl, h.symm⟩
  · rw [List.getElem?_set_ne hij] at h
    exact Or.inr ⟨fun e => hij e.symm, h⟩

theorem ainv_step (a : ASt) (l : ALabel) (h : AInv a) : AInv (astep a l) := by
  match l with
  | .serve i =>
    simp only [astep]
    split
    · rename_i p ht
      split
      · rename_i hc
        simp only [Bool.and_eq_true, Bool.not_eq_true', decide_eq_true_eq] at hc
        obtain ⟨⟨_, hnot⟩, hlt⟩ := hc
        have hp : p ∉ a.proofs := by simpa using hnot
        refine ⟨?_, ?_, ?_, ?_⟩
        · exact List.nodup_append.mpr ⟨h.nodup, by simp, by
            intro x hx y hy; simp at hy; subst hy; exact fun e => hp (e ▸ hx)⟩
        · simp; omega
        · intro j q pc hj hpc
          rcases getElem?_set_cases _ _ _ _ _ hj with ⟨_, e⟩ | ⟨_, hj'⟩
          · cases e; simp
          · exact List.mem_append_left _ (h.stored j q pc hj' hpc)
        · intro j hj
          obtain ⟨q, hq⟩ := h.logged j hj
          have : j ≠ i := by
            intro e; subst e; rw [ht] at hq; cases hq
          exact ⟨q, by rw [List.getElem?_set_ne (fun e => this e.symm)]; exact hq⟩
      · refine ⟨h.nodup, h.limit, ?_, ?_⟩
        · intro j q pc hj hpc
          rcases getElem?_set_cases _ _ _ _ _ hj with ⟨_, e⟩ | ⟨_, hj'⟩
          · cases e; rcases hpc with e | e <;> cases e
          · exact h.stored j q pc hj' hpc
        · intro j hj
          obtain ⟨q, hq⟩ := h.logged j hj
          have : j ≠ i := by
            intro e; subst e; rw [ht] at hq; cases hq
          exact ⟨q, by rw [List.getElem?_set_ne (fun e => this e.symm)]; exact hq⟩
    · exact h
  | .respond i =>
    simp only [astep]
    split
    · rename_i p ht
      refine ⟨h.nodup, h.limit, ?_, ?_⟩
      · intro j q pc hj hpc
        rcases getElem?_set_cases _ _ _ _ _ hj with ⟨_, e⟩ | ⟨_, hj'⟩
        · cases e; exact h.stored i p Pc.stored ht (Or.inl rfl)
        · exact h.stored j q pc hj' hpc
      · intro j hj
        simp only [List.mem_cons, Event.resp.injEq] at hj
        rcases hj with e | hj
        · subst e
          refine ⟨p, ?_⟩
          rw [List.getElem?_set_self']
          simp [ht]
        · obtain ⟨q, hq⟩ := h.logged j hj
          have : j ≠ i := by
            intro e; subst e; rw [ht] at hq; cases hq
          exact ⟨q, by rw [List.getElem?_set_ne (fun e => this e.symm)]; exact hq⟩
    · exact h
  | .seal =>
    simp only [astep]
    split
    · exact h
    · refine ⟨h.nodup, h.limit, h.stored, ?_⟩
      intro j hj
      simp only [List.mem_cons] at hj
      rcases hj with e | hj
      · cases e
      · exact h.logged j hj

theorem ainv_run (ls : List ALabel) : ∀ a, AInv a → AInv (arun a ls) := by
  induction ls with
  | nil => intro a h; exact h
  | cons l ls ih => intro a h; exact ih _ (ainv_step a l h)

theorem aexact_of_inv (a : ASt) (h : AInv a) : aexact a = true := by
  unfold aexact
  simp only [Bool.and_eq_true, decide_eq_true_eq, List.all_eq_true]
  refine ⟨⟨h.nodup, h.limit⟩, ?_⟩
  intro e he
  match e with
  | .seal => rfl
  | .resp i =>
    obtain ⟨p, hp⟩ := h.logged i he
    simp only [hp]
    simpa using h.stored i p Pc.responded hp (Or.inr rfl)

end ConcRelay

namespace ConcRelay

/-! ## the allowance bound holds for every schedule of the code as it is -/

def EvOk (max : Nat) (e : Ev) : Prop := e.proofs.length = e.n ∧ e.n ≤ max

/-- "sealed and something stored": from then on `Set` is a no-op. -/
def Frozen (s : St) : Prop := s.sealed_ = true ∧ s.stored.isSome = true

def TOk (s : St) (t : Thread) : Prop :=
  match t.pc with
  | .validated => 0 < s.max
  | .got => t.loc.proofs.length = t.loc.n ∧ (t.loc.n < s.max ∨ Frozen s)
  | .added => t.loc.proofs.length = t.loc.n ∧ (t.loc.n ≤ s.max ∨ Frozen s)
  | _ => True

structure CInv (s : St) : Prop where
  stored : ∀ e, s.stored = some e → EvOk s.max e
  snap : s.sealer = .read → EvOk s.max s.snap
  threads : ∀ t ∈ s.threads, TOk s t

/-- shared-state changes that keep every thread's invariant -/
def Mono (s s' : St) : Prop := s'.max = s.max ∧ (Frozen s → Frozen s')

theorem tok_mono {s s' : St} (h : Mono s s') (t : Thread) (ht : TOk s t) : TOk s' t := by
  unfold TOk at *
  obtain ⟨hm, hf⟩ := h
  cases hpc : t.pc <;> simp only [hpc] at ht ⊢
  · rw [hm]; exact ht
  · rw [hm]; exact ⟨ht.1, ht.2.imp id hf⟩
  · rw [hm]; exact ⟨ht.1, ht.2.imp id hf⟩

theorem getEvidence_spec (s : St) (h : CInv s) :
    Mono s (getEvidence s).2 ∧ (getEvidence s).2.threads = s.threads ∧
    (getEvidence s).2.sealer = s.sealer ∧ (getEvidence s).2.snap = s.snap ∧
    (∀ e, (getEvidence s).2.stored = some e → EvOk s.max e) ∧
    (getEvidence s).1.proofs.length = (getEvidence s).1.n ∧
    (0 < s.max → (getEvidence s).1.n < s.max ∨ Frozen (getEvidence s).2) := by
  unfold getEvidence
  cases hs : s.stored with
  | none => simp [Mono, Frozen, hs]
  | some e =>
    have he := h.stored e hs
    unfold EvOk at he
    by_cases hfl : s.flushed = true <;> by_cases hsl : s.sealed_ = true <;>
      by_cases hmx : s.max ≠ 0 ∧ e.n ≥ s.max <;>
      simp [Mono, Frozen, EvOk, hs, hfl, hsl, hmx, he] <;> omega

theorem cinv_setThread (s s1 : St) (i : Nat) (tnew : Thread) (h : CInv s) (hm : Mono s s1)
    (hthreads : s1.threads = s.threads)
    (hst : ∀ e, s1.stored = some e → EvOk s1.max e)
    (hsn : s1.sealer = .read → EvOk s1.max s1.snap) (hnew : TOk s1 tnew) :
    CInv (setThread s1 i tnew) := by
  have hm' : Mono s (setThread s1 i tnew) := ⟨hm.1, fun hf => hm.2 hf⟩
  refine ⟨hst, hsn, ?_⟩
  intro t ht
  simp only [setThread, hthreads] at ht
  rcases List.mem_or_eq_of_mem_set ht with ht | ht
  · exact tok_mono hm' t (h.threads t ht)
  · subst ht
    exact tok_mono (s := s1) ⟨rfl, fun hf => hf⟩ _ hnew

theorem cinv_shared (s s' : St) (h : CInv s) (hm : Mono s s') (hthreads : s'.threads = s.threads)
    (hst : ∀ e, s'.stored = some e → EvOk s'.max e)
    (hsn : s'.sealer = .read → EvOk s'.max s'.snap) : CInv s' := by
  refine ⟨hst, hsn, ?_⟩
  intro t ht
  rw [hthreads] at ht
  exact tok_mono hm t (h.threads t ht)

theorem mem_of_getElem? {α : Type} {l : List α} {i : Nat} {a : α} (h : l[i]? = some a) : a ∈ l :=
  List.mem_of_getElem? h

theorem cinv_step (s : St) (l : Label) (h : CInv s) : CInv (step s l) := by
  match l with
  | .relay i a =>
    simp only [step]
    cases ht : s.threads[i]? with
    | none => exact h
    | some t =>
      have htok := h.threads t (mem_of_getElem? ht)
      obtain ⟨gm, gt, gsl, gsn, gst, gl, gn⟩ := getEvidence_spec s h
      simp only
      match a, hpc : t.pc with
      | .validate, .start =>
        simp only
        refine cinv_setThread s _ i _ h gm gt (fun e he => by rw [gm.1]; exact gst e he)
          (fun hr => by rw [gsl] at hr; rw [gm.1, gsn]; exact h.snap hr) ?_
        by_cases hok : (!(getEvidence s).2.sealed_ && !(bloomOf (getEvidence s).2 (getEvidence s).1.bloom).contains t.proof &&
            decide ((getEvidence s).1.n < (getEvidence s).2.max)) = true
        · rw [if_pos hok]
          simp only [Bool.and_eq_true, Bool.not_eq_true', decide_eq_true_eq] at hok
          unfold TOk
          simp only
          omega
        · rw [if_neg hok]
          unfold TOk
          trivial
      | .get, .validated =>
        simp only
        have hmax : 0 < s.max := by unfold TOk at htok; simpa [hpc] using htok
        refine cinv_setThread s _ i _ h gm gt (fun e he => by rw [gm.1]; exact gst e he)
          (fun hr => by rw [gsl] at hr; rw [gm.1, gsn]; exact h.snap hr) ?_
        unfold TOk
        simp only [gm.1]
        exact ⟨gl, gn hmax⟩
      | .add, .got =>
        simp only
        have hg : t.loc.proofs.length = t.loc.n ∧ (t.loc.n < s.max ∨ Frozen s) := by
          unfold TOk at htok; simpa [hpc] using htok
        refine cinv_setThread s _ i _ h ⟨rfl, fun hf => hf⟩ rfl (fun e he => h.stored e he)
          (fun hr => h.snap hr) ?_
        unfold TOk
        simp only [List.length_append, List.length_cons, List.length_nil]
        exact ⟨by omega, hg.2.imp (by omega) (fun hf => hf)⟩
      | .set, .added =>
        simp only
        have hg : t.loc.proofs.length = t.loc.n ∧ (t.loc.n ≤ s.max ∨ Frozen s) := by
          unfold TOk at htok; simpa [hpc] using htok
        by_cases hfz : s.stored.isSome = true ∧ s.sealed_ = true
        · simp only [hfz, and_self, if_true]
          exact cinv_setThread s _ i _ h ⟨rfl, fun hf => hf⟩ rfl (fun e he => h.stored e he)
            (fun hr => h.snap hr) (by unfold TOk; trivial)
        · simp only [hfz, if_false]
          have hnf : ¬ Frozen s := fun hf => hfz ⟨hf.2, hf.1⟩
          refine cinv_setThread s _ i _ h ⟨rfl, fun hf => absurd hf hnf⟩ rfl ?_
            (fun hr => h.snap hr) (by unfold TOk; trivial)
          intro e he
          simp only [Option.some.injEq] at he
          subst he
          exact ⟨hg.1, hg.2.resolve_right hnf⟩
      | .respond, .stored =>
        simp only
        exact cinv_setThread s _ i _ h ⟨rfl, fun hf => hf⟩ rfl (fun e he => h.stored e he)
          (fun hr => h.snap hr) (by unfold TOk; trivial)
      | .validate, .validated | .validate, .got | .validate, .added | .validate, .stored
      | .validate, .responded | .validate, .rejected => exact h
      | .get, .start | .get, .got | .get, .added | .get, .stored | .get, .responded | .get, .rejected => exact h
      | .add, .start | .add, .validated | .add, .added | .add, .stored | .add, .responded | .add, .rejected => exact h
      | .set, .start | .set, .validated | .set, .got | .set, .stored | .set, .responded | .set, .rejected => exact h
      | .respond, .start | .respond, .validated | .respond, .got | .respond, .added
      | .respond, .responded | .respond, .rejected => exact h
  | .cread =>
    simp only [step]
    match hsl : s.sealer, hst : s.stored with
    | .idle, some e =>
      simp only
      have he := h.stored e hst
      refine cinv_shared s _ h ⟨rfl, ?_⟩ rfl ?_ ?_
      · intro hf; exact ⟨hf.1, by simp [hst]⟩
      · intro e' he'; simp only [hst] at he'; cases he'; exact he
      · intro _; exact he
    | .idle, none => exact h
    | .read, _ => exact h
    | .done, _ => exact h
  | .cseal =>
    simp only [step]
    match hsl : s.sealer with
    | .read =>
      simp only
      by_cases hs : s.sealed_ = true
      · rw [if_pos hs]
        exact cinv_shared s _ h ⟨rfl, fun hf => hf⟩ rfl (fun e he => h.stored e he) (by intro hr; cases hr)
      · rw [if_neg hs]
        refine cinv_shared s _ h ⟨rfl, fun _ => ⟨rfl, rfl⟩⟩ rfl ?_ (by intro hr; cases hr)
        intro e he
        simp only [Option.some.injEq] at he
        subst he
        exact h.snap hsl
    | .idle => exact h
    | .done => exact h

theorem cinv_init (max : Nat) (ids : List P) : CInv (init max ids) := by
  refine ⟨by simp [init], by simp [init], ?_⟩
  intro t ht
  simp only [init, List.mem_map] at ht
  obtain ⟨p, _, rfl⟩ := ht
  unfold TOk
  trivial

theorem cinv_run (ls : List Label) : ∀ s, CInv s → CInv (run s ls) := by
  induction ls with
  | nil => intro s h; exact h
  | cons l ls ih => intro s h; exact ih _ (cinv_step s l h)

theorem withinLimit_of_inv (s : St) (h : CInv s) : withinLimit s = true := by
  unfold withinLimit storedN storedProofs
  cases hs : s.stored with
  | none => simp
  | some e =>
    have := h.stored e hs
    unfold EvOk at this
    simp
    omega

end ConcRelay
