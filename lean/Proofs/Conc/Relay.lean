import PocketModel.Conc.Relay
/-! Lemmas for C34: the invariant of the repaired (atomic) design over all schedules. -/
namespace ConcRelay

/-- Invariant of the repaired design. -/
structure AInv (a : ASt) : Prop where
  nodup : a.proofs.Nodup
  limit : a.proofs.length ≤ a.max
  stored : ∀ (i : Nat) (p : P) (pc : Pc), a.threads[i]? = some (p, pc) → (pc = Pc.stored ∨ pc = Pc.responded) → p ∈ a.proofs
  logged : ∀ (i : Nat), Event.resp i ∈ a.log → ∃ p : P, a.threads[i]? = some (p, Pc.responded)

theorem ainv_init (max : Nat) (ps : List P) : AInv (ainit max ps) := by
  refine ⟨by simp [ainit], by simp [ainit], ?_, by simp [ainit]⟩
  intro i p pc h hpc
  simp only [ainit, List.getElem?_map, Option.map_eq_some_iff] at h
  obtain ⟨q, _, hq⟩ := h
  cases hq
  rcases hpc with h | h <;> cases h

theorem getElem?_set_cases {α : Type} (l : List α) (i j : Nat) (a b : α)
    (h : (l.set i a)[j]? = some b) : (j = i ∧ b = a) ∨ (j ≠ i ∧ l[j]? = some b) := by
  by_cases hij : i = j
  · subst hij
    rw [List.getElem?_set_self'] at h
    left
    cases hl : l[i]? with
    | none => simp [hl] at h
    | some x => simp [hl] at h; exact ⟨rfl, h.symm⟩
  · rw [List.getElem?_set_ne hij] at h
    exact Or.inr ⟨fun e => hij e.symm, h⟩

theorem ainv_step (a : ASt) (l : ALabel) (h : AInv a) : AInv (astep a l) := by
  match l with
  | .serve i =>
    simp only [astep]
    split
    · rename_i p ht
      split
      · rename_i hc
        simp only [Bool.and_eq_true, Bool.not_eq_true', decide_eq_true_eq] at hc
        obtain ⟨⟨_, hnot⟩, hlt⟩ := hc
        have hp : p ∉ a.proofs := by simpa using hnot
        refine ⟨?_, ?_, ?_, ?_⟩
        · exact List.nodup_append.mpr ⟨h.nodup, by simp, by
            intro x hx y hy; simp at hy; subst hy; exact fun e => hp (e ▸ hx)⟩
        · simp; omega
        · intro j q pc hj hpc
          rcases getElem?_set_cases _ _ _ _ _ hj with ⟨_, e⟩ | ⟨_, hj'⟩
          · cases e; simp
          · exact List.mem_append_left _ (h.stored j q pc hj' hpc)
        · intro j hj
          obtain ⟨q, hq⟩ := h.logged j hj
          have : j ≠ i := by
            intro e; subst e; rw [ht] at hq; cases hq
          exact ⟨q, by rw [List.getElem?_set_ne (fun e => this e.symm)]; exact hq⟩
      · refine ⟨h.nodup, h.limit, ?_, ?_⟩
        · intro j q pc hj hpc
          rcases getElem?_set_cases _ _ _ _ _ hj with ⟨_, e⟩ | ⟨_, hj'⟩
          · cases e; rcases hpc with e | e <;> cases e
          · exact h.stored j q pc hj' hpc
        · intro j hj
          obtain ⟨q, hq⟩ := h.logged j hj
          have : j ≠ i := by
            intro e; subst e; rw [ht] at hq; cases hq
          exact ⟨q, by rw [List.getElem?_set_ne (fun e => this e.symm)]; exact hq⟩
    · exact h
  | .respond i =>
    simp only [astep]
    split
    · rename_i p ht
      refine ⟨h.nodup, h.limit, ?_, ?_⟩
      · intro j q pc hj hpc
        rcases getElem?_set_cases _ _ _ _ _ hj with ⟨_, e⟩ | ⟨_, hj'⟩
        · cases e; exact h.stored i p Pc.stored ht (Or.inl rfl)
        · exact h.stored j q pc hj' hpc
      · intro j hj
        simp only [List.mem_cons, Event.resp.injEq] at hj
        rcases hj with e | hj
        · subst e
          refine ⟨p, ?_⟩
          rw [List.getElem?_set_self']
          simp [ht]
        · obtain ⟨q, hq⟩ := h.logged j hj
          have : j ≠ i := by
            intro e; subst e; rw [ht] at hq; cases hq
          exact ⟨q, by rw [List.getElem?_set_ne (fun e => this e.symm)]; exact hq⟩
    · exact h
  | .seal =>
    simp only [astep]
    split
    · exact h
    · refine ⟨h.nodup, h.limit, h.stored, ?_⟩
      intro j hj
      simp only [List.mem_cons] at hj
      rcases hj with e | hj
      · cases e
      · exact h.logged j hj

theorem ainv_run (ls : List ALabel) : ∀ a, AInv a → AInv (arun a ls) := by
  induction ls with
  | nil => intro a h; exact h
  | cons l ls ih => intro a h; exact ih _ (ainv_step a l h)

theorem aexact_of_inv (a : ASt) (h : AInv a) : aexact a = true := by
  unfold aexact
  simp only [Bool.and_eq_true, decide_eq_true_eq, List.all_eq_true]
  refine ⟨⟨h.nodup, h.limit⟩, ?_⟩
  intro e he
  match e with
  | .seal => rfl
  | .resp i =>
    obtain ⟨p, hp⟩ := h.logged i he
    simp only [hp]
    simpa using h.stored i p Pc.responded hp (Or.inr rfl)

end ConcRelay
