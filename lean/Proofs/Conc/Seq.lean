import Proofs.Conc.Relay
/-! C34: one thread at a time keeps the evidence exact (`sequential_ok`). -/
namespace ConcRelay

theorem run_append (s : St) (a b : List Label) : run s (a ++ b) = run (run s a) b := by
  induction a generalizing s with
  | nil => rfl
  | cons l ls ih => simp [run, ih]

theorem set_get {α : Type} {l : List α} {i : Nat} {a : α} (h : l[i]? = some a) (b : α) :
    (l.set i b)[i]? = some b := by
  have : i < l.length := by
    rcases List.getElem?_eq_some_iff.mp h with ⟨hl, _⟩; exact hl
  simp [this]

/-- a relay that is not at `start` ignores `validate`; one that was rejected or has responded
ignores everything -/
theorem run_block_none (s : St) (i : Nat) (h : s.threads[i]? = none) : run s (relayBlock i) = s := by
  simp [relayBlock, run, step, h]

theorem run_block_done (s : St) (i : Nat) (t : Thread) (h : s.threads[i]? = some t)
    (hpc : t.pc = .responded ∨ t.pc = .rejected) : run s (relayBlock i) = s := by
  rcases hpc with hpc | hpc <;> simp [relayBlock, run, step, h, hpc]

/-- after a rejection the remaining four labels do nothing -/
theorem run_rest_rejected (s : St) (i : Nat) (t : Thread) (h : s.threads[i]? = some t) (hpc : t.pc = .rejected) :
    run s [.relay i .get, .relay i .add, .relay i .set, .relay i .respond] = s := by
  simp [run, step, h, hpc]

end ConcRelay

namespace ConcRelay

/-! ## bloom heap facts -/

theorem bloomOf_append_lt (s : St) (x : List P) (id : Nat) (h : id < s.blooms.length) :
    bloomOf { s with blooms := s.blooms ++ [x] } id = bloomOf s id := by
  simp [bloomOf, List.getElem?_append_left h]

theorem bloomOf_append_new (s : St) (x : List P) :
    bloomOf { s with blooms := s.blooms ++ [x] } s.blooms.length = x := by
  simp [bloomOf]

theorem bloomOf_set_self (s : St) (x : List P) (id : Nat) (h : id < s.blooms.length) :
    bloomOf { s with blooms := s.blooms.set id x } id = x := by
  simp [bloomOf, h]

theorem bloomOf_set_ne (s : St) (x : List P) (id id' : Nat) (h : id ≠ id') :
    bloomOf { s with blooms := s.blooms.set id x } id' = bloomOf s id' := by
  simp [bloomOf, List.getElem?_set_ne h]

/-! ## the sequential invariant with one active relay -/

def QuietPc (pc : Pc) : Prop := pc = .start ∨ pc = .responded ∨ pc = .rejected

/-- the stored evidence is well formed and its bloom filter knows all its proofs -/
def StoredOk (s : St) (e : Ev) : Prop :=
  e.proofs.Nodup ∧ e.proofs.length = e.n ∧ e.n ≤ s.max ∧ e.bloom < s.blooms.length ∧
    ∀ p ∈ e.proofs, p ∈ bloomOf s e.bloom

/-- what the active relay knows, by program counter -/
def AOk (s : St) (t : Thread) : Prop :=
  match t.pc, s.stored with
  | .validated, none => 0 < s.max
  | .validated, some e => s.sealed_ = false ∧ s.flushed = false ∧ t.proof ∉ bloomOf s e.bloom ∧ e.n < s.max
  | .got, none => t.loc.proofs = [] ∧ t.loc.n = 0 ∧ t.loc.bloom < s.blooms.length ∧ bloomOf s t.loc.bloom = [] ∧ 0 < s.max
  | .got, some e => t.loc = e ∧ s.sealed_ = false ∧ s.flushed = false ∧ t.proof ∉ bloomOf s e.bloom ∧ e.n < s.max
  | .added, none => t.loc.proofs = [t.proof] ∧ t.loc.n = 1 ∧ t.loc.bloom < s.blooms.length ∧
      t.proof ∈ bloomOf s t.loc.bloom ∧ 0 < s.max
  | .added, some e => s.sealed_ = false ∧ s.flushed = false ∧ t.loc.proofs = e.proofs ++ [t.proof] ∧
      t.loc.n = e.n + 1 ∧ t.loc.bloom = e.bloom ∧ t.proof ∉ e.proofs ∧ e.n < s.max ∧ t.proof ∈ bloomOf s e.bloom
  | .stored, _ => t.proof ∈ storedProofs s
  | _, _ => True

structure SInv (i : Nat) (s : St) : Prop where
  others : ∀ (j : Nat) (t : Thread), j ≠ i → s.threads[j]? = some t → QuietPc t.pc
  sealer : s.sealer = .idle ∨ s.sealer = .done
  flushed : s.flushed = true → s.sealed_ = true
  sealedSome : s.sealed_ = true → s.stored.isSome = true
  stored : ∀ e, s.stored = some e → StoredOk s e
  logged : ∀ (j : Nat), Event.resp j ∈ s.log → ∃ t : Thread, s.threads[j]? = some t ∧ t.proof ∈ storedProofs s ∧ t.pc = .responded
  active : ∀ t : Thread, s.threads[i]? = some t → AOk s t

/-- nobody is in the middle of anything -/
structure Quiet (s : St) : Prop where
  pcs : ∀ (j : Nat) (t : Thread), s.threads[j]? = some t → QuietPc t.pc
  sealer : s.sealer = .idle ∨ s.sealer = .done
  flushed : s.flushed = true → s.sealed_ = true
  sealedSome : s.sealed_ = true → s.stored.isSome = true
  stored : ∀ e, s.stored = some e → StoredOk s e
  logged : ∀ (j : Nat), Event.resp j ∈ s.log → ∃ t : Thread, s.threads[j]? = some t ∧ t.proof ∈ storedProofs s ∧ t.pc = .responded

theorem sinv_of_quiet (i : Nat) (s : St) (h : Quiet s) : SInv i s := by
  refine ⟨fun j t _ hj => h.pcs j t hj, h.sealer, h.flushed, h.sealedSome, h.stored, h.logged, ?_⟩
  intro t ht
  have := h.pcs i t ht
  unfold AOk
  rcases this with e | e | e <;> simp [e]

theorem quiet_of_sinv (i : Nat) (s : St) (h : SInv i s)
    (hq : ∀ t, s.threads[i]? = some t → QuietPc t.pc) : Quiet s := by
  refine ⟨?_, h.sealer, h.flushed, h.sealedSome, h.stored, h.logged⟩
  intro j t hj
  by_cases hji : j = i
  · subst hji; exact hq t hj
  · exact h.others j t hji hj

end ConcRelay

namespace ConcRelay

theorem aok_setThread (s : St) (i : Nat) (tn t : Thread) : AOk (setThread s i tn) t = AOk s t := rfl
theorem storedOk_setThread (s : St) (i : Nat) (tn : Thread) (e : Ev) : StoredOk (setThread s i tn) e = StoredOk s e := rfl
theorem storedProofs_setThread (s : St) (i : Nat) (tn : Thread) : storedProofs (setThread s i tn) = storedProofs s := rfl

/-- re-establishing the invariant after the active relay `i` moved from `t` to `tnew` over the
shared state `s1` -/
theorem sinv_setThread (s s1 : St) (i : Nat) (t tnew : Thread) (h : SInv i s)
    (ht : s.threads[i]? = some t) (hnr : t.pc ≠ .responded)
    (hthreads : s1.threads = s.threads) (hsealer : s1.sealer = s.sealer)
    (hflushed : s1.flushed = true → s1.sealed_ = true)
    (hss : s1.sealed_ = true → s1.stored.isSome = true)
    (hstored : ∀ e, s1.stored = some e → StoredOk s1 e)
    (hmono : ∀ p, p ∈ storedProofs s → p ∈ storedProofs s1)
    (hlog : s1.log = s.log ∨ (s1.log = .resp i :: s.log ∧ tnew.pc = .responded ∧ tnew.proof ∈ storedProofs s1))
    (hact : AOk s1 tnew) : SInv i (setThread s1 i tnew) := by
  have hset : (setThread s1 i tnew).threads[i]? = some tnew := by
    simp only [setThread, hthreads]; exact set_get ht tnew
  have hne : ∀ j, j ≠ i → (setThread s1 i tnew).threads[j]? = s.threads[j]? := by
    intro j hj
    simp only [setThread, hthreads]
    rw [List.getElem?_set_ne (fun e => hj e.symm)]
  have hnot : Event.resp i ∉ s.log := by
    intro hin
    obtain ⟨t', ht', _, hp⟩ := h.logged i hin
    rw [ht] at ht'; cases ht'; exact hnr hp
  refine ⟨?_, by simpa [setThread, hsealer] using h.sealer, hflushed, hss, hstored, ?_, ?_⟩
  · intro j t' hj ht'
    rw [hne j hj] at ht'
    exact h.others j t' hj ht'
  · intro j hj
    have hj' : Event.resp j ∈ s1.log := hj
    rcases hlog with hl | ⟨hl, hpc, hpr⟩
    · rw [hl] at hj'
      obtain ⟨t', ht', hp, hpc⟩ := h.logged j hj'
      have hji : j ≠ i := by intro e; subst e; exact hnot hj'
      exact ⟨t', by rw [hne j hji]; exact ht', hmono _ hp, hpc⟩
    · rw [hl] at hj'
      rcases List.mem_cons.mp hj' with e | hj''
      · cases e
        exact ⟨tnew, hset, hpr, hpc⟩
      · obtain ⟨t', ht', hp, hpc'⟩ := h.logged j hj''
        have hji : j ≠ i := by intro e; subst e; exact hnot hj''
        exact ⟨t', by rw [hne j hji]; exact ht', hmono _ hp, hpc'⟩
  · intro t' ht'
    rw [hset] at ht'
    cases ht'
    exact hact

end ConcRelay

namespace ConcRelay

theorem step_relay_some (s : St) (i : Nat) (a : Act) (t : Thread) (ht : s.threads[i]? = some t) :
    step s (.relay i a) =
      match a, t.pc with
      | .validate, .start =>
        let r := getEvidence s
        let ok := !r.2.sealed_ && !(bloomOf r.2 r.1.bloom).contains t.proof && decide (r.1.n < r.2.max)
        setThread r.2 i { t with pc := if ok then .validated else .rejected }
      | .get, .validated =>
        let r := getEvidence s
        setThread r.2 i { t with pc := .got, loc := r.1 }
      | .add, .got =>
        setThread { s with blooms := s.blooms.set t.loc.bloom (bloomOf s t.loc.bloom ++ [t.proof]) } i
          { t with pc := .added, loc := { t.loc with proofs := t.loc.proofs ++ [t.proof], n := t.loc.n + 1 } }
      | .set, .added =>
        setThread (if s.stored.isSome ∧ s.sealed_ then s else { s with stored := some t.loc, flushed := false }) i
          { t with pc := .stored }
      | .respond, .stored =>
        setThread { s with log := .resp i :: s.log } i { t with pc := .responded }
      | _, _ => s := by
  simp only [step, ht]
  cases a <;> cases hpc : t.pc <;> simp

theorem sinv_add (i : Nat) (s : St) (t : Thread) (h : SInv i s) (ht : s.threads[i]? = some t)
    (hpc : t.pc = .got) : SInv i (step s (.relay i .add)) := by
  have hact := h.active t ht
  unfold AOk at hact
  simp only [hpc] at hact
  cases hs : s.stored with
  | none =>
    simp only [hs] at hact
    obtain ⟨hp, hn, hb, hbl, hm⟩ := hact
    rw [step_relay_some s i .add t ht]
    simp only [hpc]
    refine sinv_setThread s _ i t _ h ht (by simp [hpc]) rfl rfl h.flushed h.sealedSome ?_ (fun p hp => hp) (Or.inl rfl) ?_
    · intro e he; simp [hs] at he
    · unfold AOk
      simp only [hs]
      refine ⟨by simp [hp], by simp [hn], by simpa using hb, ?_, hm⟩
      simp [bloomOf, hb]
  | some e =>
    simp only [hs] at hact
    obtain ⟨hl, hsl, hfl, hnb, hn⟩ := hact
    have hso := h.stored e hs
    obtain ⟨hnd, hlen, hle, hbid, hsub⟩ := hso
    have hbe : t.loc.bloom = e.bloom := by rw [hl]
    rw [step_relay_some s i .add t ht]
    simp only [hpc]
    refine sinv_setThread s _ i t _ h ht (by simp [hpc]) rfl rfl h.flushed h.sealedSome ?_ (fun p hp => hp) (Or.inl rfl) ?_
    · intro e' he'
      simp only [hs, Option.some.injEq] at he'
      subst he'
      refine ⟨hnd, hlen, hle, by simpa using hbid, ?_⟩
      intro p hp
      have := hsub p hp
      simp only [bloomOf, List.getD_eq_getElem?_getD, List.getElem?_eq_getElem hbid, Option.getD_some] at this
      simp [bloomOf, hbe, hbid, this]
    · unfold AOk
      simp only [hs]
      refine ⟨hsl, hfl, by rw [hl], by rw [hl], hbe, ?_, hn, ?_⟩
      · intro hin; exact hnb (hsub _ hin)
      · simp [bloomOf, hbe, hbid]

end ConcRelay

namespace ConcRelay

theorem sinv_set (i : Nat) (s : St) (t : Thread) (h : SInv i s) (ht : s.threads[i]? = some t)
    (hpc : t.pc = .added) : SInv i (step s (.relay i .set)) := by
  have hact := h.active t ht
  unfold AOk at hact
  simp only [hpc] at hact
  cases hs : s.stored with
  | none =>
    simp only [hs] at hact
    obtain ⟨hp, hn, hb, hbl, hm⟩ := hact
    rw [step_relay_some s i .set t ht]
    simp only [hpc]
    have hc : ¬ (s.stored.isSome = true ∧ s.sealed_ = true) := by simp [hs]
    rw [if_neg hc]
    refine sinv_setThread s _ i t _ h ht (by simp [hpc]) rfl rfl (by intro hf; cases hf)
      (fun _ => rfl) ?_ ?_ (Or.inl rfl) ?_
    · intro e he
      simp only [Option.some.injEq] at he
      subst he
      refine ⟨by simp [hp], by simp [hp, hn], by show t.loc.n ≤ s.max; omega, hb, ?_⟩
      intro p hpm
      rw [hp] at hpm
      simp only [List.mem_singleton] at hpm
      subst hpm
      exact hbl
    · intro p hpm; simp [storedProofs, hs] at hpm
    · unfold AOk
      simp [storedProofs, hp]
  | some e =>
    simp only [hs] at hact
    obtain ⟨hsl, hfl, hp, hn, hbe, hnin, hlt, hin⟩ := hact
    obtain ⟨hnd, hlen, hle, hbid, hsub⟩ := h.stored e hs
    rw [step_relay_some s i .set t ht]
    simp only [hpc]
    have hc : ¬ (s.stored.isSome = true ∧ s.sealed_ = true) := by simp [hsl]
    rw [if_neg hc]
    refine sinv_setThread s _ i t _ h ht (by simp [hpc]) rfl rfl (by intro hf; cases hf)
      (fun _ => rfl) ?_ ?_ (Or.inl rfl) ?_
    · intro e' he'
      simp only [Option.some.injEq] at he'
      subst he'
      refine ⟨?_, by simp [hp, hn, hlen], by show t.loc.n ≤ s.max; omega, by rw [hbe]; exact hbid, ?_⟩
      · rw [hp]
        exact List.nodup_append.mpr ⟨hnd, by simp, by
          intro x hx y hy; simp at hy; subst hy; exact fun e => hnin (e ▸ hx)⟩
      · intro p hpm
        rw [hp] at hpm
        rw [hbe]
        rcases List.mem_append.mp hpm with hpm | hpm
        · exact hsub p hpm
        · simp only [List.mem_singleton] at hpm; subst hpm; exact hin
    · intro p hpm
      simp only [storedProofs, hs, Option.map_some, Option.getD_some] at hpm
      simp only [storedProofs, Option.map_some, Option.getD_some, hp]
      exact List.mem_append_left _ hpm
    · unfold AOk
      simp [storedProofs, hp]

theorem sinv_respond (i : Nat) (s : St) (t : Thread) (h : SInv i s) (ht : s.threads[i]? = some t)
    (hpc : t.pc = .stored) : SInv i (step s (.relay i .respond)) := by
  have hact := h.active t ht
  unfold AOk at hact
  simp only [hpc] at hact
  rw [step_relay_some s i .respond t ht]
  simp only [hpc]
  refine sinv_setThread s _ i t _ h ht (by simp [hpc]) rfl rfl h.flushed h.sealedSome h.stored
    (fun p hp => hp) (Or.inr ⟨rfl, rfl, hact⟩) ?_
  unfold AOk
  trivial

end ConcRelay

namespace ConcRelay

/-- state-level part of the invariant (everything but the threads) -/
structure ShOk (s : St) : Prop where
  flushed : s.flushed = true → s.sealed_ = true
  sealedSome : s.sealed_ = true → s.stored.isSome = true
  stored : ∀ e, s.stored = some e → StoredOk s e

theorem getEvidence_none (s : St) (hs : s.stored = none) :
    getEvidence s = (⟨[], 0, s.blooms.length⟩, { s with blooms := s.blooms ++ [[]] }) := by
  simp [getEvidence, hs]

theorem getEvidence_plain (s : St) (e : Ev) (hs : s.stored = some e) (hf : s.flushed = false)
    (hsl : s.sealed_ = false) (hm : ¬ (s.max ≠ 0 ∧ e.n ≥ s.max)) : getEvidence s = (e, s) := by
  simp [getEvidence, hs, hf, hsl, hm]

theorem getEvidence_flushed (s : St) (e : Ev) (hs : s.stored = some e) (hf : s.flushed = true)
    (hsl : s.sealed_ = true) :
    getEvidence s = ({ e with bloom := s.blooms.length },
      { s with blooms := s.blooms ++ [bloomOf s e.bloom], stored := some { e with bloom := s.blooms.length },
               flushed := false }) := by
  simp [getEvidence, hs, hf, hsl]

theorem getEvidence_sealed (s : St) (e : Ev) (hs : s.stored = some e) (hf : s.flushed = false)
    (hsl : s.sealed_ = true) : getEvidence s = (e, s) := by
  simp [getEvidence, hs, hf, hsl]

theorem getEvidence_sealing (s : St) (e : Ev) (hs : s.stored = some e) (hf : s.flushed = false)
    (hsl : s.sealed_ = false) (hm : s.max ≠ 0 ∧ e.n ≥ s.max) :
    getEvidence s = (e, { s with sealed_ := true }) := by
  simp [getEvidence, hs, hf, hsl, hm]

/-- the five ways `GetEvidence` can go in a state where flushed implies sealed -/
theorem getEvidence_cases (s : St) (hfs : s.flushed = true → s.sealed_ = true) :
    (s.stored = none ∧ getEvidence s = (⟨[], 0, s.blooms.length⟩, { s with blooms := s.blooms ++ [[]] })) ∨
    (∃ e, s.stored = some e ∧ s.flushed = true ∧ s.sealed_ = true ∧
      getEvidence s = ({ e with bloom := s.blooms.length },
        { s with blooms := s.blooms ++ [bloomOf s e.bloom], stored := some { e with bloom := s.blooms.length }, flushed := false })) ∨
    (∃ e, s.stored = some e ∧ s.flushed = false ∧ s.sealed_ = true ∧ getEvidence s = (e, s)) ∨
    (∃ e, s.stored = some e ∧ s.flushed = false ∧ s.sealed_ = false ∧ (s.max ≠ 0 ∧ e.n ≥ s.max) ∧
      getEvidence s = (e, { s with sealed_ := true })) ∨
    (∃ e, s.stored = some e ∧ s.flushed = false ∧ s.sealed_ = false ∧ ¬ (s.max ≠ 0 ∧ e.n ≥ s.max) ∧
      getEvidence s = (e, s)) := by
  cases hs : s.stored with
  | none => exact Or.inl ⟨rfl, by rw [getEvidence_none s hs]; simp [hs]⟩
  | some e =>
    by_cases hfl : s.flushed = true
    · exact Or.inr (Or.inl ⟨e, rfl, hfl, hfs hfl, by rw [getEvidence_flushed s e hs hfl (hfs hfl)]⟩)
    · have hfl' : s.flushed = false := by simpa using hfl
      by_cases hsl : s.sealed_ = true
      · exact Or.inr (Or.inr (Or.inl ⟨e, rfl, hfl', hsl, getEvidence_sealed s e hs hfl' hsl⟩))
      · have hsl' : s.sealed_ = false := by simpa using hsl
        by_cases hmx : s.max ≠ 0 ∧ e.n ≥ s.max
        · exact Or.inr (Or.inr (Or.inr (Or.inl ⟨e, rfl, hfl', hsl', hmx, by rw [getEvidence_sealing s e hs hfl' hsl' hmx]; simp [hs]⟩)))
        · exact Or.inr (Or.inr (Or.inr (Or.inr ⟨e, rfl, hfl', hsl', hmx, getEvidence_plain s e hs hfl' hsl' hmx⟩)))

theorem getEvidence_frame (s : St) (hfs : s.flushed = true → s.sealed_ = true) :
    (getEvidence s).2.threads = s.threads ∧ (getEvidence s).2.sealer = s.sealer ∧
    (getEvidence s).2.log = s.log ∧ (getEvidence s).2.max = s.max ∧
    storedProofs (getEvidence s).2 = storedProofs s := by
  rcases getEvidence_cases s hfs with ⟨hs, e⟩ | ⟨e, hs, _, _, eq⟩ | ⟨e, hs, _, _, eq⟩ | ⟨e, hs, _, _, _, eq⟩ | ⟨e, hs, _, _, _, eq⟩
  · rw [e]; simp [storedProofs, hs]
  · rw [eq]; simp [storedProofs, hs]
  · rw [eq]; simp
  · rw [eq]; simp [storedProofs, hs]
  · rw [eq]; simp

theorem getEvidence_shok (s : St) (h : ShOk s) : ShOk (getEvidence s).2 := by
  rcases getEvidence_cases s h.flushed with ⟨hs, eq⟩ | ⟨e, hs, hf, hsl, eq⟩ | ⟨e, hs, _, _, eq⟩ | ⟨e, hs, hf, _, _, eq⟩ | ⟨e, hs, _, _, _, eq⟩
  · rw [eq]
    refine ⟨fun hf => h.flushed hf, ?_, ?_⟩
    · intro hsl; have := h.sealedSome hsl; simp [hs] at this
    · intro e he; simp [hs] at he
  · rw [eq]
    obtain ⟨hnd, hlen, hle, hbid, hsub⟩ := h.stored e hs
    refine ⟨(by intro hh; cases hh), fun _ => rfl, ?_⟩
    intro e' he'
    simp only [Option.some.injEq] at he'
    subst he'
    refine ⟨hnd, hlen, hle, (by simp), ?_⟩
    intro p hp
    have := hsub p hp
    simpa [bloomOf] using this
  · rw [eq]; exact h
  · rw [eq]
    obtain ⟨hnd, hlen, hle, hbid, hsub⟩ := h.stored e hs
    refine ⟨fun hh => absurd hh (by simp [hf]), fun _ => by simp [hs], ?_⟩
    intro e' he'
    simp only [hs, Option.some.injEq] at he'
    subst he'
    exact ⟨hnd, hlen, hle, hbid, hsub⟩
  · rw [eq]; exact h

/-- if the state is not sealed after `GetEvidence`, nothing happened -/
theorem getEvidence_unsealed (s : St) (h : ShOk s) (e : Ev) (hs : s.stored = some e)
    (hu : (getEvidence s).2.sealed_ = false) : getEvidence s = (e, s) ∧ s.sealed_ = false ∧
      s.flushed = false ∧ ¬ (s.max ≠ 0 ∧ e.n ≥ s.max) := by
  rcases getEvidence_cases s h.flushed with ⟨hs', _⟩ | ⟨e', hs', _, _, eq⟩ | ⟨e', hs', _, hsl, eq⟩ | ⟨e', hs', _, _, _, eq⟩ | ⟨e', hs', hf, hsl, hm, eq⟩
  · rw [hs] at hs'; cases hs'
  · rw [eq] at hu; simp at hu; rename_i h1 h2; rw [h2] at hu; cases hu
  · rw [eq] at hu; rw [hsl] at hu; cases hu
  · rw [eq] at hu; simp at hu
  · rw [hs] at hs'; cases hs'
    exact ⟨eq, hsl, hf, hm⟩

end ConcRelay

namespace ConcRelay

theorem shok_of_sinv {i : Nat} {s : St} (h : SInv i s) : ShOk s := ⟨h.flushed, h.sealedSome, h.stored⟩

theorem sinv_validate (i : Nat) (s : St) (t : Thread) (h : SInv i s) (ht : s.threads[i]? = some t)
    (hpc : t.pc = .start) : SInv i (step s (.relay i .validate)) := by
  have hsh := shok_of_sinv h
  have hsh' := getEvidence_shok s hsh
  obtain ⟨f1, f2, f3, f4, f5⟩ := getEvidence_frame s h.flushed
  rw [step_relay_some s i .validate t ht]
  simp only [hpc]
  refine sinv_setThread s _ i t _ h ht (by simp [hpc]) f1 f2 hsh'.flushed hsh'.sealedSome hsh'.stored
    (fun p hp => by rw [f5]; exact hp) (Or.inl f3) ?_
  by_cases hok : (!(getEvidence s).2.sealed_ && !(bloomOf (getEvidence s).2 (getEvidence s).1.bloom).contains t.proof &&
      decide ((getEvidence s).1.n < (getEvidence s).2.max)) = true
  · rw [if_pos hok]
    simp only [Bool.and_eq_true, Bool.not_eq_true', decide_eq_true_eq] at hok
    obtain ⟨⟨hus, hnb⟩, hlt⟩ := hok
    cases hs : s.stored with
    | none =>
      have eq := getEvidence_none s hs
      have hst : (getEvidence s).2.stored = none := by rw [eq]; exact hs
      unfold AOk
      simp only [hst]
      omega
    | some e =>
      obtain ⟨eq, hsl, hfl, hm⟩ := getEvidence_unsealed s hsh e hs hus
      rw [eq] at hnb hlt ⊢
      unfold AOk
      simp only [hs]
      exact ⟨hsl, hfl, by simpa using hnb, hlt⟩
  · rw [if_neg hok]
    unfold AOk
    simp

theorem sinv_get (i : Nat) (s : St) (t : Thread) (h : SInv i s) (ht : s.threads[i]? = some t)
    (hpc : t.pc = .validated) : SInv i (step s (.relay i .get)) := by
  have hsh := shok_of_sinv h
  have hsh' := getEvidence_shok s hsh
  obtain ⟨f1, f2, f3, f4, f5⟩ := getEvidence_frame s h.flushed
  have hact := h.active t ht
  unfold AOk at hact
  simp only [hpc] at hact
  rw [step_relay_some s i .get t ht]
  simp only [hpc]
  refine sinv_setThread s _ i t _ h ht (by simp [hpc]) f1 f2 hsh'.flushed hsh'.sealedSome hsh'.stored
    (fun p hp => by rw [f5]; exact hp) (Or.inl f3) ?_
  cases hs : s.stored with
  | none =>
    simp only [hs] at hact
    have eq := getEvidence_none s hs
    rw [eq]
    unfold AOk
    simp only [hs]
    refine ⟨trivial, trivial, by simp, by simp [bloomOf], hact⟩
  | some e =>
    simp only [hs] at hact
    obtain ⟨hsl, hfl, hnb, hn⟩ := hact
    have eq := getEvidence_plain s e hs hfl hsl (by omega)
    rw [eq]
    unfold AOk
    simp only [hs]
    exact ⟨trivial, hsl, hfl, hnb, hn⟩

/-- every step of the active relay keeps the sequential invariant -/
theorem sinv_step (i : Nat) (s : St) (a : Act) (h : SInv i s) : SInv i (step s (.relay i a)) := by
  cases ht : s.threads[i]? with
  | none => simp only [step, ht]; exact h
  | some t =>
    cases a <;> cases hpc : t.pc
    all_goals first
      | exact sinv_validate i s t h ht hpc
      | exact sinv_get i s t h ht hpc
      | exact sinv_add i s t h ht hpc
      | exact sinv_set i s t h ht hpc
      | exact sinv_respond i s t h ht hpc
      | (rw [step_relay_some s i _ t ht]; simp only [hpc]; exact h)

end ConcRelay

namespace ConcRelay

theorem threads_getEvidence (s : St) : (getEvidence s).2.threads = s.threads := by
  unfold getEvidence
  cases hs : s.stored with
  | none => rfl
  | some e =>
    by_cases hfl : s.flushed = true <;> by_cases hsl : s.sealed_ = true <;>
      by_cases hmx : s.max ≠ 0 ∧ e.n ≥ s.max <;> simp [hfl, hsl, hmx]

def nextPcs : Act → Pc → List Pc
  | .validate, .start => [.validated, .rejected]
  | .get, .validated => [.got]
  | .add, .got => [.added]
  | .set, .added => [.stored]
  | .respond, .stored => [.responded]
  | _, pc => [pc]

theorem pc_after (s : St) (i : Nat) (a : Act) (t : Thread) (ht : s.threads[i]? = some t) :
    ∃ t', (step s (.relay i a)).threads[i]? = some t' ∧
      ((a = .validate ∧ t.pc = .start ∧ (t'.pc = .validated ∨ t'.pc = .rejected)) ∨
       (a = .get ∧ t.pc = .validated ∧ t'.pc = .got) ∨
       (a = .add ∧ t.pc = .got ∧ t'.pc = .added) ∨
       (a = .set ∧ t.pc = .added ∧ t'.pc = .stored) ∨
       (a = .respond ∧ t.pc = .stored ∧ t'.pc = .responded) ∨
       (t' = t ∧ nextPcs a t.pc = [t.pc])) := by
  rw [step_relay_some s i a t ht]
  cases a <;> cases hpc : t.pc <;> simp only
  all_goals first
    | exact ⟨t, ht, by simp [nextPcs, hpc]⟩
    | skip
  · -- validate, start
    refine ⟨_, by simp only [setThread, threads_getEvidence]; exact set_get ht _, ?_⟩
    split <;> simp
  · exact ⟨_, by simp only [setThread, threads_getEvidence]; exact set_get ht _, by simp⟩
  · exact ⟨_, by simp only [setThread]; exact set_get ht _, by simp⟩
  · refine ⟨{ t with pc := .stored }, ?_, by simp⟩
    simp only [setThread]
    split <;> exact set_get ht _
  · exact ⟨_, by simp only [setThread]; exact set_get ht _, by simp⟩

end ConcRelay

namespace ConcRelay

theorem pc_next (s : St) (i : Nat) (a : Act) (t : Thread) (ht : s.threads[i]? = some t) :
    ∃ t', (step s (.relay i a)).threads[i]? = some t' ∧ t'.pc ∈ nextPcs a t.pc := by
  obtain ⟨t', h1, h2⟩ := pc_after s i a t ht
  refine ⟨t', h1, ?_⟩
  rcases h2 with ⟨rfl, hp, h⟩ | ⟨rfl, hp, h⟩ | ⟨rfl, hp, h⟩ | ⟨rfl, hp, h⟩ | ⟨rfl, hp, h⟩ | ⟨rfl, hn⟩
  · rw [hp]; rcases h with h | h <;> simp [nextPcs, h]
  · rw [hp, h]; simp [nextPcs]
  · rw [hp, h]; simp [nextPcs]
  · rw [hp, h]; simp [nextPcs]
  · rw [hp, h]; simp [nextPcs]
  · rw [hn]; simp

/-- after its block a relay that was at `start` has responded or was rejected -/
theorem block_pc (s : St) (i : Nat) (t : Thread) (ht : s.threads[i]? = some t) (hpc : t.pc = .start) :
    ∃ t', (run s (relayBlock i)).threads[i]? = some t' ∧ (t'.pc = .responded ∨ t'.pc = .rejected) := by
  simp only [relayBlock, run]
  obtain ⟨t1, h1, p1⟩ := pc_next s i .validate t ht
  rw [hpc] at p1
  obtain ⟨t2, h2, p2⟩ := pc_next _ i .get t1 h1
  obtain ⟨t3, h3, p3⟩ := pc_next _ i .add t2 h2
  obtain ⟨t4, h4, p4⟩ := pc_next _ i .set t3 h3
  obtain ⟨t5, h5, p5⟩ := pc_next _ i .respond t4 h4
  refine ⟨t5, h5, ?_⟩
  simp only [nextPcs, List.mem_cons, List.mem_nil_iff, or_false] at p1
  rcases p1 with p1 | p1
  · rw [p1] at p2; simp only [nextPcs, List.mem_cons, List.mem_nil_iff, or_false] at p2
    rw [p2] at p3; simp only [nextPcs, List.mem_cons, List.mem_nil_iff, or_false] at p3
    rw [p3] at p4; simp only [nextPcs, List.mem_cons, List.mem_nil_iff, or_false] at p4
    rw [p4] at p5; simp only [nextPcs, List.mem_cons, List.mem_nil_iff, or_false] at p5
    exact Or.inl p5
  · rw [p1] at p2; simp only [nextPcs, List.mem_cons, List.mem_nil_iff, or_false] at p2
    rw [p2] at p3; simp only [nextPcs, List.mem_cons, List.mem_nil_iff, or_false] at p3
    rw [p3] at p4; simp only [nextPcs, List.mem_cons, List.mem_nil_iff, or_false] at p4
    rw [p4] at p5; simp only [nextPcs, List.mem_cons, List.mem_nil_iff, or_false] at p5
    exact Or.inr p5

theorem sinv_block (i : Nat) (s : St) (h : SInv i s) : SInv i (run s (relayBlock i)) := by
  simp only [relayBlock, run]
  exact sinv_step i _ _ (sinv_step i _ _ (sinv_step i _ _ (sinv_step i _ _ (sinv_step i _ _ h))))

theorem quiet_relayBlock (i : Nat) (s : St) (h : Quiet s) : Quiet (run s (relayBlock i)) := by
  cases ht : s.threads[i]? with
  | none => rw [run_block_none s i ht]; exact h
  | some t =>
    rcases h.pcs i t ht with hpc | hpc | hpc
    · have hs := sinv_block i s (sinv_of_quiet i s h)
      obtain ⟨t', ht', hq⟩ := block_pc s i t ht hpc
      refine quiet_of_sinv i _ hs ?_
      intro t'' ht''
      rw [ht'] at ht''; cases ht''
      rcases hq with hq | hq
      · exact Or.inr (Or.inl hq)
      · exact Or.inr (Or.inr hq)
    · rw [run_block_done s i t ht (Or.inl hpc)]; exact h
    · rw [run_block_done s i t ht (Or.inr hpc)]; exact h

end ConcRelay

namespace ConcRelay

theorem quiet_claimBlock (s : St) (h : Quiet s) : Quiet (run s claimBlock) := by
  simp only [claimBlock, run]
  rcases h.sealer with hsl | hsl
  · cases hs : s.stored with
    | none =>
      -- nothing to claim: both steps are no-ops
      have e1 : step s .cread = s := by simp [step, hsl, hs]
      rw [e1]
      have e2 : step s .cseal = s := by simp [step, hsl]
      rw [e2]; exact h
    | some e =>
      obtain ⟨hnd, hlen, hle, hbid, hsub⟩ := h.stored e hs
      have hsub' : ∀ p ∈ e.proofs, p ∈ s.blooms[e.bloom] := by
        intro p hp
        have := hsub p hp
        simpa [bloomOf, List.getD_eq_getElem?_getD, List.getElem?_eq_getElem hbid] using this
      have e1 : step s .cread = { s with flushed := true, blooms := s.blooms ++ [bloomOf s e.bloom], snap := { e with bloom := s.blooms.length }, sealer := SealerPc.read } := by
        simp [step, hsl, hs]
      rw [e1]
      by_cases hse : s.sealed_ = true
      · have e2 : step { s with flushed := true, blooms := s.blooms ++ [bloomOf s e.bloom], snap := { e with bloom := s.blooms.length }, sealer := SealerPc.read } .cseal = { s with flushed := true, blooms := s.blooms ++ [bloomOf s e.bloom], snap := { e with bloom := s.blooms.length }, sealer := SealerPc.done } := by
          simp [step, hse]
        rw [e2]
        refine ⟨h.pcs, Or.inr rfl, fun _ => hse, h.sealedSome, ?_, h.logged⟩
        intro e' he'
        have : e' = e := by
          have : s.stored = some e' := he'
          rw [hs] at this; exact (Option.some.inj this).symm
        subst this
        refine ⟨hnd, hlen, hle, by simp; omega, ?_⟩
        intro p hp
        have := hsub p hp
        simpa [bloomOf, List.getElem?_append_left hbid] using this
      · have e2 : step { s with flushed := true, blooms := s.blooms ++ [bloomOf s e.bloom], snap := { e with bloom := s.blooms.length }, sealer := SealerPc.read } .cseal = { s with flushed := false, blooms := s.blooms ++ [bloomOf s e.bloom], snap := { e with bloom := s.blooms.length }, sealer := SealerPc.done, sealed_ := true, stored := some { e with bloom := s.blooms.length }, log := Event.seal :: s.log } := by
          simp [step, hse]
        rw [e2]
        refine ⟨h.pcs, Or.inr rfl, (fun hf => by cases hf), fun _ => rfl, ?_, ?_⟩
        · intro e' he'
          simp only [Option.some.injEq] at he'
          subst he'
          refine ⟨hnd, hlen, hle, by simp, ?_⟩
          intro p hp
          have := hsub p hp
          simpa [bloomOf] using this
        · intro j hj
          simp only [List.mem_cons] at hj
          rcases hj with hj | hj
          · cases hj
          · obtain ⟨t, ht, hp, hpc⟩ := h.logged j hj
            refine ⟨t, ht, ?_, hpc⟩
            simpa [storedProofs, hs] using hp
  · have e1 : step s .cread = s := by simp [step, hsl]
    rw [e1]
    have e2 : step s .cseal = s := by simp [step, hsl]
    rw [e2]; exact h

theorem quiet_init (max : Nat) (ids : List P) : Quiet (init max ids) := by
  refine ⟨?_, Or.inl rfl, by simp [init], by simp [init], by simp [init], by simp [init]⟩
  intro j t hj
  simp only [init, List.getElem?_map, Option.map_eq_some_iff] at hj
  obtain ⟨p, _, rfl⟩ := hj
  exact Or.inl rfl

theorem quiet_seq (turns : List Turn) : ∀ s, Quiet s → Quiet (run s (seqSched turns)) := by
  induction turns with
  | nil => intro s h; exact h
  | cons tn ts ih =>
    intro s h
    cases tn with
    | relay i => simp only [seqSched, run_append]; exact ih _ (quiet_relayBlock i s h)
    | claim => simp only [seqSched, run_append]; exact ih _ (quiet_claimBlock s h)

theorem mem_respondedBeforeSeal (s : St) (i : Nat) (h : i ∈ respondedBeforeSeal s) : Event.resp i ∈ s.log := by
  unfold respondedBeforeSeal at h
  simp only [List.mem_filterMap] at h
  obtain ⟨e, he, hi⟩ := h
  have := List.Sublist.mem he (List.takeWhile_sublist _)
  rw [List.mem_reverse] at this
  match e, hi, this with
  | .resp j, hi, this => simp at hi; subst hi; exact this
  | .seal, hi, _ => simp at hi

theorem exact_of_quiet (s : St) (h : Quiet s) : exact s = true := by
  unfold exact noDup withinLimit recorded
  simp only [Bool.and_eq_true, decide_eq_true_eq, List.all_eq_true]
  refine ⟨⟨?_, ?_⟩, ?_⟩
  · unfold storedProofs
    cases hs : s.stored with
    | none => simp
    | some e => simpa using (h.stored e hs).1
  · unfold storedProofs storedN
    cases hs : s.stored with
    | none => simp
    | some e =>
      obtain ⟨_, hlen, hle, _, _⟩ := h.stored e hs
      simp; omega
  · intro i hi
    obtain ⟨t, ht, hp, _⟩ := h.logged i (mem_respondedBeforeSeal s i hi)
    simp [ht, hp]

end ConcRelay
