import Proofs.Ledger.AppsPool
/-!
# Duplicate entries of the unstaking queue are harmless (for the code as it is)

`SetApplication` appends an unstaking application's address to its queue slot on **every** call
(`JailApplication` / `UnjailApplication` on an unstaking record, `ConvertState` at the codec-upgrade
height), so an address can occur several times among the mature entries.  The end blocker re-reads
and re-validates the record at every occurrence, so only the first one pays.
-/
namespace Apps

/-- the record of `a` is one the end blocker would finish -/
def Finishable (s : St) (a : Addr) : Prop :=
  ∃ app, get s.apps a = some app ∧ app.status = stUnstaking ∧ app.jailed = false

theorem matureOne_noop {s : St} {a : Addr} (h : ¬ Finishable s a) : matureOne s a = s := by
  unfold matureOne
  cases hcur : get s.apps a with
  | none => rfl
  | some app =>
    simp only
    by_cases hst : app.status = stUnstaking
    · simp only [hst, ne_eq, not_true_eq_false, if_false]
      cases hj : app.jailed with
      | true => simp
      | false => exact absurd ⟨app, hcur, hst, hj⟩ h
    · simp [hst]

theorem finishUnstaking_get (s : St) (a : Addr) (app : App) (b : Addr) :
    get (finishUnstaking s a app).apps b = if a = b then none else get s.apps b := by
  unfold finishUnstaking
  simp only [deleteApplication_apps, setApplication_apps, del_put_self, get_del]
  cases hfp : fromPool { s with queue := queueRemove s.queue app.unstakingTime a } a app.tokens with
  | none => rfl
  | some x => simp only [(fromPool_spec hfp).1]

theorem matureOne_get (s : St) (a b : Addr) :
    get (matureOne s a).apps b = get s.apps b ∨ (a = b ∧ get (matureOne s a).apps b = none) := by
  unfold matureOne
  cases hcur : get s.apps a with
  | none => exact Or.inl rfl
  | some app =>
    simp only
    split
    · exact Or.inl rfl
    · split
      · exact Or.inl rfl
      · rw [finishUnstaking_get]
        by_cases hab : a = b
        · exact Or.inr ⟨hab, by simp [hab]⟩
        · exact Or.inl (by simp [hab])

/-- after its first visit an address is never finishable again -/
theorem not_finishable_after (s : St) (a : Addr) : ¬ Finishable (matureOne s a) a := by
  by_cases h : Finishable s a
  · obtain ⟨app, hcur, hst, hj⟩ := h
    have : matureOne s a = finishUnstaking s a app := by
      unfold matureOne; simp [hcur, hst, hj]
    rw [this]
    rintro ⟨x, hx, _⟩
    rw [finishUnstaking_get] at hx
    simp at hx
  · rw [matureOne_noop h]; exact h

/-- visiting other addresses cannot make an address finishable -/
theorem not_finishable_preserved {s : St} {a : Addr} (h : ¬ Finishable s a) (b : Addr) : ¬ Finishable (matureOne s b) a := by
  rintro ⟨x, hx, hs, hj⟩
  rcases matureOne_get s b a with e | ⟨_, e⟩
  · rw [e] at hx; exact h ⟨x, hx, hs, hj⟩
  · rw [e] at hx; cases hx

theorem not_finishable_after_list (l : List Addr) (s : St) (a : Addr) (ha : a ∈ l) :
    ¬ Finishable (l.foldl matureOne s) a := by
  induction l generalizing s with
  | nil => cases ha
  | cons b l ih =>
    simp only [List.foldl_cons]
    by_cases hal : a ∈ l
    · exact ih (matureOne s b) hal
    · have hb : a = b := by
        rcases List.mem_cons.mp ha with h | h
        · exact h
        · exact absurd h hal
      subst hb
      -- a was just visited; the remaining visits are of other addresses
      have key : ∀ (l : List Addr) (t : St), ¬ Finishable t a → ¬ Finishable (l.foldl matureOne t) a := by
        intro l
        induction l with
        | nil => intro t h; exact h
        | cons c l ih2 => intro t h; exact ih2 (matureOne t c) (not_finishable_preserved h c)
      exact key l (matureOne s a) (not_finishable_after s a)

/-- **A duplicate queue entry is harmless**: visiting an address again after the slot (or an
earlier slot) already contained it changes nothing — no second payout, no second delete. -/
theorem dup_entry_noop (l : List Addr) (s : St) (a : Addr) (ha : a ∈ l) :
    (l ++ [a]).foldl matureOne s = l.foldl matureOne s := by
  rw [List.foldl_append]
  simp only [List.foldl_cons, List.foldl_nil]
  exact matureOne_noop (not_finishable_after_list l s a ha)

theorem matureOne_idem (s : St) (a : Addr) : matureOne (matureOne s a) a = matureOne s a :=
  matureOne_noop (not_finishable_after s a)

end Apps
