import Proofs.Ledger.NodesBasic
import Proofs.Basic.Bytes
/-!
# The staked-set order (reverse key order of prefix 0x23) and its insertion sort
-/
namespace Nodes

theorem stakedBefore_total (x y : Int × Addr) : stakedBefore x y = true ∨ stakedBefore y x = true := by
  unfold stakedBefore
  simp only [Bool.or_eq_true, Bool.and_eq_true, decide_eq_true_eq]
  rcases Int.lt_trichotomy x.1 y.1 with h | h | h
  · right; left; omega
  · rcases Bytes.le_total x.2 y.2 with e | e
    · left; right; exact ⟨h, e⟩
    · right; right; exact ⟨h.symm, e⟩
  · left; left; omega

theorem stakedBefore_trans {x y z : Int × Addr} (h1 : stakedBefore x y = true) (h2 : stakedBefore y z = true) :
    stakedBefore x z = true := by
  unfold stakedBefore at *
  simp only [Bool.or_eq_true, Bool.and_eq_true, decide_eq_true_eq] at *
  rcases h1 with a | ⟨a1, a2⟩ <;> rcases h2 with b | ⟨b1, b2⟩
  · left; omega
  · left; omega
  · left; omega
  · right; exact ⟨by omega, Bytes.le_trans a2 b2⟩

theorem stakedBefore_antisymm {x y : Int × Addr} (h1 : stakedBefore x y = true) (h2 : stakedBefore y x = true) : x = y := by
  unfold stakedBefore at *
  simp only [Bool.or_eq_true, Bool.and_eq_true, decide_eq_true_eq] at *
  rcases h1 with a | ⟨a1, a2⟩ <;> rcases h2 with b | ⟨b1, b2⟩
  · omega
  · omega
  · omega
  · exact Prod.ext a1 (Bytes.le_antisymm a2 b2)

theorem mem_insertStaked (x : Int × Addr) (l : List (Int × Addr)) (y : Int × Addr) :
    y ∈ insertStaked x l ↔ y = x ∨ y ∈ l := by
  induction l with
  | nil => simp [insertStaked]
  | cons b t ih =>
    unfold insertStaked
    split
    · simp
    · simp only [List.mem_cons, ih]
      constructor
      · rintro (h | h | h)
        · exact Or.inr (Or.inl h)
        · exact Or.inl h
        · exact Or.inr (Or.inr h)
      · rintro (h | h | h)
        · exact Or.inr (Or.inl h)
        · exact Or.inl h
        · exact Or.inr (Or.inr h)

theorem mem_sortStaked (l : List (Int × Addr)) (y : Int × Addr) : y ∈ sortStaked l ↔ y ∈ l := by
  induction l with
  | nil => simp [sortStaked]
  | cons a t ih =>
    show y ∈ insertStaked a (sortStaked t) ↔ _
    rw [mem_insertStaked, ih]; simp

theorem nodup_insertStaked (x : Int × Addr) (l : List (Int × Addr)) (hl : l.Nodup) (hx : x ∉ l) :
    (insertStaked x l).Nodup := by
  induction l with
  | nil => simp [insertStaked]
  | cons b t ih =>
    unfold insertStaked
    simp only [List.nodup_cons] at hl
    split
    · exact List.nodup_cons.mpr ⟨hx, List.nodup_cons.mpr hl⟩
    · refine List.nodup_cons.mpr ⟨?_, ih hl.2 (fun h => hx (List.mem_cons_of_mem _ h))⟩
      rw [mem_insertStaked]
      rintro (h | h)
      · exact hx (h ▸ List.mem_cons_self)
      · exact hl.1 h

theorem nodup_sortStaked (l : List (Int × Addr)) (hl : l.Nodup) : (sortStaked l).Nodup := by
  induction l with
  | nil => simp [sortStaked]
  | cons a t ih =>
    simp only [List.nodup_cons] at hl
    show (insertStaked a (sortStaked t)).Nodup
    exact nodup_insertStaked a _ (ih hl.2) (by rw [mem_sortStaked]; exact hl.1)

theorem pairwise_insertStaked (x : Int × Addr) (l : List (Int × Addr))
    (hl : l.Pairwise (fun a b => stakedBefore a b = true)) :
    (insertStaked x l).Pairwise (fun a b => stakedBefore a b = true) := by
  induction l with
  | nil => simp [insertStaked]
  | cons b t ih =>
    unfold insertStaked
    rw [List.pairwise_cons] at hl
    split
    · rename_i hb
      rw [List.pairwise_cons]
      refine ⟨?_, List.pairwise_cons.mpr hl⟩
      intro y hy
      rcases List.mem_cons.mp hy with e | e
      · rw [e]; exact hb
      · exact stakedBefore_trans hb (hl.1 y e)
    · rename_i hb
      have hbx : stakedBefore b x = true := by
        rcases stakedBefore_total x b with h | h
        · exact absurd h hb
        · exact h
      rw [List.pairwise_cons]
      refine ⟨?_, ih hl.2⟩
      intro y hy
      rcases (mem_insertStaked x t y).mp hy with e | e
      · rw [e]; exact hbx
      · exact hl.1 y e

theorem pairwise_sortStaked (l : List (Int × Addr)) :
    (sortStaked l).Pairwise (fun a b => stakedBefore a b = true) := by
  induction l with
  | nil => simp [sortStaked]
  | cons a t ih => exact pairwise_insertStaked a _ ih

/-- a sorted duplicate-free list is determined by its elements -/
theorem sorted_unique {l1 l2 : List (Int × Addr)}
    (h1 : l1.Pairwise (fun a b => stakedBefore a b = true)) (h2 : l2.Pairwise (fun a b => stakedBefore a b = true))
    (n1 : l1.Nodup) (n2 : l2.Nodup) (hm : ∀ x, x ∈ l1 ↔ x ∈ l2) : l1 = l2 := by
  induction l1 generalizing l2 with
  | nil =>
    cases l2 with
    | nil => rfl
    | cons b t => exact absurd ((hm b).mpr List.mem_cons_self) (by simp)
  | cons a t1 ih =>
    cases l2 with
    | nil => exact absurd ((hm a).mp List.mem_cons_self) (by simp)
    | cons b t2 =>
      rw [List.pairwise_cons] at h1 h2
      simp only [List.nodup_cons] at n1 n2
      have hab : a = b := by
        rcases List.mem_cons.mp ((hm a).mp List.mem_cons_self) with e | e
        · exact e
        · rcases List.mem_cons.mp ((hm b).mpr List.mem_cons_self) with e' | e'
          · exact e'.symm
          · exact stakedBefore_antisymm (h1.1 b e') (h2.1 a e)
      subst hab
      congr 1
      apply ih h1.2 h2.2 n1.2 n2.2
      intro x
      constructor
      · intro hx
        rcases List.mem_cons.mp ((hm x).mp (List.mem_cons_of_mem _ hx)) with e | e
        · subst e; exact absurd hx n1.1
        · exact e
      · intro hx
        rcases List.mem_cons.mp ((hm x).mpr (List.mem_cons_of_mem _ hx)) with e | e
        · subst e; exact absurd hx n2.1
        · exact e

/-- sorting depends on the set of elements only -/
theorem sortStaked_congr {l1 l2 : List (Int × Addr)} (n1 : l1.Nodup) (n2 : l2.Nodup) (hm : ∀ x, x ∈ l1 ↔ x ∈ l2) :
    sortStaked l1 = sortStaked l2 :=
  sorted_unique (pairwise_sortStaked l1) (pairwise_sortStaked l2) (nodup_sortStaked l1 n1) (nodup_sortStaked l2 n2)
    (fun x => by rw [mem_sortStaked, mem_sortStaked]; exact hm x)

/-- a filtered sorted list is the sorted filtered list -/
theorem filter_sortStaked (p : Int × Addr → Bool) (l : List (Int × Addr)) (hn : l.Nodup) :
    (sortStaked l).filter p = sortStaked (l.filter p) :=
  sorted_unique ((pairwise_sortStaked l).filter _) (pairwise_sortStaked _) ((nodup_sortStaked l hn).filter _)
    (nodup_sortStaked _ (hn.filter _))
    (fun x => by rw [List.mem_filter, mem_sortStaked, mem_sortStaked, List.mem_filter])

end Nodes
