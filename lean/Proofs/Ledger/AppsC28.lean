import Proofs.Ledger.AppsAdmission
/-!
# C28 / C23-apps: what a successful application `MsgStake` can do
-/
namespace Apps

def StakedAt (s : St) (a : Addr) : Prop := ∃ r, get s.apps a = some r ∧ r.status = stStaked

def stakedAtB (s : St) (a : Addr) : Bool :=
  match get s.apps a with
  | some r => decide (r.status = stStaked)
  | none => false

theorem stakedAt_iff (s : St) (a : Addr) : StakedAt s a ↔ stakedAtB s a = true := by
  unfold StakedAt stakedAtB
  cases h : get s.apps a with
  | none => simp
  | some r => simp

/-- the empty ledger satisfies the ledger invariant -/
theorem ledgerInv_empty (s : St) (ha : s.apps = []) (hi : s.idx = []) (hp : 0 ≤ s.pool) : LedgerInv s := by
  refine ⟨⟨?_, ?_, ?_⟩, ?_⟩
  · unfold NodupKeys; rw [ha]; exact List.nodup_nil
  · intro e he; rw [ha] at he; cases he
  · unfold excess; rw [ha]; simpa [sumBonded] using hp
  · intro p a; rw [ha, hi]; rfl

/-- the state the handler sees after the ante handler charged the fee -/
def feePaid (s : St) (signer : Addr) (b fee : Int) : St :=
  { s with bals := put s.bals signer (b - fee), feeColl := s.feeColl + fee }

theorem transfer_get (s : St) (signer : Addr) (cur : App) (m : MsgStake) (x : Addr) :
    get (transferApplication s signer cur m).apps x
      = if signer = x then none else if m.addr = x then some { cur with status := stStaked, pk := m.pk } else get s.apps x := by
  rw [transfer_apps, get_del, get_put]

theorem edit_apps (s1 : St) (a : Addr) (cur app2 : App) :
    (setStaked (setApplication (deleteApplication (delStaked s1 a cur) a) a app2) a app2).apps = put s1.apps a app2 := by
  rw [setStaked_apps, setApplication_apps, deleteApplication_apps, delStaked_apps, put_del_self]

theorem isMsgAppTransfer_shape {s : St} {signer : Addr} {m : MsgStake} (h : isMsgAppTransfer s signer m = true) :
    m.isTransferShaped = true ∧ signer ≠ m.addr ∧ has s.apps signer = true := by
  unfold isMsgAppTransfer at h
  simp only [Bool.and_eq_true, Bool.not_eq_true', decide_eq_false_iff_not] at h
  exact ⟨h.1.1, h.1.2, h.2⟩

/-- Outcome of a successful `MsgStake`, by what happened to the records. -/
inductive StakeOutcome (s : St) (signer : Addr) (m : MsgStake) (fee : Int) (post : St) : Prop where
  /-- the signer's staked record moved to the (record-less) key of the message -/
  | transfer (cur : App) (hne : signer ≠ m.addr) (hcur : get s.apps signer = some cur) (hst : cur.status = stStaked)
      (hnew : get s.apps m.addr = none) (hshape : m.isTransferShaped = true)
      (happs : ∀ x, get post.apps x = if signer = x then none else if m.addr = x then some { cur with status := stStaked, pk := m.pk } else get s.apps x)
      (hpool : post.pool = s.pool) (hidx : post.idx = del (if cur.jailed then s.idx else put s.idx (idxKey m.addr { cur with status := stStaked, pk := m.pk }) m.addr) (idxKey signer cur))
  /-- the staked record of the message's own key was edited -/
  | edit (cur : App) (s1 : St) (bump : Bool) (hcur : get s.apps m.addr = some cur) (hst : cur.status = stStaked)
      (hge : cur.tokens ≤ m.value) (hchains : (m.chains.length : Int) ≤ s.params.maxChains)
      (hb1 : bump = true → cur.tokens < m.value ∧ s1.pool = s.pool + (m.value - cur.tokens) ∧ m.value - cur.tokens ≤ afterFee s signer fee m.addr)
      (hb0 : bump = false → m.value = cur.tokens ∧ s1.pool = s.pool)
      (hs1 : s1.params = s.params ∧ s1.nodeStaked = s.nodeStaked ∧ s1.supply = s.supply)
      (happs : ∀ x, get post.apps x = if m.addr = x then some (editedApp s1 cur m bump) else get s.apps x)
      (hpool : post.pool = s1.pool)
  /-- a new (or unstaked) key became staked -/
  | fresh (s1 : St) (hold : ∀ cur, get s.apps m.addr = some cur → cur.status = stUnstaked)
      (hmin : s.params.minStake ≤ m.value) (hchains : (m.chains.length : Int) ≤ s.params.maxChains)
      (hfunds : m.value ≤ afterFee s signer fee m.addr) (hnonneg : 0 ≤ m.value)
      (hmax : (s.idx.length : Int) < s.params.maxApps)
      (hs1 : s1.params = s.params ∧ s1.nodeStaked = s.nodeStaked ∧ s1.supply = s.supply ∧ s1.pool = s.pool + m.value)
      (happs : ∀ x, get post.apps x = if m.addr = x then some (freshApp s1 m) else get s.apps x)
      (hpool : post.pool = s.pool + m.value)

theorem toPool_fields {s s1 : St} {a : Addr} {amt : Int} (h : toPool s a amt = some s1) :
    s1.params = s.params ∧ s1.nodeStaked = s.nodeStaked ∧ s1.supply = s.supply ∧ s1.idx = s.idx := by
  unfold toPool at h
  split at h
  · simp at h
  · split at h
    · simp at h
    · simp at h; subst h; simp

theorem deliverStake_outcome {s : St} {signer : Addr} {m : MsgStake} {fee : Int}
    (hok : (deliverStake s signer m fee).1 = .ok) : StakeOutcome s signer m fee (deliverStake s signer m fee).2 := by
  obtain ⟨_, s1, hante, hd⟩ := deliverStake_ok hok
  obtain ⟨hsig, b, hb, hfee, hs1⟩ := anteStake_ok hante
  rw [hd] at hok ⊢
  have hbal : ∀ x, balOf s1 x = afterFee s signer fee x := by
    intro x; rw [hs1]; exact balOf_after_fee s signer b fee hb x
  have ha1 : s1.apps = s.apps := by rw [hs1]
  have hi1 : s1.idx = s.idx := by rw [hs1]
  have hp1 : s1.params = s.params := by rw [hs1]
  have hpl1 : s1.pool = s.pool := by rw [hs1]
  have hn1 : s1.nodeStaked = s.nodeStaked := by rw [hs1]
  have hsu1 : s1.supply = s.supply := by rw [hs1]
  rcases handleStake_cases s1 signer m with ⟨cur, hvt, e⟩ | ⟨_, hne, e⟩ | ⟨_, hv, e⟩
  · -- transfer
    rw [e]
    obtain ⟨hcur, hst, hnew⟩ := validateTransfer_some hvt
    rw [ha1] at hcur hnew
    have hne : signer ≠ m.addr := by intro e2; rw [e2, hnew] at hcur; cases hcur
    have hshape : m.isTransferShaped = true := by
      rcases hsig with h1 | h1
      · exact absurd h1 hne
      · exact (isMsgAppTransfer_shape h1).1
    refine StakeOutcome.transfer cur hne hcur hst hnew hshape ?_ ?_ ?_
    · intro x; rw [transfer_get, ha1]
    · rw [transfer_pool, hpl1]
    · show del (setApplication s1 m.addr { cur with status := stStaked, pk := m.pk }).idx (idxKey signer cur) = _
      by_cases hj : cur.jailed = false
      · rw [setApplication_idx_staked s1 m.addr { cur with status := stStaked, pk := m.pk } ⟨rfl, hj⟩, hi1]; simp [hj]
      · have hjt : cur.jailed = true := by cases hh : cur.jailed <;> simp_all
        rw [setApplication_idx_other s1 m.addr { cur with status := stStaked, pk := m.pk } (fun ⟨_, y⟩ => hj y), hi1]; simp [hjt]
  · rw [e] at hok; exact absurd hok hne
  · rw [e] at hok ⊢
    obtain ⟨h0, hch, hvs⟩ := validateStaking_ok hv
    rcases stakeApplication_cases s1 m with ⟨cur, hcur, hst, e2⟩ | ⟨hns, e2⟩
    · -- edit
      rw [e2] at hok ⊢
      rcases hvs with ⟨cur', hcur', _, hve⟩ | ⟨hun, _⟩
      · rw [hcur] at hcur'; cases hcur'
        obtain ⟨hge, hfunds⟩ := validateEditStake_ok hve
        rcases editStake_cases s1 m.addr cur m with e3 | ⟨s2, bump, hbt, hbf, e3⟩
        · rw [e3] at hok; cases hok
        · rw [e3]
          have hs2 : s2.apps = s1.apps ∧ s2.params = s1.params ∧ s2.nodeStaked = s1.nodeStaked ∧ s2.supply = s1.supply := by
            cases bump with
            | true =>
              obtain ⟨_, htp⟩ := hbt rfl
              obtain ⟨x1, x2, x3, _⟩ := toPool_fields htp
              exact ⟨(toPool_spec htp).1, x1, x2, x3⟩
            | false => obtain ⟨_, e4⟩ := hbf rfl; subst e4; exact ⟨rfl, rfl, rfl, rfl⟩
          refine StakeOutcome.edit cur s2 bump (ha1 ▸ hcur) hst hge (hp1 ▸ hch) ?_ ?_ ?_ ?_ ?_
          · intro hbump
            obtain ⟨hpos, htp⟩ := hbt hbump
            obtain ⟨_, hp, _, hle⟩ := toPool_spec htp
            exact ⟨by omega, by rw [hp, hpl1], by rw [← hbal]; exact hle⟩
          · intro hbump
            obtain ⟨hle, e4⟩ := hbf hbump
            subst e4
            exact ⟨by omega, hpl1⟩
          · exact ⟨hs2.2.1.trans hp1, hs2.2.2.1.trans hn1, hs2.2.2.2.trans hsu1⟩
          · intro x; rw [edit_apps, get_put, hs2.1, ha1]
          · rw [setStaked_pool, setApplication_pool, deleteApplication_pool, delStaked_pool]
      · exact absurd (hun cur hcur) (by rw [hst]; decide)
    · -- fresh
      rw [e2] at hok ⊢
      rcases hvs with ⟨cur', hcur', hst', _⟩ | ⟨hun, hmin, hcoins, hmax⟩
      · exact absurd hst' (hns cur' hcur')
      · rcases stakeFresh_cases s1 m with ⟨_, e3⟩ | ⟨s2, htp, e3⟩
        · rw [e3] at hok; cases hok
        · rw [e3]
          obtain ⟨hsa, hsp, _, hle⟩ := toPool_spec htp
          obtain ⟨x1, x2, x3, _⟩ := toPool_fields htp
          refine StakeOutcome.fresh s2 (ha1 ▸ hun) (hp1 ▸ hmin) (hp1 ▸ hch) (by rw [← hbal]; exact hle) h0
            (by rw [← hi1, ← hp1]; exact hmax) ⟨x1.trans hp1, x2.trans hn1, x3.trans hsu1, by rw [hsp, hpl1]⟩ ?_ ?_
          · intro x; rw [setApplication_apps, get_put, hsa, ha1]
          · rw [setApplication_pool, hsp, hpl1]

/-- A transfer-shaped message signed by a staked application, naming a key without record, with
the fee covered: the DeliverTx succeeds and is exactly `TransferApplication` after the fee. -/
theorem deliverStake_transfer {s : St} {signer : Addr} {m : MsgStake} {fee b : Int} {cur : App}
    (hshape : m.isTransferShaped = true) (hcur : get s.apps signer = some cur) (hst : cur.status = stStaked)
    (hnew : get s.apps m.addr = none) (hb : get s.bals signer = some b) (hfee : fee ≤ b) :
    deliverStake s signer m fee = (.ok, transferApplication (feePaid s signer b fee) signer cur m) := by
  have hne : signer ≠ m.addr := by intro e; rw [e, hnew] at hcur; cases hcur
  have hvb : m.validateBasic = .ok := by unfold MsgStake.validateBasic; simp [hshape]
  have hante : anteStake s signer m fee = (.ok, feePaid s signer b fee) := by
    unfold anteStake
    have : isMsgAppTransfer s signer m = true := by
      unfold isMsgAppTransfer; simp [hshape, hne, has, hcur]
    simp only [this, or_true, if_true]
    unfold deductFee
    simp only [hb]
    have : ¬ b < fee := by omega
    simp [this, feePaid]
  have hvt : validateTransfer (feePaid s signer b fee) signer m = some cur := by
    unfold validateTransfer
    show (match get s.apps signer with | none => none | some cur => _) = _
    simp only [hcur]
    have h2 : has (feePaid s signer b fee).apps m.addr = false := by
      show (get s.apps m.addr).isSome = false
      rw [hnew]; rfl
    simp [hst, h2]
  unfold deliverStake
  rw [hvb, hante]
  show handleStake (feePaid s signer b fee) signer m = _
  unfold handleStake
  rw [hvt]

/-- A signer that is neither the key of the message nor an application: the ante handler
rejects the transaction and nothing at all changes (not even a fee). -/
theorem deliverStake_stranger {s : St} {signer : Addr} {m : MsgStake} {fee : Int}
    (hne : signer ≠ m.addr) (hno : get s.apps signer = none) :
    (deliverStake s signer m fee).1 ≠ .ok ∧ (deliverStake s signer m fee).2 = s := by
  unfold deliverStake
  cases hvb : m.validateBasic with
  | ok =>
    have hante : anteStake s signer m fee = (.sdk 4, s) := by
      unfold anteStake
      have : isMsgAppTransfer s signer m = false := by
        unfold isMsgAppTransfer; simp [has, hno]
      simp [hne, this]
    simp [hante]
  | app c => simp
  | sdk c => simp
  | auth c => simp

end Apps
