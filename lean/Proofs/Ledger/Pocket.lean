import PocketModel.Ledger.Pocket
/-!
# Lemmas about the claim/proof life-cycle model (`PocketModel/Ledger/Pocket.lean`)
-/

namespace Pocket
namespace Claims

theorem get_del_self (cs : Claims) (k : ClaimKey) : get (del cs k) k = none := by
  induction cs with
  | nil => rfl
  | cons p rest ih =>
    obtain ⟨k', c⟩ := p
    by_cases h : k' = k
    · simp [del, h, ih]
    · simp [del, h, get, ih]

theorem get_del_ne (cs : Claims) {k k' : ClaimKey} (h : k' ≠ k) : get (del cs k') k = get cs k := by
  induction cs with
  | nil => rfl
  | cons p rest ih =>
    obtain ⟨k'', c⟩ := p
    by_cases h1 : k'' = k'
    · subst h1
      simp [del, get, h, ih]
    · by_cases h2 : k'' = k
      · simp only [del, if_neg h1, get, if_pos h2]
      · simp only [del, if_neg h1, get, if_neg h2, ih]

theorem get_set_self (cs : Claims) (k : ClaimKey) (c : Claim) : get (set cs k c) k = some c := by
  simp [set, get]

theorem get_set_ne (cs : Claims) {k k' : ClaimKey} (c : Claim) (h : k' ≠ k) :
    get (set cs k' c) k = get cs k := by
  simp [set, get, h, get_del_ne cs h]

theorem get_none_of_not_mem (cs : Claims) (k : ClaimKey) (h : k ∉ cs.map (·.1)) : get cs k = none := by
  induction cs with
  | nil => rfl
  | cons p rest ih =>
    obtain ⟨k', c⟩ := p
    simp at h
    have h1 : k' ≠ k := fun e => h.1 e.symm
    simp only [get, if_neg h1]
    exact ih (by simpa using h.2)

theorem mem_of_get (cs : Claims) (k : ClaimKey) (c : Claim) (h : get cs k = some c) : (k, c) ∈ cs := by
  induction cs with
  | nil => simp [get] at h
  | cons p rest ih =>
    obtain ⟨k', c'⟩ := p
    by_cases h1 : k' = k
    · subst h1
      simp [get] at h
      subst h
      exact List.mem_cons_self
    · simp only [get, if_neg h1] at h
      exact List.mem_cons_of_mem _ (ih h)

theorem get_of_mem_WF (cs : Claims) (k : ClaimKey) (c : Claim) (hw : WF cs) (h : (k, c) ∈ cs) :
    get cs k = some c := by
  induction cs with
  | nil => simp at h
  | cons p rest ih =>
    obtain ⟨k', c'⟩ := p
    unfold WF at hw
    simp only [List.map_cons, List.nodup_cons] at hw
    rcases List.mem_cons.mp h with e | e
    · cases e
      simp [get]
    · have h1 : k' ≠ k := by
        intro e'
        apply hw.1
        rw [e']
        exact List.mem_map.mpr ⟨(k, c), e, rfl⟩
      simp only [get, if_neg h1]
      exact ih hw.2 e

theorem keys_del_subset (cs : Claims) (k x : ClaimKey) (h : x ∈ (del cs k).map (·.1)) :
    x ∈ cs.map (·.1) ∧ x ≠ k := by
  induction cs with
  | nil => simp [del] at h
  | cons p rest ih =>
    obtain ⟨k', c⟩ := p
    by_cases h1 : k' = k
    · simp only [del, if_pos h1] at h
      have := ih h
      exact ⟨by simp [this.1], this.2⟩
    · simp only [del, if_neg h1, List.map_cons, List.mem_cons] at h
      rcases h with h | h
      · subst h
        exact ⟨by simp, h1⟩
      · have := ih h
        exact ⟨by simp [this.1], this.2⟩

theorem WF_del (cs : Claims) (k : ClaimKey) (h : WF cs) : WF (del cs k) := by
  induction cs with
  | nil => simp [del, WF]
  | cons p rest ih =>
    obtain ⟨k', c⟩ := p
    unfold WF at h ih ⊢
    simp only [List.map_cons, List.nodup_cons] at h
    by_cases h1 : k' = k
    · simp only [del, if_pos h1]
      exact ih h.2
    · simp only [del, if_neg h1, List.map_cons, List.nodup_cons]
      exact ⟨fun hm => h.1 (keys_del_subset rest k k' hm).1, ih h.2⟩

theorem WF_set (cs : Claims) (k : ClaimKey) (c : Claim) (h : WF cs) : WF (set cs k c) := by
  unfold WF set
  simp only [List.map_cons, List.nodup_cons]
  exact ⟨fun hm => (keys_del_subset cs k k hm).2 rfl, WF_del cs k h⟩

theorem WF_filter (cs : Claims) (f : ClaimKey × Claim → Bool) (h : WF cs) : WF (cs.filter f) := by
  unfold WF at *
  exact List.Nodup.sublist (List.Sublist.map _ List.filter_sublist) h

/-- On a well-formed store filtering acts entry-wise. -/
theorem get_filter (cs : Claims) (f : ClaimKey × Claim → Bool) (k : ClaimKey) (h : WF cs) :
    get (cs.filter f) k = match get cs k with
      | some c => if f (k, c) then some c else none
      | none => none := by
  induction cs with
  | nil => rfl
  | cons p rest ih =>
    obtain ⟨k', c'⟩ := p
    unfold WF at h
    simp only [List.map_cons, List.nodup_cons] at h
    have ih := ih h.2
    by_cases h1 : k' = k
    · subst h1
      have hn : get rest k' = none := get_none_of_not_mem rest k' h.1
      simp only [get, if_true]
      by_cases hf : f (k', c') = true
      · simp [List.filter, hf, get]
      · have hf' : f (k', c') = false := by simpa using hf
        simp only [List.filter, hf']
        rw [ih, hn]
        simp
    · simp only [get, if_neg h1]
      by_cases hf : f (k', c') = true
      · simp only [List.filter, hf, get, if_neg h1]
        exact ih
      · have hf' : f (k', c') = false := by simpa using hf
        simp only [List.filter, hf']
        exact ih

theorem get_filter_some (cs : Claims) (f : ClaimKey × Claim → Bool) (k : ClaimKey) (c : Claim)
    (h : get (cs.filter f) k = some c) : ∃ c', get cs k = some c' := by
  induction cs with
  | nil => simp [get] at h
  | cons p rest ih =>
    obtain ⟨k', c'⟩ := p
    by_cases h1 : k' = k
    · exact ⟨c', by simp [get, h1]⟩
    · simp only [get, if_neg h1]
      by_cases hf : f (k', c') = true
      · simp only [List.filter, hf, get, if_neg h1] at h
        exact ih h
      · have hf' : f (k', c') = false := by simpa using hf
        simp only [List.filter, hf'] at h
        exact ih h

end Claims

open Claims

/-! ### Trace functions -/

theorem replay_append (k : ClaimKey) (i : Option Claim) (a b : List Event) :
    replay k i (a ++ b) = replay k (replay k i a) b := by
  simp [replay, List.foldl_append]

theorem mints_append (k : ClaimKey) (a b : List Event) : mints k (a ++ b) = mints k a + mints k b := by
  induction a with
  | nil => simp [mints]
  | cons e a ih => cases e <;> simp [mints, ih] <;> omega

theorem accepts_append (k : ClaimKey) (a b : List Event) : accepts k (a ++ b) = accepts k a + accepts k b := by
  induction a with
  | nil => simp [accepts]
  | cons e a ih => cases e <;> simp [accepts, ih] <;> omega

theorem mintedTotal_append (k : ClaimKey) (a b : List Event) :
    mintedTotal k (a ++ b) = mintedTotal k a + mintedTotal k b := by
  induction a with
  | nil => simp [mintedTotal]
  | cons e a ih => cases e <;> simp [mintedTotal, ih] <;> omega

theorem replay_expired_none (k : ClaimKey) (L : Claims) :
    replay k none (L.map fun p => Event.expired p.1 p.2) = none := by
  induction L with
  | nil => rfl
  | cons p L ih =>
    simp only [List.map_cons, replay, List.foldl_cons, Event.apply]
    by_cases h : p.1 = k
    · simp only [if_pos h]; exact ih
    · simp only [if_neg h]; exact ih

theorem replay_expired (k : ClaimKey) (i : Option Claim) (L : Claims) :
    replay k i (L.map fun p => Event.expired p.1 p.2) = if k ∈ L.map (·.1) then none else i := by
  induction L generalizing i with
  | nil => simp [replay]
  | cons p L ih =>
    simp only [List.map_cons, replay, List.foldl_cons, Event.apply]
    by_cases h : p.1 = k
    · simp only [if_pos h]
      have := replay_expired_none k L
      simp only [replay] at this
      rw [this]
      simp [h]
    · simp only [if_neg h]
      have := ih i
      simp only [replay] at this
      rw [this]
      have h' : ¬ k = p.1 := fun e => h e.symm
      simp only [List.mem_cons, h', false_or]

/-! ### One transition: the store follows the events, and stays well-formed -/

theorem beginBlock_follow (s : State) (k : ClaimKey) (h : WF s.claims) :
    Claims.get (beginBlock s).1.claims k = replay k (Claims.get s.claims k) (beginBlock s).2 := by
  simp only [beginBlock]
  rw [replay_expired, get_filter _ _ _ h]
  cases hg : Claims.get s.claims k with
  | none =>
    have hnot : k ∉ (List.filter (fun p => decide (p.2.expiration ≤ s.height + 1)) s.claims).map (·.1) := by
      intro hm
      obtain ⟨p, hp, hk⟩ := List.mem_map.mp hm
      have hp' := (List.mem_filter.mp hp).1
      have : Claims.get s.claims k = some p.2 := by
        apply get_of_mem_WF _ _ _ h
        rw [← hk]
        exact hp'
      rw [hg] at this
      cases this
    simp [hnot]
  | some c =>
    have hmem := mem_of_get _ _ _ hg
    by_cases hx : s.height + 1 < c.expiration
    · have hnot : k ∉ (List.filter (fun p => decide (p.2.expiration ≤ s.height + 1)) s.claims).map (·.1) := by
        intro hm
        obtain ⟨p, hp, hk⟩ := List.mem_map.mp hm
        have hp1 := (List.mem_filter.mp hp).1
        have hp2 := (List.mem_filter.mp hp).2
        have : Claims.get s.claims k = some p.2 := by
          apply get_of_mem_WF _ _ _ h
          rw [← hk]
          exact hp1
        rw [hg] at this
        cases this
        simp at hp2
        omega
      simp [hx, hnot]
    · have hin : k ∈ (List.filter (fun p => decide (p.2.expiration ≤ s.height + 1)) s.claims).map (·.1) :=
        List.mem_map.mpr ⟨(k, c), List.mem_filter.mpr ⟨hmem, by simp; omega⟩, rfl⟩
      simp [hx, hin]

theorem beginBlock_WF (s : State) (h : WF s.claims) : WF (beginBlock s).1.claims := by
  simp only [beginBlock]
  exact WF_filter _ _ h

theorem deliverClaim_cases (s : State) (m : MsgClaim) (e : ClaimEnv) :
    ((deliverClaim s m e).state = s ∧ (deliverClaim s m e).events = [] ∧ (deliverClaim s m e).err ≠ none) ∨
    ((deliverClaim s m e).err = none ∧
      (deliverClaim s m e).state = { s with claims := s.claims.set m.key (storedClaim s.height m e) } ∧
      (deliverClaim s m e).events = [.accepted m.key (storedClaim s.height m e)] ∧
      e.dup = false ∧ e.vb = none ∧ e.anteOk = true ∧ validateClaim s.height m e = none ∧ (m.key.et = 1 ∨ m.key.et = 2)) := by
  unfold deliverClaim
  cases hd : e.dup with
  | true => simp
  | false =>
  simp only [Bool.false_eq_true, if_false]
  cases hv : e.vb with
  | some c => simp
  | none =>
    cases ha : e.anteOk with
    | false => simp
    | true =>
      simp only [Bool.not_true, Bool.false_eq_true, if_false]
      unfold handleClaim
      cases hval : validateClaim s.height m e with
      | some c => simp
      | none =>
        by_cases het : m.key.et ≠ 1 ∧ m.key.et ≠ 2
        · simp [het]
        · simp only [if_neg het]
          right
          refine ⟨trivial, trivial, trivial, trivial, trivial, trivial, trivial, ?_⟩
          omega

/-- The four outcomes of a proof transaction. -/
theorem deliverProof_cases (fixed : Bool) (s : State) (m : MsgProof) (e : ProofEnv) :
    ((deliverProof fixed s m e).state = s ∧ (deliverProof fixed s m e).events = [] ∧
      (deliverProof fixed s m e).err ≠ none) ∨
    (∃ c, s.claims.get m.key = some c ∧ e.dup = false ∧ e.vb = none ∧ e.anteOk = true ∧ e.levelOk = true ∧ e.rootMatch = true ∧
      e.sessCtxOk = true ∧ e.indexAvail = true ∧ e.indexOk = true ∧
      ((e.merkle = .replay ∧ (deliverProof fixed s m e).err = some Code.replayAttack ∧
          (deliverProof fixed s m e).state = { s with claims := s.claims.del m.key, supply := s.supply - e.burn } ∧
          (deliverProof fixed s m e).events = [.burned m.key c e.burn, .deleted m.key]) ∨
       (e.merkle = .valid ∧ e.appFound = true ∧ e.leafErr = none ∧ (deliverProof fixed s m e).err = none ∧
          ((m.leaf = .relay ∧
            (deliverProof fixed s m e).state =
              { s with claims := s.claims.del (deleteKey fixed m), supply := s.supply + e.reward } ∧
            (deliverProof fixed s m e).events = [.minted m.key c e.reward, .deleted (deleteKey fixed m)]) ∨
           (m.leaf = .challenge ∧ fixed = true ∧
            (deliverProof fixed s m e).state =
              { s with claims := s.claims.del (deleteKey fixed m), supply := s.supply - e.challengeBurn + e.reward } ∧
            (deliverProof fixed s m e).events =
              [.challengeBurn e.challengeBurn, .minted m.key c e.reward, .deleted (deleteKey fixed m)]))))) := by
  unfold deliverProof
  cases hd : e.dup with
  | true => simp
  | false =>
  simp only [Bool.false_eq_true, if_false]
  cases hv : e.vb with
  | some c => simp
  | none =>
  cases ha : e.anteOk with
  | false => simp
  | true =>
  simp only [Bool.not_true, Bool.false_eq_true, if_false]
  unfold handleProof
  cases hg : s.claims.get m.key with
  | none => simp
  | some c =>
  cases h1 : e.levelOk with
  | false => simp
  | true =>
  cases h2 : e.rootMatch with
  | false => simp
  | true =>
  cases h3 : e.sessCtxOk with
  | false => simp
  | true =>
  cases h4 : e.indexAvail with
  | false => simp
  | true =>
  cases h5 : e.indexOk with
  | false => simp
  | true =>
  simp only [Bool.not_true, Bool.false_eq_true, if_false]
  cases hm : e.merkle with
  | replay => simp
  | invalid => simp
  | valid =>
  cases h6 : e.appFound with
  | false => simp
  | true =>
  simp only [Bool.not_true, Bool.false_eq_true, if_false]
  cases hl : e.leafErr with
  | some code => simp
  | none =>
  unfold executeProof
  cases hk : m.leaf with
  | relay => simp
  | challenge =>
    by_cases hf : fixed = true
    · subst hf; simp
    · have hf' : fixed = false := by simpa using hf
      subst hf'; simp

/-! ### The store follows the events -/

theorem replay_nil (k : ClaimKey) (i : Option Claim) : replay k i [] = i := rfl

theorem deleteKey_typed (fixed : Bool) (m : MsgProof) (h : fixed = true ∨ m.leaf.et = m.key.et) :
    deleteKey fixed m = m.key := by
  unfold deleteKey
  rcases h with h | h
  · simp [h]
  · cases fixed
    · simp only [Bool.false_eq_true, if_false, h]
    · simp

theorem deleteKey_relay (fixed : Bool) (m : MsgProof) (hl : m.leaf = .relay)
    (h : fixed = true ∨ (m.leaf = .relay → m.key.et = 1)) : deleteKey fixed m = m.key := by
  apply deleteKey_typed
  rcases h with h | h
  · exact Or.inl h
  · right
    rw [hl, h hl]
    rfl

theorem step_WF (fixed : Bool) (s : State) (op : Op) (h : WF s.claims) : WF (step fixed s op).1.claims := by
  cases op with
  | begin => exact beginBlock_WF s h
  | claim m e =>
    simp only [step]
    rcases deliverClaim_cases s m e with ⟨h1, _, _⟩ | ⟨_, h1, _⟩
    · rw [h1]; exact h
    · rw [h1]; exact WF_set _ _ _ h
  | proof m e =>
    simp only [step]
    rcases deliverProof_cases fixed s m e with ⟨h1, _, _⟩ | ⟨c, _, _, _, _, _, _, _, _, _, hr⟩
    · rw [h1]; exact h
    · rcases hr with ⟨_, _, h1, _⟩ | ⟨_, _, _, _, ⟨_, h1, _⟩ | ⟨_, _, h1, _⟩⟩ <;> rw [h1] <;> exact WF_del _ _ h

theorem step_follow (fixed : Bool) (s : State) (op : Op) (k : ClaimKey) (h : WF s.claims) :
    Claims.get (step fixed s op).1.claims k = replay k (Claims.get s.claims k) (step fixed s op).2 := by
  cases op with
  | begin => exact beginBlock_follow s k h
  | claim m e =>
    simp only [step]
    rcases deliverClaim_cases s m e with ⟨h1, h2, _⟩ | ⟨_, h1, h2, _⟩
    · rw [h1, h2]; rfl
    · rw [h1, h2]
      simp only [replay, List.foldl_cons, List.foldl_nil, Event.apply]
      by_cases hk : m.key = k
      · subst hk; simp [get_set_self]
      · simp [hk, get_set_ne _ _ hk]
  | proof m e =>
    simp only [step]
    have hdel : ∀ dk : ClaimKey, Claims.get (Claims.del s.claims dk) k = if dk = k then none else Claims.get s.claims k := by
      intro dk
      by_cases hk : dk = k
      · subst hk; simp [get_del_self]
      · simp [hk, get_del_ne _ hk]
    rcases deliverProof_cases fixed s m e with ⟨h1, h2, _⟩ | ⟨c, _, _, _, _, _, _, _, _, _, hr⟩
    · rw [h1, h2]; rfl
    · rcases hr with ⟨_, _, h1, h2⟩ | ⟨_, _, _, _, ⟨_, h1, h2⟩ | ⟨_, _, h1, h2⟩⟩ <;> rw [h1, h2] <;>
        simp only [replay, List.foldl_cons, List.foldl_nil, Event.apply] <;> exact hdel _

theorem run_WF (fixed : Bool) (s : State) (ops : List Op) (h : WF s.claims) : WF (run fixed s ops).1.claims := by
  induction ops generalizing s with
  | nil => exact h
  | cons op ops ih =>
    simp only [run]
    exact ih _ (step_WF fixed s op h)

theorem run_follow (fixed : Bool) (s : State) (ops : List Op) (k : ClaimKey) (h : WF s.claims) :
    Claims.get (run fixed s ops).1.claims k = replay k (Claims.get s.claims k) (run fixed s ops).2 := by
  induction ops generalizing s with
  | nil => rfl
  | cons op ops ih =>
    simp only [run]
    rw [replay_append, ← step_follow fixed s op k h]
    exact ih _ (step_WF fixed s op h)

theorem run_append (fixed : Bool) (s : State) (a b : List Op) :
    run fixed s (a ++ b) = ((run fixed (run fixed s a).1 b).1, (run fixed s a).2 ++ (run fixed (run fixed s a).1 b).2) := by
  induction a generalizing s with
  | nil => simp [run]
  | cons op a ih =>
    simp only [List.cons_append, run, ih, List.append_assoc]

/-! ### Counting -/

theorem live_le_one (cs : Claims) (k : ClaimKey) : live cs k ≤ 1 := by
  unfold live; split <;> omega

theorem live_del_self (cs : Claims) (k : ClaimKey) : live (Claims.del cs k) k = 0 := by
  simp [live, get_del_self]

theorem live_del_le (cs : Claims) (k dk : ClaimKey) : live (Claims.del cs dk) k ≤ live cs k := by
  by_cases h : dk = k
  · subst h; rw [live_del_self]; omega
  · simp [live, get_del_ne _ h]

theorem live_set_self (cs : Claims) (k : ClaimKey) (c : Claim) : live (Claims.set cs k c) k = 1 := by
  simp [live, get_set_self]

theorem live_set_ne (cs : Claims) {k k' : ClaimKey} (c : Claim) (h : k' ≠ k) :
    live (Claims.set cs k' c) k = live cs k := by
  simp [live, get_set_ne _ _ h]

theorem live_filter_le (cs : Claims) (f : ClaimKey × Claim → Bool) (k : ClaimKey) :
    live (cs.filter f) k ≤ live cs k := by
  unfold live
  cases h : Claims.get (cs.filter f) k with
  | none => simp
  | some c =>
    obtain ⟨c', hc⟩ := get_filter_some cs f k c h
    simp [hc]

theorem mints_expired (k : ClaimKey) (L : Claims) : mints k (L.map fun p => Event.expired p.1 p.2) = 0 := by
  induction L with
  | nil => rfl
  | cons p L ih => simpa [mints] using ih

theorem accepts_expired (k : ClaimKey) (L : Claims) : accepts k (L.map fun p => Event.expired p.1 p.2) = 0 := by
  induction L with
  | nil => rfl
  | cons p L ih => simpa [accepts] using ih

theorem mintedTotal_expired (k : ClaimKey) (L : Claims) :
    mintedTotal k (L.map fun p => Event.expired p.1 p.2) = 0 := by
  induction L with
  | nil => rfl
  | cons p L ih => simpa [mintedTotal] using ih

/-- One transition never lets payments outrun acceptances (given typed proofs or the repaired handler). -/
theorem step_count (fixed : Bool) (s : State) (op : Op) (k : ClaimKey) (hty : fixed = true ∨ op.typed) :
    mints k (step fixed s op).2 + live (step fixed s op).1.claims k ≤
      accepts k (step fixed s op).2 + live s.claims k := by
  cases op with
  | begin =>
    simp only [step, beginBlock, mints_expired, accepts_expired]
    have := live_filter_le s.claims (fun p => decide (s.height + 1 < p.2.expiration)) k
    omega
  | claim m e =>
    simp only [step]
    rcases deliverClaim_cases s m e with ⟨h1, h2, _⟩ | ⟨_, h1, h2, _⟩
    · rw [h1, h2]; simp [mints, accepts]
    · rw [h1, h2]
      by_cases hk : m.key = k
      · subst hk
        simp only [mints, accepts, if_true, live_set_self]
        omega
      · simp only [mints, accepts, if_neg hk, live_set_ne _ _ hk]
        omega
  | proof m e =>
    simp only [step]
    rcases deliverProof_cases fixed s m e with ⟨h1, h2, _⟩ | ⟨c, hg, _, _, _, _, _, _, _, _, hr⟩
    · rw [h1, h2]; simp [mints, accepts]
    · have hlive : live s.claims m.key = 1 := by simp [live, hg]
      have fin : ∀ dk : ClaimKey, dk = m.key →
          (if m.key = k then 1 else 0) + live (Claims.del s.claims dk) k ≤ live s.claims k := by
        intro dk hdk
        rw [hdk]
        by_cases hk : m.key = k
        · rw [if_pos hk, ← hk, live_del_self, hlive]; omega
        · rw [if_neg hk]
          have := live_del_le s.claims k m.key
          omega
      rcases hr with ⟨_, _, h1, h2⟩ | ⟨_, _, _, _, ⟨hl, h1, h2⟩ | ⟨_, hf, h1, h2⟩⟩ <;> rw [h1, h2] <;>
        simp only [mints, accepts]
      · have := live_del_le s.claims k m.key
        omega
      · have := fin _ (deleteKey_relay fixed m hl hty)
        omega
      · have := fin _ (deleteKey_typed fixed m (Or.inl hf))
        omega

theorem WellTyped_cons (op : Op) (ops : List Op) : WellTyped (op :: ops) ↔ op.typed ∧ WellTyped ops := by
  simp [WellTyped]

theorem run_count (fixed : Bool) (s : State) (ops : List Op) (k : ClaimKey) (hty : fixed = true ∨ WellTyped ops) :
    mints k (run fixed s ops).2 + live (run fixed s ops).1.claims k ≤
      accepts k (run fixed s ops).2 + live s.claims k := by
  induction ops generalizing s with
  | nil => simp [run, mints, accepts]
  | cons op ops ih =>
    simp only [run, mints_append, accepts_append]
    have h1 := step_count fixed s op k (by
      rcases hty with h | h
      · exact Or.inl h
      · exact Or.inr ((WellTyped_cons op ops).mp h).1)
    have h2 := ih (step fixed s op).1 (by
      rcases hty with h | h
      · exact Or.inl h
      · exact Or.inr ((WellTyped_cons op ops).mp h).2)
    omega


/-! ### Amounts -/

/-- The oracle reward of a proof operation for key `k` is at most `R`. -/
def Op.rewardLe (k : ClaimKey) (R : Int) : Op → Prop
  | .proof m e => m.key = k → e.reward ≤ R
  | _ => True

theorem step_total (fixed : Bool) (s : State) (op : Op) (k : ClaimKey) (R : Int) (hb : op.rewardLe k R) :
    mintedTotal k (step fixed s op).2 ≤ R * (mints k (step fixed s op).2 : Int) := by
  cases op with
  | begin => simp [step, beginBlock, mintedTotal_expired, mints_expired]
  | claim m e =>
    simp only [step]
    rcases deliverClaim_cases s m e with ⟨_, h2, _⟩ | ⟨_, _, h2, _⟩ <;> rw [h2] <;> simp [mintedTotal, mints]
  | proof m e =>
    simp only [step]
    rcases deliverProof_cases fixed s m e with ⟨_, h2, _⟩ | ⟨c, _, _, _, _, _, _, _, _, _, hr⟩
    · rw [h2]; simp [mintedTotal, mints]
    · rcases hr with ⟨_, _, _, h2⟩ | ⟨_, _, _, _, ⟨_, _, h2⟩ | ⟨_, _, _, h2⟩⟩ <;> rw [h2] <;>
        simp only [mintedTotal, mints]
      · simp
      all_goals
        by_cases hk : m.key = k
        · have := hb hk
          simp only [if_pos hk]
          omega
        · simp [hk]

theorem run_total (fixed : Bool) (s : State) (ops : List Op) (k : ClaimKey) (R : Int)
    (hb : ∀ op ∈ ops, op.rewardLe k R) :
    mintedTotal k (run fixed s ops).2 ≤ R * (mints k (run fixed s ops).2 : Int) := by
  induction ops generalizing s with
  | nil => simp [run, mintedTotal, mints]
  | cons op ops ih =>
    simp only [run, mintedTotal_append, mints_append]
    have h1 := step_total fixed s op k R (hb op List.mem_cons_self)
    have h2 := ih (step fixed s op).1 (fun o ho => hb o (List.mem_cons_of_mem _ ho))
    rw [Int.natCast_add, Int.mul_add]
    omega

/-! ### Which transitions mint -/

theorem step_minted (fixed : Bool) (s : State) (op : Op) (k : ClaimKey) (c : Claim) (a : Int)
    (h : Event.minted k c a ∈ (step fixed s op).2) :
    ∃ m e, op = .proof m e ∧ k = m.key ∧ Claims.get s.claims k = some c ∧ a = e.reward ∧
      proofPayable s.claims m e = true := by
  cases op with
  | begin =>
    simp only [step, beginBlock, List.mem_map] at h
    obtain ⟨p, _, hp⟩ := h
    cases hp
  | claim m e =>
    simp only [step] at h
    rcases deliverClaim_cases s m e with ⟨_, h2, _⟩ | ⟨_, _, h2, _⟩ <;> rw [h2] at h <;> simp at h
  | proof m e =>
    simp only [step] at h
    rcases deliverProof_cases fixed s m e with ⟨_, h2, _⟩ | ⟨c', hg, hd, hv, ha, h1, h2', h3, h4, h5, hr⟩
    · rw [h2] at h; simp at h
    · rcases hr with ⟨_, _, _, h2⟩ | ⟨hm, h6, hl, _, ⟨_, _, h2⟩ | ⟨_, _, _, h2⟩⟩ <;> rw [h2] at h <;> simp at h
      all_goals
        obtain ⟨rfl, rfl, rfl⟩ := h
        refine ⟨m, e, rfl, rfl, hg, rfl, ?_⟩
        simp [proofPayable, hg, hd, hv, ha, h1, h2', h3, h4, h5, hm, h6, hl]


/-! ### `ValidateClaim` passes iff every check passes -/

theorem validateClaim_none (h : Int) (m : MsgClaim) (e : ClaimEnv) (hv : validateClaim h m e = none) :
    m.key.et ≠ 0 ∧ e.sessCtxOk = true ∧ ¬ (h ≤ m.key.sbh + e.sessB - 1) ∧ ¬ (m.total < e.minProofs) ∧
    e.chainSupported = true ∧ e.nodeFound = true ∧ e.appFound = true ∧ ¬ (e.maxRelays < m.total) ∧
    e.chainsOverLimit = false ∧ e.sessionPre = none ∧ e.headerCanonical = true ∧ e.inSession = true ∧
    ¬ (h > e.curW * e.curB + m.key.sbh) := by
  unfold validateClaim at hv
  by_cases c1 : m.key.et = 0
  · rw [if_pos c1] at hv; cases hv
  rw [if_neg c1] at hv
  cases c2 : e.sessCtxOk
  · simp [c2] at hv
  simp only [c2, Bool.not_true, Bool.false_eq_true, if_false] at hv
  by_cases c3 : h ≤ m.key.sbh + e.sessB - 1
  · rw [if_pos c3] at hv; cases hv
  rw [if_neg c3] at hv
  by_cases c4 : m.total < e.minProofs
  · rw [if_pos c4] at hv; cases hv
  rw [if_neg c4] at hv
  cases c5 : e.chainSupported
  · simp [c5] at hv
  simp only [c5, Bool.not_true, Bool.false_eq_true, if_false] at hv
  cases c6 : e.nodeFound
  · simp [c6] at hv
  simp only [c6, Bool.not_true, Bool.false_eq_true, if_false] at hv
  cases c7 : e.appFound
  · simp [c7] at hv
  simp only [c7, Bool.not_true, Bool.false_eq_true, if_false] at hv
  by_cases c8 : e.maxRelays < m.total
  · rw [if_pos c8] at hv; cases hv
  rw [if_neg c8] at hv
  cases c9 : e.chainsOverLimit with
  | true => simp [c9] at hv
  | false =>
    simp only [c9, Bool.false_eq_true, if_false] at hv
    cases c10 : e.sessionPre with
    | some c => simp [c10] at hv
    | none =>
      simp only [c10] at hv
      cases c10' : e.headerCanonical with
      | false => simp [c10'] at hv
      | true =>
      simp only [c10', Bool.not_true, Bool.false_eq_true, if_false] at hv
      cases c11 : e.inSession with
      | false => simp [c11] at hv
      | true =>
        simp only [c11, Bool.not_true, Bool.false_eq_true, if_false] at hv
        by_cases c12 : h > e.curW * e.curB + m.key.sbh
        · rw [if_pos c12] at hv; cases hv
        · exact ⟨c1, rfl, c3, c4, rfl, rfl, rfl, c8, rfl, rfl, rfl, rfl, c12⟩

theorem validateClaim_of_checks (h : Int) (m : MsgClaim) (e : ClaimEnv)
    (c1 : m.key.et ≠ 0) (c2 : e.sessCtxOk = true) (c3 : ¬ (h ≤ m.key.sbh + e.sessB - 1))
    (c4 : ¬ (m.total < e.minProofs)) (c5 : e.chainSupported = true) (c6 : e.nodeFound = true)
    (c7 : e.appFound = true) (c8 : ¬ (e.maxRelays < m.total)) (c9 : e.chainsOverLimit = false)
    (c10 : e.sessionPre = none) (c10' : e.headerCanonical = true) (c11 : e.inSession = true) (c12 : ¬ (h > e.curW * e.curB + m.key.sbh)) :
    validateClaim h m e = none := by
  unfold validateClaim
  rw [if_neg c1]
  simp only [c2, c5, c6, c7, c9, c10, c10', c11, Bool.not_true, Bool.false_eq_true, if_false, if_neg c3, if_neg c4,
    if_neg c8, if_neg c12]

end Pocket
