import Proofs.Ledger.AppsIndex
/-!
# Every operation of the applications ledger preserves `IdxOK` (given `WF`)
-/
namespace Apps

theorem toPool_idx {s s1 : St} {a : Addr} {amt : Int} (h : toPool s a amt = some s1) : s1.idx = s.idx ∧ s1.apps = s.apps := by
  unfold toPool at h
  split at h
  · simp at h
  · split at h
    · simp at h
    · simp at h; subst h; simp

theorem transfer_idxOK {s : St} {signer : Addr} {m : MsgStake} {cur : App} (h : IdxOK s)
    (hv : validateTransfer s signer m = some cur) : IdxOK (transferApplication s signer cur m) := by
  obtain ⟨hcur, hst, hnew⟩ := validateTransfer_some hv
  have hne : m.addr ≠ signer := by intro e; rw [e, hcur] at hnew; simp at hnew
  let newApp : App := { cur with status := stStaked, pk := m.pk }
  -- first the new record …
  have h1 : IdxOK (setApplication s m.addr newApp) := by
    by_cases hj : cur.jailed = false
    · refine idxOK_restake m.addr newApp (power cur.tokens) h rfl hj
        (fun p _ => idx_no_record h hnew p) (setApplication_apps s m.addr newApp) ?_
      rw [setApplication_idx_staked s m.addr newApp ⟨rfl, hj⟩]
      exact (put_del_self _ _ _).symm
    · refine idxOK_same_idx m.addr (some newApp) h ?_ (fun p => idx_no_record h hnew p) ?_ ?_
      · intro app e; cases e; exact fun ⟨_, y⟩ => hj y
      · intro b; rw [setApplication_apps, get_put]
      · exact setApplication_idx_other s m.addr newApp (fun ⟨_, y⟩ => hj y)
  -- … then the old record and its index entry go
  have hcur1 : get (setApplication s m.addr newApp).apps signer = some cur := by
    rw [setApplication_apps, get_put_ne _ _ hne, hcur]
  show IdxOK (deleteApplication (delStaked (setApplication s m.addr newApp) signer cur) signer)
  refine idxOK_unindex signer none (power cur.tokens) h1 (by intro app e; cases e)
    (fun p hp => idx_other_power h1 hcur1 (fun e => hp e.symm)) ?_ rfl
  intro b
  show get (del (setApplication s m.addr newApp).apps signer) b = _
  rw [get_del]

/-- what `EditStakeApplication` does to records and index once the record `app1` to write is
known (`app1` has the status and jailed flag of the stored record) -/
theorem edit_tail_idxOK (s s1 : St) (a : Addr) (cur app1 : App) (chains : List String) (h : IdxOK s)
    (hcur : get s.apps a = some cur) (hi : s1.idx = s.idx) (ha : s1.apps = s.apps)
    (hs : app1.status = stStaked) (hjj : app1.jailed = cur.jailed) :
    IdxOK (setStaked (setApplication (deleteApplication (delStaked s1 a cur) a) a { app1 with chains := chains }) a
      { app1 with chains := chains }) := by
  let app2 : App := { app1 with chains := chains }
  let s3 := deleteApplication (delStaked s1 a cur) a
  have hold : ∀ p, p ≠ power cur.tokens → get s.idx (p, a) = none :=
    fun p hp => idx_other_power h hcur (fun e => hp e.symm)
  have hs3i : s3.idx = del s.idx (power cur.tokens, a) := by
    show del s1.idx (idxKey a cur) = _
    rw [hi]; rfl
  have hs3a : s3.apps = del s.apps a := by
    show del s1.apps a = _
    rw [ha]
  by_cases hj : cur.jailed = false
  · have hj1 : app2.jailed = false := by show app1.jailed = false; rw [hjj, hj]
    refine idxOK_restake a app2 (power cur.tokens) h hs hj1 hold ?_ ?_
    · rw [setStaked_apps, setApplication_apps, hs3a, put_del_self]
    · rw [setStaked_idx, setApplication_idx_staked s3 a app2 ⟨hs, hj1⟩, hs3i, if_neg (by rw [hj1]; decide)]
      exact put_put_self _ _ _
  · have hjt : app2.jailed = true := by
      show app1.jailed = true
      rw [hjj]; cases hb : cur.jailed <;> simp_all
    have hni : ¬ (app2.status = stStaked ∧ app2.jailed = false) := fun ⟨_, y⟩ => by rw [hjt] at y; cases y
    refine idxOK_unindex a (some app2) (power cur.tokens) h ?_ hold ?_ ?_
    · intro app e; cases e; exact hni
    · intro b; rw [setStaked_apps, setApplication_apps, hs3a, put_del_self, get_put]
    · rw [setStaked_idx, if_pos hjt, setApplication_idx_other s3 a app2 hni, hs3i]

theorem editStake_idxOK (s : St) (a : Addr) (cur : App) (m : MsgStake) (h : IdxOK s)
    (hcur : get s.apps a = some cur) (hst : cur.status = stStaked) : IdxOK (editStake s a cur m).2 := by
  unfold editStake
  by_cases hd : m.value - cur.tokens > 0
  · simp only [hd, if_true]
    cases htp : toPool s a (m.value - cur.tokens) with
    | none => exact h
    | some s1 =>
      obtain ⟨hi, ha⟩ := toPool_idx htp
      exact edit_tail_idxOK s s1 a cur _ m.chains h hcur hi ha hst rfl
  · simp only [hd, if_false]
    exact edit_tail_idxOK s s a cur cur m.chains h hcur rfl rfl hst rfl

theorem stakeFresh_idxOK (s : St) (m : MsgStake) (h : IdxOK s)
    (hold : ∀ p, get s.idx (p, m.addr) = none) : IdxOK (stakeFresh s m).2 := by
  unfold stakeFresh
  cases htp : toPool s m.addr m.value with
  | none => exact h
  | some s1 =>
    obtain ⟨hi, ha⟩ := toPool_idx htp
    refine idxOK_restake m.addr (freshApp s1 m) (power m.value) h rfl rfl (fun p _ => hold p) ?_ ?_
    · show (setApplication s1 m.addr (freshApp s1 m)).apps = _
      rw [setApplication_apps, ha]
    · show (setApplication s1 m.addr (freshApp s1 m)).idx = _
      rw [setApplication_idx_staked s1 m.addr (freshApp s1 m) ⟨rfl, rfl⟩, hi]
      exact (put_del_self _ _ _).symm

theorem stakeApplication_idxOK (s : St) (m : MsgStake) (h : IdxOK s) : IdxOK (stakeApplication s m).2 := by
  unfold stakeApplication
  cases hcur : get s.apps m.addr with
  | none => exact stakeFresh_idxOK s m h (fun p => idx_no_record h hcur p)
  | some cur =>
    simp only
    by_cases hst : cur.status = stStaked
    · simp only [hst, if_true]; exact editStake_idxOK s m.addr cur m h hcur hst
    · simp only [hst, if_false]
      exact stakeFresh_idxOK s m h (fun p => idx_not_staked h hcur (fun ⟨x, _⟩ => hst x) p)

theorem handleStake_idxOK (s : St) (signer : Addr) (m : MsgStake) (h : IdxOK s) : IdxOK (handleStake s signer m).2 := by
  unfold handleStake
  cases ht : validateTransfer s signer m with
  | some cur => exact transfer_idxOK h ht
  | none =>
    simp only
    cases hv : validateStaking s m with
    | ok => exact stakeApplication_idxOK s m h
    | app c => exact h
    | sdk c => exact h
    | auth c => exact h

theorem deductFee_idxOK (s : St) (signer : Addr) (fee : Int) (h : IdxOK s) : IdxOK (deductFee s signer fee).2 :=
  idxOK_same h (deductFee_spec s signer fee).1 (deductFee_spec s signer fee).2.2.1

theorem deliverStake_idxOK (s : St) (signer : Addr) (m : MsgStake) (fee : Int) (h : IdxOK s) :
    IdxOK (deliverStake s signer m fee).2 := by
  unfold deliverStake
  split
  · have ha : IdxOK (anteStake s signer m fee).2 := by
      unfold anteStake; split
      · exact deductFee_idxOK s signer fee h
      · exact h
    split
    · rename_i s1 heq; rw [heq] at ha; exact handleStake_idxOK s1 signer m ha
    · rename_i e s1 hne heq; rw [heq] at ha; exact ha
  · exact h

theorem unstaking_ne_staked : stUnstaking ≠ stStaked := by decide
theorem unstaked_ne_staked : stUnstaked ≠ stStaked := by decide

theorem beginUnstaking_idxOK (s : St) (a : Addr) (app : App) (h : IdxOK s) (hcur : get s.apps a = some app) :
    IdxOK (beginUnstaking s a app) := by
  let t := if app.unstakingTime = 0 then s.time + s.params.unstakingTime else app.unstakingTime
  let app' : App := { app with status := stUnstaking, unstakingTime := t }
  have hni : ¬ (app'.status = stStaked ∧ app'.jailed = false) := fun ⟨y, _⟩ => unstaking_ne_staked y
  show IdxOK (setApplication (delStaked s a app) a app')
  refine idxOK_unindex a (some app') (power app.tokens) h ?_ (fun p hp => idx_other_power h hcur (fun e => hp e.symm)) ?_ ?_
  · intro x e; cases e; exact hni
  · intro b; rw [setApplication_apps, get_put]; rfl
  · rw [setApplication_idx_other (delStaked s a app) a app' hni]; rfl

theorem handleUnstake_idxOK (s : St) (a : Addr) (h : IdxOK s) : IdxOK (handleUnstake s a).2 := by
  unfold handleUnstake
  cases hcur : get s.apps a with
  | none => exact h
  | some app =>
    simp only
    split
    · exact h
    · split
      · exact h
      · exact beginUnstaking_idxOK s a app h hcur

theorem deliverUnstake_idxOK (s : St) (signer a : Addr) (fee : Int) (h : IdxOK s) : IdxOK (deliverUnstake s signer a fee).2 := by
  unfold deliverUnstake
  split
  · have hd := deductFee_idxOK s signer fee h
    split
    · rename_i s1 heq
      rw [heq] at hd
      exact handleUnstake_idxOK s1 a hd
    · exact hd
  · exact h

theorem fromPool_idx {s s1 : St} {a : Addr} {amt : Int} (h : fromPool s a amt = some s1) : s1.idx = s.idx := by
  unfold fromPool at h
  split at h
  · simp at h
  · simp at h; subst h; rfl

theorem payout_same (s1 : St) (a : Addr) (amt : Int) :
    (match fromPool s1 a amt with | some x => x | none => s1).apps = s1.apps
    ∧ (match fromPool s1 a amt with | some x => x | none => s1).idx = s1.idx := by
  cases hfp : fromPool s1 a amt with
  | none => exact ⟨rfl, rfl⟩
  | some x => exact ⟨(fromPool_spec hfp).1, fromPool_idx hfp⟩

theorem finishUnstaking_idxOK (s : St) (a : Addr) (app : App) (h : IdxOK s) (hcur : get s.apps a = some app)
    (hst : app.status = stUnstaking) : IdxOK (finishUnstaking s a app) := by
  have hni : ¬ (app.status = stStaked ∧ app.jailed = false) := fun ⟨x, _⟩ => by rw [hst] at x; exact unstaking_ne_staked x
  let s1 : St := { s with queue := queueRemove s.queue app.unstakingTime a }
  let app' : App := { app with tokens := 0, status := stUnstaked, maxRelays := 0, unstakingTime := 0 }
  have hni' : ¬ (app'.status = stStaked ∧ app'.jailed = false) := fun ⟨y, _⟩ => unstaked_ne_staked y
  obtain ⟨h2a, h2i⟩ := payout_same s1 a app.tokens
  show IdxOK (deleteApplication (setApplication (match fromPool s1 a app.tokens with | some x => x | none => s1) a app') a)
  refine idxOK_same_idx a none h (by intro x e; cases e) (fun p => idx_not_staked h hcur hni p) ?_ ?_
  · intro b
    rw [deleteApplication_apps, setApplication_apps, del_put_self, h2a, get_del]
  · show (setApplication (match fromPool s1 a app.tokens with | some x => x | none => s1) a app').idx = s.idx
    rw [setApplication_idx_other _ a app' hni', h2i]

theorem matureOne_idxOK (s : St) (a : Addr) (h : IdxOK s) : IdxOK (matureOne s a) := by
  unfold matureOne
  cases hcur : get s.apps a with
  | none => exact h
  | some app =>
    simp only
    by_cases hst : app.status = stUnstaking
    · simp only [hst, ne_eq, not_true_eq_false, if_false]
      split
      · exact h
      · exact finishUnstaking_idxOK s a app h hcur hst
    · simp only [ne_eq, hst, not_false_eq_true, if_true]; exact h

theorem foldl_pres {β : Type} (P : St → Prop) (f : St → β → St) (hf : ∀ s b, P s → P (f s b)) (l : List β) (s : St)
    (h : P s) : P (l.foldl f s) := by
  induction l generalizing s with
  | nil => exact h
  | cons b l ih => exact ih (f s b) (hf s b h)

theorem endBlock_idxOK (s : St) (h : IdxOK s) : IdxOK (endBlock s) := by
  unfold endBlock
  apply foldl_pres IdxOK
  · intro st e hst
    exact idxOK_same (foldl_pres IdxOK matureOne matureOne_idxOK e.2 st hst) rfl rfl
  · exact h

theorem burnStaked_idx {s s1 : St} {amt : Int} (h : burnStaked s amt = some s1) : s1.idx = s.idx ∧ s1.apps = s.apps := by
  unfold burnStaked at h
  split at h
  · simp at h; subst h; exact ⟨rfl, rfl⟩
  · split at h
    · simp at h
    · simp at h; subst h; exact ⟨rfl, rfl⟩

/-- Force-unstake needs the pool to cover the stake (`WF`): otherwise the burn fails after the
index entry was already deleted. -/
theorem forceUnstake_idxOK (s : St) (a : Addr) (w : WF s) (h : IdxOK s) : IdxOK (forceUnstake s a).2 := by
  unfold forceUnstake
  cases hcur : get s.apps a with
  | none => exact h
  | some app =>
    simp only
    have hold := fun p (hp : p ≠ power app.tokens) => idx_other_power h hcur (fun e => hp e.symm)
    have htok : 0 ≤ app.tokens := nonneg_get w.nonneg hcur
    have hle : wt app ≤ sumBonded s.apps := wt_le_sumBonded w.nonneg hcur
    have hcov := w.covers
    unfold excess at hcov
    by_cases hst : app.status = stStaked
    · simp only [hst, if_true]
      have hwt : wt app = app.tokens := wt_staked hst
      obtain ⟨s2, hb⟩ := burnStaked_ok (s := delStaked s a app) (amt := app.tokens) (by simp; omega)
      simp only [hb]
      obtain ⟨hi, ha⟩ := burnStaked_idx hb
      let app' : App := { app with tokens := 0, status := stUnstaked }
      have hni' : ¬ (app'.status = stStaked ∧ app'.jailed = false) := fun ⟨y, _⟩ => unstaked_ne_staked y
      refine idxOK_unindex a (some app') (power app.tokens) h ?_ hold ?_ ?_
      · intro x e; cases e; exact hni'
      · intro b; rw [setApplication_apps, ha, get_put]; rfl
      · rw [setApplication_idx_other s2 a app' hni', hi]; rfl
    · simp only [hst, if_false]
      have hni : ¬ (app.status = stStaked ∧ app.jailed = false) := fun ⟨x, _⟩ => hst x
      by_cases hu : app.status = stUnstaking
      · simp only [hu, if_true]
        have hwt : wt app = app.tokens := wt_unstaking hu
        obtain ⟨s2, hb⟩ := burnStaked_ok
          (s := deleteApplication { s with queue := queueRemove s.queue app.unstakingTime a } a) (amt := app.tokens) (by simp; omega)
        simp only [hb]
        obtain ⟨hi, ha⟩ := burnStaked_idx hb
        refine idxOK_same_idx a none h (by intro x e; cases e) (fun p => idx_not_staked h hcur hni p) ?_ ?_
        · intro b; rw [ha]; show get (del s.apps a) b = _; rw [get_del]
        · rw [hi]; rfl
      · simp only [hu, if_false]
        refine idxOK_same_idx a none h (by intro x e; cases e) (fun p => idx_not_staked h hcur hni p) ?_ rfl
        intro b; show get (del s.apps a) b = _; rw [get_del]

theorem jail_idxOK (s : St) (a : Addr) (h : IdxOK s) : IdxOK (jail s a) := by
  unfold jail
  cases hcur : get s.apps a with
  | none => exact h
  | some app =>
    simp only
    split
    · exact h
    · let app1 : App := { app with jailed := true }
      have hni : ¬ (app1.status = stStaked ∧ app1.jailed = false) := fun ⟨_, y⟩ => by cases y
      show IdxOK (delStaked (setApplication s a app1) a app1)
      refine idxOK_unindex a (some app1) (power app.tokens) h ?_ (fun p hp => idx_other_power h hcur (fun e => hp e.symm)) ?_ ?_
      · intro x e; cases e; exact hni
      · intro b; show get (setApplication s a app1).apps b = _; rw [setApplication_apps, get_put]
      · show del (setApplication s a app1).idx (idxKey a app1) = _
        rw [setApplication_idx_other s a app1 hni]; rfl

theorem unjail_idxOK (s : St) (a : Addr) (h : IdxOK s) : IdxOK (unjail s a) := by
  unfold unjail
  cases hcur : get s.apps a with
  | none => exact h
  | some app =>
    simp only
    by_cases hj : app.jailed = true
    · simp only [hj, if_true]
      have hni : ¬ (app.status = stStaked ∧ app.jailed = false) := fun ⟨_, y⟩ => by rw [hj] at y; cases y
      have hold := fun p => idx_not_staked h hcur hni p
      let app' : App := { app with jailed := false }
      by_cases hst : app.status = stStaked
      · refine idxOK_restake a app' (power app.tokens) h hst rfl (fun p _ => hold p) (setApplication_apps s a app') ?_
        rw [setApplication_idx_staked s a app' ⟨hst, rfl⟩]
        exact (put_del_self _ _ _).symm
      · have hni' : ¬ (app'.status = stStaked ∧ app'.jailed = false) := fun ⟨x, _⟩ => hst x
        refine idxOK_same_idx a (some app') h ?_ hold ?_ (setApplication_idx_other s a app' hni')
        · intro x e; cases e; exact hni'
        · intro b; rw [setApplication_apps, get_put]
    · simp only [hj]; exact h

/-- The ledger invariant of the applications module: well-formed records + exact staked index. -/
def LedgerInv (s : St) : Prop := WF s ∧ IdxOK s

theorem step_ledgerInv (s : St) (op : Op) (h : LedgerInv s) : LedgerInv (step s op) := by
  refine ⟨(step_excess s op h.1).1, ?_⟩
  cases op with
  | stake signer m fee => exact deliverStake_idxOK s signer m fee h.2
  | unstake signer a fee => exact deliverUnstake_idxOK s signer a fee h.2
  | beginBlock t => exact idxOK_same h.2 rfl rfl
  | endBlock => exact endBlock_idxOK s h.2
  | force a => exact forceUnstake_idxOK s a h.1 h.2
  | jail a => exact jail_idxOK s a h.2
  | unjail a => exact unjail_idxOK s a h.2
  | ext e => exact idxOK_same h.2 rfl rfl
  | donate src amt =>
    refine idxOK_same h.2 (donate_spec s src amt).1 ?_
    show (donate s src amt).idx = s.idx
    unfold donate; split <;> rfl

theorem run_ledgerInv (s : St) (ops : List Op) (h : LedgerInv s) : LedgerInv (run s ops) := by
  induction ops generalizing s with
  | nil => exact h
  | cons op ops ih => exact ih (step s op) (step_ledgerInv s op h)

end Apps
