import Proofs.Ledger.NodesTm
import Proofs.Ledger.NodesFrame
/-!
# `UpdateTendermintValidators` reports exactly the changes of the top-N set (C22)
-/
namespace Nodes
open Spec

/-- bookkeeping invariant of the previous-power store (0x31) and the consensus engine's set -/
structure PrevInv (s : State) : Prop where
  prevNodup : (s.prevPower.map (·.1)).Nodup
  tmNodup : (s.tmSet.map (·.1)).Nodup
  sync : ∀ a, aget s.tmSet a = aget s.prevPower a
  hasRec : ∀ a p, aget s.prevPower a = some p → ∃ v, aget s.vals a = some v

theorem prevInv_empty (p : Params) : PrevInv { params := p } :=
  ⟨by simp, by simp, fun _ => rfl, fun a p h => by cases h⟩

/-- every record is still there (possibly changed) -/
def Keeps (s s' : State) : Prop := ∀ a v, aget s.vals a = some v → ∃ v', aget s'.vals a = some v'

theorem Stable.keeps {s s' : State} (h : Stable s s') : Keeps s s' := fun a v hv =>
  let ⟨v', hv', _⟩ := h a v hv
  ⟨v', hv'⟩

/-- operations that leave the two stores alone and keep every record -/
theorem PrevInv.of_frame {s s' : State} (hp : PrevInv s) (hf : Frame s s') (hs : Keeps s s') : PrevInv s' := by
  refine ⟨by rw [hf.1]; exact hp.prevNodup, by rw [hf.2.1]; exact hp.tmNodup, ?_, ?_⟩
  · intro a; rw [hf.1, hf.2.1]; exact hp.sync a
  · intro a p h
    rw [hf.1] at h
    obtain ⟨v, hv⟩ := hp.hasRec a p h
    exact hs a v hv

theorem keeps_releaseWaiting (s : State) (t : Int) : Keeps s (releaseWaiting s t) := by
  have one : ∀ (x : State) (v : Val), Keeps x (releaseOne x t v) := by
    intro x v b w hw
    unfold releaseOne
    simp only
    split
    · unfold beginUnstaking
      simp only [delWaiting_vals, emit_vals, setValidator_vals]
      by_cases e : b = v.addr
      · exact ⟨_, by rw [e]; exact aget_aset_self _ _ _⟩
      · exact ⟨w, by rw [aget_aset_ne _ _ _ e]; exact hw⟩
    · exact ⟨w, hw⟩
  have fold : ∀ (l : List Val) (x : State), Keeps x (l.foldl (fun s v => releaseOne s t v) x) := by
    intro l
    induction l with
    | nil => intro x b w hw; exact ⟨w, hw⟩
    | cons v rest ih =>
      intro x b w hw
      simp only [List.foldl_cons]
      obtain ⟨w1, h1⟩ := one x v b w hw
      exact ih _ b w1 h1
  unfold releaseWaiting
  have gw : ∀ (l : List Addr) (acc : List Val), (getWaiting s l acc).2.vals = s.vals := by
    intro l
    induction l with
    | nil => intro acc; rfl
    | cons a rest ih =>
      intro acc
      unfold getWaiting
      cases aget s.vals a with
      | none => rfl
      | some v => exact ih _
  have h1 := gw (sortAddrs s.waiting) []
  generalize getWaiting s (sortAddrs s.waiting) [] = r at h1
  obtain ⟨vs, s1⟩ := r
  intro b w hw
  exact fold vs s1 b w (by rw [h1]; exact hw)

/-! ## candidates and the staked index -/

theorem powerOf_nonneg {x : Int} (h : 0 ≤ x) : 0 ≤ powerOf x := by
  unfold powerOf; omega

theorem mem_candidates {s : State} (hi : Inv s) (x : Int × Addr) :
    x ∈ candidates s ↔ ∃ v, aget s.vals x.2 = some v ∧ v.status = .staked ∧ v.jailed = false ∧ powerOf v.tokens = x.1 ∧ x.1 ≠ 0 := by
  unfold candidates
  simp only [List.mem_map, List.mem_filter, Bool.and_eq_true, decide_eq_true_eq, eligible, Bool.not_eq_true']
  constructor
  · rintro ⟨p, ⟨hp, ⟨h1, h2⟩, h3⟩, rfl⟩
    have hv := aget_of_mem hi.nodup (show (p.1, p.2) ∈ s.vals from hp)
    exact ⟨p.2, hv, h1, h2, rfl, by simp only; omega⟩
  · rintro ⟨v, hv, h1, h2, h3, h4⟩
    have hnn := powerOf_nonneg (hi.nonneg _ v hv)
    refine ⟨(x.2, v), ⟨aget_some_mem hv, ⟨h1, h2⟩, by simp only; omega⟩, ?_⟩
    simp only; rw [h3]

theorem nodup_candidates {s : State} (hi : Inv s) : (candidates s).Nodup := by
  unfold candidates
  have h1 : s.vals.Pairwise (fun a b => a.1 ≠ b.1) := List.pairwise_map.mp hi.nodup
  have h2 := h1.filter (fun p => eligible p.2 && decide (powerOf p.2.tokens > 0))
  apply List.pairwise_map.mpr
  apply h2.imp
  intro a b hab e
  apply hab
  injection e

/-- the non-zero part of the sorted staked index is the sorted candidate list -/
theorem filter_sorted_idx {s : State} (hi : Inv s) :
    (sortStaked s.stakedIdx).filter (fun e => decide (e.1 ≠ 0)) = sortStaked (candidates s) := by
  rw [filter_sortStaked _ _ hi.idxNodup]
  apply sortStaked_congr (hi.idxNodup.filter _) (nodup_candidates hi)
  intro x
  rw [List.mem_filter, hi.staked, mem_candidates hi]
  constructor
  · rintro ⟨⟨v, h1, h2, h3, h4⟩, h5⟩
    exact ⟨v, h1, h2, h3, h4, by simpa using h5⟩
  · rintro ⟨v, h1, h2, h3, h4, h5⟩
    exact ⟨⟨v, h1, h2, h3, h4⟩, by simpa using h5⟩

/-- two states with the same eligible records have the same sorted candidates -/
theorem sorted_candidates_congr {s s' : State} (hi : Inv s) (hi' : Inv s')
    (h : ∀ a v, v.status = .staked → (aget s.vals a = some v ↔ aget s'.vals a = some v)) :
    sortStaked (candidates s) = sortStaked (candidates s') := by
  apply sortStaked_congr (nodup_candidates hi) (nodup_candidates hi')
  intro x
  rw [mem_candidates hi, mem_candidates hi']
  constructor
  · rintro ⟨v, h1, h2, h3, h4, h5⟩; exact ⟨v, (h x.2 v h2).mp h1, h2, h3, h4, h5⟩
  · rintro ⟨v, h1, h2, h3, h4, h5⟩; exact ⟨v, (h x.2 v h2).mpr h1, h2, h3, h4, h5⟩

/-- the accepted entries are the first `N` sorted candidates -/
theorem accept_eq_topN {s : State} (hi : Inv s) (N : Int) :
    swapL (accept N (sortStaked s.stakedIdx)) = ((sortStaked (candidates s)).take N.toNat).map fun e => (e.2, e.1) := by
  unfold swapL
  rw [accept_eq_take, filter_sorted_idx hi]

/-! ## key-nodup through the loops -/

theorem tmFold_prevNodup (N : Int) (l : List (Int × Addr)) (acc : TmAcc) (h : (acc.st.prevPower.map (·.1)).Nodup) :
    ((l.foldl (tmStep N) acc).st.prevPower.map (·.1)).Nodup := by
  induction l generalizing acc with
  | nil => exact h
  | cons e t ih =>
    simp only [List.foldl_cons]
    apply ih
    unfold tmStep
    split
    · exact h
    · split
      · exact h
      · split
        · exact h
        · split
          · exact h
          · simp only
            split
            · exact nodup_aset h _ _
            · exact h

theorem leaverFold_prevNodup (h : Int) (l : List Addr) (x : State × List Update) (hn : (x.1.prevPower.map (·.1)).Nodup) :
    ((l.foldl (leaverStep h) x).1.prevPower.map (·.1)).Nodup := by
  induction l generalizing x with
  | nil => exact hn
  | cons a t ih =>
    simp only [List.foldl_cons]
    apply ih
    unfold leaverStep
    cases aget x.1.vals a with
    | none => exact hn
    | some v =>
      simp only
      split
      · exact nodup_adel hn _
      · exact nodup_adel hn _

theorem nodup_applyUpdates (tm : List (Addr × Int)) (us : List Update) (h : (tm.map (·.1)).Nodup) :
    ((applyUpdates tm us).map (·.1)).Nodup := by
  unfold applyUpdates
  induction us generalizing tm with
  | nil => exact h
  | cons u t ih =>
    simp only [List.foldl_cons]
    apply ih
    split
    · exact nodup_adel h _
    · exact nodup_aset h _ _

/-! ## the update as a whole -/

/-- the outcome of `UpdateTendermintValidators` (validator split active) from a state `s1` in which the
waiting nodes have already been released -/
structure TmOutcome (s1 s' : State) (ups : List Update) : Prop where
  vals : s'.vals = s1.vals
  params : s'.params = s1.params
  prev : ∀ a, aget s'.prevPower a = aget (topN s1) a
  tm : ∀ a, aget s'.tmSet a = aget s'.prevPower a
  prevNodup : (s'.prevPower.map (·.1)).Nodup
  tmNodup : (s'.tmSet.map (·.1)).Nodup
  /-- every reported update is either the current non-zero power of a member of the new set, or a zero
  for a previous member that is not in the new set -/
  updates : ∀ u ∈ ups, (u.power ≠ 0 ∧ aget (topN s1) u.addr = some u.power) ∨
    (u.power = 0 ∧ aget s1.prevPower u.addr ≠ none ∧ aget (topN s1) u.addr = none)

theorem sorted_idx_records {s1 : State} (hi : Inv s1) :
    (∀ e ∈ sortStaked s1.stakedIdx, ∃ v, aget s1.vals e.2 = some v ∧ v.jailed = false ∧ v.consPower = e.1 ∧ v.addr = e.2) ∧
    ((sortStaked s1.stakedIdx).map (·.2)).Nodup := by
  constructor
  · intro e he
    obtain ⟨v, h1, h2, h3, h4⟩ := (hi.staked e).mp ((mem_sortStaked _ _).mp he)
    refine ⟨v, h1, h3, ?_, hi.keys _ v h1⟩
    unfold Val.consPower
    rw [if_pos ⟨h2, h3⟩, h4]
  · have hn := nodup_sortStaked _ hi.idxNodup
    apply List.pairwise_map.mpr
    apply hn.imp_of_mem
    intro a b ha hb hab e
    apply hab
    obtain ⟨v, h1, _, _, h4⟩ := (hi.staked a).mp ((mem_sortStaked _ _).mp ha)
    obtain ⟨w, g1, _, _, g4⟩ := (hi.staked b).mp ((mem_sortStaked _ _).mp hb)
    rw [e, g1] at h1
    injection h1 with h1
    subst h1
    exact Prod.ext (by rw [← h4, ← g4]) e

theorem updateTm_loops {s1 : State} (hi : Inv s1) (hp : PrevInv s1) (h : Int) (hh : splitHeight ≤ h) :
    let acc := (sortStaked s1.stakedIdx).foldl (tmStep s1.params.maxValidators) { st := s1, remaining := s1.prevPower }
    let r := (sortAddrs (acc.remaining.map (·.1))).foldl (leaverStep h) (acc.st, acc.updates)
    TmOutcome s1 { r.1 with tmSet := applyUpdates s1.tmSet r.2 } r.2 := by
  intro acc r
  obtain ⟨hrec, hnd⟩ := sorted_idx_records hi
  have spec := tmFold_spec s1.params.maxValidators s1.tmSet (sortStaked s1.stakedIdx) { st := s1, remaining := s1.prevPower }
    hrec hnd (fun a _ => rfl) (fun a => hp.sync a)
  have fr := tmFold_frame s1.params.maxValidators (sortStaked s1.stakedIdx) { st := s1, remaining := s1.prevPower }
  have i2 := inv_tmFold hi s1.params.maxValidators (sortStaked s1.stakedIdx) { st := s1, remaining := s1.prevPower } rfl
  have hpn := tmFold_prevNodup s1.params.maxValidators (sortStaked s1.stakedIdx) { st := s1, remaining := s1.prevPower } hp.prevNodup
  simp only [Int.sub_zero] at spec
  obtain ⟨c1, c2, c3, c4⟩ := spec
  have hA := accept_eq_topN hi s1.params.maxValidators
  have htop : swapL (accept s1.params.maxValidators (sortStaked s1.stakedIdx)) = topN s1 := hA
  rw [htop] at c1 c2
  -- the leavers: the previous members that were not accepted; all of them still have a record
  have hla : ∀ a, a ∈ sortAddrs (acc.remaining.map (·.1)) ↔ (aget (topN s1) a = none ∧ aget s1.prevPower a ≠ none) := by
    intro a
    rw [mem_sortAddrs]
    have : a ∈ acc.remaining.map (·.1) ↔ aget acc.remaining a ≠ none := by
      constructor
      · intro hm hn'; exact (aget_none_iff.mp hn') hm
      · intro hne; exact Classical.byContradiction fun hm => hne (aget_none_iff.mpr hm)
    rw [this, c2 a]
    cases aget (topN s1) a with
    | none => simp
    | some p => simp
  have hlrec : ∀ a ∈ sortAddrs (acc.remaining.map (·.1)), ∃ v, aget (acc.st, acc.updates).1.vals a = some v ∧ v.status ≠ .unstaked ∧ v.addr = a := by
    intro a ha
    obtain ⟨_, h2⟩ := (hla a).mp ha
    cases hpa : aget s1.prevPower a with
    | none => exact absurd hpa h2
    | some p =>
      obtain ⟨v, hv⟩ := hp.hasRec a p hpa
      exact ⟨v, by simp only; rw [fr.1]; exact hv, hi.bondedAll a v hv, hi.keys a v hv⟩
  obtain ⟨d1, d2, d3, d4⟩ := leaverFold_spec h hh s1.tmSet (sortAddrs (acc.remaining.map (·.1))) (acc.st, acc.updates) hlrec c3
  have hfinal : ∀ a, aget r.1.prevPower a = aget (topN s1) a := by
    intro a
    rw [d1 a]
    by_cases hm : a ∈ sortAddrs (acc.remaining.map (·.1))
    · rw [if_pos hm, ((hla a).mp hm).1]
    · rw [if_neg hm]
      simp only
      rw [c1 a]
      cases ht : aget (topN s1) a with
      | some p => rfl
      | none =>
        simp only
        cases hpa : aget s1.prevPower a with
        | none => rfl
        | some p => exact absurd ((hla a).mpr ⟨ht, by rw [hpa]; simp⟩) hm
  -- parameters are untouched by both loops
  have hpar : r.1.params = s1.params := by
    have key : ∀ (l : List Addr) (x : State × List Update), (l.foldl (leaverStep h) x).1.params = x.1.params := by
      intro l
      induction l with
      | nil => intro x; rfl
      | cons a t ih =>
        intro x
        simp only [List.foldl_cons]
        rw [ih]
        unfold leaverStep
        cases aget x.1.vals a with
        | none => rfl
        | some v => simp only; split <;> rfl
    rw [key]; exact fr.2.2.2.2.2.2.1
  refine ⟨by simp only; rw [d3]; exact fr.1, hpar, hfinal, ?_, ?_, ?_, ?_⟩
  · intro a; exact d2 a
  · exact leaverFold_prevNodup h _ _ hpn
  · exact nodup_applyUpdates _ _ hp.tmNodup
  · intro u hu
    rcases d4 u hu with h1 | ⟨h1, h2⟩
    · rcases c4 u h1 with h' | ⟨h1', h2'⟩
      · cases h'
      · left
        refine ⟨h1', ?_⟩
        rw [← htop]
        -- the accepted entry (power, addr) gives the lookup
        have hmem : (u.addr, u.power) ∈ swapL (accept s1.params.maxValidators (sortStaked s1.stakedIdx)) := by
          unfold swapL
          exact List.mem_map.mpr ⟨(u.power, u.addr), by simpa using h2', rfl⟩
        apply aget_of_mem _ hmem
        -- distinct addresses among the accepted entries
        unfold swapL
        rw [List.map_map]
        have hsub : (accept s1.params.maxValidators (sortStaked s1.stakedIdx)).Sublist (sortStaked s1.stakedIdx) := by
          rw [accept_eq_take]
          exact (List.take_sublist _ _).trans List.filter_sublist
        exact hnd.sublist (hsub.map _)
    · right
      obtain ⟨g1, g2⟩ := (hla u.addr).mp h2
      exact ⟨h1, g2, g1⟩

theorem TmOutcome.congr {s1 s' s'' : State} {ups : List Update} (h : TmOutcome s1 s' ups) (e1 : s''.vals = s'.vals)
    (e2 : s''.params = s'.params) (e3 : s''.prevPower = s'.prevPower) (e4 : s''.tmSet = s'.tmSet) : TmOutcome s1 s'' ups :=
  ⟨e1.trans h.vals, e2.trans h.params, fun a => by rw [e3]; exact h.prev a, fun a => by rw [e3, e4]; exact h.tm a,
   by rw [e3]; exact h.prevNodup, by rw [e4]; exact h.tmNodup, h.updates⟩

/-- `UpdateTendermintValidators` -/
theorem updateTm_outcome {s : State} (hi : Inv s) (hp : PrevInv s) (h t : Int) (hh : splitHeight ≤ h) :
    TmOutcome (if h % s.params.blocksPerSession = 0 then releaseWaiting s t else s) (updateTm s h t).1 (updateTm s h t).2 := by
  have h1 : Inv (if h % s.params.blocksPerSession = 0 then releaseWaiting s t else s) := by
    split
    · exact inv_releaseWaiting hi t
    · exact hi
  have p1 : PrevInv (if h % s.params.blocksPerSession = 0 then releaseWaiting s t else s) := by
    split
    · exact hp.of_frame (frame_releaseWaiting s t) (keeps_releaseWaiting s t)
    · exact hp
  unfold updateTm
  simp only
  generalize (if h % s.params.blocksPerSession = 0 then releaseWaiting s t else s) = s1 at h1 p1 ⊢
  have out := updateTm_loops h1 p1 h hh
  simp only at out
  have fr := tmFold_frame s1.params.maxValidators (sortStaked s1.stakedIdx) { st := s1, remaining := s1.prevPower }
  generalize (sortStaked s1.stakedIdx).foldl (tmStep s1.params.maxValidators) { st := s1, remaining := s1.prevPower } = acc at out fr ⊢
  have htm : ∀ (l : List Addr) (x : State × List Update), (l.foldl (leaverStep h) x).1.tmSet = x.1.tmSet := by
    intro l
    induction l with
    | nil => intro x; rfl
    | cons a t ih =>
      intro x
      simp only [List.foldl_cons]
      rw [ih]
      unfold leaverStep
      cases aget x.1.vals a with
      | none => rfl
      | some v => simp only; split <;> rfl
  have htm' := htm (sortAddrs (acc.remaining.map (·.1))) (acc.st, acc.updates)
  generalize (sortAddrs (acc.remaining.map (·.1))).foldl (leaverStep h) (acc.st, acc.updates) = r at out htm' ⊢
  obtain ⟨s2, ups⟩ := r
  simp only at out htm' ⊢
  have e4 : s2.tmSet = s1.tmSet := by rw [htm']; exact fr.2.2.2.2.2.2.2.2.2.2.2.1
  split
  · exact out.congr rfl rfl rfl (by simp only; rw [e4])
  · exact out.congr rfl rfl rfl (by simp only; rw [e4])

/-! ## the end-block -/

/-- after an end-block (validator split active): previous-power store = consensus set = top N -/
structure Synced (s : State) : Prop where
  prev : ∀ a, aget s.prevPower a = aget (topN s) a
  tm : ∀ a, aget s.tmSet a = aget (topN s) a

theorem topN_keys_nodup {s : State} (hi : Inv s) : ((topN s).map (·.1)).Nodup := by
  unfold topN
  rw [List.map_map]
  have h1 := nodup_candidates hi
  have hs : (sortStaked (candidates s)).Nodup := nodup_sortStaked _ h1
  have hp : (sortStaked (candidates s)).Pairwise (fun a b => a.2 ≠ b.2) := by
    apply hs.imp_of_mem
    intro a b ha hb hab e
    apply hab
    obtain ⟨v, g1, _, _, g4, _⟩ := (mem_candidates hi a).mp ((mem_sortStaked _ _).mp ha)
    obtain ⟨w, k1, _, _, k4, _⟩ := (mem_candidates hi b).mp ((mem_sortStaked _ _).mp hb)
    rw [e, k1] at g1
    injection g1 with g1
    subst g1
    exact Prod.ext (by rw [← g4, ← k4]) e
  exact List.pairwise_map.mpr ((hp.sublist (List.take_sublist _ _)).imp (fun h e => h e))

/-- members of the top N are staked, unjailed records with that power -/
theorem topN_member {s : State} (hi : Inv s) {a : Addr} {p : Int} (h : aget (topN s) a = some p) :
    ∃ v, aget s.vals a = some v ∧ v.status = .staked ∧ v.jailed = false ∧ powerOf v.tokens = p ∧ p ≠ 0 := by
  have hm := aget_some_mem h
  unfold topN at hm
  obtain ⟨e, he, ee⟩ := List.mem_map.mp hm
  have hc := (mem_sortStaked _ _).mp (List.mem_of_mem_take he)
  obtain ⟨v, g1, g2, g3, g4, g5⟩ := (mem_candidates hi e).mp hc
  injection ee with e1 e2
  subst e1; subst e2
  exact ⟨v, g1, g2, g3, g4, g5⟩

theorem endBlock_outcome {s : State} (hi : Inv s) (hp : PrevInv s) (h t : Int) (hh : splitHeight ≤ h) :
    PrevInv (endBlock s h t).1 ∧ Synced (endBlock s h t).1 := by
  have i1 := inv_incrementJailed hi h
  have p1 : PrevInv (incrementJailed s h) := hp.of_frame (frame_incrementJailed s h) (stable_incrementJailed hi h).keeps
  have out := updateTm_outcome i1 p1 h t hh
  have i2 := inv_updateTm i1 h t
  have ir : Inv (if h % (incrementJailed s h).params.blocksPerSession = 0 then releaseWaiting (incrementJailed s h) t else incrementJailed s h) := by
    split
    · exact inv_releaseWaiting i1 t
    · exact i1
  generalize (if h % (incrementJailed s h).params.blocksPerSession = 0 then releaseWaiting (incrementJailed s h) t else incrementJailed s h) = s1 at out ir
  unfold endBlock
  simp only
  generalize updateTm (incrementJailed s h) h t = r at out i2 ⊢
  obtain ⟨s2, ups⟩ := r
  simp only at out i2 ⊢
  have i3 := inv_unstakeMature i2 t
  have f3 := frame_unstakeMature s2 t
  -- the sorted candidates of the three states coincide
  have hc12 : sortStaked (candidates s2) = sortStaked (candidates s1) :=
    sorted_candidates_congr i2 ir (fun a v _ => by rw [out.vals])
  have hc23 : sortStaked (candidates (unstakeMature s2 t)) = sortStaked (candidates s2) := by
    apply sorted_candidates_congr i3 i2
    intro a v hs
    constructor
    · intro hv
      -- records only disappear
      unfold unstakeMature at hv
      exact (inv_matureSlices _ i2 i2 (fun _ _ h => h)
        (fun e he => getQ_of_mem i2.qNodup (List.mem_filter.mp he).1)).2 a v hv
    · intro hv
      exact unstakeMature_keeps i2 t hv (Or.inl (by rw [hs]; simp))
  have htop : topN (unstakeMature s2 t) = topN s1 := by
    unfold topN
    rw [hc23, hc12, f3.2.2, out.params]
  refine ⟨⟨by rw [f3.1]; exact out.prevNodup, by rw [f3.2.1]; exact out.tmNodup,
    fun a => by rw [f3.1, f3.2.1]; exact out.tm a, ?_⟩, ⟨?_, ?_⟩⟩
  · intro a p hpa
    rw [f3.1, out.prev a] at hpa
    obtain ⟨v, g1, g2, _⟩ := topN_member ir hpa
    exact ⟨v, unstakeMature_keeps i2 t (by rw [out.vals]; exact g1) (Or.inl (by rw [g2]; simp))⟩
  · intro a; rw [f3.1, htop]; exact out.prev a
  · intro a; rw [f3.2.1, htop, out.tm a]; exact out.prev a

theorem endBlock_eq (s : State) (h t : Int) :
    endBlock s h t = (unstakeMature (updateTm (incrementJailed s h) h t).1 t, (updateTm (incrementJailed s h) h t).2) := by
  unfold endBlock
  simp only

/-- the consensus set after an end-block is the old one with the reported updates applied -/
theorem endBlock_tmSet (s : State) (h t : Int) :
    (endBlock s h t).1.tmSet = applyUpdates s.tmSet (endBlock s h t).2 ∧
    (endBlock s h t).2 = (updateTm (incrementJailed s h) h t).2 := by
  rw [endBlock_eq]
  simp only
  have f1 := frame_incrementJailed s h
  generalize incrementJailed s h = s0 at f1 ⊢
  have key : (updateTm s0 h t).1.tmSet = applyUpdates s0.tmSet (updateTm s0 h t).2 := by
    unfold updateTm
    simp only
    have f2 : Frame s0 (if h % s0.params.blocksPerSession = 0 then releaseWaiting s0 t else s0) := by
      split
      · exact frame_releaseWaiting s0 t
      · exact Frame.refl s0
    generalize (if h % s0.params.blocksPerSession = 0 then releaseWaiting s0 t else s0) = s1 at f2 ⊢
    have fr := tmFold_frame s1.params.maxValidators (sortStaked s1.stakedIdx) { st := s1, remaining := s1.prevPower }
    generalize (sortStaked s1.stakedIdx).foldl (tmStep s1.params.maxValidators) { st := s1, remaining := s1.prevPower } = acc at fr ⊢
    have htm : ∀ (l : List Addr) (x : State × List Update), (l.foldl (leaverStep h) x).1.tmSet = x.1.tmSet := by
      intro l
      induction l with
      | nil => intro x; rfl
      | cons a t ih =>
        intro x
        simp only [List.foldl_cons]
        rw [ih]
        unfold leaverStep
        cases aget x.1.vals a with
        | none => rfl
        | some v => simp only; split <;> rfl
    have htm' := htm (sortAddrs (acc.remaining.map (·.1))) (acc.st, acc.updates)
    generalize (sortAddrs (acc.remaining.map (·.1))).foldl (leaverStep h) (acc.st, acc.updates) = r at htm' ⊢
    obtain ⟨s2, ups⟩ := r
    simp only at htm' ⊢
    have e4 : s2.tmSet = s0.tmSet := by rw [htm', fr.2.2.2.2.2.2.2.2.2.2.2.1, f2.2.1]
    split
    · show applyUpdates s2.tmSet ups = applyUpdates s0.tmSet ups
      rw [e4]
    · show applyUpdates s2.tmSet ups = applyUpdates s0.tmSet ups
      rw [e4]
  constructor
  · show (unstakeMature (updateTm s0 h t).1 t).tmSet = applyUpdates s.tmSet (updateTm s0 h t).2
    rw [(frame_unstakeMature _ t).2.1, key, f1.2.1]
  · trivial

/-- what the reported updates of an end-block are (validator split active) -/
theorem endBlock_updates {s : State} (hi : Inv s) (hp : PrevInv s) (h t : Int) (hh : splitHeight ≤ h) :
    ∀ u ∈ (endBlock s h t).2,
      (u.power ≠ 0 ∧ aget (topN (endBlock s h t).1) u.addr = some u.power) ∨
      (u.power = 0 ∧ aget s.prevPower u.addr ≠ none ∧ aget (topN (endBlock s h t).1) u.addr = none) := by
  have i1 := inv_incrementJailed hi h
  have p1 : PrevInv (incrementJailed s h) := hp.of_frame (frame_incrementJailed s h) (stable_incrementJailed hi h).keeps
  have out := updateTm_outcome i1 p1 h t hh
  have i2 := inv_updateTm i1 h t
  have ir : Inv (if h % (incrementJailed s h).params.blocksPerSession = 0 then releaseWaiting (incrementJailed s h) t else incrementJailed s h) := by
    split
    · exact inv_releaseWaiting i1 t
    · exact i1
  have fr1 : Frame s (if h % (incrementJailed s h).params.blocksPerSession = 0 then releaseWaiting (incrementJailed s h) t else incrementJailed s h) := by
    split
    · exact (frame_incrementJailed s h).trans (frame_releaseWaiting _ t)
    · exact frame_incrementJailed s h
  generalize (if h % (incrementJailed s h).params.blocksPerSession = 0 then releaseWaiting (incrementJailed s h) t else incrementJailed s h) = s1 at out ir fr1
  rw [(endBlock_tmSet s h t).2]
  have hfin : (endBlock s h t).1 = unstakeMature (updateTm (incrementJailed s h) h t).1 t := by
    unfold endBlock; rfl
  rw [hfin]
  generalize updateTm (incrementJailed s h) h t = r at out i2 ⊢
  obtain ⟨s2, ups⟩ := r
  simp only at out i2 ⊢
  have i3 := inv_unstakeMature i2 t
  have f3 := frame_unstakeMature s2 t
  have hc12 : sortStaked (candidates s2) = sortStaked (candidates s1) :=
    sorted_candidates_congr i2 ir (fun a v _ => by rw [out.vals])
  have hc23 : sortStaked (candidates (unstakeMature s2 t)) = sortStaked (candidates s2) := by
    apply sorted_candidates_congr i3 i2
    intro a v hs
    constructor
    · intro hv
      unfold unstakeMature at hv
      exact (inv_matureSlices _ i2 i2 (fun _ _ h => h)
        (fun e he => getQ_of_mem i2.qNodup (List.mem_filter.mp he).1)).2 a v hv
    · intro hv
      exact unstakeMature_keeps i2 t hv (Or.inl (by rw [hs]; simp))
  have htop : topN (unstakeMature s2 t) = topN s1 := by
    unfold topN
    rw [hc23, hc12, f3.2.2, out.params]
  intro u hu
  rw [htop, ← fr1.1]
  exact out.updates u hu

/-- pointwise equal lookups with distinct keys on both sides are equal maps for the executable check -/
theorem sameMap_of_pointwise {x y : List (Addr × Int)} (hx : (x.map (·.1)).Nodup) (hy : (y.map (·.1)).Nodup)
    (h : ∀ a, aget x a = aget y a) : sameMap x y = true := by
  unfold sameMap
  rw [Bool.and_eq_true, List.all_eq_true, List.all_eq_true]
  constructor
  · intro p hp
    have := aget_of_mem hx (show (p.1, p.2) ∈ x from hp)
    rw [h] at this
    simp [this]
  · intro p hp
    have := aget_of_mem hy (show (p.1, p.2) ∈ y from hp)
    rw [← h] at this
    simp [this]

/-- the joint invariant over histories -/
structure Inv2 (s : State) : Prop where
  inv : Inv s
  prev : PrevInv s

/-- end-blocks of the history run under the modern rule set (validator split active) -/
def Op.modern : Op → Bool
  | .endBlock h _ => decide (splitHeight ≤ h)
  | _ => true

theorem inv2_step {s : State} (h2 : Inv2 s) (op : Op) (hop : op.isPoolSend = false) (hm : op.modern = true) :
    Inv2 (step s op) := by
  refine ⟨inv_step h2.inv op hop, ?_⟩
  cases op with
  | endBlock h t =>
    exact (endBlock_outcome h2.inv h2.prev h t (by simpa [Op.modern] using hm)).1
  | setParams p =>
    exact ⟨h2.prev.prevNodup, h2.prev.tmNodup, h2.prev.sync, h2.prev.hasRec⟩
  | stake h m signer => exact h2.prev.of_frame (frame_step s _ (by intros; simp) (by intros; simp)) (stable_step h2.inv _ (by intros; simp)).keeps
  | beginUnstake a signer => exact h2.prev.of_frame (frame_step s _ (by intros; simp) (by intros; simp)) (stable_step h2.inv _ (by intros; simp)).keeps
  | unjail h t a signer => exact h2.prev.of_frame (frame_step s _ (by intros; simp) (by intros; simp)) (stable_step h2.inv _ (by intros; simp)).keeps
  | burn a amount => exact h2.prev.of_frame (frame_step s _ (by intros; simp) (by intros; simp)) (stable_step h2.inv _ (by intros; simp)).keeps
  | beginBlock h t votes evs => exact h2.prev.of_frame (frame_step s _ (by intros; simp) (by intros; simp)) (stable_step h2.inv _ (by intros; simp)).keeps
  | credit a d => exact h2.prev.of_frame (frame_step s _ (by intros; simp) (by intros; simp)) (stable_step h2.inv _ (by intros; simp)).keeps
  | reward to amount => exact h2.prev.of_frame (frame_step s _ (by intros; simp) (by intros; simp)) (stable_step h2.inv _ (by intros; simp)).keeps
  | sendToPool sender amount => cases hop

theorem inv2_run {s : State} (h2 : Inv2 s) (ops : List Op) (hops : ∀ op ∈ ops, op.isPoolSend = false ∧ op.modern = true) :
    Inv2 (run s ops) := by
  unfold run
  induction ops generalizing s with
  | nil => exact h2
  | cons op t ih =>
    simp only [List.foldl_cons]
    exact ih (inv2_step h2 op (hops op List.mem_cons_self).1 (hops op List.mem_cons_self).2)
      (fun o ho => hops o (List.mem_cons_of_mem _ ho))

end Nodes
