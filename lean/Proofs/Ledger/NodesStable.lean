import Proofs.Ledger.NodesSlash
import Proofs.Ledger.NodesEdit
/-!
# Which operations can change the status of a record (C24)

`Stable s s'`: every record of `s` is still there in `s'` with the same status, completion time, address,
key and output.  Everything except `EndBlocker` is stable.
-/
namespace Nodes

/-- every record survives with its status, completion time and identity -/
def Stable (s s' : State) : Prop :=
  ∀ a v, aget s.vals a = some v → ∃ v', aget s'.vals a = some v' ∧ v'.status = v.status ∧ v'.unstTime = v.unstTime ∧
    v'.addr = v.addr ∧ v'.pk = v.pk

theorem Stable.refl (s : State) : Stable s s := fun _ v h => ⟨v, h, rfl, rfl, rfl, rfl⟩

theorem Stable.trans {s1 s2 s3 : State} (h1 : Stable s1 s2) (h2 : Stable s2 s3) : Stable s1 s3 := by
  intro a v hv
  obtain ⟨v2, e2, a1, a2, a3, a4⟩ := h1 a v hv
  obtain ⟨v3, e3, b1, b2, b3, b4⟩ := h2 a v2 e2
  exact ⟨v3, e3, by rw [b1, a1], by rw [b2, a2], by rw [b3, a3], by rw [b4, a4]⟩

theorem Stable.of_vals {s s' : State} (h : s'.vals = s.vals) : Stable s s' := by
  intro a v hv; exact ⟨v, by rw [h]; exact hv, rfl, rfl, rfl, rfl⟩

theorem stable_jailValidator {s : State} (hi : Inv s) (a : Addr) : Stable s (jailValidator s a) := by
  intro b v hv
  by_cases e : b = a
  · subst e
    obtain ⟨j, _⟩ := jailValidator_record s hv (hi.keys b v hv) (hi.bondedAll b v hv)
    exact ⟨_, j, rfl, rfl, rfl, rfl⟩
  · refine ⟨v, ?_, rfl, rfl, rfl, rfl⟩
    rw [jailValidator_other s a e (fun w hw => hi.keys a w hw)]; exact hv

theorem stable_forceUnstake {s : State} (hi : Inv s) (v : Val) (c : Cause) : Stable s (forceUnstake s v c) := by
  unfold forceUnstake
  exact (stable_jailValidator hi v.addr).trans (Stable.of_vals rfl)

theorem stable_slashCore {s : State} (hi : Inv s) {v : Val} (hv : aget s.vals v.addr = some v) (req : Int) :
    Stable s (slashCore s v req) := by
  have h := slashCore_slashed hi hv req
  intro b w hw
  by_cases e : b = v.addr
  · subst e
    rw [hv] at hw; injection hw with hw; subst hw
    obtain ⟨v', h1, _, h3, h4, h5, _⟩ := h.record
    refine ⟨v', h1, h4, ?_, h3, h5⟩
    -- the completion time: slashedVal keeps it, jailing keeps it
    have hnn := hi.nonneg _ v hv
    rw [slashCore_ok s v req hnn (hi.tokens_le_pool hv)] at h1
    obtain ⟨f1, _⟩ := afterBurn_fields s v req
    have hrec : aget (afterBurn s v req).vals v.addr = some (slashedVal v (burnAmount req v.tokens)) := by rw [f1]; simp
    split at h1
    · unfold forceUnstake at h1
      obtain ⟨j1, _⟩ := jailValidator_record (afterBurn s v req) (a := v.addr) hrec rfl
        (by simp [slashedVal]; exact hi.bondedAll _ v hv)
      have : aget (setWaiting (jailValidator (afterBurn s v req) v.addr) v.addr .belowMin).vals v.addr = some v' := h1
      rw [setWaiting_vals, j1] at this
      injection this with this; subst this; rfl
    · rw [hrec] at h1; injection h1 with h1; subst h1; rfl
  · exact ⟨w, by rw [h.others b e]; exact hw, rfl, rfl, rfl, rfl⟩

theorem stable_simpleSlash {s : State} (hi : Inv s) (a : Addr) (amount : Int) : Stable s (simpleSlash s a amount) := by
  unfold simpleSlash
  split
  · exact Stable.refl s
  · cases hv : aget s.vals a with
    | none => exact Stable.refl s
    | some v =>
      simp only
      split
      · exact Stable.refl s
      · exact stable_slashCore hi (by rw [hi.keys a v hv]; exact hv) _

theorem stable_slash {s : State} (hi : Inv s) (h : Int) (a : Addr) (ih pw f : Int) : Stable s (slash s h a ih pw f) := by
  unfold slash
  split
  · exact Stable.refl s
  · split
    · exact Stable.refl s
    · cases hv : aget s.vals a with
      | none => exact Stable.refl s
      | some v =>
        simp only
        split
        · exact Stable.refl s
        · exact stable_slashCore hi (by rw [hi.keys a v hv]; exact hv) _

theorem stable_handleSig {s : State} (hi : Inv s) (h t : Int) (vt : Vote) : Stable s (handleSig s h t vt) := by
  unfold handleSig
  split
  · exact Stable.refl s
  · split
    · split
      · exact Stable.of_vals rfl
      · exact Stable.refl s
    · simp only
      have h1 : Stable s (sigWindowReset s h vt.addr ‹SignInfo›).1 := by
        unfold sigWindowReset; split <;> exact Stable.of_vals rfl
      have i1 := inv_sigWindowReset hi h vt.addr ‹SignInfo›
      have h2 : Stable (sigWindowReset s h vt.addr ‹SignInfo›).1
          (sigRecord (sigWindowReset s h vt.addr ‹SignInfo›).1 vt.addr (sigWindowReset s h vt.addr ‹SignInfo›).2 vt.signed).1 := by
        unfold sigRecord; simp only; split
        · exact Stable.of_vals rfl
        · split <;> exact Stable.of_vals rfl
      have i2 := inv_sigRecord i1 vt.addr (sigWindowReset s h vt.addr ‹SignInfo›).2 vt.signed
      split
      · refine (h1.trans h2).trans ?_
        unfold sigPunish
        simp only
        have a1 := stable_slash i2 h vt.addr (h - 1 - 1) vt.power s.params.slashDowntime
        have j1 := inv_slash i2 h vt.addr (h - 1 - 1) vt.power s.params.slashDowntime
        have a2 := stable_jailValidator (inv_clearMissed j1 vt.addr) vt.addr
        exact (a1.trans ((Stable.of_vals rfl).trans a2)).trans (Stable.of_vals rfl)
      · exact (h1.trans h2).trans (Stable.of_vals rfl)

theorem stable_handleEvidence {s : State} (hi : Inv s) (h t : Int) (e : Evidence) : Stable s (handleEvidence s h t e) := by
  unfold handleEvidence handleDoubleSign
  split
  · cases hv : aget s.vals e.addr with
    | none => exact Stable.refl s
    | some v =>
      simp only
      split
      · exact Stable.refl s
      · split
        · exact Stable.refl s
        · cases hsi : aget s.signInfo e.addr with
          | none => exact Stable.refl s
          | some si => exact stable_slash hi _ _ _ _ _
  · exact Stable.refl s

theorem stable_foldl {β : Type} (f : State → β → State) (hf : ∀ s b, Inv s → Inv (f s b) ∧ Stable s (f s b))
    (l : List β) {s : State} (hi : Inv s) : Stable s (l.foldl f s) := by
  induction l generalizing s with
  | nil => exact Stable.refl s
  | cons b t ih => exact ((hf s b hi).2).trans (ih (hf s b hi).1)

theorem stable_beginBlock {s : State} (hi : Inv s) (h t : Int) (votes : List Vote) (evs : List Evidence) :
    Stable s (beginBlock s h t votes evs) := by
  unfold beginBlock
  have i1 := inv_foldl _ (fun s v hs => inv_handleSig hs h t v) votes hi
  exact (stable_foldl _ (fun s v hs => ⟨inv_handleSig hs h t v, stable_handleSig hs h t v⟩) votes hi).trans
    (stable_foldl _ (fun s e hs => ⟨inv_handleEvidence hs h t e, stable_handleEvidence hs h t e⟩) evs i1)

theorem stable_handleBeginUnstake (s : State) (a signer : Addr) : Stable s (handleBeginUnstake s a signer).1 := by
  unfold handleBeginUnstake
  cases aget s.vals a with
  | none => exact Stable.refl s
  | some v =>
    simp only
    split
    · exact Stable.refl s
    · split
      · exact Stable.refl s
      · exact Stable.of_vals rfl

theorem stable_handleUnjail {s : State} (hi : Inv s) (h t : Int) (a signer : Addr) :
    Stable s (handleUnjail s h t a signer).1 := by
  by_cases hok : (handleUnjail s h t a signer).2 = .ok
  · obtain ⟨v, si, hv, hsi, _, hmin, hj, h6⟩ := handleUnjail_ok_requires hok
    have hka := hi.keys a v hv
    unfold handleUnjail
    simp only [hv]
    have h1 : ¬ (signerOk v.addr v.output signer = false) := by simp_all
    have h2 : ¬ (v.tokens < s.params.minStake) := by omega
    have h3 : ¬ (v.jailed = false) := by simp [hj]
    simp only [if_neg h1, if_neg h2, if_neg h3, hsi, if_neg (show ¬ t < si.jailedUntil by omega)]
    unfold unjailValidator
    simp only [hka, hv, if_neg h3]
    intro b w hw
    by_cases e : b = a
    · subst e
      rw [hv] at hw; injection hw with hw; subst hw
      refine ⟨{ v with jailed := false }, ?_, rfl, rfl, rfl, rfl⟩
      simp [resetSigningInfo, clearMissed, setValidator_vals, hka]
    · refine ⟨w, ?_, rfl, rfl, rfl, rfl⟩
      simp [resetSigningInfo, clearMissed, setValidator_vals, hka, aget_aset_ne _ _ _ e, hw]
  · exact Stable.of_vals (handleUnjail_err_vals hok)

theorem stable_handleStake {s : State} (hi : Inv s) (h : Int) (m : StakeMsg) (signer : Addr) :
    Stable s (handleStake s h m signer).1 := by
  by_cases hok : (handleStake s h m signer).2 = .ok
  · cases hc : aget s.vals m.addr with
    | some cur =>
      have hk := hi.keys _ cur hc
      -- an accepted message on an existing record is an edit of a staked record
      have hs : cur.status = .staked := by
        unfold handleStake at hok
        by_cases hu : m.url.length > 255
        · simp [hu] at hok
        · by_cases hdl : delegatorsOk m.delegators = false
          · simp [hu, hdl] at hok
          · simp only [if_neg hu, if_neg hdl] at hok
            cases hv : validateStaking s m signer with
            | err c => simp [hv] at hok
            | ok =>
              rcases validateStaking_ok_status hv hc with e | e
              · exact e
              · exact absurd e (hi.bondedAll _ cur hc)
      obtain ⟨_, _, _, hr⟩ := handleStake_edit hc hk hs hok
      intro b w hw
      by_cases e : b = m.addr
      · subst e
        rw [hc] at hw; injection hw with hw; subst hw
        exact ⟨_, hr, rfl, rfl, rfl, rfl⟩
      · refine ⟨w, ?_, rfl, rfl, rfl, rfl⟩
        -- other records are untouched: read it off the invariant-preserving replacement
        unfold handleStake
        by_cases hu : m.url.length > 255
        · unfold handleStake at hok; simp [hu] at hok
        · by_cases hdl : delegatorsOk m.delegators = false
          · unfold handleStake at hok; simp [hu, hdl] at hok
          · simp only [if_neg hu, if_neg hdl]
            cases hv : validateStaking s m signer with
            | err c => exact hw
            | ok =>
              simp only
              unfold stakeValidator
              simp only [hc, if_pos hs]
              unfold editStake
              simp only
              split
              · exact hw
              · rw [ite_reset_vals]
                rename_i s1 hp
                have hs1 : s1.vals = s.vals := by
                  split at hp
                  · obtain ⟨_, _, e1⟩ := toPool_spec hp; rw [e1]
                  · injection hp with hp; rw [hp]
                simp only [setChains_vals, setValidator_vals, deleteValidator_vals, delChains_vals, delStaked_vals]
                rw [aget_aset_ne _ _ _ (by rw [hk]; exact e), aget_adel_ne _ _ (by rw [hk]; exact e)]
                split <;> simp [hs1, hw]
    | none =>
      intro b w hw
      have e : b ≠ m.addr := by intro e; rw [e, hc] at hw; cases hw
      refine ⟨w, ?_, rfl, rfl, rfl, rfl⟩
      unfold handleStake
      split
      · exact hw
      · split
        · exact hw
        · cases hv : validateStaking s m signer with
          | err c => exact hw
          | ok =>
            simp only
            unfold stakeValidator
            simp only [hc]
            unfold stakeValidator.stakeNew
            cases hp : toPool s signer m.amount with
            | none => exact hw
            | some s1 =>
              obtain ⟨_, _, e1⟩ := toPool_spec hp
              simp only
              split <;> simp [setValidator_vals, aget_aset_ne _ _ _ e, e1, hw]
  · rw [handleStake_err_vals hok]; exact Stable.refl s

/-- every operation except `EndBlocker` keeps every record with its status -/
theorem stable_step {s : State} (hi : Inv s) (op : Op) (hne : ∀ h t, op ≠ .endBlock h t) : Stable s (step s op) := by
  cases op with
  | stake h m signer => exact stable_handleStake hi h m signer
  | beginUnstake a signer => exact stable_handleBeginUnstake s a signer
  | unjail h t a signer => exact stable_handleUnjail hi h t a signer
  | burn a amount => exact stable_simpleSlash hi a amount
  | beginBlock h t votes evs => exact stable_beginBlock hi h t votes evs
  | endBlock h t => exact absurd rfl (hne h t)
  | setParams p => exact Stable.of_vals rfl
  | credit a d => exact Stable.of_vals rfl
  | reward to amount =>
    show Stable s (mintTo s amount to)
    rw [mintTo_spec hi]; exact Stable.of_vals rfl
  | sendToPool sender amount =>
    show Stable s (if _ then _ else _)
    split
    · exact Stable.refl s
    · exact Stable.of_vals rfl

end Nodes
