import Proofs.Ledger.AppsIndexOps
/-!
# Case analysis of the `MsgStake` pipeline (used by C28 and the application half of C23)
-/
namespace Apps

/-! ## ante -/

theorem deductFee_ok {s s1 : St} {signer : Addr} {fee : Int} (h : deductFee s signer fee = (.ok, s1)) :
    ∃ b, get s.bals signer = some b ∧ fee ≤ b
      ∧ s1 = { s with bals := put s.bals signer (b - fee), feeColl := s.feeColl + fee } := by
  unfold deductFee at h
  split at h
  · simp at h
  · rename_i b hb
    split at h
    · simp at h
    · simp at h
      exact ⟨b, hb, by omega, h.symm⟩

theorem deductFee_not_ok {s s1 : St} {signer : Addr} {fee : Int} {e : Rc} (h : deductFee s signer fee = (e, s1)) (he : e ≠ .ok) :
    s1 = s := by
  unfold deductFee at h
  split at h
  · simp at h; exact h.2.symm
  · split at h
    · simp at h; exact h.2.symm
    · simp at h; exact absurd h.1.symm he

/-- balance of `x` once `signer` paid `fee` -/
def afterFee (s : St) (signer : Addr) (fee : Int) (x : Addr) : Int :=
  if signer = x then balOf s x - fee else balOf s x

theorem balOf_after_fee (s : St) (signer : Addr) (b fee : Int) (hb : get s.bals signer = some b) (x : Addr) :
    balOf { s with bals := put s.bals signer (b - fee), feeColl := s.feeColl + fee } x = afterFee s signer fee x := by
  unfold balOf afterFee
  simp only [get_put]
  by_cases hx : signer = x
  · subst hx; simp [hb, balOf]
  · simp [hx, balOf]

theorem anteStake_ok {s s1 : St} {signer : Addr} {m : MsgStake} {fee : Int} (h : anteStake s signer m fee = (.ok, s1)) :
    (signer = m.addr ∨ isMsgAppTransfer s signer m = true) ∧
    ∃ b, get s.bals signer = some b ∧ fee ≤ b
      ∧ s1 = { s with bals := put s.bals signer (b - fee), feeColl := s.feeColl + fee } := by
  unfold anteStake at h
  split at h
  · rename_i hc; exact ⟨hc, deductFee_ok h⟩
  · simp at h

theorem anteStake_not_ok {s s1 : St} {signer : Addr} {m : MsgStake} {fee : Int} {e : Rc}
    (h : anteStake s signer m fee = (e, s1)) (he : e ≠ .ok) : s1 = s := by
  unfold anteStake at h
  split at h
  · exact deductFee_not_ok h he
  · simp at h; exact h.2.symm

/-! ## handler -/

theorem handleStake_cases (s : St) (signer : Addr) (m : MsgStake) :
    (∃ cur, validateTransfer s signer m = some cur ∧ handleStake s signer m = (.ok, transferApplication s signer cur m))
    ∨ (validateTransfer s signer m = none ∧ validateStaking s m ≠ .ok ∧ handleStake s signer m = (validateStaking s m, s))
    ∨ (validateTransfer s signer m = none ∧ validateStaking s m = .ok ∧ handleStake s signer m = stakeApplication s m) := by
  unfold handleStake
  cases ht : validateTransfer s signer m with
  | some cur => exact Or.inl ⟨cur, rfl, rfl⟩
  | none =>
    cases hv : validateStaking s m with
    | ok => exact Or.inr (Or.inr ⟨rfl, rfl, rfl⟩)
    | app c => exact Or.inr (Or.inl ⟨rfl, by simp, rfl⟩)
    | sdk c => exact Or.inr (Or.inl ⟨rfl, by simp, rfl⟩)
    | auth c => exact Or.inr (Or.inl ⟨rfl, by simp, rfl⟩)

theorem stakeFresh_cases (s : St) (m : MsgStake) :
    (toPool s m.addr m.value = none ∧ stakeFresh s m = (.sdk 10, s))
    ∨ (∃ s1, toPool s m.addr m.value = some s1 ∧ stakeFresh s m = (.ok, setApplication s1 m.addr (freshApp s1 m))) := by
  unfold stakeFresh
  cases toPool s m.addr m.value with
  | none => exact Or.inl ⟨rfl, rfl⟩
  | some s1 => exact Or.inr ⟨s1, rfl, rfl⟩

theorem stakeApplication_cases (s : St) (m : MsgStake) :
    (∃ cur, get s.apps m.addr = some cur ∧ cur.status = stStaked ∧ stakeApplication s m = editStake s m.addr cur m)
    ∨ ((∀ cur, get s.apps m.addr = some cur → cur.status ≠ stStaked) ∧ stakeApplication s m = stakeFresh s m) := by
  unfold stakeApplication
  cases hcur : get s.apps m.addr with
  | none => exact Or.inr ⟨(by intro c e; cases e), rfl⟩
  | some cur =>
    by_cases hst : cur.status = stStaked
    · exact Or.inl ⟨cur, rfl, hst, by simp [hst]⟩
    · exact Or.inr ⟨(by intro c e; cases e; exact hst), by simp [hst]⟩

/-- the record `EditStakeApplication` writes -/
def editedApp (s1 : St) (cur : App) (m : MsgStake) (bump : Bool) : App :=
  if bump then { cur with tokens := cur.tokens + (m.value - cur.tokens), maxRelays := s1.relays (cur.tokens + (m.value - cur.tokens)), chains := m.chains }
  else { cur with chains := m.chains }

theorem editStake_cases (s : St) (a : Addr) (cur : App) (m : MsgStake) :
    (editStake s a cur m = (.sdk 10, s))
    ∨ (∃ s1 bump, (bump = true → 0 < m.value - cur.tokens ∧ toPool s a (m.value - cur.tokens) = some s1)
          ∧ (bump = false → m.value - cur.tokens ≤ 0 ∧ s1 = s)
          ∧ editStake s a cur m = (.ok, setStaked (setApplication (deleteApplication (delStaked s1 a cur) a) a (editedApp s1 cur m bump)) a (editedApp s1 cur m bump))) := by
  unfold editStake
  dsimp only
  by_cases hd : m.value - cur.tokens > 0
  · rw [if_pos hd]
    cases htp : toPool s a (m.value - cur.tokens) with
    | none => exact Or.inl rfl
    | some s1 =>
      refine Or.inr ⟨s1, true, fun _ => ⟨hd, rfl⟩, (fun e => by cases e), ?_⟩
      simp [editedApp]
  · rw [if_neg hd]
    refine Or.inr ⟨s, false, (fun e => by cases e), fun _ => ⟨by omega, rfl⟩, ?_⟩
    simp [editedApp]

/-- What a successful `validateStaking` established. -/
theorem validateStaking_ok {s : St} {m : MsgStake} (h : validateStaking s m = .ok) :
    0 ≤ m.value ∧ (m.chains.length : Int) ≤ s.params.maxChains ∧
    ((∃ cur, get s.apps m.addr = some cur ∧ cur.status = stStaked ∧ validateEditStake s m.addr cur m.value = .ok)
     ∨ ((∀ cur, get s.apps m.addr = some cur → cur.status = stUnstaked)
        ∧ s.params.minStake ≤ m.value ∧ hasCoins s m.addr m.value = true ∧ (s.idx.length : Int) < s.params.maxApps)) := by
  unfold validateStaking at h
  split at h
  · simp at h
  · rename_i h0
    split at h
    · simp at h
    · rename_i h1
      refine ⟨by omega, by omega, ?_⟩
      have common : ∀ {r : Rc}, (if m.value < s.params.minStake then Rc.app 111
            else if (!hasCoins s m.addr m.value) = true then Rc.app 112
            else if (s.idx.length : Int) ≥ s.params.maxApps then Rc.app 119 else Rc.ok) = r → r = .ok →
          s.params.minStake ≤ m.value ∧ hasCoins s m.addr m.value = true ∧ (s.idx.length : Int) < s.params.maxApps := by
        intro r e hr
        subst hr
        split at e
        · simp at e
        · split at e
          · simp at e
          · split at e
            · simp at e
            · rename_i a b c
              refine ⟨by omega, ?_, by omega⟩
              cases hh : hasCoins s m.addr m.value <;> simp_all
      cases hcur : get s.apps m.addr with
      | none =>
        simp only [hcur] at h
        exact Or.inr ⟨(by intro c e; cases e), common h rfl⟩
      | some cur =>
        simp only [hcur] at h
        by_cases hst : cur.status = stStaked
        · simp only [hst, if_true] at h
          exact Or.inl ⟨cur, rfl, hst, h⟩
        · simp only [hst, if_false] at h
          by_cases hu : cur.status = stUnstaked
          · have : ¬ (cur.status ≠ stUnstaked) := by simp [hu]
            simp only [this, if_false] at h
            exact Or.inr ⟨(by intro c e; cases e; exact hu), common h rfl⟩
          · have : cur.status ≠ stUnstaked := hu
            rw [if_pos this] at h
            cases h

theorem validateEditStake_ok {s : St} {a : Addr} {cur : App} {amount : Int} (h : validateEditStake s a cur amount = .ok) :
    cur.tokens ≤ amount ∧ (amount = cur.tokens ∨ hasCoins s a (amount - cur.tokens) = true) := by
  unfold validateEditStake at h
  dsimp only at h
  split at h
  · simp at h
  · split at h
    · simp at h
    · rename_i h1 h2
      refine ⟨by omega, ?_⟩
      by_cases hd : amount - cur.tokens = 0
      · left; omega
      · right
        cases hh : hasCoins s a (amount - cur.tokens)
        · exact absurd ⟨hd, by simp [hh]⟩ h2
        · rfl

/-! ## whole DeliverTx -/

/-- A successful `MsgStake` DeliverTx decomposes into ValidateBasic, ante and handler. -/
theorem deliverStake_ok {s : St} {signer : Addr} {m : MsgStake} {fee : Int} (h : (deliverStake s signer m fee).1 = .ok) :
    m.validateBasic = .ok ∧ ∃ s1, anteStake s signer m fee = (.ok, s1) ∧ deliverStake s signer m fee = handleStake s1 signer m := by
  by_cases hvb : m.validateBasic = .ok
  · refine ⟨hvb, ?_⟩
    cases ha : anteStake s signer m fee with
    | mk e s1 =>
      have hd : deliverStake s signer m fee = (match (e, s1) with | (.ok, s1) => handleStake s1 signer m | (e, s1) => (e, s1)) := by
        unfold deliverStake; rw [hvb, ha]; rfl
      cases e with
      | ok => exact ⟨s1, rfl, hd⟩
      | app c => rw [hd] at h; simp at h
      | sdk c => rw [hd] at h; simp at h
      | auth c => rw [hd] at h; simp at h
  · exfalso
    unfold deliverStake at h
    cases hv : m.validateBasic with
    | ok => exact hvb hv
    | app c => rw [hv] at h; simp at h
    | sdk c => rw [hv] at h; simp at h
    | auth c => rw [hv] at h; simp at h

/-- A failing `MsgStake` DeliverTx leaves records, index, queue and pool untouched. -/
theorem deliverStake_fail_frame {s : St} {signer : Addr} {m : MsgStake} {fee : Int} (h : (deliverStake s signer m fee).1 ≠ .ok) :
    (deliverStake s signer m fee).2.apps = s.apps ∧ (deliverStake s signer m fee).2.idx = s.idx
    ∧ (deliverStake s signer m fee).2.queue = s.queue ∧ (deliverStake s signer m fee).2.pool = s.pool := by
  unfold deliverStake at h ⊢
  cases hvb : m.validateBasic with
  | ok =>
    simp only [hvb] at h ⊢
    cases ha : anteStake s signer m fee with
    | mk e s1 =>
      cases e with
      | ok =>
        simp only [ha] at h ⊢
        obtain ⟨_, b, hb, hfee, hs1⟩ := anteStake_ok ha
        rcases handleStake_cases s1 signer m with ⟨cur, _, e⟩ | ⟨_, hne, e⟩ | ⟨_, hv, e⟩
        · rw [e] at h; simp at h
        · rw [e]; subst hs1; simp
        · rw [e] at h ⊢
          rcases stakeApplication_cases s1 m with ⟨cur, hcur, hst, e2⟩ | ⟨_, e2⟩
          · rw [e2] at h ⊢
            rcases editStake_cases s1 m.addr cur m with e3 | ⟨s2, bump, _, _, e3⟩
            · rw [e3]; subst hs1; simp
            · rw [e3] at h; simp at h
          · rw [e2] at h ⊢
            rcases stakeFresh_cases s1 m with ⟨_, e3⟩ | ⟨s2, _, e3⟩
            · rw [e3]; subst hs1; simp
            · rw [e3] at h; simp at h
      | app c => have := anteStake_not_ok ha (by simp); subst this; simp
      | sdk c => have := anteStake_not_ok ha (by simp); subst this; simp
      | auth c => have := anteStake_not_ok ha (by simp); subst this; simp
  | app c => simp
  | sdk c => simp
  | auth c => simp

end Apps
