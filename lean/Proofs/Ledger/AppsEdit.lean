import Proofs.Ledger.AppsC28
/-!
# C23 (application half) — edit-stake of an application respects the immutability rules

Model: `PocketModel/Ledger/Apps.lean`: `deliverStake` = ValidateBasic + ante (signer admission, fee)
+ `handleStake` (ValidateApplicationStaking → ValidateEditStake → StakeApplication →
EditStakeApplication, as coded).  "Editing an already staked application" = a successful
application `MsgStake` whose key `m.addr` has a staked record.  These theorems are re-exported by
`Props/C23.lean`.
-/
namespace C23apps
open Apps

/-- A successful stake message for a key that already has a staked record never lowers the stake:
the record is still there, staked, with at least the old tokens — and exactly the amount of the
message. -/
theorem edit_never_lowers_stake_app (s : St) (signer : Addr) (m : MsgStake) (fee : Int) (r : App)
    (hok : (deliverStake s signer m fee).1 = .ok)
    (hr : get s.apps m.addr = some r) (hst : r.status = stStaked) :
    ∃ r', get (deliverStake s signer m fee).2.apps m.addr = some r' ∧ r.tokens ≤ r'.tokens ∧ r'.tokens = m.value := by
  cases deliverStake_outcome hok with
  | transfer cur hne hcur hst' hnew hshape happs hpool hidx => rw [hr] at hnew; cases hnew
  | edit cur s1 bump hcur hst' hge hchains hb1 hb0 hs1 happs hpool =>
    rw [hr] at hcur; cases hcur
    refine ⟨editedApp s1 r m bump, by rw [happs m.addr]; simp, ?_⟩
    cases bump with
    | true => obtain ⟨hlt, _⟩ := hb1 rfl; simp [editedApp]; omega
    | false => obtain ⟨he, _⟩ := hb0 rfl; simp [editedApp]; omega
  | fresh s1 hold hmin hchains hfunds hnonneg hmax hs1 happs hpool =>
    have := hold r hr; rw [hst] at this; exact absurd this (by decide)

/-- … and never changes its identity: address (the map key), public key, jailed flag, status and
unstaking time are those of the stored record; only tokens, allowance and chains can differ. -/
theorem edit_preserves_identity_app (s : St) (signer : Addr) (m : MsgStake) (fee : Int) (r : App)
    (hok : (deliverStake s signer m fee).1 = .ok)
    (hr : get s.apps m.addr = some r) (hst : r.status = stStaked) :
    ∃ r', get (deliverStake s signer m fee).2.apps m.addr = some r'
      ∧ r'.pk = r.pk ∧ r'.jailed = r.jailed ∧ r'.status = r.status ∧ r'.unstakingTime = r.unstakingTime
      ∧ r'.chains = m.chains := by
  cases deliverStake_outcome hok with
  | transfer cur hne hcur hst' hnew hshape happs hpool hidx => rw [hr] at hnew; cases hnew
  | edit cur s1 bump hcur hst' hge hchains hb1 hb0 hs1 happs hpool =>
    rw [hr] at hcur; cases hcur
    refine ⟨editedApp s1 r m bump, by rw [happs m.addr]; simp, ?_⟩
    cases bump <;> simp [editedApp]
  | fresh s1 hold hmin hchains hfunds hnonneg hmax hs1 happs hpool =>
    have := hold r hr; rw [hst] at this; exact absurd this (by decide)

/-- Any successful application `MsgStake` whatsoever leaves every *other* staked record exactly as
it was, unless that record belongs to the signer and was transferred (then it is gone and the
named key holds it, same stake, with the new public key). -/
theorem stake_msg_never_lowers_any_stake (s : St) (signer : Addr) (m : MsgStake) (fee : Int) (a : Addr) (r : App)
    (hok : (deliverStake s signer m fee).1 = .ok)
    (hr : get s.apps a = some r) (hst : r.status = stStaked) :
    (∃ r', get (deliverStake s signer m fee).2.apps a = some r' ∧ r.tokens ≤ r'.tokens
        ∧ r'.pk = r.pk ∧ r'.jailed = r.jailed ∧ r'.status = r.status)
    ∨ (a = signer ∧ a ≠ m.addr ∧ get (deliverStake s signer m fee).2.apps a = none
        ∧ get (deliverStake s signer m fee).2.apps m.addr = some { r with pk := m.pk }) := by
  cases deliverStake_outcome hok with
  | transfer cur hne hcur hst' hnew hshape happs hpool hidx =>
    by_cases h1 : signer = a
    · subst h1
      rw [hr] at hcur; cases hcur
      refine Or.inr ⟨rfl, hne, by rw [happs signer]; simp, ?_⟩
      rw [happs m.addr]; simp only [hne, if_false, if_true]
      show some { r with status := stStaked, pk := m.pk } = _
      rw [← hst]
    · have h2 : m.addr ≠ a := by intro e; rw [e, hr] at hnew; cases hnew
      exact Or.inl ⟨r, by rw [happs a]; simp [h1, h2, hr], Int.le_refl _, rfl, rfl, rfl⟩
  | edit cur s1 bump hcur hst' hge hchains hb1 hb0 hs1 happs hpool =>
    by_cases h2 : m.addr = a
    · subst h2
      rw [hr] at hcur; cases hcur
      refine Or.inl ⟨editedApp s1 r m bump, by rw [happs m.addr]; simp, ?_⟩
      cases bump with
      | true => obtain ⟨hlt, _⟩ := hb1 rfl; simp [editedApp]; omega
      | false => simp [editedApp]
    · exact Or.inl ⟨r, by rw [happs a]; simp [h2, hr], Int.le_refl _, rfl, rfl, rfl⟩
  | fresh s1 hold hmin hchains hfunds hnonneg hmax hs1 happs hpool =>
    have h2 : m.addr ≠ a := by
      intro e; subst e
      have := hold r hr; rw [hst] at this; exact absurd this (by decide)
    exact Or.inl ⟨r, by rw [happs a]; simp [h2, hr], Int.le_refl _, rfl, rfl, rfl⟩

/-- Lowering is rejected with `ErrMinimumEditStake` (code 120) whoever signs, when the signer
passes the ante handler. -/
theorem edit_lower_rejected (s : St) (signer : Addr) (m : MsgStake) (fee : Int) (r : App)
    (hr : get s.apps m.addr = some r) (hst : r.status = stStaked) (hlow : m.value < r.tokens) :
    (deliverStake s signer m fee).1 ≠ .ok := by
  intro hok
  obtain ⟨r', _, hle, he⟩ := edit_never_lowers_stake_app s signer m fee r hok hr hst
  omega

/-! ### non-vacuity -/
def a1 : Addr := [1]
def p0 : Params :=
  { minStake := 1000000, maxChains := 2, maxApps := 2, baseRelays := 100, stability := 0, unstakingTime := 3600, participation := false }
def app1 : App :=
  { pk := [11], status := stStaked, jailed := false, tokens := 10000000, maxRelays := 1000, chains := ["0001"], unstakingTime := 0 }
def s0 : St :=
  { apps := [(a1, app1)], idx := [((10, a1), a1)], queue := [], pool := 10000000, feeColl := 0, supply := 1000000000,
    nodeStaked := 0, bals := [(a1, 5000000)], params := p0, time := 100 }
-- edit up succeeds (tokens 10 → 11 POKT, allowance recomputed 11), same amount succeeds, lower is refused (120)
example : (deliverStake s0 a1 { pk := [11], addr := a1, chains := ["0001", "0021"], value := 11000000 } 10000).1 = .ok
    ∧ get (deliverStake s0 a1 { pk := [11], addr := a1, chains := ["0001", "0021"], value := 11000000 } 10000).2.apps a1
      = some { app1 with tokens := 11000000, maxRelays := 11, chains := ["0001", "0021"] } := by decide +kernel
example : (deliverStake s0 a1 { pk := [11], addr := a1, chains := ["0021"], value := 10000000 } 10000).1 = .ok := by decide +kernel
example : (deliverStake s0 a1 { pk := [11], addr := a1, chains := ["0001"], value := 9999999 } 10000).1 = .app 120 := by decide +kernel

end C23apps
