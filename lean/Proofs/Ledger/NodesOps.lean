import Proofs.Ledger.NodesInv
/-!
# Every operation of the nodes ledger preserves the structural invariant
-/
namespace Nodes
open Spec

/-! ## Record modifications that keep address, status, chains and completion time
(jail, unjail, token removal) -/

/-- `setValidator (delStaked s v) v'` replaces the record `v` of `a` by `v'` -/
theorem replaces_modify {s : State} (hi : Inv s) {a : Addr} {v : Val} (hv : aget s.vals a = some v) (v' : Val)
    (haddr : v'.addr = v.addr) (hst : v'.status = v.status) (hch : v'.chains = v.chains)
    (hut : v'.unstTime = v.unstTime) (pool' : Int)
    (hpool : pool' = s.pool - contrib v + contrib v') (s' : State)
    (hvals : s'.vals = (setValidator (delStaked s v) v').vals)
    (hsi : s'.stakedIdx = (setValidator (delStaked s v) v').stakedIdx)
    (hci : s'.chainIdx = s.chainIdx)
    (hq : s'.unstQ = (setValidator (delStaked s v) v').unstQ)
    (hp : s'.pool = pool') (hw : s'.waiting = s.waiting) :
    Replaces s s' a (some v') := by
  have hk := hi.keys a v hv
  have ha' : v'.addr = a := by rw [haddr, hk]
  have hgq : ∀ t, getQ s' t = getQ (setValidator (delStaked s v) v') t := fun t => by unfold getQ; rw [hq]
  refine ⟨?_, ?_, ?_, ?_, ?_, ?_, hw, by rw [hq]; exact nodup_setValidator_unstQ _ _ hi.qNodup⟩
  · rw [hvals, setValidator_vals, ha']; rfl
  · intro x
    rw [hsi, mem_setValidator_staked, delStaked_stakedIdx, mem_sdel, hi.staked_at hv]
    constructor
    · rintro (h | ⟨h1, h2, h3⟩)
      · exact Or.inl h
      · exact Or.inr ⟨v', rfl, h1, h2, by rw [h3]; show (powerOf v'.tokens, v'.addr) = _; rw [ha']⟩
    · rintro (h | ⟨w, hw, h1, h2, h3⟩)
      · exact Or.inl h
      · injection hw with hw; subst hw
        exact Or.inr ⟨h1, h2, by rw [h3]; show _ = (powerOf v'.tokens, v'.addr); rw [ha']⟩
  · rw [hsi]
    exact nodup_setValidator_staked _ _ (nodup_sdel hi.idxNodup _)
  · intro x
    rw [hci]
    constructor
    · intro h
      by_cases e : x.2 = a
      · obtain ⟨w, hw, h1, h2⟩ := (hi.chain x).mp h
        rw [e, hv] at hw; injection hw with hw; subst hw
        exact Or.inr ⟨v', rfl, by rw [hst]; exact h1, e, by rw [hch]; exact h2⟩
      · exact Or.inl ⟨h, e⟩
    · rintro (⟨h, _⟩ | ⟨w, hw, h1, h2, h3⟩)
      · exact h
      · injection hw with hw; subst hw
        exact (hi.chain x).mpr ⟨v, by rw [h2]; exact hv, by rw [← hst]; exact h1, by rw [← hch]; exact h3⟩
  · intro t b
    rw [hgq, mem_getQ_setValidator, getQ_delStaked]
    constructor
    · rintro (h | ⟨h1, h2, h3⟩)
      · by_cases e : b = a
        · obtain ⟨h4, h5⟩ := hi.queue_time hv t (e ▸ h)
          exact Or.inr ⟨v', rfl, by rw [hst]; exact h4, e, by rw [hut]; exact h5⟩
        · exact Or.inl ⟨h, e⟩
      · exact Or.inr ⟨v', rfl, h1, by rw [h3, ha'], h2.symm⟩
    · rintro (⟨h, _⟩ | ⟨w, hw, h1, h2, h3⟩)
      · exact Or.inl h
      · injection hw with hw; subst hw
        exact Or.inr ⟨h1, h3.symm, by rw [h2, ha']⟩
  · rw [hp, hpool, hv]; rfl

/-- `JailValidator` -/
theorem inv_jailValidator {s : State} (hi : Inv s) (a : Addr) : Inv (jailValidator s a) := by
  unfold jailValidator
  cases hv : aget s.vals a with
  | none => exact hi
  | some v =>
    simp only
    by_cases hj : v.jailed = true
    · rw [if_pos hj]; exact hi
    · rw [if_neg hj]
      by_cases hu : v.status = .unstaked
      · rw [if_pos hu]; exact hi
      · rw [if_neg hu]
        have hr : Replaces s ((setValidator (delStaked s v) { v with jailed := true }).emit (.jailed a)) a
            (some { v with jailed := true }) :=
          replaces_modify hi hv { v with jailed := true } rfl rfl rfl rfl s.pool
            (by simp [contrib, bonded]) _ rfl rfl
            (by rw [emit_chainIdx, setValidator_chainIdx]; rfl) rfl
            (by rw [emit_pool, setValidator_pool]; rfl) (by simp)
        refine hi.replace ⟨?_⟩ hr
        intro w hw
        injection hw with hw; subst hw
        exact ⟨hi.keys a v hv, hi.nonneg a v hv, hu⟩

/-! ## small facts -/

theorem sdel_not_mem {α : Type} [DecidableEq α] {l : List α} {x : α} (h : x ∉ l) : sdel l x = l := by
  unfold sdel
  apply List.filter_eq_self.mpr
  intro y hy
  simp only [ne_eq, decide_eq_true_eq]
  intro e; exact h (e ▸ hy)

theorem adel_aset_self {α : Type} (l : List (Addr × α)) (a : Addr) (v : α) : adel (aset l a v) a = adel l a := by
  unfold aset adel
  simp only [List.filter_cons, ne_eq, not_true_eq_false, decide_false, Bool.false_eq_true, if_false, List.filter_filter]
  congr 1
  funext p
  simp

theorem aset_adel_self {α : Type} (l : List (Addr × α)) (a : Addr) (v : α) : aset (adel l a) a v = aset l a v := by
  unfold aset adel
  simp only [List.filter_filter]
  congr 2
  funext p
  simp

theorem contrib_nonneg_of {l : List (Addr × Val)} (hnn : ∀ p ∈ l, 0 ≤ p.2.tokens) : 0 ≤ sumBonded l := by
  induction l with
  | nil => simp
  | cons p t ih =>
    rw [sumBonded_cons]
    have h1 : 0 ≤ contrib p.2 := by
      unfold contrib; split
      · exact hnn p List.mem_cons_self
      · exact Int.le_refl 0
    have h2 := ih (fun q hq => hnn q (List.mem_cons_of_mem _ hq))
    omega

theorem contrib_le_sum {l : List (Addr × Val)} (hnn : ∀ p ∈ l, 0 ≤ p.2.tokens) {a : Addr} {v : Val}
    (hm : (a, v) ∈ l) : contrib v ≤ sumBonded l := by
  induction l with
  | nil => cases hm
  | cons p t ih =>
    rw [sumBonded_cons]
    have hp : 0 ≤ contrib p.2 := by
      unfold contrib; split
      · exact hnn p List.mem_cons_self
      · exact Int.le_refl 0
    have ht := contrib_nonneg_of (fun q hq => hnn q (List.mem_cons_of_mem _ hq))
    rcases List.mem_cons.mp hm with e | e
    · rw [← e]; simp only; omega
    · have := ih (fun q hq => hnn q (List.mem_cons_of_mem _ hq)) e
      omega

/-- under the invariant the pool covers every single stake -/
theorem Inv.tokens_le_pool {s : State} (hi : Inv s) {a : Addr} {v : Val} (hv : aget s.vals a = some v) :
    v.tokens ≤ s.pool := by
  rw [hi.pool]
  have hnn : ∀ p ∈ s.vals, 0 ≤ p.2.tokens := by
    intro p hp
    exact hi.nonneg p.1 p.2 (aget_of_mem hi.nodup hp)
  have := contrib_le_sum hnn (aget_some_mem hv)
  have hb : contrib v = v.tokens := by
    unfold contrib bonded
    have := hi.bondedAll a v hv
    cases hs : v.status <;> simp_all
  omega

/-- `ForceValidatorUnstake` -/
theorem inv_forceUnstake {s : State} (hi : Inv s) (v : Val) (c : Cause) : Inv (forceUnstake s v c) := by
  unfold forceUnstake
  exact (inv_jailValidator hi v.addr).congr rfl rfl rfl rfl rfl (nodup_sins (inv_jailValidator hi v.addr).waitNodup _)

/-- the record after a slash of `k` tokens -/
def slashedVal (v : Val) (k : Int) : Val := { v with tokens := v.tokens - k }

/-- state after `removeValidatorTokens` and `burnStakedTokens` of `k = burnAmount req tokens` -/
def afterBurn (s : State) (v : Val) (req : Int) : State :=
  let k := burnAmount req v.tokens
  let s1 := setValidator (delStaked s v) (slashedVal v k)
  (if k ≤ 0 then s1 else { s1 with pool := s1.pool - k, supply := s1.supply - k }).emit (.burn v.addr req k true)

/-- what `slashCore` does when the pool covers the stake (always, under the invariant) -/
theorem slashCore_ok (s : State) (v : Val) (req : Int) (hnn : 0 ≤ v.tokens) (hle : v.tokens ≤ s.pool) :
    slashCore s v req =
      if (slashedVal v (burnAmount req v.tokens)).tokens < s.params.minStake
      then forceUnstake (afterBurn s v req) (slashedVal v (burnAmount req v.tokens)) .belowMin
      else afterBurn s v req := by
  have hk0 : 0 ≤ burnAmount req v.tokens := by unfold burnAmount; omega
  have hk1 : burnAmount req v.tokens ≤ v.tokens := by unfold burnAmount; omega
  have hcond : ¬ (burnAmount req v.tokens < 0 ∨ v.tokens < burnAmount req v.tokens) := by omega
  unfold slashCore removeTokens afterBurn slashedVal
  simp only [if_neg hcond]
  by_cases hz : burnAmount req v.tokens ≤ 0
  · simp only [burnPool, if_pos hz]
    simp
  · have hp : ¬ ((setValidator (delStaked s v) { v with tokens := v.tokens - burnAmount req v.tokens }).pool
        < burnAmount req v.tokens) := by
      rw [setValidator_pool, delStaked_pool]; omega
    simp only [burnPool, if_neg hz, if_neg hp]
    simp

theorem inv_afterBurn {s : State} (hi : Inv s) {v : Val} (hv : aget s.vals v.addr = some v) (req : Int) :
    Inv (afterBurn s v req) := by
  have hnn := hi.nonneg _ v hv
  have hk0 : 0 ≤ burnAmount req v.tokens := by unfold burnAmount; omega
  have hk1 : burnAmount req v.tokens ≤ v.tokens := by unfold burnAmount; omega
  have hb : contrib v = v.tokens := by
    unfold contrib bonded
    have := hi.bondedAll _ v hv
    cases hs : v.status <;> simp_all
  have hb' : contrib (slashedVal v (burnAmount req v.tokens)) = v.tokens - burnAmount req v.tokens := by
    unfold contrib bonded slashedVal
    have := hi.bondedAll _ v hv
    cases hs : v.status <;> simp_all
  have hr : Replaces s (afterBurn s v req) v.addr (some (slashedVal v (burnAmount req v.tokens))) := by
    apply replaces_modify hi hv (slashedVal v (burnAmount req v.tokens)) rfl rfl rfl rfl
      (s.pool - burnAmount req v.tokens) (by rw [hb, hb']; omega)
    · unfold afterBurn; simp only; split <;> rfl
    · unfold afterBurn; simp only; split <;> rfl
    · unfold afterBurn; simp only; split <;> simp [setValidator_chainIdx]
    · unfold afterBurn; simp only; split <;> rfl
    · unfold afterBurn; simp only
      split
      · rename_i hz; simp; omega
      · simp
    · unfold afterBurn; simp only; split <;> simp
  refine hi.replace ⟨?_⟩ hr
  intro w hw
  injection hw with hw; subst hw
  exact ⟨rfl, by unfold slashedVal; simp only; omega, hi.bondedAll _ v hv⟩

/-- the common tail of `slash` and `simpleSlash` -/
theorem inv_slashCore {s : State} (hi : Inv s) {v : Val} (hv : aget s.vals v.addr = some v) (req : Int) :
    Inv (slashCore s v req) := by
  rw [slashCore_ok s v req (hi.nonneg _ v hv) (hi.tokens_le_pool hv)]
  split
  · exact inv_forceUnstake (inv_afterBurn hi hv req) _ _
  · exact inv_afterBurn hi hv req

/-- `simpleSlash` -/
theorem inv_simpleSlash {s : State} (hi : Inv s) (a : Addr) (amount : Int) : Inv (simpleSlash s a amount) := by
  unfold simpleSlash
  split
  · exact hi
  · cases hv : aget s.vals a with
    | none => exact hi
    | some v =>
      simp only
      split
      · exact hi
      · have hk := hi.keys a v hv
        exact inv_slashCore hi (by rw [hk]; exact hv) _

/-- `slash` -/
theorem inv_slash {s : State} (hi : Inv s) (h : Int) (a : Addr) (ih pw f : Int) : Inv (slash s h a ih pw f) := by
  unfold slash
  split
  · exact hi
  · split
    · exact hi
    · cases hv : aget s.vals a with
      | none => exact hi
      | some v =>
        simp only
        split
        · exact hi
        · have hk := hi.keys a v hv
          exact inv_slashCore hi (by rw [hk]; exact hv) _

/-! ## BeginBlocker -/

theorem inv_clearMissed {s : State} (hi : Inv s) (a : Addr) : Inv (clearMissed s a) :=
  hi.congr rfl rfl rfl rfl rfl hi.waitNodup

theorem inv_setMissed {s : State} (hi : Inv s) (a : Addr) (i : Int) (b : Bool) : Inv (setMissed s a i b) :=
  hi.congr rfl rfl rfl rfl rfl hi.waitNodup

theorem inv_resetSigningInfo {s : State} (hi : Inv s) (a : Addr) (h : Int) : Inv (resetSigningInfo s a h) :=
  hi.congr rfl rfl rfl rfl rfl hi.waitNodup

theorem inv_setSignInfo {s : State} (hi : Inv s) (l : List (Addr × SignInfo)) : Inv { s with signInfo := l } :=
  hi.congr rfl rfl rfl rfl rfl hi.waitNodup

theorem inv_sigWindowReset {s : State} (hi : Inv s) (h : Int) (a : Addr) (si0 : SignInfo) :
    Inv (sigWindowReset s h a si0).1 := by
  unfold sigWindowReset
  split
  · exact inv_clearMissed hi _
  · exact hi

theorem inv_sigRecord {s : State} (hi : Inv s) (a : Addr) (si : SignInfo) (signed : Bool) :
    Inv (sigRecord s a si signed).1 := by
  unfold sigRecord
  simp only
  split
  · exact inv_setMissed hi _ _ _
  · split
    · exact inv_setMissed hi _ _ _
    · exact hi

theorem inv_sigPunish {s : State} (hi : Inv s) (p : Params) (h t : Int) (vt : Vote) (si : SignInfo) :
    Inv (sigPunish s p h t vt si) := by
  unfold sigPunish
  exact inv_setSignInfo (inv_jailValidator (inv_clearMissed (inv_slash hi _ _ _ _ _) _) _) _

/-- `handleValidatorSignature` -/
theorem inv_handleSig {s : State} (hi : Inv s) (h t : Int) (vt : Vote) : Inv (handleSig s h t vt) := by
  unfold handleSig
  split
  · exact hi
  · split
    · split
      · exact inv_resetSigningInfo hi _ _
      · exact hi
    · simp only
      split
      · exact inv_sigPunish (inv_sigRecord (inv_sigWindowReset hi _ _ _) _ _ _) _ _ _ _ _
      · exact inv_setSignInfo (inv_sigRecord (inv_sigWindowReset hi _ _ _) _ _ _) _

/-- `handleDoubleSign` -/
theorem inv_handleDoubleSign {s : State} (hi : Inv s) (h t : Int) (e : Evidence) : Inv (handleDoubleSign s h t e) := by
  unfold handleDoubleSign
  cases hv : aget s.vals e.addr with
  | none => exact hi
  | some v =>
    simp only
    split
    · exact hi
    · split
      · exact hi
      · cases hsi : aget s.signInfo e.addr with
        | none => exact hi
        | some si => exact inv_slash hi _ _ _ _ _

theorem inv_handleEvidence {s : State} (hi : Inv s) (h t : Int) (e : Evidence) : Inv (handleEvidence s h t e) := by
  unfold handleEvidence
  split
  · exact inv_handleDoubleSign hi h t e
  · exact hi

theorem inv_foldl {β : Type} (f : State → β → State) (hf : ∀ s b, Inv s → Inv (f s b)) (l : List β) {s : State}
    (hi : Inv s) : Inv (l.foldl f s) := by
  induction l generalizing s with
  | nil => exact hi
  | cons b t ih => exact ih (hf s b hi)

/-- `BeginBlocker` -/
theorem inv_beginBlock {s : State} (hi : Inv s) (h t : Int) (votes : List Vote) (evs : List Evidence) :
    Inv (beginBlock s h t votes evs) := by
  unfold beginBlock
  exact inv_foldl _ (fun s e hs => inv_handleEvidence hs h t e) evs
    (inv_foldl _ (fun s v hs => inv_handleSig hs h t v) votes hi)

/-! ## EndBlocker -/

theorem inv_incrementJailedOne {s : State} (hi : Inv s) (h : Int) (v : Val) : Inv (incrementJailedOne s h v) := by
  unfold incrementJailedOne
  split
  · simp only
    split
    · exact inv_forceUnstake hi _ _
    · exact inv_setSignInfo hi _
  · exact hi

theorem inv_incrementJailed {s : State} (hi : Inv s) (h : Int) : Inv (incrementJailed s h) := by
  unfold incrementJailed
  exact inv_foldl _ (fun s p hs => inv_incrementJailedOne hs h p.2) _ hi

/-- `BeginUnstakingValidator` on the current record of a staked node -/
theorem replaces_beginUnstaking {s : State} (hi : Inv s) {v : Val} (hv : aget s.vals v.addr = some v)
    (hs : v.status = .staked) (t : Int) :
    Replaces s (beginUnstaking s t v) v.addr
      (some { v with status := .unstaking,
                     unstTime := if v.unstTime = zeroTime then t + s.params.unstakingTime else v.unstTime }) := by
  unfold beginUnstaking
  simp only [delChains_params, delStaked_params]
  generalize (if v.unstTime = zeroTime then t + s.params.unstakingTime else v.unstTime) = τ
  refine ⟨?_, ?_, ?_, ?_, ?_, ?_, ?_, ?_⟩
  · simp [setValidator_vals]
  · intro x
    rw [emit_stakedIdx, mem_setValidator_staked, delChains_stakedIdx, delStaked_stakedIdx, mem_sdel, hi.staked_at hv]
    constructor
    · rintro (h | ⟨h1, _⟩)
      · exact Or.inl h
      · cases h1
    · rintro (h | ⟨w, hw, h1, _⟩)
      · exact Or.inl h
      · injection hw with hw; subst hw; cases h1
  · rw [emit_stakedIdx]
    exact nodup_setValidator_staked _ _ (nodup_sdel hi.idxNodup _)
  · intro x
    rw [emit_chainIdx, setValidator_chainIdx, mem_delChains, delStaked_chainIdx, hi.chain_at hv]
    constructor
    · intro h; exact Or.inl h
    · rintro (h | ⟨w, hw, h1, _⟩)
      · exact h
      · injection hw with hw; subst hw; cases h1
  · intro t' b
    rw [getQ_emit, mem_getQ_setValidator, getQ_delChains, getQ_delStaked]
    constructor
    · rintro (h | ⟨_, h2, h3⟩)
      · exact Or.inl ⟨h, hi.queue_notUnstaking hv (by rw [hs]; simp) t' b h⟩
      · exact Or.inr ⟨_, rfl, rfl, h3, h2.symm⟩
    · rintro (⟨h, _⟩ | ⟨w, hw, _, h2, h3⟩)
      · exact Or.inl h
      · injection hw with hw; subst hw
        exact Or.inr ⟨rfl, h3.symm, h2⟩
  · rw [emit_pool, setValidator_pool, delChains_pool, delStaked_pool, hv]
    simp [contribOpt, contrib, bonded, hs]
  · simp
  · rw [emit_unstQ]; exact nodup_setValidator_unstQ _ _ hi.qNodup

theorem inv_beginUnstaking {s : State} (hi : Inv s) {v : Val} (hv : aget s.vals v.addr = some v)
    (hs : v.status = .staked) (t : Int) : Inv (beginUnstaking s t v) := by
  refine hi.replace ⟨?_⟩ (replaces_beginUnstaking hi hv hs t)
  intro w hw
  injection hw with hw; subst hw
  exact ⟨rfl, hi.nonneg _ v hv, by simp⟩

theorem inv_delWaiting {s : State} (hi : Inv s) (a : Addr) : Inv (delWaiting s a) :=
  hi.congr rfl rfl rfl rfl rfl (nodup_sdel hi.waitNodup _)

theorem inv_setWaiting {s : State} (hi : Inv s) (a : Addr) (c : Cause) : Inv (setWaiting s a c) :=
  hi.congr rfl rfl rfl rfl rfl (nodup_sins hi.waitNodup _)

/-- the loop body of `ReleaseWaitingValidators`, on a record that is still the current one -/
theorem inv_releaseOne {s : State} (hi : Inv s) {v : Val} (hv : aget s.vals v.addr = some v) (t : Int) :
    Inv (releaseOne s t v) := by
  unfold releaseOne
  simp only
  split
  · rename_i hs; exact inv_delWaiting (inv_beginUnstaking hi hv hs t) _
  · exact inv_delWaiting hi _

/-- `releaseOne` touches the record of its own address only -/
theorem releaseOne_vals_ne (s : State) (t : Int) (v : Val) {b : Addr} (hb : b ≠ v.addr) :
    aget (releaseOne s t v).vals b = aget s.vals b := by
  unfold releaseOne
  simp only
  split
  · unfold beginUnstaking
    simp [setValidator_vals, aget_aset_ne _ _ _ hb]
  · rfl

theorem inv_releaseFold {s : State} (hi : Inv s) (t : Int) (vs : List Val)
    (hcur : ∀ v ∈ vs, aget s.vals v.addr = some v) (hnd : (vs.map (·.addr)).Nodup) :
    Inv (vs.foldl (fun s v => releaseOne s t v) s) := by
  induction vs generalizing s with
  | nil => exact hi
  | cons v rest ih =>
    simp only [List.foldl_cons]
    simp only [List.map_cons, List.nodup_cons] at hnd
    apply ih (inv_releaseOne hi (hcur v List.mem_cons_self) t)
    · intro w hw
      have hne : w.addr ≠ v.addr := by
        intro e
        exact hnd.1 (List.mem_map.mpr ⟨w, hw, e⟩)
      rw [releaseOne_vals_ne s t v hne]
      exact hcur w (List.mem_cons_of_mem _ hw)
    · exact hnd.2

/-- what `GetWaitingValidators` returns: current records of distinct addresses taken from the list -/
theorem getWaiting_spec (s : State) (l : List Addr) (acc : List Val)
    (hacc : ∀ v ∈ acc, aget s.vals v.addr = some v) (hk : ∀ a v, aget s.vals a = some v → v.addr = a) :
    (∀ v ∈ (getWaiting s l acc).1, aget s.vals v.addr = some v) ∧
    (∃ l', l'.Sublist l ∧ (getWaiting s l acc).1.map (·.addr) = acc.map (·.addr) ++ l') ∧
    ((getWaiting s l acc).2 = s ∨ ∃ a, (getWaiting s l acc).2 = delWaiting s a) := by
  induction l generalizing acc with
  | nil => exact ⟨hacc, ⟨[], List.Sublist.refl _, by simp [getWaiting]⟩, Or.inl rfl⟩
  | cons a rest ih =>
    unfold getWaiting
    cases hv : aget s.vals a with
    | none =>
      exact ⟨hacc, ⟨[], List.nil_sublist _, by simp⟩, Or.inr ⟨a, rfl⟩⟩
    | some v =>
      simp only
      have hacc' : ∀ w ∈ acc ++ [v], aget s.vals w.addr = some w := by
        intro w hw
        rcases List.mem_append.mp hw with h | h
        · exact hacc w h
        · simp at h; subst h; rw [hk a w hv]; exact hv
      obtain ⟨h1, ⟨l', hl, he⟩, h3⟩ := ih (acc ++ [v]) hacc'
      refine ⟨h1, ⟨a :: l', hl.cons₂ a, ?_⟩, h3⟩
      rw [he]; simp [hk a v hv]

/-! ### address sorting keeps the elements -/

theorem mem_insertAddr (a : Addr) (l : List Addr) (x : Addr) : x ∈ insertAddr a l ↔ x = a ∨ x ∈ l := by
  induction l with
  | nil => simp [insertAddr]
  | cons b t ih =>
    unfold insertAddr
    split
    · simp
    · simp [ih]; constructor
      · rintro (h | h | h)
        · exact Or.inr (Or.inl h)
        · exact Or.inl h
        · exact Or.inr (Or.inr h)
      · rintro (h | h | h)
        · exact Or.inr (Or.inl h)
        · exact Or.inl h
        · exact Or.inr (Or.inr h)

theorem nodup_insertAddr (a : Addr) (l : List Addr) (hl : l.Nodup) (ha : a ∉ l) : (insertAddr a l).Nodup := by
  induction l with
  | nil => simp [insertAddr]
  | cons b t ih =>
    unfold insertAddr
    simp only [List.nodup_cons] at hl
    split
    · exact List.nodup_cons.mpr ⟨ha, List.nodup_cons.mpr hl⟩
    · refine List.nodup_cons.mpr ⟨?_, ih hl.2 (fun h => ha (List.mem_cons_of_mem _ h))⟩
      rw [mem_insertAddr]
      rintro (h | h)
      · exact ha (h ▸ List.mem_cons_self)
      · exact hl.1 h

theorem mem_sortAddrs (l : List Addr) (x : Addr) : x ∈ sortAddrs l ↔ x ∈ l := by
  induction l with
  | nil => simp [sortAddrs]
  | cons a t ih =>
    show x ∈ insertAddr a (sortAddrs t) ↔ _
    rw [mem_insertAddr, ih]; simp

theorem nodup_sortAddrs (l : List Addr) (hl : l.Nodup) : (sortAddrs l).Nodup := by
  induction l with
  | nil => simp [sortAddrs]
  | cons a t ih =>
    simp only [List.nodup_cons] at hl
    show (insertAddr a (sortAddrs t)).Nodup
    exact nodup_insertAddr a _ (ih hl.2) (by rw [mem_sortAddrs]; exact hl.1)

/-- `ReleaseWaitingValidators` -/
theorem inv_releaseWaiting {s : State} (hi : Inv s) (t : Int) : Inv (releaseWaiting s t) := by
  unfold releaseWaiting
  obtain ⟨h1, ⟨l', hl, he⟩, h3⟩ := getWaiting_spec s (sortAddrs s.waiting) [] (by simp) hi.keys
  generalize getWaiting s (sortAddrs s.waiting) [] = r at h1 he h3
  obtain ⟨vs, s1⟩ := r
  simp only at h1 he h3 ⊢
  have hnd : (vs.map (·.addr)).Nodup := by
    rw [he]; simp
    exact (nodup_sortAddrs _ hi.waitNodup).sublist hl
  rcases h3 with e | ⟨a, e⟩
  · subst e; exact inv_releaseFold hi t vs h1 hnd
  · subst e; exact inv_releaseFold (inv_delWaiting hi a) t vs h1 hnd

end Nodes
