import Proofs.Ledger.NodesEnd
/-!
# Transactions and whole histories preserve the structural invariant
-/
namespace Nodes
open Spec

theorem toPool_spec {s s' : State} {payer : Addr} {amt : Int} (h : toPool s payer amt = some s') :
    0 ≤ amt ∧ amt ≤ balOf s payer ∧
    s' = { s with bal := aset s.bal payer (balOf s payer - amt), pool := s.pool + amt } := by
  unfold toPool at h
  split at h
  · cases h
  · split at h
    · cases h
    · injection h with h
      exact ⟨by omega, by omega, h.symm⟩

/-- `validateStaking` accepts an existing record only when it is staked (edit) or unstaked -/
theorem validateStaking_ok_status {s : State} {m : StakeMsg} {signer : Addr} (h : validateStaking s m signer = .ok)
    {c : Val} (hc : aget s.vals m.addr = some c) : c.status = .staked ∨ c.status = .unstaked := by
  unfold validateStaking at h
  simp only [hc] at h
  split at h
  · cases h
  · split at h
    · cases h
    · split at h
      · cases h
      · split at h
        · cases h
        · by_cases hs : c.status = .staked
          · exact Or.inl hs
          · simp only [if_neg hs] at h
            by_cases hu : c.status = .unstaked
            · exact Or.inr hu
            · simp [hu] at h

/-- the record `StakeValidator` writes for a new node -/
def newVal (m : StakeMsg) : Val :=
  { addr := m.addr, pk := m.pk, jailed := false, status := .staked, chains := m.chains, url := m.url,
    tokens := m.amount, unstTime := zeroTime, output := m.output, delegators := m.delegators }

/-- the record `EditStakeValidator` writes -/
def editedVal (cur : Val) (m : StakeMsg) (d : Int) : Val :=
  { cur with tokens := cur.tokens + d, output := m.output, delegators := m.delegators, chains := m.chains, url := m.url }

/-- `StakeValidator` for a new node -/
theorem inv_stakeNew {s : State} (hi : Inv s) (h : Int) (m : StakeMsg) (signer : Addr)
    (hn : aget s.vals m.addr = none) : Inv (stakeValidator.stakeNew h m signer s).1 := by
  unfold stakeValidator.stakeNew
  cases hp : toPool s signer m.amount with
  | none => exact hi
  | some s1 =>
    obtain ⟨h0, _, e⟩ := toPool_spec hp
    subst e
    simp only
    -- the signing-info entry does not matter
    suffices hmain : ∀ s2 : State, s2 = setChains (setValidator (({ s with bal := aset s.bal signer (balOf s signer - m.amount), pool := s.pool + m.amount } : State).emit (.stakeIn m.addr signer m.amount))
        { addr := m.addr, pk := m.pk, jailed := false, status := .staked, chains := m.chains, url := m.url,
          tokens := m.amount, unstTime := zeroTime, output := m.output, delegators := m.delegators })
        { addr := m.addr, pk := m.pk, jailed := false, status := .staked, chains := m.chains, url := m.url,
          tokens := m.amount, unstTime := zeroTime, output := m.output, delegators := m.delegators } → Inv s2 by
      split
      · exact hmain _ rfl
      · exact (hmain _ rfl).congr rfl rfl rfl rfl rfl (hmain _ rfl).waitNodup
    intro s2 e2
    subst e2
    refine hi.replace (a := m.addr) (new := some (newVal m)) ⟨?_⟩ ⟨?_, ?_, ?_, ?_, ?_, ?_, ?_, ?_⟩
    · intro w hw
      injection hw with hw; subst hw
      exact ⟨rfl, h0, by simp [newVal]⟩
    · simp [setValidator_vals, newVal]
    · intro x
      rw [setChains_stakedIdx, mem_setValidator_staked]
      simp only [emit_stakedIdx, true_and]
      constructor
      · rintro (h1 | h1)
        · exact Or.inl ⟨h1, hi.staked_absent hn x h1⟩
        · exact Or.inr ⟨_, rfl, rfl, rfl, h1⟩
      · rintro (⟨h1, _⟩ | ⟨w, hw, _, _, h3⟩)
        · exact Or.inl h1
        · injection hw with hw; subst hw; exact Or.inr h3
    · rw [setChains_stakedIdx]
      exact nodup_setValidator_staked _ _ hi.idxNodup
    · intro x
      rw [mem_setChains, setValidator_chainIdx]
      simp only [emit_chainIdx]
      constructor
      · rintro (h1 | ⟨h1, h2⟩)
        · exact Or.inl ⟨h1, hi.chain_absent hn x h1⟩
        · exact Or.inr ⟨_, rfl, rfl, h1, h2⟩
      · rintro (⟨h1, _⟩ | ⟨w, hw, _, h2, h3⟩)
        · exact Or.inl h1
        · injection hw with hw; subst hw; exact Or.inr ⟨h2, h3⟩
    · intro t b
      rw [getQ_setChains, mem_getQ_setValidator]
      simp only [reduceCtorEq, false_and, or_false]
      show b ∈ getQ s t ↔ _
      constructor
      · intro h1; exact Or.inl ⟨h1, hi.queue_absent hn t b h1⟩
      · rintro (⟨h1, _⟩ | ⟨w, hw, h2, _⟩)
        · exact h1
        · injection hw with hw; subst hw; cases h2
    · simp [hn, contribOpt, contrib, bonded, newVal]
    · simp
    · rw [setChains_unstQ]
      exact nodup_setValidator_unstQ _ _ hi.qNodup

/-- `EditStakeValidator` on the current record of a staked node -/
theorem inv_editStake {s : State} (hi : Inv s) (h : Int) {cur : Val} (m : StakeMsg) (signer : Addr)
    (hc : aget s.vals cur.addr = some cur) (hs : cur.status = .staked) : Inv (editStake s h cur m signer).1 := by
  unfold editStake
  simp only
  have hnn := hi.nonneg _ cur hc
  -- the state after the optional transfer into the pool
  have hmain : ∀ (s1 : State) (d : Int), 0 ≤ d → s1.vals = s.vals → s1.stakedIdx = s.stakedIdx → s1.chainIdx = s.chainIdx →
      s1.unstQ = s.unstQ → s1.waiting = s.waiting → s1.pool = s.pool + d →
      Inv (setChains (setValidator (deleteValidator (delChains (delStaked s1 cur) cur) cur.addr)
        { cur with tokens := cur.tokens + d, output := m.output, delegators := m.delegators, chains := m.chains, url := m.url })
        { cur with tokens := cur.tokens + d, output := m.output, delegators := m.delegators, chains := m.chains, url := m.url }) := by
    intro s1 d hd e1 e2 e3 e4 e5 e6
    have hq1 : ∀ t, getQ s1 t = getQ s t := fun t => by unfold getQ; rw [e4]
    refine hi.replace (a := cur.addr) (new := some (editedVal cur m d)) ⟨?_⟩ ⟨?_, ?_, ?_, ?_, ?_, ?_, ?_, ?_⟩
    · intro w hw
      injection hw with hw; subst hw
      exact ⟨rfl, by simp only [editedVal]; omega, by simp [editedVal, hs]⟩
    · simp [setValidator_vals, e1, aset_adel_self, editedVal]
    · intro x
      rw [setChains_stakedIdx, mem_setValidator_staked]
      simp only [deleteValidator_stakedIdx, delChains_stakedIdx, delStaked_stakedIdx, e2]
      rw [mem_sdel, hi.staked_at hc]
      constructor
      · rintro (h1 | ⟨h1, h2, h3⟩)
        · exact Or.inl h1
        · exact Or.inr ⟨_, rfl, h1, h2, h3⟩
      · rintro (h1 | ⟨w, hw, h1, h2, h3⟩)
        · exact Or.inl h1
        · injection hw with hw; subst hw; exact Or.inr ⟨h1, h2, h3⟩
    · rw [setChains_stakedIdx]
      apply nodup_setValidator_staked
      simp only [deleteValidator_stakedIdx, delChains_stakedIdx, delStaked_stakedIdx, e2]
      exact nodup_sdel hi.idxNodup _
    · intro x
      rw [mem_setChains, setValidator_chainIdx, deleteValidator_chainIdx, mem_delChains, delStaked_chainIdx, e3,
        hi.chain_at hc]
      constructor
      · rintro (h1 | ⟨h1, h2⟩)
        · exact Or.inl h1
        · exact Or.inr ⟨_, rfl, hs, h1, h2⟩
      · rintro (h1 | ⟨w, hw, _, h2, h3⟩)
        · exact Or.inl h1
        · injection hw with hw; subst hw; exact Or.inr ⟨h2, h3⟩
    · intro t b
      rw [getQ_setChains, mem_getQ_setValidator]
      simp only [hs, reduceCtorEq, false_and, or_false]
      show b ∈ getQ s1 t ↔ _
      rw [hq1]
      constructor
      · intro h1; exact Or.inl ⟨h1, hi.queue_notUnstaking hc (by rw [hs]; simp) t b h1⟩
      · rintro (⟨h1, _⟩ | ⟨w, hw, h2, _⟩)
        · exact h1
        · injection hw with hw; subst hw; simp [editedVal, hs] at h2
    · simp only [setChains_pool, setValidator_pool, deleteValidator_pool, delChains_pool, delStaked_pool, e6, hc]
      simp [contribOpt, contrib, bonded, hs, editedVal]; omega
    · simp [e5]
    · rw [setChains_unstQ]
      apply nodup_setValidator_unstQ
      simp only [deleteValidator_unstQ, delChains_unstQ, delStaked_unstQ, e4]
      exact hi.qNodup
  by_cases hd : m.amount - cur.tokens > 0
  · simp only [if_pos hd]
    cases hp : toPool s signer (m.amount - cur.tokens) with
    | none => exact hi
    | some s1 =>
      obtain ⟨h0, _, e⟩ := toPool_spec hp
      subst e
      simp only
      have := hmain (({ s with bal := aset s.bal signer (balOf s signer - (m.amount - cur.tokens)),
                               pool := s.pool + (m.amount - cur.tokens) } : State).emit (.stakeIn cur.addr signer (m.amount - cur.tokens)))
        (m.amount - cur.tokens) h0 rfl rfl rfl rfl rfl rfl
      split
      · exact inv_resetSigningInfo this _ _
      · exact this
  · simp only [if_neg hd]
    have := hmain s 0 (Int.le_refl 0) rfl rfl rfl rfl rfl (by omega)
    simp only [Int.add_zero] at this
    split
    · exact inv_resetSigningInfo this _ _
    · exact this

/-- `handleStake` -/
theorem inv_handleStake {s : State} (hi : Inv s) (h : Int) (m : StakeMsg) (signer : Addr) :
    Inv (handleStake s h m signer).1 := by
  unfold handleStake
  split
  · exact hi
  · split
    · exact hi
    · cases hv : validateStaking s m signer with
      | err c => exact hi
      | ok =>
        simp only
        unfold stakeValidator
        cases hc : aget s.vals m.addr with
        | none => exact inv_stakeNew hi h m signer hc
        | some c =>
          simp only
          have hk := hi.keys _ c hc
          by_cases hs : c.status = .staked
          · rw [if_pos hs]
            exact inv_editStake hi h m signer (by rw [hk]; exact hc) hs
          · rcases validateStaking_ok_status hv hc with e | e
            · exact absurd e hs
            · exact absurd e (hi.bondedAll _ c hc)

/-- `handleMsgBeginUnstake` -/
theorem inv_handleBeginUnstake {s : State} (hi : Inv s) (a signer : Addr) : Inv (handleBeginUnstake s a signer).1 := by
  unfold handleBeginUnstake
  cases hv : aget s.vals a with
  | none => exact hi
  | some v =>
    simp only
    split
    · exact hi
    · split
      · exact hi
      · exact inv_setWaiting hi _ _

/-- `UnjailValidator` -/
theorem inv_unjailValidator {s : State} (hi : Inv s) (h : Int) (a : Addr) : Inv (unjailValidator s h a) := by
  unfold unjailValidator
  cases hv : aget s.vals a with
  | none => exact hi
  | some v =>
    simp only
    by_cases hj : v.jailed = false
    · rw [if_pos hj]; exact hi
    · rw [if_neg hj]
      apply inv_resetSigningInfo
      have hj' : v.jailed = true := by cases hb : v.jailed <;> simp_all
      have hne : v.stakedKey ∉ s.stakedIdx := by
        intro hm
        exact hi.staked_ineligible hv (by rw [hj']; simp) _ hm (hi.keys a v hv)
      have hds : delStaked s v = s := by
        unfold delStaked
        rw [sdel_not_mem hne]
      have hr : Replaces s ((setValidator s { v with jailed := false }).emit (.unjailed a)) a (some { v with jailed := false }) := by
        apply replaces_modify hi hv { v with jailed := false } rfl rfl rfl rfl s.pool (by simp [contrib, bonded])
        · rw [hds]; rfl
        · rw [hds]; rfl
        · rw [emit_chainIdx, setValidator_chainIdx]
        · rw [hds]; rfl
        · simp
        · simp
      refine hi.replace ⟨?_⟩ hr
      intro w hw
      injection hw with hw; subst hw
      exact ⟨hi.keys a v hv, hi.nonneg a v hv, hi.bondedAll a v hv⟩

/-- `handleMsgUnjail` -/
theorem inv_handleUnjail {s : State} (hi : Inv s) (h t : Int) (a signer : Addr) :
    Inv (handleUnjail s h t a signer).1 := by
  unfold handleUnjail
  cases hv : aget s.vals a with
  | none => exact hi
  | some v =>
    simp only
    split
    · exact hi
    · split
      · exact inv_setWaiting hi _ _
      · split
        · exact hi
        · cases hsi : aget s.signInfo v.addr with
          | none => exact hi
          | some si =>
            simp only
            split
            · exact hi
            · exact inv_unjailValidator hi _ _

theorem Inv.pool_nonneg {s : State} (hi : Inv s) : 0 ≤ s.pool := by
  rw [hi.pool]
  apply contrib_nonneg_of
  intro p hp
  exact hi.nonneg p.1 p.2 (aget_of_mem hi.nodup hp)

/-- `mint`: the coins pass through the pool and leave it again -/
theorem mintTo_spec {s : State} (hi : Inv s) (amount : Int) (to : Addr) :
    mintTo s amount to = { s with supply := s.supply + amount, bal := aset s.bal to (balOf s to + amount) } := by
  unfold mintTo fromPool
  have := hi.pool_nonneg
  simp only
  rw [if_neg (by omega)]
  simp only [balOf]
  congr 1
  omega

/-- every operation other than a plain transfer to the pool's address preserves the invariant -/
theorem inv_step {s : State} (hi : Inv s) (op : Op) (hop : op.isPoolSend = false) : Inv (step s op) := by
  cases op with
  | stake h m signer => exact inv_handleStake hi h m signer
  | beginUnstake a signer => exact inv_handleBeginUnstake hi a signer
  | unjail h t a signer => exact inv_handleUnjail hi h t a signer
  | burn a amount => exact inv_simpleSlash hi a amount
  | beginBlock h t votes evs => exact inv_beginBlock hi h t votes evs
  | endBlock h t => exact inv_endBlock hi h t
  | setParams p => exact hi.congr rfl rfl rfl rfl rfl hi.waitNodup
  | credit a d => exact hi.congr rfl rfl rfl rfl rfl hi.waitNodup
  | reward to amount =>
    show Inv (mintTo s amount to)
    rw [mintTo_spec hi]
    exact hi.congr rfl rfl rfl rfl rfl hi.waitNodup
  | sendToPool sender amount => cases hop

/-- … and so does every history without such transfers -/
theorem inv_run {s : State} (hi : Inv s) (ops : List Op) (hops : ∀ op ∈ ops, op.isPoolSend = false) :
    Inv (run s ops) := by
  unfold run
  induction ops generalizing s with
  | nil => exact hi
  | cons op t ih =>
    simp only [List.foldl_cons]
    exact ih (inv_step hi op (hops op List.mem_cons_self)) (fun o ho => hops o (List.mem_cons_of_mem _ ho))

end Nodes
