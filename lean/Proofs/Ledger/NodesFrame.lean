import Proofs.Ledger.NodesUnstake
/-!
# Only `UpdateTendermintValidators` touches the previous-power store, the consensus set and no
operation but `setParams` the parameters
-/
namespace Nodes

/-- previous-power store, (ghost) consensus set and parameters are untouched -/
def Frame (s s' : State) : Prop := s'.prevPower = s.prevPower ∧ s'.tmSet = s.tmSet ∧ s'.params = s.params

theorem Frame.refl (s : State) : Frame s s := ⟨rfl, rfl, rfl⟩
theorem Frame.trans {a b c : State} (h1 : Frame a b) (h2 : Frame b c) : Frame a c :=
  ⟨h2.1.trans h1.1, h2.2.1.trans h1.2.1, h2.2.2.trans h1.2.2⟩

theorem frame_setValidator (s : State) (v : Val) : Frame s (setValidator s v) := ⟨by simp, by simp, by simp⟩

theorem frame_jailValidator (s : State) (a : Addr) : Frame s (jailValidator s a) := by
  unfold jailValidator
  cases aget s.vals a with
  | none => exact Frame.refl s
  | some v =>
    simp only
    split
    · exact Frame.refl s
    · split
      · exact Frame.refl s
      · exact ⟨by simp, by simp, by simp⟩

theorem frame_forceUnstake (s : State) (v : Val) (c : Cause) : Frame s (forceUnstake s v c) :=
  (frame_jailValidator s v.addr).trans ⟨rfl, rfl, rfl⟩

theorem frame_clearMissed (s : State) (a : Addr) : Frame s (clearMissed s a) := ⟨rfl, rfl, rfl⟩
theorem frame_setSignInfo (s : State) (l : List (Addr × SignInfo)) : Frame s { s with signInfo := l } := ⟨rfl, rfl, rfl⟩
theorem frame_emit (s : State) (e : Event) : Frame s (s.emit e) := ⟨rfl, rfl, rfl⟩
theorem frame_delStaked (s : State) (v : Val) : Frame s (delStaked s v) := ⟨rfl, rfl, rfl⟩

theorem frame_burnPool {s s2 : State} {k : Int} (hb : burnPool s k = some s2) : Frame s s2 := by
  unfold burnPool at hb
  split at hb
  · injection hb with hb; subst hb; exact Frame.refl s
  · split at hb
    · cases hb
    · injection hb with hb; subst hb; exact ⟨rfl, rfl, rfl⟩

theorem frame_slashCore (s : State) (v : Val) (req : Int) : Frame s (slashCore s v req) := by
  unfold slashCore removeTokens
  simp only
  by_cases hc : burnAmount req v.tokens < 0 ∨ v.tokens < burnAmount req v.tokens
  · simp only [if_pos hc]
    exact frame_delStaked s v
  · simp only [if_neg hc]
    have h1 : Frame s (setValidator (delStaked s v) { v with tokens := v.tokens - burnAmount req v.tokens }) :=
      (frame_delStaked s v).trans (frame_setValidator _ _)
    cases hb : burnPool (setValidator (delStaked s v) { v with tokens := v.tokens - burnAmount req v.tokens }) (burnAmount req v.tokens) with
    | none => exact h1.trans (frame_emit _ _)
    | some s2 =>
      simp only
      have h2 := h1.trans (frame_burnPool hb)
      split
      · exact (h2.trans (frame_emit _ _)).trans (frame_forceUnstake _ _ _)
      · exact h2.trans (frame_emit _ _)

theorem frame_simpleSlash (s : State) (a : Addr) (amount : Int) : Frame s (simpleSlash s a amount) := by
  unfold simpleSlash
  split
  · exact Frame.refl s
  · cases aget s.vals a with
    | none => exact Frame.refl s
    | some v =>
      simp only
      split
      · exact Frame.refl s
      · exact frame_slashCore s v amount

theorem frame_slash (s : State) (h : Int) (a : Addr) (ih pw f : Int) : Frame s (slash s h a ih pw f) := by
  unfold slash
  split
  · exact Frame.refl s
  · split
    · exact Frame.refl s
    · cases aget s.vals a with
      | none => exact Frame.refl s
      | some v =>
        simp only
        split
        · exact Frame.refl s
        · exact frame_slashCore s v _

theorem frame_handleSig (s : State) (h t : Int) (vt : Vote) : Frame s (handleSig s h t vt) := by
  unfold handleSig
  split
  · exact Frame.refl s
  · split
    · split
      · exact ⟨rfl, rfl, rfl⟩
      · exact Frame.refl s
    · simp only
      have h1 : Frame s (sigWindowReset s h vt.addr ‹SignInfo›).1 := by
        unfold sigWindowReset; split <;> exact ⟨rfl, rfl, rfl⟩
      have h2 : Frame (sigWindowReset s h vt.addr ‹SignInfo›).1
          (sigRecord (sigWindowReset s h vt.addr ‹SignInfo›).1 vt.addr (sigWindowReset s h vt.addr ‹SignInfo›).2 vt.signed).1 := by
        unfold sigRecord; simp only; split
        · exact ⟨rfl, rfl, rfl⟩
        · split <;> exact ⟨rfl, rfl, rfl⟩
      split
      · refine (h1.trans h2).trans ?_
        unfold sigPunish
        simp only
        exact (((frame_slash _ _ _ _ _ _).trans (frame_clearMissed _ _)).trans (frame_jailValidator _ _)).trans (frame_setSignInfo _ _)
      · exact (h1.trans h2).trans (frame_setSignInfo _ _)

theorem frame_handleEvidence (s : State) (h t : Int) (e : Evidence) : Frame s (handleEvidence s h t e) := by
  unfold handleEvidence handleDoubleSign
  split
  · cases aget s.vals e.addr with
    | none => exact Frame.refl s
    | some v =>
      simp only
      split
      · exact Frame.refl s
      · split
        · exact Frame.refl s
        · cases aget s.signInfo e.addr with
          | none => exact Frame.refl s
          | some si => exact frame_slash _ _ _ _ _ _
  · exact Frame.refl s

theorem frame_foldl {β : Type} (f : State → β → State) (hf : ∀ s b, Frame s (f s b)) (l : List β) (s : State) :
    Frame s (l.foldl f s) := by
  induction l generalizing s with
  | nil => exact Frame.refl s
  | cons b t ih => exact (hf s b).trans (ih (f s b))

theorem frame_beginBlock (s : State) (h t : Int) (votes : List Vote) (evs : List Evidence) :
    Frame s (beginBlock s h t votes evs) := by
  unfold beginBlock
  exact (frame_foldl _ (fun s v => frame_handleSig s h t v) votes s).trans
    (frame_foldl _ (fun s e => frame_handleEvidence s h t e) evs _)

theorem frame_handleStake (s : State) (h : Int) (m : StakeMsg) (signer : Addr) : Frame s (handleStake s h m signer).1 := by
  by_cases hok : (handleStake s h m signer).2 = .ok
  · unfold handleStake at hok ⊢
    by_cases hu : m.url.length > 255
    · simp [hu] at hok
    · by_cases hdl : delegatorsOk m.delegators = false
      · simp [hu, hdl] at hok
      · simp only [if_neg hu, if_neg hdl] at hok ⊢
        cases hv : validateStaking s m signer with
        | err c => exact Frame.refl s
        | ok =>
          simp only
          have hnew : Frame s (stakeValidator.stakeNew h m signer s).1 := by
            unfold stakeValidator.stakeNew
            cases hp : toPool s signer m.amount with
            | none => exact Frame.refl s
            | some s1 =>
              obtain ⟨_, _, e1⟩ := toPool_spec hp
              subst e1
              simp only
              split <;> exact ⟨by simp, by simp, by simp⟩
          unfold stakeValidator
          cases hc : aget s.vals m.addr with
          | none => exact hnew
          | some c =>
            simp only
            split
            · unfold editStake
              simp only
              split
              · exact Frame.refl s
              · rename_i s1 hp
                have hs1 : Frame s s1 := by
                  split at hp
                  · obtain ⟨_, _, e1⟩ := toPool_spec hp; subst e1; exact ⟨rfl, rfl, rfl⟩
                  · injection hp with hp; subst hp; exact Frame.refl s
                refine hs1.trans ?_
                split <;> split <;> exact ⟨by simp [resetSigningInfo, clearMissed], by simp [resetSigningInfo, clearMissed], by simp [resetSigningInfo, clearMissed]⟩
            · exact hnew
  · rw [handleStake_err_vals hok]; exact Frame.refl s

theorem frame_handleBeginUnstake (s : State) (a signer : Addr) : Frame s (handleBeginUnstake s a signer).1 := by
  unfold handleBeginUnstake
  cases aget s.vals a with
  | none => exact Frame.refl s
  | some v =>
    simp only
    split
    · exact Frame.refl s
    · split
      · exact Frame.refl s
      · exact ⟨rfl, rfl, rfl⟩

theorem frame_handleUnjail (s : State) (h t : Int) (a signer : Addr) : Frame s (handleUnjail s h t a signer).1 := by
  unfold handleUnjail
  cases aget s.vals a with
  | none => exact Frame.refl s
  | some v =>
    simp only
    split
    · exact Frame.refl s
    · split
      · exact ⟨rfl, rfl, rfl⟩
      · split
        · exact Frame.refl s
        · cases aget s.signInfo v.addr with
          | none => exact Frame.refl s
          | some si =>
            simp only
            split
            · exact Frame.refl s
            · unfold unjailValidator
              cases aget s.vals v.addr with
              | none => exact Frame.refl s
              | some w =>
                simp only
                split
                · exact Frame.refl s
                · exact ⟨by simp [resetSigningInfo, clearMissed], by simp [resetSigningInfo, clearMissed], by simp [resetSigningInfo, clearMissed]⟩

theorem frame_mintTo (s : State) (amount : Int) (to : Addr) : Frame s (mintTo s amount to) := by
  unfold mintTo fromPool
  simp only
  by_cases h : s.pool + amount < amount
  · simp only [if_pos h]; exact ⟨rfl, rfl, rfl⟩
  · simp only [if_neg h]; exact ⟨rfl, rfl, rfl⟩

/-- every operation except `EndBlocker` and `setParams` -/
theorem frame_step (s : State) (op : Op) (hne : ∀ h t, op ≠ .endBlock h t) (hnp : ∀ p, op ≠ .setParams p) :
    Frame s (step s op) := by
  cases op with
  | stake h m signer => exact frame_handleStake s h m signer
  | beginUnstake a signer => exact frame_handleBeginUnstake s a signer
  | unjail h t a signer => exact frame_handleUnjail s h t a signer
  | burn a amount => exact frame_simpleSlash s a amount
  | beginBlock h t votes evs => exact frame_beginBlock s h t votes evs
  | endBlock h t => exact absurd rfl (hne h t)
  | setParams p => exact absurd rfl (hnp p)
  | credit a d => exact ⟨rfl, rfl, rfl⟩
  | reward to amount => exact frame_mintTo s amount to
  | sendToPool sender amount =>
    show Frame s (if _ then _ else _)
    split
    · exact Frame.refl s
    · exact ⟨rfl, rfl, rfl⟩

/-! ## inside the end-block -/

theorem frame_incrementJailed (s : State) (h : Int) : Frame s (incrementJailed s h) := by
  unfold incrementJailed
  refine frame_foldl _ (fun s p => ?_) _ s
  unfold incrementJailedOne
  split
  · simp only
    split
    · exact frame_forceUnstake _ _ _
    · exact ⟨rfl, rfl, rfl⟩
  · exact Frame.refl s

theorem frame_releaseOne (s : State) (t : Int) (v : Val) : Frame s (releaseOne s t v) := by
  unfold releaseOne
  simp only
  split
  · unfold beginUnstaking
    exact ⟨by simp, by simp, by simp⟩
  · exact ⟨rfl, rfl, rfl⟩

theorem frame_getWaiting (s : State) (l : List Addr) (acc : List Val) : Frame s (getWaiting s l acc).2 := by
  induction l generalizing acc with
  | nil => exact Frame.refl s
  | cons a t ih =>
    unfold getWaiting
    cases aget s.vals a with
    | none => exact ⟨rfl, rfl, rfl⟩
    | some v => exact ih _

theorem frame_releaseWaiting (s : State) (t : Int) : Frame s (releaseWaiting s t) := by
  unfold releaseWaiting
  have h1 := frame_getWaiting s (sortAddrs s.waiting) []
  generalize getWaiting s (sortAddrs s.waiting) [] = r at h1
  obtain ⟨vs, s1⟩ := r
  exact h1.trans (frame_foldl _ (fun s v => frame_releaseOne s t v) vs s1)

theorem frame_finishUnstaking (s : State) (v : Val) : Frame s (finishUnstaking s v) := by
  unfold finishUnstaking
  simp only
  cases hf : fromPool (delUnstaking s v) (match aget (delUnstaking s v).vals v.addr with | some r => r.outAddr | none => []) v.tokens with
  | none => exact ⟨by simp, by simp, by simp⟩
  | some s1 =>
    have : Frame s s1 := by
      unfold fromPool at hf
      split at hf
      · cases hf
      · injection hf with hf; subst hf; exact ⟨rfl, rfl, rfl⟩
    exact ⟨by simp [this.1], by simp [this.2.1], by simp [this.2.2]⟩

theorem frame_unstakeMature (s : State) (t : Int) : Frame s (unstakeMature s t) := by
  unfold unstakeMature
  refine frame_foldl _ (fun s e => ?_) _ s
  unfold matureSlice
  refine (frame_foldl _ (fun s a => ?_) e.2 s).trans ⟨rfl, rfl, rfl⟩
  unfold matureOne
  cases aget s.vals a with
  | none => exact Frame.refl s
  | some v =>
    simp only
    split
    · exact frame_finishUnstaking s v
    · exact Frame.refl s

end Nodes
