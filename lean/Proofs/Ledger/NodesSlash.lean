import Proofs.Ledger.NodesTx
/-!
# Slashing, jailing and unjailing: what the operations do to a record (C25)
-/
namespace Nodes
open Spec

/-- the record of `a` after `JailValidator a`: the same record, jailed (unless it is an unstaked leftover) -/
theorem jailValidator_record (s : State) {a : Addr} {v : Val} (hv : aget s.vals a = some v) (hk : v.addr = a)
    (hu : v.status ≠ .unstaked) :
    aget (jailValidator s a).vals a = some { v with jailed := true } ∧
    (jailValidator s a).pool = s.pool ∧ (jailValidator s a).supply = s.supply ∧
    (jailValidator s a).waiting = s.waiting ∧ (jailValidator s a).bal = s.bal ∧
    (jailValidator s a).params = s.params := by
  unfold jailValidator
  simp only [hv]
  by_cases hj : v.jailed = true
  · rw [if_pos hj]
    refine ⟨?_, rfl, rfl, rfl, rfl, rfl⟩
    rw [hv]; congr 1
    cases v; simp_all
  · rw [if_neg hj, if_neg hu]
    simp [setValidator_vals, hk]

theorem jailValidator_other (s : State) (a : Addr) {b : Addr} (hb : b ≠ a)
    (hk : ∀ v, aget s.vals a = some v → v.addr = a) : aget (jailValidator s a).vals b = aget s.vals b := by
  unfold jailValidator
  cases hv : aget s.vals a with
  | none => rfl
  | some v =>
    simp only
    split
    · rfl
    · split
      · rfl
      · simp [setValidator_vals, hk v hv, aget_aset_ne _ _ _ hb]

/-- the outcome of the common tail of `slash` / `simpleSlash` on the current record `v` -/
structure Slashed (s s' : State) (v : Val) (req : Int) : Prop where
  /-- the amount burned -/
  bounded : 0 ≤ burnAmount req v.tokens ∧ burnAmount req v.tokens ≤ v.tokens ∧ burnAmount req v.tokens ≤ max req 0
  record : ∃ v', aget s'.vals v.addr = some v' ∧ v'.tokens = v.tokens - burnAmount req v.tokens ∧
    v'.addr = v.addr ∧ v'.status = v.status ∧ v'.pk = v.pk ∧ v'.output = v.output ∧
    (v'.tokens < s.params.minStake → v'.jailed = true ∧ v.addr ∈ s'.waiting) ∧
    (s.params.minStake ≤ v'.tokens → v'.jailed = v.jailed ∧ s'.waiting = s.waiting)
  supply : s'.supply = s.supply - burnAmount req v.tokens
  pool : s'.pool = s.pool - burnAmount req v.tokens
  others : ∀ b, b ≠ v.addr → aget s'.vals b = aget s.vals b

theorem afterBurn_fields (s : State) (v : Val) (req : Int) :
    (afterBurn s v req).vals = aset s.vals v.addr (slashedVal v (burnAmount req v.tokens)) ∧
    (afterBurn s v req).pool = s.pool - (if burnAmount req v.tokens ≤ 0 then 0 else burnAmount req v.tokens) ∧
    (afterBurn s v req).supply = s.supply - (if burnAmount req v.tokens ≤ 0 then 0 else burnAmount req v.tokens) ∧
    (afterBurn s v req).waiting = s.waiting ∧ (afterBurn s v req).params = s.params := by
  unfold afterBurn
  simp only
  split <;> simp [setValidator_vals, slashedVal]

theorem slashCore_slashed {s : State} (hi : Inv s) {v : Val} (hv : aget s.vals v.addr = some v) (req : Int) :
    Slashed s (slashCore s v req) v req := by
  have hnn := hi.nonneg _ v hv
  have hu := hi.bondedAll _ v hv
  rw [slashCore_ok s v req hnn (hi.tokens_le_pool hv)]
  obtain ⟨f1, f2, f3, f4, f5⟩ := afterBurn_fields s v req
  have hk0 : 0 ≤ burnAmount req v.tokens := by unfold burnAmount; omega
  have hk1 : burnAmount req v.tokens ≤ v.tokens := by unfold burnAmount; omega
  have hk2 : burnAmount req v.tokens ≤ max req 0 := by unfold burnAmount; omega
  have hz : (if burnAmount req v.tokens ≤ 0 then 0 else burnAmount req v.tokens) = burnAmount req v.tokens := by
    split <;> omega
  rw [hz] at f2 f3
  have hrec : aget (afterBurn s v req).vals v.addr = some (slashedVal v (burnAmount req v.tokens)) := by
    rw [f1]; simp
  by_cases hlow : (slashedVal v (burnAmount req v.tokens)).tokens < s.params.minStake
  · rw [if_pos hlow]
    unfold forceUnstake
    obtain ⟨j1, j2, j3, j4, _, _⟩ := jailValidator_record (afterBurn s v req) (a := v.addr) hrec rfl
      (by simp [slashedVal]; exact hu)
    have j1' : aget (setWaiting (jailValidator (afterBurn s v req) (slashedVal v (burnAmount req v.tokens)).addr)
        (slashedVal v (burnAmount req v.tokens)).addr .belowMin).vals v.addr =
        some { slashedVal v (burnAmount req v.tokens) with jailed := true } := j1
    refine ⟨⟨hk0, hk1, hk2⟩, ⟨{ slashedVal v (burnAmount req v.tokens) with jailed := true }, j1', rfl, rfl, rfl, rfl, rfl, ?_, ?_⟩, ?_, ?_, ?_⟩
    · intro _
      refine ⟨rfl, ?_⟩
      show v.addr ∈ (setWaiting (jailValidator (afterBurn s v req) v.addr) v.addr .belowMin).waiting
      simp [mem_sins]
    · intro h
      simp only [slashedVal] at hlow h
      omega
    · show (setWaiting (jailValidator (afterBurn s v req) v.addr) v.addr .belowMin).supply = _
      simp [j3, f3]
    · show (setWaiting (jailValidator (afterBurn s v req) v.addr) v.addr .belowMin).pool = _
      simp [j2, f2]
    · intro b hb
      show aget (setWaiting (jailValidator (afterBurn s v req) v.addr) v.addr .belowMin).vals b = _
      simp only [setWaiting_vals]
      rw [jailValidator_other _ _ hb (fun w hw => by rw [hrec] at hw; injection hw with hw; subst hw; rfl), f1,
        aget_aset_ne _ _ _ hb]
  · rw [if_neg hlow]
    refine ⟨⟨hk0, hk1, hk2⟩, ⟨_, hrec, rfl, rfl, rfl, rfl, rfl, ?_, ?_⟩, f3, f2, ?_⟩
    · intro h; exact absurd h hlow
    · intro _; exact ⟨rfl, f4⟩
    · intro b hb
      rw [f1, aget_aset_ne _ _ _ hb]

/-- `simpleSlash` (challenge burns) -/
theorem simpleSlash_slashed {s : State} (hi : Inv s) {a : Addr} {v : Val} (hv : aget s.vals a = some v) (amount : Int)
    (hpos : 0 < amount) : Slashed s (simpleSlash s a amount) v amount := by
  unfold simpleSlash
  rw [if_neg (by omega)]
  simp only [hv, if_neg (hi.bondedAll a v hv)]
  exact slashCore_slashed hi (by rw [hi.keys a v hv]; exact hv) amount

/-- a slash that is not applicable leaves the state alone -/
theorem simpleSlash_noop (s : State) (a : Addr) (amount : Int) (h : amount ≤ 0 ∨ aget s.vals a = none) :
    simpleSlash s a amount = s := by
  unfold simpleSlash
  rcases h with h | h
  · rw [if_pos h]
  · split
    · rfl
    · rw [h]

/-- `slash` (downtime, double sign) -/
theorem slash_slashed {s : State} (hi : Inv s) {a : Addr} {v : Val} (hv : aget s.vals a = some v) (h ih pw f : Int)
    (hf : 0 < f) (hh : ih ≤ h) : Slashed s (slash s h a ih pw f) v (slashAmount pw f) := by
  unfold slash
  rw [if_neg (by omega), if_neg (by omega)]
  simp only [hv, if_neg (hi.bondedAll a v hv)]
  exact slashCore_slashed hi (by rw [hi.keys a v hv]; exact hv) _

/-! ## Unjail -/

/-- `handleMsgUnjail` succeeds only for an authorised signer, a jailed node with at least the minimum
stake, and a jail period that has elapsed in block time -/
theorem handleUnjail_ok_requires {s : State} {h t : Int} {a signer : Addr}
    (hok : (handleUnjail s h t a signer).2 = .ok) :
    ∃ v si, aget s.vals a = some v ∧ aget s.signInfo v.addr = some si ∧
      signerOk v.addr v.output signer = true ∧ s.params.minStake ≤ v.tokens ∧ v.jailed = true ∧
      si.jailedUntil ≤ t := by
  unfold handleUnjail at hok
  cases hv : aget s.vals a with
  | none => simp [hv] at hok
  | some v =>
    simp only [hv] at hok
    by_cases h1 : signerOk v.addr v.output signer = false
    · simp [h1] at hok
    · simp only [h1] at hok
      by_cases h2 : v.tokens < s.params.minStake
      · simp [h2] at hok
      · simp only [h2] at hok
        by_cases h3 : v.jailed = false
        · simp [h3] at hok
        · simp only [h3] at hok
          cases hsi : aget s.signInfo v.addr with
          | none => simp [hsi] at hok
          | some si =>
            simp only [hsi] at hok
            by_cases h5 : t < si.jailedUntil
            · simp [h5] at hok
            · refine ⟨v, si, rfl, hsi, ?_, by omega, ?_, by omega⟩
              · cases hb : signerOk v.addr v.output signer <;> simp_all
              · cases hb : v.jailed <;> simp_all

/-- … and conversely these conditions suffice: nothing else (in particular no wall clock) decides an unjail -/
theorem handleUnjail_ok_of {s : State} {h t : Int} {a signer : Addr} {v : Val} {si : SignInfo}
    (hv : aget s.vals a = some v) (hsi : aget s.signInfo v.addr = some si)
    (hsg : signerOk v.addr v.output signer = true) (hmin : s.params.minStake ≤ v.tokens) (hj : v.jailed = true)
    (ht : si.jailedUntil ≤ t) : (handleUnjail s h t a signer).2 = .ok := by
  unfold handleUnjail
  simp only [hv, hsi]
  have h1 : ¬ (signerOk v.addr v.output signer = false) := by simp [hsg]
  have h2 : ¬ (v.tokens < s.params.minStake) := by omega
  have h3 : ¬ (v.jailed = false) := by simp [hj]
  have h5 : ¬ (t < si.jailedUntil) := by omega
  simp only [if_neg h1, if_neg h2, if_neg h3, if_neg h5]

/-- a rejected unjail changes nothing but (when the stake is below the minimum) the waiting set -/
theorem handleUnjail_err_vals {s : State} {h t : Int} {a signer : Addr}
    (herr : (handleUnjail s h t a signer).2 ≠ .ok) : (handleUnjail s h t a signer).1.vals = s.vals := by
  unfold handleUnjail at herr ⊢
  cases hv : aget s.vals a with
  | none => rfl
  | some v =>
    simp only [hv] at herr ⊢
    split
    · rfl
    · split
      · rfl
      · split
        · rfl
        · cases hsi : aget s.signInfo v.addr with
          | none => rfl
          | some si =>
            simp only [hsi] at herr ⊢
            split
            · rfl
            · rename_i h1 h2 h3 h4
              simp [hsi, h1, h2, h3, h4] at herr

/-! ## Downtime accounting -/

/-- number of set bits of `a` in the missed-block array -/
def bitCount (s : State) (a : Addr) : Int := ((s.missedBits.filter fun p => decide (p.1 = a)).length : Int)

theorem bitCount_sins (l : List (Addr × Int)) (hn : l.Nodup) (a : Addr) (i : Int) (hni : (a, i) ∉ l) :
    (((sins l (a, i)).filter fun p => decide (p.1 = a)).length : Int) = ((l.filter fun p => decide (p.1 = a)).length : Int) + 1 := by
  unfold sins
  rw [if_neg hni]
  simp

theorem length_filter_sdel (l : List (Addr × Int)) (hn : l.Nodup) (a : Addr) (i : Int) (hi : (a, i) ∈ l) :
    (((sdel l (a, i)).filter fun p => decide (p.1 = a)).length : Int) = ((l.filter fun p => decide (p.1 = a)).length : Int) - 1 := by
  induction l with
  | nil => cases hi
  | cons x t ih =>
    simp only [List.nodup_cons] at hn
    unfold sdel at ih ⊢
    rcases List.mem_cons.mp hi with e | e
    · subst e
      have hnt : (t.filter fun y => decide (y ≠ (a, i))) = t := by
        apply List.filter_eq_self.mpr
        intro y hy
        simp only [ne_eq, decide_eq_true_eq]
        intro e; exact hn.1 (e ▸ hy)
      have h1 : List.filter (fun y => decide (y ≠ (a, i))) ((a, i) :: t) = t := by
        rw [List.filter_cons, hnt]; simp
      rw [h1]
      simp [List.filter_cons]
    · have hne : x ≠ (a, i) := fun e' => hn.1 (e' ▸ e)
      have := ih hn.2 e
      by_cases hx : x.1 = a
      · simp [List.filter_cons, hne, hx] at this ⊢; omega
      · simp [List.filter_cons, hne, hx] at this ⊢; omega

/-- the bit array and the counter move together: if the counter equals the number of set bits before a vote
is recorded, it does so afterwards; the bit of the current index becomes "missed" iff the vote is absent -/
theorem sigRecord_exact (s : State) (a : Addr) (si : SignInfo) (signed : Bool) (hn : s.missedBits.Nodup)
    (hex : si.missed = bitCount s a) :
    (sigRecord s a si signed).2.missed = bitCount (sigRecord s a si signed).1 a ∧
    (sigRecord s a si signed).1.missedBits.Nodup ∧
    (sigRecord s a si signed).2.index = si.index + 1 ∧
    missedAt (sigRecord s a si signed).1 a si.index = !signed := by
  unfold sigRecord
  simp only
  by_cases hp : missedAt s a si.index = true
  · have hm : (a, si.index) ∈ s.missedBits := by simpa [missedAt] using hp
    cases signed with
    | true =>
      simp only [hp, Bool.not_true, Bool.false_and, Bool.false_eq_true, if_false, Bool.and_self, if_true]
      refine ⟨?_, nodup_sdel hn _, by first | rfl | trivial, ?_⟩
      · simp only [bitCount, setMissed, Bool.false_eq_true, if_false] at hex ⊢
        rw [length_filter_sdel _ hn a si.index hm]; omega
      · simp [missedAt, setMissed, mem_sdel]
    | false =>
      simp only [hp, Bool.not_true, Bool.false_and, Bool.false_eq_true, if_false, Bool.and_false]
      exact ⟨hex, hn, by first | rfl | trivial, by simp [hp]⟩
  · have hp' : missedAt s a si.index = false := by cases h : missedAt s a si.index <;> simp_all
    have hm : (a, si.index) ∉ s.missedBits := by simpa [missedAt] using hp'
    cases signed with
    | true =>
      simp only [hp', Bool.not_false, Bool.true_and, Bool.not_true, Bool.false_eq_true, if_false, Bool.false_and]
      exact ⟨hex, hn, by first | rfl | trivial, by simp [hp']⟩
    | false =>
      simp only [hp', Bool.not_false, Bool.and_self, if_true]
      refine ⟨?_, nodup_sins hn _, by first | rfl | trivial, ?_⟩
      · simp only [bitCount, setMissed, if_true] at hex ⊢
        rw [bitCount_sins _ hn a si.index hm]; omega
      · simp [missedAt, setMissed, mem_sins]

/-- the window reset clears bits and counter together -/
theorem sigWindowReset_exact (s : State) (h : Int) (a : Addr) (si : SignInfo) (hn : s.missedBits.Nodup)
    (hex : si.missed = bitCount s a) :
    (sigWindowReset s h a si).2.missed = bitCount (sigWindowReset s h a si).1 a ∧
    (sigWindowReset s h a si).1.missedBits.Nodup := by
  unfold sigWindowReset
  split
  · refine ⟨?_, hn.filter _⟩
    simp only [bitCount, clearMissed, SignInfo.reset, List.filter_filter]
    rw [List.filter_eq_nil_iff.mpr]
    · rfl
    · intro x _; simp
  · exact ⟨hex, hn⟩

/-- `slash` keeps the record of the slashed node (with its status) -/
theorem slash_keeps_record {s : State} (hi : Inv s) {a : Addr} {v : Val} (hv : aget s.vals a = some v) (h ih pw f : Int) :
    ∃ v', aget (slash s h a ih pw f).vals a = some v' ∧ v'.addr = a ∧ v'.status = v.status := by
  have hk := hi.keys a v hv
  by_cases hf : 0 < f
  · by_cases hh : ih ≤ h
    · obtain ⟨v', h1, _, h3, h4, _⟩ := (slash_slashed hi hv h ih pw f hf hh).record
      rw [hk] at h1
      exact ⟨v', h1, by rw [h3, hk], h4⟩
    · unfold slash
      rw [if_neg (by omega), if_pos (by omega)]
      exact ⟨v, hv, hk, rfl⟩
  · unfold slash
    rw [if_pos (by omega)]
    exact ⟨v, hv, hk, rfl⟩

/-- downtime confirmed: the node is jailed and its signing info restarts with the jail period set -/
theorem sigPunish_jails {s : State} (hi : Inv s) (p : Params) (h t : Int) (vt : Vote) (si : SignInfo) {v : Val}
    (hv : aget s.vals vt.addr = some v) :
    (∃ v', aget (sigPunish s p h t vt si).vals vt.addr = some v' ∧ v'.jailed = true ∧ v'.status = v.status) ∧
    aget (sigPunish s p h t vt si).signInfo vt.addr = some { si.reset with jailedUntil := t + p.downtimeJail } := by
  unfold sigPunish
  simp only
  obtain ⟨v', h1, h2, h3⟩ := slash_keeps_record hi hv h (h - 1 - 1) vt.power p.slashDowntime
  have hi1 := inv_slash hi h vt.addr (h - 1 - 1) vt.power p.slashDowntime
  have h1' : aget (clearMissed (slash s h vt.addr (h - 1 - 1) vt.power p.slashDowntime) vt.addr).vals vt.addr = some v' := h1
  obtain ⟨j1, _⟩ := jailValidator_record _ h1' h2 (by rw [h3]; exact hi.bondedAll _ v hv)
  exact ⟨⟨_, j1, rfl, h3⟩, by simp⟩

/-- `handleValidatorSignature` jails as soon as the counter exceeds `window − minSigned` -/
theorem handleSig_jails {s : State} (hi : Inv s) (h t : Int) (vt : Vote) {v : Val} {si0 : SignInfo}
    (hv : aget s.vals vt.addr = some v) (hsi : aget s.signInfo vt.addr = some si0)
    (hex : (sigRecord (sigWindowReset s h vt.addr si0).1 vt.addr (sigWindowReset s h vt.addr si0).2 vt.signed).2.missed
      > s.params.window - s.params.minSigned) :
    (∃ v', aget (handleSig s h t vt).vals vt.addr = some v' ∧ v'.jailed = true) ∧
    (∃ si', aget (handleSig s h t vt).signInfo vt.addr = some si' ∧ si'.missed = 0 ∧ si'.index = 0 ∧
      si'.jailedUntil = t + s.params.downtimeJail) := by
  unfold handleSig
  simp only [hv, hsi, if_pos hex]
  have hi2 := inv_sigRecord (inv_sigWindowReset hi h vt.addr si0) vt.addr (sigWindowReset s h vt.addr si0).2 vt.signed
  have hv2 : aget (sigRecord (sigWindowReset s h vt.addr si0).1 vt.addr (sigWindowReset s h vt.addr si0).2 vt.signed).1.vals
      vt.addr = some v := by
    unfold sigRecord sigWindowReset
    simp only
    split <;> split <;> (try split) <;> exact hv
  obtain ⟨⟨v', h1, h2, _⟩, h3⟩ := sigPunish_jails hi2 s.params h t vt
    (sigRecord (sigWindowReset s h vt.addr si0).1 vt.addr (sigWindowReset s h vt.addr si0).2 vt.signed).2 hv2
  exact ⟨⟨v', h1, h2⟩, ⟨_, h3, rfl, rfl, rfl⟩⟩

end Nodes
