import Proofs.Ledger.NodesTx
/-!
# The invariant implies the executable specification predicates (`Nodes.Spec`) used by the driver
-/
namespace Nodes
open Spec

theorem inv_empty (p : Params) : Inv { params := p } := by
  refine ⟨by simp, ?_, ?_, ?_, rfl, ?_, by simp, ?_, ?_, by simp, by simp⟩
  · intro a v h; cases h
  · intro a v h; cases h
  · intro a v h; cases h
  · intro x; simp
  · intro x; simp
  · intro t a; simp [getQ]

theorem Inv.poolOk {s : State} (hi : Inv s) : Spec.poolOk s = true := by
  unfold Spec.poolOk; simp [hi.pool]

theorem Inv.stakedIdxSound {s : State} (hi : Inv s) : Spec.stakedIdxSound s = true := by
  unfold Spec.stakedIdxSound
  rw [List.all_eq_true]
  intro e he
  obtain ⟨v, hv, h1, h2, h3⟩ := (hi.staked e).mp he
  simp [hv, eligible, h1, h2, h3]

theorem Inv.stakedIdxComplete {s : State} (hi : Inv s) : Spec.stakedIdxComplete s = true := by
  unfold Spec.stakedIdxComplete
  rw [List.all_eq_true]
  intro p hp
  have hv := aget_of_mem hi.nodup (show (p.1, p.2) ∈ s.vals from hp)
  by_cases he : eligible p.2 = true
  · simp only [he, Bool.not_true, Bool.false_or, decide_eq_true_eq]
    unfold eligible at he
    simp only [Bool.and_eq_true, decide_eq_true_eq, Bool.not_eq_true'] at he
    exact (hi.staked (powerOf p.2.tokens, p.1)).mpr ⟨p.2, hv, he.1, he.2, rfl⟩
  · simp [he]

theorem Inv.chainIdxSound {s : State} (hi : Inv s) : Spec.chainIdxSound s = true := by
  unfold Spec.chainIdxSound
  rw [List.all_eq_true]
  intro e he
  obtain ⟨v, hv, h1, h2⟩ := (hi.chain e).mp he
  simp [hv, h1, h2]

theorem Inv.chainIdxComplete {s : State} (hi : Inv s) : Spec.chainIdxComplete s = true := by
  unfold Spec.chainIdxComplete
  rw [List.all_eq_true]
  intro p hp
  have hv := aget_of_mem hi.nodup (show (p.1, p.2) ∈ s.vals from hp)
  by_cases hs : p.2.status = .staked
  · simp only [hs, decide_true, Bool.not_true, Bool.false_or, List.all_eq_true, decide_eq_true_eq]
    intro c hc
    exact (hi.chain (c, p.1)).mpr ⟨p.2, hv, hs, hc⟩
  · simp [hs]

theorem Inv.queueSound {s : State} (hi : Inv s) : Spec.queueSound s = true := by
  unfold Spec.queueSound
  rw [List.all_eq_true]
  intro e he
  rw [List.all_eq_true]
  intro a ha
  have : a ∈ getQ s e.1 := by rw [← getQ_of_mem hi.qNodup he]; exact ha
  obtain ⟨v, hv, h1, h2⟩ := (hi.queue e.1 a).mp this
  simp [hv, h1, h2]

theorem Inv.queueComplete {s : State} (hi : Inv s) : Spec.queueComplete s = true := by
  unfold Spec.queueComplete
  rw [List.all_eq_true]
  intro p hp
  have hv := aget_of_mem hi.nodup (show (p.1, p.2) ∈ s.vals from hp)
  by_cases hs : p.2.status = .unstaking
  · simp only [hs, decide_true, Bool.not_true, Bool.false_or, decide_eq_true_eq]
    exact (hi.queue p.2.unstTime p.1).mpr ⟨p.2, hv, hs, rfl⟩
  · simp [hs]

end Nodes
