import Proofs.Ledger.AppsPool
/-!
# The staked index of the application store agrees with the records

`IdxOK s`: for every key `(power, address)` the staked index holds the address iff the record of
that address is staked, not jailed and has that consensus power — i.e. the index is exactly the
set `getStakedApplicationsCount` counts.  Invariant of every operation (`step_idxOK`).
-/
namespace Apps

/-- what the staked index must contain under key `(p, a)` when the record of `a` is `o` -/
def specOf (o : Option App) (p : Int) (a : Addr) : Option Addr :=
  match o with
  | some app => if app.status = stStaked ∧ app.jailed = false ∧ power app.tokens = p then some a else none
  | none => none

def IdxOK (s : St) : Prop := ∀ p a, get s.idx (p, a) = specOf (get s.apps a) p a

theorem stStaked_ne_unstaking : ¬ (stStaked = stUnstaking) := by decide

theorem setApplication_idx_staked (s : St) (a : Addr) (app : App) (h : app.status = stStaked ∧ app.jailed = false) :
    (setApplication s a app).idx = put s.idx (idxKey a app) a := by
  unfold setApplication
  simp [h, stStaked_ne_unstaking]

theorem setApplication_idx_other (s : St) (a : Addr) (app : App) (h : ¬ (app.status = stStaked ∧ app.jailed = false)) :
    (setApplication s a app).idx = s.idx := by
  unfold setApplication
  split <;> simp [h]

theorem pair_ne_of_snd {p q : Int} {a b : Addr} (h : a ≠ b) : ¬ ((p, a) = (q, b)) := by
  intro e; exact h (by injection e)

theorem pair_eq_iff {p q : Int} {a : Addr} : ((p, a) = (q, a)) ↔ p = q :=
  ⟨fun e => by injection e, fun e => by rw [e]⟩

/-- Only the record (and the index entries) of `a` change. -/
theorem idxOK_of_pointwise {s s' : St} (a : Addr) (o' : Option App) (h : IdxOK s)
    (ha : ∀ b, get s'.apps b = if a = b then o' else get s.apps b)
    (hi : ∀ p b, a ≠ b → get s'.idx (p, b) = get s.idx (p, b))
    (hia : ∀ p, get s'.idx (p, a) = specOf o' p a) : IdxOK s' := by
  intro p b
  rw [ha b]
  by_cases hb : a = b
  · subst hb; simp only [if_true]; exact hia p
  · simp only [hb, if_false]; rw [hi p b hb]; exact h p b

theorem apps_put_pointwise (m : List (Addr × App)) (a : Addr) (app : App) (b : Addr) :
    get (put m a app) b = if a = b then some app else get m b := get_put m a app b

theorem apps_del_pointwise (m : List (Addr × App)) (a b : Addr) :
    get (del m a) b = if a = b then none else get m b := get_del m a b

/-- Under `IdxOK`, the entries of `a` other than the one of its current power are absent. -/
theorem idx_other_power {s : St} (h : IdxOK s) {a : Addr} {cur : App} (hcur : get s.apps a = some cur)
    {p : Int} (hp : power cur.tokens ≠ p) : get s.idx (p, a) = none := by
  rw [h p a, hcur]; simp [specOf, hp]

theorem idx_no_record {s : St} (h : IdxOK s) {a : Addr} (hcur : get s.apps a = none) (p : Int) :
    get s.idx (p, a) = none := by
  rw [h p a, hcur]; rfl

theorem idx_not_staked {s : St} (h : IdxOK s) {a : Addr} {cur : App} (hcur : get s.apps a = some cur)
    (hn : ¬ (cur.status = stStaked ∧ cur.jailed = false)) (p : Int) : get s.idx (p, a) = none := by
  rw [h p a, hcur]
  simp only [specOf]
  have : ¬ (cur.status = stStaked ∧ cur.jailed = false ∧ power cur.tokens = p) := fun ⟨x, y, _⟩ => hn ⟨x, y⟩
  simp [this]

/-! ## the shapes of update the keeper performs -/

/-- Record of `a` := `app` (staked, unjailed), index: old key of `a` deleted, new key written. -/
theorem idxOK_restake {s s' : St} (a : Addr) (app : App) (oldp : Int) (h : IdxOK s)
    (hst : app.status = stStaked) (hj : app.jailed = false)
    (hold : ∀ p, p ≠ oldp → get s.idx (p, a) = none)
    (ha : s'.apps = put s.apps a app) (hi : s'.idx = put (del s.idx (oldp, a)) (idxKey a app) a) : IdxOK s' := by
  refine idxOK_of_pointwise a (some app) h (fun b => by rw [ha]; exact apps_put_pointwise _ _ _ _) ?_ ?_
  · intro p b hb
    rw [hi, get_put, get_del]
    simp [idxKey, pair_ne_of_snd hb]
  · intro p
    rw [hi, get_put, get_del]
    simp only [idxKey, pair_eq_iff, specOf, hst, hj, true_and]
    by_cases hp : power app.tokens = p
    · simp [hp]
    · simp only [hp, if_false]
      by_cases ho : oldp = p
      · simp [ho]
      · simp only [ho, if_false]; exact hold p (fun e => ho e.symm)

/-- Record of `a` := `o'` which is not (staked ∧ unjailed) (or deleted), index: key of the old
record deleted. -/
theorem idxOK_unindex {s s' : St} (a : Addr) (o' : Option App) (oldp : Int) (h : IdxOK s)
    (hn : ∀ app, o' = some app → ¬ (app.status = stStaked ∧ app.jailed = false))
    (hold : ∀ p, p ≠ oldp → get s.idx (p, a) = none)
    (ha : ∀ b, get s'.apps b = if a = b then o' else get s.apps b)
    (hi : s'.idx = del s.idx (oldp, a)) : IdxOK s' := by
  refine idxOK_of_pointwise a o' h ha ?_ ?_
  · intro p b hb
    rw [hi, get_del]; simp [pair_ne_of_snd hb]
  · intro p
    rw [hi, get_del]
    have hs : specOf o' p a = none := by
      cases o' with
      | none => rfl
      | some app =>
        simp only [specOf]
        have : ¬ (app.status = stStaked ∧ app.jailed = false ∧ power app.tokens = p) := fun ⟨x, y, _⟩ => hn app rfl ⟨x, y⟩
        simp [this]
    rw [hs]
    by_cases ho : oldp = p
    · simp [ho]
    · simp only [pair_eq_iff, ho, if_false]; exact hold p (fun e => ho e.symm)

/-- Index untouched, record of `a` goes from not-indexed to not-indexed. -/
theorem idxOK_same_idx {s s' : St} (a : Addr) (o' : Option App) (h : IdxOK s)
    (hn : ∀ app, o' = some app → ¬ (app.status = stStaked ∧ app.jailed = false))
    (hold : ∀ p, get s.idx (p, a) = none)
    (ha : ∀ b, get s'.apps b = if a = b then o' else get s.apps b)
    (hi : s'.idx = s.idx) : IdxOK s' := by
  refine idxOK_of_pointwise a o' h ha (fun p b _ => by rw [hi]) ?_
  intro p
  rw [hi, hold p]
  cases o' with
  | none => rfl
  | some app =>
    simp only [specOf]
    have : ¬ (app.status = stStaked ∧ app.jailed = false ∧ power app.tokens = p) := fun ⟨x, y, _⟩ => hn app rfl ⟨x, y⟩
    simp [this]

/-- Only balances / pool / parameters change. -/
theorem idxOK_same {s s' : St} (h : IdxOK s) (ha : s'.apps = s.apps) (hi : s'.idx = s.idx) : IdxOK s' := by
  intro p a; rw [ha, hi]; exact h p a

theorem put_put_self {κ α : Type} [DecidableEq κ] (m : List (κ × α)) (k : κ) (v : α) :
    put (put m k v) k v = put m k v := by
  unfold put
  have : del ((k, v) :: del m k) k = del (del m k) k := by simp [del]
  rw [this, del_del]

theorem setStaked_idx (s : St) (a : Addr) (app : App) :
    (setStaked s a app).idx = if app.jailed then s.idx else put s.idx (idxKey a app) a := by
  unfold setStaked; split <;> rfl

theorem setApplication_queue_idx_params (s : St) (a : Addr) (app : App) :
    (setApplication s a app).params = s.params ∧ (setApplication s a app).time = s.time
    ∧ (setApplication s a app).bals = s.bals := by
  unfold setApplication; split <;> split <;> simp

end Apps
