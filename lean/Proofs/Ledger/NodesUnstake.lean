import Proofs.Ledger.NodesStable
/-!
# Unstaking: release at the session end, payout when due, exactly once (C24)
-/
namespace Nodes
open Spec

/-! ## payout -/

/-- `FinishUnstakingValidator` under the invariant: the whole stake goes from the pool to the output address
(the operator's own address when none is set), the record and its signing info are deleted -/
theorem finishUnstaking_pays {s : State} (hi : Inv s) {v : Val} (hv : aget s.vals v.addr = some v) :
    let s' := finishUnstaking s v
    aget s'.vals v.addr = none ∧ s'.pool = s.pool - v.tokens ∧
    balOf s' v.outAddr = balOf s v.outAddr + v.tokens ∧ (∀ x, x ≠ v.outAddr → balOf s' x = balOf s x) ∧
    s'.supply = s.supply ∧ (∀ b, b ≠ v.addr → aget s'.vals b = aget s.vals b) ∧
    s'.log = s.log ++ [.payout v.addr v.outAddr v.tokens true, .recordDeleted v.addr] := by
  have hle := hi.tokens_le_pool hv
  unfold finishUnstaking
  simp only [delUnstaking_vals, hv]
  have hfp : fromPool (delUnstaking s v) v.outAddr v.tokens =
      some { delUnstaking s v with bal := aset (delUnstaking s v).bal v.outAddr (balOf (delUnstaking s v) v.outAddr + v.tokens),
                                   pool := (delUnstaking s v).pool - v.tokens } := by
    unfold fromPool
    rw [if_neg (by rw [delUnstaking_pool]; omega)]
  rw [hfp]
  simp only
  refine ⟨by simp [setValidator_vals], by simp, ?_, ?_, by simp, ?_, ?_⟩
  · simp [balOf]
  · intro x hx; simp [balOf, aget_aset_ne _ _ _ hx]
  · intro b hb
    simp [setValidator_vals, adel_aset_self, aget_adel_ne _ _ hb]
  · simp [deleteValidator, State.emit]

/-- a queue entry whose record is gone (paid before, or a duplicate in the slice) does nothing -/
theorem matureOne_absent (s : State) (a : Addr) (h : aget s.vals a = none) : matureOne s a = s := by
  unfold matureOne; rw [h]

/-- visiting the same address twice pays once -/
theorem matureOne_idem {s : State} (hi : Inv s) (a : Addr) : matureOne (matureOne s a) a = matureOne s a := by
  cases hv : aget s.vals a with
  | none => rw [matureOne_absent s a hv, matureOne_absent s a hv]
  | some v =>
    by_cases hs : v.status = .unstaking
    · apply matureOne_absent
      unfold matureOne
      simp only [hv, if_pos hs]
      have hk := hi.keys a v hv
      have := (finishUnstaking_pays hi (by rw [hk]; exact hv)).1
      rw [hk] at this; exact this
    · have : matureOne s a = s := by unfold matureOne; simp only [hv, if_neg hs]
      rw [this, this]

/-! ## nothing is overdue after an end-block -/

/-- after a slice: no unstaking record with that completion time is left -/
theorem matureSlice_clears {s : State} (hi : Inv s) (e : Int × List Addr)
    (he : ∀ a v, aget s.vals a = some v → v.status = .unstaking → v.unstTime = e.1 → a ∈ e.2) :
    ∀ b v, aget (matureSlice s e).vals b = some v → v.status = .unstaking → v.unstTime ≠ e.1 := by
  obtain ⟨i2, _⟩ := inv_matureSlice hi e he
  intro b v hv h1 h2
  have hm : b ∈ getQ (matureSlice s e) e.1 := (i2.queue e.1 b).mpr ⟨v, hv, h1, h2⟩
  have : getQ (matureSlice s e) e.1 = [] := by
    unfold matureSlice getQ
    simp
  rw [this] at hm; cases hm

theorem matureSlices_clear (l : List (Int × List Addr)) {s s0 : State} (hi : Inv s) (hi0 : Inv s0)
    (hsub : ∀ b v, aget s.vals b = some v → aget s0.vals b = some v)
    (hl : ∀ e ∈ l, e.2 = getQ s0 e.1) :
    ∀ e ∈ l, ∀ b v, aget (l.foldl matureSlice s).vals b = some v → v.status = .unstaking → v.unstTime ≠ e.1 := by
  induction l generalizing s with
  | nil => intro e he; cases he
  | cons e t ih =>
    simp only [List.foldl_cons]
    have he : ∀ a v, aget s.vals a = some v → v.status = .unstaking → v.unstTime = e.1 → a ∈ e.2 := by
      intro a v hv h1 h2
      rw [hl e List.mem_cons_self]
      exact (hi0.queue e.1 a).mpr ⟨v, hsub a v hv, h1, h2⟩
    obtain ⟨i1, sub1⟩ := inv_matureSlice hi e he
    have hsub1 : ∀ b v, aget (matureSlice s e).vals b = some v → aget s0.vals b = some v :=
      fun b v hb => hsub b v (sub1 b v hb)
    have hl' : ∀ e' ∈ t, e'.2 = getQ s0 e'.1 := fun e' he' => hl e' (List.mem_cons_of_mem _ he')
    intro e' he' b v hv h1
    rcases List.mem_cons.mp he' with x | x
    · subst x
      -- the record survived the later slices, so it was there right after this slice
      obtain ⟨_, sub2⟩ := inv_matureSlices t i1 hi0 hsub1 hl'
      -- records only disappear: use the general monotonicity through the fold
      have : aget (matureSlice s e').vals b = some v := by
        -- from the final state back to the state after the first slice
        have key : ∀ (l : List (Int × List Addr)) (s1 : State), Inv s1 →
            (∀ b v, aget s1.vals b = some v → aget s0.vals b = some v) → (∀ e ∈ l, e.2 = getQ s0 e.1) →
            ∀ b v, aget (l.foldl matureSlice s1).vals b = some v → aget s1.vals b = some v := by
          intro l
          induction l with
          | nil => intro s1 _ _ _ b v h; exact h
          | cons e2 t2 ih2 =>
            intro s1 j1 js jl b v h
            simp only [List.foldl_cons] at h
            have he2 : ∀ a v, aget s1.vals a = some v → v.status = .unstaking → v.unstTime = e2.1 → a ∈ e2.2 := by
              intro a v hv h1 h2
              rw [jl e2 List.mem_cons_self]
              exact (hi0.queue e2.1 a).mpr ⟨v, js a v hv, h1, h2⟩
            obtain ⟨k1, ksub⟩ := inv_matureSlice j1 e2 he2
            exact ksub b v (ih2 (matureSlice s1 e2) k1 (fun b v hb => js b v (ksub b v hb))
              (fun e he => jl e (List.mem_cons_of_mem _ he)) b v h)
        exact key t (matureSlice s e') i1 hsub1 hl' b v hv
      exact matureSlice_clears hi e' he b v this h1
    · exact ih i1 hsub1 hl' e' x b v hv h1

/-- `unstakeAllMatureValidators` at block time `t`: no unstaking record with completion time `≤ t` is left -/
theorem unstakeMature_noOverdue {s : State} (hi : Inv s) (t : Int) :
    ∀ b v, aget (unstakeMature s t).vals b = some v → v.status = .unstaking → t < v.unstTime := by
  intro b v hv h1
  by_cases hlt : t < v.unstTime
  · exact hlt
  · exfalso
    unfold unstakeMature at hv
    have hl : ∀ e ∈ s.unstQ.filter (fun e => decide (e.1 ≤ t)), e.2 = getQ s e.1 :=
      fun e he => getQ_of_mem hi.qNodup (List.mem_filter.mp he).1
    obtain ⟨_, sub⟩ := inv_matureSlices _ hi hi (fun _ _ h => h) hl
    have hv0 := sub b v hv
    -- the record was queued under its completion time in `s`
    have hq : b ∈ getQ s v.unstTime := (hi.queue v.unstTime b).mpr ⟨v, hv0, h1, rfl⟩
    unfold getQ at hq
    cases hg : aget s.unstQ v.unstTime with
    | none => rw [hg] at hq; cases hq
    | some l =>
      have hm : (v.unstTime, l) ∈ s.unstQ.filter (fun e => decide (e.1 ≤ t)) := by
        apply List.mem_filter.mpr
        exact ⟨aget_some_mem hg, by simp; omega⟩
      exact matureSlices_clear _ hi hi (fun _ _ h => h) hl _ hm b v hv h1 rfl

/-- a record that disappears in `unstakeAllMatureValidators` was unstaking and due -/
theorem unstakeMature_deletes_only_due {s : State} (hi : Inv s) (t : Int) {a : Addr} {v : Val}
    (hv : aget s.vals a = some v) (hgone : aget (unstakeMature s t).vals a = none) :
    v.status = .unstaking ∧ v.unstTime ≤ t := by
  -- generalise over the list of slices
  have key : ∀ (l : List (Int × List Addr)) (s1 : State), Inv s1 →
      (∀ b w, aget s1.vals b = some w → aget s.vals b = some w) → (∀ e ∈ l, e.2 = getQ s e.1 ∧ e.1 ≤ t) →
      aget s1.vals a = some v → aget (l.foldl matureSlice s1).vals a = none → v.status = .unstaking ∧ v.unstTime ≤ t := by
    intro l
    induction l with
    | nil => intro s1 _ _ _ h1 h2; simp at h2; rw [h1] at h2; cases h2
    | cons e rest ih =>
      intro s1 j1 js jl h1 h2
      simp only [List.foldl_cons] at h2
      have he : ∀ a v, aget s1.vals a = some v → v.status = .unstaking → v.unstTime = e.1 → a ∈ e.2 := by
        intro a v hv h1 h2
        rw [(jl e List.mem_cons_self).1]
        exact (hi.queue e.1 a).mpr ⟨v, js a v hv, h1, h2⟩
      obtain ⟨k1, ksub⟩ := inv_matureSlice j1 e he
      cases hm : aget (matureSlice s1 e).vals a with
      | some w =>
        have hw : w = v := by
          have := ksub a w hm; rw [h1] at this; injection this with this; exact this.symm
        subst hw
        exact ih (matureSlice s1 e) k1 (fun b w hb => js b w (ksub b w hb))
          (fun e' he' => jl e' (List.mem_cons_of_mem _ he')) hm h2
      | none =>
        -- deleted inside this slice: some `matureOne` found it unstaking; it sits in its own slot
        have hfold : ∀ (as : List Addr) (s2 : State), Inv s2 → aget s2.vals a = some v →
            aget (as.foldl matureOne s2).vals a = none → v.status = .unstaking ∧ a ∈ as := by
          intro as
          induction as with
          | nil => intro s2 _ g1 g2; simp at g2; rw [g1] at g2; cases g2
          | cons x xs ihx =>
            intro s2 j2 g1 g2
            simp only [List.foldl_cons] at g2
            rcases matureOne_vals s2 j2.keys x a with e1 | ⟨e1, _, w, hw, hws⟩
            · rw [g1] at e1
              obtain ⟨r1, r2⟩ := ihx (matureOne s2 x) (inv_matureOne j2 x) e1 g2
              exact ⟨r1, List.mem_cons_of_mem _ r2⟩
            · subst e1
              rw [g1] at hw; injection hw with hw; subst hw
              exact ⟨hws, List.mem_cons_self⟩
        have hms : aget (e.2.foldl matureOne s1).vals a = none := by
          unfold matureSlice at hm; exact hm
        obtain ⟨r1, r2⟩ := hfold e.2 s1 j1 h1 hms
        rw [(jl e List.mem_cons_self).1] at r2
        obtain ⟨w, hw, _, hw2⟩ := (hi.queue e.1 a).mp r2
        rw [js a v h1] at hw; injection hw with hw; subst hw
        exact ⟨r1, by rw [hw2]; exact (jl e List.mem_cons_self).2⟩
  unfold unstakeMature at hgone
  exact key _ s hi (fun _ _ h => h)
    (fun e he => ⟨getQ_of_mem hi.qNodup (List.mem_filter.mp he).1, by simpa using (List.mem_filter.mp he).2⟩) hv hgone

/-- records that are not unstaking are untouched by `unstakeAllMatureValidators` -/
theorem unstakeMature_keeps {s : State} (hi : Inv s) (t : Int) {a : Addr} {v : Val} (hv : aget s.vals a = some v)
    (hs : v.status ≠ .unstaking ∨ t < v.unstTime) : aget (unstakeMature s t).vals a = some v := by
  cases hg : aget (unstakeMature s t).vals a with
  | none =>
    obtain ⟨h1, h2⟩ := unstakeMature_deletes_only_due hi t hv hg
    rcases hs with e | e
    · exact absurd h1 e
    · omega
  | some w =>
    unfold unstakeMature at hg
    obtain ⟨_, sub⟩ := inv_matureSlices (s.unstQ.filter (fun e => decide (e.1 ≤ t))) hi hi (fun _ _ h => h)
      (fun e he => getQ_of_mem hi.qNodup (List.mem_filter.mp he).1)
    have := sub a w hg
    rw [hv] at this; rw [this]

/-! ## the end-block as a whole -/

theorem stable_incrementJailed {s : State} (hi : Inv s) (h : Int) : Stable s (incrementJailed s h) := by
  unfold incrementJailed
  refine stable_foldl _ (fun s p hs => ⟨inv_incrementJailedOne hs h p.2, ?_⟩) _ hi
  unfold incrementJailedOne
  split
  · simp only
    split
    · exact stable_forceUnstake hs _ _
    · exact Stable.of_vals rfl
  · exact Stable.refl s

/-- the validator-set loops of `UpdateTendermintValidators` do not touch records (no unstaked leftovers exist) -/
theorem tmLoops_vals {s1 : State} (hi : Inv s1) (h : Int) :
    ((sortAddrs (((sortStaked s1.stakedIdx).foldl (tmStep s1.params.maxValidators) { st := s1, remaining := s1.prevPower }).remaining.map (·.1))).foldl
      (leaverStep h) (((sortStaked s1.stakedIdx).foldl (tmStep s1.params.maxValidators) { st := s1, remaining := s1.prevPower }).st,
        ((sortStaked s1.stakedIdx).foldl (tmStep s1.params.maxValidators) { st := s1, remaining := s1.prevPower }).updates)).1.vals = s1.vals := by
  have f := tmFold_frame s1.params.maxValidators (sortStaked s1.stakedIdx) { st := s1, remaining := s1.prevPower }
  have i2 := inv_tmFold hi s1.params.maxValidators (sortStaked s1.stakedIdx) { st := s1, remaining := s1.prevPower } rfl
  generalize (sortStaked s1.stakedIdx).foldl (tmStep s1.params.maxValidators) { st := s1, remaining := s1.prevPower } = acc at f i2 ⊢
  have key : ∀ (l : List Addr) (x : State × List Update), Inv x.1 → (l.foldl (leaverStep h) x).1.vals = x.1.vals := by
    intro l
    induction l with
    | nil => intro x _; rfl
    | cons a t ih =>
      intro x hx
      simp only [List.foldl_cons]
      rw [ih _ (inv_leaverStep hx h a)]
      unfold leaverStep
      cases hv : aget x.1.vals a with
      | none => rfl
      | some v =>
        simp only
        rw [if_neg (hx.bondedAll a v hv)]
  rw [key _ (acc.st, acc.updates) i2]
  exact f.1

theorem updateTm_vals {s : State} (hi : Inv s) (h t : Int) :
    (updateTm s h t).1.vals = (if h % s.params.blocksPerSession = 0 then releaseWaiting s t else s).vals := by
  unfold updateTm
  simp only
  have h1 : Inv (if h % s.params.blocksPerSession = 0 then releaseWaiting s t else s) := by
    split
    · exact inv_releaseWaiting hi t
    · exact hi
  generalize (if h % s.params.blocksPerSession = 0 then releaseWaiting s t else s) = s1 at h1 ⊢
  have := tmLoops_vals h1 h
  generalize (sortAddrs (((sortStaked s1.stakedIdx).foldl (tmStep s1.params.maxValidators) { st := s1, remaining := s1.prevPower }).remaining.map (·.1))).foldl
      (leaverStep h) (((sortStaked s1.stakedIdx).foldl (tmStep s1.params.maxValidators) { st := s1, remaining := s1.prevPower }).st,
        ((sortStaked s1.stakedIdx).foldl (tmStep s1.params.maxValidators) { st := s1, remaining := s1.prevPower }).updates) = r at this ⊢
  obtain ⟨s2, ups⟩ := r
  simp only at this ⊢
  split <;> exact this

/-- `ReleaseWaitingValidators` touches only records of addresses in the waiting set -/
theorem releaseWaiting_vals_other {s : State} (hi : Inv s) (t : Int) {a : Addr} (ha : a ∉ s.waiting) :
    aget (releaseWaiting s t).vals a = aget s.vals a := by
  unfold releaseWaiting
  obtain ⟨h1, ⟨l', hl, he⟩, h3⟩ := getWaiting_spec s (sortAddrs s.waiting) [] (by simp) hi.keys
  generalize getWaiting s (sortAddrs s.waiting) [] = r at h1 he h3
  obtain ⟨vs, s1⟩ := r
  simp only at h1 he h3 ⊢
  have hs1 : s1.vals = s.vals := by
    rcases h3 with e | ⟨x, e⟩ <;> rw [e] <;> rfl
  have hmem : ∀ v ∈ vs, v.addr ∈ s.waiting := by
    intro v hv
    have : v.addr ∈ vs.map (·.addr) := List.mem_map.mpr ⟨v, hv, rfl⟩
    rw [he] at this
    simp at this
    exact (mem_sortAddrs _ _).mp (hl.subset this)
  have key : ∀ (l : List Val) (x : State), (∀ v ∈ l, v.addr ≠ a) → aget (l.foldl (fun s v => releaseOne s t v) x).vals a = aget x.vals a := by
    intro l
    induction l with
    | nil => intro x _; rfl
    | cons v rest ih =>
      intro x hx
      simp only [List.foldl_cons]
      rw [ih _ (fun w hw => hx w (List.mem_cons_of_mem _ hw))]
      exact releaseOne_vals_ne x t v (fun e => hx v List.mem_cons_self e.symm)
  rw [key vs s1 (fun v hv e => ha (e ▸ hmem v hv)), hs1]

/-- `EndBlocker`: nothing is overdue afterwards -/
theorem endBlock_noOverdue {s : State} (hi : Inv s) (h t : Int) :
    ∀ b v, aget (endBlock s h t).1.vals b = some v → v.status = .unstaking → t < v.unstTime := by
  unfold endBlock
  simp only
  have h1 := inv_updateTm (inv_incrementJailed hi h) h t
  generalize updateTm (incrementJailed s h) h t = r at h1 ⊢
  obtain ⟨s1, ups⟩ := r
  exact unstakeMature_noOverdue h1 t

/-- `EndBlocker`: what happens to a staked record.  It keeps its status unless the block ends a session and
the node is in the waiting set at that moment (asked to leave earlier, or forced by this very end-block) -/
theorem endBlock_staked {s : State} (hi : Inv s) (h t : Int) {a : Addr} {v : Val} (hv : aget s.vals a = some v)
    (hs : v.status = .staked)
    (hkeep : h % s.params.blocksPerSession ≠ 0 ∨ a ∉ (incrementJailed s h).waiting) :
    ∃ v', aget (endBlock s h t).1.vals a = some v' ∧ v'.status = .staked := by
  have i1 := inv_incrementJailed hi h
  obtain ⟨v1, hv1, hs1, _⟩ := stable_incrementJailed hi h a v hv
  have hp : (incrementJailed s h).params = s.params := by
    unfold incrementJailed
    have key : ∀ (l : List (Addr × Val)) (x : State), (l.foldl (fun s p => incrementJailedOne s h p.2) x).params = x.params := by
      intro l
      induction l with
      | nil => intro x; rfl
      | cons p t ih =>
        intro x
        simp only [List.foldl_cons]
        rw [ih]
        unfold incrementJailedOne
        split
        · simp only
          split
          · unfold forceUnstake
            simp only [setWaiting_params]
            unfold jailValidator
            cases aget x.vals p.2.addr with
            | none => rfl
            | some w =>
              simp only
              split
              · rfl
              · split
                · rfl
                · simp
          · rfl
        · rfl
    exact key _ _
  have hu := updateTm_vals i1 h t
  have h2 : aget (updateTm (incrementJailed s h) h t).1.vals a = some v1 := by
    rw [hu, hp]
    rcases hkeep with e | e
    · rw [if_neg e]; exact hv1
    · split
      · rw [releaseWaiting_vals_other i1 t e]; exact hv1
      · exact hv1
  have i2 := inv_updateTm i1 h t
  unfold endBlock
  simp only
  generalize updateTm (incrementJailed s h) h t = r at h2 i2 ⊢
  obtain ⟨s2, ups⟩ := r
  exact ⟨v1, unstakeMature_keeps i2 t h2 (Or.inl (by rw [hs1, hs]; simp)), by rw [hs1, hs]⟩

/-- `EndBlocker`: a record that is gone afterwards was due: either it was unstaking with completion time `≤ t`,
or it was staked, released in this very end-block and (zero unstaking time) due at once -/
theorem endBlock_deletes_only_due {s : State} (hi : Inv s) (h t : Int) {a : Addr} {v : Val}
    (hv : aget s.vals a = some v) (hgone : aget (endBlock s h t).1.vals a = none) :
    (v.status = .unstaking ∧ v.unstTime ≤ t) ∨
    (v.status = .staked ∧ h % s.params.blocksPerSession = 0 ∧ a ∈ (incrementJailed s h).waiting) := by
  have hb := hi.bondedAll a v hv
  cases hs : v.status with
  | unstaked => exact absurd hs hb
  | staked =>
    right
    refine ⟨rfl, ?_⟩
    by_cases e1 : h % s.params.blocksPerSession = 0
    · refine ⟨e1, ?_⟩
      by_cases e2 : a ∈ (incrementJailed s h).waiting
      · exact e2
      · obtain ⟨v', h1, _⟩ := endBlock_staked hi h t hv hs (Or.inr e2)
        rw [hgone] at h1; cases h1
    · obtain ⟨v', h1, _⟩ := endBlock_staked hi h t hv hs (Or.inl e1)
      rw [hgone] at h1; cases h1
  | unstaking =>
    left
    refine ⟨rfl, ?_⟩
    -- an unstaking record keeps status and completion time up to the mature loop
    have i1 := inv_incrementJailed hi h
    obtain ⟨v1, hv1, hs1, ht1, _⟩ := stable_incrementJailed hi h a v hv
    have hu := updateTm_vals i1 h t
    have h2 : aget (updateTm (incrementJailed s h) h t).1.vals a = some v1 := by
      rw [hu]
      split
      · -- releaseWaiting does not change a record that is not staked
        rename_i e1
        by_cases e2 : a ∈ (incrementJailed s h).waiting
        · -- processed by releaseOne: status is not staked, so only the waiting key is deleted
          have : ∀ (l : List Val) (x : State), aget x.vals a = some v1 →
              (∀ w ∈ l, aget x.vals w.addr = some w) → (l.map (·.addr)).Nodup →
              aget (l.foldl (fun s w => releaseOne s t w) x).vals a = some v1 := by
            intro l
            induction l with
            | nil => intro x hx _ _; exact hx
            | cons w rest ih =>
              intro x hx hcur hnd
              simp only [List.foldl_cons]
              simp only [List.map_cons, List.nodup_cons] at hnd
              apply ih
              · by_cases e : a = w.addr
                · have hw := hcur w List.mem_cons_self
                  rw [← e, hx] at hw; injection hw with hw; subst hw
                  unfold releaseOne
                  simp only
                  rw [if_neg (by rw [hs1, hs]; simp)]
                  exact hx
                · rw [releaseOne_vals_ne x t w e]; exact hx
              · intro w' hw'
                have hne : w'.addr ≠ w.addr := fun e => hnd.1 (List.mem_map.mpr ⟨w', hw', e⟩)
                rw [releaseOne_vals_ne x t w hne]
                exact hcur w' (List.mem_cons_of_mem _ hw')
              · exact hnd.2
          unfold releaseWaiting
          obtain ⟨g1, ⟨l', hl, he⟩, g3⟩ := getWaiting_spec (incrementJailed s h) (sortAddrs (incrementJailed s h).waiting) [] (by simp) i1.keys
          generalize getWaiting (incrementJailed s h) (sortAddrs (incrementJailed s h).waiting) [] = r at g1 he g3
          obtain ⟨vs, s1⟩ := r
          simp only at g1 he g3 ⊢
          have hs1v : s1.vals = (incrementJailed s h).vals := by
            rcases g3 with e | ⟨x, e⟩ <;> rw [e] <;> rfl
          have hnd : (vs.map (·.addr)).Nodup := by
            rw [he]; simp
            exact (nodup_sortAddrs _ i1.waitNodup).sublist hl
          exact this vs s1 (by rw [hs1v]; exact hv1) (fun w hw => by rw [hs1v]; exact g1 w hw) hnd
        · rw [releaseWaiting_vals_other i1 t e2]; exact hv1
      · exact hv1
    have i2 := inv_updateTm i1 h t
    unfold endBlock at hgone
    simp only at hgone
    generalize updateTm (incrementJailed s h) h t = r at h2 i2 hgone
    obtain ⟨s2, ups⟩ := r
    obtain ⟨_, g⟩ := unstakeMature_deletes_only_due i2 t h2 hgone
    omega

end Nodes
