import PocketModel.Ledger.Apps
/-!
# Lemmas about the applications ledger model

* association-list facts (`get`/`put`/`del`, key uniqueness);
* `sumBonded` under `put`/`del`;
* the pool invariant: every operation keeps `excess = pool − Σ bonded tokens`, except `donate`.
-/
namespace Apps

/-! ## Association lists -/
section AMap
variable {κ : Type} {α : Type} [DecidableEq κ]

def NodupKeys (m : List (κ × α)) : Prop := (m.map (·.1)).Nodup

@[simp] theorem get_nil (k : κ) : get ([] : List (κ × α)) k = none := rfl

theorem get_cons (k' : κ) (v : α) (m : List (κ × α)) (k : κ) :
    get ((k', v) :: m) k = if k' = k then some v else get m k := rfl

theorem mem_del {m : List (κ × α)} {k : κ} {e : κ × α} : e ∈ del m k ↔ e ∈ m ∧ e.1 ≠ k := by
  simp [del]

theorem get_del (m : List (κ × α)) (k k' : κ) : get (del m k) k' = if k = k' then none else get m k' := by
  induction m with
  | nil => simp [del]
  | cons e m ih =>
    obtain ⟨a, v⟩ := e
    by_cases h : a = k
    · subst h
      have : del ((a, v) :: m) a = del m a := by simp [del]
      rw [this, ih, get_cons]
      by_cases h2 : a = k' <;> simp [h2]
    · have : del ((a, v) :: m) k = (a, v) :: del m k := by simp [del, h]
      rw [this, get_cons, ih, get_cons]
      by_cases h2 : a = k'
      · subst h2; simp [Ne.symm h]
      · simp [h2]

theorem get_put (m : List (κ × α)) (k : κ) (v : α) (k' : κ) :
    get (put m k v) k' = if k = k' then some v else get m k' := by
  unfold put
  rw [get_cons, get_del]
  by_cases h : k = k' <;> simp [h]

theorem get_put_self (m : List (κ × α)) (k : κ) (v : α) : get (put m k v) k = some v := by
  rw [get_put]; simp

theorem get_put_ne (m : List (κ × α)) {k k' : κ} (v : α) (h : k ≠ k') : get (put m k v) k' = get m k' := by
  rw [get_put]; simp [h]

theorem get_del_self (m : List (κ × α)) (k : κ) : get (del m k) k = none := by
  rw [get_del]; simp

theorem get_del_ne (m : List (κ × α)) {k k' : κ} (h : k ≠ k') : get (del m k) k' = get m k' := by
  rw [get_del]; simp [h]

theorem get_some_mem {m : List (κ × α)} {k : κ} {v : α} (h : get m k = some v) : (k, v) ∈ m := by
  induction m with
  | nil => simp at h
  | cons e m ih =>
    obtain ⟨a, w⟩ := e
    rw [get_cons] at h
    by_cases h2 : a = k
    · simp [h2] at h; subst h2; subst h; exact List.mem_cons_self
    · simp [h2] at h; exact List.mem_cons_of_mem _ (ih h)

theorem get_none_of_not_mem_keys {m : List (κ × α)} {k : κ} (h : k ∉ m.map (·.1)) : get m k = none := by
  induction m with
  | nil => rfl
  | cons e m ih =>
    obtain ⟨a, w⟩ := e
    simp at h
    rw [get_cons]
    simp [Ne.symm h.1]
    exact ih (by simpa using h.2)

theorem mem_get_of_nodup {m : List (κ × α)} (hn : NodupKeys m) {k : κ} {v : α} (h : (k, v) ∈ m) : get m k = some v := by
  induction m with
  | nil => simp at h
  | cons e m ih =>
    obtain ⟨a, w⟩ := e
    unfold NodupKeys at hn
    simp at hn
    rw [get_cons]
    rcases List.mem_cons.mp h with h1 | h1
    · cases h1; simp
    · have : a ≠ k := by
        intro e; subst e
        exact hn.1 v h1
      simp [this]
      exact ih hn.2 h1

theorem nodup_del {m : List (κ × α)} (h : NodupKeys m) (k : κ) : NodupKeys (del m k) := by
  unfold NodupKeys del at *
  exact (List.Nodup.sublist (List.Sublist.map _ List.filter_sublist) h)

theorem not_mem_keys_del (m : List (κ × α)) (k : κ) : k ∉ (del m k).map (·.1) := by
  intro h
  obtain ⟨e, he, hk⟩ := List.mem_map.mp h
  exact (mem_del.mp he).2 hk

theorem nodup_put {m : List (κ × α)} (h : NodupKeys m) (k : κ) (v : α) : NodupKeys (put m k v) := by
  unfold NodupKeys put
  simp only [List.map_cons]
  exact List.nodup_cons.mpr ⟨not_mem_keys_del m k, nodup_del h k⟩

theorem del_del (m : List (κ × α)) (k : κ) : del (del m k) k = del m k := by
  simp [del, List.filter_filter]

theorem del_put_self (m : List (κ × α)) (k : κ) (v : α) : del (put m k v) k = del m k := by
  unfold put
  have : del ((k, v) :: del m k) k = del (del m k) k := by simp [del]
  rw [this, del_del]

theorem del_of_get_none {m : List (κ × α)} {k : κ} (h : get m k = none) : del m k = m := by
  induction m with
  | nil => rfl
  | cons e m ih =>
    obtain ⟨a, w⟩ := e
    rw [get_cons] at h
    by_cases h2 : a = k
    · simp [h2] at h
    · simp [h2] at h
      have : del ((a, w) :: m) k = (a, w) :: del m k := by simp [del, h2]
      rw [this, ih h]
end AMap

/-! ## `sumBonded` -/

/-- contribution of a record to the bonded sum -/
def wt (app : App) : Int := if bonded app then app.tokens else 0

def wtOpt : Option App → Int
  | some a => wt a
  | none => 0

theorem sumBonded_cons (a : Addr) (app : App) (m : List (Addr × App)) :
    sumBonded ((a, app) :: m) = wt app + sumBonded m := rfl

theorem sumBonded_del (m : List (Addr × App)) (hn : NodupKeys m) (a : Addr) :
    sumBonded (del m a) = sumBonded m - wtOpt (get m a) := by
  induction m with
  | nil => simp [del, sumBonded, wtOpt]
  | cons e m ih =>
    obtain ⟨k, app⟩ := e
    unfold NodupKeys at hn
    simp at hn
    by_cases h : k = a
    · subst h
      have h1 : del ((k, app) :: m) k = del m k := by simp [del]
      have h2 : get m k = none := get_none_of_not_mem_keys (by simpa using hn.1)
      rw [h1, del_of_get_none h2, get_cons, sumBonded_cons]
      simp [wtOpt]
      omega
    · have h1 : del ((k, app) :: m) a = (k, app) :: del m a := by simp [del, h]
      rw [h1, sumBonded_cons, sumBonded_cons, ih hn.2, get_cons]
      simp [h]
      omega

theorem sumBonded_put (m : List (Addr × App)) (hn : NodupKeys m) (a : Addr) (app : App) :
    sumBonded (put m a app) = sumBonded m - wtOpt (get m a) + wt app := by
  unfold put
  rw [sumBonded_cons, sumBonded_del m hn]
  omega

/-- all stakes are non-negative -/
def NonNeg (m : List (Addr × App)) : Prop := ∀ e ∈ m, 0 ≤ e.2.tokens

theorem nonneg_del {m : List (Addr × App)} (h : NonNeg m) (a : Addr) : NonNeg (del m a) :=
  fun e he => h e (mem_del.mp he).1

theorem nonneg_put {m : List (Addr × App)} (h : NonNeg m) (a : Addr) {app : App} (ha : 0 ≤ app.tokens) :
    NonNeg (put m a app) := by
  intro e he
  rcases List.mem_cons.mp he with h1 | h1
  · subst h1; exact ha
  · exact nonneg_del h a e h1

theorem nonneg_get {m : List (Addr × App)} (h : NonNeg m) {a : Addr} {app : App} (hg : get m a = some app) :
    0 ≤ app.tokens := h _ (get_some_mem hg)

theorem wt_nonneg {app : App} (h : 0 ≤ app.tokens) : 0 ≤ wt app := by
  unfold wt; split <;> omega

theorem sumBonded_nonneg {m : List (Addr × App)} (h : NonNeg m) : 0 ≤ sumBonded m := by
  induction m with
  | nil => simp [sumBonded]
  | cons e m ih =>
    obtain ⟨k, app⟩ := e
    rw [sumBonded_cons]
    have h1 : 0 ≤ wt app := wt_nonneg (h (k, app) List.mem_cons_self)
    have h2 := ih (fun e he => h e (List.mem_cons_of_mem _ he))
    omega

theorem wt_le_sumBonded {m : List (Addr × App)} (h : NonNeg m) {a : Addr} {app : App} (hg : get m a = some app) :
    wt app ≤ sumBonded m := by
  induction m with
  | nil => simp at hg
  | cons e m ih =>
    obtain ⟨k, x⟩ := e
    rw [sumBonded_cons]
    rw [get_cons] at hg
    have hm : NonNeg m := fun e he => h e (List.mem_cons_of_mem _ he)
    have hx : 0 ≤ wt x := wt_nonneg (h (k, x) List.mem_cons_self)
    by_cases hk : k = a
    · simp [hk] at hg; subst hg
      have := sumBonded_nonneg hm
      omega
    · simp [hk] at hg
      have := ih hm hg
      omega

/-! ## Well-formedness and the pool invariant -/

/-- Record keys are unique, stakes non-negative, and the pool covers the bonded stakes. -/
structure WF (s : St) : Prop where
  nodup : NodupKeys s.apps
  nonneg : NonNeg s.apps
  covers : 0 ≤ excess s

/-- C20's invariant: the pool holds exactly the bonded stakes. -/
def PoolInv (s : St) : Prop := WF s ∧ excess s = 0

/-- coins a `donate` operation adds to the pool -/
def donated (s : St) : Op → Int
  | .donate src amt => if amt ≤ 0 ∨ balOf s src < amt then 0 else amt
  | _ => 0

/-! ### projections of the store primitives -/

@[simp] theorem setApplication_apps (s : St) (a : Addr) (app : App) : (setApplication s a app).apps = put s.apps a app := by
  unfold setApplication; split <;> split <;> rfl
@[simp] theorem setApplication_pool (s : St) (a : Addr) (app : App) : (setApplication s a app).pool = s.pool := by
  unfold setApplication; split <;> split <;> rfl
@[simp] theorem setStaked_apps (s : St) (a : Addr) (app : App) : (setStaked s a app).apps = s.apps := by
  unfold setStaked; split <;> rfl
@[simp] theorem setStaked_pool (s : St) (a : Addr) (app : App) : (setStaked s a app).pool = s.pool := by
  unfold setStaked; split <;> rfl
@[simp] theorem delStaked_apps (s : St) (a : Addr) (app : App) : (delStaked s a app).apps = s.apps := rfl
@[simp] theorem delStaked_pool (s : St) (a : Addr) (app : App) : (delStaked s a app).pool = s.pool := rfl
@[simp] theorem deleteApplication_apps (s : St) (a : Addr) : (deleteApplication s a).apps = del s.apps a := rfl
@[simp] theorem deleteApplication_pool (s : St) (a : Addr) : (deleteApplication s a).pool = s.pool := rfl

theorem toPool_spec {s s1 : St} {a : Addr} {amt : Int} (h : toPool s a amt = some s1) :
    s1.apps = s.apps ∧ s1.pool = s.pool + amt ∧ 0 ≤ amt ∧ amt ≤ balOf s a := by
  unfold toPool at h
  split at h
  · simp at h
  · split at h
    · simp at h
    · simp at h; subst h; simp; omega

theorem fromPool_spec {s s1 : St} {a : Addr} {amt : Int} (h : fromPool s a amt = some s1) :
    s1.apps = s.apps ∧ s1.pool = s.pool - amt := by
  unfold fromPool at h
  split at h
  · simp at h
  · simp at h; subst h; simp

theorem deductFee_spec (s : St) (signer : Addr) (fee : Int) :
    (deductFee s signer fee).2.apps = s.apps ∧ (deductFee s signer fee).2.pool = s.pool
    ∧ (deductFee s signer fee).2.idx = s.idx ∧ (deductFee s signer fee).2.queue = s.queue
    ∧ (deductFee s signer fee).2.params = s.params ∧ (deductFee s signer fee).2.time = s.time := by
  unfold deductFee
  split
  · simp
  · split <;> simp

/-- A step described by "pool moves by `δ`, record at `a` becomes `o`" changes the excess by
`δ − weight(new) + weight(old)`. -/
theorem excess_put {s s' : St} (hn : NodupKeys s.apps) (a : Addr) (app : App) (δ : Int)
    (hp : s'.pool = s.pool + δ) (ha : s'.apps = put s.apps a app) :
    excess s' = excess s + δ - wt app + wtOpt (get s.apps a) := by
  unfold excess
  rw [hp, ha, sumBonded_put _ hn]
  omega

theorem excess_del {s s' : St} (hn : NodupKeys s.apps) (a : Addr) (δ : Int)
    (hp : s'.pool = s.pool + δ) (ha : s'.apps = del s.apps a) :
    excess s' = excess s + δ + wtOpt (get s.apps a) := by
  unfold excess
  rw [hp, ha, sumBonded_del _ hn]
  omega

/-- Summary of what a sub-step does to the part of the state C20 is about. -/
structure Keeps (s s' : St) : Prop where
  wf : WF s → WF s'
  ex : WF s → excess s' = excess s

theorem Keeps.refl (s : St) : Keeps s s := ⟨id, fun _ => rfl⟩

theorem Keeps.trans {a b c : St} (h1 : Keeps a b) (h2 : Keeps b c) : Keeps a c :=
  ⟨fun w => h2.wf (h1.wf w), fun w => by rw [h2.ex (h1.wf w), h1.ex w]⟩

/-- Same records, same pool. -/
theorem Keeps.of_same {s s' : St} (ha : s'.apps = s.apps) (hp : s'.pool = s.pool) : Keeps s s' := by
  have he : excess s' = excess s := by unfold excess; rw [ha, hp]
  exact ⟨fun w => ⟨ha ▸ w.nodup, ha ▸ w.nonneg, he ▸ w.covers⟩, fun _ => he⟩

/-- Replace / create the record at `a`, pool moves by the change of weight. -/
theorem Keeps.of_put {s s' : St} (a : Addr) (app : App) (δ : Int)
    (hp : s'.pool = s.pool + δ) (ha : s'.apps = put s.apps a app)
    (htok : WF s → 0 ≤ app.tokens) (hδ : δ = wt app - wtOpt (get s.apps a)) : Keeps s s' := by
  have he : WF s → excess s' = excess s := fun w => by
    rw [excess_put w.nodup a app δ hp ha, hδ]; omega
  exact ⟨fun w => ⟨ha ▸ nodup_put w.nodup a app, ha ▸ nonneg_put w.nonneg a (htok w), (he w) ▸ w.covers⟩, he⟩

/-- Delete the record at `a`, pool moves by minus its weight. -/
theorem Keeps.of_del {s s' : St} (a : Addr) (δ : Int)
    (hp : s'.pool = s.pool + δ) (ha : s'.apps = del s.apps a)
    (hδ : δ = - wtOpt (get s.apps a)) : Keeps s s' := by
  have he : WF s → excess s' = excess s := fun w => by
    rw [excess_del w.nodup a δ hp ha, hδ]; omega
  exact ⟨fun w => ⟨ha ▸ nodup_del w.nodup a, ha ▸ nonneg_del w.nonneg a, (he w) ▸ w.covers⟩, he⟩

end Apps
