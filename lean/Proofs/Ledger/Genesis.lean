import Proofs.Ledger.Bank
/-!
# Genesis establishes `supply = Σ balances` (C17's genesis hypothesis, discharged for the module
genesis code as it is)
-/
namespace Ledger
open Accounts
namespace Bank

theorem genesisAuth_good (accts : Accounts) (supply : Option Int)
    (hn : ∀ p ∈ accts, 0 ≤ p.2.bal) (hs : supply = none ∨ supply = some accts.total) :
    Good (genesisAuth accts supply) := by
  refine ⟨?_, hn⟩
  rcases hs with h | h <;> simp [genesisAuth, SupplyInv, h]

/-- Funding an *empty* pool keeps the invariant. -/
theorem genesisFundPool_good (mt : ModTable) (b : Bank) (pool : String) (staked : Int) (hg : Good b)
    (hst : 0 ≤ staked) (hz : ∀ mi, mt.find pool = some mi → b.balOf mi.addr = 0) :
    Good (genesisFundPool mt b pool staked) := by
  have g1 := getModuleAccount_good mt b pool hg
  have hb := getModuleAccount_balOf mt b pool
  unfold genesisFundPool
  rcases hgm : getModuleAccount mt b pool with ⟨b1, r⟩
  rw [hgm] at g1 hb
  cases r with
  | missing => exact g1
  | broken => exact g1
  | ok mi =>
    have hf := getModuleAccount_ok_find' mt b pool b1 mi hgm
    have h0 : b1.balOf mi.addr = 0 := by rw [hb]; exact hz mi hf
    simp only [h0, if_true]
    refine ⟨?_, ?_⟩
    · simp only [SupplyInv, total_set]
      have := g1.1
      simp only [SupplyInv, Bank.balOf] at this h0
      rw [h0]; simp; omega
    · intro p hp
      rcases mem_set _ _ _ _ hp with h | h
      · exact g1.2 p h
      · subst h; simpa using hst
where
  getModuleAccount_ok_find' (mt : ModTable) (b : Bank) (m : String) (b1 : Bank) (mi : ModInfo)
      (h : getModuleAccount mt b m = (b1, .ok mi)) : mt.find m = some mi := by
    unfold getModuleAccount at h
    cases hf : mt.find m with
    | none => simp [hf] at h
    | some mi' =>
      simp only [hf] at h
      cases ha : b.accts.get mi'.addr with
      | none => simp [ha] at h; rw [h.2]
      | some acc =>
        simp only [ha] at h
        split at h
        · simp at h; rw [h.2]
        · simp at h

/-- Funding a pool does not touch other balances. -/
theorem genesisFundPool_balOf_other (mt : ModTable) (b : Bank) (pool : String) (staked : Int) (c : Addr)
    (hc : ∀ mi, mt.find pool = some mi → mi.addr ≠ c) :
    (genesisFundPool mt b pool staked).balOf c = b.balOf c := by
  have hb := getModuleAccount_balOf mt b pool c
  unfold genesisFundPool
  rcases hgm : getModuleAccount mt b pool with ⟨b1, r⟩
  rw [hgm] at hb
  cases r with
  | missing => exact hb
  | broken => exact hb
  | ok mi =>
    have hf := genesisFundPool_good.getModuleAccount_ok_find' mt b pool b1 mi hgm
    have hne := hc mi hf
    simp only
    split
    · simp only [Bank.balOf, balOf_set, hne, if_false]; exact hb
    · exact hb

/-- **Genesis theorem.**  Non-negative genesis accounts, a genesis supply that is empty or equals
their sum, no genesis account at a module address, two distinct pools: after the module genesis
sequence of app.go, `supply = Σ balances`. -/
theorem genesis_good (mt : ModTable) (accts : Accounts) (supply : Option Int) (nodePool appPool : String)
    (stakedNodes stakedApps daoTokens : Int)
    (hn : ∀ p ∈ accts, 0 ≤ p.2.bal) (hs : supply = none ∨ supply = some accts.total)
    (hsn : 0 ≤ stakedNodes) (hsa : 0 ≤ stakedApps)
    (hfree : ∀ m mi, mt.find m = some mi → accts.get mi.addr = none)
    (hdist : ∀ m1 m2, mt.find nodePool = some m1 → mt.find appPool = some m2 → m1.addr ≠ m2.addr) :
    Good (genesis mt accts supply nodePool appPool stakedNodes stakedApps daoTokens) := by
  unfold genesis genesisDAO
  apply mintCoins_good
  have g0 := genesisAuth_good accts supply hn hs
  have z0 : ∀ m mi, mt.find m = some mi → (genesisAuth accts supply).balOf mi.addr = 0 := by
    intro m mi hf
    simp [genesisAuth, Bank.balOf, Accounts.balOf, hfree m mi hf]
  have g1 := genesisFundPool_good mt _ nodePool stakedNodes g0 hsn (fun mi hf => z0 nodePool mi hf)
  apply genesisFundPool_good mt _ appPool stakedApps g1 hsa
  intro mi hf
  rw [genesisFundPool_balOf_other]
  · exact z0 appPool mi hf
  · intro m1 h1; exact hdist m1 mi h1 hf

/-- The other branch of the pool genesis — a genesis document that already carries the pool's coins —
counts them twice: the invariant does not survive it.  (Not reachable from a JSON genesis:
`auth.ValidateGenesis` dereferences the public key of every genesis account, and a module account
has none.) -/
theorem genesis_provided_pool_double_counts :
    ∃ (mt : ModTable) (b : Bank), Good b ∧ ¬ SupplyInv (genesisFundPool mt b "pool" 5) := by
  refine ⟨[⟨"pool", [1], true, true⟩], ⟨[([1], ⟨5, some "pool"⟩)], 5⟩, ?_, ?_⟩
  · constructor
    · decide
    · intro p hp; simp at hp; subst hp; decide
  · decide

end Bank
end Ledger
