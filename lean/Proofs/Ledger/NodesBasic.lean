import PocketModel.Ledger.Nodes
import PocketModel.Ledger.NodesSpec
/-!
# Basic lemmas for the nodes ledger: association lists, list-sets, sums
-/
namespace Nodes

section Assoc
variable {κ : Type} [DecidableEq κ] {α : Type}

@[simp] theorem aget_nil (k : κ) : aget ([] : List (κ × α)) k = none := rfl

theorem aget_cons (k' : κ) (v : α) (t : List (κ × α)) (k : κ) :
    aget ((k', v) :: t) k = if k' = k then some v else aget t k := rfl

theorem aget_adel (l : List (κ × α)) (k k' : κ) :
    aget (adel l k) k' = if k' = k then none else aget l k' := by
  induction l with
  | nil => simp [adel]
  | cons p t ih =>
    obtain ⟨a, v⟩ := p
    unfold adel at ih ⊢
    by_cases h : a = k
    · subst h
      simp only [List.filter_cons, ne_eq, not_true_eq_false, decide_false, Bool.false_eq_true, if_false]
      rw [ih, aget_cons]
      by_cases h2 : k' = a
      · simp [h2]
      · have : ¬ a = k' := fun e => h2 e.symm
        simp [h2, this]
    · have hd : decide ((a, v).1 ≠ k) = true := by simp [h]
      rw [List.filter_cons, if_pos hd, aget_cons, aget_cons, ih]
      by_cases h2 : a = k'
      · subst h2; simp [h]
      · simp [h2]

theorem aget_aset (l : List (κ × α)) (k : κ) (v : α) (k' : κ) :
    aget (aset l k v) k' = if k' = k then some v else aget l k' := by
  unfold aset
  rw [aget_cons, aget_adel]
  by_cases h : k = k'
  · subst h; simp
  · have : ¬ k' = k := fun e => h e.symm
    simp [h, this]

@[simp] theorem aget_aset_self (l : List (κ × α)) (k : κ) (v : α) : aget (aset l k v) k = some v := by
  simp [aget_aset]

theorem aget_aset_ne (l : List (κ × α)) (k : κ) (v : α) {k' : κ} (h : k' ≠ k) :
    aget (aset l k v) k' = aget l k' := by simp [aget_aset, h]

@[simp] theorem aget_adel_self (l : List (κ × α)) (k : κ) : aget (adel l k) k = none := by
  simp [aget_adel]

theorem aget_adel_ne (l : List (κ × α)) (k : κ) {k' : κ} (h : k' ≠ k) :
    aget (adel l k) k' = aget l k' := by simp [aget_adel, h]

theorem aget_some_mem {l : List (κ × α)} {k : κ} {v : α} (h : aget l k = some v) : (k, v) ∈ l := by
  induction l with
  | nil => simp at h
  | cons p t ih =>
    obtain ⟨a, w⟩ := p
    rw [aget_cons] at h
    by_cases e : a = k
    · simp [e] at h; subst e; subst h; exact List.mem_cons_self
    · simp [e] at h; exact List.mem_cons_of_mem _ (ih h)

theorem aget_none_iff {l : List (κ × α)} {k : κ} : aget l k = none ↔ k ∉ l.map (·.1) := by
  induction l with
  | nil => simp
  | cons p t ih =>
    obtain ⟨a, w⟩ := p
    rw [aget_cons]
    by_cases e : a = k
    · simp [e]
    · have : ¬ k = a := fun x => e x.symm
      simp [e, ih, this]

theorem mem_keys_of_aget {l : List (κ × α)} {k : κ} {v : α} (h : aget l k = some v) : k ∈ l.map (·.1) := by
  have := aget_some_mem h
  exact List.mem_map.mpr ⟨(k, v), this, rfl⟩

/-- with distinct keys, membership determines lookup -/
theorem aget_of_mem {l : List (κ × α)} (hn : (l.map (·.1)).Nodup) {k : κ} {v : α} (h : (k, v) ∈ l) :
    aget l k = some v := by
  induction l with
  | nil => simp at h
  | cons p t ih =>
    obtain ⟨a, w⟩ := p
    simp only [List.map_cons, List.nodup_cons] at hn
    rw [aget_cons]
    rcases List.mem_cons.mp h with e | e
    · injection e with e1 e2; subst e1; subst e2; simp
    · have : a ≠ k := by
        intro x; subst x
        exact hn.1 (List.mem_map.mpr ⟨(a, v), e, rfl⟩)
      simp [this, ih hn.2 e]

theorem keys_adel (l : List (κ × α)) (k : κ) :
    (adel l k).map (·.1) = (l.map (·.1)).filter (fun x => decide (x ≠ k)) := by
  unfold adel
  rw [List.filter_map]
  rfl

theorem nodup_adel {l : List (κ × α)} (hn : (l.map (·.1)).Nodup) (k : κ) : ((adel l k).map (·.1)).Nodup := by
  rw [keys_adel]; exact hn.filter _

theorem nodup_aset {l : List (κ × α)} (hn : (l.map (·.1)).Nodup) (k : κ) (v : α) :
    ((aset l k v).map (·.1)).Nodup := by
  unfold aset
  simp only [List.map_cons, List.nodup_cons]
  refine ⟨?_, nodup_adel hn k⟩
  rw [keys_adel]; simp

theorem mem_adel {l : List (κ × α)} {k : κ} {p : κ × α} : p ∈ adel l k ↔ p ∈ l ∧ p.1 ≠ k := by
  simp [adel]

theorem mem_sins {l : List κ} {x y : κ} : y ∈ sins l x ↔ y = x ∨ y ∈ l := by
  unfold sins
  by_cases h : x ∈ l
  · simp only [if_pos h]
    constructor
    · exact Or.inr
    · rintro (e | e)
      · exact e ▸ h
      · exact e
  · simp [if_neg h]

theorem mem_sdel {l : List κ} {x y : κ} : y ∈ sdel l x ↔ y ∈ l ∧ y ≠ x := by
  simp [sdel]

theorem nodup_sins {l : List κ} (h : l.Nodup) (x : κ) : (sins l x).Nodup := by
  unfold sins
  by_cases e : x ∈ l
  · simp [e, h]
  · simp [e, h]

theorem nodup_sdel {l : List κ} (h : l.Nodup) (x : κ) : (sdel l x).Nodup := h.filter _

theorem mem_foldl_sins {β : Type} (f : β → κ) (cs : List β) (l : List κ) (y : κ) :
    y ∈ cs.foldl (fun l c => sins l (f c)) l ↔ y ∈ l ∨ ∃ c ∈ cs, y = f c := by
  induction cs generalizing l with
  | nil => simp
  | cons c t ih =>
    simp only [List.foldl_cons]
    rw [ih, mem_sins]
    constructor
    · rintro ((e | e) | ⟨c', hc, e⟩)
      · exact Or.inr ⟨c, List.mem_cons_self, e⟩
      · exact Or.inl e
      · exact Or.inr ⟨c', List.mem_cons_of_mem _ hc, e⟩
    · rintro (e | ⟨c', hc, e⟩)
      · exact Or.inl (Or.inr e)
      · rcases List.mem_cons.mp hc with x | x
        · subst x; exact Or.inl (Or.inl e)
        · exact Or.inr ⟨c', x, e⟩

theorem mem_foldl_sdel {β : Type} (f : β → κ) (cs : List β) (l : List κ) (y : κ) :
    y ∈ cs.foldl (fun l c => sdel l (f c)) l ↔ y ∈ l ∧ ∀ c ∈ cs, y ≠ f c := by
  induction cs generalizing l with
  | nil => simp
  | cons c t ih =>
    simp only [List.foldl_cons]
    rw [ih, mem_sdel]
    constructor
    · rintro ⟨⟨h1, h2⟩, h3⟩
      refine ⟨h1, ?_⟩
      intro c' hc
      rcases List.mem_cons.mp hc with x | x
      · subst x; exact h2
      · exact h3 c' x
    · rintro ⟨h1, h2⟩
      exact ⟨⟨h1, h2 c List.mem_cons_self⟩, fun c' hc => h2 c' (List.mem_cons_of_mem _ hc)⟩

theorem nodup_foldl_sins {β : Type} (f : β → κ) (cs : List β) (l : List κ) (h : l.Nodup) :
    (cs.foldl (fun l c => sins l (f c)) l).Nodup := by
  induction cs generalizing l with
  | nil => exact h
  | cons c t ih => exact ih _ (nodup_sins h _)

theorem nodup_foldl_sdel {β : Type} (f : β → κ) (cs : List β) (l : List κ) (h : l.Nodup) :
    (cs.foldl (fun l c => sdel l (f c)) l).Nodup := by
  induction cs generalizing l with
  | nil => exact h
  | cons c t ih => exact ih _ (nodup_sdel h _)

end Assoc

/-! ## Sums over the record list -/
namespace Spec

/-- what one record contributes to the pool -/
def contrib (v : Val) : Int := if bonded v then v.tokens else 0

def contribOpt : Option Val → Int
  | some v => contrib v
  | none => 0

theorem sumBonded_cons (p : Addr × Val) (t : List (Addr × Val)) :
    sumBonded (p :: t) = contrib p.2 + sumBonded t := by
  simp [sumBonded, contrib]

@[simp] theorem sumBonded_nil : sumBonded [] = 0 := rfl

theorem sumBonded_adel (l : List (Addr × Val)) (hn : (l.map (·.1)).Nodup) (a : Addr) :
    sumBonded (adel l a) = sumBonded l - contribOpt (aget l a) := by
  induction l with
  | nil => simp [adel, contribOpt]
  | cons p t ih =>
    obtain ⟨k, v⟩ := p
    simp only [List.map_cons, List.nodup_cons] at hn
    by_cases h : k = a
    · subst h
      have hd : adel ((k, v) :: t) k = adel t k := by simp [adel]
      rw [hd, ih hn.2, sumBonded_cons, aget_cons]
      have : aget t k = none := aget_none_iff.mpr hn.1
      simp [this, contribOpt]; omega
    · have hd : adel ((k, v) :: t) a = (k, v) :: adel t a := by simp [adel, h]
      rw [hd, sumBonded_cons, sumBonded_cons, ih hn.2, aget_cons]
      simp [h]; omega

theorem sumBonded_aset (l : List (Addr × Val)) (hn : (l.map (·.1)).Nodup) (a : Addr) (v : Val) :
    sumBonded (aset l a v) = sumBonded l - contribOpt (aget l a) + contrib v := by
  unfold aset
  rw [sumBonded_cons, sumBonded_adel l hn a]
  simp; omega

end Spec
end Nodes
