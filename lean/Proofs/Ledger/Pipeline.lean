import Proofs.Ledger.Ante
/-!
# DeliverTx pipeline lemmas: rejection leaves the state alone, the replay guard (C15 fee_once, C16)
-/
namespace Ledger

variable {S : Scheme} {Ω : Type}

/-- Hypothesis on the message handlers: no handler returns an ante-level result (codespace `auth`,
code below `AnteHandlerMaxError`).  In /repo the `auth` error constructors are used by
`x/auth/ante.go` only (checked by the C16 facts step on every run). -/
def NoAnteCode (hk : Hooks S Ω) : Prop :=
  ∀ env w m pk, (hk.handler env w m pk).2.anteLevel = false

/-- A transaction that did not get past the ante handler leaves the chain state untouched. -/
theorem not_passed_unchanged (hk : Hooks S Ω) (env : Env) (n : Node S Ω) (raw : Bytes)
    (h : antePasses hk env n raw = false) : (deliverTx hk env n raw).1.world = n.world := by
  unfold antePasses at h
  unfold deliverTx
  simp only
  split
  · rfl
  · rename_i tx hd
    simp only [hd] at h
    by_cases hdup : (n.cache.contains raw && env.redup) = true
    · rw [if_pos hdup]
    · rw [if_neg hdup]
      rw [if_neg hdup] at h
      unfold runTx
      split
      · rfl
      · rename_i hb
        simp only [hb] at h
        split
        · rfl
        · rename_i w' pk hc
          rw [hc] at h
          simp at h

/-- What getting past the ante handler means. -/
theorem passed_iff (hk : Hooks S Ω) (env : Env) (n : Node S Ω) (raw : Bytes)
    (h : antePasses hk env n raw = true) :
    ∃ tx w' pk, hk.decode raw = some tx ∧ tx.msg.basic = none ∧
      (n.cache.contains raw && env.redup) = false ∧
      anteHandler S hk.SB env n.world tx (n.indexed.contains (hk.hash raw)) false = .cont w' pk ∧
      (deliverTx hk env n raw).1.world = (hk.handler env w' tx.msg pk).1 ∧
      (deliverTx hk env n raw).2 = (hk.handler env w' tx.msg pk).2 := by
  unfold antePasses at h
  split at h
  · simp at h
  · rename_i tx hd
    by_cases hdup : (n.cache.contains raw && env.redup) = true
    · rw [if_pos hdup] at h; simp at h
    · rw [if_neg hdup] at h
      split at h
      · simp at h
      · rename_i hb
        split at h
        · rename_i w' pk hc
          refine ⟨tx, w', pk, hd, hb, by simpa using hdup, hc, ?_, ?_⟩
          · unfold deliverTx; simp only [hd]; rw [if_neg hdup]; unfold runTx; simp only [hb, hc]
          · unfold deliverTx; simp only [hd]; rw [if_neg hdup]; unfold runTx; simp only [hb, hc]
        · simp at h

/-- An indexed transaction never gets past the ante handler. -/
theorem anteHandler_indexed {SB : Bytes → Int → Coins → Bytes → Bytes → Bytes} (env : Env)
    (w : World S Ω) (tx : Tx S.PK) (sim : Bool) :
    ∀ w' pk, anteHandler S SB env w tx true sim ≠ .cont w' pk := by
  intro w' pk h
  obtain ⟨_, hv, _⟩ := anteHandler_cont h
  have := (validateTransaction_pass hv).1
  simp at this

/-! ## The replay guard -/

/-- `b` is guarded in node state `n`: it is in the in-block cache together with a result of this
block that will be indexed, or its hash is already indexed. -/
def Guard (hk : Hooks S Ω) (n : Node S Ω) (b : Bytes) : Prop :=
  (n.cache.contains b = true ∧ ∃ r, (b, r) ∈ n.pending ∧ r.anteLevel = false) ∨
    n.indexed.contains (hk.hash b) = true

theorem guard_blocks (hk : Hooks S Ω) (env : Env) (hr : env.redup = true) (n : Node S Ω) (b : Bytes)
    (hg : Guard hk n b) : antePasses hk env n b = false := by
  cases hp : antePasses hk env n b with
  | false => rfl
  | true =>
    obtain ⟨tx, w', pk, _, _, hdup, hc, _, _⟩ := passed_iff hk env n b hp
    rcases hg with ⟨hcache, _⟩ | hidx
    · rw [hcache, hr] at hdup; simp at hdup
    · rw [hidx] at hc
      exact absurd hc (anteHandler_indexed env n.world tx false w' pk)

theorem deliverTx_cache (hk : Hooks S Ω) (env : Env) (n : Node S Ω) (raw b : Bytes)
    (h : n.cache.contains b = true) : (deliverTx hk env n raw).1.cache.contains b = true := by
  unfold deliverTx
  simp only
  split
  · exact h
  · have hm : b ∈ n.cache := by simpa using h
    simp [hm]

theorem deliverTx_cache_self (hk : Hooks S Ω) (env : Env) (n : Node S Ω) (raw : Bytes) :
    (deliverTx hk env n raw).1.cache.contains raw = true := by
  unfold deliverTx
  simp only
  split
  · rename_i h; exact h
  · simp

theorem deliverTx_indexed (hk : Hooks S Ω) (env : Env) (n : Node S Ω) (raw : Bytes) :
    (deliverTx hk env n raw).1.indexed = n.indexed := rfl

theorem deliverTx_pending (hk : Hooks S Ω) (env : Env) (n : Node S Ω) (raw : Bytes) :
    (deliverTx hk env n raw).1.pending = n.pending ++ [(raw, (deliverTx hk env n raw).2)] := rfl

theorem guard_deliver (hk : Hooks S Ω) (env : Env) (n : Node S Ω) (raw b : Bytes)
    (hg : Guard hk n b) : Guard hk (deliverTx hk env n raw).1 b := by
  rcases hg with ⟨hc, r, hr, ha⟩ | hi
  · refine Or.inl ⟨deliverTx_cache hk env n raw b hc, r, ?_, ha⟩
    rw [deliverTx_pending]
    exact List.mem_append_left _ hr
  · exact Or.inr (by rw [deliverTx_indexed]; exact hi)

theorem guard_deliver_new (hk : Hooks S Ω) (hno : NoAnteCode hk) (env : Env) (n : Node S Ω)
    (raw : Bytes) (hp : antePasses hk env n raw = true) : Guard hk (deliverTx hk env n raw).1 raw := by
  obtain ⟨tx, w', pk, _, _, _, _, _, hres⟩ := passed_iff hk env n raw hp
  refine Or.inl ⟨deliverTx_cache_self hk env n raw, (deliverTx hk env n raw).2, ?_, ?_⟩
  · rw [deliverTx_pending]; simp
  · rw [hres]; exact hno env w' tx.msg pk

theorem guard_endBlock (hk : Hooks S Ω) (n : Node S Ω) (b : Bytes) (hg : Guard hk n b) :
    Guard hk (endBlock hk n) b := by
  refine Or.inr ?_
  unfold endBlock
  simp only [List.contains_eq_mem, List.mem_append, List.mem_map, List.mem_filter, decide_eq_true_eq]
  rcases hg with ⟨_, r, hr, ha⟩ | hi
  · exact Or.inr ⟨(b, r), ⟨hr, by simp [ha]⟩, rfl⟩
  · exact Or.inl (by simpa using hi)

/-- A guarded byte string never gets past the ante handler again, whatever follows. -/
theorem guarded_never_passes (hk : Hooks S Ω) (ops : List (Op S Ω))
    (hmod : ∀ env raw, Op.deliver env raw ∈ ops → env.redup = true) (n : Node S Ω) (b : Bytes)
    (hg : Guard hk n b) : ∀ e ∈ (run hk n ops).2, e.raw = b → e.passed = false := by
  induction ops generalizing n with
  | nil => intro e he; simp [run] at he
  | cons op ops ih =>
    have hmod' : ∀ env raw, Op.deliver env raw ∈ ops → env.redup = true :=
      fun env raw h => hmod env raw (List.mem_cons_of_mem _ h)
    cases op with
    | deliver env raw =>
      intro e he hb
      simp only [run, List.mem_cons] at he
      rcases he with rfl | he
      · simp only at hb ⊢
        subst hb
        exact guard_blocks hk env (hmod env _ List.mem_cons_self) n _ hg
      · exact ih hmod' _ (guard_deliver hk env n raw b hg) e he hb
    | endBlock =>
      intro e he hb
      simp only [run] at he
      exact ih hmod' _ (guard_endBlock hk n b hg) e he hb
    | other f =>
      intro e he hb
      simp only [run] at he
      exact ih hmod' { n with world := f n.world } hg e he hb

/-- **At most one pass per byte string**: in every history under the modern rule set, of any two
deliveries of the same bytes at most the first gets past the ante handler. -/
theorem ante_pass_once (hk : Hooks S Ω) (hno : NoAnteCode hk) (ops : List (Op S Ω))
    (hmod : ∀ env raw, Op.deliver env raw ∈ ops → env.redup = true) (n : Node S Ω) :
    (run hk n ops).2.Pairwise (fun e1 e2 => e1.raw = e2.raw → e1.passed = true → e2.passed = false) := by
  induction ops generalizing n with
  | nil => simp [run]
  | cons op ops ih =>
    have hmod' : ∀ env raw, Op.deliver env raw ∈ ops → env.redup = true :=
      fun env raw h => hmod env raw (List.mem_cons_of_mem _ h)
    cases op with
    | deliver env raw =>
      simp only [run, List.pairwise_cons]
      refine ⟨?_, ih hmod' _⟩
      intro e2 he2 hraw hp
      exact guarded_never_passes hk ops hmod' _ raw (guard_deliver_new hk hno env n raw hp) e2 he2 hraw.symm
    | endBlock => simp only [run]; exact ih hmod' _
    | other f => simp only [run]; exact ih hmod' _

/-- Every recorded event is a real DeliverTx of some reachable node state. -/
theorem run_event_sound (hk : Hooks S Ω) (ops : List (Op S Ω)) (n : Node S Ω) :
    ∀ e ∈ (run hk n ops).2, ∃ env n', Op.deliver env e.raw ∈ ops ∧ e.pre = n'.world ∧
      e.post = (deliverTx hk env n' e.raw).1.world ∧ e.res = (deliverTx hk env n' e.raw).2 ∧
      e.passed = antePasses hk env n' e.raw := by
  induction ops generalizing n with
  | nil => intro e he; simp [run] at he
  | cons op ops ih =>
    cases op with
    | deliver env raw =>
      intro e he
      simp only [run, List.mem_cons] at he
      rcases he with rfl | he
      · exact ⟨env, n, List.mem_cons_self, rfl, rfl, rfl, rfl⟩
      · obtain ⟨env', n', h1, h2⟩ := ih _ e he
        exact ⟨env', n', List.mem_cons_of_mem _ h1, h2⟩
    | endBlock =>
      intro e he
      simp only [run] at he
      obtain ⟨env', n', h1, h2⟩ := ih _ e he
      exact ⟨env', n', List.mem_cons_of_mem _ h1, h2⟩
    | other f =>
      intro e he
      simp only [run] at he
      obtain ⟨env', n', h1, h2⟩ := ih _ e he
      exact ⟨env', n', List.mem_cons_of_mem _ h1, h2⟩

end Ledger
