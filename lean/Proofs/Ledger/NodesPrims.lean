import Proofs.Ledger.NodesBasic
/-!
# Field-level effect of the store primitives of the nodes ledger
-/
namespace Nodes

/-! ## emit -/
@[simp] theorem emit_vals (s : State) (e : Event) : (s.emit e).vals = s.vals := rfl
@[simp] theorem emit_stakedIdx (s : State) (e : Event) : (s.emit e).stakedIdx = s.stakedIdx := rfl
@[simp] theorem emit_chainIdx (s : State) (e : Event) : (s.emit e).chainIdx = s.chainIdx := rfl
@[simp] theorem emit_unstQ (s : State) (e : Event) : (s.emit e).unstQ = s.unstQ := rfl
@[simp] theorem emit_waiting (s : State) (e : Event) : (s.emit e).waiting = s.waiting := rfl
@[simp] theorem emit_prevPower (s : State) (e : Event) : (s.emit e).prevPower = s.prevPower := rfl
@[simp] theorem emit_prevTotal (s : State) (e : Event) : (s.emit e).prevTotal = s.prevTotal := rfl
@[simp] theorem emit_signInfo (s : State) (e : Event) : (s.emit e).signInfo = s.signInfo := rfl
@[simp] theorem emit_missedBits (s : State) (e : Event) : (s.emit e).missedBits = s.missedBits := rfl
@[simp] theorem emit_pool (s : State) (e : Event) : (s.emit e).pool = s.pool := rfl
@[simp] theorem emit_supply (s : State) (e : Event) : (s.emit e).supply = s.supply := rfl
@[simp] theorem emit_bal (s : State) (e : Event) : (s.emit e).bal = s.bal := rfl
@[simp] theorem emit_params (s : State) (e : Event) : (s.emit e).params = s.params := rfl
@[simp] theorem emit_tmSet (s : State) (e : Event) : (s.emit e).tmSet = s.tmSet := rfl
@[simp] theorem emit_log (s : State) (e : Event) : (s.emit e).log = s.log ++ [e] := rfl
@[simp] theorem getQ_emit (s : State) (e : Event) (t : Int) : getQ (s.emit e) t = getQ s t := rfl
@[simp] theorem balOf_emit (s : State) (e : Event) (a : Addr) : balOf (s.emit e) a = balOf s a := rfl

/-! ## staked set -/
@[simp] theorem setStaked_vals (s : State) (v : Val) : (setStaked s v).vals = s.vals := rfl
@[simp] theorem setStaked_chainIdx (s : State) (v : Val) : (setStaked s v).chainIdx = s.chainIdx := rfl
@[simp] theorem setStaked_unstQ (s : State) (v : Val) : (setStaked s v).unstQ = s.unstQ := rfl
@[simp] theorem setStaked_waiting (s : State) (v : Val) : (setStaked s v).waiting = s.waiting := rfl
@[simp] theorem setStaked_prevPower (s : State) (v : Val) : (setStaked s v).prevPower = s.prevPower := rfl
@[simp] theorem setStaked_signInfo (s : State) (v : Val) : (setStaked s v).signInfo = s.signInfo := rfl
@[simp] theorem setStaked_missedBits (s : State) (v : Val) : (setStaked s v).missedBits = s.missedBits := rfl
@[simp] theorem setStaked_pool (s : State) (v : Val) : (setStaked s v).pool = s.pool := rfl
@[simp] theorem setStaked_supply (s : State) (v : Val) : (setStaked s v).supply = s.supply := rfl
@[simp] theorem setStaked_bal (s : State) (v : Val) : (setStaked s v).bal = s.bal := rfl
@[simp] theorem setStaked_params (s : State) (v : Val) : (setStaked s v).params = s.params := rfl
@[simp] theorem setStaked_tmSet (s : State) (v : Val) : (setStaked s v).tmSet = s.tmSet := rfl
@[simp] theorem setStaked_log (s : State) (v : Val) : (setStaked s v).log = s.log := rfl
@[simp] theorem setStaked_prevTotal (s : State) (v : Val) : (setStaked s v).prevTotal = s.prevTotal := rfl
@[simp] theorem setStaked_stakedIdx (s : State) (v : Val) : (setStaked s v).stakedIdx = sins s.stakedIdx v.stakedKey := rfl

@[simp] theorem delStaked_vals (s : State) (v : Val) : (delStaked s v).vals = s.vals := rfl
@[simp] theorem delStaked_chainIdx (s : State) (v : Val) : (delStaked s v).chainIdx = s.chainIdx := rfl
@[simp] theorem delStaked_unstQ (s : State) (v : Val) : (delStaked s v).unstQ = s.unstQ := rfl
@[simp] theorem delStaked_waiting (s : State) (v : Val) : (delStaked s v).waiting = s.waiting := rfl
@[simp] theorem delStaked_prevPower (s : State) (v : Val) : (delStaked s v).prevPower = s.prevPower := rfl
@[simp] theorem delStaked_signInfo (s : State) (v : Val) : (delStaked s v).signInfo = s.signInfo := rfl
@[simp] theorem delStaked_missedBits (s : State) (v : Val) : (delStaked s v).missedBits = s.missedBits := rfl
@[simp] theorem delStaked_pool (s : State) (v : Val) : (delStaked s v).pool = s.pool := rfl
@[simp] theorem delStaked_supply (s : State) (v : Val) : (delStaked s v).supply = s.supply := rfl
@[simp] theorem delStaked_bal (s : State) (v : Val) : (delStaked s v).bal = s.bal := rfl
@[simp] theorem delStaked_params (s : State) (v : Val) : (delStaked s v).params = s.params := rfl
@[simp] theorem delStaked_tmSet (s : State) (v : Val) : (delStaked s v).tmSet = s.tmSet := rfl
@[simp] theorem delStaked_log (s : State) (v : Val) : (delStaked s v).log = s.log := rfl
@[simp] theorem delStaked_prevTotal (s : State) (v : Val) : (delStaked s v).prevTotal = s.prevTotal := rfl
@[simp] theorem delStaked_stakedIdx (s : State) (v : Val) : (delStaked s v).stakedIdx = sdel s.stakedIdx v.stakedKey := rfl
@[simp] theorem getQ_delStaked (s : State) (v : Val) (t : Int) : getQ (delStaked s v) t = getQ s t := rfl
@[simp] theorem getQ_setStaked (s : State) (v : Val) (t : Int) : getQ (setStaked s v) t = getQ s t := rfl
@[simp] theorem balOf_delStaked (s : State) (v : Val) (a : Addr) : balOf (delStaked s v) a = balOf s a := rfl
@[simp] theorem balOf_setStaked (s : State) (v : Val) (a : Addr) : balOf (setStaked s v) a = balOf s a := rfl

/-! ## chain index -/
@[simp] theorem setChains_vals (s : State) (v : Val) : (setChains s v).vals = s.vals := rfl
@[simp] theorem setChains_stakedIdx (s : State) (v : Val) : (setChains s v).stakedIdx = s.stakedIdx := rfl
@[simp] theorem setChains_unstQ (s : State) (v : Val) : (setChains s v).unstQ = s.unstQ := rfl
@[simp] theorem setChains_waiting (s : State) (v : Val) : (setChains s v).waiting = s.waiting := rfl
@[simp] theorem setChains_prevPower (s : State) (v : Val) : (setChains s v).prevPower = s.prevPower := rfl
@[simp] theorem setChains_signInfo (s : State) (v : Val) : (setChains s v).signInfo = s.signInfo := rfl
@[simp] theorem setChains_missedBits (s : State) (v : Val) : (setChains s v).missedBits = s.missedBits := rfl
@[simp] theorem setChains_pool (s : State) (v : Val) : (setChains s v).pool = s.pool := rfl
@[simp] theorem setChains_supply (s : State) (v : Val) : (setChains s v).supply = s.supply := rfl
@[simp] theorem setChains_bal (s : State) (v : Val) : (setChains s v).bal = s.bal := rfl
@[simp] theorem setChains_params (s : State) (v : Val) : (setChains s v).params = s.params := rfl
@[simp] theorem setChains_tmSet (s : State) (v : Val) : (setChains s v).tmSet = s.tmSet := rfl
@[simp] theorem setChains_log (s : State) (v : Val) : (setChains s v).log = s.log := rfl
@[simp] theorem setChains_prevTotal (s : State) (v : Val) : (setChains s v).prevTotal = s.prevTotal := rfl
@[simp] theorem getQ_setChains (s : State) (v : Val) (t : Int) : getQ (setChains s v) t = getQ s t := rfl
@[simp] theorem balOf_setChains (s : State) (v : Val) (a : Addr) : balOf (setChains s v) a = balOf s a := rfl

theorem mem_setChains (s : State) (v : Val) (y : Bytes × Addr) :
    y ∈ (setChains s v).chainIdx ↔ y ∈ s.chainIdx ∨ (y.2 = v.addr ∧ y.1 ∈ v.chains) := by
  show y ∈ v.chains.foldl (fun l c => sins l ((fun c => (c, v.addr)) c)) s.chainIdx ↔ _
  rw [mem_foldl_sins]
  constructor
  · rintro (h | ⟨c, hc, e⟩)
    · exact Or.inl h
    · subst e; exact Or.inr ⟨rfl, hc⟩
  · rintro (h | ⟨h1, h2⟩)
    · exact Or.inl h
    · exact Or.inr ⟨y.1, h2, by rw [← h1]⟩

@[simp] theorem delChains_vals (s : State) (v : Val) : (delChains s v).vals = s.vals := rfl
@[simp] theorem delChains_stakedIdx (s : State) (v : Val) : (delChains s v).stakedIdx = s.stakedIdx := rfl
@[simp] theorem delChains_unstQ (s : State) (v : Val) : (delChains s v).unstQ = s.unstQ := rfl
@[simp] theorem delChains_waiting (s : State) (v : Val) : (delChains s v).waiting = s.waiting := rfl
@[simp] theorem delChains_prevPower (s : State) (v : Val) : (delChains s v).prevPower = s.prevPower := rfl
@[simp] theorem delChains_signInfo (s : State) (v : Val) : (delChains s v).signInfo = s.signInfo := rfl
@[simp] theorem delChains_missedBits (s : State) (v : Val) : (delChains s v).missedBits = s.missedBits := rfl
@[simp] theorem delChains_pool (s : State) (v : Val) : (delChains s v).pool = s.pool := rfl
@[simp] theorem delChains_supply (s : State) (v : Val) : (delChains s v).supply = s.supply := rfl
@[simp] theorem delChains_bal (s : State) (v : Val) : (delChains s v).bal = s.bal := rfl
@[simp] theorem delChains_params (s : State) (v : Val) : (delChains s v).params = s.params := rfl
@[simp] theorem delChains_tmSet (s : State) (v : Val) : (delChains s v).tmSet = s.tmSet := rfl
@[simp] theorem delChains_log (s : State) (v : Val) : (delChains s v).log = s.log := rfl
@[simp] theorem delChains_prevTotal (s : State) (v : Val) : (delChains s v).prevTotal = s.prevTotal := rfl
@[simp] theorem getQ_delChains (s : State) (v : Val) (t : Int) : getQ (delChains s v) t = getQ s t := rfl
@[simp] theorem balOf_delChains (s : State) (v : Val) (a : Addr) : balOf (delChains s v) a = balOf s a := rfl

theorem mem_delChains (s : State) (v : Val) (y : Bytes × Addr) :
    y ∈ (delChains s v).chainIdx ↔ y ∈ s.chainIdx ∧ ¬ (y.2 = v.addr ∧ y.1 ∈ v.chains) := by
  show y ∈ v.chains.foldl (fun l c => sdel l ((fun c => (c, v.addr)) c)) s.chainIdx ↔ _
  rw [mem_foldl_sdel]
  constructor
  · rintro ⟨h1, h2⟩
    refine ⟨h1, ?_⟩
    rintro ⟨e1, e2⟩
    exact h2 y.1 e2 (by rw [← e1])
  · rintro ⟨h1, h2⟩
    refine ⟨h1, ?_⟩
    intro c hc e
    subst e
    exact h2 ⟨rfl, hc⟩

/-! ## unstaking queue -/
@[simp] theorem setUnstaking_vals (s : State) (v : Val) : (setUnstaking s v).vals = s.vals := rfl
@[simp] theorem setUnstaking_stakedIdx (s : State) (v : Val) : (setUnstaking s v).stakedIdx = s.stakedIdx := rfl
@[simp] theorem setUnstaking_chainIdx (s : State) (v : Val) : (setUnstaking s v).chainIdx = s.chainIdx := rfl
@[simp] theorem setUnstaking_waiting (s : State) (v : Val) : (setUnstaking s v).waiting = s.waiting := rfl
@[simp] theorem setUnstaking_prevPower (s : State) (v : Val) : (setUnstaking s v).prevPower = s.prevPower := rfl
@[simp] theorem setUnstaking_signInfo (s : State) (v : Val) : (setUnstaking s v).signInfo = s.signInfo := rfl
@[simp] theorem setUnstaking_missedBits (s : State) (v : Val) : (setUnstaking s v).missedBits = s.missedBits := rfl
@[simp] theorem setUnstaking_pool (s : State) (v : Val) : (setUnstaking s v).pool = s.pool := rfl
@[simp] theorem setUnstaking_supply (s : State) (v : Val) : (setUnstaking s v).supply = s.supply := rfl
@[simp] theorem setUnstaking_bal (s : State) (v : Val) : (setUnstaking s v).bal = s.bal := rfl
@[simp] theorem setUnstaking_params (s : State) (v : Val) : (setUnstaking s v).params = s.params := rfl
@[simp] theorem setUnstaking_tmSet (s : State) (v : Val) : (setUnstaking s v).tmSet = s.tmSet := rfl
@[simp] theorem setUnstaking_log (s : State) (v : Val) : (setUnstaking s v).log = s.log := rfl
@[simp] theorem setUnstaking_prevTotal (s : State) (v : Val) : (setUnstaking s v).prevTotal = s.prevTotal := rfl
@[simp] theorem balOf_setUnstaking (s : State) (v : Val) (a : Addr) : balOf (setUnstaking s v) a = balOf s a := rfl

theorem getQ_setUnstaking (s : State) (v : Val) (t : Int) :
    getQ (setUnstaking s v) t = if t = v.unstTime then getQ s v.unstTime ++ [v.addr] else getQ s t := by
  unfold getQ setUnstaking
  simp only [aget_aset]
  by_cases h : t = v.unstTime <;> simp [h, getQ]

theorem mem_getQ_setUnstaking (s : State) (v : Val) (t : Int) (b : Addr) :
    b ∈ getQ (setUnstaking s v) t ↔ b ∈ getQ s t ∨ (t = v.unstTime ∧ b = v.addr) := by
  rw [getQ_setUnstaking]
  by_cases h : t = v.unstTime
  · subst h; simp
  · simp [h]

@[simp] theorem delUnstaking_vals (s : State) (v : Val) : (delUnstaking s v).vals = s.vals := rfl
@[simp] theorem delUnstaking_stakedIdx (s : State) (v : Val) : (delUnstaking s v).stakedIdx = s.stakedIdx := rfl
@[simp] theorem delUnstaking_chainIdx (s : State) (v : Val) : (delUnstaking s v).chainIdx = s.chainIdx := rfl
@[simp] theorem delUnstaking_waiting (s : State) (v : Val) : (delUnstaking s v).waiting = s.waiting := rfl
@[simp] theorem delUnstaking_prevPower (s : State) (v : Val) : (delUnstaking s v).prevPower = s.prevPower := rfl
@[simp] theorem delUnstaking_signInfo (s : State) (v : Val) : (delUnstaking s v).signInfo = s.signInfo := rfl
@[simp] theorem delUnstaking_missedBits (s : State) (v : Val) : (delUnstaking s v).missedBits = s.missedBits := rfl
@[simp] theorem delUnstaking_pool (s : State) (v : Val) : (delUnstaking s v).pool = s.pool := rfl
@[simp] theorem delUnstaking_supply (s : State) (v : Val) : (delUnstaking s v).supply = s.supply := rfl
@[simp] theorem delUnstaking_bal (s : State) (v : Val) : (delUnstaking s v).bal = s.bal := rfl
@[simp] theorem delUnstaking_params (s : State) (v : Val) : (delUnstaking s v).params = s.params := rfl
@[simp] theorem delUnstaking_tmSet (s : State) (v : Val) : (delUnstaking s v).tmSet = s.tmSet := rfl
@[simp] theorem delUnstaking_log (s : State) (v : Val) : (delUnstaking s v).log = s.log := rfl
@[simp] theorem delUnstaking_prevTotal (s : State) (v : Val) : (delUnstaking s v).prevTotal = s.prevTotal := rfl
@[simp] theorem balOf_delUnstaking (s : State) (v : Val) (a : Addr) : balOf (delUnstaking s v) a = balOf s a := rfl

theorem getQ_delUnstaking (s : State) (v : Val) (t : Int) :
    getQ (delUnstaking s v) t =
      if t = v.unstTime then (getQ s v.unstTime).filter (fun a => decide (a ≠ v.addr)) else getQ s t := by
  unfold delUnstaking
  simp only
  by_cases hl : (getQ s v.unstTime).filter (fun a => decide (a ≠ v.addr)) = []
  · rw [if_pos hl]
    by_cases h : t = v.unstTime
    · rw [if_pos h, hl]
      unfold getQ
      simp only [aget_adel, if_pos h]
      rfl
    · rw [if_neg h]
      unfold getQ
      simp only [aget_adel, if_neg h]
  · rw [if_neg hl]
    by_cases h : t = v.unstTime
    · rw [if_pos h]
      unfold getQ
      simp only [aget_aset, if_pos h]
      rfl
    · rw [if_neg h]
      unfold getQ
      simp only [aget_aset, if_neg h]

theorem mem_getQ_delUnstaking (s : State) (v : Val) (t : Int) (b : Addr) :
    b ∈ getQ (delUnstaking s v) t ↔ b ∈ getQ s t ∧ ¬ (t = v.unstTime ∧ b = v.addr) := by
  rw [getQ_delUnstaking]
  by_cases h : t = v.unstTime
  · subst h; simp
  · simp [h]

/-! ## records -/
theorem setValidator_vals (s : State) (v : Val) : (setValidator s v).vals = aset s.vals v.addr v := by
  unfold setValidator
  by_cases h1 : v.status = .unstaking <;> by_cases h2 : v.status = .staked ∧ v.jailed = false <;> simp [h1, h2]

theorem setValidator_chainIdx (s : State) (v : Val) : (setValidator s v).chainIdx = s.chainIdx := by
  unfold setValidator
  by_cases h1 : v.status = .unstaking <;> by_cases h2 : v.status = .staked ∧ v.jailed = false <;> simp [h1, h2]

theorem setValidator_frame (s : State) (v : Val) :
    (setValidator s v).waiting = s.waiting ∧ (setValidator s v).prevPower = s.prevPower ∧
    (setValidator s v).signInfo = s.signInfo ∧ (setValidator s v).missedBits = s.missedBits ∧
    (setValidator s v).pool = s.pool ∧ (setValidator s v).supply = s.supply ∧ (setValidator s v).bal = s.bal ∧
    (setValidator s v).params = s.params ∧ (setValidator s v).tmSet = s.tmSet ∧ (setValidator s v).log = s.log ∧
    (setValidator s v).prevTotal = s.prevTotal := by
  unfold setValidator
  by_cases h1 : v.status = .unstaking <;> by_cases h2 : v.status = .staked ∧ v.jailed = false <;> simp [h1, h2]

@[simp] theorem setValidator_waiting (s : State) (v : Val) : (setValidator s v).waiting = s.waiting := (setValidator_frame s v).1
@[simp] theorem setValidator_prevPower (s : State) (v : Val) : (setValidator s v).prevPower = s.prevPower := (setValidator_frame s v).2.1
@[simp] theorem setValidator_signInfo (s : State) (v : Val) : (setValidator s v).signInfo = s.signInfo := (setValidator_frame s v).2.2.1
@[simp] theorem setValidator_missedBits (s : State) (v : Val) : (setValidator s v).missedBits = s.missedBits := (setValidator_frame s v).2.2.2.1
@[simp] theorem setValidator_pool (s : State) (v : Val) : (setValidator s v).pool = s.pool := (setValidator_frame s v).2.2.2.2.1
@[simp] theorem setValidator_supply (s : State) (v : Val) : (setValidator s v).supply = s.supply := (setValidator_frame s v).2.2.2.2.2.1
@[simp] theorem setValidator_bal (s : State) (v : Val) : (setValidator s v).bal = s.bal := (setValidator_frame s v).2.2.2.2.2.2.1
@[simp] theorem setValidator_params (s : State) (v : Val) : (setValidator s v).params = s.params := (setValidator_frame s v).2.2.2.2.2.2.2.1
@[simp] theorem setValidator_tmSet (s : State) (v : Val) : (setValidator s v).tmSet = s.tmSet := (setValidator_frame s v).2.2.2.2.2.2.2.2.1
@[simp] theorem setValidator_log (s : State) (v : Val) : (setValidator s v).log = s.log := (setValidator_frame s v).2.2.2.2.2.2.2.2.2.1
@[simp] theorem setValidator_prevTotal (s : State) (v : Val) : (setValidator s v).prevTotal = s.prevTotal := (setValidator_frame s v).2.2.2.2.2.2.2.2.2.2
@[simp] theorem balOf_setValidator (s : State) (v : Val) (a : Addr) : balOf (setValidator s v) a = balOf s a := by
  unfold balOf; rw [setValidator_bal]

theorem mem_setValidator_staked (s : State) (v : Val) (x : Int × Addr) :
    x ∈ (setValidator s v).stakedIdx ↔ x ∈ s.stakedIdx ∨ (v.status = .staked ∧ v.jailed = false ∧ x = v.stakedKey) := by
  unfold setValidator
  by_cases h1 : v.status = .unstaking
  · have h2 : ¬ (v.status = .staked ∧ v.jailed = false) := by rw [h1]; simp
    simp [h1, h2]
  · by_cases h2 : v.status = .staked ∧ v.jailed = false
    · simp [h1, h2, mem_sins]
      constructor
      · rintro (h | h)
        · exact Or.inr h
        · exact Or.inl h
      · rintro (h | h)
        · exact Or.inr h
        · exact Or.inl h
    · simp only [h1, h2, if_false]
      constructor
      · exact Or.inl
      · rintro (h | ⟨a, b, _⟩)
        · exact h
        · exact absurd ⟨a, b⟩ h2

theorem nodup_setValidator_staked (s : State) (v : Val) (h : s.stakedIdx.Nodup) : (setValidator s v).stakedIdx.Nodup := by
  unfold setValidator
  by_cases h1 : v.status = .unstaking <;> by_cases h2 : v.status = .staked ∧ v.jailed = false <;>
    simp [h1, h2, h, nodup_sins]

theorem mem_getQ_setValidator (s : State) (v : Val) (t : Int) (b : Addr) :
    b ∈ getQ (setValidator s v) t ↔ b ∈ getQ s t ∨ (v.status = .unstaking ∧ t = v.unstTime ∧ b = v.addr) := by
  unfold setValidator
  cases hs : v.status with
  | unstaking =>
    simp only [if_true, reduceCtorEq, false_and, if_false, true_and]
    have : getQ (setUnstaking { s with vals := aset s.vals v.addr v } v) t =
        if t = v.unstTime then getQ s v.unstTime ++ [v.addr] else getQ s t := getQ_setUnstaking _ v t
    rw [this]
    by_cases h : t = v.unstTime
    · subst h; simp
    · simp [h]
  | staked =>
    by_cases h2 : v.jailed = false
    · simp [h2, getQ]
    · simp [h2, getQ]
  | unstaked => simp [getQ]

theorem nodup_setUnstaking (s : State) (v : Val) (h : (s.unstQ.map (·.1)).Nodup) :
    ((setUnstaking s v).unstQ.map (·.1)).Nodup := nodup_aset h _ _

theorem nodup_delUnstaking (s : State) (v : Val) (h : (s.unstQ.map (·.1)).Nodup) :
    ((delUnstaking s v).unstQ.map (·.1)).Nodup := by
  unfold delUnstaking
  simp only
  split
  · exact nodup_adel h _
  · exact nodup_aset h _ _

theorem nodup_setValidator_unstQ (s : State) (v : Val) (h : (s.unstQ.map (·.1)).Nodup) :
    ((setValidator s v).unstQ.map (·.1)).Nodup := by
  unfold setValidator
  cases hs : v.status with
  | unstaking =>
    simp only [if_true, reduceCtorEq, false_and, if_false]
    exact nodup_setUnstaking _ v h
  | staked =>
    by_cases h2 : v.jailed = false
    · simp [h2, h]
    · simp [h2, h]
  | unstaked => simp [h]

/-! ## deleteValidator, waiting -/
@[simp] theorem deleteValidator_vals (s : State) (a : Addr) : (deleteValidator s a).vals = adel s.vals a := rfl
@[simp] theorem deleteValidator_stakedIdx (s : State) (a : Addr) : (deleteValidator s a).stakedIdx = s.stakedIdx := rfl
@[simp] theorem deleteValidator_chainIdx (s : State) (a : Addr) : (deleteValidator s a).chainIdx = s.chainIdx := rfl
@[simp] theorem deleteValidator_unstQ (s : State) (a : Addr) : (deleteValidator s a).unstQ = s.unstQ := rfl
@[simp] theorem deleteValidator_waiting (s : State) (a : Addr) : (deleteValidator s a).waiting = s.waiting := rfl
@[simp] theorem deleteValidator_prevPower (s : State) (a : Addr) : (deleteValidator s a).prevPower = s.prevPower := rfl
@[simp] theorem deleteValidator_signInfo (s : State) (a : Addr) : (deleteValidator s a).signInfo = adel s.signInfo a := rfl
@[simp] theorem deleteValidator_missedBits (s : State) (a : Addr) : (deleteValidator s a).missedBits = s.missedBits := rfl
@[simp] theorem deleteValidator_pool (s : State) (a : Addr) : (deleteValidator s a).pool = s.pool := rfl
@[simp] theorem deleteValidator_supply (s : State) (a : Addr) : (deleteValidator s a).supply = s.supply := rfl
@[simp] theorem deleteValidator_bal (s : State) (a : Addr) : (deleteValidator s a).bal = s.bal := rfl
@[simp] theorem deleteValidator_params (s : State) (a : Addr) : (deleteValidator s a).params = s.params := rfl
@[simp] theorem deleteValidator_tmSet (s : State) (a : Addr) : (deleteValidator s a).tmSet = s.tmSet := rfl
@[simp] theorem deleteValidator_prevTotal (s : State) (a : Addr) : (deleteValidator s a).prevTotal = s.prevTotal := rfl
@[simp] theorem getQ_deleteValidator (s : State) (a : Addr) (t : Int) : getQ (deleteValidator s a) t = getQ s t := rfl
@[simp] theorem balOf_deleteValidator (s : State) (a b : Addr) : balOf (deleteValidator s a) b = balOf s b := rfl

@[simp] theorem setWaiting_vals (s : State) (a : Addr) (c : Cause) : (setWaiting s a c).vals = s.vals := rfl
@[simp] theorem setWaiting_stakedIdx (s : State) (a : Addr) (c : Cause) : (setWaiting s a c).stakedIdx = s.stakedIdx := rfl
@[simp] theorem setWaiting_chainIdx (s : State) (a : Addr) (c : Cause) : (setWaiting s a c).chainIdx = s.chainIdx := rfl
@[simp] theorem setWaiting_unstQ (s : State) (a : Addr) (c : Cause) : (setWaiting s a c).unstQ = s.unstQ := rfl
@[simp] theorem setWaiting_waiting (s : State) (a : Addr) (c : Cause) : (setWaiting s a c).waiting = sins s.waiting a := rfl
@[simp] theorem setWaiting_prevPower (s : State) (a : Addr) (c : Cause) : (setWaiting s a c).prevPower = s.prevPower := rfl
@[simp] theorem setWaiting_signInfo (s : State) (a : Addr) (c : Cause) : (setWaiting s a c).signInfo = s.signInfo := rfl
@[simp] theorem setWaiting_missedBits (s : State) (a : Addr) (c : Cause) : (setWaiting s a c).missedBits = s.missedBits := rfl
@[simp] theorem setWaiting_pool (s : State) (a : Addr) (c : Cause) : (setWaiting s a c).pool = s.pool := rfl
@[simp] theorem setWaiting_supply (s : State) (a : Addr) (c : Cause) : (setWaiting s a c).supply = s.supply := rfl
@[simp] theorem setWaiting_bal (s : State) (a : Addr) (c : Cause) : (setWaiting s a c).bal = s.bal := rfl
@[simp] theorem setWaiting_params (s : State) (a : Addr) (c : Cause) : (setWaiting s a c).params = s.params := rfl
@[simp] theorem setWaiting_tmSet (s : State) (a : Addr) (c : Cause) : (setWaiting s a c).tmSet = s.tmSet := rfl
@[simp] theorem setWaiting_prevTotal (s : State) (a : Addr) (c : Cause) : (setWaiting s a c).prevTotal = s.prevTotal := rfl
@[simp] theorem getQ_setWaiting (s : State) (a : Addr) (c : Cause) (t : Int) : getQ (setWaiting s a c) t = getQ s t := rfl
@[simp] theorem balOf_setWaiting (s : State) (a : Addr) (c : Cause) (b : Addr) : balOf (setWaiting s a c) b = balOf s b := rfl

@[simp] theorem delWaiting_vals (s : State) (a : Addr) : (delWaiting s a).vals = s.vals := rfl
@[simp] theorem delWaiting_stakedIdx (s : State) (a : Addr) : (delWaiting s a).stakedIdx = s.stakedIdx := rfl
@[simp] theorem delWaiting_chainIdx (s : State) (a : Addr) : (delWaiting s a).chainIdx = s.chainIdx := rfl
@[simp] theorem delWaiting_unstQ (s : State) (a : Addr) : (delWaiting s a).unstQ = s.unstQ := rfl
@[simp] theorem delWaiting_waiting (s : State) (a : Addr) : (delWaiting s a).waiting = sdel s.waiting a := rfl
@[simp] theorem delWaiting_prevPower (s : State) (a : Addr) : (delWaiting s a).prevPower = s.prevPower := rfl
@[simp] theorem delWaiting_signInfo (s : State) (a : Addr) : (delWaiting s a).signInfo = s.signInfo := rfl
@[simp] theorem delWaiting_missedBits (s : State) (a : Addr) : (delWaiting s a).missedBits = s.missedBits := rfl
@[simp] theorem delWaiting_pool (s : State) (a : Addr) : (delWaiting s a).pool = s.pool := rfl
@[simp] theorem delWaiting_supply (s : State) (a : Addr) : (delWaiting s a).supply = s.supply := rfl
@[simp] theorem delWaiting_bal (s : State) (a : Addr) : (delWaiting s a).bal = s.bal := rfl
@[simp] theorem delWaiting_params (s : State) (a : Addr) : (delWaiting s a).params = s.params := rfl
@[simp] theorem delWaiting_tmSet (s : State) (a : Addr) : (delWaiting s a).tmSet = s.tmSet := rfl
@[simp] theorem delWaiting_log (s : State) (a : Addr) : (delWaiting s a).log = s.log := rfl
@[simp] theorem delWaiting_prevTotal (s : State) (a : Addr) : (delWaiting s a).prevTotal = s.prevTotal := rfl
@[simp] theorem getQ_delWaiting (s : State) (a : Addr) (t : Int) : getQ (delWaiting s a) t = getQ s t := rfl
@[simp] theorem balOf_delWaiting (s : State) (a b : Addr) : balOf (delWaiting s a) b = balOf s b := rfl

end Nodes
