import PocketModel.Ledger.Genesis
import Proofs.Ledger.AppsIndexOps
/-!
# Lemmas about genesis export / init (C43)
-/
namespace Gen
open Apps (Addr)

/-! ## InitChain on an export: the validation of the auth module -/

theorem validateAuth_panics {g : G} (h : ∃ a ∈ g.accounts, a.hasPub = false) : validateAuth g = .panic := by
  unfold validateAuth
  obtain ⟨a, ha, hp⟩ := h
  have : g.accounts.any (fun a => !a.hasPub) = true := List.any_eq_true.mpr ⟨a, ha, by simp [hp]⟩
  simp [this]

theorem initChain_auth_panic {g : G} (h : ∃ a ∈ g.accounts, a.hasPub = false) :
    initChain g = .validateFailed "auth" .panic := by
  unfold initChain
  rw [validateAuth_panics h]

theorem mem_export_accounts {l : L} {a : Acct} (ha : a ∈ l.accounts) (hc : a.upokt ≠ 0 ∨ a.other = true) :
    a ∈ (exportGenesis l).accounts := by
  unfold exportGenesis
  simp only [List.mem_filter]
  refine ⟨ha, ?_⟩
  rcases hc with h | h
  · simp [h]
  · simp [h]

/-! ## auth -/

theorem initAuth_accounts (g : G) (l : L) : (initAuth g l).accounts = g.accounts := rfl

theorem filter_idem {α} (p : α → Bool) (xs : List α) : (xs.filter p).filter p = xs.filter p := by
  simp [List.filter_filter]

theorem accounts_roundtrip (l : L) : viewAccounts (initAuth (exportGenesis l) emptyL) = viewAccounts l := by
  unfold viewAccounts
  rw [initAuth_accounts]
  unfold exportGenesis
  exact filter_idem _ _

theorem initAuth_supply (g : G) (l : L) (h : g.supply ≠ 0) : (initAuth g l).supply = g.supply := by
  unfold initAuth; simp [h]

/-! ## pos -/

theorem initPos_some {g : G} {l l' : L} (h : initPos g l = some l') :
    l'.nodes = g.nodes.map legacyNode ∧ l'.supply = l.supply + sumStakedNodes g.nodes
    ∧ l'.nodeIdx = nodeIndexes g.nodes
    ∧ (∀ n ∈ g.nodes, n.status ≠ Apps.stUnstaked)
    ∧ (moduleBal l.accounts poolName = 0 ∨ moduleBal l.accounts poolName = sumStakedNodes g.nodes)
    ∧ l'.apps = l.apps ∧ l'.claims = l.claims
    ∧ (moduleBal l.accounts poolName ≠ 0 → l'.accounts = l.accounts) := by
  unfold initPos at h
  split at h
  · simp at h
  · rename_i hu
    dsimp only at h
    split at h
    · simp at h
    · rename_i hp
      cases h
      refine ⟨rfl, rfl, rfl, ?_, ?_, rfl, rfl, ?_⟩
      · intro n hn hs
        apply hu
        exact List.any_eq_true.mpr ⟨n, hn, by simp [hs]⟩
      · by_cases h0 : moduleBal l.accounts poolName = 0
        · exact Or.inl h0
        · right
          by_cases h1 : moduleBal l.accounts poolName = sumStakedNodes g.nodes
          · exact h1
          · exact absurd ⟨h0, h1⟩ hp
      · intro h0; simp [h0]

theorem map_legacy_id (ns : List Node) (h : ∀ n ∈ ns, n.output = "-" ∧ n.delegators = "-") : ns.map legacyNode = ns := by
  induction ns with
  | nil => rfl
  | cons n ns ih =>
    simp only [List.map_cons]
    have hn := h n List.mem_cons_self
    have : legacyNode n = n := by
      unfold legacyNode
      cases n; simp_all
    rw [this, ih (fun m hm => h m (List.mem_cons_of_mem _ hm))]

/-! ## application -/

def keptApps (g : G) : List (Addr × Apps.App) :=
  g.apps.filter (fun e => e.2.status ≠ Apps.stUnstaked && e.2.status ≠ Apps.stUnstaking)

def recomputed (g : G) (l : L) : List (Addr × Apps.App) :=
  (keptApps g).map (fun e => (e.1, { e.2 with maxRelays := Apps.calcRelays g.appParams (moduleBal l.accounts appPoolName) (moduleBal l.accounts poolName) l.supply e.2.tokens }))

theorem initApps_some {g : G} {l l' : L} (h : initApps g l = some l') :
    l'.apps = recomputed g l ∧ l'.supply = l.supply + sumStakedApps (recomputed g l)
    ∧ l'.appIdx = ((recomputed g l).filter (fun e => e.2.status = Apps.stStaked && !e.2.jailed)).map (fun e => ((Apps.power e.2.tokens, e.1), e.1))
    ∧ l'.appQueue = []
    ∧ (moduleBal l.accounts appPoolName = 0 ∨ moduleBal l.accounts appPoolName = sumStakedApps (recomputed g l))
    ∧ l'.nodes = l.nodes ∧ l'.claims = l.claims
    ∧ (moduleBal l.accounts appPoolName ≠ 0 → l'.accounts = l.accounts) := by
  unfold initApps at h
  dsimp only at h
  split at h
  · simp at h
  · rename_i hp
    cases h
    refine ⟨rfl, rfl, rfl, rfl, ?_, rfl, rfl, ?_⟩
    · by_cases h0 : moduleBal l.accounts appPoolName = 0
      · exact Or.inl h0
      · right
        by_cases h1 : moduleBal l.accounts appPoolName = sumStakedApps (recomputed g l)
        · exact h1
        · exact absurd ⟨h0, h1⟩ hp
    · intro h0; simp [h0]

/-- When every exported application is staked and its stored allowance is what `InitGenesis`
recomputes, the records come back unchanged. -/
theorem recomputed_id (g : G) (l : L)
    (hst : ∀ e ∈ g.apps, e.2.status = Apps.stStaked)
    (hmr : ∀ e ∈ g.apps, e.2.maxRelays = Apps.calcRelays g.appParams (moduleBal l.accounts appPoolName) (moduleBal l.accounts poolName) l.supply e.2.tokens) :
    recomputed g l = g.apps := by
  unfold recomputed keptApps
  have hk : g.apps.filter (fun e => e.2.status ≠ Apps.stUnstaked && e.2.status ≠ Apps.stUnstaking) = g.apps := by
    apply List.filter_eq_self.mpr
    intro e he
    rw [hst e he]; decide
  rw [hk]
  have : ∀ (xs : List (Addr × Apps.App)), (∀ e ∈ xs, e ∈ g.apps) →
      xs.map (fun e => (e.1, { e.2 with maxRelays := Apps.calcRelays g.appParams (moduleBal l.accounts appPoolName) (moduleBal l.accounts poolName) l.supply e.2.tokens })) = xs := by
    intro xs hx
    induction xs with
    | nil => rfl
    | cons e xs ih =>
      simp only [List.map_cons]
      rw [ih (fun x hx' => hx x (List.mem_cons_of_mem _ hx'))]
      have := hmr e (hx e List.mem_cons_self)
      obtain ⟨a, app⟩ := e
      simp only at this
      rw [← this]
  exact this g.apps (fun e he => he)

/-! ## pocketcore, gov -/

theorem initPocket_claims (g : G) (l : L) (h : ∀ c ∈ g.claims, c.expiration ≠ 0) : (initPocket g l).claims = g.claims := by
  unfold initPocket
  simp only
  apply List.filter_eq_self.mpr
  intro c hc; simp [h c hc]

theorem initGov_some {g : G} {l l' : L} (h : initGov g l = some l') :
    l'.supply = l.supply + g.daoTokens ∧ l'.nodes = l.nodes ∧ l'.apps = l.apps ∧ l'.claims = l.claims
    ∧ l'.accounts = setModuleBal l.accounts daoName (moduleBal l.accounts daoName + g.daoTokens) := by
  unfold initGov at h
  dsimp only at h
  split at h
  · cases h; exact ⟨rfl, rfl, rfl, rfl, rfl⟩
  · simp at h

/-! ## the staked index `InitGenesis` rebuilds -/

/-- index entries written for a list of application records -/
def appIdxOf (recs : List (Addr × Apps.App)) : List ((Int × Addr) × Addr) :=
  (recs.filter (fun e => e.2.status = Apps.stStaked && !e.2.jailed)).map (fun e => ((Apps.power e.2.tokens, e.1), e.1))

theorem appIdxOf_exact (recs : List (Addr × Apps.App)) (hn : Apps.NodupKeys recs) (p : Int) (a : Addr) :
    Apps.get (appIdxOf recs) (p, a) = Apps.specOf (Apps.get recs a) p a := by
  induction recs with
  | nil => rfl
  | cons e rest ih =>
    obtain ⟨k, app⟩ := e
    unfold Apps.NodupKeys at hn
    simp only [List.map_cons, List.nodup_cons] at hn
    have ih' := ih hn.2
    have hrest : k = a → Apps.get rest a = none := by
      intro e; subst e
      exact Apps.get_none_of_not_mem_keys hn.1
    rw [Apps.get_cons]
    by_cases hP : (app.status = Apps.stStaked && !app.jailed) = true
    · have : appIdxOf ((k, app) :: rest) = ((Apps.power app.tokens, k), k) :: appIdxOf rest := by
        unfold appIdxOf; simp [hP]
      rw [this, Apps.get_cons]
      simp only [Bool.and_eq_true, decide_eq_true_eq, Bool.not_eq_true'] at hP
      by_cases hk : k = a
      · subst hk
        simp only [if_true, Apps.specOf, hP.1, hP.2, true_and]
        by_cases hp : Apps.power app.tokens = p
        · simp [hp]
        · have : ¬ ((Apps.power app.tokens, k) = (p, k)) := by intro e; exact hp (by injection e)
          simp only [this, if_false, hp]
          rw [ih', hrest rfl]; rfl
      · have : ¬ ((Apps.power app.tokens, k) = (p, a)) := by intro e; exact hk (by injection e)
        simp only [this, if_false, hk]
        exact ih'
    · have : appIdxOf ((k, app) :: rest) = appIdxOf rest := by
        unfold appIdxOf; simp [hP]
      rw [this, ih']
      by_cases hk : k = a
      · subst hk
        simp only [if_true, hrest rfl, Apps.specOf]
        have : ¬ (app.status = Apps.stStaked ∧ app.jailed = false ∧ Apps.power app.tokens = p) := by
          intro ⟨x, y, _⟩; apply hP; simp [x, y]
        simp [this]
      · simp [hk]

theorem nodup_map_snd_update (recs : List (Addr × Apps.App)) (f : Addr × Apps.App → Apps.App) (h : Apps.NodupKeys recs) :
    Apps.NodupKeys (recs.map (fun e => (e.1, f e))) := by
  unfold Apps.NodupKeys at *
  simpa [List.map_map, Function.comp_def] using h

theorem nodup_filter (recs : List (Addr × Apps.App)) (p : Addr × Apps.App → Bool) (h : Apps.NodupKeys recs) :
    Apps.NodupKeys (recs.filter p) := by
  unfold Apps.NodupKeys at *
  exact List.Nodup.sublist (List.Sublist.map _ List.filter_sublist) h

/-! ## bridge to the applications ledger model (`Apps.St`) -/

/-- the applications-ledger view of a genesis-level ledger -/
def toApps (l : L) : Apps.St :=
  { apps := l.apps, idx := l.appIdx, queue := l.appQueue, pool := moduleBal l.accounts appPoolName, feeColl := 0,
    supply := l.supply, nodeStaked := moduleBal l.accounts poolName, bals := [], params := l.appParams, time := 0 }

theorem foldl_add_acc (xs : List (Addr × Apps.App)) (acc : Int) :
    xs.foldl (fun s e => s + e.2.tokens) acc = acc + xs.foldl (fun s e => s + e.2.tokens) 0 := by
  induction xs generalizing acc with
  | nil => simp
  | cons e xs ih =>
    simp only [List.foldl_cons]
    rw [ih (acc + e.2.tokens), ih (0 + e.2.tokens)]
    omega

theorem sumBonded_eq_staked (recs : List (Addr × Apps.App)) (h : ∀ e ∈ recs, e.2.status ≠ Apps.stUnstaking) :
    Apps.sumBonded recs = sumStakedApps recs := by
  induction recs with
  | nil => rfl
  | cons e rest ih =>
    obtain ⟨a, app⟩ := e
    have hr := ih (fun x hx => h x (List.mem_cons_of_mem _ hx))
    have hu : app.status ≠ Apps.stUnstaking := h (a, app) List.mem_cons_self
    rw [Apps.sumBonded_cons, hr]
    unfold sumStakedApps
    by_cases hs : app.status = Apps.stStaked
    · have : List.filter (fun e => decide (e.2.status = Apps.stStaked)) ((a, app) :: rest)
          = (a, app) :: List.filter (fun e => decide (e.2.status = Apps.stStaked)) rest := by simp [hs]
      rw [this, List.foldl_cons, foldl_add_acc _ (0 + app.tokens)]
      have hw : Apps.wt app = app.tokens := Apps.wt_staked hs
      rw [hw]; omega
    · have : List.filter (fun e => decide (e.2.status = Apps.stStaked)) ((a, app) :: rest)
          = List.filter (fun e => decide (e.2.status = Apps.stStaked)) rest := by simp [hs]
      rw [this]
      simp [Apps.wt, Apps.bonded, hs, hu]

theorem recomputed_props (g : G) (l : L) :
    (∀ e ∈ recomputed g l, e.2.status ≠ Apps.stUnstaking)
    ∧ (∀ e ∈ recomputed g l, ∃ e0 ∈ g.apps, e.1 = e0.1 ∧ e.2.tokens = e0.2.tokens) := by
  unfold recomputed keptApps
  refine ⟨?_, ?_⟩
  · intro e he
    obtain ⟨e0, he0, rfl⟩ := List.mem_map.mp he
    have := (List.mem_filter.mp he0).2
    simp only [Bool.and_eq_true, decide_eq_true_eq] at this
    simpa using this.2
  · intro e he
    obtain ⟨e0, he0, rfl⟩ := List.mem_map.mp he
    exact ⟨e0, (List.mem_filter.mp he0).1, rfl, rfl⟩

/-- **Every genesis `apps.InitGenesis` accepts establishes the ledger invariant** of the
applications module (unique addresses and non-negative stakes in the genesis file, pool account
provided): records well-formed, pool = Σ bonded, staked index exact. -/
theorem initApps_ledgerInv (g : G) (l l' : L) (h : initApps g l = some l') (hn : Apps.NodupKeys g.apps)
    (hpos : ∀ e ∈ g.apps, 0 ≤ e.2.tokens) (hne : moduleBal l.accounts appPoolName ≠ 0) :
    Apps.LedgerInv (toApps l') ∧ Apps.excess (toApps l') = 0 := by
  obtain ⟨ha, _, hi, _, hp, _, _, hacc⟩ := initApps_some h
  obtain ⟨hnu, hfrom⟩ := recomputed_props g l
  have hpool : moduleBal l'.accounts appPoolName = sumStakedApps (recomputed g l) := by
    rw [hacc hne]
    rcases hp with h0 | h1
    · exact absurd h0 hne
    · exact h1
  have hex : Apps.excess (toApps l') = 0 := by
    unfold Apps.excess toApps
    simp only
    rw [hpool, ha, sumBonded_eq_staked _ hnu]; omega
  have hnd : Apps.NodupKeys (recomputed g l) := nodup_map_snd_update _ _ (nodup_filter _ _ hn)
  refine ⟨⟨⟨?_, ?_, ?_⟩, ?_⟩, hex⟩
  · show Apps.NodupKeys l'.apps; rw [ha]; exact hnd
  · show Apps.NonNeg l'.apps; rw [ha]
    intro e he
    obtain ⟨e0, he0, _, ht⟩ := hfrom e he
    rw [ht]; exact hpos e0 he0
  · rw [hex]; exact Int.le_refl 0
  · intro p a
    show Apps.get l'.appIdx (p, a) = Apps.specOf (Apps.get l'.apps a) p a
    rw [hi, ha]
    exact appIdxOf_exact (recomputed g l) hnd p a

end Gen
