import PocketModel.Ledger.Ante
import Proofs.Num.Coins
/-!
# Lemmas about the ante handler model (used by Props/C14, C15, C16)
-/
namespace Ledger
open Coins

variable {S : Scheme} {Ω : Type}

/-! ## `ValidateTransaction` -/

/-- What a passing signer loop establishes about the returned key. -/
theorem signerLoop_pass {env : Env} {w : World S Ω} {tx : Tx S.PK} {doc : Bytes} {sim : Bool}
    {vs : List Addr} {pk : S.PK} (h : signerLoop S env w tx doc sim vs = .pass pk) :
    ∃ signer ∈ vs, signerKey w tx signer = .ok pk ∧
      (S.addr pk = signer ∨ env.height = haltHeight) ∧
      (sim = true ∨ S.verify pk doc tx.sig = true) ∧
      (∃ e, expectedFee w.params tx.msg = some e ∧
        (S.shape pk = .leaf → isAllGTE tx.fee e = true) ∧
        (∀ ks, S.shape pk = .node ks → validateSignatureDepth w.params.sigLimit ks = true)) := by
  induction vs with
  | nil => simp [signerLoop] at h
  | cons signer rest ih =>
    unfold signerLoop at h
    split at h
    · simp at h
    · rename_i pk' hk
      by_cases hskip : S.addr pk' ≠ signer ∧ env.height ≠ haltHeight
      · rw [if_pos hskip] at h
        obtain ⟨s, hs, r⟩ := ih h
        exact ⟨s, List.mem_cons_of_mem _ hs, r⟩
      · rw [if_neg hskip] at h
        have haddr : S.addr pk' = signer ∨ env.height = haltHeight := by
          by_cases h1 : S.addr pk' = signer
          · exact Or.inl h1
          · by_cases h2 : env.height = haltHeight
            · exact Or.inr h2
            · exact absurd ⟨h1, h2⟩ hskip
        split at h
        · simp at h
        · rename_i expected hexp
          split at h
          · rename_i hshape
            by_cases hfee : (!isAllGTE tx.fee expected) = true
            · rw [if_pos hfee] at h; simp at h
            · rw [if_neg hfee] at h
              by_cases hver : (!sim && !S.verify pk' doc tx.sig) = true
              · rw [if_pos hver] at h
                obtain ⟨s, hs, r⟩ := ih h
                exact ⟨s, List.mem_cons_of_mem _ hs, r⟩
              · rw [if_neg hver] at h
                injection h with h; subst h
                refine ⟨signer, List.mem_cons_self, hk, haddr, ?_, expected, hexp, ?_, ?_⟩
                · cases sim <;> simp_all
                · intro _; simpa using hfee
                · intro ks hks; rw [hshape] at hks; cases hks
          · rename_i ks hshape
            by_cases hdep : (!validateSignatureDepth w.params.sigLimit ks) = true
            · rw [if_pos hdep] at h; simp at h
            · rw [if_neg hdep] at h
              by_cases hver : (!sim && !S.verify pk' doc tx.sig) = true
              · rw [if_pos hver] at h
                obtain ⟨s, hs, r⟩ := ih h
                exact ⟨s, List.mem_cons_of_mem _ hs, r⟩
              · rw [if_neg hver] at h
                injection h with h; subst h
                refine ⟨signer, List.mem_cons_self, hk, haddr, ?_, expected, hexp, ?_, ?_⟩
                · cases sim <;> simp_all
                · intro hl; rw [hshape] at hl; cases hl
                · intro ks' hks; rw [hshape] at hks; injection hks with hks; subst hks; simpa using hdep

/-- Where the members of `validSigners` come from. -/
theorem mem_validSigners {env : Env} {w : World S Ω} {tx : Tx S.PK} {vs : List Addr}
    (h : validSigners env w tx = some vs) {a : Addr} (ha : a ∈ vs) :
    a ∈ tx.msg.signers ∨ (env.ncust = true ∧ env.oedit = true ∧ a = outputSigner w tx.msg) ∨
      (∃ pk, tx.pk = some pk ∧ a = S.addr pk ∧ isMsgAppTransfer env w a tx.msg = true) := by
  have hbase : ∀ {a}, a ∈ baseSigners env w tx.msg →
      a ∈ tx.msg.signers ∨ (env.ncust = true ∧ env.oedit = true ∧ a = outputSigner w tx.msg) := by
    intro a ha
    unfold baseSigners at ha
    split at ha
    · rename_i hc
      simp at hc
      rcases List.mem_append.mp ha with h1 | h1
      · exact Or.inl h1
      · exact Or.inr ⟨hc.1, hc.2, by simpa using h1⟩
    · exact Or.inl ha
  unfold validSigners at h
  simp only at h
  split at h
  · split at h
    · simp at h
    · rename_i pk hpk
      injection h with h
      subst h
      split at ha
      · rename_i htr
        rcases List.mem_append.mp ha with h1 | h1
        · rcases hbase h1 with h2 | h2
          · exact Or.inl h2
          · exact Or.inr (Or.inl h2)
        · have : a = S.addr pk := by simpa using h1
          subst this
          exact Or.inr (Or.inr ⟨pk, hpk, rfl, htr⟩)
      · rcases hbase ha with h2 | h2
        · exact Or.inl h2
        · exact Or.inr (Or.inl h2)
  · injection h with h
    subst h
    rcases hbase ha with h2 | h2
    · exact Or.inl h2
    · exact Or.inr (Or.inl h2)

/-- A passing `ValidateTransaction`: not indexed, memo within bounds, and the loop passed. -/
theorem validateTransaction_pass {SB : Bytes → Int → Coins → Bytes → Bytes → Bytes} {env : Env}
    {w : World S Ω} {tx : Tx S.PK} {idx sim : Bool} {pk : S.PK}
    (h : validateTransaction S SB env w tx idx sim = .pass pk) :
    idx = false ∧ tx.memo.length ≤ w.params.maxMemo ∧
      ∃ vs, validSigners env w tx = some vs ∧
        signerLoop S env w tx (signDocOf SB env.chainId tx) sim vs = .pass pk := by
  unfold validateTransaction at h
  split at h
  · simp at h
  · rename_i hm
    split at h
    · simp at h
    · rename_i hi
      split at h
      · simp at h
      · rename_i vs hvs
        exact ⟨by simpa using hi, by omega, vs, hvs, h⟩

/-! ## bank -/

/-- The coins held at an address (`GetCoins`). -/
def coinsAt {PK : Type} (m : Addr → Option (Account PK)) (a : Addr) : Coins :=
  match m a with
  | none => []
  | some acc => acc.coins

/-- The stored public key at an address. -/
def pkAt {PK : Type} (m : Addr → Option (Account PK)) (a : Addr) : Option PK :=
  match m a with
  | none => none
  | some acc => acc.pk

theorem setCoins_ok {PK : Type} {m m' : Addr → Option (Account PK)} {a : Addr} {c : Coins}
    (h : setCoins m a c = .ok m') :
    coinsAt m' a = c ∧ pkAt m' a = pkAt m a ∧ (∀ x, x ≠ a → m' x = m x) ∧ isValid c = true := by
  unfold setCoins at h
  split at h
  · simp at h
  · rename_i hv
    have hv' : isValid c = true := by simpa using hv
    split at h
    · rename_i hn
      injection h with h; subst h
      refine ⟨by simp [coinsAt, setAcc], by simp [pkAt, setAcc, hn], ?_, hv'⟩
      intro x hx; simp [setAcc, hx]
    · rename_i acc hs
      injection h with h; subst h
      refine ⟨by simp [coinsAt, setAcc], by simp [pkAt, setAcc, hs], ?_, hv'⟩
      intro x hx; simp [setAcc, hx]

theorem subtractCoins_ok {PK : Type} {m m' : Addr → Option (Account PK)} {a : Addr} {amt : Coins}
    (h : subtractCoins m a amt = .ok m') :
    (∀ d, sumOf (coinsAt m' a) d = sumOf (coinsAt m a) d - sumOf amt d) ∧
      pkAt m' a = pkAt m a ∧ (∀ x, x ≠ a → m' x = m x) := by
  unfold subtractCoins at h
  split at h
  · simp at h
  · simp only at h
    split at h
    · simp at h
    · simp at h
    · rename_i d hsub
      split at h
      · rename_i m1 hset
        injection h with h; subst h
        obtain ⟨h1, h2, h3, _⟩ := setCoins_ok hset
        refine ⟨?_, h2, h3⟩
        intro e
        rw [h1]
        simp [safeSub, Option.map_eq_some_iff] at hsub
        obtain ⟨d', hadd, hd, _⟩ := hsub
        subst hd
        rw [safeAdd_sumOf _ _ _ hadd, sumOf_negative]
        unfold coinsAt
        cases m a <;> simp <;> omega
      · simp at h

theorem addCoins_ok {PK : Type} {m m' : Addr → Option (Account PK)} {a : Addr} {amt : Coins}
    (h : addCoins m a amt = .ok m') :
    (∀ d, sumOf (coinsAt m' a) d = sumOf (coinsAt m a) d + sumOf amt d) ∧
      pkAt m' a = pkAt m a ∧ (∀ x, x ≠ a → m' x = m x) := by
  unfold addCoins at h
  split at h
  · simp at h
  · simp only at h
    split at h
    · simp at h
    · rename_i s hadd
      split at h
      · simp at h
      · split at h
        · rename_i m1 hset
          injection h with h; subst h
          obtain ⟨h1, h2, h3, _⟩ := setCoins_ok hset
          refine ⟨?_, h2, h3⟩
          intro e
          rw [h1, safeAdd_sumOf _ _ _ hadd]
          unfold coinsAt
          cases m a <;> simp
        · simp at h

/-- `SendCoins` between two different addresses moves exactly `amt`, touches nothing else. -/
theorem sendCoins_ok {PK : Type} {m m' : Addr → Option (Account PK)} {src dst : Addr} {amt : Coins}
    (hne : src ≠ dst) (h : sendCoins m src dst amt = .ok m') :
    (∀ d, sumOf (coinsAt m' src) d = sumOf (coinsAt m src) d - sumOf amt d) ∧
      (∀ d, sumOf (coinsAt m' dst) d = sumOf (coinsAt m dst) d + sumOf amt d) ∧
      pkAt m' src = pkAt m src ∧ pkAt m' dst = pkAt m dst ∧
      (∀ x, x ≠ src → x ≠ dst → m' x = m x) := by
  unfold sendCoins at h
  split at h
  · rename_i m1 hsub
    obtain ⟨s1, s2, s3⟩ := subtractCoins_ok hsub
    obtain ⟨a1, a2, a3⟩ := addCoins_ok h
    have hsrc : m' src = m1 src := a3 src hne
    have hdst : m1 dst = m dst := s3 dst (Ne.symm hne)
    refine ⟨?_, ?_, ?_, ?_, ?_⟩
    · intro d; rw [← s1 d]; unfold coinsAt; rw [hsrc]
    · intro d; rw [a1 d]; unfold coinsAt; rw [hdst]
    · rw [← s2]; unfold pkAt; rw [hsrc]
    · rw [a2]; unfold pkAt; rw [hdst]
    · intro x h1 h2; rw [a3 x h2, s3 x h1]
  · rename_i r hr
    cases r <;> simp_all

/-! ## the ante handler -/

/-- A continuing ante handler: transaction-level basic checks passed, `ValidateTransaction` passed
with the returned key, and `DeductFees` produced the new account map. -/
theorem anteHandler_cont {SB : Bytes → Int → Coins → Bytes → Bytes → Bytes} {env : Env}
    {w w' : World S Ω} {tx : Tx S.PK} {idx sim : Bool} {pk : S.PK}
    (h : anteHandler S SB env w tx idx sim = .cont w' pk) :
    txValidateBasic tx = none ∧ validateTransaction S SB env w tx idx sim = .pass pk ∧
      ∃ m, deductFees env w tx pk = .ok m ∧ w' = { w with accounts := m } := by
  unfold anteHandler at h
  split at h
  · simp at h
  · rename_i hb
    split at h
    · simp at h
    · simp at h
    · rename_i pk' hvt
      split at h
      · simp at h
      · simp at h
      · rename_i m hd
        injection h with h1 h2
        subst h2
        exact ⟨hb, hvt, m, hd, h1.symm⟩

theorem txValidateBasic_none {PK : Type} {tx : Tx PK} (h : txValidateBasic tx = none) :
    isValid tx.fee = true ∧ tx.sig ≠ [] := by
  unfold txValidateBasic at h
  split at h
  · simp at h
  · rename_i hv
    split at h
    · simp at h
    · rename_i hs
      refine ⟨by simpa using hv, ?_⟩
      intro he; rw [he] at hs; simp at hs

/-- `DeductFees` success: the payer exists and `SendCoins payer → feeCollector` succeeded. -/
theorem deductFees_ok {env : Env} {w : World S Ω} {tx : Tx S.PK} {pk : S.PK}
    {m : Addr → Option (Account S.PK)} (h : deductFees env w tx pk = .ok m) :
    ∃ payer, feePayer env tx pk = some payer ∧ (∃ acc, w.accounts payer = some acc) ∧
      sendCoins w.accounts payer env.feeCollector tx.fee = .ok m := by
  unfold deductFees at h
  split at h
  · simp at h
  · simp only at h
    split at h
    · simp at h
    · rename_i payer hp
      split at h
      · simp at h
      · rename_i acc hacc
        split at h
        · simp at h
        · simp at h
        · exact ⟨payer, by simpa [feePayer] using hp, ⟨acc, hacc⟩, h⟩

/-! ## coin arithmetic for the fee check -/

theorem sumOf_nonneg {cs : Coins} (h : ∀ c ∈ cs, 0 < c.amount) (d : Denom) : 0 ≤ sumOf cs d := by
  induction cs with
  | nil => simp
  | cons c cs ih =>
    have h1 := h c List.mem_cons_self
    have h2 := ih (fun x hx => h x (List.mem_cons_of_mem _ hx))
    simp only [sumOf_cons]
    split <;> omega

/-- `IsAllGTE fee [upokt:f]` on a valid fee means the fee holds at least `f` upokt. -/
theorem isAllGTE_single {fee : Coins} {f : Int} (hv : isValid fee = true)
    (h : isAllGTE fee [⟨upokt, f⟩] = true) : f ≤ sumOf fee upokt := by
  obtain ⟨hs, _⟩ := isValid_canonical fee hv
  unfold isAllGTE at h
  simp at h
  have h2 := h.2
  rw [amountOf_eq_sumOf _ _ hs] at h2
  exact h2

end Ledger
