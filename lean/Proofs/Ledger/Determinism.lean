import PocketModel.Ledger.Determinism
/-! Lemmas for C12: permutation invariance of the reward-delegator pipeline. -/
namespace Determinism

variable {A : Type}

def strip (e : Option A × Nat) : Option (A × Nat) := e.1.map (fun a => (a, e.2))

theorem normalizeGo_spec (total : Nat) (acc : List (A × Nat)) (es : List (Option A × Nat)) (ht : total ≤ 100) :
    normalizeGo total acc es =
      if (es.all (fun e => e.2 != 0 && e.1.isSome) && decide (total + (es.map (·.2)).sum ≤ 100)) = true
      then some (acc.reverse ++ es.filterMap strip) else none := by
  induction es generalizing total acc with
  | nil => simp [normalizeGo, ht]
  | cons e rest ih =>
    obtain ⟨a?, sh⟩ := e
    simp only [normalizeGo]
    by_cases h0 : sh = 0
    · simp [h0]
    · simp only [if_neg h0]
      cases a? with
      | none => simp
      | some a =>
        by_cases hgt : total + sh > 100
        · have : ¬ (total + (sh + (rest.map (·.2)).sum) ≤ 100) := by omega
          simp [hgt, this]
        · have hle : total + sh ≤ 100 := by omega
          simp only [if_neg hgt, ih (total + sh) ((a, sh) :: acc) hle]
          have e1 : total + sh + (rest.map (·.2)).sum = total + (sh + (rest.map (·.2)).sum) := by omega
          have hs : (sh != 0) = true := by simp [h0]
          simp only [List.map_cons, List.sum_cons, List.all_cons, Option.isSome_some, Bool.and_true, hs,
            Bool.true_and, e1, List.filterMap_cons, strip, Option.map_some, List.reverse_cons, List.append_assoc,
            List.singleton_append]

theorem normalize_spec (es : List (Option A × Nat)) :
    normalize es = if validDelegators es = true then some (es.filterMap strip) else none := by
  unfold normalize validDelegators
  rw [normalizeGo_spec 0 [] es (by omega)]
  simp only [Nat.zero_add, List.reverse_nil, List.nil_append]

theorem validDelegators_perm {es es' : List (Option A × Nat)} (h : es.Perm es') :
    validDelegators es = validDelegators es' := by
  unfold validDelegators
  rw [h.all_eq, (h.map (·.2)).sum_nat]

/-- `NormalizeRewardDelegators` succeeds for one iteration order iff it succeeds for every other,
and the normalised slices are permutations of each other. -/
theorem normalize_perm {es es' : List (Option A × Nat)} (h : es.Perm es') :
    (normalize es).isSome = (normalize es').isSome ∧
    ∀ n n', normalize es = some n → normalize es' = some n' → n.Perm n' := by
  rw [normalize_spec, normalize_spec, validDelegators_perm h]
  constructor
  · cases validDelegators es' <;> simp
  · intro n n' h1 h2
    cases hv : validDelegators es' with
    | false => simp [hv] at h1
    | true =>
      simp only [hv, if_true, Option.some.injEq] at h1 h2
      subst h1; subst h2
      exact h.filterMap strip

theorem isum_perm {l l' : List Int} (h : l.Perm l') : isum l = isum l' := by
  unfold isum
  apply h.foldl_eq'
  intro x _ y _ z
  omega

theorem splitPays_perm (rewards : Int) (primary : A) {n n' : List (A × Nat)} (h : n.Perm n') :
    (splitPays rewards primary n).Perm (splitPays rewards primary n') := by
  unfold splitPays
  have hs : isum (n.map fun e => alloc rewards e.2) = isum (n'.map fun e => alloc rewards e.2) :=
    isum_perm (h.map _)
  simp only [hs]
  have hp := h.filterMap (fun e : A × Nat => if alloc rewards e.2 > 0 then some (e.1, alloc rewards e.2) else none)
  split
  · exact hp.append_right _
  · exact hp

theorem credit_comm [DecidableEq A] (bal : A → Int) (p q : A × Int) :
    credit (credit bal p) q = credit (credit bal q) p := by
  funext x
  simp only [credit]
  by_cases h1 : x = p.1
  · by_cases h2 : x = q.1
    · simp only [if_pos h1, if_pos h2]; omega
    · simp only [if_pos h1, if_neg h2]
  · by_cases h2 : x = q.1
    · simp only [if_pos h2, if_neg h1]
    · simp only [if_neg h1, if_neg h2]

theorem applyPays_perm [DecidableEq A] (bal : A → Int) {ps ps' : List (A × Int)} (h : ps.Perm ps') :
    applyPays bal ps = applyPays bal ps' := by
  unfold applyPays
  apply h.foldl_eq'
  intro x _ y _ z
  exact credit_comm z x y

/-- Sorting two permutations of the same entries with a total, transitive order that is
antisymmetric on them gives the same list ("keys are sorted before use"). -/
theorem mergeSort_perm_eq {α : Type} (le : α → α → Bool)
    (htrans : ∀ a b c, le a b = true → le b c = true → le a c = true)
    (htotal : ∀ a b, (le a b || le b a) = true)
    {l l' : List α} (hanti : ∀ a b, a ∈ l → b ∈ l → le a b = true → le b a = true → a = b)
    (h : l.Perm l') : l.mergeSort le = l'.mergeSort le := by
  have p1 := List.pairwise_mergeSort htrans htotal l
  have p2 := List.pairwise_mergeSort htrans htotal l'
  have hp : (l.mergeSort le).Perm (l'.mergeSort le) :=
    (List.mergeSort_perm l le).trans (h.trans (List.mergeSort_perm l' le).symm)
  apply List.Perm.eq_of_pairwise _ p1 p2 hp
  intro a b ha hb hab hba
  have ha' : a ∈ l := (List.mergeSort_perm l le).mem_iff.mp ha
  have hb' : b ∈ l := h.mem_iff.mpr ((List.mergeSort_perm l' le).mem_iff.mp hb)
  exact hanti a b ha' hb' hab hba

/-- A total order given as a Boolean `≤` (`bytes.Compare(a, b) <= 0`, `a <= b` on strings). -/
structure TotalOrder {α : Type} (le : α → α → Bool) : Prop where
  trans : ∀ a b c, le a b = true → le b c = true → le a c = true
  total : ∀ a b, (le a b || le b a) = true
  antisymm : ∀ a b, le a b = true → le b a = true → a = b

theorem eq_of_nodup_map {α β : Type} (f : α → β) {l : List α} (h : (l.map f).Nodup) {a b : α}
    (ha : a ∈ l) (hb : b ∈ l) (hf : f a = f b) : a = b := by
  induction l with
  | nil => cases ha
  | cons x xs ih =>
    simp only [List.map_cons, List.nodup_cons, List.mem_map, not_exists, not_and] at h
    rcases List.mem_cons.mp ha with rfl | ha' <;> rcases List.mem_cons.mp hb with rfl | hb'
    · rfl
    · exact absurd hf.symm (h.1 b hb')
    · exact absurd hf (h.1 a ha')
    · exact ih h.2 ha' hb'

/-- Sorting by a key that is distinct on the entries makes the result independent of the order the
entries came in. -/
theorem sortByKey_perm_eq {κ β : Type} (le : κ → κ → Bool) (ho : TotalOrder le) {l l' : List (κ × β)}
    (hnd : (l.map (·.1)).Nodup) (h : l.Perm l') :
    l.mergeSort (fun a b => le a.1 b.1) = l'.mergeSort (fun a b => le a.1 b.1) := by
  apply mergeSort_perm_eq _ (fun a b c => ho.trans a.1 b.1 c.1) (fun a b => ho.total a.1 b.1) _ h
  intro a b ha hb hab hba
  exact eq_of_nodup_map (·.1) hnd ha hb (ho.antisymm _ _ hab hba)

/-- `NormalizeRewardDelegators` as it is now returns the same slice whatever order the map range
yields the entries in (for delegator keys that decode to distinct addresses). -/
theorem normalizeSorted_perm_eq (le : A → A → Bool) (ho : TotalOrder le) {es es' : List (Option A × Nat)}
    (hnd : ((es.filterMap strip).map (·.1)).Nodup) (h : es.Perm es') :
    normalizeSorted le es = normalizeSorted le es' := by
  unfold normalizeSorted
  rw [normalize_spec, normalize_spec, validDelegators_perm h]
  cases validDelegators es' with
  | false => rfl
  | true =>
    simp only [if_true, Option.map_some, Option.some.injEq]
    exact sortByKey_perm_eq le ho hnd (h.filterMap strip)

theorem splitNodeRewardsSorted_perm_eq (le : A → A → Bool) (ho : TotalOrder le) (rewards : Int) (primary : A)
    {es es' : List (Option A × Nat)} (hnd : ((es.filterMap strip).map (·.1)).Nodup) (h : es.Perm es') :
    splitNodeRewardsSorted le rewards primary es = splitNodeRewardsSorted le rewards primary es' := by
  unfold splitNodeRewardsSorted
  rw [normalizeSorted_perm_eq le ho hnd h]

end Determinism
