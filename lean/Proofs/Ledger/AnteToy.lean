import Proofs.Ledger.Pipeline
/-!
# A small concrete instance of the ante model

Used for non-vacuity examples and for the counterexample theorems of C14 (chain-halt height),
C15 (multisig keys skip the fee check) and C16 (two byte strings, one signed content).
Keys are numbers, the address of key `k` is the one-byte string `[k]`, key 9 is a 2-key multisig,
every signature verifies (the scheme plays no role in these witnesses) except under key 7.
-/
namespace Ledger.Toy
open Coins

def S : Scheme :=
  { PK := Nat, addr := fun k => [UInt8.ofNat k],
    shape := fun k => if k = 9 then .node [.leaf, .leaf] else .leaf,
    verify := fun k _ _ => k != 7 }

def params : Params := ⟨256, 7, [], 1⟩
def env (h : Int) : Env := ⟨h, [], true, true, true, true, true, [200]⟩
def SB : Bytes → Int → Coins → Bytes → Bytes → Bytes := fun c _ _ _ _ => c

/-- Accounts `[1]`, `[2]`, `[7]`, `[9]` hold 100000 upokt each. -/
def w : World S Nat :=
  { accounts := fun a => if a = [9] ∨ a = [1] ∨ a = [2] ∨ a = [7] then some ⟨[⟨upokt, 100000⟩], none⟩ else none,
    params := params, valOutput := fun _ => none, isApp := fun _ => false, rest := 0 }

/-- A message whose only declared signer is `frm`, required fee `fee`. -/
def msg (frm : Addr) (fee : Int) : Msg := ⟨[115], [frm], fee, .other, none, []⟩
/-- A transaction from `[frm]` carrying public key `k` and the fee coins `f`. -/
def tx (frm k : Nat) (required : Int) (f : Coins) : Tx Nat :=
  ⟨msg [UInt8.ofNat frm] required, f, some k, [1], [], 1⟩

def isCont {S : Scheme} {Ω : Type} : AnteOut S Ω → Bool
  | .cont _ _ => true
  | .abort _ => false

theorem isCont_iff {S : Scheme} {Ω : Type} (o : AnteOut S Ω) : isCont o = true ↔ ∃ w pk, o = .cont w pk := by
  cases o <;> simp [isCont]

/-- `Int256.add` of small numbers does not overflow. -/
theorem add_small (a b : Int) (h : (a + b).natAbs < 2 ^ 255) : Int256.add a b = some (a + b) := by
  unfold Int256.add
  rw [if_neg]
  exact (Int256.bitLen_le_iff (a + b) 255).mpr h

set_option linter.unusedSimpArgs false

/-- Hooks whose handler counts executed messages in `World.rest`. -/
def countingHooks (decode : Bytes → Option (Tx Nat)) : Hooks S Nat :=
  { decode := decode, hash := id, SB := SB,
    handler := fun _ w _ _ => ({ w with rest := w.rest + 1 }, Result.okRes) }

/-- A decoder that maps *every* byte string to one and the same signed transaction — what a
malleable wire format looks like from the pipeline's point of view. -/
def sloppy : Bytes → Option (Tx Nat) := fun _ => some (tx 1 1 0 [])

def node0 : Node S Nat := ⟨w, [], [], []⟩

/-- For each DeliverTx of a history from `node0`: did it pass the ante handler, and the message
counter afterwards. -/
def observe (ops : List (Op S Nat)) : List (Bool × Nat) :=
  (run (countingHooks sloppy) node0 ops).2.map fun e => (e.passed, e.post.rest)

local macro "ante_eval" : tactic => `(tactic|
  simp [observe, run, deliverTx, antePasses, runTx, countingHooks, sloppy, node0, endBlock, Result.anteLevel,
    Result.okRes, anteHandler, txValidateBasic, isValid, isValidTail, isLower, validateTransaction, validSigners, baseSigners,
    outputSigner, isMsgAppTransfer, signerLoop, signerKey, tx, msg, w, params, env, S, expectedFee, getFee,
    validateSignatureDepth, recSignDepth, recSignKey, deductFees, sendCoins, subtractCoins, addCoins, setCoins,
    setAcc, safeSub, safeAdd, negative, removeZero, pushNZ, isAnyNegative, isCont, signDocOf, haltHeight, upokt,
    validDenom, isAllGTE, amountOf, add_small])

/-- An ordinary transaction: key 1 signs for `[1]` and pays the required fee. -/
theorem plain_cont : isCont (anteHandler S SB (env 5) w (tx 1 1 10000 [⟨upokt, 10000⟩]) false false) = true := by
  ante_eval

/-- The multisig key 9 signs for `[9]` with an empty fee although 10000 is required: accepted. -/
theorem multi_cont : isCont (anteHandler S SB (env 5) w (tx 9 9 10000 []) false false) = true := by
  ante_eval

/-- The same with a simple key is refused. -/
theorem plain_lowfee_abort : isCont (anteHandler S SB (env 5) w (tx 1 1 10000 []) false false) = false := by
  ante_eval

/-- Key 2 signs a transaction whose only declared signer is `[1]`: refused at height 5 … -/
theorem stranger_abort : isCont (anteHandler S SB (env 5) w (tx 1 2 10000 [⟨upokt, 10000⟩]) false false) = false := by
  ante_eval

/-- … and accepted at the chain-halt height. -/
theorem stranger_cont_at_halt :
    isCont (anteHandler S SB (env haltHeight) w (tx 1 2 10000 [⟨upokt, 10000⟩]) false false) = true := by
  ante_eval

/-- A free message (required fee 0) with an empty fee. -/
theorem free_cont : isCont (anteHandler S SB (env 5) w (tx 1 1 0 []) false false) = true := by
  ante_eval

/-- Two different byte strings with the same decoded content are both executed in one block. -/
theorem two_encodings_both_run :
    observe [.deliver (env 5) [1], .deliver (env 5) [2]] = [(true, 1), (true, 2)] := by
  ante_eval

/-- The same bytes again in the same block: blocked by the in-block cache. -/
theorem same_bytes_second_blocked :
    observe [.deliver (env 5) [1], .deliver (env 5) [1]] = [(true, 1), (false, 1)] := by
  ante_eval

/-- The same bytes in a later block: blocked by the indexer; another encoding still runs. -/
theorem same_bytes_next_block_blocked :
    observe [.deliver (env 5) [1], .endBlock, .deliver (env 6) [1], .deliver (env 6) [2]] =
      [(true, 1), (false, 1), (true, 2)] := by
  ante_eval

end Ledger.Toy
