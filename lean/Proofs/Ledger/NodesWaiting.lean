import Proofs.Ledger.NodesUnstake
/-!
# How an address gets into the waiting-to-unstake set (C24): the three transaction handlers and the slash
-/
namespace Nodes

/-- `handleMsgBeginUnstake`: the node is queued iff the message is accepted -/
theorem waiting_after_beginUnstake (s : State) (a signer : Addr) (hk : ∀ v, aget s.vals a = some v → v.addr = a) :
    (handleBeginUnstake s a signer).1.waiting =
      if (handleBeginUnstake s a signer).2 = .ok then sins s.waiting a else s.waiting := by
  unfold handleBeginUnstake
  cases hv : aget s.vals a with
  | none => simp
  | some v =>
    simp only
    by_cases h1 : signerOk v.addr v.output signer = false
    · simp [h1]
    · by_cases h2 : v.status ≠ .staked
      · simp [h1, h2]
      · simp only [if_neg h1, if_neg h2, if_true]
        -- the key written is the record's own address
        show sins s.waiting v.addr = sins s.waiting a
        rw [hk v hv]

/-- `handleMsgUnjail` never queues anybody but the addressed node, and only on the rejected
"stake below the minimum" path of a message signed by the operator or the output address -/
theorem waiting_after_unjail (s : State) (h t : Int) (a signer : Addr) :
    (handleUnjail s h t a signer).1.waiting = s.waiting ∨
    (∃ v, aget s.vals a = some v ∧ signerOk v.addr v.output signer = true ∧ v.tokens < s.params.minStake ∧
      (handleUnjail s h t a signer).1.waiting = sins s.waiting v.addr ∧ (handleUnjail s h t a signer).2 ≠ .ok) := by
  unfold handleUnjail
  cases hv : aget s.vals a with
  | none => exact Or.inl rfl
  | some v =>
    simp only
    by_cases h1 : signerOk v.addr v.output signer = false
    · simp [h1]
    · by_cases h2 : v.tokens < s.params.minStake
      · right
        refine ⟨v, rfl, by cases hb : signerOk v.addr v.output signer <;> simp_all, h2, ?_, ?_⟩ <;> simp [h1, h2]
      · left
        simp only [if_neg h1, if_neg h2]
        split
        · rfl
        · cases aget s.signInfo v.addr with
          | none => rfl
          | some si =>
            simp only
            split
            · rfl
            · unfold unjailValidator
              cases aget s.vals v.addr with
              | none => rfl
              | some w =>
                simp only
                split
                · rfl
                · simp [resetSigningInfo, clearMissed]

/-- `handleStake` never touches the waiting set -/
theorem waiting_after_stake (s : State) (h : Int) (m : StakeMsg) (signer : Addr) :
    (handleStake s h m signer).1.waiting = s.waiting := by
  by_cases hok : (handleStake s h m signer).2 = .ok
  · unfold handleStake at hok ⊢
    by_cases hu : m.url.length > 255
    · simp [hu] at hok
    · by_cases hdl : delegatorsOk m.delegators = false
      · simp [hu, hdl] at hok
      · simp only [if_neg hu, if_neg hdl] at hok ⊢
        cases hv : validateStaking s m signer with
        | err c => rfl
        | ok =>
          simp only
          have hnew : (stakeValidator.stakeNew h m signer s).1.waiting = s.waiting := by
            unfold stakeValidator.stakeNew
            cases hp : toPool s signer m.amount with
            | none => rfl
            | some s1 =>
              obtain ⟨_, _, e1⟩ := toPool_spec hp
              subst e1
              simp only
              split <;> simp
          unfold stakeValidator
          cases hc : aget s.vals m.addr with
          | none => exact hnew
          | some c =>
            simp only
            split
            · unfold editStake
              simp only
              split
              · rfl
              · rename_i s1 hp
                have hs1 : s1.waiting = s.waiting := by
                  split at hp
                  · obtain ⟨_, _, e1⟩ := toPool_spec hp; subst e1; rfl
                  · injection hp with hp; subst hp; rfl
                split <;> split <;> simp [resetSigningInfo, clearMissed, hs1]
            · exact hnew
  · rw [handleStake_err_vals hok]

/-- a challenge burn queues the slashed node exactly when its stake falls below the minimum (and then jails it) -/
theorem waiting_after_burn (s : State) (hi : Inv s) (a : Addr) (v : Val) (hv : aget s.vals a = some v) (amount : Int)
    (hpos : 0 < amount) :
    (v.tokens - burnAmount amount v.tokens < s.params.minStake → a ∈ (simpleSlash s a amount).waiting) ∧
    (s.params.minStake ≤ v.tokens - burnAmount amount v.tokens → (simpleSlash s a amount).waiting = s.waiting) := by
  have h := simpleSlash_slashed hi hv amount hpos
  have hk := hi.keys a v hv
  obtain ⟨v', _, h2, _, _, _, _, h7, h8⟩ := h.record
  constructor
  · intro hl
    have := (h7 (by omega)).2
    rw [hk] at this; exact this
  · intro hl
    exact (h8 (by omega)).2

end Nodes
