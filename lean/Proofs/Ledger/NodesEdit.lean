import Proofs.Ledger.NodesTx
/-!
# Edit-stake: what an accepted `MsgStake` on an already staked node does (C23, node part)
-/
namespace Nodes

/-- what `ValidateEditStake` has established when it accepts -/
theorem validateEditStake_ok {s : State} {cur : Val} {m : StakeMsg} {signer : Addr}
    (h : validateEditStake s cur m signer = .ok) :
    cur.tokens ≤ m.amount ∧
    ¬ (m.amount < s.params.ceiling ∧ m.amount - m.amount % s.params.floorMult ≤ cur.tokens) ∧
    (m.amount ≠ cur.tokens → m.amount - cur.tokens ≤ balOf s signer) ∧
    (cur.output = [] ∨ signer = cur.output ∨ m.output = cur.output) ∧
    (m.delegators = cur.delegators ∨ signer = cur.addr) ∧
    cur.addr ∉ s.waiting := by
  unfold validateEditStake at h
  simp only at h
  split at h
  · cases h
  · rename_i h1
    split at h
    · cases h
    · rename_i h2
      split at h
      · cases h
      · rename_i h3
        split at h
        · cases h
        · rename_i h4
          split at h
          · cases h
          · rename_i h5
            split at h
            · cases h
            · rename_i h6
              refine ⟨by omega, h2, ?_, ?_, ?_, h6⟩
              · intro hne
                have : ¬ (balOf s signer < m.amount - cur.tokens) := fun hb => h3 ⟨by omega, hb⟩
                omega
              · by_cases a1 : cur.output = []
                · exact Or.inl a1
                · by_cases a2 : signer = cur.output
                  · exact Or.inr (Or.inl a2)
                  · by_cases a3 : m.output = cur.output
                    · exact Or.inr (Or.inr a3)
                    · exact absurd ⟨a1, a2, a3⟩ h4
              · by_cases a1 : m.delegators = cur.delegators
                · exact Or.inl a1
                · by_cases a2 : signer = cur.addr
                  · exact Or.inr a2
                  · exact absurd ⟨a1, a2⟩ h5

theorem ite_reset_vals (c : Prop) [Decidable c] (x : State) (a : Addr) (h : Int) :
    (if c then resetSigningInfo x a h else x).vals = x.vals := by
  split <;> rfl

/-- an accepted `MsgStake` for an already staked node: the validations that passed and the record written -/
theorem handleStake_edit {s : State} {h : Int} {m : StakeMsg} {signer : Addr} {cur : Val}
    (hc : aget s.vals m.addr = some cur) (hk : cur.addr = m.addr) (hs : cur.status = .staked)
    (hok : (handleStake s h m signer).2 = .ok) :
    validateEditStake s cur m signer = .ok ∧ signerOk cur.addr cur.output signer = true ∧ m.output ≠ [] ∧
    aget (handleStake s h m signer).1.vals m.addr =
      some { cur with tokens := m.amount, output := m.output, delegators := m.delegators, chains := m.chains, url := m.url } := by
  unfold handleStake at hok ⊢
  by_cases hu : m.url.length > 255
  · simp [hu] at hok
  · by_cases hdl : delegatorsOk m.delegators = false
    · simp [hu, hdl] at hok
    · simp only [if_neg hu, if_neg hdl] at hok ⊢
      cases hv : validateStaking s m signer with
      | err c => simp [hv] at hok
      | ok =>
        simp only [hv] at hok ⊢
        -- what validateStaking checked
        have hval : validateEditStake s cur m signer = .ok ∧ signerOk cur.addr cur.output signer = true ∧ m.output ≠ [] := by
          unfold validateStaking at hv
          simp only [hc] at hv
          split at hv
          · cases hv
          · split at hv
            · cases hv
            · rename_i ho
              split at hv
              · cases hv
              · split at hv
                · cases hv
                · rename_i hso
                  try rw [if_pos hs] at hv
                  refine ⟨hv, ?_, ho⟩
                  cases hb : signerOk cur.addr cur.output signer <;> simp_all
        obtain ⟨hve, hso, hout⟩ := hval
        obtain ⟨hge, _, hbal, _⟩ := validateEditStake_ok hve
        refine ⟨hve, hso, hout, ?_⟩
        unfold stakeValidator at hok ⊢
        simp only [hc, if_pos hs] at hok ⊢
        unfold editStake at hok ⊢
        simp only at hok ⊢
        by_cases hd : m.amount - cur.tokens > 0
        · simp only [if_pos hd] at hok ⊢
          have hp : toPool s signer (m.amount - cur.tokens) =
              some { s with bal := aset s.bal signer (balOf s signer - (m.amount - cur.tokens)), pool := s.pool + (m.amount - cur.tokens) } := by
            unfold toPool
            rw [if_neg (by omega), if_neg (by have := hbal (by omega); omega)]
          rw [hp]
          simp only
          have he : cur.tokens + (m.amount - cur.tokens) = m.amount := by omega
          rw [ite_reset_vals]
          simp [setValidator_vals, hk, he]
        · simp only [if_neg hd] at hok ⊢
          have he : cur.tokens = m.amount := by omega
          rw [ite_reset_vals]
          simp [setValidator_vals, hk, he]

/-- a `MsgStake` for a staked node that is waiting to unstake is rejected and changes no record -/
theorem handleStake_waiting {s : State} {h : Int} {m : StakeMsg} {signer : Addr} {cur : Val}
    (hc : aget s.vals m.addr = some cur) (hk : cur.addr = m.addr) (hs : cur.status = .staked)
    (hw : m.addr ∈ s.waiting) : (handleStake s h m signer).2 ≠ .ok := by
  intro hok
  obtain ⟨hve, _⟩ := handleStake_edit hc hk hs hok
  exact (validateEditStake_ok hve).2.2.2.2.2 (by rw [hk]; exact hw)

/-- a rejected `MsgStake` on an existing record leaves all records as they were (the only early return after
a write is a failing coin transfer, and the transfer itself is the first write) -/
theorem handleStake_err_vals {s : State} {h : Int} {m : StakeMsg} {signer : Addr}
    (herr : (handleStake s h m signer).2 ≠ .ok) : (handleStake s h m signer).1 = s := by
  unfold handleStake at herr ⊢
  by_cases hu : m.url.length > 255
  · simp [hu]
  · by_cases hdl : delegatorsOk m.delegators = false
    · simp [hu, hdl]
    · simp only [if_neg hu, if_neg hdl] at herr ⊢
      cases hv : validateStaking s m signer with
      | err c => rfl
      | ok =>
        simp only [hv] at herr ⊢
        have hnew : (stakeValidator.stakeNew h m signer s).2 ≠ .ok → (stakeValidator.stakeNew h m signer s).1 = s := by
          intro hne
          unfold stakeValidator.stakeNew at hne ⊢
          cases hp : toPool s signer m.amount with
          | none => rfl
          | some s1 => simp [hp] at hne
        unfold stakeValidator at herr ⊢
        cases hc : aget s.vals m.addr with
        | none =>
          simp only [hc] at herr ⊢
          exact hnew herr
        | some c =>
          simp only [hc] at herr ⊢
          by_cases hs : c.status = .staked
          · simp only [if_pos hs] at herr ⊢
            unfold editStake at herr ⊢
            simp only at herr ⊢
            cases hp : (if m.amount - c.tokens > 0 then toPool s signer (m.amount - c.tokens) else some s) with
            | none => rfl
            | some s1 => rw [hp] at herr; simp at herr
          · simp only [if_neg hs] at herr ⊢
            exact hnew herr

end Nodes
