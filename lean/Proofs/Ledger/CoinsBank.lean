import Proofs.Num.Coins
/-!
# Canonical form of stored coin sets under the bank's debit and credit (C18, multi-denomination)

`SubtractCoins` stores `old.Sub(amt)` after checking that `SafeSub` raised no negative flag;
`AddCoins` stores `old.Add(amt)`; `SetCoins` refuses anything that fails `IsValid`.  With C41's
lemmas: both results are again canonical (strictly sorted denominations, strictly positive amounts)
and exact per denomination.
-/
namespace Ledger
open Coins

/-- Canonical stored coin set: strictly ascending denominations, every amount positive. -/
def Canon (cs : Coins) : Prop := Coins.Sorted cs ∧ ∀ c ∈ cs, 0 < c.amount

theorem sumOf_nonneg {cs : Coins} (h : ∀ c ∈ cs, 0 < c.amount) (d : Denom) : 0 ≤ sumOf cs d := by
  induction cs with
  | nil => simp [sumOf]
  | cons c r ih =>
    have h1 := h c List.mem_cons_self
    have h2 := ih (fun x hx => h x (List.mem_cons_of_mem _ hx))
    simp only [sumOf]
    split <;> omega

/-- Credit (`AddCoins`): exact per denomination and canonical. -/
theorem credit_canonical (old amt new : Coins) (ho : Canon old) (ha : Canon amt)
    (h : safeAdd old amt = some new) :
    Canon new ∧ ∀ d, sumOf new d = sumOf old d + sumOf amt d := by
  have hs := safeAdd_sorted old amt new ho.1 ha.1 h
  refine ⟨⟨hs, ?_⟩, fun d => safeAdd_sumOf old amt new h d⟩
  intro x hx
  have hne := (mem_safeAdd old amt new h x hx).2
  have hv := sumOf_of_mem hs hx
  have := safeAdd_sumOf old amt new h x.denom
  have h1 := sumOf_nonneg ho.2 x.denom
  have h2 := sumOf_nonneg ha.2 x.denom
  omega

/-- Debit (`SubtractCoins`) when `SafeSub` raises no flag: exact per denomination and canonical. -/
theorem debit_canonical (old amt new : Coins) (ho : Canon old) (ha : Canon amt)
    (h : safeSub old amt = some (new, false)) :
    Canon new ∧ ∀ d, sumOf new d = sumOf old d - sumOf amt d := by
  obtain ⟨hsum, hs, hnz, hflag⟩ := safeSub_spec old amt new false ho.1 ha.1 h
  refine ⟨⟨hs, ?_⟩, hsum⟩
  intro x hx
  have hne := hnz x hx
  have hv := sumOf_of_mem hs hx
  have hge : ¬ sumOf old x.denom < sumOf amt x.denom := by
    intro hlt
    have := hflag.mpr ⟨x.denom, hlt⟩
    cases this
  have := hsum x.denom
  omega

/-- The debit is refused exactly when some denomination is not covered. -/
theorem debit_refused_iff (old amt d : Coins) (neg : Bool) (ho : Canon old) (ha : Canon amt)
    (h : safeSub old amt = some (d, neg)) : neg = true ↔ ∃ e, sumOf old e < sumOf amt e :=
  (safeSub_spec old amt d neg ho.1 ha.1 h).2.2.2

/-- What `IsValid` accepts is canonical, so everything `SetCoins` stores is. -/
theorem stored_is_canonical (cs : Coins) (h : isValid cs = true) : Canon cs := isValid_canonical cs h

end Ledger
