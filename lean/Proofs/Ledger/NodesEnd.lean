import Proofs.Ledger.NodesOps
/-!
# EndBlocker: validator-set update and mature unstaking preserve the structural invariant
-/
namespace Nodes
open Spec

/-! ## `UpdateTendermintValidators`: only the previous-power store changes -/

theorem inv_setPrevPower {s : State} (hi : Inv s) (l : List (Addr × Int)) : Inv { s with prevPower := l } :=
  hi.congr rfl rfl rfl rfl rfl hi.waitNodup

/-- the part of the loop state that matters for the structural invariant -/
theorem tmStep_frame (maxV : Int) (acc : TmAcc) (e : Int × Addr) :
    (tmStep maxV acc e).st.vals = acc.st.vals ∧ (tmStep maxV acc e).st.stakedIdx = acc.st.stakedIdx ∧
    (tmStep maxV acc e).st.chainIdx = acc.st.chainIdx ∧ (tmStep maxV acc e).st.unstQ = acc.st.unstQ ∧
    (tmStep maxV acc e).st.pool = acc.st.pool ∧ (tmStep maxV acc e).st.waiting = acc.st.waiting ∧
    (tmStep maxV acc e).st.params = acc.st.params ∧ (tmStep maxV acc e).st.signInfo = acc.st.signInfo ∧
    (tmStep maxV acc e).st.bal = acc.st.bal ∧ (tmStep maxV acc e).st.supply = acc.st.supply ∧
    (tmStep maxV acc e).st.log = acc.st.log ∧ (tmStep maxV acc e).st.tmSet = acc.st.tmSet ∧
    (tmStep maxV acc e).st.missedBits = acc.st.missedBits := by
  unfold tmStep
  split
  · simp
  · split
    · simp
    · split
      · simp
      · split
        · simp
        · simp only
          split <;> simp

theorem tmFold_frame (maxV : Int) (l : List (Int × Addr)) (acc : TmAcc) :
    (l.foldl (tmStep maxV) acc).st.vals = acc.st.vals ∧ (l.foldl (tmStep maxV) acc).st.stakedIdx = acc.st.stakedIdx ∧
    (l.foldl (tmStep maxV) acc).st.chainIdx = acc.st.chainIdx ∧ (l.foldl (tmStep maxV) acc).st.unstQ = acc.st.unstQ ∧
    (l.foldl (tmStep maxV) acc).st.pool = acc.st.pool ∧ (l.foldl (tmStep maxV) acc).st.waiting = acc.st.waiting ∧
    (l.foldl (tmStep maxV) acc).st.params = acc.st.params ∧ (l.foldl (tmStep maxV) acc).st.signInfo = acc.st.signInfo ∧
    (l.foldl (tmStep maxV) acc).st.bal = acc.st.bal ∧ (l.foldl (tmStep maxV) acc).st.supply = acc.st.supply ∧
    (l.foldl (tmStep maxV) acc).st.log = acc.st.log ∧ (l.foldl (tmStep maxV) acc).st.tmSet = acc.st.tmSet ∧
    (l.foldl (tmStep maxV) acc).st.missedBits = acc.st.missedBits := by
  induction l generalizing acc with
  | nil => simp
  | cons e t ih =>
    simp only [List.foldl_cons]
    have h1 := ih (tmStep maxV acc e)
    have h2 := tmStep_frame maxV acc e
    refine ⟨?_, ?_, ?_, ?_, ?_, ?_, ?_, ?_, ?_, ?_, ?_, ?_, ?_⟩
    · rw [h1.1, h2.1]
    · rw [h1.2.1, h2.2.1]
    · rw [h1.2.2.1, h2.2.2.1]
    · rw [h1.2.2.2.1, h2.2.2.2.1]
    · rw [h1.2.2.2.2.1, h2.2.2.2.2.1]
    · rw [h1.2.2.2.2.2.1, h2.2.2.2.2.2.1]
    · rw [h1.2.2.2.2.2.2.1, h2.2.2.2.2.2.2.1]
    · rw [h1.2.2.2.2.2.2.2.1, h2.2.2.2.2.2.2.2.1]
    · rw [h1.2.2.2.2.2.2.2.2.1, h2.2.2.2.2.2.2.2.2.1]
    · rw [h1.2.2.2.2.2.2.2.2.2.1, h2.2.2.2.2.2.2.2.2.2.1]
    · rw [h1.2.2.2.2.2.2.2.2.2.2.1, h2.2.2.2.2.2.2.2.2.2.2.1]
    · rw [h1.2.2.2.2.2.2.2.2.2.2.2.1, h2.2.2.2.2.2.2.2.2.2.2.2.1]
    · rw [h1.2.2.2.2.2.2.2.2.2.2.2.2, h2.2.2.2.2.2.2.2.2.2.2.2.2]

theorem inv_tmFold {s : State} (hi : Inv s) (maxV : Int) (l : List (Int × Addr)) (acc : TmAcc) (h : acc.st = s) :
    Inv (l.foldl (tmStep maxV) acc).st := by
  have f := tmFold_frame maxV l acc
  rw [h] at f
  exact hi.congr f.1 f.2.1 f.2.2.1 f.2.2.2.1 f.2.2.2.2.1 (by rw [f.2.2.2.2.2.1]; exact hi.waitNodup)

/-- a leaver: with no unstaked record around, only the previous-power store changes -/
theorem inv_leaverStep {acc : State × List Update} (hi : Inv acc.1) (h : Int) (a : Addr) : Inv (leaverStep h acc a).1 := by
  unfold leaverStep
  cases hv : aget acc.1.vals a with
  | none => exact hi
  | some v =>
    simp only
    have hu : v.status ≠ .unstaked := hi.bondedAll a v hv
    simp only [if_neg hu]
    exact inv_setPrevPower hi _

theorem inv_leaverFold (h : Int) (l : List Addr) {acc : State × List Update} (hi : Inv acc.1) :
    Inv (l.foldl (leaverStep h) acc).1 := by
  induction l generalizing acc with
  | nil => exact hi
  | cons a t ih => exact ih (inv_leaverStep hi h a)

/-- `UpdateTendermintValidators` -/
theorem inv_updateTm {s : State} (hi : Inv s) (h t : Int) : Inv (updateTm s h t).1 := by
  unfold updateTm
  simp only
  have h1 : Inv (if h % s.params.blocksPerSession = 0 then releaseWaiting s t else s) := by
    split
    · exact inv_releaseWaiting hi t
    · exact hi
  generalize (if h % s.params.blocksPerSession = 0 then releaseWaiting s t else s) = s1 at h1 ⊢
  have h2 := inv_tmFold h1 s1.params.maxValidators (sortStaked s1.stakedIdx) { st := s1, remaining := s1.prevPower } rfl
  generalize (sortStaked s1.stakedIdx).foldl (tmStep s1.params.maxValidators) { st := s1, remaining := s1.prevPower } = acc at h2 ⊢
  have h3 := inv_leaverFold h (sortAddrs (acc.remaining.map (·.1))) (acc := (acc.st, acc.updates)) h2
  generalize (sortAddrs (acc.remaining.map (·.1))).foldl (leaverStep h) (acc.st, acc.updates) = r at h3 ⊢
  obtain ⟨s2, ups⟩ := r
  simp only at h3 ⊢
  split
  · exact h3.congr rfl rfl rfl rfl rfl h3.waitNodup
  · exact h3.congr rfl rfl rfl rfl rfl h3.waitNodup

/-! ## Mature unstaking -/

theorem fromPool_vals {s s' : State} {to : Addr} {amt : Int} (h : fromPool s to amt = some s') : s'.vals = s.vals := by
  unfold fromPool at h
  split at h
  · cases h
  · injection h with h; subst h; rfl

/-- `FinishUnstakingValidator` + `DeleteValidator` on the current record of an unstaking node -/
theorem replaces_finishUnstaking {s : State} (hi : Inv s) {v : Val} (hv : aget s.vals v.addr = some v)
    (hs : v.status = .unstaking) : Replaces s (finishUnstaking s v) v.addr none := by
  have hle := hi.tokens_le_pool hv
  unfold finishUnstaking
  simp only [delUnstaking_vals, hv]
  have hfp : fromPool (delUnstaking s v) v.outAddr v.tokens =
      some { delUnstaking s v with bal := aset (delUnstaking s v).bal v.outAddr (balOf (delUnstaking s v) v.outAddr + v.tokens),
                                   pool := (delUnstaking s v).pool - v.tokens } := by
    unfold fromPool
    rw [if_neg (by rw [delUnstaking_pool]; omega)]
  rw [hfp]
  simp only
  refine ⟨?_, ?_, ?_, ?_, ?_, ?_, ?_, ?_⟩
  · simp [setValidator_vals, adel_aset_self]
  · intro x
    simp only [deleteValidator_stakedIdx]
    rw [mem_setValidator_staked]
    simp only [emit_stakedIdx, delUnstaking_stakedIdx]
    constructor
    · rintro (h | ⟨h1, _⟩)
      · exact Or.inl ⟨h, hi.staked_ineligible hv (by rw [hs]; simp) x h⟩
      · cases h1
    · rintro (⟨h, _⟩ | ⟨w, hw, _⟩)
      · exact Or.inl h
      · cases hw
  · simp only [deleteValidator_stakedIdx]
    apply nodup_setValidator_staked
    exact hi.idxNodup
  · intro x
    simp only [deleteValidator_chainIdx, setValidator_chainIdx, emit_chainIdx, delUnstaking_chainIdx]
    constructor
    · intro h; exact Or.inl ⟨h, hi.chain_notStaked hv (by rw [hs]; simp) x h⟩
    · rintro (⟨h, _⟩ | ⟨w, hw, _⟩)
      · exact h
      · cases hw
  · intro t b
    rw [getQ_deleteValidator, mem_getQ_setValidator]
    simp only [reduceCtorEq, false_and, or_false]
    show b ∈ getQ (delUnstaking s v) t ↔ _
    rw [mem_getQ_delUnstaking, hi.queue_at hv]
    constructor
    · intro h; exact Or.inl h
    · rintro (h | ⟨w, hw, _⟩)
      exact h
  · simp only [deleteValidator_pool, setValidator_pool, emit_pool, delUnstaking_pool, hv]
    simp [contribOpt, contrib, bonded, hs]
  · simp
  · simp only [deleteValidator_unstQ]
    apply nodup_setValidator_unstQ
    exact nodup_delUnstaking s v hi.qNodup

theorem inv_finishUnstaking {s : State} (hi : Inv s) {v : Val} (hv : aget s.vals v.addr = some v)
    (hs : v.status = .unstaking) : Inv (finishUnstaking s v) :=
  hi.replace ⟨fun _ h => by cases h⟩ (replaces_finishUnstaking hi hv hs)

theorem inv_matureOne {s : State} (hi : Inv s) (a : Addr) : Inv (matureOne s a) := by
  unfold matureOne
  cases hv : aget s.vals a with
  | none => exact hi
  | some v =>
    simp only
    split
    · rename_i hs
      exact inv_finishUnstaking hi (by rw [hi.keys a v hv]; exact hv) hs
    · exact hi

/-- records only disappear while mature nodes are paid out -/
theorem matureOne_vals (s : State) (hk : ∀ a v, aget s.vals a = some v → v.addr = a) (a b : Addr) :
    aget (matureOne s a).vals b = aget s.vals b ∨
    (b = a ∧ aget (matureOne s a).vals b = none ∧ ∃ v, aget s.vals a = some v ∧ v.status = .unstaking) := by
  unfold matureOne
  cases hv : aget s.vals a with
  | none => exact Or.inl rfl
  | some v =>
    simp only
    split
    · rename_i hs
      have hka := hk a v hv
      unfold finishUnstaking
      simp only [deleteValidator_vals, setValidator_vals, adel_aset_self, hka]
      by_cases e : b = a
      · subst e
        exact Or.inr ⟨rfl, by simp, v, rfl, hs⟩
      · left
        rw [aget_adel_ne _ _ e]
        split
        · rename_i s' hfp
          rw [emit_vals, fromPool_vals hfp]; rfl
        · rfl
    · exact Or.inl rfl

/-- after a slice has been processed none of its addresses has an unstaking record, and nothing else changed -/
theorem matureFold_spec (l : List Addr) {s : State} (hi : Inv s) :
    Inv (l.foldl matureOne s) ∧
    (∀ b v, aget (l.foldl matureOne s).vals b = some v → aget s.vals b = some v) ∧
    (∀ b ∈ l, ∀ v, aget (l.foldl matureOne s).vals b = some v → v.status ≠ .unstaking) := by
  induction l generalizing s with
  | nil => exact ⟨hi, fun _ _ h => h, fun _ hb => by cases hb⟩
  | cons a t ih =>
    simp only [List.foldl_cons]
    have h1 := inv_matureOne hi a
    obtain ⟨i2, sub, done⟩ := ih h1
    refine ⟨i2, ?_, ?_⟩
    · intro b v hb
      have := sub b v hb
      rcases matureOne_vals s hi.keys a b with e | ⟨_, e, _⟩
      · rw [e] at this; exact this
      · rw [e] at this; cases this
    · intro b hb v hv
      rcases List.mem_cons.mp hb with e | e
      · subst e
        have h2 := sub b v hv
        rcases matureOne_vals s hi.keys b b with e | ⟨_, e, _⟩
        · -- the record survived `matureOne`: it was not unstaking
          rw [e] at h2
          intro hs
          have : aget (matureOne s b).vals b = none := by
            unfold matureOne
            rw [h2]
            simp only [if_pos hs]
            unfold finishUnstaking
            simp [setValidator_vals, adel_aset_self, hi.keys b v h2]
          rw [e, h2] at this
          cases this
        · rw [e] at h2; cases h2
      · exact done b e v hv

/-- one mature queue key -/
theorem inv_matureSlice {s : State} (hi : Inv s) (e : Int × List Addr)
    (he : ∀ a v, aget s.vals a = some v → v.status = .unstaking → v.unstTime = e.1 → a ∈ e.2) :
    Inv (matureSlice s e) ∧ (∀ b v, aget (matureSlice s e).vals b = some v → aget s.vals b = some v) := by
  unfold matureSlice
  obtain ⟨i2, sub, done⟩ := matureFold_spec e.2 hi
  generalize e.2.foldl matureOne s = s1 at i2 sub done
  simp only
  refine ⟨?_, sub⟩
  have hq : ∀ t, getQ { s1 with unstQ := adel s1.unstQ e.1 } t = if t = e.1 then [] else getQ s1 t := by
    intro t
    unfold getQ
    simp only [aget_adel]
    split <;> rfl
  have hempty : ∀ a, a ∉ getQ s1 e.1 := by
    intro a ha
    obtain ⟨v, hv, h1, h2⟩ := (i2.queue e.1 a).mp ha
    exact done a (he a v (sub a v hv) h1 h2) v hv h1
  refine ⟨i2.nodup, i2.keys, i2.nonneg, i2.bondedAll, i2.pool, i2.staked, i2.idxNodup, i2.chain, ?_, i2.waitNodup,
    nodup_adel i2.qNodup _⟩
  intro t a
  rw [hq]
  by_cases ht : t = e.1
  · rw [if_pos ht]
    subst ht
    constructor
    · intro h; cases h
    · rintro ⟨v, hv, h1, h2⟩
      exact absurd ((i2.queue e.1 a).mpr ⟨v, hv, h1, h2⟩) (hempty a)
  · rw [if_neg ht]; exact i2.queue t a

/-- `unstakeAllMatureValidators` over a snapshot of queue entries -/
theorem inv_matureSlices (l : List (Int × List Addr)) {s s0 : State} (hi : Inv s) (hi0 : Inv s0)
    (hsub : ∀ b v, aget s.vals b = some v → aget s0.vals b = some v)
    (hl : ∀ e ∈ l, e.2 = getQ s0 e.1) :
    Inv (l.foldl matureSlice s) ∧ (∀ b v, aget (l.foldl matureSlice s).vals b = some v → aget s0.vals b = some v) := by
  induction l generalizing s with
  | nil => exact ⟨hi, hsub⟩
  | cons e t ih =>
    simp only [List.foldl_cons]
    have he : ∀ a v, aget s.vals a = some v → v.status = .unstaking → v.unstTime = e.1 → a ∈ e.2 := by
      intro a v hv h1 h2
      rw [hl e List.mem_cons_self]
      exact (hi0.queue e.1 a).mpr ⟨v, hsub a v hv, h1, h2⟩
    obtain ⟨i1, sub1⟩ := inv_matureSlice hi e he
    exact ih i1 (fun b v hb => hsub b v (sub1 b v hb)) (fun e' he' => hl e' (List.mem_cons_of_mem _ he'))

theorem getQ_of_mem {s : State} (hn : (s.unstQ.map (·.1)).Nodup) {e : Int × List Addr} (he : e ∈ s.unstQ) :
    e.2 = getQ s e.1 := by
  unfold getQ
  rw [aget_of_mem hn (show (e.1, e.2) ∈ s.unstQ from he)]
  rfl

theorem inv_unstakeMature {s : State} (hi : Inv s) (t : Int) : Inv (unstakeMature s t) := by
  unfold unstakeMature
  refine (inv_matureSlices _ hi hi (fun _ _ h => h) ?_).1
  intro e he
  exact getQ_of_mem hi.qNodup (List.mem_filter.mp he).1

/-- `EndBlocker` -/
theorem inv_endBlock {s : State} (hi : Inv s) (h t : Int) : Inv (endBlock s h t).1 := by
  unfold endBlock
  simp only
  have h1 := inv_updateTm (inv_incrementJailed hi h) h t
  generalize updateTm (incrementJailed s h) h t = r at h1 ⊢
  obtain ⟨s1, ups⟩ := r
  exact inv_unstakeMature h1 t

end Nodes
