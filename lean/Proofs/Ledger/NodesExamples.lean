import Proofs.Ledger.NodesSound
/-!
# A small concrete world used by the non-vacuity examples of C19, C21–C25
-/
namespace Nodes.Ex
open Nodes

/-- unstaking time 100, two consensus slots, minimum stake 15 POKT, sessions of 2 blocks, window 10 / 5 signed,
jail 60, slash 1 % / 5 %, at most 3 jailed blocks -/
def p0 : Params := ⟨100, 2, 15000000, 2, 10, 5, 60, 10000000000000000, 50000000000000000, 120000000000, 3, 3, 15000000, 15000000⟩
def A : Addr := [1]
def B : Addr := [2]
def C : Addr := [3]
def O : Addr := [9]
def mA : StakeMsg := ⟨A, [1, 1], [[0, 1]], 20000000, [], O, []⟩
def mB : StakeMsg := ⟨B, [2, 2], [[0, 1], [0, 2]], 30000000, [], B, []⟩
def mC : StakeMsg := ⟨C, [3, 3], [[0, 2]], 25000000, [], C, []⟩

/-- three funded accounts stake; the first end-block reports the top two -/
def ops0 : List Op :=
  [.credit A 50000000, .credit B 50000000, .credit C 50000000, .stake 3 mA A, .stake 3 mB B, .stake 3 mC C, .endBlock 3 1000]
def s0 : State := run { params := p0 } ops0

theorem ops0_clean : ∀ op ∈ ops0, op.isPoolSend = false := by decide

theorem inv_s0 : Inv s0 := inv_run (inv_empty p0) ops0 ops0_clean

end Nodes.Ex
