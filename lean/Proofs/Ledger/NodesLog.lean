import Proofs.Ledger.NodesC22
/-!
# No transfer of the nodes module ever fails under the invariant (ghost event log)

`FinishUnstakingValidator` continues "even if error" when the payout fails, `slash`/`simpleSlash` return after a
failed burn with the record already reduced.  Both error paths are unreachable: over every history the log
contains no failed payout and no failed burn.
-/
namespace Nodes

/-- a payout or burn whose coin transfer failed -/
def Event.failed : Event → Bool
  | .payout _ _ _ ok => !ok
  | .burn _ _ _ ok => !ok
  | _ => false

/-- the log grew by events none of which is a failed transfer -/
def Ext (s s' : State) : Prop := ∃ l, s'.log = s.log ++ l ∧ ∀ e ∈ l, e.failed = false

theorem Ext.refl (s : State) : Ext s s := ⟨[], by simp, by simp⟩
theorem Ext.trans {a b c : State} (h1 : Ext a b) (h2 : Ext b c) : Ext a c := by
  obtain ⟨l1, e1, g1⟩ := h1
  obtain ⟨l2, e2, g2⟩ := h2
  refine ⟨l1 ++ l2, by rw [e2, e1, List.append_assoc], ?_⟩
  intro e he
  rcases List.mem_append.mp he with h | h
  · exact g1 e h
  · exact g2 e h
theorem Ext.of_eq {s s' : State} (h : s'.log = s.log) : Ext s s' := ⟨[], by simp [h], by simp⟩
theorem Ext.emit (s : State) (e : Event) (h : e.failed = false) : Ext s (s.emit e) :=
  ⟨[e], rfl, by simp [h]⟩

theorem ext_setValidator (s : State) (v : Val) : Ext s (setValidator s v) := Ext.of_eq (by simp)

theorem ext_jailValidator (s : State) (a : Addr) : Ext s (jailValidator s a) := by
  unfold jailValidator
  cases aget s.vals a with
  | none => exact Ext.refl s
  | some v =>
    simp only
    split
    · exact Ext.refl s
    · split
      · exact Ext.refl s
      · exact (Ext.of_eq (by simp)).trans (Ext.emit _ _ rfl)

theorem ext_forceUnstake (s : State) (v : Val) (c : Cause) : Ext s (forceUnstake s v c) := by
  unfold forceUnstake setWaiting
  exact (ext_jailValidator s v.addr).trans ((Ext.of_eq rfl).trans (Ext.emit _ _ rfl))

theorem ext_slashCore {s : State} (hi : Inv s) {v : Val} (hv : aget s.vals v.addr = some v) (req : Int) :
    Ext s (slashCore s v req) := by
  rw [slashCore_ok s v req (hi.nonneg _ v hv) (hi.tokens_le_pool hv)]
  have h1 : Ext s (afterBurn s v req) := by
    unfold afterBurn
    simp only
    split
    · exact (Ext.of_eq (by simp)).trans (Ext.emit _ _ rfl)
    · exact (Ext.of_eq (by simp)).trans (Ext.emit _ _ rfl)
  split
  · exact h1.trans (ext_forceUnstake _ _ _)
  · exact h1

theorem ext_simpleSlash {s : State} (hi : Inv s) (a : Addr) (amount : Int) : Ext s (simpleSlash s a amount) := by
  unfold simpleSlash
  split
  · exact Ext.refl s
  · cases hv : aget s.vals a with
    | none => exact Ext.refl s
    | some v =>
      simp only
      split
      · exact Ext.refl s
      · exact ext_slashCore hi (by rw [hi.keys a v hv]; exact hv) _

theorem ext_slash {s : State} (hi : Inv s) (h : Int) (a : Addr) (ih pw f : Int) : Ext s (slash s h a ih pw f) := by
  unfold slash
  split
  · exact Ext.refl s
  · split
    · exact Ext.refl s
    · cases hv : aget s.vals a with
      | none => exact Ext.refl s
      | some v =>
        simp only
        split
        · exact Ext.refl s
        · exact ext_slashCore hi (by rw [hi.keys a v hv]; exact hv) _

theorem ext_clearMissed (s : State) (a : Addr) : Ext s (clearMissed s a) := Ext.of_eq rfl
theorem ext_setSignInfo (s : State) (l : List (Addr × SignInfo)) : Ext s { s with signInfo := l } := Ext.of_eq rfl

theorem ext_handleSig {s : State} (hi : Inv s) (h t : Int) (vt : Vote) : Ext s (handleSig s h t vt) := by
  unfold handleSig
  split
  · exact Ext.refl s
  · split
    · split
      · exact Ext.of_eq rfl
      · exact Ext.refl s
    · simp only
      have h1 : Ext s (sigWindowReset s h vt.addr ‹SignInfo›).1 := by
        unfold sigWindowReset; split <;> exact Ext.of_eq rfl
      have i1 := inv_sigWindowReset hi h vt.addr ‹SignInfo›
      have h2 : Ext (sigWindowReset s h vt.addr ‹SignInfo›).1
          (sigRecord (sigWindowReset s h vt.addr ‹SignInfo›).1 vt.addr (sigWindowReset s h vt.addr ‹SignInfo›).2 vt.signed).1 := by
        unfold sigRecord; simp only; split
        · exact Ext.of_eq rfl
        · split <;> exact Ext.of_eq rfl
      have i2 := inv_sigRecord i1 vt.addr (sigWindowReset s h vt.addr ‹SignInfo›).2 vt.signed
      split
      · refine (h1.trans h2).trans ?_
        unfold sigPunish
        simp only
        exact (((ext_slash i2 _ _ _ _ _).trans (ext_clearMissed _ _)).trans (ext_jailValidator _ _)).trans (ext_setSignInfo _ _)
      · exact (h1.trans h2).trans (ext_setSignInfo _ _)

theorem ext_handleEvidence {s : State} (hi : Inv s) (h t : Int) (e : Evidence) : Ext s (handleEvidence s h t e) := by
  unfold handleEvidence handleDoubleSign
  split
  · cases aget s.vals e.addr with
    | none => exact Ext.refl s
    | some v =>
      simp only
      split
      · exact Ext.refl s
      · split
        · exact Ext.refl s
        · cases aget s.signInfo e.addr with
          | none => exact Ext.refl s
          | some si => exact ext_slash hi _ _ _ _ _
  · exact Ext.refl s

theorem ext_foldl {β : Type} (f : State → β → State) (hf : ∀ s b, Inv s → Inv (f s b) ∧ Ext s (f s b))
    (l : List β) {s : State} (hi : Inv s) : Ext s (l.foldl f s) := by
  induction l generalizing s with
  | nil => exact Ext.refl s
  | cons b t ih => exact ((hf s b hi).2).trans (ih (hf s b hi).1)

theorem ext_beginBlock {s : State} (hi : Inv s) (h t : Int) (votes : List Vote) (evs : List Evidence) :
    Ext s (beginBlock s h t votes evs) := by
  unfold beginBlock
  have i1 := inv_foldl _ (fun s v hs => inv_handleSig hs h t v) votes hi
  exact (ext_foldl _ (fun s v hs => ⟨inv_handleSig hs h t v, ext_handleSig hs h t v⟩) votes hi).trans
    (ext_foldl _ (fun s e hs => ⟨inv_handleEvidence hs h t e, ext_handleEvidence hs h t e⟩) evs i1)

theorem ext_deleteValidator (s : State) (a : Addr) : Ext s (deleteValidator s a) := by
  unfold deleteValidator
  exact (Ext.of_eq rfl).trans (Ext.emit _ _ rfl)

theorem ext_resetSigningInfo (s : State) (a : Addr) (h : Int) : Ext s (resetSigningInfo s a h) := Ext.of_eq rfl
theorem ext_setChains (s : State) (v : Val) : Ext s (setChains s v) := Ext.of_eq rfl
theorem ext_delChains (s : State) (v : Val) : Ext s (delChains s v) := Ext.of_eq rfl
theorem ext_delStaked (s : State) (v : Val) : Ext s (delStaked s v) := Ext.of_eq rfl
theorem ext_setWaiting (s : State) (a : Addr) (c : Cause) : Ext s (setWaiting s a c) := by
  unfold setWaiting
  exact (Ext.of_eq rfl).trans (Ext.emit _ _ rfl)

theorem ext_handleStake (s : State) (h : Int) (m : StakeMsg) (signer : Addr) : Ext s (handleStake s h m signer).1 := by
  by_cases hok : (handleStake s h m signer).2 = .ok
  · unfold handleStake at hok ⊢
    by_cases hu : m.url.length > 255
    · simp [hu] at hok
    · by_cases hdl : delegatorsOk m.delegators = false
      · simp [hu, hdl] at hok
      · simp only [if_neg hu, if_neg hdl] at hok ⊢
        cases hv : validateStaking s m signer with
        | err c => exact Ext.refl s
        | ok =>
          simp only
          have hnew : Ext s (stakeValidator.stakeNew h m signer s).1 := by
            unfold stakeValidator.stakeNew
            cases hp : toPool s signer m.amount with
            | none => exact Ext.refl s
            | some s1 =>
              obtain ⟨_, _, e1⟩ := toPool_spec hp
              subst e1
              simp only
              have h1 : Ext s (({ s with bal := aset s.bal signer (balOf s signer - m.amount), pool := s.pool + m.amount } : State).emit (.stakeIn m.addr signer m.amount)) :=
                (Ext.of_eq rfl).trans (Ext.emit _ _ rfl)
              split
              · exact h1.trans ((ext_setValidator _ _).trans (ext_setChains _ _))
              · exact h1.trans (((ext_setValidator _ _).trans (ext_setChains _ _)).trans (ext_setSignInfo _ _))
          unfold stakeValidator
          cases hc : aget s.vals m.addr with
          | none => exact hnew
          | some c =>
            simp only
            split
            · unfold editStake
              simp only
              split
              · exact Ext.refl s
              · rename_i s1 hp
                have hs1 : s1.log = s.log := by
                  split at hp
                  · obtain ⟨_, _, e1⟩ := toPool_spec hp; subst e1; rfl
                  · injection hp with hp; subst hp; rfl
                have h2 : Ext s1 (if m.amount - c.tokens > 0 then s1.emit (.stakeIn c.addr signer (m.amount - c.tokens)) else s1) := by
                  split
                  · exact Ext.emit _ _ rfl
                  · exact Ext.refl s1
                refine ((Ext.of_eq hs1).trans h2).trans ?_
                by_cases hph : h ≥ patchHeight
                · rw [if_pos hph]
                  refine Ext.trans ?_ (ext_resetSigningInfo _ _ _)
                  refine Ext.trans ?_ (ext_setChains _ _)
                  refine Ext.trans ?_ (ext_setValidator _ _)
                  refine Ext.trans ?_ (ext_deleteValidator _ _)
                  exact (ext_delStaked _ c).trans (ext_delChains _ c)
                · rw [if_neg hph]
                  refine Ext.trans ?_ (ext_setChains _ _)
                  refine Ext.trans ?_ (ext_setValidator _ _)
                  refine Ext.trans ?_ (ext_deleteValidator _ _)
                  exact (ext_delStaked _ c).trans (ext_delChains _ c)
            · exact hnew
  · rw [handleStake_err_vals hok]; exact Ext.refl s

theorem ext_handleBeginUnstake (s : State) (a signer : Addr) : Ext s (handleBeginUnstake s a signer).1 := by
  unfold handleBeginUnstake
  cases aget s.vals a with
  | none => exact Ext.refl s
  | some v =>
    simp only
    split
    · exact Ext.refl s
    · split
      · exact Ext.refl s
      · exact ext_setWaiting _ _ _

theorem ext_handleUnjail (s : State) (h t : Int) (a signer : Addr) : Ext s (handleUnjail s h t a signer).1 := by
  unfold handleUnjail
  cases aget s.vals a with
  | none => exact Ext.refl s
  | some v =>
    simp only
    split
    · exact Ext.refl s
    · split
      · exact ext_setWaiting _ _ _
      · split
        · exact Ext.refl s
        · cases aget s.signInfo v.addr with
          | none => exact Ext.refl s
          | some si =>
            simp only
            split
            · exact Ext.refl s
            · unfold unjailValidator
              cases aget s.vals v.addr with
              | none => exact Ext.refl s
              | some w =>
                simp only
                split
                · exact Ext.refl s
                · exact ((ext_setValidator _ _).trans (Ext.emit _ _ rfl)).trans (ext_resetSigningInfo _ _ _)

theorem ext_mintTo (s : State) (amount : Int) (to : Addr) : Ext s (mintTo s amount to) := by
  unfold mintTo fromPool
  simp only
  by_cases h : s.pool + amount < amount
  · simp only [if_pos h]; exact Ext.of_eq rfl
  · simp only [if_neg h]; exact Ext.of_eq rfl

/-! ## the end-block -/

theorem ext_incrementJailed {s : State} (hi : Inv s) (h : Int) : Ext s (incrementJailed s h) := by
  unfold incrementJailed
  refine ext_foldl _ (fun s p hs => ⟨inv_incrementJailedOne hs h p.2, ?_⟩) _ hi
  unfold incrementJailedOne
  split
  · simp only
    split
    · exact ext_forceUnstake _ _ _
    · exact Ext.of_eq rfl
  · exact Ext.refl s

theorem ext_releaseOne (s : State) (t : Int) (v : Val) : Ext s (releaseOne s t v) := by
  unfold releaseOne
  simp only
  split
  · unfold beginUnstaking
    exact ((((ext_delStaked s v).trans (ext_delChains _ v)).trans (ext_setValidator _ _)).trans (Ext.emit _ _ rfl)).trans (Ext.of_eq rfl)
  · exact Ext.of_eq rfl

theorem ext_foldl' {β : Type} (f : State → β → State) (hf : ∀ s b, Ext s (f s b)) (l : List β) (s : State) :
    Ext s (l.foldl f s) := by
  induction l generalizing s with
  | nil => exact Ext.refl s
  | cons b t ih => exact (hf s b).trans (ih (f s b))

theorem ext_releaseWaiting (s : State) (t : Int) : Ext s (releaseWaiting s t) := by
  unfold releaseWaiting
  have gw : ∀ (l : List Addr) (acc : List Val), Ext s (getWaiting s l acc).2 := by
    intro l
    induction l with
    | nil => intro acc; exact Ext.refl s
    | cons a rest ih =>
      intro acc
      unfold getWaiting
      cases aget s.vals a with
      | none => exact Ext.of_eq rfl
      | some v => exact ih _
  have h1 := gw (sortAddrs s.waiting) []
  generalize getWaiting s (sortAddrs s.waiting) [] = r at h1
  obtain ⟨vs, s1⟩ := r
  exact h1.trans (ext_foldl' _ (fun s v => ext_releaseOne s t v) vs s1)

theorem ext_updateTm {s : State} (hi : Inv s) (h t : Int) : Ext s (updateTm s h t).1 := by
  unfold updateTm
  simp only
  have h1 : Ext s (if h % s.params.blocksPerSession = 0 then releaseWaiting s t else s) := by
    split
    · exact ext_releaseWaiting s t
    · exact Ext.refl s
  have i1 : Inv (if h % s.params.blocksPerSession = 0 then releaseWaiting s t else s) := by
    split
    · exact inv_releaseWaiting hi t
    · exact hi
  generalize (if h % s.params.blocksPerSession = 0 then releaseWaiting s t else s) = s1 at h1 i1 ⊢
  have fr := tmFold_frame s1.params.maxValidators (sortStaked s1.stakedIdx) { st := s1, remaining := s1.prevPower }
  have i2 := inv_tmFold i1 s1.params.maxValidators (sortStaked s1.stakedIdx) { st := s1, remaining := s1.prevPower } rfl
  generalize (sortStaked s1.stakedIdx).foldl (tmStep s1.params.maxValidators) { st := s1, remaining := s1.prevPower } = acc at fr i2 ⊢
  have key : ∀ (l : List Addr) (x : State × List Update), Inv x.1 → (l.foldl (leaverStep h) x).1.log = x.1.log := by
    intro l
    induction l with
    | nil => intro x _; rfl
    | cons a t ih =>
      intro x hx
      simp only [List.foldl_cons]
      rw [ih _ (inv_leaverStep hx h a)]
      unfold leaverStep
      cases hv : aget x.1.vals a with
      | none => rfl
      | some v =>
        simp only
        rw [if_neg (hx.bondedAll a v hv)]
  have hl := key (sortAddrs (acc.remaining.map (·.1))) (acc.st, acc.updates) i2
  generalize (sortAddrs (acc.remaining.map (·.1))).foldl (leaverStep h) (acc.st, acc.updates) = r at hl ⊢
  obtain ⟨s2, ups⟩ := r
  simp only at hl ⊢
  have h2 : Ext s1 s2 := Ext.of_eq (by rw [hl]; exact fr.2.2.2.2.2.2.2.2.2.2.1)
  split
  · exact (h1.trans h2).trans (Ext.of_eq rfl)
  · exact (h1.trans h2).trans (Ext.of_eq rfl)

theorem ext_matureOne {s : State} (hi : Inv s) (a : Addr) : Ext s (matureOne s a) := by
  unfold matureOne
  cases hv : aget s.vals a with
  | none => exact Ext.refl s
  | some v =>
    simp only
    split
    · have hk := hi.keys a v hv
      obtain ⟨_, _, _, _, _, _, hlog⟩ := finishUnstaking_pays hi (by rw [hk]; exact hv)
      exact ⟨_, hlog, by simp [Event.failed]⟩
    · exact Ext.refl s

theorem ext_unstakeMature {s : State} (hi : Inv s) (t : Int) : Ext s (unstakeMature s t) := by
  unfold unstakeMature
  -- the slices of the snapshot, with the invariant carried along
  have key : ∀ (l : List (Int × List Addr)) (s1 : State), Inv s1 →
      (∀ b v, aget s1.vals b = some v → aget s.vals b = some v) → (∀ e ∈ l, e.2 = getQ s e.1) → Ext s1 (l.foldl matureSlice s1) := by
    intro l
    induction l with
    | nil => intro s1 _ _ _; exact Ext.refl s1
    | cons e rest ih =>
      intro s1 j1 js jl
      simp only [List.foldl_cons]
      have he : ∀ a v, aget s1.vals a = some v → v.status = .unstaking → v.unstTime = e.1 → a ∈ e.2 := by
        intro a v hv h1 h2
        rw [jl e List.mem_cons_self]
        exact (hi.queue e.1 a).mpr ⟨v, js a v hv, h1, h2⟩
      obtain ⟨k1, ksub⟩ := inv_matureSlice j1 e he
      have hs : Ext s1 (matureSlice s1 e) := by
        unfold matureSlice
        exact (ext_foldl _ (fun x a hx => ⟨inv_matureOne hx a, ext_matureOne hx a⟩) e.2 j1).trans (Ext.of_eq rfl)
      exact hs.trans (ih _ k1 (fun b v hb => js b v (ksub b v hb)) (fun e' he' => jl e' (List.mem_cons_of_mem _ he')))
  exact key _ s hi (fun _ _ h => h) (fun e he => getQ_of_mem hi.qNodup (List.mem_filter.mp he).1)

theorem ext_endBlock {s : State} (hi : Inv s) (h t : Int) : Ext s (endBlock s h t).1 := by
  rw [endBlock_eq]
  simp only
  have i1 := inv_incrementJailed hi h
  exact ((ext_incrementJailed hi h).trans (ext_updateTm i1 h t)).trans (ext_unstakeMature (inv_updateTm i1 h t) t)

theorem ext_step {s : State} (hi : Inv s) (op : Op) : Ext s (step s op) := by
  cases op with
  | stake h m signer => exact ext_handleStake s h m signer
  | beginUnstake a signer => exact ext_handleBeginUnstake s a signer
  | unjail h t a signer => exact ext_handleUnjail s h t a signer
  | burn a amount => exact ext_simpleSlash hi a amount
  | beginBlock h t votes evs => exact ext_beginBlock hi h t votes evs
  | endBlock h t => exact ext_endBlock hi h t
  | setParams p => exact Ext.of_eq rfl
  | credit a d => exact Ext.of_eq rfl
  | reward to amount => exact ext_mintTo s amount to
  | sendToPool sender amount =>
    show Ext s (if _ then _ else _)
    split
    · exact Ext.refl s
    · exact Ext.of_eq rfl

/-- over every history (without plain sends to the pool address) the log gains no failed payout and no failed burn -/
theorem ext_run {s : State} (hi : Inv s) (ops : List Op) (hops : ∀ op ∈ ops, op.isPoolSend = false) :
    Ext s (run s ops) := by
  unfold run
  induction ops generalizing s with
  | nil => exact Ext.refl s
  | cons op t ih =>
    simp only [List.foldl_cons]
    exact (ext_step hi op).trans (ih (inv_step hi op (hops op List.mem_cons_self)) (fun o ho => hops o (List.mem_cons_of_mem _ ho)))

end Nodes
