import Proofs.Ledger.NodesEnd
import Proofs.Ledger.NodesSort
/-!
# The two loops of `UpdateTendermintValidators` (C22)
-/
namespace Nodes

/-- the entries the main loop accepts when `k` places are left: the first `k` entries of non-zero power -/
def accept : Int → List (Int × Addr) → List (Int × Addr)
  | _, [] => []
  | k, e :: t => if ¬ (0 < k) then [] else if e.1 = 0 then accept k t else e :: accept (k - 1) t

theorem accept_nonpos (k : Int) (hk : ¬ (0 < k)) (l : List (Int × Addr)) : accept k l = [] := by
  cases l with
  | nil => rfl
  | cons e t => unfold accept; rw [if_pos hk]

theorem accept_eq_take (k : Int) (l : List (Int × Addr)) :
    accept k l = (l.filter fun e => decide (e.1 ≠ 0)).take k.toNat := by
  induction l generalizing k with
  | nil => simp [accept]
  | cons e t ih =>
    unfold accept
    by_cases hk : 0 < k
    · rw [if_neg (by omega)]
      by_cases he : e.1 = 0
      · rw [if_pos he, ih]
        simp [List.filter_cons, he]
      · rw [if_neg he, ih]
        have : k.toNat = (k - 1).toNat + 1 := by omega
        rw [List.filter_cons, if_pos (by simp [he]), this, List.take_succ_cons]
    · rw [if_pos hk]
      have : k.toNat = 0 := by omega
      rw [this]; simp

theorem accept_subset (k : Int) (l : List (Int × Addr)) : ∀ x ∈ accept k l, x ∈ l ∧ x.1 ≠ 0 := by
  intro x hx
  rw [accept_eq_take] at hx
  have := List.mem_filter.mp (List.mem_of_mem_take hx)
  exact ⟨this.1, by simpa using this.2⟩

/-- (address ↦ power) view of a list of index entries -/
def swapL (l : List (Int × Addr)) : List (Addr × Int) := l.map fun e => (e.2, e.1)

theorem aget_swapL_none {l : List (Int × Addr)} {a : Addr} (h : a ∉ l.map (·.2)) : aget (swapL l) a = none := by
  apply aget_none_iff.mpr
  unfold swapL
  simpa using h

theorem aget_swapL_cons (e : Int × Addr) (t : List (Int × Addr)) (a : Addr) :
    aget (swapL (e :: t)) a = if e.2 = a then some e.1 else aget (swapL t) a := rfl

theorem applyUpdates_append (tm : List (Addr × Int)) (us : List Update) (u : Update) :
    applyUpdates tm (us ++ [u]) =
      if u.power = 0 then adel (applyUpdates tm us) u.addr else aset (applyUpdates tm us) u.addr u.power := by
  unfold applyUpdates
  rw [List.foldl_append]
  rfl

/-- loop state after an accepted entry `e` whose record is `v` -/
def acceptedAcc (acc : TmAcc) (e : Int × Addr) (v : Val) : TmAcc :=
  { st := if aget acc.remaining e.2 ≠ some e.1 then { acc.st with prevPower := aset acc.st.prevPower e.2 e.1 } else acc.st,
    count := acc.count + 1,
    remaining := adel acc.remaining e.2,
    updates := if aget acc.remaining e.2 ≠ some e.1 then acc.updates ++ [⟨v.addr, v.pk, e.1⟩] else acc.updates,
    total := acc.total + e.1 }

/-- the main loop over a (suffix of the) sorted staked set -/
theorem tmFold_spec (N : Int) (tm : List (Addr × Int)) (l : List (Int × Addr)) (acc : TmAcc)
    (hrec : ∀ e ∈ l, ∃ v, aget acc.st.vals e.2 = some v ∧ v.jailed = false ∧ v.consPower = e.1 ∧ v.addr = e.2)
    (hnd : (l.map (·.2)).Nodup)
    (hK : ∀ a ∈ l.map (·.2), aget acc.remaining a = aget acc.st.prevPower a)
    (hJ : ∀ a, aget (applyUpdates tm acc.updates) a = aget acc.st.prevPower a) :
    (∀ a, aget (l.foldl (tmStep N) acc).st.prevPower a =
      match aget (swapL (accept (N - acc.count) l)) a with
      | some p => some p
      | none => aget acc.st.prevPower a) ∧
    (∀ a, aget (l.foldl (tmStep N) acc).remaining a =
      match aget (swapL (accept (N - acc.count) l)) a with
      | some _ => none
      | none => aget acc.remaining a) ∧
    (∀ a, aget (applyUpdates tm (l.foldl (tmStep N) acc).updates) a = aget (l.foldl (tmStep N) acc).st.prevPower a) ∧
    (∀ u ∈ (l.foldl (tmStep N) acc).updates, u ∈ acc.updates ∨ (u.power ≠ 0 ∧ (u.power, u.addr) ∈ accept (N - acc.count) l)) := by
  induction l generalizing acc with
  | nil =>
    refine ⟨fun a => ?_, fun a => ?_, hJ, fun u hu => Or.inl hu⟩ <;> simp [accept, swapL]
  | cons e t ih =>
    simp only [List.foldl_cons]
    obtain ⟨v, hv, hj, hp, hva⟩ := hrec e List.mem_cons_self
    simp only [List.map_cons, List.nodup_cons] at hnd
    have hrec' : ∀ (acc1 : TmAcc), acc1.st.vals = acc.st.vals →
        ∀ e' ∈ t, ∃ v, aget acc1.st.vals e'.2 = some v ∧ v.jailed = false ∧ v.consPower = e'.1 ∧ v.addr = e'.2 := by
      intro acc1 h1 e' he'
      rw [h1]; exact hrec e' (List.mem_cons_of_mem _ he')
    by_cases hc : acc.count < N
    · by_cases hz : e.1 = 0
      · -- zero power: skipped, not counted
        have hs : tmStep N acc e = acc := by
          unfold tmStep
          rw [if_neg (by omega)]
          simp only [hv, hj, Bool.false_eq_true, if_false, hp, hz, if_true]
        rw [hs]
        have ha : accept (N - acc.count) (e :: t) = accept (N - acc.count) t := by
          rw [accept, if_neg (by omega), if_pos hz]
        rw [ha]
        exact ih acc (hrec' acc rfl) hnd.2 (fun a ha => hK a (List.mem_cons_of_mem _ ha)) hJ
      · -- accepted
        have hK0 : aget acc.remaining e.2 = aget acc.st.prevPower e.2 := hK e.2 List.mem_cons_self
        have hs : tmStep N acc e = acceptedAcc acc e v := by
          unfold tmStep acceptedAcc
          rw [if_neg (by omega)]
          simp only [hv, hj, Bool.false_eq_true, if_false, hp, hz]
        have ha : accept (N - acc.count) (e :: t) = e :: accept (N - (acc.count + 1)) t := by
          rw [accept, if_neg (by omega), if_neg hz]
          congr 2; omega
        rw [hs, ha]
        generalize hacc1 : acceptedAcc acc e v = acc1
        unfold acceptedAcc at hacc1
        have h1v : acc1.st.vals = acc.st.vals := by rw [← hacc1]; simp only; split <;> rfl
        have h1c : acc1.count = acc.count + 1 := by rw [← hacc1]
        have h1r : acc1.remaining = adel acc.remaining e.2 := by rw [← hacc1]
        -- the previous-power store after this entry
        have h1p : ∀ a, aget acc1.st.prevPower a = if a = e.2 then some e.1 else aget acc.st.prevPower a := by
          intro a
          rw [← hacc1]
          simp only
          by_cases hch : aget acc.remaining e.2 ≠ some e.1
          · rw [if_pos hch]; simp only; rw [aget_aset]
          · rw [if_neg hch]
            have : aget acc.remaining e.2 = some e.1 := by simpa using hch
            by_cases ea : a = e.2
            · rw [if_pos ea, ea, ← hK0, this]
            · rw [if_neg ea]
        have h1J : ∀ a, aget (applyUpdates tm acc1.updates) a = aget acc1.st.prevPower a := by
          intro a
          rw [h1p]
          rw [← hacc1]
          simp only
          by_cases hch : aget acc.remaining e.2 ≠ some e.1
          · rw [if_pos hch, applyUpdates_append]
            simp only [hz, if_false]
            rw [aget_aset, hva, hJ]
          · rw [if_neg hch, hJ]
            have : aget acc.remaining e.2 = some e.1 := by simpa using hch
            by_cases ea : a = e.2
            · rw [if_pos ea, ea, ← hK0, this]
            · rw [if_neg ea]
        have h1K : ∀ a ∈ t.map (·.2), aget acc1.remaining a = aget acc1.st.prevPower a := by
          intro a ha
          have hne : a ≠ e.2 := fun x => hnd.1 (x ▸ ha)
          rw [h1r, aget_adel_ne _ _ hne, h1p, if_neg hne]
          exact hK a (List.mem_cons_of_mem _ ha)
        obtain ⟨c1, c2, c3, c4⟩ := ih acc1 (hrec' acc1 h1v) hnd.2 h1K h1J
        rw [h1c] at c1 c2 c4
        have hnot : e.2 ∉ (accept (N - (acc.count + 1)) t).map (·.2) := by
          intro hm
          obtain ⟨x, hx, ex⟩ := List.mem_map.mp hm
          exact hnd.1 (List.mem_map.mpr ⟨x, (accept_subset _ _ x hx).1, ex⟩)
        refine ⟨?_, ?_, c3, ?_⟩
        · intro a
          rw [c1, aget_swapL_cons]
          by_cases ea : e.2 = a
          · rw [if_pos ea, ← ea, aget_swapL_none hnot, h1p]; simp
          · rw [if_neg ea, h1p, if_neg (fun x => ea x.symm)]
        · intro a
          rw [c2, aget_swapL_cons]
          by_cases ea : e.2 = a
          · rw [if_pos ea, ← ea, aget_swapL_none hnot, h1r]; simp
          · rw [if_neg ea, h1r, aget_adel_ne _ _ (fun x => ea x.symm)]
        · intro u hu
          rcases c4 u hu with h | ⟨h1, h2⟩
          · rw [← hacc1] at h
            simp only at h
            split at h
            · rcases List.mem_append.mp h with h' | h'
              · exact Or.inl h'
              · simp at h'; subst h'
                exact Or.inr ⟨hz, by rw [hva]; exact List.mem_cons_self⟩
            · exact Or.inl h
          · exact Or.inr ⟨h1, List.mem_cons_of_mem _ h2⟩
    · -- no place left: nothing changes any more
      have hs : tmStep N acc e = acc := by
        unfold tmStep; rw [if_pos hc]
      rw [hs, accept_nonpos _ (by omega)]
      have := ih acc (hrec' acc rfl) hnd.2 (fun a ha => hK a (List.mem_cons_of_mem _ ha)) hJ
      rw [accept_nonpos _ (by omega)] at this
      exact this

/-- the loop over the nodes that are no longer in the set (validator split active: zero-power updates) -/
theorem leaverFold_spec (h : Int) (hh : splitHeight ≤ h) (tm : List (Addr × Int)) (la : List Addr) (x : State × List Update)
    (hrec : ∀ a ∈ la, ∃ v, aget x.1.vals a = some v ∧ v.status ≠ .unstaked ∧ v.addr = a)
    (hJ : ∀ a, aget (applyUpdates tm x.2) a = aget x.1.prevPower a) :
    (∀ a, aget (la.foldl (leaverStep h) x).1.prevPower a = if a ∈ la then none else aget x.1.prevPower a) ∧
    (∀ a, aget (applyUpdates tm (la.foldl (leaverStep h) x).2) a = aget (la.foldl (leaverStep h) x).1.prevPower a) ∧
    (la.foldl (leaverStep h) x).1.vals = x.1.vals ∧
    (∀ u ∈ (la.foldl (leaverStep h) x).2, u ∈ x.2 ∨ (u.power = 0 ∧ u.addr ∈ la)) := by
  induction la generalizing x with
  | nil => exact ⟨fun a => by simp, hJ, rfl, fun u hu => Or.inl hu⟩
  | cons b t ih =>
    simp only [List.foldl_cons]
    obtain ⟨v, hv, hu, hva⟩ := hrec b List.mem_cons_self
    have hs : leaverStep h x b = ({ x.1 with prevPower := adel x.1.prevPower b }, x.2 ++ [⟨b, v.pk, 0⟩]) := by
      unfold leaverStep
      simp only [hv, if_neg hu, hva, if_pos hh]
    rw [hs]
    have hJ' : ∀ a, aget (applyUpdates tm (x.2 ++ [⟨b, v.pk, 0⟩])) a = aget (adel x.1.prevPower b) a := by
      intro a
      rw [applyUpdates_append]
      simp only [if_true]
      rw [aget_adel, aget_adel, hJ]
    obtain ⟨c1, c2, c3, c4⟩ := ih ({ x.1 with prevPower := adel x.1.prevPower b }, x.2 ++ [⟨b, v.pk, 0⟩])
      (fun a ha => hrec a (List.mem_cons_of_mem _ ha)) hJ'
    refine ⟨?_, c2, c3, ?_⟩
    · intro a
      rw [c1]
      simp only [List.mem_cons]
      by_cases e1 : a ∈ t
      · simp [e1]
      · by_cases e2 : a = b
        · simp [e1, e2]
        · simp [e1, e2, aget_adel_ne _ _ e2]
    · intro u hu'
      rcases c4 u hu' with h1 | ⟨h1, h2⟩
      · rcases List.mem_append.mp h1 with h' | h'
        · exact Or.inl h'
        · simp at h'; subst h'; exact Or.inr ⟨rfl, List.mem_cons_self⟩
      · exact Or.inr ⟨h1, List.mem_cons_of_mem _ h2⟩

end Nodes
